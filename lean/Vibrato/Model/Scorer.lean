/-
Model of `vibrato/src/dictionary/connector/raw_connector/scorer.rs`
(`ScorerBuilder::{insert, check_base, build}`, `Scorer::{retrieve_cost, accumulate_cost}`
in the portable and in the AVX2 variant, `U31x8::to_simd_vec`).

Conventions
* `U31` keys are `Nat`s (`< 2^31` is a hypothesis of theorems, not a type).
* `u32` cells of `bases`/`checks` are `Nat`s, `i32` costs are `Int`s.
* `BTreeMap<U31,i32>` is a `Row`: an association list sorted strictly by key.
* Panics are explicit `Outcome.panic` results.  Integer overflow of `i32` `+`
  panics when `oc = true` (debug profile, `overflow-checks = on`) and wraps when
  `oc = false` (release profile).
No Mathlib / Batteries imports.
-/
namespace Vibrato.Scorer

/-- Result of a Rust function that may return `Err` or panic. -/
inductive Outcome (α : Type) where
  | ok (a : α)
  | err
  | panic
  deriving Repr, DecidableEq, Inhabited

namespace Outcome
def bind' {α β : Type} (x : Outcome α) (f : α → Outcome β) : Outcome β :=
  match x with
  | .ok a => f a
  | .err => .err
  | .panic => .panic

instance : Monad Outcome where
  pure := .ok
  bind := bind'

@[simp] theorem ok_bind {α β : Type} (a : α) (f : α → Outcome β) : (Outcome.ok a >>= f) = f a := rfl
@[simp] theorem err_bind {α β : Type} (f : α → Outcome β) : ((Outcome.err : Outcome α) >>= f) = .err := rfl
@[simp] theorem panic_bind {α β : Type} (f : α → Outcome β) : ((Outcome.panic : Outcome α) >>= f) = .panic := rfl
@[simp] theorem pure_eq {α : Type} (a : α) : (pure a : Outcome α) = .ok a := rfl
end Outcome

/-- `UNUSED_CHECK = u32::MAX`. -/
def UNUSED_CHECK : Nat := 4294967295
/-- `INVALID_FEATURE_ID = U31::MAX = 0x7fff_ffff`. -/
def INVALID : Nat := 2147483647
/-- `SIMD_SIZE`. -/
def SIMD_SIZE : Nat := 8

/-- `BTreeMap<U31, i32>`: strictly ascending keys. -/
abbrev Row := List (Nat × Int)
/-- `ScorerBuilder::trie : Vec<BTreeMap<U31,i32>>`. -/
abbrev Trie := List Row

/-- `BTreeMap::insert` (overwrites the value of an existing key). -/
def rowInsert (k : Nat) (c : Int) : Row → Row
  | [] => [(k, c)]
  | (k', c') :: rest =>
    if k < k' then (k, c) :: (k', c') :: rest
    else if k = k' then (k, c) :: rest
    else (k', c') :: rowInsert k c rest

/-- `BTreeMap::get`. -/
def rowLookup (k : Nat) : Row → Option Int
  | [] => none
  | (k', c) :: rest => if k' = k then some c else rowLookup k rest

/-- `Vec::resize(n, v)`: truncates or extends with `v`. -/
def resize {α : Type} (l : List α) (n : Nat) (v : α) : List α :=
  l.take n ++ List.replicate (n - l.length) v

/-- `ScorerBuilder::insert`. -/
def insert (t : Trie) (key1 key2 : Nat) (cost : Int) : Trie :=
  let t := if key1 ≥ t.length then resize t (key1 + 1) [] else t
  t.modify key1 (rowInsert key2 cost)

/-- A builder filled by a sequence of `insert` calls. -/
def ofEntries (es : List (Nat × Nat × Int)) : Trie :=
  es.foldl (fun t e => insert t e.1 e.2.1 e.2.2) []

/-- `ScorerBuilder::check_base`: every slot `base ^ key2` is outside `checks` or unused. -/
def checkBase (base : Nat) (row : Row) (checks : List Nat) : Bool :=
  row.all fun e =>
    match checks[base ^^^ e.1]? with
    | some check => check == UNUSED_CHECK
    | none => true

/-- A number strictly above every key of the row. -/
def rowKeyBound : Row → Nat
  | [] => 0
  | e :: rest => max (e.1 + 1) (rowKeyBound rest)

/-- Doubling loop: a power of two strictly above `n` (fuel `n` suffices since `n < 2^n`). -/
def pow2AboveLoop (n : Nat) : Nat → Nat → Nat
  | 0, p => p
  | fuel + 1, p => if n < p then p else pow2AboveLoop n fuel (2 * p)

def pow2Above (n : Nat) : Nat := pow2AboveLoop n n 1

/-- Fuel for the base search: a power of two above every key of the row and above
`checks.len()`.  That base is always free (`Proofs/Scorer.lean: checkBase_baseFuel`), so the
search never needs more steps. -/
def baseFuel (row : Row) (checks : List Nat) : Nat :=
  pow2Above (max (rowKeyBound row) checks.length)

/-- `while !check_base(base, ..) { base += 1 }` with explicit fuel. -/
def findBaseLoop (row : Row) (checks : List Nat) : Nat → Nat → Nat
  | 0, base => base
  | fuel + 1, base =>
    if checkBase base row checks then base else findBaseLoop row checks fuel (base + 1)

/-- The first-fit base (`let mut base = 0; while !check_base(..) { base += 1 }`). -/
def findBase (row : Row) (checks : List Nat) : Nat :=
  findBaseLoop row checks (baseFuel row checks) 0

/-- The inner `for (key2, cost) in second_map` loop of `build`:
`if pos >= checks.len() { checks.resize(pos+1, UNUSED); costs.resize(pos+1, 0) }`,
`checks[pos] = key1; costs[pos] = cost`.  The two indexed stores cannot be out of range when
`checks.len() = costs.len()` (`Proofs/Scorer.lean: store_spec`), which holds in `build`
because both start empty. -/
def placeRow (key1 base : Nat) : Row → List Nat × List Int → List Nat × List Int
  | [], s => s
  | (key2, cost) :: rest, (checks, costs) =>
    let pos := base ^^^ key2
    let grow : Bool := decide (pos ≥ checks.length)
    let checks1 := if grow then resize checks (pos + 1) UNUSED_CHECK else checks
    let costs1 := if grow then resize costs (pos + 1) 0 else costs
    placeRow key1 base rest (checks1.set pos key1, costs1.set pos cost)

/-- `Scorer { bases, checks, costs }` (the AVX2 build additionally caches both lengths as
`i32` lanes; see `buildAvx2`). -/
structure Scorer where
  bases : List Nat
  checks : List Nat
  costs : List Int
  deriving Repr, DecidableEq, Inhabited

/-- The outer `for (key1, second_map) in self.trie.iter().enumerate()` loop of `build`. -/
def buildLoop : List Row → Nat → Scorer → Scorer
  | [], _, st => st
  | row :: rest, key1, st =>
    let base := findBase row st.checks
    let cc := placeRow key1 base row (st.checks, st.costs)
    buildLoop rest (key1 + 1) ⟨st.bases.set key1 base, cc.1, cc.2⟩

/-- `ScorerBuilder::build` (portable build).  `base` is a `u32` in Rust; `base += 1` cannot
overflow unless some base reaches `2^32`, see `buildChecked`. -/
def build (t : Trie) : Scorer :=
  buildLoop t 0 ⟨List.replicate t.length 0, [], []⟩

/-- `build` with the `u32` range of `base`/`key1` made explicit: a base `≥ 2^32` means that
`base += 1` overflowed (panic with overflow checks, endless wrap-around search without), and
`u32::try_from(key1).unwrap()` panics for `key1 ≥ 2^32`.  Both are modelled as `panic`. -/
def buildChecked (t : Trie) : Outcome Scorer :=
  let s := build t
  if t.length ≤ 4294967296 ∧ s.bases.all (· < 4294967296) then .ok s else .panic

/-- AVX2 build: additionally `i32::try_from(bases.len()).unwrap()` and the same for `checks`. -/
def buildAvx2 (t : Trie) : Outcome Scorer :=
  match buildChecked t with
  | .ok s => if s.bases.length < 2147483648 ∧ s.checks.length < 2147483648 then .ok s else .panic
  | e => e

/-- Portable `Scorer::retrieve_cost`.  `self.costs[pos]` panics when `costs` is shorter than
`checks` (never the case for built or decoded scorers). -/
def retrieve (s : Scorer) (key1 key2 : Nat) : Outcome (Option Int) :=
  match s.bases[key1]? with
  | some base =>
    let pos := base ^^^ key2
    match s.checks[pos]? with
    | some check =>
      if check = key1 then
        match s.costs[pos]? with
        | some c => .ok (some c)
        | none => .panic
      else .ok none
    | none => .ok none
  | none => .ok none

/-! ### `i32` arithmetic -/

def I32_MIN : Int := -2147483648
def I32_MAX : Int := 2147483647

def inI32 (x : Int) : Bool := decide (I32_MIN ≤ x) && decide (x ≤ I32_MAX)

/-- Two's complement wrap-around to `i32`. -/
def wrapI32 (x : Int) : Int := (x + 2147483648) % 4294967296 - 2147483648

/-- `a + b` on `i32`: panics on overflow with overflow checks (`oc = true`), wraps otherwise. -/
def addI32 (oc : Bool) (a b : Int) : Outcome Int :=
  if inI32 (a + b) then .ok (a + b) else if oc then .panic else .ok (wrapI32 (a + b))

/-! ### `U31x8` -/

/-- Portable `U31x8([U31; 8])`: a list of 8 lanes. -/
abbrev U31x8 := List Nat

/-- `U31x8::to_simd_vec`: `data.chunks(8)`, the last chunk padded with `pad`.
The pinned code pads with `U31::default() = 0`; the repaired code pads with `INVALID`. -/
def toSimdVecPad (pad : Nat) : Nat → List Nat → List U31x8
  | 0, _ => []
  | fuel + 1, data =>
    if data.isEmpty then []
    else (data.take 8 ++ List.replicate (8 - (data.take 8).length) pad)
      :: toSimdVecPad pad fuel (data.drop 8)

def toSimdVec (data : List Nat) : List U31x8 := toSimdVecPad 0 data.length data

/-! ### Portable `accumulate_cost` -/

/-- Inner loop over the lanes of one `U31x8` pair: `if let Some(w) = retrieve { score += w }`. -/
def accLanes (oc : Bool) (s : Scorer) : List Nat → List Nat → Int → Outcome Int
  | k1 :: r1, k2 :: r2, score =>
    match retrieve s k1 k2 with
    | .ok (some w) =>
      match addI32 oc score w with
      | .ok score' => accLanes oc s r1 r2 score'
      | e => e
    | .ok none => accLanes oc s r1 r2 score
    | .err => .err
    | .panic => .panic
  | _, _, score => .ok score

/-- Outer loop `for (key1, key2) in keys1.iter().zip(keys2)`. -/
def accChunks (oc : Bool) (s : Scorer) : List U31x8 → List U31x8 → Int → Outcome Int
  | c1 :: r1, c2 :: r2, score =>
    match accLanes oc s c1 c2 score with
    | .ok score' => accChunks oc s r1 r2 score'
    | e => e
  | _, _, score => .ok score

/-- Portable `Scorer::accumulate_cost`. -/
def accumulate (oc : Bool) (s : Scorer) (keys1 keys2 : List U31x8) : Outcome Int :=
  accChunks oc s keys1 keys2 0

/-! ### AVX2 `retrieve_cost` / `accumulate_cost`, lane by lane

A lane holds a 32-bit pattern; we keep it as the `Nat` `< 2^32` and interpret it as signed
where the intrinsic does (`_mm256_cmpgt_epi32`).  A masked gather reads memory only in lanes
whose mask is set; a read outside the vector is undefined behaviour in Rust and is reported as
`panic` by the model. -/

/-- Signed value of a 32-bit pattern. -/
def sgn32 (n : Nat) : Int := if n < 2147483648 then (n : Int) else (n : Int) - 4294967296

/-- One lane of the AVX2 `retrieve_cost`: returns the gathered cost or `0`. -/
def retrieveAvx2Lane (s : Scorer) (key1 key2 : Nat) : Outcome Int :=
  -- mask_valid_key1 = cmpgt(bases_len, key1)   (signed)
  let validKey1 : Bool := decide (sgn32 key1 < (s.bases.length : Int))
  -- base = mask_gather(0, bases, key1, mask_valid_key1)
  let baseO : Outcome Nat :=
    if validKey1 then
      (if sgn32 key1 < 0 then .panic else
        match s.bases[key1]? with
        | some b => .ok b
        | none => .panic)
    else .ok 0
  match baseO with
  | .ok base =>
    -- pos = base ^ key2
    let pos := base ^^^ key2
    -- mask_valid_pos = cmpgt(checks_len, pos) & mask_valid_key1     (signed)
    let validPos : Bool := decide (sgn32 pos < (s.checks.length : Int)) && validKey1
    -- check = mask_gather(UNUSED, checks, pos, mask_valid_pos)
    let checkO : Outcome Nat :=
      if validPos then
        (if sgn32 pos < 0 then .panic else
          match s.checks[pos]? with
          | some c => .ok c
          | none => .panic)
      else .ok UNUSED_CHECK
    match checkO with
    | .ok check =>
      -- mask_checked = cmpeq(check, key1) & mask_valid_pos
      let checked : Bool := decide (check = key1) && validPos
      -- mask_gather(0, costs, pos, mask_checked)
      if checked then
        match s.costs[pos]? with
        | some c => .ok c
        | none => .panic
      else .ok 0
    | .err => .err
    | .panic => .panic
  | .err => .err
  | .panic => .panic

/-- `_mm256_add_epi32(sums, retrieve_cost(key1, key2))`: per-lane wrapping add. -/
def avx2AddLanes (s : Scorer) : List Int → List Nat → List Nat → Outcome (List Int)
  | sum :: sums, k1 :: r1, k2 :: r2 =>
    match retrieveAvx2Lane s k1 k2 with
    | .ok w =>
      match avx2AddLanes s sums r1 r2 with
      | .ok rest => .ok (wrapI32 (sum + w) :: rest)
      | e => e
    | .err => .err
    | .panic => .panic
  | sums, _, _ => .ok sums

/-- The loop over chunk pairs. -/
def avx2Chunks (s : Scorer) : List U31x8 → List U31x8 → List Int → Outcome (List Int)
  | c1 :: r1, c2 :: r2, sums =>
    match avx2AddLanes s sums c1 c2 with
    | .ok sums' => avx2Chunks s r1 r2 sums'
    | e => e
  | _, _, sums => .ok sums

/-- `extract(0) + extract(1) + … + extract(7)`: ordinary `i32` `+`, left to right. -/
def hsum (oc : Bool) : List Int → Int → Outcome Int
  | [], acc => .ok acc
  | x :: rest, acc =>
    match addI32 oc acc x with
    | .ok acc' => hsum oc rest acc'
    | e => e

/-- AVX2 `Scorer::accumulate_cost`. -/
def accumulateAvx2 (oc : Bool) (s : Scorer) (keys1 keys2 : List U31x8) : Outcome Int :=
  match avx2Chunks s keys1 keys2 (List.replicate 8 0) with
  | .ok (x :: rest) => hsum oc rest x
  | .ok [] => .ok 0
  | .err => .err
  | .panic => .panic

end Vibrato.Scorer
