/-
Model of the corpus text format of vibrato (property C19).

Rust code mirrored here (pinned tree in /repo):

* `vibrato/src/trainer/corpus.rs`
    - `Corpus::from_reader`  ↦ `parseCorpus` (`parseCorpusWith false`)
    - `Example::write`       ↦ `writeExample`
    - `Word`, `Example`      ↦ `Word`, `Example`
* `tokenize/src/main.rs`, `OutputMode::Mecab` arm of the printing loop ↦ `mecabOutput`
* `std::io::BufRead::lines` (`read_line` = `read_until(b'\n')` + `str::from_utf8` on the
  appended bytes, then pop one `"\n"` and, only if a `"\n"` was popped, one `"\r"`)
    ↦ `rawLines`, `validUtf8`, `stripEol`

Strings are modelled as byte lists (`List UInt8`); a Rust `String` is a byte list that
satisfies `validUtf8`.  The input of `from_reader` is an arbitrary byte list, so malformed
UTF-8 is covered (it makes `lines()` yield an `Err`, which `line?` turns into `Err`).
`str::split('\t')` is modelled on bytes: for valid UTF-8 the byte 0x09 occurs only as the
character U+0009, so splitting bytes and splitting chars agree.

I/O errors of the underlying reader/writer are not modelled (in-memory input/output).

No Mathlib / Batteries imports: this file is linked into the model driver executable.
-/
namespace Vibrato.Corpus

/-- Result of a Rust function: `Ok`, `Err`, or a panic.  (`from_reader` has no panic site;
the constructor is kept so that the observation type is the same as for the other models.) -/
inductive Outcome (α : Type) where
  | ok (a : α)
  | err
  | panic
  deriving Repr, DecidableEq

/-- `vibrato::trainer::Word`. Both fields are Rust `String`s. -/
structure Word where
  surface : List UInt8
  feature : List UInt8
  deriving Repr, DecidableEq

/-- `vibrato::trainer::Example`.  The field `sentence` of the Rust struct is the
concatenation of the token surfaces (`set_sentence(input)`), see `Example.sentence`. -/
structure Example where
  tokens : List Word
  deriving Repr, DecidableEq

/-- `input` built in the `EOS` arm: `for token in &tokens { input.push_str(token.surface()) }`. -/
def sentenceOf (tokens : List Word) : List UInt8 :=
  tokens.flatMap (·.surface)

def Example.sentence (e : Example) : List UInt8 := sentenceOf e.tokens

/-! ### Byte constants -/

def TAB : UInt8 := 9
def LF : UInt8 := 10
def CR : UInt8 := 13
/-- `"EOS"` -/
def EOS : List UInt8 := [69, 79, 83]

/-! ### `str::from_utf8` (validity only)

The automaton of the Unicode standard, table 3-7 (the same language as Rust's
`core::str::validations::run_utf8_validation`): no overlong forms, no surrogates,
nothing above U+10FFFF. -/

inductive Utf8State where
  /-- between scalar values (accepting) -/
  | start
  /-- one continuation byte `80..BF` missing -/
  | c1
  /-- two continuation bytes missing -/
  | c2
  /-- three continuation bytes missing -/
  | c3
  /-- after `E0`: next byte `A0..BF`, then one more -/
  | e0
  /-- after `ED`: next byte `80..9F`, then one more -/
  | ed
  /-- after `F0`: next byte `90..BF`, then two more -/
  | f0
  /-- after `F4`: next byte `80..8F`, then two more -/
  | f4
  deriving Repr, DecidableEq

def utf8Step (q : Utf8State) (b : UInt8) : Option Utf8State :=
  let n := b.toNat
  match q with
  | .start =>
    if n < 0x80 then some .start
    else if 0xC2 ≤ n ∧ n ≤ 0xDF then some .c1
    else if n = 0xE0 then some .e0
    else if (0xE1 ≤ n ∧ n ≤ 0xEC) ∨ n = 0xEE ∨ n = 0xEF then some .c2
    else if n = 0xED then some .ed
    else if n = 0xF0 then some .f0
    else if 0xF1 ≤ n ∧ n ≤ 0xF3 then some .c3
    else if n = 0xF4 then some .f4
    else none
  | .c1 => if 0x80 ≤ n ∧ n ≤ 0xBF then some .start else none
  | .c2 => if 0x80 ≤ n ∧ n ≤ 0xBF then some .c1 else none
  | .c3 => if 0x80 ≤ n ∧ n ≤ 0xBF then some .c2 else none
  | .e0 => if 0xA0 ≤ n ∧ n ≤ 0xBF then some .c1 else none
  | .ed => if 0x80 ≤ n ∧ n ≤ 0x9F then some .c1 else none
  | .f0 => if 0x90 ≤ n ∧ n ≤ 0xBF then some .c2 else none
  | .f4 => if 0x80 ≤ n ∧ n ≤ 0x8F then some .c2 else none

def utf8Run : Utf8State → List UInt8 → Bool
  | .start, [] => true
  | _, [] => false
  | q, b :: bs =>
    match utf8Step q b with
    | some q' => utf8Run q' bs
    | none => false

/-- `core::str::from_utf8(bytes).is_ok()`. -/
def validUtf8 (bs : List UInt8) : Bool := utf8Run .start bs

/-! ### `BufRead::lines` -/

/-- The successive results of `read_until(b'\n', ..)`: every item ends with `\n` except
possibly the last one; an empty remainder yields nothing (`Ok(0) => None`). -/
def rawLines : List UInt8 → List (List UInt8)
  | [] => []
  | b :: bs =>
    if b = LF then [LF] :: rawLines bs
    else
      match rawLines bs with
      | [] => [[b]]
      | l :: ls => (b :: l) :: ls

/-- `Lines::next` after a successful `read_line`:
```
if buf.ends_with('\n') { buf.pop(); if buf.ends_with('\r') { buf.pop(); } }
```
A `\r` is removed only directly before a removed `\n`, and only one. -/
def stripEol (l : List UInt8) : List UInt8 :=
  if l.getLast? = some LF then
    let l1 := l.dropLast
    if l1.getLast? = some CR then l1.dropLast else l1
  else l

/-! ### `line.split('\t')` -/

/-- `line.split('\t')` as (first item, remaining items).  `split` on a `str` always
yields at least one item, also for the empty string. -/
def splitTab : List UInt8 → List UInt8 × List (List UInt8)
  | [] => ([], [])
  | b :: bs =>
    let r := splitTab bs
    if b = TAB then ([], r.1 :: r.2) else (b :: r.1, r.2)

/-- The three arms of `match (surface, feature, rest)`. -/
inductive LineKind where
  | token (w : Word)
  | eos
  | bad
  deriving Repr, DecidableEq

/-- One loop iteration's `match (spl.next(), spl.next(), spl.next())`.

* `(Some(surface), Some(feature), None)`  – exactly one tab – a token,
* `(Some("EOS"), None, None)`             – no tab and the line is `EOS` – end of sentence,
* everything else (no tab and not `EOS`, in particular the empty line; two or more tabs)
  is the `invalid_format` error.

`fixed = true` is the minimally repaired reader: a token line whose feature still ends
in `\r` after `lines()` removed the line terminator (i.e. the line ended in `\r\r\n`, or
is an unterminated last line ending in `\r`) is rejected instead of being stored – such a
word cannot be written back faithfully.  `fixed = false` is the pinned tree. -/
def classify (fixed : Bool) (line : List UInt8) : LineKind :=
  match splitTab line with
  | (s, [f]) =>
    if fixed && f.getLast? = some CR then .bad else .token ⟨s, f⟩
  | (s, []) => if s = EOS then .eos else .bad
  | (_, _ :: _ :: _) => .bad

/-- The `for line in buf.lines()` loop of `Corpus::from_reader`, with its two mutable
vectors `examples` and `tokens` (push = append at the end).  The list argument is the
remaining output of the `lines()` iterator (raw, before validation and stripping, which
happen when the item is pulled). -/
def parseLoop (fixed : Bool) :
    List Example → List Word → List (List UInt8) → Outcome (List Example)
  -- iterator exhausted: `Ok(Self { examples })`; pending `tokens` are discarded
  | examples, _, [] => .ok examples
  | examples, tokens, raw :: rest =>
    -- `let line = line?;` – `read_line` fails with InvalidData on malformed UTF-8
    if !validUtf8 raw then .err
    else
      match classify fixed (stripEol raw) with
      | .token w => parseLoop fixed examples (tokens ++ [w]) rest
      | .eos =>
        -- `if !input.is_empty() { examples.push(Example { sentence, tokens }) }`
        if sentenceOf tokens ≠ [] then parseLoop fixed (examples ++ [⟨tokens⟩]) [] rest
        else parseLoop fixed examples [] rest
      | .bad => .err

/-- `Corpus::from_reader` (optionally the repaired variant). -/
def parseCorpusWith (fixed : Bool) (input : List UInt8) : Outcome (List Example) :=
  parseLoop fixed [] [] (rawLines input)

/-- `Corpus::from_reader` on the pinned tree. -/
def parseCorpus (input : List UInt8) : Outcome (List Example) :=
  parseCorpusWith false input

/-! ### Writers -/

/-- `writeln!(wtr, "{}\t{}", word.surface, word.feature)`; also the four `write_all`
calls per token of the tokenizer CLI. -/
def writeWord (w : Word) : List UInt8 :=
  w.surface ++ TAB :: (w.feature ++ [LF])

/-- `"EOS\n"` -/
def eosLine : List UInt8 := EOS ++ [LF]

/-- `Example::write`. -/
def writeExample (e : Example) : List UInt8 :=
  e.tokens.flatMap writeWord ++ eosLine

/-- What `evaluate/src/split.rs` does with a run of examples: `example.write(&mut wtr)`
one after the other into the same sink. -/
def writeCorpus (exs : List Example) : List UInt8 :=
  exs.flatMap writeExample

/-- The bytes the tokenizer CLI (`-O mecab`, the default) prints for one input line whose
tokens are `toks` (as (surface, feature) pairs in order):
```
for i in 0..worker.num_tokens() { surface, b"\t", feature, b"\n" }   out.write_all(b"EOS\n")
```
-/
def mecabOutput (toks : List Word) : List UInt8 :=
  toks.flatMap (fun t => t.surface ++ [TAB] ++ t.feature ++ [LF]) ++ EOS ++ [LF]

/-! ### Well-formedness predicates used by the C19 theorems (all decidable) -/

/-- What every `Word` produced by `from_reader` satisfies: both fields are valid UTF-8
(type invariant of `String`) and contain neither a tab nor a line feed. -/
def WordRepr (w : Word) : Prop :=
  validUtf8 w.surface = true ∧ validUtf8 w.feature = true ∧
  TAB ∉ w.surface ∧ LF ∉ w.surface ∧ TAB ∉ w.feature ∧ LF ∉ w.feature

instance (w : Word) : Decidable (WordRepr w) := by unfold WordRepr; infer_instance

/-- The feature does not end in a carriage return. -/
def NoTrailingCR (w : Word) : Prop := w.feature.getLast? ≠ some CR

instance (w : Word) : Decidable (NoTrailingCR w) := by unfold NoTrailingCR; infer_instance

/-- A word that survives `write` followed by `from_reader` unchanged. -/
def WordWF (w : Word) : Prop := WordRepr w ∧ NoTrailingCR w

instance (w : Word) : Decidable (WordWF w) := by unfold WordWF; infer_instance

/-- All words well-formed. -/
def ExampleWF (e : Example) : Prop := ∀ w ∈ e.tokens, WordWF w

instance (e : Example) : Decidable (ExampleWF e) := by unfold ExampleWF; infer_instance

/-- `!input.is_empty()` in the `EOS` arm: some surface is non-empty. -/
def Example.NonEmpty (e : Example) : Prop := e.sentence ≠ []

instance (e : Example) : Decidable e.NonEmpty := by unfold Example.NonEmpty; infer_instance

end Vibrato.Corpus
