/-
Model of `vibrato/src/mecab.rs::generate_bigram_info`.

    generate_bigram_info(feature.def, right-id.def, left-id.def, model.def, cost_factor,
                         → bigram.right, bigram.left, bigram.cost)

The function is modelled in two layers:
* `generateCore` — everything up to and including the `model.def` loop, on structured data
  (`Gen`: the final extractor state, the two `HashMap<usize, Vec<Option<NonZeroU32>>>` as
  association lists, the cost lines as triples);
* `emitRows` / rendering — the two dense emission loops `for id in 1..map.len()` and the text of
  the three files.  `generateBigramInfo` is their composition and returns the three files.

`fixed = false` is the code of the pinned tree.  There, `for id in 1..map.len()` uses the number
of DISTINCT ids as the bound, so when id 0 is not defined in an id file the largest id (or any id
`≥ len`) is silently dropped and gaps go unnoticed (finding F12).  `fixed = true` models the
minimal repair "an id file that does not define id 0 is an error" (`emit`).

The writers are in-memory (`Vec<u8>`), so `write!` cannot fail; when the function returns `Err`
after having written part of the output the observation is just `err`.

Regexes (lines come from `BufRead::lines`, so they contain no `\n`; `.` matches everything else):
* `^([0-9]+) (.*)$`      → `idLine`: a non-empty run of ASCII digits, one space, the rest;
* `^([0-9\-\.]+)\t(.*)$` → `modelLine`: a non-empty run of `0-9 - .`, a tab, the rest.
A `model.def` line that does not match is *skipped* (there is no `else`), while a line of the id
files that does not match is an error.

Floats.  `str::parse::<f64>` restricted to the characters the regex admits accepts
`-? (d+ | d+ . d* | d* . d+)` and returns the correctly rounded (nearest, ties to even) double,
`inf` beyond the range; this is modelled by `parseF64` with exact rational arithmetic
(`ratToFloat`) — **trusted**, validated by the differential runs.  `weight * cost_factor` is the
IEEE product (`Float.mul`), unary minus flips the sign bit, `as i32` is `Float.toInt32`
(truncation toward zero, saturating, NaN ↦ 0).  Note that unary minus binds tighter than `as`:
the expression is `(-(weight * cost_factor)) as i32`.

No Mathlib / Batteries imports.
-/
import Vibrato.Model.Extractor

namespace Vibrato.Mecab

open Vibrato (Outcome)
open Vibrato.Extractor

/-! ## Line scanners -/

/-- `^([0-9]+) (.*)$` → (digits, rest). -/
def idLine (line : Str) : Option (Str × Str) :=
  let ds := line.takeWhile isDigit
  if ds.isEmpty then none
  else match line.drop ds.length with
    | ' ' :: rest => some (ds, rest)
    | _ => none

def isWeightChar (c : Char) : Bool := isDigit c || c = '-' || c = '.'

/-- `^([0-9\-\.]+)\t(.*)$` → (weight text, rest). -/
def modelLine (line : Str) : Option (Str × Str) :=
  let w := line.takeWhile isWeightChar
  if w.isEmpty then none
  else match line.drop w.length with
    | '\t' :: rest => some (w, rest)
    | _ => none

/-! ## `str::parse::<f64>` on `[0-9\-\.]+` (trusted) -/

/-- The correctly rounded double of `num / den` (`num, den > 0`): nearest, ties to even, overflow
to `inf`, gradual underflow. -/
def ratToFloat (num den : Nat) : Float :=
  -- p = floor(log2(num/den)) ∈ {p0 - 1, p0}
  let p0 : Int := (num.log2 : Int) - (den.log2 : Int)
  let ge : Bool := if p0 ≥ 0 then den * 2 ^ p0.toNat ≤ num else den ≤ num * 2 ^ (-p0).toNat
  let p : Int := if ge then p0 else p0 - 1
  -- exponent of the unit in the last place
  let u : Int := if p - 52 ≥ -1074 then p - 52 else -1074
  let n' : Nat := if u ≥ 0 then num else num * 2 ^ (-u).toNat
  let d' : Nat := if u ≥ 0 then den * 2 ^ u.toNat else den
  let q := n' / d'
  let r := n' % d'
  let q' := if 2 * r > d' then q + 1 else if 2 * r = d' then (if q % 2 = 1 then q + 1 else q) else q
  (Float.ofNat q').scaleB u

/-- `parse::<f64>()` for a string over `0-9 - .`; `none` = `Err(ParseFloatError)`. -/
def parseF64 (s : Str) : Option Float :=
  let (neg, body) := match s with
    | '-' :: r => (true, r)
    | _ => (false, s)
  let ip := body.takeWhile isDigit
  let rest := body.drop ip.length
  let fp? : Option Str := match rest with
    | [] => some []
    | '.' :: f => if f.all isDigit then some f else none
    | _ => none
  match fp? with
  | none => none
  | some fp =>
    if ip.isEmpty && fp.isEmpty then none
    else
      let m := digitsVal (ip ++ fp)
      let x := if m = 0 then (0.0 : Float) else ratToFloat m (10 ^ fp.length)
      some (if neg then -x else x)

/-- `-(weight * cost_factor) as i32` -/
def costOf (weight costFactor : Float) : Int := (-(weight * costFactor)).toInt32.toInt

/-! ## Small string helpers -/

/-- `str::replace("BOS/EOS", "")` -/
def replaceBosEos : Str → Str
  | 'B' :: 'O' :: 'S' :: '/' :: 'E' :: 'O' :: 'S' :: rest => replaceBosEos rest
  | c :: cs => c :: replaceBosEos cs
  | [] => []

/-- `i32::to_string` -/
def intToStr (i : Int) : Str :=
  if i < 0 then '-' :: natToStr i.natAbs else natToStr i.natAbs

/-- `HashMap<usize, V>::insert`: replaces the value of an existing key. -/
def insertKV {β : Type} (m : List (Nat × β)) (k : Nat) (v : β) : List (Nat × β) :=
  match m with
  | [] => [(k, v)]
  | (k', v') :: rest => if k' = k then (k, v) :: rest else (k', v') :: insertKV rest k v

def getKV {β : Type} (m : List (Nat × β)) (k : Nat) : Option β :=
  match m with
  | [] => none
  | (k', v') :: rest => if k' = k then some v' else getKV rest k

/-! ## The three input loops -/

/-- The feature text of the BOS/EOS entry. -/
def bosEos : Str := "BOS/EOS".toList

abbrev Rows := List (Nat × List (Option Nat))

/-- The `right-id.def` loop (`left = true`: fills `left_features` via `extract_left_feature_ids`)
and the `left-id.def` loop (`left = false`). -/
def idLoop (left : Bool) : List (Option Str) → ExtractorState → Rows → Outcome (ExtractorState × Rows)
  | [], st, rows => .ok (st, rows)
  | none :: _, _, _ => .err                               -- `line?`
  | some line :: rest, st, rows =>
    match idLine line with
    | none => .err                                        -- "each line must be a pair …"
    | some (ds, featureStr) =>
      if digitsVal ds > usizeMax then .err                -- `parse::<usize>()?`
      else
        let id := digitsVal ds
        match csvRow featureStr with
        | .ok cells =>
          if id = 0 ∧ cells.head? ≠ some bosEos then .err   -- "ID 0 must be BOS/EOS"
          else
            match (if left then extractLeft st cells else extractRight st cells) with
            | .ok (ids, st') => idLoop left rest st' (insertKV rows id ids)
            | .err => .err
            | .panic => .panic
        | .err => .err
        | .panic => .panic

/-- One `bigram.cost` line: (left feature id text, right feature id text, cost). -/
abbrev CostLine := Str × Str × Int

/-- What one `model.def` line contributes: `none` = `Err`, `some none` = nothing written. -/
def modelStep (st : ExtractorState) (costFactor : Float) (line : Str) : Option (Option CostLine) :=
  match modelLine line with
  | none => some none
  | some (w, text) =>
    match parseF64 w with
    | none => none                                        -- `parse::<f64>()?`
    | some weight =>
      let cost := costOf weight costFactor
      if cost = 0 then some none
      else
        match Text.splitOn '/' (replaceBosEos text) with
        | l :: r :: _ =>
          let lid? : Option Str :=
            if l.isEmpty then some [] else (lookup st.left l).map natToStr
          let rid? : Option Str :=
            if r.isEmpty then some [] else (lookup st.right r).map natToStr
          match lid?, rid? with
          | some lid, some rid => some (some (lid, rid, cost))
          | _, _ => some none
        | _ => some none

def modelLoop (st : ExtractorState) (costFactor : Float) : List (Option Str) → Option (List CostLine)
  | [] => some []
  | none :: _ => none
  | some line :: rest =>
    match modelStep st costFactor line with
    | none => none
    | some none => modelLoop st costFactor rest
    | some (some e) => (modelLoop st costFactor rest).map (e :: ·)

/-- State before the emission loops. -/
structure Gen where
  st : ExtractorState
  leftFeatures : Rows     -- from right-id.def → bigram.right
  rightFeatures : Rows    -- from left-id.def  → bigram.left
  costs : List CostLine

def generateCore (featureDef rightIdDef leftIdDef modelDef : List UInt8) (costFactor : Float) :
    Outcome Gen :=
  match parseFeatureConfig featureDef with
  | .ok st0 =>
    match idLoop true (readLines rightIdDef) st0 [] with
    | .ok (st1, lf) =>
      match idLoop false (readLines leftIdDef) st1 [] with
      | .ok (st2, rf) =>
        match modelLoop st2 costFactor (readLines modelDef) with
        | some cs => .ok ⟨st2, lf, rf, cs⟩
        | none => .err
      | .err => .err
      | .panic => .panic
    | .err => .err
    | .panic => .panic
  | .err => .err
  | .panic => .panic

/-! ## Emission -/

/-- `for id in 1..map.len()`: the rows of ids `1 … len-1`; `none` = "feature ID {id} is
undefined".  (`from = 1`, `count = len - 1`.) -/
def emitFrom (m : Rows) : Nat → Nat → Option (List (List (Option Nat)))
  | _, 0 => some []
  | id, count + 1 =>
    match getKV m id with
    | none => none
    | some row => (emitFrom m (id + 1) count).map (row :: ·)

def emitRows (m : Rows) : Option (List (List (Option Nat))) := emitFrom m 1 (m.length - 1)

def cellText : Option Nat → Str
  | some id => natToStr id
  | none => ['*']

def joinCells : List Str → Str
  | [] => []
  | [c] => c
  | c :: cs => c ++ ',' :: joinCells cs

/-- One line of `bigram.right` / `bigram.left`. -/
def renderRow (id : Nat) (row : List (Option Nat)) : Str :=
  natToStr id ++ '\t' :: (joinCells (row.map cellText) ++ ['\n'])

def renderRowsFrom : Nat → List (List (Option Nat)) → Str
  | _, [] => []
  | id, r :: rs => renderRow id r ++ renderRowsFrom (id + 1) rs

def renderRows (rows : List (List (Option Nat))) : Str := renderRowsFrom 1 rows

def renderCost (e : CostLine) : Str := e.1 ++ '/' :: (e.2.1 ++ '\t' :: (intToStr e.2.2 ++ ['\n']))

def renderCosts (cs : List CostLine) : Str := cs.flatMap renderCost

def toBytes (s : Str) : List UInt8 := (String.ofList s).toUTF8.toList

/-- Structured result: rows of `bigram.right`, rows of `bigram.left`, lines of `bigram.cost`. -/
structure Files where
  right : List (List (Option Nat))
  left : List (List (Option Nat))
  cost : List CostLine

def emit (fixed : Bool) (g : Gen) : Outcome Files :=
  -- repaired code only (finding F12): an id table that does not define id 0 is an error
  if fixed && ((getKV g.leftFeatures 0).isNone || (getKV g.rightFeatures 0).isNone) then .err
  else
  match emitRows g.leftFeatures with
  | none => .err
  | some rr =>
    match emitRows g.rightFeatures with
    | none => .err
    | some lr => .ok ⟨rr, lr, g.costs⟩

def generateFiles (fixed : Bool) (featureDef rightIdDef leftIdDef modelDef : List UInt8)
    (costFactor : Float) : Outcome Files :=
  match generateCore featureDef rightIdDef leftIdDef modelDef costFactor with
  | .ok g => emit fixed g
  | .err => .err
  | .panic => .panic

/-- `generate_bigram_info`: the bytes of (`bigram.right`, `bigram.left`, `bigram.cost`). -/
def generateBigramInfo (fixed : Bool) (featureDef rightIdDef leftIdDef modelDef : List UInt8)
    (costFactor : Float) : Outcome (List UInt8 × List UInt8 × List UInt8) :=
  match generateFiles fixed featureDef rightIdDef leftIdDef modelDef costFactor with
  | .ok f => .ok (toBytes (renderRows f.right), toBytes (renderRows f.left), toBytes (renderCosts f.cost))
  | .err => .err
  | .panic => .panic

end Vibrato.Mecab
