/-
Chain sentences (stream `tokchain`, property C02 "costs within 32-bit range"): one word `a` of word cost `w`, one connection
cost `c` everywhere; the sentence is `a` repeated `n` times.  No Mathlib imports.
-/
import Vibrato.Model.Lattice

namespace Vibrato

/-- the lattice environment of `a`×`n`: at every position the only candidate is the one-character word -/
def chainEnv (n : Nat) (w c : Int) : LatEnv :=
  { len := n
    conn := fun _ _ => c
    skip := fun _ => 0
    cands := fun p =>
      if p < n then [{ endWord := p + 1, wordId := 0, lexType := 0, leftId := 0, rightId := 0, wordCost := w }] else [] }

end Vibrato
