/-
Model of the step from the five SEED FILES of a training set-up (lex.csv, char.def, unk.def,
feature.def, rewrite.def) to the label feature sets the trainer registers:

* `vibrato/src/trainer/config.rs::TrainerConfig::parse_rewrite_config`  → `parseRewriteDef`
  (line loop of `BufRead::lines`, section headers, `parse_rewrite_rule`, and the `add_rule` call the
  code makes for every rule line WHILE it is still reading the file: a panic of `add_rule` on an
  early line wins over a format error on a later line);
* `TrainerConfig::from_readers`                                          → `fromReaders`
  (order of the code: feature.def, rewrite.def, lex.csv, the constant `1 1\n0 0 0` matrix,
  char.def, unk.def, `SystemDictionaryBuilder::build`);
* `vibrato/src/trainer.rs::Trainer::new`                                 → `trainerNew`,
  `labelFeatureSets`, `labelIdMap`, `labelIdMapUnk`.

Existing building blocks that are reused unchanged:
`Extractor.parseFeatureConfig` / `extractFeatureSet` (feature.def, `Trainer::extract_feature_set`),
`Rewriter.addRule` / `parseRewriteRule` / `trim` (rule semantics and cell syntax: `*`, `(a|b)`,
`$n` = regex `^\$([0-9]+)$`), `buildMatrixDict` (= `SystemDictionaryBuilder::from_readers`, whose
body `TrainerConfig::from_readers` repeats with the fixed matrix), `CharProp.charInfo`.

What `Trainer::new` does, in the order of the code:

    for word_id in 0..u32::try_from(config.surfaces.len()).unwrap()        -- panic: > u32::MAX rows
      feature_str = system_lexicon.word_feature(word_id)                     -- index
      first_char  = surfaces[word_id].chars().next().unwrap()                -- panic: empty surface
      cate_id     = char_prop.char_info(first_char).base_id()
      feature_set = extract_feature_set(.., feature_str, cate_id)            -- panics of the extractor
      label_id    = provider.add_feature_set(feature_set)?                   -- Err: > u32::MAX sets
      label_id_map[feature_str][first_char] = label_id                       -- later rows overwrite
    for word_id in 0..u32::try_from(unk_handler.len()).unwrap()
      feature_str = unk.word_feature(word_id); cate_id = unk.word_cate_id(word_id)
      label_id_map_unk.push(provider.add_feature_set(extract_feature_set(..))?)

Facts about the order of labels that are visible in the model (and were checked differentially):
* NO de-duplication: `rucrf::FeatureProvider::add_feature_set` pushes and returns `len`, so the
  label ids are `1 … n` with the lexicon rows first, in FILE order (`parse_csv` keeps file order,
  rows with an empty surface are skipped by the parser), followed by the unk.def rows GROUPED BY
  CATEGORY ID in the order of char.def (`UnkHandler::from_reader` buckets the rows by category;
  within a category file order is kept) — not in file order;
* `label_id_map` is keyed by (feature string, first character), so of several lexicon rows with the
  same key only the LAST keeps an entry there; every row keeps its own label id nevertheless (the
  negative edges of the lattice use `word_id + 1`).

Strings: the extractor model works on `List Char`; the dictionary model keeps feature strings as
the UTF-8 bytes of the file.  `strOfBytes` decodes (`parse_csv` has validated the bytes, the Rust
value is a `&str`); the `none` branch is mapped to `panic` and is unreachable
(`Proofs/TrainerNew.lean`).

No Mathlib / Batteries imports: linked into the model driver executable.
-/
import Vibrato.Model.Extractor
import Vibrato.Model.Dict

namespace Vibrato.TrainerNew

open Vibrato (Outcome Fixes DictM LexEntry UnkEntryM CharProp)
open Vibrato.Extractor
  (Str ExtractorState FeatureSet extractFeatureSet parseFeatureConfig ofRewriter u32Max)

/-! ## `TrainerConfig::parse_rewrite_config` -/

/-- The three `FeatureRewriterBuilder`s (`nodes: vec![Node::default()]` each). -/
structure Rewriters where
  uni : Rewriter.Trie := [[]]
  left : Rewriter.Trie := [[]]
  right : Rewriter.Trie := [[]]
  deriving Repr, DecidableEq

/-- `builder.as_mut()` for the current section. -/
def Rewriters.get (r : Rewriters) : Rewriter.Section → Rewriter.Trie
  | .unigram => r.uni
  | .left => r.left
  | .right => r.right

def Rewriters.set (r : Rewriters) : Rewriter.Section → Rewriter.Trie → Rewriters
  | .unigram, t => { r with uni := t }
  | .left, t => { r with left := t }
  | .right, t => { r with right := t }

/-- The `for line in reader.lines()` loop of `parse_rewrite_config`.  A line is `none` when it is
not valid UTF-8 (`line?` returns the `Err`).  `sec` is `builder: Option<&mut FeatureRewriterBuilder>`.
`fixed` is the edge-reuse policy of `add_rule` (finding F10; `true` = repaired tree). -/
def rewriteLines (fixed : Bool) :
    List (Option Str) → Option Rewriter.Section → Rewriters → Outcome Rewriters
  | [], _, rw => .ok rw
  | none :: _, _, _ => .err
  | some line :: rest, sec, rw =>
    let line := Rewriter.trim line
    if line.isEmpty || line.head? = some '#' then rewriteLines fixed rest sec rw
    else if line = "[unigram rewrite]".toList then rewriteLines fixed rest (some .unigram) rw
    else if line = "[left rewrite]".toList then rewriteLines fixed rest (some .left) rw
    else if line = "[right rewrite]".toList then rewriteLines fixed rest (some .right) rw
    else
      match sec with
      | none => .err                                     -- rule line before any section header
      | some s =>
        match Rewriter.parseRewriteRule line with
        | none => .err                                   -- not exactly two columns
        | some r =>
          match ofRewriter (Rewriter.addRule fixed (rw.get s) r.1 r.2) with
          | .ok t => rewriteLines fixed rest (some s) (rw.set s t)
          | .err => .err
          | .panic => .panic                             -- `$0`, `$n` with n > usize::MAX

/-- `TrainerConfig::parse_rewrite_config(rdr)` on the bytes of rewrite.def. -/
def parseRewriteDef (fixed : Bool) (bytes : List UInt8) : Outcome Rewriters :=
  rewriteLines fixed (Extractor.readLines bytes) none {}

/-! ## `TrainerConfig::from_readers` -/

/-- `b"1 1\n0 0 0"`: the connector every training configuration is built with. -/
def matrix11 : List UInt8 := [49, 32, 49, 10, 48, 32, 48, 32, 48]

/-- `struct TrainerConfig` (`surfaces` = the surfaces of `dict.sys.entries`). -/
structure Config where
  ext : ExtractorState
  rw : Rewriters
  dict : DictM
  deriving Repr

/-- `TrainerConfig::from_readers(lexicon, char_prop, unk_handler, feature_templates, rewrite_rules)`.
Since the connector is 1 × 1, `build` rejects every lexicon / unk.def row whose left or right id is
not 0 (`Lexicon::verify`, `UnkHandler::verify`). -/
def fromReaders (fx : Fixes) (lex chardef unk featureDef rewriteDef : List UInt8) : Outcome Config :=
  match parseFeatureConfig featureDef with
  | .err => .err
  | .panic => .panic
  | .ok ext =>
    match parseRewriteDef fx.f10 rewriteDef with
    | .err => .err
    | .panic => .panic
    | .ok rw =>
      match Vibrato.buildMatrixDict fx lex matrix11 chardef unk with
      | .err => .err
      | .panic => .panic
      | .ok D => .ok ⟨ext, rw, D⟩

/-! ## `Trainer::new` -/

/-- A `&str` of the dictionary as the character list the extractor model works on. -/
def strOfBytes (bs : List UInt8) : Option Str := (Text.decodeLine bs).map String.toList

/-- The accumulator of the two loops: `provider.feature_sets` and `config.feature_extractor`. -/
abbrev Acc := List FeatureSet × ExtractorState

/-- One loop body after `feature_str` and `cate_id` are known: `extract_feature_set`, then
`provider.add_feature_set(..)?` (`u32::try_from(self.feature_sets.len() + 1)`). -/
def addLabel (rw : Rewriters) (acc : Acc) (feature : List UInt8) (cate : Nat) : Outcome Acc :=
  match strOfBytes feature with
  | none => .panic                                        -- not reachable: the value is a `&str`
  | some f =>
    match extractFeatureSet acc.2 rw.uni rw.left rw.right f cate with
    | .err => .err
    | .panic => .panic
    | .ok (fs, st') =>
      if acc.1.length + 1 > u32Max then .err else .ok (acc.1 ++ [fs], st')

/-- The first loop, over the system lexicon: entries and the feature table in parallel. -/
def lexLoop (P : CharProp) (rw : Rewriters) :
    List LexEntry → List (List UInt8) → Acc → Outcome Acc
  | [], _, acc => .ok acc
  | _ :: _, [], _ => .panic                               -- `features.get(word_id)` out of range
  | e :: es, f :: fs, acc =>
    match e.surface.head? with
    | none => .panic                                      -- `.chars().next().unwrap()`
    | some c =>
      match addLabel rw acc f (P.charInfo c).baseId with
      | .ok acc' => lexLoop P rw es fs acc'
      | .err => .err
      | .panic => .panic

/-- The second loop, over the unknown-word entries (already grouped by category id). -/
def unkLoop (rw : Rewriters) : List UnkEntryM → Acc → Outcome Acc
  | [], acc => .ok acc
  | e :: es, acc =>
    match addLabel rw acc e.feature e.cateId with
    | .ok acc' => unkLoop rw es acc'
    | .err => .err
    | .panic => .panic

/-- `Trainer::new(config)`: the provider's feature sets (label `i + 1` = element `i`) and the
feature extractor afterwards. -/
def trainerNew (cfg : Config) : Outcome Acc :=
  if cfg.dict.sys.entries.length > u32Max then .panic     -- `u32::try_from(surfaces.len()).unwrap()`
  else
    match lexLoop cfg.dict.chars cfg.rw cfg.dict.sys.entries cfg.dict.sys.features ([], cfg.ext) with
    | .err => .err
    | .panic => .panic
    | .ok acc =>
      if cfg.dict.unk.length > u32Max then .panic         -- `u32::try_from(unk_handler.len()).unwrap()`
      else unkLoop cfg.rw cfg.dict.unk acc

/-- From the five files to the label feature sets (in label order: ids `1 … n`, lexicon rows in
file order, then the unk.def rows grouped by category) and the final extractor state (the three
interning maps, the three `next_id` counters, the parsed templates). -/
def labelFeatureSets (fx : Fixes) (lex chardef unk featureDef rewriteDef : List UInt8) :
    Outcome (List FeatureSet × ExtractorState) :=
  match fromReaders fx lex chardef unk featureDef rewriteDef with
  | .err => .err
  | .panic => .panic
  | .ok cfg => trainerNew cfg

/-! ## The label rows (what each label is built from) -/

/-- One label: the feature string and the category id handed to `extract_feature_set`. -/
structure LabelRow where
  feature : List UInt8
  cate : Nat
  deriving Repr, DecidableEq

/-- Rows of the system lexicon (defined when no surface is empty; the feature table is as long
as the entry table for every built dictionary). -/
def lexLabelRows (P : CharProp) : List LexEntry → List (List UInt8) → List LabelRow
  | e :: es, f :: fs =>
    ⟨f, (P.charInfo (e.surface.headD 0)).baseId⟩ :: lexLabelRows P es fs
  | _, _ => []

def unkLabelRows (U : List UnkEntryM) : List LabelRow := U.map fun e => ⟨e.feature, e.cateId⟩

/-- All label rows of a configuration, in label order. -/
def labelRows (cfg : Config) : List LabelRow :=
  lexLabelRows cfg.dict.chars cfg.dict.sys.entries cfg.dict.sys.features ++ unkLabelRows cfg.dict.unk

/-! ## `label_id_map`, `label_id_map_unk` -/

/-- `label_id_map: HashMap<String, HashMap<char, NonZeroU32>>` as the list of insertions
`((feature string, first character), label id)` in insertion order; `insert` overwrites, so a
lookup takes the LAST matching entry (`labelIdOf`). -/
def labelIdMap (D : DictM) : List ((List UInt8 × Nat) × Nat) :=
  ((D.sys.entries.zip D.sys.features).zipIdx).map fun p =>
    ((p.1.2, p.1.1.surface.headD 0), p.2 + 1)

/-- `self.label_id_map.get(feature).and_then(|hm| hm.get(&first_char))`. -/
def labelIdOf (D : DictM) (feature : List UInt8) (c : Nat) : Option Nat :=
  ((labelIdMap D).reverse.find? fun p => p.1 = (feature, c)).map (·.2)

/-- `label_id_map_unk`: unknown entry `w` has label `surfaces.len() + w + 1`. -/
def labelIdMapUnk (D : DictM) : List Nat :=
  (List.range D.unk.length).map fun w => D.sys.entries.length + w + 1

end Vibrato.TrainerNew
