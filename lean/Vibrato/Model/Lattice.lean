/-
Model of `vibrato/src/tokenizer/lattice.rs` and of the driving loop
`Tokenizer::build_lattice_inner` (`vibrato/src/tokenizer.rs`).

The lattice layer is parametric in an environment `LatEnv` that supplies the
sentence length, the connection cost function, the number of characters skipped
at a start node (`ignore_space`), and the candidate words offered at a start
position (user lexicon ++ system lexicon ++ unknown words, in the order in which
the Rust code inserts them).  The concrete environment built from a dictionary
and a sentence lives in `Model/Tokenizer.lean`.

No Mathlib imports: linked into the `vmodel` executable.
-/
namespace Vibrato

/-- `MAX_COST = i32::MAX`. -/
def MAX_COST : Int := 2147483647
/-- `INVALID_IDX = u16::MAX`. -/
def INVALID_IDX : Nat := 65535

/-- `lattice::Node` plus the ghost field `wordCost` (the word cost that
`insert_node` added; the Rust node only keeps the sum in `min_cost`, the cost
itself is recoverable from the dictionary through `word_idx`) and the ghost
field `isBos`. -/
structure Node where
  wordId : Nat
  lexType : Nat          -- 0 = System, 1 = User, 2 = Unknown
  startNode : Nat
  startWord : Nat
  leftId : Nat
  rightId : Nat
  minIdx : Nat
  minCost : Int
  wordCost : Int
  isBos : Bool
  deriving Repr, DecidableEq, Inhabited

/-- A candidate word offered at some start position: where it ends, which
dictionary entry it is and that entry's parameters. -/
structure Cand where
  endWord : Nat
  wordId : Nat
  lexType : Nat
  leftId : Nat
  rightId : Nat
  wordCost : Int
  deriving Repr, DecidableEq, Inhabited

/-- `Lattice.ends` (one vector of nodes per end boundary). -/
abbrev Ends := List (List Node)

/-- `self.ends[i]` read (empty when out of the buffer, which never happens for
`i ≤ len_char`, see `Props/C01`). -/
def endsAt (L : Ends) (i : Nat) : List Node := L.getD i []

/-- `self.ends[i].push(n)`. -/
def pushAt (L : Ends) (i : Nat) (n : Node) : Ends := L.modify i (· ++ [n])

/-- Environment of one lattice construction. -/
structure LatEnv where
  len : Nat
  conn : Nat → Nat → Int           -- `connector.cost(right_id, left_id)`
  skip : Nat → Nat                 -- characters skipped at a start node (0 without ignore_space)
  cands : Nat → List Cand          -- candidates at a start *word* position, insertion order

/-- The BOS node inserted by `insert_bos`. -/
def bosNode : Node :=
  { wordId := 4294967295, lexType := 0, startNode := 18446744073709551615,
    startWord := 18446744073709551615, leftId := 65535, rightId := 0, minIdx := INVALID_IDX, minCost := 0, wordCost := 0,
    isBos := true }

/-- `Lattice::reset(len)` on a buffer that currently has `bufLen` vectors (all
cleared): at least `len + 1` empty vectors, then BOS pushed at 0. -/
def resetEnds (bufLen len : Nat) : Ends :=
  pushAt (List.replicate (max bufLen (len + 1)) []) 0 bosNode

/-- The loop of `search_min_node`: last minimum wins (`<=`). -/
def searchMinGo (conn : Nat → Nat → Int) (leftId : Nat) :
    List Node → Nat → Nat × Int → Nat × Int
  | [], _, acc => acc
  | n :: ns, i, acc =>
    let c := n.minCost + conn n.rightId leftId
    if c ≤ acc.2 then searchMinGo conn leftId ns (i + 1) (i, c)
    else searchMinGo conn leftId ns (i + 1) acc

/-- `search_min_node`. -/
def searchMin (conn : Nat → Nat → Int) (prev : List Node) (leftId : Nat) : Nat × Int :=
  searchMinGo conn leftId prev 0 (INVALID_IDX, MAX_COST)

/-- `insert_node`. -/
def insertNode (E : LatEnv) (L : Ends) (startNode startWord : Nat) (c : Cand) : Ends :=
  let r := searchMin E.conn (endsAt L startNode) c.leftId
  pushAt L c.endWord
    { wordId := c.wordId, lexType := c.lexType, startNode := startNode, startWord := startWord,
      leftId := c.leftId, rightId := c.rightId, minIdx := r.1, minCost := r.2 + c.wordCost,
      wordCost := c.wordCost, isBos := false }

/-- `add_lattice_edges`: every candidate of the start word position, in order. -/
def addEdges (E : LatEnv) (L : Ends) (startNode startWord : Nat) : Ends :=
  (E.cands startWord).foldl (fun L c => insertNode E L startNode startWord c) L

/-- The `while start_word < len` loop of `build_lattice_inner`.  At the loop head
`start_node = start_word = p` always (both assignments in the Rust code set them
equal), so one variable suffices.  Returns the lattice and the final
`start_node` handed to `insert_eos`.  (`sw > len` cannot happen for the real
`skip`, see `skip_le`; the Rust code would panic when slicing.) -/
def buildLoop (E : LatEnv) (L : Ends) (p : Nat) : Ends × Nat :=
  if p < E.len then
    if (endsAt L p).isEmpty then buildLoop E L (p + 1)
    else
      let sw := p + E.skip p
      if E.len ≤ sw then (L, p)
      else buildLoop E (addEdges E L p sw) (sw + 1)
  else (L, p)
termination_by E.len - p
decreasing_by all_goals omega

/-- The EOS node built by `insert_eos`. -/
def eosNode (E : LatEnv) (L : Ends) (startNode : Nat) : Node :=
  let r := searchMin E.conn (endsAt L startNode) 0
  { wordId := 4294967295, lexType := 0, startNode := startNode, startWord := E.len,
    leftId := 0, rightId := 65535, minIdx := r.1, minCost := r.2, wordCost := 0, isBos := false }

/-- Result of `build_lattice`: the `ends` vectors and the EOS node. -/
structure Lattice where
  ends : Ends
  eos : Node
  deriving Repr

def buildLattice (E : LatEnv) (bufLen : Nat := 0) : Lattice :=
  let r := buildLoop E (resetEnds bufLen E.len) 0
  { ends := r.1, eos := eosNode E r.1 r.2 }

/-- `append_top_nodes`: follow the back pointers from EOS.  `none` models a panic
(`ends[end_node][min_idx]` out of range) or a non-terminating walk (a node whose
`start_node` is not smaller than its end boundary); neither occurs for lattices
built by `buildLattice` from a covered dictionary (`Props/C01`). The result is in
the order of `top_nodes` (last token first). -/
def walkBack (L : Ends) (endNode minIdx : Nat) : Option (List (Nat × Node)) :=
  if endNode = 0 then some []
  else
    match (endsAt L endNode)[minIdx]? with
    | none => none
    | some n =>
      if n.startNode < endNode then
        (walkBack L n.startNode n.minIdx).map (fun r => (endNode, n) :: r)
      else none
termination_by endNode
decreasing_by omega

def topNodes (Lt : Lattice) : Option (List (Nat × Node)) :=
  walkBack Lt.ends Lt.eos.startNode Lt.eos.minIdx

/-- A reported token: character range, the node. -/
structure Tok where
  startWord : Nat
  endWord : Nat
  node : Node
  deriving Repr

/-- Tokens in sentence order (`Worker::token(i)` reverses `top_nodes`). -/
def tokensOf (Lt : Lattice) : Option (List Tok) :=
  (topNodes Lt).map fun r => (r.map fun (e, n) => { startWord := n.startWord, endWord := e, node := n }).reverse

/-- `add_connid_counts`: the `(left_id of the right node, right_id of the left node)`
pairs counted for one lattice, in the order of the Rust loops.  `fixedEos = false`
is the pinned code (EOS connections read from `ends[len_char]`), `true` reads them
from `ends[eos.start_node]`. -/
def connidPairs (E : LatEnv) (Lt : Lattice) (fixedEos : Bool) : List (Nat × Nat) :=
  let inner := (List.range' 1 E.len).flatMap fun e =>
    (endsAt Lt.ends e).flatMap fun r =>
      (endsAt Lt.ends r.startNode).map fun l => (r.leftId, l.rightId)
  let eosFrom := if fixedEos then Lt.eos.startNode else E.len
  inner ++ (endsAt Lt.ends eosFrom).map fun l => (Lt.eos.leftId, l.rightId)

end Vibrato
