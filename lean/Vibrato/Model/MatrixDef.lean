/-
Model of `MatrixConnector::from_reader` (matrix.def parser), following the
repaired code (fix F7: an empty file is an error instead of a panic).
No Mathlib imports.
-/
import Vibrato.Model.Text

namespace Vibrato

/-- `MatrixConnector`: `data[left * numRight + right]`. -/
structure Matrix where
  numRight : Nat
  numLeft : Nat
  data : List Int
  deriving Repr, DecidableEq, Inhabited

/-- `MatrixConnector::cost` (panics when the index is out of range). -/
def Matrix.cost? (M : Matrix) (r l : Nat) : Option Int := M.data[l * M.numRight + r]?

def Matrix.cost (M : Matrix) (r l : Nat) : Int := (M.cost? r l).getD 0

namespace MatrixDef
open Text

def parseHeader (line : List Char) : Option (Nat × Nat) :=
  match splitOn ' ' line with
  | [a, b] => do
    let r ← parseU16 a
    let l ← parseU16 b
    pure (r, l)
  | _ => none

def parseBody (line : List Char) : Option (Nat × Nat × Int) :=
  match splitOn ' ' line with
  | [a, b, c] => do
    let r ← parseUsize a
    let l ← parseUsize b
    let v ← parseI16 c
    pure (r, l, v)
  | _ => none

def bodyLines (nr nl : Nat) (data : List Int) : List (List UInt8) → Outcome (List Int)
  | [] => .ok data
  | raw :: rest =>
    match decodeLine raw with
    | none => .err
    | some s =>
      if s.isEmpty then bodyLines nr nl data rest
      else match parseBody s.toList with
        | none => .err
        | some (r, l, v) =>
          if nr ≤ r ∨ nl ≤ l then .err
          else bodyLines nr nl (data.set (l * nr + r) v) rest

/-- `MatrixConnector::from_reader`. -/
def parse (bytes : List UInt8) : Outcome Matrix :=
  match rawLines bytes with
  | [] => .err
  | h :: rest =>
    match decodeLine h with
    | none => .err
    | some hs =>
      match parseHeader hs.toList with
      | none => .err
      | some (nr, nl) =>
        match bodyLines nr nl (List.replicate (nr * nl) 0) rest with
        | .ok d => .ok { numRight := nr, numLeft := nl, data := d }
        | .err => .err
        | .panic => .panic

end MatrixDef
end Vibrato
