/-
Provisional, simplified reader for lexicon CSV files used by the tokenisation
streams (`tok`): rows separated by `\n` (optional `\r` before it), cells either
unquoted or quoted with doubled quotes, feature = the raw remainder after the 4th
comma.  It agrees with `Lexicon::parse_csv` on the well-formed files the
generators of those streams emit; the faithful port of csv-core and of
`parse_csv` (all malformed inputs, EOF handling) is `Model/LexCsv.lean`.
No Mathlib imports.
-/
import Vibrato.Model.Text
import Vibrato.Model.Tokenizer

namespace Vibrato
namespace SimpleCsv
open Text

structure Row where
  surface : List UInt8
  left : Nat
  right : Nat
  cost : Int
  feature : List UInt8
  deriving Repr, DecidableEq, Inhabited

/-- Read one cell from the start of `bs`; returns unquoted value and the rest after the
terminating comma (`none` rest = end of row). -/
def readQuoted : List UInt8 → List UInt8 → Option (List UInt8 × Option (List UInt8))
  | [], _ => none
  | 34 :: 34 :: rest, acc => readQuoted rest (34 :: acc)
  | 34 :: 44 :: rest, acc => some (acc.reverse, some rest)
  | [34], acc => some (acc.reverse, none)
  | 34 :: _, _ => none
  | b :: rest, acc => readQuoted rest (b :: acc)

def readPlain : List UInt8 → List UInt8 → (List UInt8 × Option (List UInt8))
  | [], acc => (acc.reverse, none)
  | 44 :: rest, acc => (acc.reverse, some rest)
  | b :: rest, acc => readPlain rest (b :: acc)

def readCell (bs : List UInt8) : Option (List UInt8 × Option (List UInt8)) :=
  match bs with
  | 34 :: rest => readQuoted rest []
  | _ => some (readPlain bs [])

def asChars (bs : List UInt8) : Option (List Char) :=
  (decodeLine bs).map (·.toList)

def parseRow (line : List UInt8) : Option Row := do
  let (c0, r0) ← readCell line
  let (c1, r1) ← readCell (← r0)
  let (c2, r2) ← readCell (← r1)
  let (c3, r3) ← readCell (← r2)
  let feature ← r3
  let l ← parseU16 (← asChars c1)
  let r ← parseU16 (← asChars c2)
  let c ← parseI16 (← asChars c3)
  let _ ← asChars c0
  let _ ← asChars feature
  pure { surface := c0, left := l, right := r, cost := c, feature := feature }

/-- Rows of a simple CSV file (`\n`-separated; quoted cells must not contain line
breaks in this provisional reader); blank lines and empty surfaces skipped. -/
def parse (bytes : List UInt8) : Option (List Row) :=
  (rawLines bytes).foldr (fun line acc => do
    let rest ← acc
    if line.isEmpty then pure rest
    else
      let row ← parseRow line
      if row.surface.isEmpty then pure rest else pure (row :: rest)) (some [])

end SimpleCsv
end Vibrato
