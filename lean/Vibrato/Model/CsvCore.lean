/-
Model of the `csv-core` crate (version 0.1.13, the one pinned by `/repo/Cargo.lock`) as far
as vibrato uses it:

* `csv_core::Reader::new()` + `Reader::read_field`   (`src/reader.rs`)
* `csv_core::Writer::new()` + `Writer::field` + `Writer::finish`   (`src/writer.rs`)

Reader.  The crate runs a table DFA that `Reader::build_dfa` derives from the NFA
`Reader::transition_nfa` by following epsilon transitions for every (state, byte) pair until
a consuming transition is found.  We port exactly that construction: `transitionNfa` is
`transition_nfa` specialised to the default configuration

    delimiter = b','   quote = b'"'   quoting = true   double_quote = true
    escape = None      comment = None term = Terminator::CRLF  (`\r`, `\n`, `\r\n`)

and `dfaStep` is the `while` loop of `build_dfa`.  The DFA state of the crate is the NFA state
multiplied by the number of byte classes (5 for this configuration: other , " \r \n), see
`NfaState.idx`; the comparisons `state >= final_field`, `state >= final_record`,
`state.is_start()` are done on these numbers as in the crate.

Not modelled: the line counter (`Reader::line`, not observable through `read_field`), the
NFA interpreter (`use_nfa = false` by default), `read_record`.

Byte values: 44 = `,`  34 = `"`  13 = `\r`  10 = `\n`  and the UTF-8 BOM EF BB BF.

No Mathlib / Batteries imports: this file is linked into the model driver executable.
-/
namespace Vibrato.Csv

/-! ## Reader -/

/-- `enum NfaState` of `reader.rs` (same constructor order as the comments there). -/
inductive NfaState where
  | endFieldTerm          -- 200, not a DFA state
  | inRecordTerm          -- 201, not a DFA state
  | end_                  -- 202, not a DFA state
  | startRecord           -- 0
  | startField            -- 1
  | inField               -- 2
  | inQuotedField         -- 3
  | inEscapedQuote        -- 4
  | inDoubleEscapedQuote  -- 5
  | inComment             -- 6
  | endFieldDelim         -- 7  (first "final field" state)
  | endRecord             -- 8  (first "final record" state)
  | crlf                  -- 9
  deriving Repr, DecidableEq, Inhabited

/-- `enum NfaInputAction`. -/
inductive NfaAction where
  | epsilon
  | copyToOutput
  | discard
  deriving Repr, DecidableEq, Inhabited

/-- `Terminator::CRLF.equals(c)`. -/
def isTerm (c : UInt8) : Bool := c = 13 || c = 10

/-- `Reader::transition_nfa(state, c)` for the default configuration
(`self.quoting = true`, `self.quote = b'"'`, `self.delimiter = b','`, `self.escape = None`,
`self.double_quote = true`, `self.comment = None`, `self.term = CRLF`). -/
def transitionNfa (s : NfaState) (c : UInt8) : NfaState × NfaAction :=
  match s with
  | .end_ => (.end_, .epsilon)
  | .startRecord =>
    if isTerm c then (.startRecord, .discard)
    -- `else if self.comment == Some(c)`: comment = None
    else (.startField, .epsilon)
  | .endRecord => (.startRecord, .epsilon)
  | .startField =>
    if c = 34 then (.inQuotedField, .discard)
    else if c = 44 then (.endFieldDelim, .discard)
    else if isTerm c then (.endFieldTerm, .epsilon)
    else (.inField, .copyToOutput)
  | .endFieldDelim => (.startField, .epsilon)
  | .endFieldTerm => (.inRecordTerm, .epsilon)
  | .inField =>
    if c = 44 then (.endFieldDelim, .discard)
    else if isTerm c then (.endFieldTerm, .epsilon)
    else (.inField, .copyToOutput)
  | .inQuotedField =>
    if c = 34 then (.inDoubleEscapedQuote, .discard)
    -- `else if self.quoting && self.escape == Some(c)`: escape = None
    else (.inQuotedField, .copyToOutput)
  | .inEscapedQuote => (.inQuotedField, .copyToOutput)
  | .inDoubleEscapedQuote =>
    if c = 34 then (.inQuotedField, .copyToOutput)
    else if c = 44 then (.endFieldDelim, .discard)
    else if isTerm c then (.endFieldTerm, .epsilon)
    else (.inField, .copyToOutput)
  | .inComment =>
    if c = 10 then (.startRecord, .discard) else (.inComment, .discard)
  | .inRecordTerm =>
    -- `self.term.is_crlf() && b'\r' == c`
    if c = 13 then (.crlf, .discard) else (.endRecord, .discard)
  | .crlf =>
    if c = 10 then (.startRecord, .discard) else (.startRecord, .epsilon)

/-- The `while nfa_result.0 != End && nfa_result.1 == Epsilon` loop of `build_dfa`
(with fuel; `dfaClosure_fuel` in `Proofs/CsvCore.lean` shows that 6 rounds always reach a
consuming transition from every DFA state). -/
def dfaClosure : Nat → NfaState → UInt8 → NfaState × NfaAction
  | 0, s, _ => (s, .epsilon)
  | fuel + 1, s, c =>
    if s = .end_ then (s, .epsilon)
    else
      let r := transitionNfa s c
      if r.2 = .epsilon then dfaClosure fuel r.1 c else r

/-- One entry of the DFA table: `dfa.get_output(state, c) = (to, has_output)` where
`has_output = (action == CopyToOutput)`. -/
def dfaStep (s : NfaState) (c : UInt8) : NfaState × Bool :=
  let r := dfaClosure 6 s c
  (r.1, r.2 = .copyToOutput)

/-- Number of byte classes of the default configuration (`classes.num_classes()`):
class 0 (everything else) and one class each for `,` `"` `\r` `\n`. -/
def numClasses : Nat := 5

/-- `Dfa::new_state(nfa_state).0`: the enum discriminant times the number of classes. -/
def NfaState.idx : NfaState → Nat
  | .endFieldTerm => 200 * numClasses
  | .inRecordTerm => 201 * numClasses
  | .end_ => 202 * numClasses
  | .startRecord => 0 * numClasses
  | .startField => 1 * numClasses
  | .inField => 2 * numClasses
  | .inQuotedField => 3 * numClasses
  | .inEscapedQuote => 4 * numClasses
  | .inDoubleEscapedQuote => 5 * numClasses
  | .inComment => 6 * numClasses
  | .endFieldDelim => 7 * numClasses
  | .endRecord => 8 * numClasses
  | .crlf => 9 * numClasses

/-- `dfa.final_field = new_state(EndFieldDelim)`. -/
def finalField : Nat := NfaState.endFieldDelim.idx
/-- `dfa.final_record = new_state(EndRecord)`. -/
def finalRecord : Nat := NfaState.endRecord.idx

/-- `enum ReadFieldResult`. -/
inductive ReadFieldResult where
  | inputEmpty
  | outputFull
  | field (recordEnd : Bool)
  | end_
  deriving Repr, DecidableEq, Inhabited

/-- `Dfa::new_read_field_result(state, is_final_trans, inpdone, outdone)`. -/
def newReadFieldResult (s : NfaState) (isFinalTrans inpdone outdone : Bool) : ReadFieldResult :=
  if s.idx ≥ finalRecord then .field true
  else if s.idx = finalField then .field false
  else if isFinalTrans && s.idx = 0 then .end_
  else if !inpdone && outdone then .outputFull
  else .inputEmpty

/-- `Reader::transition_final_dfa(state)`. -/
def transitionFinalDfa (s : NfaState) : NfaState :=
  if s.idx ≥ finalRecord || s.idx = 0 then .startRecord  -- `new_state_final_end()`
  else .endRecord                                       -- `new_state_final_record()`

/-- The `while nin < input.len() && nout < output.len()` loop of `read_field_dfa`.
`nout` = bytes already written, `cap = output.len()`.  Returns the state after the loop,
the number of input bytes consumed by the loop and the bytes appended to the output. -/
def readLoop (cap : Nat) : NfaState → List UInt8 → Nat → NfaState × Nat × List UInt8
  | s, [], _ => (s, 0, [])
  | s, b :: rest, nout =>
    if nout < cap then
      let (s', hasOut) := dfaStep s b
      if s'.idx ≥ finalField then
        (s', 1, if hasOut then [b] else [])
      else
        let (s'', n, o) := readLoop cap s' rest (if hasOut then nout + 1 else nout)
        (s'', n + 1, if hasOut then b :: o else o)
    else (s, 0, [])

/-- `Reader::read_field_dfa(input, output)` with `cap = output.len()`:
`(result, nin, output[..nout], new dfa_state)`. -/
def readFieldDfa (s : NfaState) (input : List UInt8) (cap : Nat) :
    ReadFieldResult × Nat × List UInt8 × NfaState :=
  if input.isEmpty then
    let s' := transitionFinalDfa s
    (newReadFieldResult s' true false false, 0, [], s')
  else if cap = 0 then
    (.outputFull, 0, [], s)
  else
    let (s', nin, out) := readLoop cap s input 0
    (newReadFieldResult s' false (decide (nin ≥ input.length)) (decide (out.length ≥ cap)),
      nin, out, s')

/-- The part of `struct Reader` that is observable through `read_field`. -/
structure Reader where
  /-- `dfa_state` (as the NFA state it stands for). -/
  state : NfaState
  /-- `has_read`. -/
  hasRead : Bool
  deriving Repr, DecidableEq, Inhabited

/-- `Reader::new()`. -/
def Reader.new : Reader := { state := .startRecord, hasRead := false }

def bom : List UInt8 := [0xEF, 0xBB, 0xBF]

/-- `Reader::strip_utf8_bom(input)`: `(stripped input, bom_nin)`. -/
def stripBom (r : Reader) (input : List UInt8) : List UInt8 × Nat :=
  if !r.hasRead && input.length ≥ 3 && input.take 3 = bom then (input.drop 3, 3)
  else (input, 0)

/-- `Reader::read_field(input, output)` with `cap = output.len()`:
`(result, nin, output[..nout], reader after the call)`. -/
def readField (r : Reader) (input : List UInt8) (cap : Nat) :
    ReadFieldResult × Nat × List UInt8 × Reader :=
  let (input', bomNin) := stripBom r input
  let (res, nin, out, s') := readFieldDfa r.state input' cap
  (res, nin + bomNin, out, { state := s', hasRead := true })

/-! ## Writer (`QuoteStyle::Necessary`, terminator `Any(b'\n')`, `double_quote = true`) -/

/-- `enum WriteResult`. -/
inductive WriteResult where
  | inputEmpty
  | outputFull
  deriving Repr, DecidableEq, Inhabited

/-- `struct WriterState`. -/
structure Writer where
  inField : Bool
  quoting : Bool
  recordBytes : Nat
  deriving Repr, DecidableEq, Inhabited

/-- `Writer::new()`. -/
def Writer.new : Writer := { inField := false, quoting := false, recordBytes := 0 }

/-- `wtr.requires_quotes[b]` after `WriterBuilder::build` for the default configuration:
delimiter, quote, and (terminator `Any(b'\n')`) both `\r` and `\n`.  The escape byte is not
included because `double_quote = true`; no comment byte. -/
def requiresQuotes (b : UInt8) : Bool := b = 44 || b = 34 || b = 13 || b = 10

/-- `Writer::needs_quotes(input)` = `should_quote` for `QuoteStyle::Necessary`.  The crate
tests 8 bytes per round and the rest byte-wise; that is the same as `any`. -/
def needsQuotes (input : List UInt8) : Bool := input.any requiresQuotes

/-- `write_optimistic(input, output)` with `cap = output.len()`: `(res, nin, written)`. -/
def writeOptimistic (input : List UInt8) (cap : Nat) : WriteResult × Nat × List UInt8 :=
  if input.length > cap then (.outputFull, cap, input.take cap)
  else (.inputEmpty, input.length, input)

/-- `write_pessimistic(input, output)` (= `Writer::write`): `(res, written)`. -/
def writePessimistic (data : List UInt8) (cap : Nat) : WriteResult × List UInt8 :=
  if data.length > cap then (.outputFull, []) else (.inputEmpty, data)

/-- `memchr(b'"', input)`. -/
def memchrQuote : List UInt8 → Option Nat
  | [] => none
  | b :: rest => if b = 34 then some 0 else (memchrQuote rest).map (· + 1)

/-- `csv_core::quote(input, output, b'"', _, true)`: the `loop`, one round per quote in the
input (fuel = number of rounds; `input.length + 1` always suffices).
Returns `(res, nin, written)`. -/
def quoteLoop : Nat → List UInt8 → Nat → WriteResult × Nat × List UInt8
  | 0, _, _ => (.outputFull, 0, [])   -- not reached, see `quoteFn`
  | fuel + 1, input, cap =>
    match memchrQuote input with
    | none => writeOptimistic input cap
    | some nextQuote =>
      let (res, i, o) := writeOptimistic (input.take nextQuote) cap
      let input1 := input.drop i
      let cap1 := cap - o.length
      if res = .outputFull then (res, i, o)
      else
        let (res2, o2) := writePessimistic [34, 34] cap1
        if res2 = .outputFull then (res2, i, o)
        else
          let (res3, i3, o3) := quoteLoop fuel (input1.drop 1) (cap1 - o2.length)
          (res3, i + 1 + i3, o ++ o2 ++ o3)

/-- What `csv_core::quote` writes when the output is large enough (`quoteFn_eq` in
`Proofs/CsvCore.lean`): every `"` doubled. -/
def escapeQuotes : List UInt8 → List UInt8
  | [] => []
  | b :: rest => if b = 34 then 34 :: 34 :: escapeQuotes rest else b :: escapeQuotes rest

def quoteFn (input : List UInt8) (cap : Nat) : WriteResult × Nat × List UInt8 :=
  quoteLoop (input.length + 1) input cap

/-- `Writer::field(input, output)` with `cap = output.len()`:
`(res, nin, written, writer after the call)`. -/
def Writer.field (w : Writer) (input : List UInt8) (cap : Nat) :
    WriteResult × Nat × List UInt8 × Writer :=
  -- `if !self.state.in_field { ... }`
  let hdr : Option (Writer × List UInt8) :=
    if !w.inField then
      let quoting := needsQuotes input
      if quoting then
        let (_, o) := writePessimistic [34] cap
        if o.length = 0 then none   -- `return (res, 0, 0)`; `quoting` stays set, `in_field` not
        else some ({ inField := true, quoting := quoting,
                     recordBytes := w.recordBytes + o.length }, o)
      else some ({ w with inField := true, quoting := quoting }, [])
    else some (w, [])
  match hdr with
  | none => (.outputFull, 0, [], { w with quoting := needsQuotes input })
  | some (w1, o0) =>
    let (res, i, o) :=
      if w1.quoting then quoteFn input (cap - o0.length)
      else writeOptimistic input (cap - o0.length)
    (res, i, o0 ++ o, { w1 with recordBytes := w1.recordBytes + o.length })

/-- Result of `Writer::finish`, with the `assert!(!self.state.quoting)` as an outcome. -/
inductive FinishResult where
  | done (res : WriteResult) (written : List UInt8) (w : Writer)
  | assertFailed
  deriving Repr, DecidableEq

/-- `Writer::finish(output)` with `cap = output.len()`. -/
def Writer.finish (w : Writer) (cap : Nat) : FinishResult :=
  -- first `if`: an empty record gets `""`
  let step1 : Option (Option (Writer × List UInt8 × Nat)) :=
    if w.recordBytes = 0 && w.inField then
      if w.quoting then none  -- assert!(!self.state.quoting)
      else
        let (_, o) := writePessimistic [34, 34] cap
        if o.length = 0 then some none  -- `return (res, 0)`
        else some (some ({ w with recordBytes := w.recordBytes + o.length }, o, cap - o.length))
    else some (some (w, [], cap))
  match step1 with
  | none => .assertFailed
  | some none => .done .outputFull [] w
  | some (some (w1, o1, cap1)) =>
    if !w1.quoting then .done .inputEmpty o1 w1
    else
      let (res, o) := writePessimistic [34] cap1
      if o.length = 0 then .done res o1 w1
      else .done res (o1 ++ o) { inField := false, quoting := false, recordBytes := 0 }

end Vibrato.Csv
