/-
Model of the command-line programs around the corpus text format (property C19, last clause:
"... so tokenizer output can be fed to train, split and evaluate").

Rust code mirrored here (pinned tree in /repo):

* `evaluate/src/split.rs`, `main` after argument parsing          ↦ `split`, `splitAbs`, `splitExamples`
    - `parse_ratio`                                                ↦ `ratioOk`
    - `(corpus.len() as f64 * ratio) as usize`                     ↦ `ratioLen`
* `evaluate/src/main.rs`
    - the program's OWN copy of `parse_csv_row` (fixed 4096-byte buffer, `_ => unreachable!()`
      for every result other than `InputEmpty` / `Field`, i.e. ALSO for `End`)  ↦ `evalCsvRow`
    - the scoring loop of `main`                                   ↦ `evalExample`, `evalLoop`,
                                                                     `evaluateWith`, `evaluate`,
                                                                     `evaluateProgram`
      (the loop is written once, parametric in the row parser; `evaluate false` = the pinned
      tree with the program's own `parse_csv_row`, `evaluate true` = the minimally repaired
      program that uses the library's repaired `parse_csv_row`, `evalCsvRowFixed`)
    - `num_cor as f64 / num_sys as f64` …                          ↦ `scores`
* `tokenize/src/main.rs`, arms `OutputMode::Wakati` and `OutputMode::Detail` of the printing loop
                                                                   ↦ `wakatiLine`, `detailLines`
  (the `Mecab` arm is `Vibrato.Corpus.mecabOutput`).

Conventions.  Strings are byte lists (`List UInt8`) as in `Model/Corpus.lean`; outcomes are
`Vibrato.Corpus.Outcome` (`ok` / `err` = the program exits with an error status / `panic`).

What is a PARAMETER of the model:

* the permutation that `corpus.shuffle(&mut rand::thread_rng())` applies: `sh : List Example →
  List Example` (the theorems assume `(sh l).Perm l` and nothing else);
* the tokenizer inside `evaluate`: `tokenize : input_str bytes → Outcome (List SysTok)`, one
  `SysTok` = (`Token::range_char()`, `Token::feature()`).  The program re-uses one worker for all
  examples; that the result depends on (dictionary, options, sentence) only is property C04.
  `modelSysTokenize` instantiates it with the model tokenizer of `Model/Tokenizer.lean`.

Not modelled: file-system errors (`File::open`, `File::create`, write errors), clap's argument
parsing other than `parse_ratio`, zstd/dictionary loading (stream `image`), stderr texts.

`HashSet<(Range<usize>, Vec<String>)>`: only `len()` and `intersection(..).count()` are observed, so
a set is represented by the list of inserted items and its size by the number of distinct items
(`distinct`).

No Mathlib / Batteries imports: this file is linked into the model driver executable.
-/
import Vibrato.Model.Corpus
import Vibrato.Model.LexCsv
import Vibrato.Model.Tokenizer

namespace Vibrato.EvalSplit

open Vibrato.Corpus

/-! ## `split` -/

/-- `parse_ratio`: `(0.0..=1.0).contains(&val)` (false for NaN).  A ratio outside the range is a
clap argument error (exit status 2). -/
def ratioOk (r : Float) : Bool := (0.0 : Float) ≤ r && r ≤ (1.0 : Float)

/-- `(corpus.len() as f64 * ratio) as usize`: `usize as f64` rounds to nearest (exact below 2^53),
`f64 as usize` truncates toward zero and saturates (NaN ↦ 0) — the semantics of Lean's
`Float.toUInt64`. -/
def ratioLen (n : Nat) (r : Float) : Nat := (n.toFloat * r).toUInt64.toNat

/-- The part of `main` after the corpus has been read and the two lengths computed.

```
if valid_len + test_len > corpus.len() { Args::command().error(..).exit(); }   // status 2
corpus.shuffle(&mut rng);
let mut it = corpus.iter();
for (_, example) in (0..valid_len).zip(&mut it) { example.write(&mut valid_wtr)?; }
for (_, example) in (0..test_len).zip(&mut it) { example.write(&mut test_wtr)?; }
for example in it { example.write(&mut train_wtr)?; }
```
`Zip::next` pulls from the range first, so when the range is exhausted no example is consumed:
the three runs are `take validLen`, the next `testLen`, and the rest.  Result: the bytes of
(valid file, test file, train file). -/
def splitExamples (sh : List Example → List Example) (validLen testLen : Nat)
    (exs : List Example) : Outcome (List UInt8 × List UInt8 × List UInt8) :=
  if validLen + testLen > exs.length then .err
  else
    let s := sh exs
    .ok (writeCorpus (s.take validLen),
         writeCorpus ((s.drop validLen).take testLen),
         writeCorpus ((s.drop validLen).drop testLen))

/-- `split`, abstract in the two lengths (`Corpus::from_reader(rdr)?` first: a malformed corpus is
an error exit before any output file is created). -/
def splitAbs (sh : List Example → List Example) (validLen testLen : Nat)
    (corpus : List UInt8) : Outcome (List UInt8 × List UInt8 × List UInt8) :=
  match parseCorpus corpus with
  | .ok exs => splitExamples sh validLen testLen exs
  | .err => .err
  | .panic => .panic

/-- The lengths `split` computes from the ratios, for a corpus of `n` examples. -/
def splitLens (n : Nat) (validRatio testRatio : Float) : Nat × Nat :=
  (ratioLen n validRatio, ratioLen n testRatio)

/-- `split` as the program computes it (ratios already accepted by `parse_ratio`). -/
def split (sh : List Example → List Example) (validRatio testRatio : Float)
    (corpus : List UInt8) : Outcome (List UInt8 × List UInt8 × List UInt8) :=
  match parseCorpus corpus with
  | .ok exs =>
    splitExamples sh (ratioLen exs.length validRatio) (ratioLen exs.length testRatio) exs
  | .err => .err
  | .panic => .panic

/-! ## `evaluate` -/

/-- The cells of a feature string. -/
abbrev Feats := List (List UInt8)

/-- One element of `refs` / `syss`: `(Range<usize>, Vec<String>)` as ((start, end), cells).
(`Range` derives `PartialEq`/`Hash` field-wise, so `3..3` and `4..4` are different keys.) -/
abbrev Item := (Nat × Nat) × Feats

/-- What the scoring loop reads from one `Token`: `range_char()` and `feature()`. -/
structure SysTok where
  start : Nat
  stop : Nat
  feature : List UInt8
  deriving Repr, DecidableEq

/-- `utf8_is_cont_byte`: `(byte as i8) < -64`, i.e. `0x80 ≤ byte < 0xC0`. -/
def isCont (b : UInt8) : Bool := decide (128 ≤ b.toNat ∧ b.toNat < 192)

/-- `surface.chars().count()` for a `&str`: the number of bytes that are not continuation bytes. -/
def charCount (s : List UInt8) : Nat := (s.filter fun b => !isCont b).length

/-- The `loop` of evaluate's own `parse_csv_row`:
```
let (result, nin, nout) = rdr.read_field(bytes, &mut output);          // output = [0; 4096]
let end = match result { InputEmpty => true, Field { .. } => false, _ => unreachable!() };
features.push(std::str::from_utf8(&output[..nout]).unwrap().to_string());
if end { break; }
bytes = &bytes[nin..];
```
Unlike the library's copy (`LexCsv.rowLoop`) the arm `End => true` is missing: `End` (the input
is exhausted in a record-start state: the empty row, or a row ending in `\r` / `\n`) and
`OutputFull` (a cell of 4096 bytes or more) both reach `unreachable!()`.  `none` = out of fuel
(does not occur, `evalRowLoop_total`). -/
def evalRowLoop :
    Nat → Csv.Reader → List UInt8 → Feats → Option (Outcome Feats)
  | 0, _, _, _ => none
  | fuel + 1, rdr, bytes, features =>
    let (result, nin, out, rdr') := Csv.readField rdr bytes LexCsv.outCap
    match result with
    | .inputEmpty =>
      if LexCsv.validUtf8 out then some (.ok (features ++ [out])) else some .panic
    | .field _ =>
      if LexCsv.validUtf8 out then evalRowLoop fuel rdr' (bytes.drop nin) (features ++ [out])
      else some .panic
    | .outputFull => some .panic     -- `_ => unreachable!()`
    | .end_ => some .panic           -- `_ => unreachable!()`

/-- `parse_csv_row(row)` of `evaluate/src/main.rs`. -/
def evalCsvRow (row : List UInt8) : Outcome Feats :=
  match evalRowLoop (LexCsv.parseFuel row) Csv.Reader.new row [] with
  | some r => r
  | none => .panic

/-- `"*"` -/
def star : List UInt8 := [42]

/-- The features compared: all of them when `--feature-indices` is empty, otherwise
`features.get(i).map_or_else(|| "*".to_string(), |x| x.to_string())` for each index in the
given order (repetitions and out-of-range indices allowed). -/
def choose (idx : List Nat) (fs : Feats) : Feats :=
  if idx.isEmpty then fs else idx.map fun i => (fs[i]?).getD star

/-- The `for token in example.tokens()` loop: the items inserted into `refs`, in order, with
`start` the running character offset.  The only failure is a panic of `parse_csv_row`. -/
def refItems (row : List UInt8 → Outcome Feats) (idx : List Nat) :
    Nat → List Word → Outcome (List Item)
  | _, [] => .ok []
  | start, w :: ws =>
    let len := charCount w.surface
    match row w.feature with
    | .ok fs =>
      match refItems row idx (start + len) ws with
      | .ok r => .ok (((start, start + len), choose idx fs) :: r)
      | .err => .err
      | .panic => .panic
    | .err => .err
    | .panic => .panic

/-- The `for token in worker.token_iter()` loop: the items inserted into `syss`. -/
def sysItems (row : List UInt8 → Outcome Feats) (idx : List Nat) :
    List SysTok → Outcome (List Item)
  | [] => .ok []
  | t :: ts =>
    match row t.feature with
    | .ok fs =>
      match sysItems row idx ts with
      | .ok r => .ok (((t.start, t.stop), choose idx fs) :: r)
      | .err => .err
      | .panic => .panic
    | .err => .err
    | .panic => .panic

/-- The distinct elements of a list (first occurrences removed, last kept; only the length and
membership matter). -/
def distinct {α : Type} [DecidableEq α] : List α → List α
  | [] => []
  | a :: l => if a ∈ l then distinct l else a :: distinct l

/-- (`num_ref`, `num_sys`, `num_cor`) -/
structure Counts where
  ref : Nat
  sys : Nat
  cor : Nat
  deriving Repr, DecidableEq

/-- `refs.len()`, `syss.len()`, `refs.intersection(&syss).count()`. -/
def countsOf (refs syss : List Item) : Counts :=
  { ref := (distinct refs).length
    sys := (distinct syss).length
    cor := ((distinct refs).filter fun x => decide (x ∈ syss)).length }

/-- One iteration of `for example in corpus.iter()`: build `refs`, tokenize the concatenated
surfaces (`worker.reset_sentence(input_str); worker.tokenize()`), build `syss`. -/
def evalExample (row : List UInt8 → Outcome Feats)
    (tokenize : List UInt8 → Outcome (List SysTok)) (idx : List Nat) (e : Example) :
    Outcome Counts :=
  match refItems row idx 0 e.tokens with
  | .ok refs =>
    match tokenize (sentenceOf e.tokens) with
    | .ok toks =>
      match sysItems row idx toks with
      | .ok syss => .ok (countsOf refs syss)
      | .err => .err
      | .panic => .panic
    | .err => .err
    | .panic => .panic
  | .err => .err
  | .panic => .panic

/-- The scoring loop with its three accumulators. -/
def evalLoop (row : List UInt8 → Outcome Feats)
    (tokenize : List UInt8 → Outcome (List SysTok)) (idx : List Nat) :
    Counts → List Example → Outcome Counts
  | acc, [] => .ok acc
  | acc, e :: es =>
    match evalExample row tokenize idx e with
    | .ok c => evalLoop row tokenize idx ⟨acc.ref + c.ref, acc.sys + c.sys, acc.cor + c.cor⟩ es
    | .err => .err
    | .panic => .panic

/-- The scoring loop of `main` on an already parsed corpus, for a given `parse_csv_row`. -/
def evaluateWith (row : List UInt8 → Outcome Feats)
    (tokenize : List UInt8 → Outcome (List SysTok)) (idx : List Nat)
    (exs : List Example) : Outcome Counts :=
  evalLoop row tokenize idx ⟨0, 0, 0⟩ exs

/-- The minimally repaired `parse_csv_row`: the library's repaired copy (`vibrato/src/utils.rs`
after finding F18: `End => true`, output buffer sized by the row) used in place of the program's
own. -/
def evalCsvRowFixed (row : List UInt8) : Outcome Feats :=
  match LexCsv.parseCsvRowBytes true row with
  | .ok cells => .ok cells
  | .err => .err
  | .panic => .panic

/-- `fixed = false`: the program's own `parse_csv_row` (pinned tree); `fixed = true`: the
repaired one. -/
def csvRowOf (fixed : Bool) : List UInt8 → Outcome Feats :=
  if fixed then evalCsvRowFixed else evalCsvRow

/-- The scoring loop of `main` on an already parsed corpus. -/
def evaluate (fixed : Bool) (tokenize : List UInt8 → Outcome (List SysTok)) (idx : List Nat)
    (exs : List Example) : Outcome Counts :=
  evaluateWith (csvRowOf fixed) tokenize idx exs

/-- `evaluate` from the bytes of the test corpus (`Corpus::from_reader(rdr)?`). -/
def evaluateProgram (fixed : Bool) (tokenize : List UInt8 → Outcome (List SysTok))
    (idx : List Nat) (corpus : List UInt8) : Outcome Counts :=
  match parseCorpus corpus with
  | .ok exs => evaluate fixed tokenize idx exs
  | .err => .err
  | .panic => .panic

/-- (`precision`, `recall`, `f1`) as the program computes them (`usize as f64`, IEEE division;
`0/0 = NaN`). -/
def scores (c : Counts) : Float × Float × Float :=
  let precision := c.cor.toFloat / c.sys.toFloat
  let recall := c.cor.toFloat / c.ref.toFloat
  let f1 := 2.0 * precision * recall / (precision + recall)
  (precision, recall, f1)

/-! ### The model tokenizer as the tokenizer of `evaluate` -/

/-- UTF-8 bytes of a character list (`String::push_str` / `as_bytes`). -/
def encChars (cs : List Char) : List UInt8 := cs.flatMap String.utf8EncodeChar

/-- The characters of a byte string that is valid UTF-8. -/
def decodeChars (bs : List UInt8) : Option (List Char) :=
  (String.fromUTF8? (ByteArray.mk bs.toArray)).map String.toList

/-- `Token::surface()`: the characters `start_word .. end_word` of the sentence. -/
def surfaceOf (cs : List Char) (t : Tok) : List UInt8 :=
  encChars ((cs.drop t.startWord).take (t.endWord - t.startWord))

/-- The (surface, feature) pairs of a tokenization of the sentence `cs`; `feat lexType wordId` is
`Token::feature()` (the feature column of the lexicon / `unk.def` row). -/
def modelWords (feat : Nat → Nat → List UInt8) (cs : List Char) (ts : List Tok) : List Word :=
  ts.map fun t => ⟨surfaceOf cs t, feat t.node.lexType t.node.wordId⟩

/-- `Tokenizer::new(dict).max_grouping_len(m)` (no `ignore_space`), `reset_sentence(input_str)`,
`tokenize()`, `token_iter()` with the model tokenizer.  `input_str` is a `String`, so the
undecodable case does not arise. -/
def modelSysTokenize (D : TokDict) (mg : Option Nat) (feat : Nat → Nat → List UInt8)
    (input : List UInt8) : Outcome (List SysTok) :=
  match decodeChars input with
  | none => .panic
  | some cs =>
    match Vibrato.tokenize D ⟨none, mg⟩ (cs.map Char.toNat) with
    | none => .panic
    | some ts => .ok (ts.map fun t => ⟨t.startWord, t.endWord, feat t.node.lexType t.node.wordId⟩)

/-! ## `tokenize -O wakati` and `tokenize -O detail` -/

/-- `" "` -/
def SP : UInt8 := 32

/-- `for i in 0..n { if i != 0 { out.write_all(b" ") } out.write_all(surface) }` -/
def wakatiBody : List (List UInt8) → List UInt8
  | [] => []
  | [s] => s
  | s :: t :: rest => s ++ SP :: wakatiBody (t :: rest)

/-- What `-O wakati` prints for one input line whose token surfaces are `surfaces`. -/
def wakatiLine (surfaces : List (List UInt8)) : List UInt8 := wakatiBody surfaces ++ [LF]

/-- Decimal digits, most significant first (`fuel` > number of digits). -/
def decDigits : Nat → Nat → List UInt8
  | 0, _ => []
  | fuel + 1, n =>
    if n < 10 then [UInt8.ofNat (48 + n)]
    else decDigits fuel (n / 10) ++ [UInt8.ofNat (48 + n % 10)]

/-- `{}` of an unsigned integer. -/
def natDec (n : Nat) : List UInt8 := decDigits (n + 1) n

/-- `{}` of a signed integer. -/
def intDec (i : Int) : List UInt8 :=
  if i < 0 then 45 :: natDec i.natAbs else natDec i.toNat

/-- The ASCII bytes of a literal. -/
def lit (s : String) : List UInt8 := s.toList.map fun c => UInt8.ofNat c.toNat

/-- `{:?}` of `LexType` (`#[derive(Debug)] enum LexType { System, User, Unknown }`), by the
number the lattice model uses for it. -/
def lexTypeDebug : Nat → List UInt8
  | 0 => lit "System"
  | 1 => lit "User"
  | _ => lit "Unknown"

/-- What the `Detail` arm reads from one token. -/
structure DetailTok where
  surface : List UInt8
  feature : List UInt8
  lexType : Nat
  leftId : Nat
  rightId : Nat
  wordCost : Int
  totalCost : Int
  deriving Repr, DecidableEq

/-- The fields of one detail line, without separators. -/
def detailFields (t : DetailTok) : List (List UInt8) :=
  [t.surface, t.feature,
   lit "lex_type=" ++ lexTypeDebug t.lexType,
   lit "left_id=" ++ natDec t.leftId,
   lit "right_id=" ++ natDec t.rightId,
   lit "word_cost=" ++ intDec t.wordCost,
   lit "total_cost=" ++ intDec t.totalCost]

/-- `{}\t{}\tlex_type={:?}\tleft_id={}\tright_id={}\tword_cost={}\ttotal_cost={}` (no `\n`). -/
def detailBody (t : DetailTok) : List UInt8 :=
  t.surface ++ TAB :: (t.feature ++ TAB :: (lit "lex_type=" ++ lexTypeDebug t.lexType ++ TAB ::
    (lit "left_id=" ++ natDec t.leftId ++ TAB :: (lit "right_id=" ++ natDec t.rightId ++ TAB ::
    (lit "word_cost=" ++ intDec t.wordCost ++ TAB :: (lit "total_cost=" ++ intDec t.totalCost))))))

/-- One `writeln!` of the `Detail` arm. -/
def detailLine (t : DetailTok) : List UInt8 := detailBody t ++ [LF]

/-- What `-O detail` prints for one input line: one line per token, then `EOS\n`. -/
def detailLines (toks : List DetailTok) : List UInt8 :=
  toks.flatMap detailLine ++ EOS ++ [LF]

/-- `str::split(sep)` for a one-byte separator, on bytes (always at least one piece). -/
def splitOnByte (sep : UInt8) : List UInt8 → List (List UInt8)
  | [] => [[]]
  | b :: bs =>
    if b = sep then [] :: splitOnByte sep bs
    else
      match splitOnByte sep bs with
      | [] => [[b]]
      | p :: ps => (b :: p) :: ps

end Vibrato.EvalSplit
