/-
`specMin`: an executable specification of "the minimum total cost over ALL candidate
segmentations of a sentence", independent of the lattice loop of `build_lattice_inner`.

It is the oracle of the differential check "reported total cost = minimum over all candidate
segmentations" in `Driver/Tok.lean` (`c02SpecPred`).  The definition `specMin` below is the one
that used to live in `Driver/Tok.lean`, moved here verbatim so that both the driver and the proofs
(`Proofs/SpecMin.lean`, `Props/C02spec.lean`) can import it.  The named pieces (`SpecMin.minOver`,
`SpecMin.stepCand`, `SpecMin.stepBoundary`, `SpecMin.table`, `SpecMin.finals`) are the bodies of
its `let`s and lambdas; `specMin_eq` (proved by `rfl`) says that `specMin` is the composition of
the named pieces, so the theorems about the pieces are theorems about the function the driver
runs.

No Mathlib imports: linked into the `vmodel` executable.
-/
import Vibrato.Model.Lattice

namespace Vibrato

/-- Minimum total cost over ALL candidate segmentations of the sentence in the sense of
`Props/C02cap.lean` (`CandSeg` from boundary 0 to a final boundary, `segCost`), computed by a
forward dynamic programme over boundaries that does not depend on which boundaries the
lattice loop visits.  It differs from the lattice minimum exactly when a candidate ends inside
or right after a run of skipped spaces (`NoEndInSkip` fails; known finding F24). -/
def specMin (E : LatEnv) : Option Int :=
  let minOver (here : List (Nat × Int)) (l : Nat) (m0 : Option Int) : Option Int :=
    here.foldl (fun m p =>
      let v := p.2 + E.conn p.1 l
      match m with
      | none => some v
      | some m' => some (min m' v)) m0
  let init : List (List (Nat × Int)) := [(0, 0)] :: List.replicate E.len []
  let table := (List.range E.len).foldl (fun tbl x =>
    let here := tbl.getD x []
    if here.isEmpty then tbl else
    let sw := x + E.skip x
    if sw ≥ E.len then tbl else
    (E.cands sw).foldl (fun tbl c =>
      match minOver here c.leftId none with
      | none => tbl
      | some b => tbl.modify c.endWord (· ++ [(c.rightId, b + c.wordCost)])) tbl) init
  let finals := (List.range (E.len + 1)).filter fun sn => sn == E.len || E.len ≤ sn + E.skip sn
  finals.foldl (fun m sn => minOver (table.getD sn []) 0 m) none

namespace SpecMin

/-- One table row: the `(right id, accumulated cost)` pairs recorded at a boundary.  The
accumulated cost excludes the connection to EOS. -/
abbrev Row := List (Nat × Int)

/-- `minOver` of `specMin`: fold the values `cost + conn(right id, l)` of the entries of `here`
into the running minimum `m0` (`none` = no value yet). -/
def minOver (conn : Nat → Nat → Int) (here : Row) (l : Nat) (m0 : Option Int) : Option Int :=
  here.foldl (fun m p =>
    let v := p.2 + conn p.1 l
    match m with
    | none => some v
    | some m' => some (min m' v)) m0

/-- the initial table: the empty chain (BOS right id 0, cost 0) at boundary 0 -/
def init (E : LatEnv) : List Row := [(0, 0)] :: List.replicate E.len []

/-- the inner lambda of `specMin`: record candidate `c` offered after the entries `here` -/
def stepCand (E : LatEnv) (here : Row) (tbl : List Row) (c : Cand) : List Row :=
  match minOver E.conn here c.leftId none with
  | none => tbl
  | some b => tbl.modify c.endWord (· ++ [(c.rightId, b + c.wordCost)])

/-- the outer lambda of `specMin`: process boundary `x` -/
def stepBoundary (E : LatEnv) (tbl : List Row) (x : Nat) : List Row :=
  let here := tbl.getD x []
  if here.isEmpty then tbl else
  let sw := x + E.skip x
  if sw ≥ E.len then tbl else
  (E.cands sw).foldl (stepCand E here) tbl

/-- the table after the boundaries `0 … k-1` have been processed -/
def tableUpTo (E : LatEnv) (k : Nat) : List Row := (List.range k).foldl (stepBoundary E) (init E)

/-- the finished table -/
def table (E : LatEnv) : List Row := tableUpTo E E.len

/-- the boundaries at which a segmentation may stop, in increasing order -/
def finals (E : LatEnv) : List Nat :=
  (List.range (E.len + 1)).filter fun sn => sn == E.len || E.len ≤ sn + E.skip sn

end SpecMin

/-- `specMin` is the composition of the named pieces (definitional unfolding). -/
theorem specMin_eq (E : LatEnv) :
    specMin E =
      (SpecMin.finals E).foldl
        (fun m sn => SpecMin.minOver E.conn ((SpecMin.table E).getD sn []) 0 m) none := rfl

end Vibrato
