/-
Model of

* `vibrato/src/trainer/feature_extractor.rs` (`FeatureExtractor::new`, `extract_feature_ids`,
  `extract_unigram_feature_ids`, `extract_left_feature_ids`, `extract_right_feature_ids`),
* `vibrato/src/trainer/config.rs::TrainerConfig::parse_feature_config`,
* `vibrato/src/trainer.rs::Trainer::extract_feature_set`,
* the connection-id numbering of `rucrf-0.3.3/src/model.rs::RawModel::merge` (`classesOf`).

Strings are `List Char` (`Str`), as in `Model/Rewriter.lean`.  The three template regexes

    %((F|F\?)\[([0-9]+)\]|t)        %(L|L\?)\[([0-9]+)\]        %(R|R\?)\[([0-9]+)\]

contain ASCII characters only (`[0-9]` is the explicit ASCII range also in Unicode mode), every
match is non-empty, and at a given start position there is at most one way to match
(`[0-9]+` is followed by `\]`, so greedy = only possibility; `(F|F\?)` is decided by the next
character).  `captures_iter` therefore is the scanner `scan`: at each position try `matchAt`; on a
match record it and continue directly behind it, otherwise advance one character.

Capture ranges are *character* offsets into the template here and *byte* offsets in the Rust code;
they are used for nothing but slicing the raw template at the borders of (ASCII) matches, so the
slices are the same strings.  Slicing is nevertheless modelled with its panic condition
(`start > end` or `end > len`), because a `ParsedTemplate` can also come out of `Decode`
(reload); `Proofs/Extractor.lean::expand_parse_ne_panic` shows that templates produced by
`parseTemplate` never hit it.

Panic sites that are explicit outcomes:
* `idx.parse::<usize>().unwrap()` in `new` for an index above `usize::MAX` (64 bit) → `parseTemplate … = panic`;
* the slices `raw_template[start..range.start]`, `raw_template[start..]`;
* `NonZeroU32::new(*next_id).unwrap()` with `next_id = 0`;
* `*next_id += 1` at `u32::MAX` (the harness builds with overflow checks; without them the counter
  wraps to 0 and the *next* call panics at the `unwrap` above);
* `utils::parse_csv_row` (a cell longer than 4096 bytes → `unreachable!()`), `FeatureRewriter::rewrite`.

`HashMap<String, NonZeroU32>` is an association list `List (Str × Nat)`; the code only uses
`entry(k).or_insert(v)`, `get`, `remove`, iteration into another map, so the list order is never
observable (new keys are appended at the end, which makes the list sorted by id as long as nothing
was reloaded).

No Mathlib / Batteries imports: linked into the model driver executable.
-/
import Vibrato.Model.Text
import Vibrato.Model.LexCsv
import Vibrato.Model.Rewriter

namespace Vibrato.Extractor

open Vibrato (Outcome)

/-- One representation for all strings: the list of Unicode scalar values. -/
abbrev Str := List Char

def usizeMax : Nat := 18446744073709551615
def u32Max : Nat := 4294967295

/-! ## Template parsing (`FeatureExtractor::new`) -/

/-- Which of the three regexes: unigram (`%F[i]`, `%F?[i]`, `%t`), left (`%L..`), right (`%R..`). -/
inductive Kind where
  | U | L | R
  deriving Repr, DecidableEq

def Kind.letter : Kind → Char
  | .U => 'F'
  | .L => 'L'
  | .R => 'R'

/-- `[0-9]` -/
def isDigit (c : Char) : Bool := 48 ≤ c.toNat && c.toNat ≤ 57

/-- One regex match: group 3 (the digits) and whether group 2 is the `?` form; or `%t`. -/
inductive Tok where
  | idx (digits : Str) (req : Bool)
  | cate
  deriving Repr, DecidableEq

/-- The text a token was matched from. -/
def Tok.text (k : Kind) : Tok → Str
  | .idx ds false => '%' :: k.letter :: '[' :: (ds ++ [']'])
  | .idx ds true => '%' :: k.letter :: '?' :: '[' :: (ds ++ [']'])
  | .cate => ['%', 't']

/-- `\[([0-9]+)\]` at the start of `s`: the digits. -/
def matchBracket (s : Str) : Option Str :=
  match s with
  | '[' :: r =>
    let ds := r.takeWhile isDigit
    if ds.isEmpty then none
    else match r.drop ds.length with
      | ']' :: _ => some ds
      | _ => none
  | _ => none

/-- The regex of kind `k` anchored at the start of `s`. -/
def matchAt (k : Kind) (s : Str) : Option Tok :=
  match s with
  | '%' :: c :: r =>
    if c = k.letter then
      match r with
      | '?' :: r' => (matchBracket r').map (Tok.idx · true)
      | _ => (matchBracket r).map (Tok.idx · false)
    else if k = .U ∧ c = 't' then some .cate
    else none
  | _ => none

/-- `captures_iter`: leftmost, non-overlapping matches with their start offsets.  `skip` = number
of characters still covered by the previous match. -/
def scan (k : Kind) : Str → Nat → Nat → List (Nat × Tok)
  | [], _, _ => []
  | _ :: cs, pos, skip + 1 => scan k cs (pos + 1) skip
  | c :: cs, pos, 0 =>
    match matchAt k (c :: cs) with
    | some t => (pos, t) :: scan k cs (pos + 1) ((t.text k).length - 1)
    | none => scan k cs (pos + 1) 0

/-- Value of a non-empty all-digit string. -/
def digitsVal (ds : Str) : Nat := ds.foldl (fun acc c => acc * 10 + (c.toNat - 48)) 0

/-- `enum FeatureType { Index(usize), CharacterType }` -/
inductive FeatureType where
  | index (i : Nat)
  | charType
  deriving Repr, DecidableEq

/-- `(Range<usize>, FeatureType)` -/
structure Capture where
  start : Nat
  stop : Nat
  ft : FeatureType
  deriving Repr, DecidableEq

/-- `struct ParsedTemplate` -/
structure ParsedTemplate where
  raw : Str
  required : List Nat
  captures : List Capture
  deriving Repr, DecidableEq

/-- The loop body over `captures_iter`: `none` = `parse::<usize>().unwrap()` panicked. -/
def collect (k : Kind) : List (Nat × Tok) → Option (List Nat × List Capture)
  | [] => some ([], [])
  | (pos, t) :: rest =>
    match t with
    | .cate =>
      (collect k rest).map fun (rq, cs) => (rq, ⟨pos, pos + (t.text k).length, .charType⟩ :: cs)
    | .idx ds req =>
      if digitsVal ds ≤ usizeMax then
        (collect k rest).map fun (rq, cs) =>
          (if req then digitsVal ds :: rq else rq,
           ⟨pos, pos + (t.text k).length, .index (digitsVal ds)⟩ :: cs)
      else none

/-- One iteration of the template loops of `FeatureExtractor::new`. -/
def parseTemplate (k : Kind) (raw : Str) : Outcome ParsedTemplate :=
  match collect k (scan k raw 0 0) with
  | some (rq, cs) => .ok ⟨raw, rq, cs⟩
  | none => .panic

def parseTemplates (k : Kind) : List Str → Outcome (List ParsedTemplate)
  | [] => .ok []
  | t :: ts =>
    match parseTemplate k t with
    | .ok p =>
      match parseTemplates k ts with
      | .ok ps => .ok (p :: ps)
      | .err => .err
      | .panic => .panic
    | .err => .err
    | .panic => .panic

/-! ## Expansion of one template (`extract_feature_ids`, string assembly) -/

/-- `features.get(idx).map_or("*", |f| f.as_ref())` -/
def featOrStar (feats : List Str) (i : Nat) : Str := (feats[i]?).getD ['*']

/-- `&s[a..b]`; `none` = panic. -/
def slice (s : Str) (a b : Nat) : Option Str :=
  if a ≤ b ∧ b ≤ s.length then some ((s.drop a).take (b - a)) else none

/-- `u32::to_string` -/
def natToStr (n : Nat) : Str := (Nat.toDigits 10 n)

def ftValue (feats : List Str) (cate : Nat) : FeatureType → Str
  | .index i => featOrStar feats i
  | .charType => natToStr cate

/-- The `for (range, feature) in &template.captures` loop with the final `push_str`. -/
def expandLoop (raw : Str) (feats : List Str) (cate : Nat) : List Capture → Nat → Str → Option Str
  | [], start, acc => (slice raw start raw.length).map (acc ++ ·)
  | c :: cs, start, acc =>
    match slice raw start c.start with
    | none => none
    | some lit => expandLoop raw feats cate cs c.stop (acc ++ lit ++ ftValue feats cate c.ft)

/-- The first loop: `true` when some required index is `*` or absent (`result.push(None)`). -/
def requiredMissing (feats : List Str) (req : List Nat) : Bool :=
  req.any fun i => featOrStar feats i == ['*']

/-- Expansion of one template: `ok none` = no feature, `ok (some s)` = the feature string. -/
def expand (pt : ParsedTemplate) (feats : List Str) (cate : Nat) : Outcome (Option Str) :=
  if requiredMissing feats pt.required then .ok none
  else match expandLoop pt.raw feats cate pt.captures 0 [] with
    | some s => .ok (some s)
    | none => .panic

/-- Parse and expand one template (what the `EXPAND` driver verb computes). -/
def expandTemplate (k : Kind) (raw : Str) (feats : List Str) (cate : Nat) : Outcome (Option Str) :=
  match parseTemplate k raw with
  | .ok pt => expand pt feats cate
  | .err => .err
  | .panic => .panic

/-! ## Interning -/

abbrev IdMap := List (Str × Nat)

def lookup {α : Type} [DecidableEq α] (m : List (α × Nat)) (s : α) : Option Nat :=
  match m with
  | [] => none
  | (k, v) :: rest => if k = s then some v else lookup rest s

/-- The four statements
`let new_id = NonZeroU32::new(*next_id).unwrap();
 let feature_id = *feature_ids.entry(feature_string).or_insert(new_id);
 if new_id == feature_id { *next_id += 1; }`
Result: the id, the map, the counter. -/
def intern (m : IdMap) (next : Nat) (s : Str) : Outcome (Nat × IdMap × Nat) :=
  if next = 0 then .panic
  else
    let (id, m') := match lookup m s with
      | some id => (id, m)
      | none => (next, m ++ [(s, next)])
    if next = id then
      if next = u32Max then .panic else .ok (id, m', next + 1)
    else .ok (id, m', next)

/-- `extract_feature_ids`: results in template order, the map and the counter afterwards. -/
def extractIds (feats : List Str) (cate : Nat) :
    List ParsedTemplate → IdMap → Nat → Outcome (List (Option Nat) × IdMap × Nat)
  | [], m, next => .ok ([], m, next)
  | pt :: pts, m, next =>
    match expand pt feats cate with
    | .ok none =>
      match extractIds feats cate pts m next with
      | .ok (res, m', n') => .ok (none :: res, m', n')
      | .err => .err
      | .panic => .panic
    | .ok (some s) =>
      match intern m next s with
      | .ok (id, m1, n1) =>
        match extractIds feats cate pts m1 n1 with
        | .ok (res, m', n') => .ok (some id :: res, m', n')
        | .err => .err
        | .panic => .panic
      | .err => .err
      | .panic => .panic
    | .err => .err
    | .panic => .panic

/-- `struct FeatureExtractor` -/
structure ExtractorState where
  uni : IdMap := []
  left : IdMap := []
  right : IdMap := []
  uniNext : Nat := 1
  leftNext : Nat := 1
  rightNext : Nat := 1
  uniT : List ParsedTemplate := []
  leftT : List ParsedTemplate := []
  rightT : List ParsedTemplate := []
  deriving Repr, DecidableEq

/-- `FeatureExtractor::new(unigram_templates, bigram_templates)`.  (The Rust loop parses the left
and the right template of each pair alternately; a panic anywhere is a panic of `new`, so the
order does not matter.) -/
def ExtractorState.new (unigram : List Str) (bigram : List (Str × Str)) : Outcome ExtractorState :=
  match parseTemplates .U unigram with
  | .ok u =>
    match parseTemplates .L (bigram.map (·.1)) with
    | .ok l =>
      match parseTemplates .R (bigram.map (·.2)) with
      | .ok r => .ok { uniT := u, leftT := l, rightT := r }
      | .err => .err
      | .panic => .panic
    | .err => .err
    | .panic => .panic
  | .err => .err
  | .panic => .panic

/-- `extract_unigram_feature_ids` (`.into_iter().flatten().collect()`). -/
def extractUnigram (st : ExtractorState) (feats : List Str) (cate : Nat) :
    Outcome (List Nat × ExtractorState) :=
  match extractIds feats cate st.uniT st.uni st.uniNext with
  | .ok (res, m, n) => .ok (res.filterMap id, { st with uni := m, uniNext := n })
  | .err => .err
  | .panic => .panic

/-- `extract_left_feature_ids` (category id 0). -/
def extractLeft (st : ExtractorState) (feats : List Str) :
    Outcome (List (Option Nat) × ExtractorState) :=
  match extractIds feats 0 st.leftT st.left st.leftNext with
  | .ok (res, m, n) => .ok (res, { st with left := m, leftNext := n })
  | .err => .err
  | .panic => .panic

/-- `extract_right_feature_ids` (category id 0). -/
def extractRight (st : ExtractorState) (feats : List Str) :
    Outcome (List (Option Nat) × ExtractorState) :=
  match extractIds feats 0 st.rightT st.right st.rightNext with
  | .ok (res, m, n) => .ok (res, { st with right := m, rightNext := n })
  | .err => .err
  | .panic => .panic

/-! ## `Trainer::extract_feature_set` -/

/-- `rucrf::FeatureSet::new(&unigram, &right, &left)` -/
structure FeatureSet where
  unigram : List Nat
  bigramRight : List (Option Nat)
  bigramLeft : List (Option Nat)
  deriving Repr, DecidableEq

def ofRewriter {α} : Rewriter.Outcome α → Outcome α
  | .ok a => .ok a
  | .err => .err
  | .panic => .panic
  | .hang => .panic   -- unreachable: `Rewriter.rewrite_ne_hang`

def ofLexCsv {α} : LexCsv.Outcome α → Outcome α
  | .ok a => .ok a
  | .err => .err
  | .panic => .panic

/-- `utils::parse_csv_row` on `Str` (repaired tree of finding F18: `parseCsvRow true`). -/
def csvRow (row : Str) : Outcome (List Str) :=
  match LexCsv.parseCsvRow true (String.ofList row) with
  | .ok cells => .ok (cells.map String.toList)
  | .err => .err
  | .panic => .panic

/-- `Trainer::extract_feature_set`: csv row → three rewriters (falling back to the unrewritten
row) → unigram (with the category id), left, right extraction, in this order. -/
def extractFeatureSet (st : ExtractorState) (uniRw leftRw rightRw : Rewriter.Trie)
    (featureStr : Str) (cate : Nat) : Outcome (FeatureSet × ExtractorState) :=
  match csvRow featureStr with
  | .ok feats =>
    match ofRewriter (Rewriter.rewriteOrSame uniRw feats) with
    | .ok fu =>
      match extractUnigram st fu cate with
      | .ok (u, st1) =>
        match ofRewriter (Rewriter.rewriteOrSame leftRw feats) with
        | .ok fl =>
          match extractLeft st1 fl with
          | .ok (l, st2) =>
            match ofRewriter (Rewriter.rewriteOrSame rightRw feats) with
            | .ok fr =>
              match extractRight st2 fr with
              | .ok (r, st3) => .ok (⟨u, r, l⟩, st3)
              | .err => .err
              | .panic => .panic
            | .err => .err
            | .panic => .panic
          | .err => .err
          | .panic => .panic
        | .err => .err
        | .panic => .panic
      | .err => .err
      | .panic => .panic
    | .err => .err
    | .panic => .panic
  | .err => .err
  | .panic => .panic

/-! ## `TrainerConfig::parse_feature_config` -/

/-- `str::strip_prefix` -/
def stripPrefix (p s : Str) : Option Str :=
  if p.isPrefixOf s then some (s.drop p.length) else none

/-- The line loop: the raw template lists.  `none` = `Err`.  Lines are `none` when they are not
valid UTF-8 (`line?`). -/
def featureConfigLines : List (Option Str) → List Str → List (Str × Str) →
    Option (List Str × List (Str × Str))
  | [], u, b => some (u, b)
  | none :: _, _, _ => none
  | some line :: rest, u, b =>
    let line := Text.trim line
    if line.isEmpty || line.head? = some '#' then featureConfigLines rest u b
    else match stripPrefix "UNIGRAM ".toList line with
      | some t => featureConfigLines rest (u ++ [t]) b
      | none =>
        match stripPrefix "BIGRAM ".toList line with
        | some t =>
          match Text.splitOn '/' t with
          | [l, r] => featureConfigLines rest u (b ++ [(l, r)])
          | _ => none
        | none => none

/-- `BufReader::new(rdr).lines()` with UTF-8 decoding. -/
def readLines (bytes : List UInt8) : List (Option Str) :=
  (Text.rawLines bytes).map fun l => (Text.decodeLine l).map String.toList

/-- The raw templates of a `feature.def` (before `FeatureExtractor::new`). -/
def featureConfigTemplates (bytes : List UInt8) : Option (List Str × List (Str × Str)) :=
  featureConfigLines (readLines bytes) [] []

/-- `TrainerConfig::parse_feature_config`. -/
def parseFeatureConfig (bytes : List UInt8) : Outcome ExtractorState :=
  match featureConfigTemplates bytes with
  | none => .err
  | some (u, b) => ExtractorState.new u b

/-! ## Connection classes (`rucrf::RawModel::merge`) -/

/-- The numbering loop of `RawModel::merge` for one side: `map` is `left_conn_ids`
(`raw_entry_mut().from_key(tuple).or_insert_with(..)`), `table` is `left_conn_to_right_feats`;
a new tuple gets the id `table.len() + 1`.  Returns the id of every label and the table. -/
def classesGo : List (List (Option Nat)) → List (List (Option Nat) × Nat) → List (List (Option Nat)) →
    List Nat × List (List (Option Nat))
  | [], _, table => ([], table)
  | t :: ts, map, table =>
    match lookup map t with
    | some id =>
      let (ids, tb) := classesGo ts map table
      (id :: ids, tb)
    | none =>
      let newId := table.length + 1
      let (ids, tb) := classesGo ts (map ++ [(t, newId)]) (table ++ [t])
      (newId :: ids, tb)

/-- Connection ids of the labels (first-appearance numbering from 1). -/
def classesOf (ts : List (List (Option Nat))) : List Nat := (classesGo ts [] []).1

/-- `left_conn_to_right_feats` / `right_conn_to_left_feats`: row `c - 1` is the tuple of id `c`. -/
def classTable (ts : List (List (Option Nat))) : List (List (Option Nat)) := (classesGo ts [] []).2

end Vibrato.Extractor
