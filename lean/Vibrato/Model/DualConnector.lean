import Vibrato.Model.RawConnector
/-
Model of `vibrato/src/dictionary/connector/dual_connector.rs`
(`DualConnector::{from_readers, create_matrix_connector, create_raw_connector, cost}`) and of
`MatrixConnector::{new, cost}`.

* `remove_feature_templates_greedy` iterates a `hashbrown::HashSet<usize>`; with ties broken by
  iteration order its result is not a function of the input.  What is a function of the input is
  its size: every round removes exactly one element while the set is non-empty, so it returns
  `K - min(8, K)` indices.  The model therefore takes the chosen *raw* template set as a
  parameter `split : List Nat` (any list; only membership matters) and `ValidSplit` records the
  size constraint.
* `fixed = false` is the pinned tree.  It panics for `K < 8` templates
  (`feat_template_size - SIMD_SIZE` underflows — finding F11) and pads the matrix-side feature
  vectors with `0` = id of the empty feature (finding F14).
* `fixed = true` is the minimally repaired code: the zero row has `matrix_indices.len()`
  entries, `U31x8::to_simd_vec` pads with `INVALID`, the raw lanes of every row are padded with
  `INVALID` up to 8.
No Mathlib / Batteries imports.
-/
namespace Vibrato.DualConnector
open Vibrato.Scorer Vibrato.RawConnector

/-- `for i in 0..feat_template_size { if matrix_ids_set.contains(&i) {matrix} else {raw} }`. -/
def matrixIndices (K : Nat) (split : List Nat) : List Nat := (List.range K).filter (fun i => !split.contains i)
def rawIndices (K : Nat) (split : List Nat) : List Nat := (List.range K).filter (fun i => split.contains i)

/-- The greedy search leaves exactly `K - min 8 K` matrix templates. -/
def ValidSplit (K : Nat) (split : List Nat) : Prop := (rawIndices K split).length = min SIMD_SIZE K

instance (K : Nat) (split : List Nat) : Decidable (ValidSplit K split) := by
  unfold ValidSplit; infer_instance

/-- `row.get(idx).unwrap_or(&INVALID_FEATURE_ID)` for every index. -/
def project (idxs : List Nat) (row : List Nat) : List Nat := idxs.map fun i => (row[i]?).getD INVALID

/-- `HashMap<Vec<U31>, usize>::get`: ids are indices (assigned as `feats_map.len()`). -/
def lookupVec (v : List Nat) : List (List Nat) → Option Nat
  | [] => none
  | x :: xs => if x = v then some 0 else (lookupVec v xs).map (· + 1)

/-- `feats_map.entry(feat_ids).or_insert(new_conn_id)`: index of the vector, appended if new. -/
def internVec (m : List (List Nat)) (v : List Nat) : List (List Nat) × Nat :=
  match lookupVec v m with
  | some i => (m, i)
  | none => (m ++ [v], m.length)

/-- `generate_feature_map`: `conn_id_map` (starting with `[0]`) and the distinct projected rows
in order of their ids.  `u16::try_from(conn_id).unwrap()` panics from id 65536 on. -/
def featureMapLoop (idxs : List Nat) : List (List Nat) → List Nat → List (List Nat) →
    Outcome (List Nat × List (List Nat))
  | [], connIdMap, feats => .ok (connIdMap, feats)
  | row :: rest, connIdMap, feats =>
    let (feats', id) := internVec feats (project idxs row)
    if id < 65536 then featureMapLoop idxs rest (connIdMap ++ [id]) feats' else .panic

/-- `MatrixConnector` (`data[left * num_right + right]`). -/
structure Matrix where
  data : List Int
  numRight : Nat
  numLeft : Nat
  deriving Repr, DecidableEq

/-- `cost.clamp(i16::MIN as i32, i16::MAX as i32) as i16`. -/
def clampI16 (x : Int) : Int := if x < -32768 then -32768 else if x > 32767 then 32767 else x

/-- Runs `f` over a list, stopping at the first non-`ok`. -/
def mapO {α β : Type} (f : α → Outcome β) : List α → Outcome (List β)
  | [] => .ok []
  | x :: xs =>
    match f x with
    | .ok y =>
      match mapO f xs with
      | .ok ys => .ok (y :: ys)
      | .err => .err
      | .panic => .panic
    | .err => .err
    | .panic => .panic

/-- `DualConnector`. -/
structure Conn where
  matrix : Matrix
  rightConnIdMap : List Nat
  leftConnIdMap : List Nat
  rightFeatIds : List U31x8
  leftFeatIds : List U31x8
  rawScorer : Scorer
  deriving Repr, DecidableEq

/-- The scorer pruning of `create_raw_connector`: rows of unused right ids are cleared, unused
left ids are removed from the other rows. -/
def pruneTrie (t : Trie) (rightUsed leftUsed : List Nat) : Trie :=
  (List.range t.length).zipWith (fun i row =>
    if rightUsed.contains i then row.filter (fun e => leftUsed.contains e.1) else []) t

/-- Raw lanes: a zero row followed by the projected rows (`fixed`: padded to 8 lanes). -/
def rawLanes (fixed : Bool) (rawIdx : List Nat) (rows : List (List Nat)) : List Nat :=
  let pad := if fixed then List.replicate (SIMD_SIZE - rawIdx.length) INVALID else []
  (List.replicate rawIdx.length 0 ++ pad) ++ (rows.map fun row => project rawIdx row ++ pad).flatten

/-- `create_matrix_connector`.  `oc`: overflow checks in `accumulate_cost`. -/
def createMatrix (fixed oc : Bool) (rightRows leftRows : List (List Nat)) (matrixIdx : List Nat)
    (K : Nat) (scorer : Scorer) : Outcome (Matrix × List Nat × List Nat) :=
  -- `vec![U31::default(); feat_template_size - SIMD_SIZE]`
  if !fixed && K < SIMD_SIZE then .panic else
  let zeroRow := List.replicate (if fixed then matrixIdx.length else K - SIMD_SIZE) 0
  let simd := fun (v : List Nat) => toSimdVecPad (if fixed then INVALID else 0) v.length v
  match featureMapLoop matrixIdx rightRows [0] [zeroRow] with
  | .ok (rmap, rfeats) =>
    match featureMapLoop matrixIdx leftRows [0] [zeroRow] with
    | .ok (lmap, lfeats) =>
      match mapO (fun lf => mapO (fun rf =>
          match accumulate oc scorer (simd rf) (simd lf) with
          | .ok c => .ok (clampI16 c)
          | .err => .err
          | .panic => .panic) rfeats) lfeats with
      | .ok rowsM => .ok (⟨rowsM.flatten, rfeats.length, lfeats.length⟩, rmap, lmap)
      | .err => .err
      | .panic => .panic
    | .err => .err
    | .panic => .panic
  | .err => .err
  | .panic => .panic

/-- `DualConnector::from_readers` with the template split as a parameter. -/
def fromReaders (fixed oc : Bool) (parseCsvRow : Str → Outcome (List Str)) (split : List Nat)
    (right left cost : List (Option Str)) : Outcome Conn :=
  match builderFromReaders parseCsvRow right left cost with
  | .ok b =>
    if fixed ∧ b.K = 0 then .err else
    match buildChecked b.trie with
    | .ok scorer =>
      let matrixIdx := matrixIndices b.K split
      let rawIdx := rawIndices b.K split
      match createMatrix fixed oc b.rightRows b.leftRows matrixIdx b.K scorer with
      | .ok (matrix, rmap, lmap) =>
        let rlanes := rawLanes fixed rawIdx b.rightRows
        let llanes := rawLanes fixed rawIdx b.leftRows
        match buildChecked (pruneTrie b.trie rlanes llanes) with
        | .ok rawScorer =>
          let pad := if fixed then INVALID else 0
          .ok ⟨matrix, rmap, lmap, toSimdVecPad pad rlanes.length rlanes,
               toSimdVecPad pad llanes.length llanes, rawScorer⟩
        | .err => .err
        | .panic => .panic
      | .err => .err
      | .panic => .panic
    | .err => .err
    | .panic => .panic
  | .err => .err
  | .panic => .panic

/-- `MatrixConnector::cost` (`data[index]` panics out of range). -/
def matrixCost (m : Matrix) (rightId leftId : Nat) : Outcome Int :=
  match m.data[leftId * m.numRight + rightId]? with
  | some c => .ok c
  | none => .panic

/-- `DualConnector::cost`. -/
def dualCost (oc : Bool) (c : Conn) (rightId leftId : Nat) : Outcome Int :=
  match c.rightConnIdMap[rightId]? with
  | none => .panic
  | some rc =>
    match c.leftConnIdMap[leftId]? with
    | none => .panic
    | some lc =>
      match matrixCost c.matrix rc lc with
      | .ok mcost =>
        match c.rightFeatIds[rightId]?, c.leftFeatIds[leftId]? with
        | some rf, some lf =>
          match accumulate oc c.rawScorer [rf] [lf] with
          | .ok rcost => addI32 oc mcost rcost
          | .err => .err
          | .panic => .panic
        | _, _ => .panic
      | .err => .err
      | .panic => .panic

def numRight (c : Conn) : Nat := c.rightConnIdMap.length
def numLeft (c : Conn) : Nat := c.leftConnIdMap.length

end Vibrato.DualConnector
