import Vibrato.Model.Scorer
/-
Model of `vibrato/src/dictionary/connector/raw_connector.rs`
(`RawConnectorBuilder::{from_readers, parse_features, parse_cost}`,
`RawConnector::{from_readers, right_feature_ids, left_feature_ids, num_left, num_right, cost}`).

Conventions
* A Rust `String`/`&str` is a `List Char` (`Str`).  All characters the code looks at are ASCII
  (`'\t'`, `'/'`, digits, sign), so splitting on `char`s and on bytes agree.
* A reader is a list of lines `List (Option Str)` as produced by `BufRead::lines()`:
  `none` is a line that is not valid UTF-8 (`line?` returns `Err`).  `readLines` produces this
  list from the bytes of a file.
* `HashMap<String, U31>` id maps are `List Str`: the id of a string is its index (ids are
  assigned as `map.len()` at insertion and nothing is ever removed; `""` is inserted first).
* `parseCsvRow` (`utils::parse_csv_row`, csv-core) is a parameter `Str → Outcome (List Str)`
  (`panic`: a field longer than the 4096-byte output buffer hits `unreachable!()`).
* `fixed = false` is the pinned tree; `fixed = true` is the minimally repaired code for finding
  F14 (the padding lanes of the BOS/EOS row are filled with `INVALID` instead of `0`).
No Mathlib / Batteries imports.
-/
namespace Vibrato.RawConnector
open Vibrato.Scorer

abbrev Str := List Char

/-- `str::split(c)`: always at least one piece. -/
def splitOn (c : Char) : Str → List Str
  | [] => [[]]
  | x :: xs =>
    match splitOn c xs with
    | [] => [[]]
    | cur :: rest => if x = c then [] :: cur :: rest else (x :: cur) :: rest

def digitVal (c : Char) : Option Nat :=
  if '0' ≤ c ∧ c ≤ '9' then some (c.toNat - 48) else none

/-- Decimal value of a non-empty all-digit string. -/
def digitsVal : Str → Nat → Option Nat
  | [], acc => some acc
  | c :: rest, acc =>
    match digitVal c with
    | some d => digitsVal rest (acc * 10 + d)
    | none => none

/-- `str::parse::<i32>()`: optional `+`/`-`, at least one ASCII digit, value in range. -/
def parseI32 (s : Str) : Option Int :=
  match s with
  | [] => none
  | ['+'] => none
  | ['-'] => none
  | '+' :: rest =>
    match digitsVal rest 0 with
    | some v => if v ≤ 2147483647 then some (v : Int) else none
    | none => none
  | '-' :: rest =>
    match digitsVal rest 0 with
    | some v => if v ≤ 2147483648 then some (-(v : Int)) else none
    | none => none
  | _ =>
    match digitsVal s 0 with
    | some v => if v ≤ 2147483647 then some (v : Int) else none
    | none => none

/-- `str::parse::<usize>()` (64-bit): optional `+`, at least one ASCII digit, `< 2^64`. -/
def parseUsize (s : Str) : Option Nat :=
  match s with
  | [] => none
  | ['+'] => none
  | ['-'] => none
  | '+' :: rest =>
    match digitsVal rest 0 with
    | some v => if v < 18446744073709551616 then some v else none
    | none => none
  | _ =>
    match digitsVal s 0 with
    | some v => if v < 18446744073709551616 then some v else none
    | none => none

/-- `HashMap::get`: the id of an interned string. -/
def lookupId (s : Str) : List Str → Option Nat
  | [] => none
  | x :: xs => if x = s then some 0 else (lookupId s xs).map (· + 1)

/-- `raw_entry_mut().from_key(s).or_insert_with(|| (s, U31::new(map.len()).unwrap()))`.
Panics when a new string would get an id `> U31::MAX`. -/
def intern (m : List Str) (s : Str) : Outcome (List Str × Nat) :=
  match lookupId s m with
  | some i => .ok (m, i)
  | none => if m.length ≤ INVALID then .ok (m ++ [s], m.length) else .panic

/-- The purely syntactic part of `parse_cost`: `right/left<TAB>cost`. -/
def parseCostLine (line : Str) : Option (Str × Str × Int) :=
  match splitOn '\t' line with
  | [featureStr, costStr] =>
    match parseI32 costStr with
    | some cost =>
      match splitOn '/' featureStr with
      | [rightStr, leftStr] => some (rightStr, leftStr, cost)
      | _ => none
    | none => none
  | _ => none

/-- Builder state while `bigram.cost` is read. -/
structure CostState where
  rmap : List Str
  lmap : List Str
  trie : Trie

/-- `parse_cost` followed by `scorer_builder.insert`. -/
def costStep (st : CostState) (line : Str) : Outcome CostState :=
  match parseCostLine line with
  | none => .err
  | some (rightStr, leftStr, cost) =>
    match intern st.rmap rightStr with
    | .ok (rmap, rid) =>
      match intern st.lmap leftStr with
      | .ok (lmap, lid) => .ok ⟨rmap, lmap, insert st.trie rid lid cost⟩
      | .err => .err
      | .panic => .panic
    | .err => .err
    | .panic => .panic

/-- `for line in cost_rdr.lines() { let line = line?; … }`. -/
def costLoop : List (Option Str) → CostState → Outcome CostState
  | [], st => .ok st
  | none :: _, _ => .err
  | some line :: rest, st =>
    match costStep st line with
    | .ok st' => costLoop rest st'
    | e => e

/-- Feature id of a feature string: its interned id or `INVALID_FEATURE_ID`. -/
def featId (m : List Str) (s : Str) : Nat := (lookupId s m).getD INVALID

/-- The syntactic part of `parse_features`: `id<TAB>csv_row`. -/
def parseFeatureLine (parseCsvRow : Str → Outcome (List Str)) (line : Str) :
    Outcome (Nat × List Str) :=
  match splitOn '\t' line with
  | [idStr, featuresStr] =>
    match parseUsize idStr with
    | some id =>
      match parseCsvRow featuresStr with
      | .ok feats => .ok (id, feats)
      | .err => .err
      | .panic => .panic
    | none => .err
  | _ => .err

/-- The loop over `bigram.right` / `bigram.left`: `(i, line)`, ascending-id check,
`feat_template_size = max(..)`, push. Returns the rows and the updated template size. -/
def featLoop (parseCsvRow : Str → Outcome (List Str)) (m : List Str) :
    List (Option Str) → Nat → Nat → List (List Nat) → Outcome (List (List Nat) × Nat)
  | [], _, K, rows => .ok (rows, K)
  | none :: _, _, _, _ => .err
  | some line :: rest, i, K, rows =>
    match parseFeatureLine parseCsvRow line with
    | .ok (id, feats) =>
      if id ≠ i + 1 then .err
      else featLoop parseCsvRow m rest (i + 1) (max K feats.length) (rows ++ [feats.map (featId m)])
    | .err => .err
    | .panic => .panic

/-- `RawConnectorBuilder`. -/
structure Builder where
  rightRows : List (List Nat)
  leftRows : List (List Nat)
  K : Nat
  trie : Trie
  deriving Repr

/-- `RawConnectorBuilder::from_readers`. -/
def builderFromReaders (parseCsvRow : Str → Outcome (List Str))
    (right left cost : List (Option Str)) : Outcome Builder :=
  match costLoop cost ⟨[[]], [[]], []⟩ with
  | .ok st =>
    match featLoop parseCsvRow st.rmap right 0 0 [] with
    | .ok (rrows, K1) =>
      match featLoop parseCsvRow st.lmap left 0 K1 [] with
      | .ok (lrows, K2) => .ok ⟨rrows, lrows, K2, st.trie⟩
      | .err => .err
      | .panic => .panic
    | .err => .err
    | .panic => .panic
  | .err => .err
  | .panic => .panic

/-- `RawConnector`: `feat_template_size` is counted in `U31x8` units. -/
structure Conn where
  rightFeatIds : List U31x8
  leftFeatIds : List U31x8
  fts : Nat
  scorer : Scorer
  deriving Repr

/-- The padded template size `((K - 1) / 8 + 1) * 8` (`0` for `K = 0`). -/
def paddedSize (K : Nat) : Nat := if K ≠ 0 then ((K - 1) / SIMD_SIZE + 1) * SIMD_SIZE else 0

/-- Row 0 (BOS/EOS).  Pinned code: `[..feat_template_size].fill(0)` with the *padded* size.
Repaired code: zeros for the `K` real positions, `INVALID` in the padding lanes. -/
def bosRow (fixed : Bool) (K : Nat) : List Nat :=
  if fixed then List.replicate K 0 ++ List.replicate (paddedSize K - K) INVALID
  else List.replicate (paddedSize K) 0

/-- A real row: the ids followed by `INVALID` up to the padded size. -/
def padRow (K : Nat) (row : List Nat) : List Nat :=
  row ++ List.replicate (paddedSize K - row.length) INVALID

/-- The flat `(N+1) * paddedSize` matrix: `vec![INVALID; ..]`, first row filled, every row
copied over the head of its chunk. -/
def flatMatrix (fixed : Bool) (K : Nat) (rows : List (List Nat)) : List Nat :=
  bosRow fixed K ++ (rows.map (padRow K)).flatten

/-- `RawConnector::from_readers`.  Pinned code: `chunks_mut(feat_template_size)` panics for chunk
size 0, i.e. when no feature template exists; repaired code: an error. -/
def fromReaders (fixed : Bool) (parseCsvRow : Str → Outcome (List Str))
    (right left cost : List (Option Str)) : Outcome Conn :=
  match builderFromReaders parseCsvRow right left cost with
  | .ok b =>
    if paddedSize b.K = 0 then (if fixed then .err else .panic)
    else
      match buildChecked b.trie with
      | .ok scorer =>
        .ok ⟨toSimdVec (flatMatrix fixed b.K b.rightRows), toSimdVec (flatMatrix fixed b.K b.leftRows),
             paddedSize b.K / SIMD_SIZE, scorer⟩
      | .err => .err
      | .panic => .panic
  | .err => .err
  | .panic => .panic

/-- `right_feature_ids` / `left_feature_ids`:
`&ids[usize::from(id) * fts .. usize::from(id + 1) * fts]` with `id : u16`. -/
def featureIds (ids : List U31x8) (fts id : Nat) : Outcome (List U31x8) :=
  if id + 1 ≥ 65536 then .panic          -- `id + 1` overflows `u16` (wraps to 0 ⇒ start > end)
  else if (id + 1) * fts > ids.length then .panic   -- slice end out of range
  else .ok ((ids.drop (id * fts)).take fts)

/-- `num_right` / `num_left` (`len / feat_template_size`, division by zero impossible after
`fromReaders`). -/
def numIds (ids : List U31x8) (fts : Nat) : Nat := ids.length / fts

/-- `RawConnector::cost` (portable scorer; `oc` = overflow checks). -/
def rawCost (oc : Bool) (c : Conn) (rightId leftId : Nat) : Outcome Int :=
  match featureIds c.rightFeatIds c.fts rightId with
  | .ok rs =>
    match featureIds c.leftFeatIds c.fts leftId with
    | .ok ls => accumulate oc c.scorer rs ls
    | .err => .err
    | .panic => .panic
  | .err => .err
  | .panic => .panic

/-- `RawConnector::cost` with the AVX2 scorer. -/
def rawCostAvx2 (oc : Bool) (c : Conn) (rightId leftId : Nat) : Outcome Int :=
  match featureIds c.rightFeatIds c.fts rightId with
  | .ok rs =>
    match featureIds c.leftFeatIds c.fts leftId with
    | .ok ls => accumulateAvx2 oc c.scorer rs ls
    | .err => .err
    | .panic => .panic
  | .err => .err
  | .panic => .panic

/-! ### `BufRead::lines()` -/

/-- Split at `\n`; a trailing `\n` does not start another line; one trailing `\r` is removed. -/
def splitLines : List UInt8 → List UInt8 → List (List UInt8)
  | [], cur => if cur.isEmpty then [] else [cur.reverse]
  | b :: rest, cur =>
    if b = 10 then
      (match cur with
       | 13 :: cur' => cur'.reverse
       | _ => cur.reverse) :: splitLines rest []
    else splitLines rest (b :: cur)

/-- `BufReader::new(rdr).lines()`: `none` for a line that is not valid UTF-8. -/
def readLines (bytes : List UInt8) : List (Option Str) :=
  (splitLines bytes []).map fun l =>
    (String.fromUTF8? (ByteArray.mk l.toArray)).map String.toList

end Vibrato.RawConnector
