/-
Model of the bincode-2 wire format as used by vibrato
(`/repo/vibrato/src/common.rs`: `config::standard().with_little_endian().with_fixed_int_encoding()`,
no size limit; reader = `decode_from_std_read`, i.e. `read_exact` on a `std::io::Read`).

A decoder consumes a prefix of the input and returns the value together with the
unread remainder (the real reader does not require the stream to end).  There are three
outcomes:

* `ok v rest` – value decoded, `rest` is what is left in the stream;
* `err`       – the Rust code returns `Err(DecodeError::…)` (short input = `read_exact` fails,
                bad bool / option tag / enum variant / U31 range / UTF-8 / array-length mismatch);
* `panic`     – the Rust code panics (unwinding): `Vec::with_capacity(len)` / `vec![0u8; len]`
                with `len * size_of::<T>() > isize::MAX` ("capacity overflow"), and the
                `crawdad` trie blob parser slicing past the end of the blob (see `Image.lean`).

What is *not* modelled: memory-allocation failure.  A length prefix `len` with
`len * size_of::<T>() ≤ isize::MAX` that the allocator cannot satisfy makes the real code
call `handle_alloc_error` (process abort, not an unwinding panic) *before* the first
element is read; the model answers `err` for such inputs as soon as the input runs out.
This can only happen for images that are not prefixes of valid images (a prefix of a valid
image contains only complete, truthful length prefixes or a truncated one, which is `err`).

Core Lean only (linked into the driver executable).
-/
namespace Vibrato.Bincode

/-- Result of running a decoder. -/
inductive DRes (α : Type) where
  | ok (a : α) (rest : List UInt8)
  | err
  | panic
  deriving Repr, DecidableEq

/-- A decoder: total function from the remaining input to a result. -/
def Dec (α : Type) : Type := List UInt8 → DRes α

namespace Dec

@[inline] def run (d : Dec α) (bs : List UInt8) : DRes α := d bs

/-- Decoder that consumes nothing. -/
@[inline] def ret (a : α) : Dec α := fun bs => .ok a bs

/-- Decoder that always reports a decode error. -/
@[inline] def fail : Dec α := fun _ => .err

/-- Decoder that always panics. -/
@[inline] def crash : Dec α := fun _ => .panic

/-- Sequencing (`?` in the Rust code): errors and panics of the first decoder propagate. -/
@[inline] def andThen (d : Dec α) (f : α → Dec β) : Dec β := fun bs =>
  match d bs with
  | .ok a r => f a r
  | .err => .err
  | .panic => .panic

@[inline] def map (f : α → β) (d : Dec α) : Dec β := d.andThen fun a => ret (f a)

end Dec

instance : Monad Dec where
  pure := Dec.ret
  bind := Dec.andThen

/-- `Read::read_exact` into a buffer of `n` bytes: an error when fewer are available. -/
def readExact (n : Nat) : Dec (List UInt8) := fun bs =>
  if bs.length < n then .err else .ok (bs.take n) (bs.drop n)

/-! ## Fixed-width little-endian integers -/

/-- `u8::decode`: one byte, `err` at end of input. -/
def u8 : Dec UInt8 := fun bs =>
  match bs with
  | [] => .err
  | b :: r => .ok b r

/-- `k` bytes little endian as a natural number (`read_exact` of `k` bytes: short input is
an error and nothing is returned). -/
def leN : Nat → Dec Nat
  | 0 => Dec.ret 0
  | k+1 => fun bs =>
    match bs with
    | [] => .err
    | b :: r =>
      match leN k r with
      | .ok v r' => .ok (b.toNat + 256 * v) r'
      | .err => .err
      | .panic => .panic

/-- Little-endian encoding of `n mod 256^k` in `k` bytes. -/
def encLE : Nat → Nat → List UInt8
  | 0, _ => []
  | k+1, n => UInt8.ofNat (n % 256) :: encLE k (n / 256)

def u16 : Dec Nat := leN 2
def u32 : Dec Nat := leN 4
/-- `u64`, also `usize` and every length prefix (fixed-int config, 64-bit target). -/
def u64 : Dec Nat := leN 8

def encU8 (b : UInt8) : List UInt8 := [b]
def encU16 (n : Nat) : List UInt8 := encLE 2 n
def encU32 (n : Nat) : List UInt8 := encLE 4 n
def encU64 (n : Nat) : List UInt8 := encLE 8 n

/-- Two's complement reading of a `k`-byte value. -/
def toSigned (bits : Nat) (v : Nat) : Int :=
  if v < 2 ^ (bits - 1) then (v : Int) else (v : Int) - (2 ^ bits : Nat)

def ofSigned (bits : Nat) (i : Int) : Nat := (i % ((2 ^ bits : Nat) : Int)).toNat

def i16 : Dec Int := u16.map (toSigned 16)
def i32 : Dec Int := u32.map (toSigned 32)
def encI16 (i : Int) : List UInt8 := encLE 2 (ofSigned 16 i)
def encI32 (i : Int) : List UInt8 := encLE 4 (ofSigned 32 i)

/-! ## bool, Option, enum tags -/

/-- `bool::decode`: `0`/`1`, anything else is `InvalidBooleanValue`. -/
def bool : Dec Bool := u8.andThen fun b =>
  if b = 0 then Dec.ret false else if b = 1 then Dec.ret true else Dec.fail

def encBool (b : Bool) : List UInt8 := [if b then 1 else 0]

/-- `Option<T>`: tag byte `0`/`1` (other values: `UnexpectedVariant`), then the payload. -/
def opt (d : Dec α) : Dec (Option α) := u8.andThen fun t =>
  if t = 0 then Dec.ret none
  else if t = 1 then d.map some
  else Dec.fail

def encOpt (e : α → List UInt8) : Option α → List UInt8
  | none => [0]
  | some a => 1 :: e a

/-- Variant index of a derived enum: a `u32`; `n` = number of variants, larger index is
`UnexpectedVariant`. -/
def tag (n : Nat) : Dec Nat := u32.andThen fun t => if t < n then Dec.ret t else Dec.fail

/-! ## Sequences -/

/-- `isize::MAX` on the 64-bit targets vibrato supports. -/
def isizeMax : Nat := 2 ^ 63 - 1

/-- `n` consecutive items (the element loop of `Vec<T>::decode`, and `[T; N]::decode`).
Tail recursive; `acc` holds the items decoded so far in reverse order. -/
def repGo (d : Dec α) : Nat → List α → Dec (List α)
  | 0, acc => fun bs => .ok acc.reverse bs
  | n+1, acc => fun bs =>
    match d bs with
    | .ok a r => repGo d n (a :: acc) r
    | .err => .err
    | .panic => .panic

def rep (d : Dec α) (n : Nat) : Dec (List α) := repGo d n []

/-- `Vec<T>::decode`: `u64` length (`decode_slice_len`), then `Vec::with_capacity(len)`
(`vec![0u8; len]` for `T = u8`) which panics with "capacity overflow" when
`len * size_of::<T>() > isize::MAX` (`sz = size_of::<T>()` in memory, not on the wire; no
limit is configured so `claim_container_read` is a no-op), then `len` items. -/
def vec (sz : Nat) (d : Dec α) : Dec (List α) := u64.andThen fun n =>
  if n * sz > isizeMax then Dec.crash else rep d n

def encSeq (e : α → List UInt8) (l : List α) : List UInt8 := l.flatMap e

def encVec (e : α → List UInt8) (l : List α) : List UInt8 := encU64 l.length ++ encSeq e l

/-! ## Strings -/

/-- Continuation byte `80..BF`. -/
@[inline] def isCont (b : UInt8) : Bool := 0x80 ≤ b && b ≤ 0xBF

/-- Well-formed UTF-8 exactly as accepted by Rust's `String::from_utf8`
(Unicode Table 3-7: no overlong forms, no surrogates, nothing above U+10FFFF). -/
def validUtf8 : List UInt8 → Bool
  | [] => true
  | b0 :: r =>
    if b0 < 0x80 then validUtf8 r
    else if 0xC2 ≤ b0 && b0 ≤ 0xDF then
      match r with
      | b1 :: r => isCont b1 && validUtf8 r
      | _ => false
    else if 0xE0 ≤ b0 && b0 ≤ 0xEF then
      match r with
      | b1 :: b2 :: r =>
        (if b0 = 0xE0 then 0xA0 ≤ b1 && b1 ≤ 0xBF
         else if b0 = 0xED then 0x80 ≤ b1 && b1 ≤ 0x9F
         else isCont b1) && isCont b2 && validUtf8 r
      | _ => false
    else if 0xF0 ≤ b0 && b0 ≤ 0xF4 then
      match r with
      | b1 :: b2 :: b3 :: r =>
        (if b0 = 0xF0 then 0x90 ≤ b1 && b1 ≤ 0xBF
         else if b0 = 0xF4 then 0x80 ≤ b1 && b1 ≤ 0x8F
         else isCont b1) && isCont b2 && isCont b3 && validUtf8 r
      | _ => false
    else false

/-- A Rust `String` on the wire and in the model: its UTF-8 bytes. -/
abbrev Str := List UInt8

/-- `String::decode`: `Vec<u8>` then `String::from_utf8` (invalid: `DecodeError::Utf8`). -/
def str : Dec Str := (vec 1 u8).andThen fun bs => if validUtf8 bs then Dec.ret bs else Dec.fail

def encStr (s : Str) : List UInt8 := encVec encU8 s

/-- Lossy view of a model string as a Lean `String` (for printing only). -/
def Str.toString (s : Str) : String :=
  match String.fromUTF8? (ByteArray.mk s.toArray) with
  | some t => t
  | none => "<invalid utf-8>"

/-! ## vibrato's `U31` (`/repo/vibrato/src/num.rs`) -/

def u31Max : Nat := 0x7fffffff

/-- `U31::decode`: a `u32` that must be `≤ 0x7fff_ffff`, else `UnexpectedVariant`. -/
def u31 : Dec Nat := u32.andThen fun x => if x ≤ u31Max then Dec.ret x else Dec.fail

/-- `U31x8::decode` = `[U31; 8]::decode`: eight `U31` without length prefix.  The encoder
writes the 8-tuple of lanes, which has the same wire form. -/
def u31x8 : Dec (List Nat) := rep u31 8

def encU31x8 (l : List Nat) : List UInt8 := encSeq encU32 l

end Vibrato.Bincode
