/-
Faithful model of the `u16` back pointer of `vibrato/src/tokenizer/lattice.rs`.

In the Rust code `Node.min_idx` is a `u16` and `search_min_node` stores
`min_idx = i as u16`, where `i : usize` is the index into `ends[start_node]`.
`as u16` truncates: the stored value is `i % 65536`.  `Model/Lattice.lean`
stores the untruncated index.  This file repeats the lattice construction of
`Model/Lattice.lean` with the stored index taken modulo a parameter `W`
(`W = 65536` is the Rust code); everything else (`Node`, `Cand`, `LatEnv`, `Ends`,
`Lattice`, `endsAt`, `pushAt`, `resetEnds`, `walkBack`, `topNodes`, `tokensOf`) is
reused unchanged.  The initial value `INVALID_IDX = u16::MAX` is not an index and
is kept as it is.

`Props/C02u16.lean` proves that the two constructions coincide whenever no
boundary holds more than `W` nodes (`idxExact`), and that they differ (the
reported path is not a minimum-cost path) on a family of inputs with `W + 1`
nodes at one boundary.

No Mathlib imports: linked into the `vmodel` executable.
-/
import Vibrato.Model.Lattice

namespace Vibrato

/-- The loop of `search_min_node` with `min_idx = i as u16` (`i % W`, `W = 65536`). -/
def searchMinGoW (W : Nat) (conn : Nat → Nat → Int) (leftId : Nat) :
    List Node → Nat → Nat × Int → Nat × Int
  | [], _, acc => acc
  | n :: ns, i, acc =>
    let c := n.minCost + conn n.rightId leftId
    if c ≤ acc.2 then searchMinGoW W conn leftId ns (i + 1) (i % W, c)
    else searchMinGoW W conn leftId ns (i + 1) acc

/-- `search_min_node`. -/
def searchMinW (W : Nat) (conn : Nat → Nat → Int) (prev : List Node) (leftId : Nat) : Nat × Int :=
  searchMinGoW W conn leftId prev 0 (INVALID_IDX, MAX_COST)

/-- `insert_node`. -/
def insertNodeW (W : Nat) (E : LatEnv) (L : Ends) (startNode startWord : Nat) (c : Cand) : Ends :=
  let r := searchMinW W E.conn (endsAt L startNode) c.leftId
  pushAt L c.endWord
    { wordId := c.wordId, lexType := c.lexType, startNode := startNode, startWord := startWord,
      leftId := c.leftId, rightId := c.rightId, minIdx := r.1, minCost := r.2 + c.wordCost,
      wordCost := c.wordCost, isBos := false }

/-- `add_lattice_edges`. -/
def addEdgesW (W : Nat) (E : LatEnv) (L : Ends) (startNode startWord : Nat) : Ends :=
  (E.cands startWord).foldl (fun L c => insertNodeW W E L startNode startWord c) L

/-- The `while start_word < len` loop of `build_lattice_inner` (see `buildLoop`). -/
def buildLoopW (W : Nat) (E : LatEnv) (L : Ends) (p : Nat) : Ends × Nat :=
  if p < E.len then
    if (endsAt L p).isEmpty then buildLoopW W E L (p + 1)
    else
      let sw := p + E.skip p
      if E.len ≤ sw then (L, p)
      else buildLoopW W E (addEdgesW W E L p sw) (sw + 1)
  else (L, p)
termination_by E.len - p
decreasing_by all_goals omega

/-- The EOS node built by `insert_eos`. -/
def eosNodeW (W : Nat) (E : LatEnv) (L : Ends) (startNode : Nat) : Node :=
  let r := searchMinW W E.conn (endsAt L startNode) 0
  { wordId := 4294967295, lexType := 0, startNode := startNode, startWord := E.len,
    leftId := 0, rightId := 65535, minIdx := r.1, minCost := r.2, wordCost := 0, isBos := false }

/-- `build_lattice` with back pointers stored modulo `W`. -/
def buildLatticeW (W : Nat) (E : LatEnv) (bufLen : Nat := 0) : Lattice :=
  let r := buildLoopW W E (resetEnds bufLen E.len) 0
  { ends := r.1, eos := eosNodeW W E r.1 r.2 }

/-- The Rust code: `min_idx : u16`. -/
abbrev buildLattice16 (E : LatEnv) (bufLen : Nat := 0) : Lattice := buildLatticeW 65536 E bufLen

/-- The largest number of nodes stored at one boundary. -/
def maxBoundary (L : Ends) : Nat := L.foldl (fun m l => max m l.length) 0

/-- No boundary holds more than `W` nodes: every index `i` met by `search_min_node`
is `< W`, so `i as u16` (`i % W`) is `i`.  Evaluated by the driver on the lattice it
has built; `Props/C02u16.idxExact_eq` shows that the lattice then is the one of
`buildLattice`, to which C01/C02/… apply. -/
def idxExact (W : Nat) (Lt : Lattice) : Bool := maxBoundary Lt.ends ≤ W

end Vibrato
