/-
The worker state machine with the back pointer stored the way the Rust code stores it:
`Node.min_idx` is a `u16` and `search_min_node` writes `i as u16` (`vibrato/src/tokenizer/lattice.rs`).
`WorkerM.stepW W` is `WorkerM.step` with `buildLatticeW W` in place of `buildLattice`; `W = 65536` is
the code.  This is the model the driver compares with the implementation.  `Props/C02u16.lean`
proves that it coincides with `WorkerM.step` (the model all other theorems are about) whenever
no boundary of the lattice holds more than `W` nodes (`stepW_eq_step`), a condition the driver
evaluates on every case (`IDX16=1`).
No Mathlib imports.
-/
import Vibrato.Model.Worker
import Vibrato.Model.LatticeW

namespace Vibrato

def WorkerM.stepW (W : Nat) (fx : Fixes) (T : TokenizerM) (w : WorkerM) (op : WOp) : Option (WorkerM × WOut) :=
  match op with
  | .tokenize =>
    let top0 := if fx.f1 then [] else w.top
    if w.sent.isEmpty then some ({ w with top := top0 }, .unit)
    else
      let D := T.dict.tokDict
      let E := latEnvOf D (compileSent D w.sent) T.opts
      let Lt := buildLatticeW W E w.bufLen
      match topNodes Lt with
      | none => none
      | some r => some ({ w with top := top0 ++ r, lat := some (Lt, E.len),
                                 bufLen := max w.bufLen (E.len + 1) }, .unit)
  | op => w.step fx T op

/-- the step function of the Rust code (`u16` back pointers) -/
abbrev WorkerM.step16 := WorkerM.stepW 65536

/-- does the operation build a lattice whose stored indices are exact (no boundary with more
than `W` nodes)?  Every operation other than `tokenize` is trivially exact. -/
def WorkerM.exactOp (W : Nat) (T : TokenizerM) (w : WorkerM) (op : WOp) : Bool :=
  match op with
  | .tokenize =>
    if w.sent.isEmpty then true
    else
      let D := T.dict.tokDict
      idxExact W (buildLatticeW W (latEnvOf D (compileSent D w.sent) T.opts) w.bufLen)
  | _ => true

end Vibrato
