/-
Model of the *trained-model image*: the bytes written by `Model::write_model` and read by
`Model::read_model` (`/repo/vibrato/src/trainer/model.rs`), i.e. the bincode encoding
(little endian, fixed-int, no limit; `Vibrato/Model/Bincode.lean`) of

    ModelData { config: TrainerConfig, raw_model: rucrf::RawModel }

field by field:

* `TrainerConfig` (hand-written codec, `trainer/config.rs`): `feature_extractor`,
  `unigram_rewriter`, `left_rewriter`, `right_rewriter`, `dict.data` (= `DictionaryInner`,
  WITHOUT the magic: `Image.decodeDict`), `surfaces: Vec<String>`;
* `FeatureExtractor` (hand-written, `trainer/feature_extractor.rs`): the three maps
  `HashMap<String, NonZeroU32>` flattened to `Vec<(String, NonZeroU32)>` in hash-iteration order,
  the three `u32` counters, the three `Vec<ParsedTemplate>`;
* `ParsedTemplate` (derive): `raw_template: String`, `required_indices: Vec<usize>`,
  `captures: Vec<(Range<usize>, FeatureType)>` (`Range` = start, end as `u64`;
  `FeatureType` = `u32` variant 0 `Index(usize)` / 1 `CharacterType`);
* `FeatureRewriter { nodes: Vec<Node> }`, `Node { actions: Vec<Action> }`,
  `Action` = 0 `Transition(Edge { pattern, target: usize })` / 1 `Rewrite(Vec<Rewrite>)`,
  `Pattern` = 0 `Any` / 1 `Exact(String)` / 2 `Multiple(HashSet<String>)` (`u64` length, then the
  strings in hash-iteration order), `Rewrite` = 0 `Reference(usize)` / 1 `Text(String)`;
* `rucrf::RawModel` (hand-written, `rucrf-0.3.3/src/model.rs`): `weights: Vec<f64>`
  (8 bytes LE of the bit pattern), `unigram_weight_indices: Vec<Option<NonZeroU32>>`,
  `bigram_weight_indices: Vec<HashMap<u32,u32>>` flattened to `Vec<Vec<(u32,u32)>>` (hash order),
  `provider: FeatureProvider { feature_sets: Vec<FeatureSet> }`,
  `FeatureSet { unigram: Vec<NonZeroU32>, bigram_right: Vec<Option<NonZeroU32>>,
  bigram_left: Vec<Option<NonZeroU32>> }`.

Representation choices:
* every hash container is the LIST OF ITS ENTRIES IN STORED ORDER.  The decoder keeps that
  order, so `encodeModel (decodeModel bytes) = bytes` byte for byte on everything the writer
  can produce; the Rust reader collects the list into a hash map (later duplicates of a key
  overwrite earlier ones: lookups in `Model/Trainer.lean` are "last entry wins"; a
  `HashSet` drops duplicates, the model only ever asks membership);
* numbers are `Nat` with the bit width in the well-formedness predicate `wfModel`; an `f64` is
  the `Nat` value of its bit pattern (`< 2^64`), converted by the weight structure in
  `Model/Trainer.lean`; `NonZeroU32` is a `Nat`, value `0` on the wire is a decode error;
* strings are their UTF-8 bytes (`Bincode.Str`), validated by the decoder like `String::decode`.

In-memory element sizes (x86-64, measured with `size_of`) only matter for the
"capacity overflow" panic of `Vec::with_capacity` on absurd length prefixes
(`Bincode.vec`).  NOT modelled: allocation failure, and the exact capacity arithmetic of
`HashSet::with_capacity` (the model treats a `HashSet<String>` length like a
`Vec<String>` length); both only concern length prefixes far beyond the size of any input.

Core Lean only (linked into the driver executable).
-/
import Vibrato.Model.Image

namespace Vibrato.ModelImage
open Vibrato.Bincode Vibrato.Image

/-! ## Structures -/

/-- `feature_extractor::FeatureType`. -/
inductive FeatureType where
  | index (i : Nat)
  | charType
  deriving Repr, DecidableEq, Inhabited

/-- One element of `ParsedTemplate::captures`: `(start..stop, type)`, byte offsets into
`raw_template`. -/
structure Capture where
  start : Nat
  stop : Nat
  ty : FeatureType
  deriving Repr, DecidableEq, Inhabited

/-- `feature_extractor::ParsedTemplate`. -/
structure Template where
  raw : Str
  required : List Nat
  captures : List Capture
  deriving Repr, DecidableEq, Inhabited

/-- A flattened `HashMap<String, NonZeroU32>` in stored order. -/
abbrev IdMap := List (Str × Nat)

/-- `feature_extractor::FeatureExtractor`, fields in wire order. -/
structure Extractor where
  unigramIds : IdMap
  leftIds : IdMap
  rightIds : IdMap
  unigramNext : Nat
  leftNext : Nat
  rightNext : Nat
  unigramT : List Template
  leftT : List Template
  rightT : List Template
  deriving Repr, DecidableEq, Inhabited

/-- `feature_rewriter::Pattern` (`multiple`: the set in stored order). -/
inductive Pattern where
  | any
  | exact (s : Str)
  | multiple (l : List Str)
  deriving Repr, DecidableEq, Inhabited

/-- `feature_rewriter::Rewrite`. -/
inductive Rewrite where
  | ref (i : Nat)
  | text (s : Str)
  deriving Repr, DecidableEq, Inhabited

/-- `feature_rewriter::Action` (`Edge` flattened). -/
inductive Action where
  | trans (p : Pattern) (target : Nat)
  | rw (r : List Rewrite)
  deriving Repr, DecidableEq, Inhabited

/-- `FeatureRewriter::nodes` (`Node { actions }` flattened). -/
abbrev RwTrie := List (List Action)

/-- `trainer::config::TrainerConfig`, fields in wire order. -/
structure Config where
  extractor : Extractor
  unigramRw : RwTrie
  leftRw : RwTrie
  rightRw : RwTrie
  dict : Dict
  surfaces : List Str
  deriving Repr, DecidableEq, Inhabited

/-- `rucrf::FeatureSet`. -/
structure FeatureSet where
  unigram : List Nat
  bigramRight : List (Option Nat)
  bigramLeft : List (Option Nat)
  deriving Repr, DecidableEq, Inhabited

/-- `rucrf::RawModel`; `weights` are `f64` bit patterns, `bigramIdx[l]` the flattened
`HashMap<u32,u32>` (right feature id ↦ weight index) of left feature id `l`. -/
structure RawModel where
  weights : List Nat
  unigramIdx : List (Option Nat)
  bigramIdx : List (List (Nat × Nat))
  featureSets : List FeatureSet
  deriving Repr, DecidableEq, Inhabited

/-- `trainer::model::ModelData`. -/
structure ModelData where
  config : Config
  raw : RawModel
  deriving Repr, DecidableEq, Inhabited

/-! ## In-memory element sizes (x86-64) -/

def szF64 : Nat := 8
def szOptNz : Nat := 4
def szNz : Nat := 4
def szPair32 : Nat := 8
def szVec : Nat := 24
def szIdPair : Nat := 32
def szCapture : Nat := 32
def szTemplate : Nat := 72
def szRewrite : Nat := 24
def szAction : Nat := 64
def szFeatureSet : Nat := 72

/-! ## Decoders and encoders -/

/-- `NonZeroU32::decode`: a `u32`, `0` is `NonZeroTypeIsZero`. -/
def nz32 : Dec Nat := u32.andThen fun x => if x = 0 then Dec.fail else Dec.ret x

def decFeatureType : Dec FeatureType := (tag 2).andThen fun t =>
  if t = 0 then u64.map .index else Dec.ret .charType
def encFeatureType : FeatureType → List UInt8
  | .index i => encU32 0 ++ encU64 i
  | .charType => encU32 1

def decCapture : Dec Capture :=
  u64.andThen fun s => u64.andThen fun e => decFeatureType.andThen fun t => Dec.ret ⟨s, e, t⟩
def encCapture (c : Capture) : List UInt8 :=
  encU64 c.start ++ (encU64 c.stop ++ encFeatureType c.ty)

def decTemplate : Dec Template :=
  str.andThen fun r => (vec szUsize u64).andThen fun q => (vec szCapture decCapture).andThen fun c =>
  Dec.ret ⟨r, q, c⟩
def encTemplate (t : Template) : List UInt8 :=
  encStr t.raw ++ (encVec encU64 t.required ++ encVec encCapture t.captures)

def decIdPair : Dec (Str × Nat) := str.andThen fun s => nz32.andThen fun n => Dec.ret (s, n)
def encIdPair (p : Str × Nat) : List UInt8 := encStr p.1 ++ encU32 p.2

def decIdMap : Dec IdMap := vec szIdPair decIdPair
def encIdMap (m : IdMap) : List UInt8 := encVec encIdPair m

/-- `FeatureExtractor::decode`. -/
def decExtractor : Dec Extractor :=
  decIdMap.andThen fun u => decIdMap.andThen fun l => decIdMap.andThen fun r =>
  u32.andThen fun un => u32.andThen fun ln => u32.andThen fun rn =>
  (vec szTemplate decTemplate).andThen fun ut => (vec szTemplate decTemplate).andThen fun lt =>
  (vec szTemplate decTemplate).andThen fun rt => Dec.ret ⟨u, l, r, un, ln, rn, ut, lt, rt⟩
def encExtractor (e : Extractor) : List UInt8 :=
  encIdMap e.unigramIds ++ (encIdMap e.leftIds ++ (encIdMap e.rightIds ++
    (encU32 e.unigramNext ++ (encU32 e.leftNext ++ (encU32 e.rightNext ++
      (encVec encTemplate e.unigramT ++ (encVec encTemplate e.leftT ++
        encVec encTemplate e.rightT)))))))

def decPattern : Dec Pattern := (tag 3).andThen fun t =>
  if t = 0 then Dec.ret .any
  else if t = 1 then str.map .exact
  else (vec szString str).map .multiple
def encPattern : Pattern → List UInt8
  | .any => encU32 0
  | .exact s => encU32 1 ++ encStr s
  | .multiple l => encU32 2 ++ encVec encStr l

def decRewrite : Dec Rewrite := (tag 2).andThen fun t =>
  if t = 0 then u64.map .ref else str.map .text
def encRewrite : Rewrite → List UInt8
  | .ref i => encU32 0 ++ encU64 i
  | .text s => encU32 1 ++ encStr s

def decAction : Dec Action := (tag 2).andThen fun t =>
  if t = 0 then decPattern.andThen fun p => u64.andThen fun n => Dec.ret (.trans p n)
  else (vec szRewrite decRewrite).map .rw
def encAction : Action → List UInt8
  | .trans p n => encU32 0 ++ (encPattern p ++ encU64 n)
  | .rw r => encU32 1 ++ encVec encRewrite r

/-- `FeatureRewriter::decode` (`Vec<Node>`, `Node` = `Vec<Action>`). -/
def decRwTrie : Dec RwTrie := vec szVec (vec szAction decAction)
def encRwTrie (t : RwTrie) : List UInt8 := encVec (encVec encAction) t

/-- `TrainerConfig::decode`. -/
def decConfig : Dec Config :=
  decExtractor.andThen fun e => decRwTrie.andThen fun u => decRwTrie.andThen fun l =>
  decRwTrie.andThen fun r => decodeDict.andThen fun d => (vec szString str).andThen fun s =>
  Dec.ret ⟨e, u, l, r, d, s⟩
def encConfig (c : Config) : List UInt8 :=
  encExtractor c.extractor ++ (encRwTrie c.unigramRw ++ (encRwTrie c.leftRw ++
    (encRwTrie c.rightRw ++ (encodeDict c.dict ++ encVec encStr c.surfaces))))

def decFeatureSet : Dec FeatureSet :=
  (vec szNz nz32).andThen fun u => (vec szOptNz (opt nz32)).andThen fun r =>
  (vec szOptNz (opt nz32)).andThen fun l => Dec.ret ⟨u, r, l⟩
def encFeatureSet (f : FeatureSet) : List UInt8 :=
  encVec encU32 f.unigram ++ (encVec (encOpt encU32) f.bigramRight ++
    encVec (encOpt encU32) f.bigramLeft)

def decPair32 : Dec (Nat × Nat) := u32.andThen fun a => u32.andThen fun b => Dec.ret (a, b)
def encPair32 (p : Nat × Nat) : List UInt8 := encU32 p.1 ++ encU32 p.2

/-- `RawModel::decode`. -/
def decRawModel : Dec RawModel :=
  (vec szF64 u64).andThen fun w => (vec szOptNz (opt nz32)).andThen fun u =>
  (vec szVec (vec szPair32 decPair32)).andThen fun b =>
  (vec szFeatureSet decFeatureSet).andThen fun f => Dec.ret ⟨w, u, b, f⟩
def encRawModel (m : RawModel) : List UInt8 :=
  encVec encU64 m.weights ++ (encVec (encOpt encU32) m.unigramIdx ++
    (encVec (encVec encPair32) m.bigramIdx ++ encVec encFeatureSet m.featureSets))

/-- `ModelData::decode` = what `Model::read_model` runs on the stream. -/
def decodeModel : Dec ModelData :=
  decConfig.andThen fun c => decRawModel.andThen fun r => Dec.ret ⟨c, r⟩

/-- `ModelData::encode` = the bytes `Model::write_model` emits (maps in stored order). -/
def encodeModel (m : ModelData) : List UInt8 := encConfig m.config ++ encRawModel m.raw

/-- Observable outcome of `Model::read_model` on a byte string. -/
def readModel (bs : List UInt8) : ReadOutcome ModelData :=
  match decodeModel bs with
  | .ok d _ => .ok d
  | .err => .err
  | .panic => .panic

/-! ## Well-formedness: every value fits its Rust type -/

def wfNz (n : Nat) : Bool := decide (0 < n) && wfU32 n
def wfOptNz : Option Nat → Bool := wfOpt wfNz

def wfFeatureType : FeatureType → Bool
  | .index i => wfU64 i
  | .charType => true
def wfCapture (c : Capture) : Bool := wfU64 c.start && wfU64 c.stop && wfFeatureType c.ty
def wfTemplate (t : Template) : Bool :=
  wfStr t.raw && wfVec szUsize wfU64 t.required && wfVec szCapture wfCapture t.captures
def wfIdPair (p : Str × Nat) : Bool := wfStr p.1 && wfNz p.2
def wfIdMap (m : IdMap) : Bool := wfVec szIdPair wfIdPair m
def wfExtractor (e : Extractor) : Bool :=
  wfIdMap e.unigramIds && wfIdMap e.leftIds && wfIdMap e.rightIds &&
  wfU32 e.unigramNext && wfU32 e.leftNext && wfU32 e.rightNext &&
  wfVec szTemplate wfTemplate e.unigramT && wfVec szTemplate wfTemplate e.leftT &&
  wfVec szTemplate wfTemplate e.rightT
def wfPattern : Pattern → Bool
  | .any => true
  | .exact s => wfStr s
  | .multiple l => wfVec szString wfStr l
def wfRewrite : Rewrite → Bool
  | .ref i => wfU64 i
  | .text s => wfStr s
def wfAction : Action → Bool
  | .trans p n => wfPattern p && wfU64 n
  | .rw r => wfVec szRewrite wfRewrite r
def wfRwTrie (t : RwTrie) : Bool := wfVec szVec (wfVec szAction wfAction) t
def wfConfig (c : Config) : Bool :=
  wfExtractor c.extractor && wfRwTrie c.unigramRw && wfRwTrie c.leftRw && wfRwTrie c.rightRw &&
  wfDict c.dict && wfVec szString wfStr c.surfaces
def wfFeatureSet (f : FeatureSet) : Bool :=
  wfVec szNz wfNz f.unigram && wfVec szOptNz wfOptNz f.bigramRight &&
  wfVec szOptNz wfOptNz f.bigramLeft
def wfPair32 (p : Nat × Nat) : Bool := wfU32 p.1 && wfU32 p.2
def wfRawModel (m : RawModel) : Bool :=
  wfVec szF64 wfU64 m.weights && wfVec szOptNz wfOptNz m.unigramIdx &&
  wfVec szVec (wfVec szPair32 wfPair32) m.bigramIdx &&
  wfVec szFeatureSet wfFeatureSet m.featureSets
def wfModel (m : ModelData) : Bool := wfConfig m.config && wfRawModel m.raw

/-- Every number fits its Rust type, `NonZeroU32`s are non-zero, vectors can exist in
memory, strings are valid UTF-8, the nested dictionary satisfies `Image.WFsize`.  True of
every `ModelData` value the Rust program can hold (with each hash container listed in some
order). -/
def WFmodel (m : ModelData) : Prop := wfModel m = true

instance (m : ModelData) : Decidable (WFmodel m) :=
  inferInstanceAs (Decidable (wfModel m = true))

end Vibrato.ModelImage
