/-
Model of `Worker` (`vibrato/src/tokenizer/worker.rs`) as a state machine over the
public operations, including the buffers it reuses between sentences and the
connection-id counter (`ConnIdCounter`, `compute_probs`).
No Mathlib imports.
-/
import Vibrato.Model.Dict

namespace Vibrato

/-- Worker operations (the public API). -/
inductive WOp where
  | reset (chars : List Nat)     -- `reset_sentence`
  | tokenize
  | query                        -- read all tokens
  | lattice                      -- hook: dump the lattice
  | initCounter
  | updateCounts
  | probs
  | counts                       -- hook: raw counts
  deriving Repr, DecidableEq, Inhabited

/-- The tokenizer: dictionary + options (immutable while workers exist). -/
structure TokenizerM where
  dict : DictM
  opts : TokOpts

structure WorkerM where
  sent : List Nat                        -- `sent.chars`
  top : List (Nat × Node)                -- `top_nodes` (append order)
  lat : Option (Lattice × Nat)           -- lattice of the last build and its `len_char`
  bufLen : Nat                           -- `lattice.ends.len()`
  counter : Option (List Nat × List Nat) -- (lid_count, rid_count)
  deriving Repr, Inhabited

def WorkerM.fresh : WorkerM := { sent := [], top := [], lat := none, bufLen := 0, counter := none }

/-- `Tokenizer::new(dict).ignore_space(ign)?.max_grouping_len(m)`. -/
def mkTokenizer (D : DictM) (ignoreSpace : Bool) (maxGroup : Nat) : Option TokenizerM :=
  let mg := if maxGroup = 0 then none else some maxGroup
  if ignoreSpace then
    match D.chars.cateId "SPACE" with
    | none => none
    | some id => some { dict := D, opts := { spaceSet := some (1 <<< id), maxGroup := mg } }
  else some { dict := D, opts := { spaceSet := none, maxGroup := mg } }

def addCounts (c : List Nat × List Nat) (pairs : List (Nat × Nat)) : Option (List Nat × List Nat) :=
  pairs.foldl (fun acc p => do
    let (l, r) ← acc
    if p.1 < l.length ∧ p.2 < r.length then
      pure (l.modify p.1 (· + 1), r.modify p.2 (· + 1))
    else none) (some c)

/-- insertion sort by (count descending, id ascending): the order `compute_probs`
establishes (it compares `cnt / sum` as `f64`; monotone in `cnt`, trusted). -/
def insertProb (x : Nat × Nat) : List (Nat × Nat) → List (Nat × Nat)
  | [] => [x]
  | y :: ys => if x.2 > y.2 ∨ (x.2 = y.2 ∧ x.1 ≤ y.1) then x :: y :: ys else y :: insertProb x ys

def sortProbs (xs : List (Nat × Nat)) : List (Nat × Nat) := xs.foldr insertProb []

/-- `compute_probs` for one side: ids `1..n-1` ordered by count descending, id ascending.
`none` = panic (`drain(..1)` on an empty vector). -/
def probsOf (counts : List Nat) : Option (List Nat) :=
  match counts.zipIdx.map (fun p => (p.2, p.1)) with
  | [] => none
  | _ :: rest => some ((sortProbs rest).map (·.1))

/-- One step of the worker. Output: `none` = panic. -/
inductive WOut where
  | unit
  | tokens (ts : List (Nat × Node))      -- tokens in sentence order (end boundary, node)
  | lat (ends : List (List Node)) (eos : Option Node)
  | probs (l r : List Nat)
  | counts (c : Option (List Nat × List Nat))
  deriving Repr, Inhabited

def WorkerM.step (fx : Fixes) (T : TokenizerM) (w : WorkerM) (op : WOp) : Option (WorkerM × WOut) :=
  match op with
  | .reset cs => some ({ w with sent := cs, top := [] }, .unit)
  | .tokenize =>
    let top0 := if fx.f1 then [] else w.top
    if w.sent.isEmpty then some ({ w with top := top0 }, .unit)
    else
      let D := T.dict.tokDict
      let E := latEnvOf D (compileSent D w.sent) T.opts
      let Lt := buildLattice E w.bufLen
      match topNodes Lt with
      | none => none
      | some r => some ({ w with top := top0 ++ r, lat := some (Lt, E.len),
                                 bufLen := max w.bufLen (E.len + 1) }, .unit)
  | .query => some (w, .tokens w.top.reverse)
  | .lattice =>
    match w.lat with
    | none => some (w, .lat [] none)
    | some (Lt, len) => some (w, .lat ((List.range (len + 1)).map (endsAt Lt.ends)) (some Lt.eos))
  | .initCounter =>
    some ({ w with counter := some (List.replicate T.dict.numLeft 0, List.replicate T.dict.numRight 0) }, .unit)
  | .updateCounts =>
    if fx.f4 ∧ w.sent.isEmpty then some (w, .unit)
    else
      match w.counter, w.lat with
      | some c, some (Lt, len) =>
        let E : LatEnv := { len := len, conn := fun _ _ => 0, skip := fun _ => 0, cands := fun _ => [] }
        (addCounts c (connidPairs E Lt fx.f5)).map fun c' => ({ w with counter := some c' }, .unit)
      | _, _ => none
  | .probs =>
    match w.counter with
    | none => none
    | some (l, r) => do
      let pl ← probsOf l
      let pr ← probsOf r
      pure (w, .probs pl pr)
  | .counts => some (w, .counts w.counter)

def utf8Len (c : Nat) : Nat :=
  if c < 0x80 then 1 else if c < 0x800 then 2 else if c < 0x10000 then 3 else 4

/-- `c2b`: byte offset of character position `i`. -/
def bytePos (chars : List Nat) (i : Nat) : Nat := ((chars.take i).map utf8Len).sum

end Vibrato
