/-
Model of `Dictionary` as seen through the public API: building from source files
(`SystemDictionaryBuilder::from_readers`), `reset_user_lexicon_from_reader`,
`map_connection_ids_from_iter`, and the view the tokenizer takes of it.

`Fixes` records which repairs of the pinned tree the model follows (each flag
corresponds to one `fix:` commit; `false` = behaviour of the pinned tree).
No Mathlib imports.
-/
import Vibrato.Model.CharDef
import Vibrato.Model.MatrixDef
import Vibrato.Model.SimpleCsv
import Vibrato.Model.LexCsv

namespace Vibrato

/-- Which repairs the model follows. -/
structure Fixes where
  f1 : Bool   -- tokenize() clears the previous result
  f2 : Bool   -- mapping of the wrong length is an error, not a panic
  f3 : Bool   -- a second mapping composes with the stored mapper
  f4 : Bool   -- update_connid_counts is a no-op for an empty sentence
  f5 : Bool   -- EOS connections are counted at eos.start_node
  f2b : Bool  -- user lexicon ids are verified before translating through the stored mapper
  f8 : Bool := true    -- lex.csv end-of-file handling
  f10 : Bool := true   -- rewrite trie reuses only a node's last edge
  f14 : Bool := true   -- connector padding lanes use the invalid id; < 8 / 0 templates handled
  f12 : Bool := true   -- mecab conversion requires id 0 to be defined
  deriving Repr, DecidableEq, Inhabited

def Fixes.all : Fixes := ⟨true, true, true, true, true, true, true, true, true, true⟩
def Fixes.pinned : Fixes := ⟨false, false, false, false, false, false, false, false, false, false⟩

structure UnkEntryM where
  cateId : Nat
  param : WordParam
  feature : List UInt8
  deriving Repr, DecidableEq, Inhabited

structure LexM where
  entries : List LexEntry
  features : List (List UInt8)
  deriving Repr, Inhabited

/-- The dictionary state the API can observe. `conn` is row-major `r * numLeft + l`. -/
structure DictM where
  sys : LexM
  user : Option LexM
  numRight : Nat
  numLeft : Nat
  conn : List Int
  mapper : Option (List Nat × List Nat)      -- (left, right): old id ↦ new id
  chars : CharProp
  unk : List UnkEntryM                        -- grouped by category id, ascending
  deriving Repr, Inhabited

def DictM.cost (D : DictM) (r l : Nat) : Int := D.conn.getD (r * D.numLeft + l) 0

/-- `Lexicon::parse_csv` (faithful port, `Model/LexCsv.lean`) as rows. -/
def parseLexCsv (fx : Fixes) (bytes : List UInt8) : Outcome (List SimpleCsv.Row) :=
  match LexCsv.parseCsv fx.f8 bytes with
  | .ok es => .ok (es.map fun e =>
      { surface := e.surface, left := e.leftId, right := e.rightId, cost := e.wordCost,
        feature := e.feature })
  | .err => .err
  | .panic => .panic

/-- code points of a UTF-8 byte string (`none` when invalid) -/
def codePoints (bs : List UInt8) : Option (List Nat) :=
  (Text.decodeLine bs).map fun s => s.toList.map Char.toNat

/-- Rows of a lexicon CSV to entries (`Lexicon::from_entries` after `parse_csv`).
crawdad refuses an empty key set and keys containing U+0000 (its end marker). -/
def lexOfRows (rows : List SimpleCsv.Row) : Option LexM := do
  let es ← rows.mapM fun r => do
    let cps ← codePoints r.surface
    pure ({ surface := cps, param := ⟨r.left, r.right, r.cost⟩ } : LexEntry)
  if es.isEmpty then none
  else if es.any (fun e => e.surface.contains 0) then none
  else pure { entries := es, features := rows.map (·.feature) }

/-- `Lexicon::verify` / `UnkHandler::verify`. -/
def paramsInRange (ps : List WordParam) (numLeft numRight : Nat) : Bool :=
  ps.all fun p => p.leftId < numLeft && p.rightId < numRight

/-- `UnkHandler::from_reader`: rows grouped by category id (stable). -/
def unkOfRows (P : CharProp) (rows : List SimpleCsv.Row) : Option (List UnkEntryM) := do
  let es ← rows.mapM fun r => do
    let name ← Text.decodeLine r.surface
    let id ← P.cateId name
    pure ({ cateId := id, param := ⟨r.left, r.right, r.cost⟩, feature := r.feature } : UnkEntryM)
  pure ((List.range P.names.length).flatMap fun c => es.filter (·.cateId == c))

/-- `SystemDictionaryBuilder::from_readers` (matrix connector). Order of the Rust
code: lex.csv, matrix.def, char.def, unk.def, then `build` (trie, verify). -/
def buildMatrixDict (fx : Fixes) (lex matrix chardef unk : List UInt8) : Outcome DictM :=
  match parseLexCsv fx lex with
  | .err => .err
  | .panic => .panic
  | .ok lrows =>
    match MatrixDef.parse matrix with
    | .err => .err
    | .panic => .panic
    | .ok M =>
      match CharDef.parse chardef with
      | .err => .err
      | .panic => .panic
      | .ok P =>
        match parseLexCsv fx unk with
        | .err => .err
        | .panic => .panic
        | .ok urows =>
          match unkOfRows P urows with
          | none => .err
          | some U =>
            match lexOfRows lrows with
            | none => .err
            | some L =>
              if ¬ paramsInRange (L.entries.map (·.param)) M.numLeft M.numRight then .err
              else if ¬ paramsInRange (U.map (·.param)) M.numLeft M.numRight then .err
              else .ok
                { sys := L, user := none, numRight := M.numRight, numLeft := M.numLeft,
                  conn := (List.range M.numRight).flatMap fun r =>
                    (List.range M.numLeft).map fun l => M.cost r l,
                  mapper := none, chars := P, unk := U }

/-- Same builder when the connector is given by its cost table (raw/dual
connectors are modelled separately, `Model/RawConnector.lean`). -/
def buildDictWithConn (fx : Fixes) (lex chardef unk : List UInt8) (numRight numLeft : Nat)
    (conn : List Int) : Outcome DictM :=
  match parseLexCsv fx lex with
  | .err => .err
  | .panic => .panic
  | .ok lrows =>
    match CharDef.parse chardef with
    | .err => .err
    | .panic => .panic
    | .ok P =>
      match parseLexCsv fx unk with
      | .err => .err
      | .panic => .panic
      | .ok urows =>
        match unkOfRows P urows with
        | none => .err
        | some U =>
          match lexOfRows lrows with
          | none => .err
          | some L =>
            if ¬ paramsInRange (L.entries.map (·.param)) numLeft numRight then .err
            else if ¬ paramsInRange (U.map (·.param)) numLeft numRight then .err
            else .ok
              { sys := L, user := none, numRight := numRight, numLeft := numLeft, conn := conn,
                mapper := none, chars := P, unk := U }

/-- `ConnIdMapper::parse`. -/
def parseMap (m : List Nat) : Option (List Nat) :=
  if m.any (· == 0) then none
  else
    let n := m.length + 1
    let init : List (Option Nat) := some 0 :: List.replicate m.length none
    let r := m.zipIdx.foldl (fun (acc : Option (List (Option Nat))) (p : Nat × Nat) => do
      let a ← acc
      let (old, i) := p
      if old ≥ n then none
      else match a.getD old none with
        | some _ => none
        | none => if i + 1 > 65535 then none else pure (a.set old (some (i + 1)))) (some init)
    r.bind fun a => a.mapM id

def mapParam (ml mr : List Nat) (p : WordParam) : Option WordParam := do
  let l ← ml[p.leftId]?
  let r ← mr[p.rightId]?
  pure { p with leftId := l, rightId := r }

def mapLex (ml mr : List Nat) (L : LexM) : Option LexM := do
  let es ← L.entries.mapM fun e => do
    let p ← mapParam ml mr e.param
    pure { e with param := p }
  pure { L with entries := es }

/-- `map_connection_ids_from_iter`. `none` inside `Outcome.ok`… the three outcomes:
`ok D'`, `err` (malformed mapping), `panic` (index / assertion failure). -/
def DictM.mapIds (fx : Fixes) (D : DictM) (lmap rmap : List Nat) : Outcome DictM :=
  match parseMap lmap, parseMap rmap with
  | some ml, some mr =>
    if fx.f2 ∧ (ml.length ≠ D.numLeft ∨ mr.length ≠ D.numRight) then .err
    else
      -- system lexicon, user lexicon (index panics), connector (length assertions), unknown
      match mapLex ml mr D.sys with
      | none => .panic
      | some sys' =>
        let userO : Option (Option LexM) := match D.user with
          | none => some none
          | some u => (mapLex ml mr u).map some
        match userO with
        | none => .panic
        | some user' =>
          if ml.length ≠ D.numLeft ∨ mr.length ≠ D.numRight then .panic
          else
            match D.unk.mapM (fun e => (mapParam ml mr e.param).map fun p => { e with param := p }) with
            | none => .panic
            | some unk' =>
              -- new[σR r][σL l] = old[r][l]
              let invR := (List.range D.numRight).map fun r' => mr.idxOf r'
              let invL := (List.range D.numLeft).map fun l' => ml.idxOf l'
              let conn' := invR.flatMap fun r => invL.map fun l => D.cost r l
              let stored := match D.mapper, fx.f3 with
                | some (ol, or), true =>
                  (ol.map fun x => ml.getD x 0, or.map fun x => mr.getD x 0)
                | _, _ => (ml, mr)
              .ok { D with sys := sys', user := user', conn := conn', unk := unk',
                           mapper := some stored }
  | _, _ => .err

/-- `reset_user_lexicon_from_reader`. -/
def DictM.resetUser (fx : Fixes) (D : DictM) (csv : Option (List UInt8)) : Outcome DictM :=
  match csv with
  | none => .ok { D with user := none }
  | some bytes =>
    match (parseLexCsv fx bytes).bind (fun rows => Outcome.ofOption (lexOfRows rows)) with
    | .err => .err
    | .panic => .panic
    | .ok u =>
      if fx.f2b ∧ ¬ paramsInRange (u.entries.map (·.param)) D.numLeft D.numRight then .err
      else
        let mapped : Option LexM := match D.mapper with
          | none => some u
          | some (ml, mr) => mapLex ml mr u
        match mapped with
        | none => .panic
        | some u' =>
          if ¬ paramsInRange (u'.entries.map (·.param)) D.numLeft D.numRight then .err
          else .ok { D with user := some u' }

/-- unknown entries of a category with their word ids (`offsets[b]..offsets[b+1]`) -/
def DictM.unkOf (D : DictM) (b : Nat) : List (Nat × WordParam) :=
  (D.unk.zipIdx.filter fun p => p.1.cateId == b).map fun p => (p.2, p.1.param)

def DictM.tokDict (D : DictM) : TokDict :=
  { sys := D.sys.entries
    user := D.user.map (·.entries)
    conn := D.cost
    charInfo := D.chars.charInfo
    unkOf := D.unkOf }

/-- `Dictionary::word_feature`. -/
def DictM.feature (D : DictM) (lexType wordId : Nat) : Option (List UInt8) :=
  match lexType with
  | 0 => D.sys.features[wordId]?
  | 1 => D.user.bind fun u => u.features[wordId]?
  | _ => (D.unk[wordId]?).map (·.feature)

/-- `Dictionary::word_param`. -/
def DictM.param (D : DictM) (lexType wordId : Nat) : Option WordParam :=
  match lexType with
  | 0 => (D.sys.entries[wordId]?).map (·.param)
  | 1 => D.user.bind fun u => (u.entries[wordId]?).map (·.param)
  | _ => (D.unk[wordId]?).map (·.param)

end Vibrato
