/-
Models of the Rust standard-library text helpers the dictionary parsers rely on:
`BufRead::lines`, `str::trim`, `split_whitespace`, `str::split(' ')`,
`str::parse::<u16/i16/usize/i32>`, `usize::from_str_radix(_, 16)`,
`trim_start_matches("0x")`.  These are *modelled, not verified* (trusted base);
the correspondence runs validate them against the real parsers.

No Mathlib imports.
-/
namespace Vibrato

/-- Three-valued result of a builder: value, error value, or panic. -/
inductive Outcome (α : Type) where
  | ok (a : α)
  | err
  | panic
  deriving Repr, DecidableEq, Inhabited

namespace Outcome
def bind {α β} (x : Outcome α) (f : α → Outcome β) : Outcome β :=
  match x with
  | ok a => f a
  | err => err
  | panic => panic

def map {α β} (f : α → β) (x : Outcome α) : Outcome β :=
  x.bind (fun a => ok (f a))

def ofOption {α} : Option α → Outcome α
  | some a => ok a
  | none => err

def tag {α} : Outcome α → String
  | ok _ => "ok"
  | err => "err"
  | panic => "panic"
end Outcome

instance : Monad Outcome where
  pure := Outcome.ok
  bind := Outcome.bind

namespace Text

/-- Split bytes into raw lines as `BufRead::lines` does: split at `\n`; the final
piece is a line only if non-empty; a `\r` directly before a `\n` is dropped. -/
def rawLinesGo : List UInt8 → List UInt8 → List (List UInt8)
  | [], cur => if cur.isEmpty then [] else [cur.reverse]
  | b :: rest, cur =>
    if b = 10 then
      let line := match cur with
        | c :: cur' => if c = 13 then cur'.reverse else (c :: cur').reverse
        | [] => []
      line :: rawLinesGo rest []
    else rawLinesGo rest (b :: cur)

def rawLines (bs : List UInt8) : List (List UInt8) := rawLinesGo bs []

/-- Decode one line; `none` = invalid UTF-8 (`lines()` yields `Err`). -/
def decodeLine (bs : List UInt8) : Option String :=
  String.fromUTF8? (ByteArray.mk bs.toArray)

/-- `char::is_whitespace` (Unicode `White_Space`). -/
def isWhitespace (c : Char) : Bool :=
  let n := c.toNat
  (9 ≤ n && n ≤ 13) || n = 32 || n = 0x85 || n = 0xA0 || n = 0x1680 ||
  (0x2000 ≤ n && n ≤ 0x200A) || n = 0x2028 || n = 0x2029 || n = 0x202F || n = 0x205F ||
  n = 0x3000

/-- `str::trim`. -/
def trim (s : List Char) : List Char :=
  ((s.dropWhile isWhitespace).reverse.dropWhile isWhitespace).reverse

/-- `str::split_whitespace`. -/
def splitWhitespaceGo : List Char → List Char → List (List Char)
  | [], cur => if cur.isEmpty then [] else [cur.reverse]
  | c :: rest, cur =>
    if isWhitespace c then
      (if cur.isEmpty then [] else [cur.reverse]) ++ splitWhitespaceGo rest []
    else splitWhitespaceGo rest (c :: cur)

def splitWhitespace (s : List Char) : List (List Char) := splitWhitespaceGo s []

/-- `str::split(c)` for a single character separator (always at least one piece). -/
def splitOnGo (sep : Char) : List Char → List Char → List (List Char)
  | [], cur => [cur.reverse]
  | c :: rest, cur =>
    if c = sep then cur.reverse :: splitOnGo sep rest [] else splitOnGo sep rest (c :: cur)

def splitOn (sep : Char) (s : List Char) : List (List Char) := splitOnGo sep s []

def digitVal (c : Char) : Option Nat :=
  if '0' ≤ c ∧ c ≤ '9' then some (c.toNat - 48) else none

def hexDigitVal (c : Char) : Option Nat :=
  if '0' ≤ c ∧ c ≤ '9' then some (c.toNat - 48)
  else if 'a' ≤ c ∧ c ≤ 'f' then some (c.toNat - 87)
  else if 'A' ≤ c ∧ c ≤ 'F' then some (c.toNat - 55)
  else none

/-- digits in a radix to a natural; `none` on an invalid digit or empty input -/
def digitsToNat (radix : Nat) (dv : Char → Option Nat) : List Char → Option Nat
  | [] => none
  | cs => cs.foldl (fun acc c => do
      let a ← acc
      let d ← dv c
      pure (a * radix + d)) (some 0)

/-- `str::parse::<uN>()` / `from_str_radix` for unsigned types: optional `+`, digits,
value `≤ max`. -/
def parseUnsigned (radix : Nat) (dv : Char → Option Nat) (max : Nat) (s : List Char) : Option Nat :=
  let body := match s with
    | '+' :: rest => rest
    | _ => s
  match digitsToNat radix dv body with
  | some n => if n ≤ max then some n else none
  | none => none

/-- `str::parse::<iN>()`: optional `+`/`-`, digits, in `[-(max+1), max]`. -/
def parseSigned (max : Nat) (s : List Char) : Option Int :=
  match s with
  | '-' :: rest =>
    match digitsToNat 10 digitVal rest with
    | some n => if n ≤ max + 1 then some (-(n : Int)) else none
    | none => none
  | '+' :: rest =>
    match digitsToNat 10 digitVal rest with
    | some n => if n ≤ max then some (n : Int) else none
    | none => none
  | _ =>
    match digitsToNat 10 digitVal s with
    | some n => if n ≤ max then some (n : Int) else none
    | none => none

def parseU16 (s : List Char) : Option Nat := parseUnsigned 10 digitVal 65535 s
def parseU32 (s : List Char) : Option Nat := parseUnsigned 10 digitVal 4294967295 s
def parseUsize (s : List Char) : Option Nat := parseUnsigned 10 digitVal 18446744073709551615 s
def parseI16 (s : List Char) : Option Int := parseSigned 32767 s
def parseI32 (s : List Char) : Option Int := parseSigned 2147483647 s
def parseHexUsize (s : List Char) : Option Nat :=
  parseUnsigned 16 hexDigitVal 18446744073709551615 s

/-- `trim_start_matches("0x")`: strips the prefix repeatedly. -/
def trimStart0x : List Char → List Char
  | '0' :: 'x' :: rest => trimStart0x rest
  | s => s

/-- `str::split("..")` (non-overlapping, left to right). -/
def splitDotDotGo : List Char → List Char → List (List Char)
  | [], cur => [cur.reverse]
  | '.' :: '.' :: rest, cur => cur.reverse :: splitDotDotGo rest []
  | c :: rest, cur => splitDotDotGo rest (c :: cur)

def splitDotDot (s : List Char) : List (List Char) := splitDotDotGo s []

def startsWith (p s : List Char) : Bool := p.isPrefixOf s

end Text
end Vibrato
