/-
Model of the dictionary image written by `Dictionary::write` and read by
`Dictionary::read` (`/repo/vibrato/src/dictionary.rs`): `MODEL_MAGIC` followed by the
bincode encoding of `DictionaryInner`, field by field in declaration order.

Numbers: `u16/u32/u64/usize` are `Nat`, `i16/i32` are `Int`; the bit widths are part of the
well-formedness predicate `WFsize` (a value inside a real `DictionaryInner` always
satisfies it).  Strings are their UTF-8 bytes (`Bincode.Str`).  `U31x8` is the list of its
8 lanes (so the image does not depend on the portable / AVX2 in-memory representation).

The `crawdad` trie is an opaque byte blob (DESIGN §4): the image stores
`Vec<u8> = crawdad::Trie::serialize_to_vec()`.  The reader passes the blob to
`crawdad::Trie::deserialize_from_slice`, which slices without bounds checks being turned
into errors: a blob shorter than its own headers announce makes `Dictionary::read`
**panic** (`range end index … out of range`), and bytes after the announced end are
silently dropped (so they are not written back).  `crawdadLen` models exactly that:
`none` = panic, `some n` = the first `n` bytes are the trie.

Sizes passed to `vec` are `size_of::<T>()` on x86-64 (they only matter for the
"capacity overflow" panic on absurd length prefixes, see `Bincode.vec`).

Not modelled (all outside what C05/C09 quantify over; see also `Bincode.lean`):
* allocation failure (`Vec::with_capacity` / `vec![0; len]` in bincode, and
  `Vec::with_capacity(n)` for the `u32` counts inside the crawdad blob): the real process
  aborts, the model goes on and answers `err`/`panic` when the input runs out;
* AVX2 builds only: `Scorer::decode` evaluates `i32::try_from(bases.len()).unwrap()` and the
  same for `checks`, a panic for vectors of ≥ 2^31 entries (an image of ≥ 8 GiB).

`magic` must equal `MODEL_MAGIC` of `/repo/vibrato/src/dictionary.rs`; no theorem depends on
its value (only the `decide`d examples and the `#guard` in `Proofs/CodecTests.lean` do).

Core Lean only.
-/
import Vibrato.Model.Bincode

namespace Vibrato.Image
open Vibrato.Bincode

/-! ## Structures (mirror of the Rust types) -/

/-- `dictionary::LexType` (`#[derive(Decode, Encode)]`: `u32` variant index). -/
inductive LexType where
  | system | user | unknown
  deriving Repr, DecidableEq, Inhabited

/-- `lexicon::param::WordParam { left_id: u16, right_id: u16, word_cost: i16 }`. -/
structure WordParam where
  leftId : Nat
  rightId : Nat
  wordCost : Int
  deriving Repr, DecidableEq, Inhabited

/-- `lexicon::map::WordMap { trie: Trie, postings: Postings { data: Vec<u32> } }`. -/
structure WordMap where
  trie : List UInt8
  postings : List Nat
  deriving Repr, DecidableEq, Inhabited

/-- `lexicon::Lexicon { map, params: WordParams { params: Vec<WordParam> },
features: WordFeatures { features: Vec<String> }, lex_type }`. -/
structure Lexicon where
  map : WordMap
  params : List WordParam
  features : List Str
  lexType : LexType
  deriving Repr, DecidableEq, Inhabited

/-- `connector::MatrixConnector { data: Vec<i16>, num_right: usize, num_left: usize }`. -/
structure Matrix where
  data : List Int
  numRight : Nat
  numLeft : Nat
  deriving Repr, DecidableEq, Inhabited

/-- `raw_connector::scorer::Scorer { bases: Vec<u32>, checks: Vec<u32>, costs: Vec<i32> }`
(the AVX2-only fields are recomputed by the decoder and not stored). -/
structure Scorer where
  bases : List Nat
  checks : List Nat
  costs : List Int
  deriving Repr, DecidableEq, Inhabited

/-- `connector::RawConnector { right_feat_ids: Vec<U31x8>, left_feat_ids: Vec<U31x8>,
feat_template_size: usize, scorer: Scorer }`. -/
structure RawConn where
  rightFeatIds : List (List Nat)
  leftFeatIds : List (List Nat)
  featTemplateSize : Nat
  scorer : Scorer
  deriving Repr, DecidableEq, Inhabited

/-- `connector::DualConnector { matrix_connector, right_conn_id_map: Vec<u16>,
left_conn_id_map: Vec<u16>, right_feat_ids: Vec<U31x8>, left_feat_ids: Vec<U31x8>,
raw_scorer: Scorer }`. -/
structure DualConn where
  matrix : Matrix
  rightConnIdMap : List Nat
  leftConnIdMap : List Nat
  rightFeatIds : List (List Nat)
  leftFeatIds : List (List Nat)
  rawScorer : Scorer
  deriving Repr, DecidableEq, Inhabited

/-- `connector::ConnectorWrapper` (variant index 0/1/2). -/
inductive Connector where
  | matrix (m : Matrix)
  | raw (r : RawConn)
  | dual (d : DualConn)
  deriving Repr, DecidableEq, Inhabited

/-- `mapper::ConnIdMapper { left: Vec<u16>, right: Vec<u16> }`. -/
structure Mapper where
  left : List Nat
  right : List Nat
  deriving Repr, DecidableEq, Inhabited

/-- `character::CharProperty { chr2inf: Vec<CharInfo(u32)>, categories: Vec<String> }`. -/
structure CharProp where
  chr2inf : List Nat
  categories : List Str
  deriving Repr, DecidableEq, Inhabited

/-- `unknown::UnkEntry { cate_id: u16, left_id: u16, right_id: u16, word_cost: i16,
feature: String }`. -/
structure UnkEntry where
  cateId : Nat
  leftId : Nat
  rightId : Nat
  wordCost : Int
  feature : Str
  deriving Repr, DecidableEq, Inhabited

/-- `unknown::UnkHandler { offsets: Vec<usize>, entries: Vec<UnkEntry> }`. -/
structure UnkHandler where
  offsets : List Nat
  entries : List UnkEntry
  deriving Repr, DecidableEq, Inhabited

/-- `dictionary::DictionaryInner`, fields in declaration (= wire) order. -/
structure Dict where
  systemLexicon : Lexicon
  userLexicon : Option Lexicon
  connector : Connector
  mapper : Option Mapper
  charProp : CharProp
  unkHandler : UnkHandler
  deriving Repr, DecidableEq, Inhabited

/-! ## In-memory element sizes (x86-64) used by `Vec::with_capacity` -/

def szU8 : Nat := 1
def szU16 : Nat := 2
def szU32 : Nat := 4
def szUsize : Nat := 8
/-- `WordParam`: three 2-byte fields. -/
def szWordParam : Nat := 6
/-- `String`: pointer, capacity, length. -/
def szString : Nat := 24
/-- `U31x8`: `[U31; 8]` or `__m256i`. -/
def szU31x8 : Nat := 32
/-- `UnkEntry`: a `String` plus four 2-byte fields. -/
def szUnkEntry : Nat := 32

/-! ## The crawdad blob -/

/-- The walk of `crawdad::Trie::deserialize_from_slice` over a blob: `u32 n`, `n × u32`
(code table) and a `u32` alphabet size, `u32 m`, `m × (u32 base, u32 check)`.  Only the
amount consumed matters here (the trie itself is opaque); any failure is a Rust panic
(slice index out of range). -/
def crawdadWalk : Dec Unit :=
  u32.andThen fun n => (readExact (4 * n + 4)).andThen fun _ =>
  u32.andThen fun m => (readExact (8 * m)).map fun _ => ()

/-- Number of bytes `crawdad::Trie::deserialize_from_slice` consumes from a blob, `none`
when it panics. -/
def crawdadLen (b : List UInt8) : Option Nat :=
  match crawdadWalk b with
  | .ok _ rest => some (b.length - rest.length)
  | _ => none

/-- `Trie::decode`: `Vec<u8>`, then the crawdad parser (panic on a short blob); what is
kept (and written back later) is the parsed part of the blob. -/
def decTrie : Dec (List UInt8) := (vec szU8 u8).andThen fun blob =>
  match crawdadLen blob with
  | none => Dec.crash
  | some n => Dec.ret (blob.take n)

def encTrie (blob : List UInt8) : List UInt8 := encVec encU8 blob

/-! ## Decoders and encoders -/

def LexType.toTag : LexType → Nat
  | .system => 0 | .user => 1 | .unknown => 2

def LexType.ofTag (t : Nat) : LexType :=
  if t = 0 then .system else if t = 1 then .user else .unknown

def decLexType : Dec LexType := (tag 3).map LexType.ofTag
def encLexType (t : LexType) : List UInt8 := encU32 t.toTag

def decWordParam : Dec WordParam :=
  u16.andThen fun l => u16.andThen fun r => i16.andThen fun c => Dec.ret ⟨l, r, c⟩
def encWordParam (p : WordParam) : List UInt8 :=
  encU16 p.leftId ++ (encU16 p.rightId ++ encI16 p.wordCost)

def decWordMap : Dec WordMap :=
  decTrie.andThen fun t => (vec szU32 u32).andThen fun p => Dec.ret ⟨t, p⟩
def encWordMap (m : WordMap) : List UInt8 :=
  encTrie m.trie ++ encVec encU32 m.postings

def decLexicon : Dec Lexicon :=
  decWordMap.andThen fun m => (vec szWordParam decWordParam).andThen fun ps =>
  (vec szString str).andThen fun fs => decLexType.andThen fun t => Dec.ret ⟨m, ps, fs, t⟩
def encLexicon (l : Lexicon) : List UInt8 :=
  encWordMap l.map ++ (encVec encWordParam l.params ++ (encVec encStr l.features ++
    encLexType l.lexType))

def decMatrix : Dec Matrix :=
  (vec szU16 i16).andThen fun d => u64.andThen fun r => u64.andThen fun l => Dec.ret ⟨d, r, l⟩
def encMatrix (m : Matrix) : List UInt8 :=
  encVec encI16 m.data ++ (encU64 m.numRight ++ encU64 m.numLeft)

/-- `Scorer::decode`: three vectors, then `checks.len() != costs.len()` is
`ArrayLengthMismatch`. -/
def decScorer : Dec Scorer :=
  (vec szU32 u32).andThen fun b => (vec szU32 u32).andThen fun c => (vec szU32 i32).andThen fun k =>
  if c.length = k.length then Dec.ret ⟨b, c, k⟩ else Dec.fail
def encScorer (s : Scorer) : List UInt8 :=
  encVec encU32 s.bases ++ (encVec encU32 s.checks ++ encVec encI32 s.costs)

def decRaw : Dec RawConn :=
  (vec szU31x8 u31x8).andThen fun r => (vec szU31x8 u31x8).andThen fun l =>
  u64.andThen fun n => decScorer.andThen fun s => Dec.ret ⟨r, l, n, s⟩
def encRaw (c : RawConn) : List UInt8 :=
  encVec encU31x8 c.rightFeatIds ++ (encVec encU31x8 c.leftFeatIds ++
    (encU64 c.featTemplateSize ++ encScorer c.scorer))

def decDual : Dec DualConn :=
  decMatrix.andThen fun m => (vec szU16 u16).andThen fun rm => (vec szU16 u16).andThen fun lm =>
  (vec szU31x8 u31x8).andThen fun r => (vec szU31x8 u31x8).andThen fun l =>
  decScorer.andThen fun s => Dec.ret ⟨m, rm, lm, r, l, s⟩
def encDual (c : DualConn) : List UInt8 :=
  encMatrix c.matrix ++ (encVec encU16 c.rightConnIdMap ++ (encVec encU16 c.leftConnIdMap ++
    (encVec encU31x8 c.rightFeatIds ++ (encVec encU31x8 c.leftFeatIds ++
      encScorer c.rawScorer))))

def decConnector : Dec Connector := (tag 3).andThen fun t =>
  if t = 0 then decMatrix.map .matrix
  else if t = 1 then decRaw.map .raw
  else decDual.map .dual
def encConnector : Connector → List UInt8
  | .matrix m => encU32 0 ++ encMatrix m
  | .raw r => encU32 1 ++ encRaw r
  | .dual d => encU32 2 ++ encDual d

def decMapper : Dec Mapper :=
  (vec szU16 u16).andThen fun l => (vec szU16 u16).andThen fun r => Dec.ret ⟨l, r⟩
def encMapper (m : Mapper) : List UInt8 := encVec encU16 m.left ++ encVec encU16 m.right

def decCharProp : Dec CharProp :=
  (vec szU32 u32).andThen fun c => (vec szString str).andThen fun cs => Dec.ret ⟨c, cs⟩
def encCharProp (c : CharProp) : List UInt8 :=
  encVec encU32 c.chr2inf ++ encVec encStr c.categories

def decUnkEntry : Dec UnkEntry :=
  u16.andThen fun c => u16.andThen fun l => u16.andThen fun r => i16.andThen fun w =>
  str.andThen fun f => Dec.ret ⟨c, l, r, w, f⟩
def encUnkEntry (e : UnkEntry) : List UInt8 :=
  encU16 e.cateId ++ (encU16 e.leftId ++ (encU16 e.rightId ++ (encI16 e.wordCost ++
    encStr e.feature)))

def decUnkHandler : Dec UnkHandler :=
  (vec szUsize u64).andThen fun o => (vec szUnkEntry decUnkEntry).andThen fun es => Dec.ret ⟨o, es⟩
def encUnkHandler (u : UnkHandler) : List UInt8 :=
  encVec encU64 u.offsets ++ encVec encUnkEntry u.entries

/-- `DictionaryInner::decode`. -/
def decodeDict : Dec Dict :=
  decLexicon.andThen fun s => (opt decLexicon).andThen fun u => decConnector.andThen fun c =>
  (opt decMapper).andThen fun m => decCharProp.andThen fun cp => decUnkHandler.andThen fun uh =>
  Dec.ret ⟨s, u, c, m, cp, uh⟩

/-- `DictionaryInner::encode`. -/
def encodeDict (d : Dict) : List UInt8 :=
  encLexicon d.systemLexicon ++ (encOpt encLexicon d.userLexicon ++ (encConnector d.connector ++
    (encOpt encMapper d.mapper ++ (encCharProp d.charProp ++ encUnkHandler d.unkHandler))))

/-! ## The image -/

/-- `MODEL_MAGIC = b"VibratoTokenizer 0.5\n"`. -/
def magic : List UInt8 :=
  [0x56, 0x69, 0x62, 0x72, 0x61, 0x74, 0x6f, 0x54, 0x6f, 0x6b, 0x65, 0x6e, 0x69, 0x7a, 0x65,
   0x72, 0x20, 0x30, 0x2e, 0x35, 0x0a]

/-- `Dictionary::write`: the bytes emitted. -/
def writeImage (d : Dict) : List UInt8 := magic ++ encodeDict d

/-- `Dictionary::write`: the reported count `MODEL_MAGIC.len() + num_bytes`. -/
def writeReported (d : Dict) : Nat := magic.length + (encodeDict d).length

/-- `Dictionary::read_common` as a decoder (keeps the unread remainder: the real reader does
not look at it). -/
def decodeImage : Dec Dict := (readExact magic.length).andThen fun m =>
  if m = magic then decodeDict else Dec.fail

/-- Observable outcome of `Dictionary::read`. -/
inductive ReadOutcome (α : Type) where
  | ok (a : α)
  | err
  | panic
  deriving Repr, DecidableEq

def readImage (bs : List UInt8) : ReadOutcome Dict :=
  match decodeImage bs with
  | .ok d _ => .ok d
  | .err => .err
  | .panic => .panic

/-- Result on the first `n` bytes of a stream the reader accepts with value `d`, having
consumed `used` bytes and left `rest`. -/
def cutOk (used : Nat) (d : Dict) (rest : List UInt8) (n : Nat) : DRes Dict :=
  if n < used then .err else .ok d (rest.take (n - used))

/-- The reader's result on the first `n` bytes of `bs`, obtained from its result `whole` on
all of `bs` without decoding again when `whole` is `ok` (used by the driver to answer many
cut points of one image; `Proofs/Image.lean: decodeImageCut_eq` proves it equal to
`decodeImage (bs.take n)`). -/
def decodeImageCut (bs : List UInt8) (whole : DRes Dict) (n : Nat) : DRes Dict :=
  match whole with
  | .ok d rest => cutOk (bs.length - rest.length) d rest n
  | _ => decodeImage (bs.take n)

/-! ## Well-formedness (`WFsize`) -/

def wfU16 (n : Nat) : Bool := decide (n < 2 ^ 16)
def wfU32 (n : Nat) : Bool := decide (n < 2 ^ 32)
def wfU64 (n : Nat) : Bool := decide (n < 2 ^ 64)
def wfI16 (i : Int) : Bool := decide (-2 ^ 15 ≤ i ∧ i < 2 ^ 15)
def wfI32 (i : Int) : Bool := decide (-2 ^ 31 ≤ i ∧ i < 2 ^ 31)
def wfU31 (n : Nat) : Bool := decide (n ≤ u31Max)

/-- A `Vec<T>` that can exist in memory (`len * size_of::<T>() ≤ isize::MAX`) with
well-formed items. -/
def wfVec (sz : Nat) (p : α → Bool) (l : List α) : Bool :=
  decide (l.length * sz ≤ isizeMax) && l.all p

def wfStr (s : Str) : Bool := decide (s.length ≤ isizeMax) && validUtf8 s
def wfU31x8 (l : List Nat) : Bool := decide (l.length = 8) && l.all wfU31

/-- The blob is exactly one serialized crawdad trie. -/
def wfTrie (b : List UInt8) : Bool :=
  decide (b.length ≤ isizeMax) && decide (crawdadLen b = some b.length)

def wfWordParam (p : WordParam) : Bool := wfU16 p.leftId && wfU16 p.rightId && wfI16 p.wordCost
def wfWordMap (m : WordMap) : Bool := wfTrie m.trie && wfVec szU32 wfU32 m.postings
def wfLexicon (l : Lexicon) : Bool :=
  wfWordMap l.map && wfVec szWordParam wfWordParam l.params && wfVec szString wfStr l.features
def wfMatrix (m : Matrix) : Bool :=
  wfVec szU16 wfI16 m.data && wfU64 m.numRight && wfU64 m.numLeft
def wfScorer (s : Scorer) : Bool :=
  wfVec szU32 wfU32 s.bases && wfVec szU32 wfU32 s.checks && wfVec szU32 wfI32 s.costs &&
    decide (s.checks.length = s.costs.length)
def wfRaw (c : RawConn) : Bool :=
  wfVec szU31x8 wfU31x8 c.rightFeatIds && wfVec szU31x8 wfU31x8 c.leftFeatIds &&
    wfU64 c.featTemplateSize && wfScorer c.scorer
def wfDual (c : DualConn) : Bool :=
  wfMatrix c.matrix && wfVec szU16 wfU16 c.rightConnIdMap && wfVec szU16 wfU16 c.leftConnIdMap &&
    wfVec szU31x8 wfU31x8 c.rightFeatIds && wfVec szU31x8 wfU31x8 c.leftFeatIds &&
    wfScorer c.rawScorer
def wfConnector : Connector → Bool
  | .matrix m => wfMatrix m
  | .raw r => wfRaw r
  | .dual d => wfDual d
def wfMapper (m : Mapper) : Bool := wfVec szU16 wfU16 m.left && wfVec szU16 wfU16 m.right
def wfCharProp (c : CharProp) : Bool :=
  wfVec szU32 wfU32 c.chr2inf && wfVec szString wfStr c.categories
def wfUnkEntry (e : UnkEntry) : Bool :=
  wfU16 e.cateId && wfU16 e.leftId && wfU16 e.rightId && wfI16 e.wordCost && wfStr e.feature
def wfUnkHandler (u : UnkHandler) : Bool :=
  wfVec szUsize wfU64 u.offsets && wfVec szUnkEntry wfUnkEntry u.entries
def wfOpt (p : α → Bool) : Option α → Bool
  | none => true
  | some a => p a

def wfDict (d : Dict) : Bool :=
  wfLexicon d.systemLexicon && wfOpt wfLexicon d.userLexicon && wfConnector d.connector &&
    wfOpt wfMapper d.mapper && wfCharProp d.charProp && wfUnkHandler d.unkHandler

/-- Every number fits its Rust type, every vector can exist in memory, strings are valid
UTF-8, scorer `checks`/`costs` have equal length, trie blobs are exactly one serialized
crawdad trie.  True of every `DictionaryInner` value the Rust program can hold. -/
def WFsize (d : Dict) : Prop := wfDict d = true

instance (d : Dict) : Decidable (WFsize d) := inferInstanceAs (Decidable (wfDict d = true))

end Vibrato.Image
