/-
Driver for the stream `mapimg` (C06): ties the abstract model of id mapping (`Model/Mapper.lean`: the connector
LAYOUTS of the matrix, the raw and the dual connector, the stored mapper, the parameter tables — the model the
theorems `matrix_cost_map`, `raw_cost_map`, `dual_cost_map`, `mapIds_total`, `map_compose` are about) directly to the
code, through the dictionary image as a complete observation of the internal tables.

Input line (tokens after the stream name and the case id):

    <image A hex> M <nl> <ids…> <nr> <ids…> <image B hex | err | panic>

`A` = `Dictionary::write` before, `B` = `Dictionary::write` after `map_connection_ids_from_iter(l, r)` on the real
dictionary (or `err` / `panic`).  The model decodes `A`, projects it to `Mapper.Dict` (`toDict`), applies
`Mapper.Dict.mapIds` and compares with the projection of the decoded `B`, table by table.

Observation: `err` | `panic` | `ok same` | `ok diff:<tables that differ>` | `bad-image`.
-/
import Vibrato.Model.Mapper
import Vibrato.Driver.Image

namespace Vibrato.Driver.MapImage
open Vibrato Vibrato.Wire

/-- consecutive chunks of `n` elements (`n = 0`: no rows) -/
def chunks {α : Type} (n : Nat) (xs : List α) : List (List α) :=
  if n = 0 then [] else (List.range (xs.length / n)).map fun i => (xs.drop (i * n)).take n

def toParam (p : Image.WordParam) : Mapper.Param := ⟨p.leftId, p.rightId, p.wordCost⟩

/-- `RawConnector`: row `id` is the `feat_template_size` blocks `[id * fts, (id + 1) * fts)`, 8 lanes each. -/
def toRaw (c : Image.RawConn) : Mapper.Raw :=
  { rightRows := (chunks c.featTemplateSize c.rightFeatIds).map List.flatten
    leftRows := (chunks c.featTemplateSize c.leftFeatIds).map List.flatten
    width := c.featTemplateSize * 8 }

def toDual (c : Image.DualConn) : Mapper.Dual :=
  { matrix := ⟨c.matrix.data, c.matrix.numRight, c.matrix.numLeft⟩
    rightMap := c.rightConnIdMap, leftMap := c.leftConnIdMap
    rightLanes := c.rightFeatIds, leftLanes := c.leftFeatIds }

def toConn : Image.Connector → Mapper.Conn
  | .matrix m => .matrix ⟨m.data, m.numRight, m.numLeft⟩
  | .raw r => .raw (toRaw r)
  | .dual d => .dual (toDual d)

/-- the id-relevant part of a decoded dictionary image -/
def toDict (d : Image.Dict) : Mapper.Dict :=
  { sysParams := d.systemLexicon.params.map toParam
    userParams := d.userLexicon.map fun u => u.params.map toParam
    conn := toConn d.connector
    unkParams := d.unkHandler.entries.map fun e => ⟨e.leftId, e.rightId, e.wordCost⟩
    stored := d.mapper.map fun m => ⟨m.left, m.right⟩ }

/-- what mapping must NOT touch: features, surfaces (trie, postings), scorers, character table, categories -/
def untouched (a b : Image.Dict) : Bool :=
  a.systemLexicon.map == b.systemLexicon.map && a.systemLexicon.features == b.systemLexicon.features &&
  (a.userLexicon.map fun u => (u.map, u.features)) == (b.userLexicon.map fun u => (u.map, u.features)) &&
  a.charProp == b.charProp && a.unkHandler.offsets == b.unkHandler.offsets &&
  a.unkHandler.entries.map (fun e => (e.cateId, e.feature)) == b.unkHandler.entries.map (fun e => (e.cateId, e.feature)) &&
  (match a.connector, b.connector with
   | .raw x, .raw y => x.scorer == y.scorer && x.featTemplateSize == y.featTemplateSize
   | .dual x, .dual y => x.rawScorer == y.rawScorer
   | .matrix _, .matrix _ => true
   | _, _ => false)

def diffTables (want got : Mapper.Dict) : List String :=
  (if want.sysParams == got.sysParams then [] else ["sys-params"]) ++
  (if want.userParams == got.userParams then [] else ["user-params"]) ++
  (if want.conn == got.conn then [] else ["connector"]) ++
  (if want.unkParams == got.unkParams then [] else ["unk-params"]) ++
  (if want.stored == got.stored then [] else ["stored-mapper"])

def parseM : List String → Option (List Nat × List Nat × List String)
  | "M" :: nl :: ts => do
    let nl ← natOf nl
    let l ← (ts.take nl).mapM natOf
    match ts.drop nl with
    | nr :: ts' => do
      let nr ← natOf nr
      let r ← (ts'.take nr).mapM natOf
      pure (l, r, ts'.drop nr)
    | [] => none
  | _ => none

/-- the model's prediction and, when the implementation produced an image, the table-by-table comparison -/
def handle (f3 : Bool) (toks : List String) : String :=
  match toks with
  | a :: rest =>
    match bytesOfHex a, parseM rest with
    | some ab, some (l, r, [b]) =>
      match Image.decode? ab with
      | none => "bad-image"
      | some da =>
        match (toDict da).mapIds f3 l r with
        | .err => "err"
        | .panic => "panic"
        | .ok want =>
          match bytesOfHex b with
          | none => "ok same"          -- the implementation did not produce an image: outcome classes differ
          | some bb =>
            match Image.decode? bb with
            | none => "ok diff:image-unreadable"
            | some db =>
              let ds := diffTables want (toDict db) ++ (if untouched da db then [] else ["untouched-tables"])
              if ds.isEmpty then "ok same" else "ok diff:" ++ ",".intercalate ds
    | _, _ => "bad-input"
  | [] => "bad-input"

end Vibrato.Driver.MapImage
