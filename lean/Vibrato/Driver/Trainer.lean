/-
Driver for the `train` stream (C14 / C15 / C16): runs the model of dictionary generation
(`Vibrato/Model/Trainer.lean`, weights `W := Float`) on a model image.

Input line (tokens after the stream name and the case id):

    GEN <model image hex> <user csv hex | none>
    REENC <model image hex>
    INFO <model image hex>

* `<model image hex>` the bytes written by `Model::write_model` (handed to `Model::read_model`);
* `<user csv hex>`    the bytes handed to `Model::read_user_lexicon` after reading the model
                      (`-` = the empty file, `none` = `read_user_lexicon` is not called).

Observation for `GEN` (one line):

    err                      `read_model`, `read_user_lexicon`, `write_dictionary` or
                             `write_bigram_details` returns `Err`
    panic                    one of them panics
    ok <lex> <matrix> <unk> <user> <bigram.left> <bigram.right> <bigram.cost>
                             the seven files in hex (`-` = empty) written by
                             `write_dictionary(lex, matrix, unk, user)` followed by
                             `write_bigram_details(left, right, cost)` into `Vec<u8>` writers;
                             `bigram.cost` with its lines (split at `\n`, each re-terminated
                             by `\n`) sorted bytewise (lexicographic order of the byte
                             strings), because the code emits them in hash-map order.
    bad-input                the line could not be parsed (harness bug)

Observation for `REENC`: `err` / `panic` (of `read_model`) or `ok <same|diff@k>`: the model's
decoder followed by its encoder reproduces the input (`same`) or differs first at byte `k`
(stored order of all hash containers is kept, so this is `same` for every image written by
`write_model`; trailing bytes after the model make it `diff@<model length>`).
The implementation side prints `ok same` when `read_model` succeeds.

`INFO` prints a diagnostic summary (not compared).

Mathlib-free; linked into the driver executable.
-/
import Vibrato.Model.Trainer
import Vibrato.Driver.Image
import Vibrato.Util.Wire

namespace Vibrato.Driver.Trainer
open Vibrato.Bincode Vibrato.Image Vibrato.ModelImage Vibrato.Trainer

/-- Lexicographic `≤` on byte strings. -/
def bytesLe : List UInt8 → List UInt8 → Bool
  | [], _ => true
  | _ :: _, [] => false
  | a :: as, b :: bs => if a < b then true else if b < a then false else bytesLe as bs

/-- `bigram.cost` with sorted lines. -/
def sortedCost (lines : List (List UInt8)) : List UInt8 :=
  (lines.mergeSort bytesLe).flatMap fun l => l ++ [10]

def hex (bs : List UInt8) : String := Wire.hexOfBytes bs

def obsFiles (f : Files) : String :=
  s!"ok {hex f.dict.lex} {hex f.dict.matrix} {hex f.dict.unk} {hex f.dict.user} " ++
  s!"{hex f.bigram.left} {hex f.bigram.right} {hex (sortedCost f.bigram.cost)}"

def gen (image : List UInt8) (user : Option (List UInt8)) : String :=
  match (generate (W := Float) image user) with
  | .ok f => obsFiles f
  | .err => "err"
  | .panic => "panic"

def reenc (image : List UInt8) : String :=
  match decodeModel image with
  | .err => "err"
  | .panic => "panic"
  | .ok d _ => "ok " ++ Image.cmpStr (encodeModel d) image

def info (image : List UInt8) : String :=
  match decodeModel image with
  | .err => "err"
  | .panic => "panic"
  | .ok d rest =>
    let ex := d.config.extractor
    s!"ok rest={rest.length} uni={ex.unigramIds.length}/{ex.unigramNext} " ++
    s!"left={ex.leftIds.length}/{ex.leftNext} right={ex.rightIds.length}/{ex.rightNext} " ++
    s!"templates={ex.unigramT.length}/{ex.leftT.length}/{ex.rightT.length} " ++
    s!"rw={d.config.unigramRw.length}/{d.config.leftRw.length}/{d.config.rightRw.length} " ++
    s!"surfaces={d.config.surfaces.length} unk={d.config.dict.unkHandler.entries.length} " ++
    s!"weights={d.raw.weights.length} uidx={d.raw.unigramIdx.length} " ++
    s!"bidx={d.raw.bigramIdx.length} sets={d.raw.featureSets.length}"

def handle (toks : List String) : String :=
  match toks with
  | ["GEN", img, user] =>
    match Image.bytesOfHex img with
    | none => "bad-input"
    | some image =>
      if user = "none" then gen image none
      else match Image.bytesOfHex user with
        | none => "bad-input"
        | some u => gen image (some u)
  | ["REENC", img] =>
    match Image.bytesOfHex img with
    | none => "bad-input"
    | some image => reenc image
  | ["INFO", img] =>
    match Image.bytesOfHex img with
    | none => "bad-input"
    | some image => info image
  | _ => "bad-input"

end Vibrato.Driver.Trainer
