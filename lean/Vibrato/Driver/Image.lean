/-
Driver for the `image` stream (C05 / C09): runs the model of `Dictionary::read` on a
byte string and prints the canonical observation.

Input line (tokens after the stream name and the case id):

    <image-hex> [CUT=<n>] [CUTS <k> <n_1> … <n_k>] [INFO] [BOUNDS]

* `<image-hex>`  the bytes handed to `Dictionary::read` (lower/upper-case hex, `-` = empty);
* `CUT=<n>`      (also accepted as two tokens `CUT <n>`) only the first `n` bytes are handed to
                 the reader (`n ≥ length`: all of them);
* `CUTS k n_1…n_k` several cut points for the same image: the answer is the `k` observations
                 (each as below, for the first `n_i` bytes) joined by ` ; `;
* `INFO`         append ` | <summary>` (diagnostic, not to be compared);
* `BOUNDS`       append ` | <k> <o_1> … <o_k>`: the field boundaries (byte offsets from the
                 start of the image) of the decoded dictionary, for choosing cut points.

Observation (one line):

    err                                  `Dictionary::read` returns `Err`
    panic                                `Dictionary::read` panics
    ok <consumed> <len> <fnv> <cmp>      `Dictionary::read` returns `Ok(d)`
    bad-input                            the line could not be parsed (harness bug)

  `consumed` number of bytes the reader took from the stream (Rust: position of a
             `Cursor` passed as `&mut cursor` after `read`);
  `len`      length of the re-encoding = what `d.write(&mut v)` returns (= `v.len()`);
  `fnv`      FNV-1a 64 (offset basis 0xcbf29ce484222325, prime 0x100000001b3, arithmetic
             mod 2^64) of the re-encoding, decimal;
  `cmp`      `same` if the re-encoding equals the bytes handed to the reader, else `diff@<k>`
             with `k` the first index at which they differ (the length of the shorter one if
             one is a prefix of the other).

The Rust side needs no hook for any of this.  The functions at the end give the decoded
tables to other parts of the framework.

Mathlib-free; linked into the driver executable.
-/
import Vibrato.Model.Image
import Vibrato.Util.Wire

namespace Vibrato.Driver.Image
open Vibrato.Bincode Vibrato.Image

/-! ## Fast glue (trusted, not part of the model) -/

def nibble (b : UInt8) : Option UInt8 :=
  if 48 ≤ b && b ≤ 57 then some (b - 48)
  else if 97 ≤ b && b ≤ 102 then some (b - 87)
  else if 65 ≤ b && b ≤ 70 then some (b - 55)
  else none

/-- Hex token to bytes, building the list from the back (no deep recursion; the generic
`Wire.bytesOfHex` recurses once per byte, too deep for 270 kB images). -/
def bytesOfHex (s : String) : Option (List UInt8) :=
  if s = "-" then some [] else
  let a := s.toUTF8
  if a.size % 2 ≠ 0 then none else go a (a.size / 2) []
where
  go (a : ByteArray) : Nat → List UInt8 → Option (List UInt8)
    | 0, acc => some acc
    | k+1, acc =>
      match nibble (a.get! (2 * k)), nibble (a.get! (2 * k + 1)) with
      | some x, some y => go a k ((x <<< 4 ||| y) :: acc)
      | _, _ => none

/-- FNV-1a, 64 bit. -/
def fnv64 (bs : List UInt8) : UInt64 :=
  bs.foldl (fun h b => (h ^^^ b.toUInt64) * 0x100000001b3) 0xcbf29ce484222325

/-- First index where two byte strings differ; `none` when equal. -/
def firstDiff : List UInt8 → List UInt8 → Nat → Option Nat
  | [], [], _ => none
  | a :: as, b :: bs, i => if a = b then firstDiff as bs (i+1) else some i
  | _, _, i => some i

/-! ## Observation -/

def cmpStr (re input : List UInt8) : String :=
  match firstDiff re input 0 with
  | none => "same"
  | some k => s!"diff@{k}"

/-- Cumulative field boundaries of the image of `d` (offsets from the start of the image):
magic; system lexicon (trie, postings, params, features, lex type); user lexicon (tag, then
the same five); connector (tag, then each field); mapper (tag, left, right); char property
(chr2inf, categories); unknown handler (offsets, entries). -/
def boundaries (d : Dict) : List Nat :=
  let lexParts (l : Lexicon) : List Nat :=
    [(encTrie l.map.trie).length, (encVec encU32 l.map.postings).length,
     (encVec encWordParam l.params).length, (encVec encStr l.features).length, 4]
  let scorerParts (s : Scorer) : List Nat :=
    [(encVec encU32 s.bases).length, (encVec encU32 s.checks).length,
     (encVec encI32 s.costs).length]
  let matrixParts (m : Matrix) : List Nat := [(encVec encI16 m.data).length, 8, 8]
  let parts : List Nat :=
    [magic.length] ++ lexParts d.systemLexicon ++
    (match d.userLexicon with | none => [1] | some l => 1 :: lexParts l) ++
    [4] ++
    (match d.connector with
     | .matrix m => matrixParts m
     | .raw r => [(encVec encU31x8 r.rightFeatIds).length, (encVec encU31x8 r.leftFeatIds).length, 8]
                 ++ scorerParts r.scorer
     | .dual c => matrixParts c.matrix ++
                 [(encVec encU16 c.rightConnIdMap).length, (encVec encU16 c.leftConnIdMap).length,
                  (encVec encU31x8 c.rightFeatIds).length, (encVec encU31x8 c.leftFeatIds).length]
                 ++ scorerParts c.rawScorer) ++
    (match d.mapper with
     | none => [1]
     | some m => [1, (encVec encU16 m.left).length, (encVec encU16 m.right).length]) ++
    [(encVec encU32 d.charProp.chr2inf).length, (encVec encStr d.charProp.categories).length,
     (encVec encU64 d.unkHandler.offsets).length, (encVec encUnkEntry d.unkHandler.entries).length]
  (parts.foldl (fun (acc : List Nat × Nat) n => ((acc.2 + n) :: acc.1, acc.2 + n)) ([], 0)).1.reverse

def kindName : Connector → String
  | .matrix _ => "matrix" | .raw _ => "raw" | .dual _ => "dual"

/-- Diagnostic one-line summary of a decoded dictionary. -/
def summary (d : Dict) : String :=
  let lexS (l : Lexicon) := s!"{l.params.length}w/{l.map.trie.length}t/{l.map.postings.length}p"
  let conn := match d.connector with
    | .matrix m => s!"matrix {m.numRight}x{m.numLeft}/{m.data.length}"
    | .raw r => s!"raw {r.rightFeatIds.length}r/{r.leftFeatIds.length}l/k{r.featTemplateSize}/" ++
        s!"{r.scorer.bases.length}b/{r.scorer.checks.length}c"
    | .dual c => s!"dual {c.matrix.numRight}x{c.matrix.numLeft}/{c.rightFeatIds.length}r/" ++
        s!"{c.leftFeatIds.length}l/{c.rawScorer.bases.length}b/{c.rawScorer.checks.length}c"
  let user := match d.userLexicon with | none => "-" | some l => lexS l
  let mapper := match d.mapper with | none => "-" | some m => s!"{m.left.length}/{m.right.length}"
  s!"sys={lexS d.systemLexicon} user={user} conn={conn} mapper={mapper} " ++
  s!"chr={d.charProp.chr2inf.length}/{d.charProp.categories.length} " ++
  s!"unk={d.unkHandler.offsets.length}/{d.unkHandler.entries.length}"

structure Args where
  cut : Option Nat := none
  cuts : Option (List Nat) := none
  info : Bool := false
  bounds : Bool := false

def parseArgs : List String → Args → Option Args
  | [], a => some a
  | "INFO" :: r, a => parseArgs r { a with info := true }
  | "BOUNDS" :: r, a => parseArgs r { a with bounds := true }
  | "CUT" :: n :: r, a => do let k ← n.toNat?; parseArgs r { a with cut := some k }
  | "CUTS" :: k :: r, a => do
    let k ← k.toNat?
    if r.length < k then none else
    let ns ← (r.take k).mapM String.toNat?
    parseArgs (r.drop k) { a with cuts := some ns }
  | t :: r, a =>
    if t.startsWith "CUT=" then do
      let k ← (t.drop 4).toString.toNat?
      parseArgs r { a with cut := some k }
    else none
termination_by toks => toks.length
decreasing_by all_goals (simp only [List.length_cons, List.length_drop]; omega)

/-- The observation, given the bytes `input` handed to the reader and the model's result. -/
def observeRes (input : List UInt8) (res : DRes Dict) (info bounds : Bool) : String :=
  match res with
  | .err => "err"
  | .panic => "panic"
  | .ok d rest =>
    let re := writeImage d
    let base := s!"ok {input.length - rest.length} {re.length} {(fnv64 re).toNat} {cmpStr re input}"
    let base := if info then base ++ " | " ++ summary d else base
    if bounds then
      let b := boundaries d
      base ++ " | " ++ " ".intercalate (toString b.length :: b.map toString)
    else base

/-- The observation for the bytes `input` handed to the reader. -/
def observe (input : List UInt8) (info bounds : Bool) : String :=
  observeRes input (decodeImage input) info bounds

def handle (toks : List String) : String :=
  match toks with
  | [] => "bad-input"
  | hex :: rest =>
    match bytesOfHex hex, parseArgs rest {} with
    | some bs, some a =>
      match a.cuts with
      | some ns =>
        -- one decode of the whole image; `decodeImageCut_eq` (Proofs/Image.lean) shows that
        -- `decodeImageCut bs (decodeImage bs) n = decodeImage (bs.take n)`; the match below is
        -- `decodeImageCut` with the consumed length computed once
        let whole := decodeImage bs
        let used := match whole with
          | .ok _ rest => bs.length - rest.length
          | _ => 0
        let cutRes (n : Nat) : DRes Dict :=
          match whole with
          | .ok d rest => cutOk used d rest n
          | _ => decodeImage (bs.take n)
        " ; ".intercalate (ns.map fun n =>
          match cutRes n with
          | .err => "err"
          | .panic => "panic"
          | r => observeRes (bs.take n) r a.info a.bounds)
      | none =>
        let input := match a.cut with | none => bs | some n => bs.take n
        observe input a.info a.bounds
    | _, _ => "bad-input"

/-! ## Access to the decoded tables (for comparison with the Lean builders) -/

/-- Decode an image; `none` on `err`/`panic`. -/
def decode? (image : List UInt8) : Option Dict :=
  match decodeImage image with
  | .ok d _ => some d
  | _ => none

def sysParams (d : Dict) : List WordParam := d.systemLexicon.params
def sysFeatures (d : Dict) : List Str := d.systemLexicon.features
def sysPostings (d : Dict) : List Nat := d.systemLexicon.map.postings
def sysTrieBlob (d : Dict) : List UInt8 := d.systemLexicon.map.trie
def userLexicon? (d : Dict) : Option Lexicon := d.userLexicon
def matrix? (d : Dict) : Option Matrix :=
  match d.connector with | .matrix m => some m | _ => none
def rawConn? (d : Dict) : Option RawConn :=
  match d.connector with | .raw r => some r | _ => none
def dualConn? (d : Dict) : Option DualConn :=
  match d.connector with | .dual c => some c | _ => none
def chr2inf (d : Dict) : List Nat := d.charProp.chr2inf
def categories (d : Dict) : List Str := d.charProp.categories
def unkOffsets (d : Dict) : List Nat := d.unkHandler.offsets
def unkEntries (d : Dict) : List UnkEntry := d.unkHandler.entries
def mapper? (d : Dict) : Option Mapper := d.mapper

end Vibrato.Driver.Image
