/-
Property-level decider for C20 (stream `extract … MECAB`).  Mathlib-free.

`specVerdict fixedC fd rd ld md cf right left cost` compiles the three bigram files written by the
IMPLEMENTATION with the raw-connector model (`RawConnector.fromReaders`, C07) and compares, for every
pair of non-zero connection ids, the connector's cost with the template sum of the property
(`Σ_t termOf entries b cellsR cellsL t`, the right-hand side of `C20.mecab_cost_eq_sum` and
`C20e2e.mecab_compiled_cost_eq_sum`), computed from the MeCab INPUT files alone.

Answer: `1` equal everywhere, `0@r:l:compiled:sum` first difference, `n/a` when the inputs do not
parse / the files do not compile / a sum overflows, plus `NOBIGRAM=<0|1>` (feature.def without any
BIGRAM template: hypothesis `hT` of the end-to-end theorem).
-/
import Vibrato.Driver.Conn
import Vibrato.Proofs.Mecab

namespace Vibrato.Driver.MecabSpec
open Vibrato.Extractor Vibrato.Mecab

def specVerdict (fixedC : Bool) (fd rd ld md : List UInt8) (cf : Float) (right left cost : List UInt8) : String :=
  match featureConfigTemplates fd, rawEntries cf (Extractor.readLines md) with
  | some (_, b), some entries =>
    let nob := if b.isEmpty then "1" else "0"
    match RawConnector.fromReaders fixedC Conn.csvRow (RawConnector.readLines right) (RawConnector.readLines left)
            (RawConnector.readLines cost) with
    | .ok conn =>
      let nr := RawConnector.numIds conn.rightFeatIds conn.fts
      let nl := RawConnector.numIds conn.leftFeatIds conn.fts
      let rl := Extractor.readLines rd
      let ll := Extractor.readLines ld
      let pairs := (List.range (nr - 1)).flatMap fun r => (List.range (nl - 1)).map fun l => (r + 1, l + 1)
      let bad := pairs.findSome? fun (r, l) =>
        match lastCells rl r, lastCells ll l, RawConnector.rawCost true conn r l with
        | some cr, some cl, .ok c =>
          let s := ((List.range b.length).map (termOf entries b cr cl)).sum
          if c = s then none else some s!"0@{r}:{l}:{c}:{s}"
        | _, _, _ => some "n/a"
      s!"{bad.getD "1"} NOBIGRAM={nob}"
    | _ => s!"n/a NOBIGRAM={nob}"
  | _, _ => "n/a NOBIGRAM=na"

end Vibrato.Driver.MecabSpec
