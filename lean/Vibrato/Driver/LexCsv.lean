/-
Driver for the lexicon CSV models (`Vibrato/Model/CsvCore.lean`, `Vibrato/Model/LexCsv.lean`).

`handle toks` gets the tokens of one protocol line after the stream name and the case id and
returns the canonical observation (one line, no newline).  Byte strings are lower-case hex,
`-` is the empty byte string, numbers are decimal.

Input line formats and observations:

* `LEX <file hex> FIXED <0|1>`
    model of `Lexicon::parse_csv(file, "lex.csv")` (pinned code for `FIXED 0`, the repaired
    end-of-input handling for `FIXED 1`).
    Observation: `panic` | `err` |
      `ok <n> (<surface hex> <left_id> <right_id> <word_cost> <feature hex>)*`
    (n entries in order, five tokens per entry).
    Rust side: `Lexicon::parse_csv` is `pub(crate)`; from outside the crate the same list is
    observable through `SystemDictionaryBuilder::from_readers(lex, matrix, char, unk)` (with a
    matrix that is large enough for the ids) and then for `word_id = 0..n`
    `dict.word_feature(WordIdx{lex_type: System, word_id})` and the word parameters via
    tokenising the surface, or directly through a hook
    `pub fn verif_parse_lex_csv(bytes: &[u8]) -> Result<Vec<(String, u16, u16, i16, String)>>`
    that calls `Lexicon::parse_csv(bytes, "lex.csv")`; wrap the call in `catch_unwind`.

* `ROW <row hex>`  or  `ROW <row hex> FIXED <0|1>`
    model of `vibrato::utils::parse_csv_row(row)`; `<row hex>` must be valid UTF-8.
    `FIXED 1` (and the short form without the flag) is the repaired tree of finding F18
    (output buffer sized by the row), `FIXED 0` the pinned `[0; 4096]` buffer, which panics on
    cells of 4096 bytes or more.
    Observation: `panic` | `ok <n> <cell hex>*`    (`err` never occurs)

* `QUOTE <cell hex>`
    model of `vibrato::utils::quote_csv_cell(&mut Vec::new(), cell)` (feature `train`).
    Observation: `panic` | `ok <quoted hex>`

* `FIELDS <bytes hex>`
    the raw csv-core reader: `let mut rdr = csv_core::Reader::new(); let mut out = [0u8; 4096];`
    then repeat `let (res, nin, nout) = rdr.read_field(bytes, &mut out); bytes = &bytes[nin..];`
    until `res` is `End` (after `OutputFull` the loop also stops, since the harness never
    enlarges the buffer).  Observation: `<k> (<kind> <nin> <out hex>)*` with k calls in order,
    `kind` = `I` (InputEmpty) | `O` (OutputFull) | `F0` (Field{record_end:false}) |
    `F1` (Field{record_end:true}) | `E` (End), `<out hex>` = `out[..nout]`.

Anything else: `bad-input`.
-/
import Vibrato.Util.Wire
import Vibrato.Model.LexCsv

namespace Vibrato.Driver.LexCsv

open Vibrato.Wire Vibrato.Csv Vibrato.LexCsv

def showEntry (e : RawEntry) : String :=
  s!"{hexOfBytes e.surface} {e.leftId} {e.rightId} {e.wordCost} {hexOfBytes e.feature}"

def showLex : Outcome (List RawEntry) → String
  | .panic => "panic"
  | .err => "err"
  | .ok es => " ".intercalate (s!"ok {es.length}" :: es.map showEntry)

def showRow : Outcome (List (List UInt8)) → String
  | .panic => "panic"
  | .err => "err"
  | .ok cs => " ".intercalate (s!"ok {cs.length}" :: cs.map hexOfBytes)

def showKind : ReadFieldResult → String
  | .inputEmpty => "I"
  | .outputFull => "O"
  | .field false => "F0"
  | .field true => "F1"
  | .end_ => "E"

/-- Repeated `read_field` calls until `End` / `OutputFull` (fuel: every call consumes a byte,
except at most two at the end). -/
def fieldsLoop : Nat → Reader → List UInt8 → List String → List String
  | 0, _, _, acc => acc.reverse
  | fuel + 1, rdr, bytes, acc =>
    let (res, nin, out, rdr') := readField rdr bytes outCap
    let acc := s!"{showKind res} {nin} {hexOfBytes out}" :: acc
    match res with
    | .end_ | .outputFull => acc.reverse
    | _ => fieldsLoop fuel rdr' (bytes.drop nin) acc

def showFields (bytes : List UInt8) : String :=
  let calls := fieldsLoop (2 * bytes.length + 3) Reader.new bytes []
  " ".intercalate (toString calls.length :: calls)

def handle (toks : List String) : String :=
  match toks with
  | ["LEX", file, "FIXED", fx] =>
    match bytesOfHex file, fx with
    | some bs, "0" => showLex (parseCsv false bs)
    | some bs, "1" => showLex (parseCsv true bs)
    | _, _ => "bad-input"
  | ["ROW", row] =>
    match bytesOfHex row with
    | some bs => showRow (parseCsvRowBytes true bs)
    | none => "bad-input"
  | ["ROW", row, "FIXED", fx] =>
    match bytesOfHex row, fx with
    | some bs, "0" => showRow (parseCsvRowBytes false bs)
    | some bs, "1" => showRow (parseCsvRowBytes true bs)
    | _, _ => "bad-input"
  | ["QUOTE", cell] =>
    match bytesOfHex cell with
    | some bs =>
      match quoteCsvCell bs with
      | .ok q => s!"ok {hexOfBytes q}"
      | _ => "panic"
    | none => "bad-input"
  | ["FIELDS", bytes] =>
    match bytesOfHex bytes with
    | some bs => showFields bs
    | none => "bad-input"
  | _ => "bad-input"

end Vibrato.Driver.LexCsv
