import Vibrato.Util.Wire
import Vibrato.Model.Scorer
import Vibrato.Model.RawConnector
import Vibrato.Model.DualConnector
/-
Driver for the connector models (property C07).  `handle toks` receives the tokens of one
protocol line after the stream name and the case id and returns one line.

Formats (tokens separated by single spaces; naturals/integers decimal; byte strings lower-case
hex, `-` = empty):

(1) `SCORER <n> (<k1> <k2> <cost>){n} QUERIES <m> (<k1> <k2>){m} [ACC <j> (<k1> <k2>){j}]`
    Builds a `ScorerBuilder` by `insert(k1,k2,cost)` in the given order, calls `build()`.
    Answer: `panic` if a base or key1 leaves the `u32` range, otherwise
    `bases <len> <b>* checks <len> <c>* costs <len> <c>* answers <m> (none|<int>|panic){m}`
    followed, when the `ACC` section is present, by ` acc <int|panic> accavx2 <int|panic>`:
    `accumulate_cost(to_simd_vec(keys1), to_simd_vec(keys2))` of the portable and of the AVX2
    code path (overflow checks on).

(2) `RAW <right hex> <left hex> <cost hex>` (also `RAWFIX`: repaired model)
    The three tokens are the bytes of `bigram.right`, `bigram.left`, `bigram.cost`.
    Answer: `err` (from_readers returned Err) | `panic` |
    `ok <numRight> <numLeft> <cost(r,l)>*` with the costs row-major `for r in 0..numRight
    { for l in 0..numLeft }`, each an integer or `panic` (overflow checks on).

(3) `DUAL <right hex> <left hex> <cost hex> <s> <idx>{s}` (also `DUALFIX`)
    Like (2) for `DualConnector`, with the raw template indices chosen by the greedy search
    given explicitly (the choice is hash-order dependent in Rust; for every valid choice the
    costs agree whenever the pre-summed part fits `i16`).

Malformed request: `bad-input`.

`parseCsvRowProvisional` is a PROVISIONAL stand-in for `utils::parse_csv_row` (csv-core):
unquoted cells split at `,`; a cell starting with `"` runs to the closing quote, `""` inside is a
quote; a row ending in `,` yields two empty cells (observed csv-core behaviour);
no handling of `\r`/`\n` inside rows and no 4096-byte buffer limit.  To be replaced by
the csv-core port.
-/
namespace Vibrato.Driver.Scorer
open Vibrato.Wire Vibrato.Scorer Vibrato.RawConnector

/-- PROVISIONAL csv row splitter (see the header). -/
def csvLoop : List Char → Nat → List Char → List (List Char) → List (List Char)
  -- mode 0: start of field, 1: unquoted, 2: inside quotes, 3: just after a quote inside quotes
  | [], mode, cur, acc =>
    -- csv-core quirk reproduced by `parse_csv_row`: a row ending in `,` yields TWO empty
    -- cells (the flushed empty field and the `End` result are both pushed).
    if mode = 0 ∧ !acc.isEmpty then ([] :: [] :: acc).reverse else (cur.reverse :: acc).reverse
  | c :: rest, mode, cur, acc =>
    if mode = 0 then
      if c = '"' then csvLoop rest 2 cur acc
      else if c = ',' then csvLoop rest 0 [] (cur.reverse :: acc)
      else csvLoop rest 1 (c :: cur) acc
    else if mode = 1 then
      if c = ',' then csvLoop rest 0 [] (cur.reverse :: acc)
      else csvLoop rest 1 (c :: cur) acc
    else if mode = 2 then
      if c = '"' then csvLoop rest 3 cur acc
      else csvLoop rest 2 (c :: cur) acc
    else
      if c = '"' then csvLoop rest 2 (c :: cur) acc
      else if c = ',' then csvLoop rest 0 [] (cur.reverse :: acc)
      else csvLoop rest 1 (c :: cur) acc

def parseCsvRowProvisional (s : Str) : Outcome (List Str) := .ok (csvLoop s 0 [] [])

def showO (o : Outcome Int) : String :=
  match o with
  | .ok c => toString c
  | .err => "err"
  | .panic => "panic"

def showList {α : Type} (name : String) (f : α → String) (l : List α) : String :=
  String.intercalate " " ((name :: toString l.length :: l.map f))

def parseTriples : List (List String) → Option (List (Nat × Nat × Int))
  | [] => some []
  | [a, b, c] :: rest => do
    let a ← natOf a; let b ← natOf b; let c ← intOf c
    let r ← parseTriples rest
    pure ((a, b, c) :: r)
  | _ => none

def parsePairs : List (List String) → Option (List (Nat × Nat))
  | [] => some []
  | [a, b] :: rest => do
    let a ← natOf a; let b ← natOf b
    let r ← parsePairs rest
    pure ((a, b) :: r)
  | _ => none

def handleScorer (toks : List String) : Option String := do
  let (tri, rest) ← takeGroups 3 toks
  let es ← parseTriples tri
  match rest with
  | "QUERIES" :: rest =>
    let (qs, rest) ← takeGroups 2 rest
    let qs ← parsePairs qs
    match buildChecked (ofEntries es) with
    | .ok s =>
      let answers := qs.map fun q =>
        match retrieve s q.1 q.2 with
        | .ok (some c) => toString c
        | .ok none => "none"
        | _ => "panic"
      let base := String.intercalate " " [showList "bases" toString s.bases,
        showList "checks" toString s.checks, showList "costs" toString s.costs,
        showList "answers" id answers]
      match rest with
      | [] => pure base
      | "ACC" :: rest =>
        let (ps, rest) ← takeGroups 2 rest
        let ps ← parsePairs ps
        if rest ≠ [] then none else
        -- repaired `to_simd_vec`: missing lanes are filled with the invalid id (U31::MAX)
        let k1 := toSimdVecPad 2147483647 ps.length (ps.map (·.1))
        let k2 := toSimdVecPad 2147483647 ps.length (ps.map (·.2))
        pure (base ++ " acc " ++ showO (accumulate true s k1 k2) ++
          " accavx2 " ++ showO (accumulateAvx2 true s k1 k2))
      | _ => none
    | _ => pure "panic"
  | _ => none

def costsTable (numR numL : Nat) (cost : Nat → Nat → Outcome Int) : String :=
  String.intercalate " " ("ok" :: toString numR :: toString numL ::
    (List.range numR).flatMap fun r => (List.range numL).map fun l => showO (cost r l))

def handleRaw (fixed : Bool) (toks : List String) : Option String := do
  match toks with
  | [r, l, c] =>
    let r ← bytesOfHex r; let l ← bytesOfHex l; let c ← bytesOfHex c
    match fromReaders fixed parseCsvRowProvisional (readLines r) (readLines l) (readLines c) with
    | .ok conn =>
      pure (costsTable (numIds conn.rightFeatIds conn.fts) (numIds conn.leftFeatIds conn.fts)
        (rawCost true conn))
    | .err => pure "err"
    | .panic => pure "panic"
  | _ => none

def parseNats : List String → Option (List Nat)
  | [] => some []
  | a :: rest => do
    let a ← natOf a
    let r ← parseNats rest
    pure (a :: r)

def handleDual (fixed : Bool) (toks : List String) : Option String := do
  match toks with
  | r :: l :: c :: s :: idxs =>
    let r ← bytesOfHex r; let l ← bytesOfHex l; let c ← bytesOfHex c
    let s ← natOf s
    let split ← parseNats idxs
    if split.length ≠ s then none else
    match DualConnector.fromReaders fixed true parseCsvRowProvisional split
        (readLines r) (readLines l) (readLines c) with
    | .ok conn =>
      pure (costsTable (DualConnector.numRight conn) (DualConnector.numLeft conn)
        (DualConnector.dualCost true conn))
    | .err => pure "err"
    | .panic => pure "panic"
  | _ => none

def handle (toks : List String) : String :=
  let r :=
    match toks with
    | "SCORER" :: rest => handleScorer rest
    | "RAW" :: rest => handleRaw false rest
    | "RAWFIX" :: rest => handleRaw true rest
    | "DUAL" :: rest => handleDual false rest
    | "DUALFIX" :: rest => handleDual true rest
    | _ => none
  r.getD "bad-input"

end Vibrato.Driver.Scorer
