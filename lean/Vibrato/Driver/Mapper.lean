/-
Line-protocol driver for the id-mapping model (`Vibrato/Model/Mapper.lean`), streams for C06
(id-mapping part) and C13 (statistics part).  Mathlib-free.

`handle toks` receives the tokens of one line AFTER the stream name and the case id.  All numbers
are decimal; a counted list is `n` followed by `n` items; a parameter is three tokens
`left right cost`.  The answer is one line without newlines.  Malformed input → `bad-input`.

  PARSE <n> id_1 … id_n
      `ConnIdMapper::parse` on the iterator `id_1 … id_n` (each `< 65536`).
      → `err` | `ok <n+1> σ_0 … σ_n`            (never `panic`)
      Harness: no public entry point for `parse` alone; observe through
      `Dictionary::map_connection_ids_from_iter` on a matrix dictionary with `n+1` ids and a
      lexicon that uses id 0 only (see MATMAP), or add a hook
      `pub fn verif_parse_map(ids: Vec<u16>) -> Option<Vec<u16>>` calling `ConnIdMapper::parse`.

  PROBS <nl> c_0 … c_{nl-1} <nr> c_0 … c_{nr-1}
      `ConnIdCounter::compute_probs` on `lid_count`, `rid_count`; ids only.
      → `panic` | `ok <kl> lid… <kr> rid…`       (`kl = nl-1`, `kr = nr-1`)
      Harness: `Worker::compute_connid_probs()` (first components of the pairs) after a history
      that produced these counts, or a hook constructing `ConnIdCounter` with the given counts.

  MATMAP <numRight> <numLeft> <nd> d_0 … d_{nd-1} <nl> lmap… <nr> rmap…
      A matrix connector with `data` (`data[l*numRight + r]` = cost(r,l)), then
      `ConnIdMapper::from_iter(lmap, rmap)` and `MatrixConnector::map_connection_ids`.
      → `err` (an iterator is rejected) | `panic` | `ok <nd> d'_0 … d'_{nd-1}`
      Harness: build a dictionary from `matrix.def` with these cells whose lexicon / unk entries
      use connection id 0 only (so that no lexicon index can panic first), call
      `map_connection_ids_from_iter(lmap, rmap)` under `catch_unwind`, print `Err`/panic, or the
      cells `verif_conn_cost(r, l)` in the order `l` outer, `r` inner.

  HIST <fixed:0|1|2> <numRight> <numLeft> <nd> data… <ns> sysparams… <nk> unkparams… <nops> op…
      op ::= `M <nl> lmap… <nr> rmap…`  map_connection_ids_from_iter
           | `U <nu> params…`            reset_user_lexicon_from_reader(Some(csv with these ids))
           | `C`                         reset_user_lexicon_from_reader(None)
      Runs the history on a matrix dictionary (no user lexicon, no stored mapper);
      `fixed = 0`: pinned tree, `fixed = 1`: with the F2/F3 repairs, `fixed = 2`: additionally
      the user lexicon's ids are verified before being translated (`Dict.loadUserChecked`).
      → `err <k>` | `panic <k>` (`k` = 0-based index of the failing op) |
        `ok <nd> data… <ns> sys… <nk> unk… U <none | n params…> S <none | nl left… nr right…>`
      Harness: data through `verif_conn_cost`, parameters through `word_param` of every word /
      unknown entry (or the written image), stored mapper through the written image.
-/
import Vibrato.Util.Wire
import Vibrato.Model.Mapper

namespace Vibrato.Driver.Mapper
open Vibrato.Mapper

/-- Take `n` naturals. -/
def takeNats : Nat → List String → Option (List Nat × List String)
  | 0, r => some ([], r)
  | n + 1, t :: r => do
    let x ← Wire.natOf t
    let (xs, r') ← takeNats n r
    pure (x :: xs, r')
  | _ + 1, [] => none

def takeInts : Nat → List String → Option (List Int × List String)
  | 0, r => some ([], r)
  | n + 1, t :: r => do
    let x ← Wire.intOf t
    let (xs, r') ← takeInts n r
    pure (x :: xs, r')
  | _ + 1, [] => none

/-- Counted list of naturals. -/
def natList : List String → Option (List Nat × List String)
  | [] => none
  | n :: r => do
    let n ← Wire.natOf n
    takeNats n r

def intList : List String → Option (List Int × List String)
  | [] => none
  | n :: r => do
    let n ← Wire.natOf n
    takeInts n r

def takeParams : Nat → List String → Option (List Param × List String)
  | 0, r => some ([], r)
  | n + 1, a :: b :: c :: r => do
    let l ← Wire.natOf a
    let rr ← Wire.natOf b
    let k ← Wire.intOf c
    let (ps, r') ← takeParams n r
    pure (⟨l, rr, k⟩ :: ps, r')
  | _ + 1, _ => none

def paramList : List String → Option (List Param × List String)
  | [] => none
  | n :: r => do
    let n ← Wire.natOf n
    takeParams n r

def showNats (xs : List Nat) : String :=
  toString xs.length ++ String.join (xs.map fun x => " " ++ toString x)

def showInts (xs : List Int) : String :=
  toString xs.length ++ String.join (xs.map fun x => " " ++ toString x)

def showParams (ps : List Param) : String :=
  toString ps.length ++
    String.join (ps.map fun p => " " ++ toString p.left ++ " " ++ toString p.right ++ " " ++ toString p.cost)

def handleParse (toks : List String) : String :=
  match natList toks with
  | some (ids, []) =>
    match parseMap ids with
    | .ok σ => "ok " ++ showNats σ
    | .err => "err"
    | .panic => "panic"
  | _ => "bad-input"

def handleProbs (toks : List String) : String :=
  match natList toks with
  | some (lc, rest) =>
    match natList rest with
    | some (rc, []) =>
      match computeProbs lc rc with
      | .ok (l, r) => "ok " ++ showNats l ++ " " ++ showNats r
      | .err => "err"
      | .panic => "panic"
    | _ => "bad-input"
  | none => "bad-input"

def handleMatmap (toks : List String) : String :=
  match toks with
  | nr :: nl :: rest =>
    match Wire.natOf nr, Wire.natOf nl, intList rest with
    | some nr, some nl, some (data, rest) =>
      match natList rest with
      | some (lmap, rest) =>
        match natList rest with
        | some (rmap, []) =>
          match (Mapper.fromIter lmap rmap).andThen fun m => (Matrix.mk data nr nl).map m with
          | .ok c => "ok " ++ showInts c.data
          | .err => "err"
          | .panic => "panic"
        | _ => "bad-input"
      | none => "bad-input"
    | _, _, _ => "bad-input"
  | _ => "bad-input"

/-- Parse `nops` operations. -/
def takeOps : Nat → List String → Option (List Op × List String)
  | 0, r => some ([], r)
  | n + 1, "M" :: r => do
    let (l, r) ← natList r
    let (rm, r) ← natList r
    let (ops, r) ← takeOps n r
    pure (.map l rm :: ops, r)
  | n + 1, "U" :: r => do
    let (u, r) ← paramList r
    let (ops, r) ← takeOps n r
    pure (.loadUser u :: ops, r)
  | n + 1, "C" :: r => do
    let (ops, r) ← takeOps n r
    pure (.clearUser :: ops, r)
  | _ + 1, _ => none

/-- Run a history, reporting the index of the first failing operation. -/
def runIdx (fixed : Bool) (checked : Bool) : Dict → List Op → Nat → Sum (String) Dict
  | D, [], _ => .inr D
  | D, op :: ops, k =>
    let res := match checked, op with
      | true, .loadUser u => D.loadUserChecked u
      | _, _ => D.step fixed op
    match res with
    | .ok D' => runIdx fixed checked D' ops (k + 1)
    | .err => .inl ("err " ++ toString k)
    | .panic => .inl ("panic " ++ toString k)

def showDict (D : Dict) : String :=
  let data := match D.conn with
    | .matrix c => showInts c.data
    | _ => "0"
  let user := match D.userParams with
    | none => "none"
    | some u => showParams u
  let stored := match D.stored with
    | none => "none"
    | some m => showNats m.left ++ " " ++ showNats m.right
  "ok " ++ data ++ " " ++ showParams D.sysParams ++ " " ++ showParams D.unkParams ++
    " U " ++ user ++ " S " ++ stored

def handleHist (toks : List String) : String :=
  match toks with
  | fx :: nr :: nl :: rest =>
    match Wire.natOf fx, Wire.natOf nr, Wire.natOf nl, intList rest with
    | some fx, some nr, some nl, some (data, rest) =>
      match paramList rest with
      | some (sys, rest) =>
        match paramList rest with
        | some (unk, nops :: rest) =>
          match Wire.natOf nops with
          | some nops =>
            match takeOps nops rest with
            | some (ops, []) =>
              let D : Dict := ⟨sys, none, .matrix ⟨data, nr, nl⟩, unk, none⟩
              match runIdx (fx != 0) (fx == 2) D ops 0 with
              | .inl s => s
              | .inr D' => showDict D'
            | _ => "bad-input"
          | none => "bad-input"
        | _ => "bad-input"
      | none => "bad-input"
    | _, _, _, _ => "bad-input"
  | _ => "bad-input"

/-- Entry point: first token selects the operation. -/
def handle (toks : List String) : String :=
  match toks with
  | "PARSE" :: r => handleParse r
  | "PROBS" :: r => handleProbs r
  | "MATMAP" :: r => handleMatmap r
  | "HIST" :: r => handleHist r
  | _ => "bad-input"

end Vibrato.Driver.Mapper
