/-
Driver glue for the streams `conn` and `scorer` (property C07), on top of the connector
models (`Model/{Scorer,RawConnector,DualConnector}.lean`) and of the faithful port of
`utils::parse_csv_row` (`Model/LexCsv.lean`).

`conn <id> KIND <1|2> <bigram.right> <bigram.left> <bigram.cost>`:
  MODEL = `err | panic | ok <numRight> <numLeft> <cost(r,l)…>` computed by the raw-connector model
  (for KIND 2, the dual connector, the same table is expected: `dual_eq_raw_of_fits` with zero
  excess on the repaired tree; all generated costs are far inside `i16`);
  SPEC  = the defining feature-pair sum of the property (`defSum`) for every id pair — the
  property predicate is `implementation observation = SPEC`.
No Mathlib imports.
-/
import Vibrato.Driver.Scorer
import Vibrato.Proofs.RawConnector
import Vibrato.Model.LexCsv

namespace Vibrato.Driver.Conn
open Vibrato.Wire Vibrato.Scorer Vibrato.RawConnector

/-- `utils::parse_csv_row` through the csv-core port (repaired tree of finding F18). -/
def csvRow (s : Str) : Outcome (List Str) :=
  match Vibrato.LexCsv.parseCsvRow true (String.ofList s) with
  | .ok cells => .ok (cells.map String.toList)
  | .err => .err
  | .panic => .panic

def table (nr nl : Nat) (f : Nat → Nat → String) : String :=
  s!"ok {nr} {nl}" ++ String.join ((List.range nr).flatMap fun r => (List.range nl).map fun l => " " ++ f r l)

/-- the raw connector model's cost table -/
def model (fixed : Bool) (right left cost : List UInt8) : String :=
  match fromReaders fixed csvRow (readLines right) (readLines left) (readLines cost) with
  | .ok conn =>
    table (numIds conn.rightFeatIds conn.fts) (numIds conn.leftFeatIds conn.fts) fun r l =>
      match rawCost true conn r l with
      | .ok c => toString c
      | .err => "err"
      | .panic => "panic"
  | .err => "err"
  | .panic => "panic"

/-- the defining sum of the property for every pair (`n/a` when the files do not parse) -/
def spec (right left cost : List UInt8) : String :=
  match costEntries (readLines cost), featLines csvRow (readLines right) 0, featLines csvRow (readLines left) 0 with
  | some es, some rfs, some lfs =>
    table (rfs.length + 1) (lfs.length + 1) fun r l => toString (defSum es rfs lfs r l)
  | _, _, _ => "n/a"

def handle (fixed : Bool) (toks : List String) (impl : String) : String :=
  match toks with
  | ["KIND", _, r, l, c] =>
    match bytesOfHex r, bytesOfHex l, bytesOfHex c with
    | some r, some l, some c =>
      let sp := spec r l c
      let p := if sp == "n/a" || !(impl.startsWith "ok") then "n/a" else if sp == impl then "1" else "0"
      model fixed r l c ++ " P C07=" ++ p
    | _, _, _ => "bad-input"
  | _ => "bad-input"

/-- `scorer` stream: the model prints both accumulations; the portable implementation reports `acc` -/
def handleScorer (toks : List String) : String :=
  let out := Vibrato.Driver.Scorer.handle toks
  -- drop the trailing ` accavx2 <v>` (compared separately) and report whether both paths agree
  let ws := (out.splitOn " ").filter (· ≠ "")
  match ws.reverse with
  | v2 :: "accavx2" :: rest =>
    let v1 := rest.headD "?"
    " ".intercalate rest.reverse ++ " P AVX2EQ=" ++ (if v1 == v2 then "1" else "0")
  | _ => out

end Vibrato.Driver.Conn
