/-
Model driver for stream `rewrite` (property C17).  Mathlib-free.

Input line (tokens after the stream name and the case id), one of

  RULES <n> (<k_pat> <pat cell>*k_pat <k_rew> <rew cell>*k_rew)*n FEATS <m> <cell>*m FIXED <0|1>
  SPEC RULES <n> (...)*n FEATS <m> <cell>*m
  SAMETRIE RULES <n> (...)*n FEATS <m> <cell>*m
  LINE <line>
  CONFIG <n> <line>*n

Every cell / line is the lower-case hex of its UTF-8 bytes, `-` for the empty string; counts are
decimal.  `FIXED 0` = edge-reuse policy of the pinned tree (reuse any equal edge), `FIXED 1` =
repaired policy (reuse only the node's last action).  The harness picks the value that the
current source uses (it can tell from the observation of the probe case
`RULES 3 2 2a 78 1 31 2 61 79 1 32 2 2a 79 1 33 FEATS 2 61 79`, which is `some 1 33` on the
pinned tree and `some 1 32` with the repair).

Observation for `RULES ...` = what `verif_rewrite(rules, feats)` returns, i.e.
`FeatureRewriterBuilder::new()`, `add_rule(pattern, rewrite)` for every rule in order,
`FeatureRewriter::from(builder).rewrite(feats)`, under `catch_unwind`:

  none                      `None`
  some <m> <cell>*m         `Some(vec)` (cells hex as above)
  panic                     a panic (`$0`, `$n` with n > usize::MAX)
  hang                      never printed by the model (`rewrite_ne_hang`); the harness prints it
                            when its per-case time cap fires
  badinput                  the line could not be parsed (harness/driver bug)

`SPEC RULES ...` prints, in the same format, the outcome REQUIRED by the property (first
registered matching rule, `none` if no rule matches, `panic` iff some rewrite cell is `$0` or
`$n` with n > usize::MAX): the verdict `P(input, implementation observation)` is
`implementation observation == SPEC observation`.

`SAMETRIE RULES ...` prints `1` when both edge-reuse policies build the same trie for the rule
list (then the pinned implementation is guaranteed to meet the specification,
`rewrite_first_match_pinned_of_same_trie_partial`; every rule list satisfying `NoInterleaving`
is of this kind), else `0` (diagnostic / coverage counter, not an observation of the code).

`LINE <line>` = `TrainerConfig::parse_rewrite_rule(line)`:
  err | ok <k_pat> <pat cell>*k_pat <k_rew> <rew cell>*k_rew
`CONFIG <n> <line>*n` = the rule lists `parse_rewrite_config` registers for the three builders
(lines as produced by `BufRead::lines`):
  err | ok U <n> (<k_pat> .. <k_rew> ..)*n L <n> (..)*n R <n> (..)*n
-/
import Vibrato.Util.Wire
import Vibrato.Model.Rewriter
import Vibrato.Model.RewriterSpec

namespace Vibrato.Driver.Rewriter
open Vibrato.Wire Vibrato.Rewriter

def strOfHex (t : String) : Option Str := (stringOfHex t).map String.toList

def hexOfStr (s : Str) : String := hexOfString (String.ofList s)

/-- Take `k` hex cells. -/
def takeCells : Nat → List String → Option (List Str × List String)
  | 0, ts => some ([], ts)
  | _ + 1, [] => none
  | k + 1, t :: ts => do
    let c ← strOfHex t
    let (cs, rest) ← takeCells k ts
    pure (c :: cs, rest)

/-- Take a counted cell list `<k> <cell>*k`. -/
def takeCounted : List String → Option (List Str × List String)
  | [] => none
  | k :: ts => do
    let k ← natOf k
    takeCells k ts

def takeRules : Nat → List String → Option (List RawRule × List String)
  | 0, ts => some ([], ts)
  | n + 1, ts => do
    let (pat, ts) ← takeCounted ts
    let (rew, ts) ← takeCounted ts
    let (rs, ts) ← takeRules n ts
    pure ((pat, rew) :: rs, ts)

def printCells (cs : List Str) : String :=
  String.intercalate " " (toString cs.length :: cs.map hexOfStr)

def printOutcome : Outcome (Option (List Str)) → String
  | .ok none => "none"
  | .ok (some out) => "some " ++ printCells out
  | .panic => "panic"
  | .hang => "hang"
  | .err => "err"

def printRule (r : RawRule) : String := printCells r.1 ++ " " ++ printCells r.2

def printRules (tag : String) (rs : List RawRule) : String :=
  String.intercalate " " (tag :: toString rs.length :: rs.map printRule)

/-- Parse `RULES <n> ... FEATS <m> ...`, returning the remaining tokens. -/
def takeCase : List String → Option (List RawRule × List Str × List String)
  | "RULES" :: n :: ts => do
    let n ← natOf n
    let (rules, ts) ← takeRules n ts
    match ts with
    | "FEATS" :: ts => do
      let (f, ts) ← takeCounted ts
      pure (rules, f, ts)
    | _ => none
  | _ => none

def handle (toks : List String) : String :=
  match toks with
  | "SPEC" :: ts =>
    (match takeCase ts with
     | some (rules, f, []) => printOutcome (specOutcome rules f)
     | _ => "badinput")
  | "SAMETRIE" :: ts =>
    (match takeCase ts with
     | some (rules, _, []) => if build false rules = build true rules then "1" else "0"
     | _ => "badinput")
  | "LINE" :: [l] =>
    (match strOfHex l with
     | none => "badinput"
     | some line =>
       match parseRewriteRule line with
       | none => "err"
       | some r => "ok " ++ printRule r)
  | "CONFIG" :: ts =>
    (match takeCounted ts with
     | some (lines, []) =>
       (match parseRewriteConfig lines none {} with
        | none => "err"
        | some cfg => "ok " ++ printRules "U" cfg.unigram ++ " " ++ printRules "L" cfg.left
            ++ " " ++ printRules "R" cfg.right)
     | _ => "badinput")
  | _ =>
    match takeCase toks with
    | some (rules, f, ["FIXED", b]) =>
      if b = "0" then printOutcome (buildAndRewrite false rules f)
      else if b = "1" then printOutcome (buildAndRewrite true rules f)
      else "badinput"
    | _ => "badinput"

end Vibrato.Driver.Rewriter
