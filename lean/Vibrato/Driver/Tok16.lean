/-
Lattice-level cases at the width limit of `Node.min_idx` (`u16`), stream `tok u16` of the harness.

Line: `tok16 <id> <rows> <cheap> IMPL <obs> ## …` — the real tokenizer on a matrix dictionary whose
lexicon is `rows` homographs of `a` (ids 0, connection costs 0, word cost 100 except row `cheap`: 1)
followed by the word `b` (cost 5), sentence `ab`; `<obs>` is the token observation of the `tok` stream
(`W2 ok <n> (<start> <end> <bstart> <bend> <surface> <lextype> <wordid> <left> <right> <wcost> <total> <feature>)*`).

The model side builds the lattice environment of that dictionary directly (the dictionary builders are the
business of the other streams; a 65 537-row lexicon through the CSV model is quadratic) and runs
`buildLattice16`, the construction with `u16` back pointers (`Model/LatticeW.lean`).  Answer:
`<same observation format> P C02=<0|1> IDX16=<0|1>` where `C02` is the property predicate on the
IMPLEMENTATION's tokens (every `total_cost` is the accumulated cost of the reported tokens and the last one
equals the minimum, which by `C02u16.buildLatticeW_costs` is the EOS cost of either construction) and
`IDX16` is `idxExact 65536` (`C02u16.idxExact_eq`: then the construction equals the exact-index model).
No Mathlib imports.
-/
import Vibrato.Util.Wire
import Vibrato.Model.LatticeW
import Vibrato.Model.Chain
import Vibrato.Driver.Tok

namespace Vibrato.Driver.Tok16
open Vibrato Vibrato.Wire Vibrato.Driver.Tok

def floodEnv (rows cheap : Nat) : LatEnv :=
  { len := 2
    conn := fun _ _ => 0
    skip := fun _ => 0
    cands := fun p =>
      if p = 0 then
        (List.range rows).map fun i =>
          { endWord := 1, wordId := i, lexType := 0, leftId := 0, rightId := 0,
            wordCost := if i = cheap then 1 else 100 }
      else if p = 1 then
        [{ endWord := 2, wordId := rows, lexType := 0, leftId := 0, rightId := 0, wordCost := 5 }]
      else [] }

def tokStr (rows : Nat) (t : Vibrato.Tok) : String :=
  let n := t.node
  let (surface, feature) :=
    if n.wordId < rows then ("a", s!"r{n.wordId}") else ("b", "B")
  s!"{t.startWord} {t.endWord} {t.startWord} {t.endWord} {hexOfString surface} {n.lexType} {n.wordId} " ++
    s!"{n.leftId} {n.rightId} {n.wordCost} {n.minCost} {hexOfString feature}"

def handle (toks : List String) : String :=
  match toks with
  | rows :: cheap :: "IMPL" :: impl =>
    match natOf rows, natOf cheap with
    | some rows, some cheap =>
      let Lt := buildLattice16 (floodEnv rows cheap)
      let obs := match tokensOf Lt with
        | none => "W1 panic"
        | some ts => s!"W2 ok {ts.length}" ++ String.join (ts.map fun t => " " ++ tokStr rows t)
      let impl := impl.takeWhile (· ≠ "##")
      let p := match impl with
        | "W2" :: rest =>
          match parseITokens rest with
          | some its =>
            let rec acc : Int → List ITok → Option Int
              | c, [] => some c
              | c, t :: r => if t.total == c + t.wcost then acc t.total r else none
            (match acc 0 its with
             | some c => if c == Lt.eos.minCost then "1" else "0"
             | none => "0")
          | none => "0"
        | _ => "0"
      s!"{obs} P C02={p} IDX16={if idxExact 65536 Lt then "1" else "0"}"
    | _, _ => "badinput"
  | _ => "badinput"

/-! ### Chain sentences (stream `tokchain`)

One word `a` (word cost `w`), one connection cost `c`: the lattice of `a`×`n` has exactly one path, and token `i` carries the
accumulated cost `(i+1)·(w+c)`.  The driver answers `tokchain` lines with this closed form (the list-based lattice model is
quadratic in the sentence length, and the cases have 30 000 – 65 000 characters); the `#guard`s below evaluate the lattice
model itself on short chains and compare it with the closed form (tests, labelled as such); the closed form itself is the theorem `chain_tokens` of
`Props/C02chain.lean` (every node stored at boundary `e` of a chain lattice has `min_cost = e·(w+c)`). -/

def chainClosed (n : Nat) (w c : Int) : List Int := (List.range n).map fun (i : Nat) => (Int.ofNat i + 1) * (w + c)

def chainModel (n : Nat) (w c : Int) : Option (List Int) :=
  (tokensOf (buildLattice16 (chainEnv n w c))).map fun ts => ts.map (·.node.minCost)

#guard chainModel 40 32767 1 == some (chainClosed 40 32767 1)
#guard chainModel 25 (-32768) (-300) == some (chainClosed 25 (-32768) (-300))
#guard chainModel 12 5 (-7) == some (chainClosed 12 5 (-7))
#guard chainModel 1 0 0 == some [0]

end Vibrato.Driver.Tok16
