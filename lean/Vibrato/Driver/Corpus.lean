/-
Model driver for the corpus text format (property C19).  Mathlib-free.

`handle toks` receives the tokens of one protocol line after the stream name and the case
id.  Byte strings are lower-case hex, `-` is the empty byte string, numbers are decimal
(`Vibrato.Util.Wire`).  The first token is a verb.

Input lines
-----------
  parse <corpus>                 `Corpus::from_reader(&corpus[..])` on the pinned tree
  parsefixed <corpus>            the same for the repaired reader (`parseCorpusWith true`):
                                 a one-tab line whose feature still ends in `\r` is an error
  mecab <k> (<surface> <feature>){k}
                                 the `-O mecab` printing loop of `tokenize/src/main.rs` for one
                                 input line whose `k` tokens are the given (surface, feature)
                                 pairs, followed by `Corpus::from_reader` on that output

  <corpus>, <surface>, <feature> are hex byte strings (`<corpus>` may be arbitrary bytes,
  including malformed UTF-8; surfaces and features are Rust `str`s, i.e. valid UTF-8).

Canonical observation (one line, no line breaks)
------------------------------------------------
  OBS ::= err                                          from_reader returned Err(_)
        | panic                                        from_reader panicked (never, by model)
        | ok <n> EX{n} REWRITE <text>
  EX  ::= <k> (<surface> <feature>){k}                 example.tokens(): Word::surface(), Word::feature()
  <text> = hex of the concatenation, in corpus order, of what `Example::write` emits for each
           of the `n` examples (`-` when there is none)

  parse / parsefixed  answer  OBS
  mecab               answers OUT <printed bytes> PARSE OBS      (OBS for the pinned reader)

  malformed protocol line: `badinput`

Rust side (public API only, no hook): `vibrato::trainer::Corpus::from_reader`, deref to
`[Example]`, `Example::tokens`, `Word::{surface, feature}`, `Example::write` into a `Vec<u8>`.
For `mecab` the harness replicates the five `write_all` calls of the CLI loop on the pairs.
-/
import Vibrato.Util.Wire
import Vibrato.Model.Corpus

namespace Vibrato.Driver.Corpus
open Vibrato.Wire Vibrato.Corpus

def showWord (w : Word) : String :=
  hexOfBytes w.surface ++ " " ++ hexOfBytes w.feature

def showExample (e : Example) : String :=
  e.tokens.foldl (fun acc w => acc ++ " " ++ showWord w) (toString e.tokens.length)

def showOutcome : Outcome (List Example) → String
  | .err => "err"
  | .panic => "panic"
  | .ok exs =>
    exs.foldl (fun acc e => acc ++ " " ++ showExample e) ("ok " ++ toString exs.length)
      ++ " REWRITE " ++ hexOfBytes (writeCorpus exs)

/-- Decode `(<surface> <feature>)*` groups. -/
def wordsOfGroups : List (List String) → Option (List Word)
  | [] => some []
  | [s, f] :: rest => do
    let s ← bytesOfHex s
    let f ← bytesOfHex f
    let ws ← wordsOfGroups rest
    pure (⟨s, f⟩ :: ws)
  | _ => none

def handle (toks : List String) : String :=
  match toks with
  | ["parse", h] =>
    match bytesOfHex h with
    | some b => showOutcome (parseCorpus b)
    | none => "badinput"
  | ["parsefixed", h] =>
    match bytesOfHex h with
    | some b => showOutcome (parseCorpusWith true b)
    | none => "badinput"
  | "mecab" :: rest =>
    match takeGroups 2 rest with
    | some (groups, []) =>
      match wordsOfGroups groups with
      | some ws =>
        let out := mecabOutput ws
        "OUT " ++ hexOfBytes out ++ " PARSE " ++ showOutcome (parseCorpus out)
      | none => "badinput"
    | _ => "badinput"
  | _ => "badinput"

end Vibrato.Driver.Corpus
