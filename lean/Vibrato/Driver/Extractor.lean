/-
Model driver for stream `extract` (properties C18, C20).  Mathlib-free.

Input line (tokens after the stream name and the case id), one of

  EXPAND <U|L|R> <template> <cate id> <m> <cell>*m
  SESSION UNI <k> <template>*k BI <k> (<left template> <right template>)*k
          CALLS <n> (<U|L|R> <cate id> <m> <cell>*m)*n
  FEATSET UNI <k> <template>*k BI <k> (<left> <right>)*k
          RW <nU> (<k_pat> <pat>*k_pat <k_rew> <rew>*k_rew)*nU <nL> (..)*nL <nR> (..)*nR
          ROWS <n> (<cate id> <feature string>)*n
  FEATCFG <feature.def> <cate id> <m> <cell>*m
  MECAB <feature.def> <right-id.def> <left-id.def> <model.def> <cost_factor: u64 bits, decimal> [FIXED 1]

Templates, cells, feature strings are the lower-case hex of their UTF-8 bytes, files the hex of
their bytes, `-` = empty; counts and ids decimal.

Observations (what the Rust hooks return, under `catch_unwind`):

EXPAND  = `FeatureExtractor::new` with the single template (as the only unigram template for `U`,
          as the left / right side of the only bigram pair for `L` / `R`, the other side empty),
          one extraction call, the string interned for the returned id:
            none | some <hex> | panic
SESSION = `new(unigram, bigram)` then the calls in order:
            panic | ok <n> (<len> (<id>|-)*len)*n U <c> (<hex> <id>)*c L <c> (..)*c R <c> (..)*c
          per call the returned id list (`-` = `None`; a `U` call returns the flattened list),
          then the three maps sorted by id.
FEATSET = `Trainer::extract_feature_set` on every row in order with rewriters built from the
          rule lists (pinned edge-reuse policy unless the line ends with `FIXED 1`):
            panic | ok <n> (U <len> <id>*len R <len> (<id>|-)*len L <len> (<id>|-)*len)*n
                       U <c> (<hex> <id>)*c L <c> (..)*c R <c> (..)*c
          (`R` = `bigram_right` = result of the RIGHT templates, `L` = left templates).
FEATCFG = `TrainerConfig::parse_feature_config(file)`, then one unigram, one left, one right
          extraction with the cells, then the three maps sorted by id:
            err | panic | ok U <c> (<hex> <id>)*c L <c> (..)*c R <c> (..)*c
MECAB   = `vibrato::mecab::generate_bigram_info` into three `Vec<u8>` (`FIXED 1`: the repaired
          code that rejects an id file without id 0, finding F12; default = pinned tree):
            err | panic | ok <bigram.right hex> <bigram.left hex> <bigram.cost hex>
`badinput` = the line could not be parsed (harness/driver bug).
-/
import Vibrato.Util.Wire
import Vibrato.Model.Extractor
import Vibrato.Model.Mecab

namespace Vibrato.Driver.Extractor
open Vibrato Vibrato.Wire Vibrato.Extractor

def strOfHex (t : String) : Option Str := (stringOfHex t).map String.toList
def hexOfStr (s : Str) : String := hexOfString (String.ofList s)

def takeCells : Nat → List String → Option (List Str × List String)
  | 0, ts => some ([], ts)
  | _ + 1, [] => none
  | n + 1, t :: ts => do
    let c ← strOfHex t
    let (cs, rest) ← takeCells n ts
    pure (c :: cs, rest)

def takeCounted (ts : List String) : Option (List Str × List String) :=
  match ts with
  | [] => none
  | n :: rest => do
    let n ← n.toNat?
    takeCells n rest

def kindOf (s : String) : Option Kind :=
  if s = "U" then some .U else if s = "L" then some .L else if s = "R" then some .R else none

def pairUp : List Str → List (Str × Str)
  | a :: b :: rest => (a, b) :: pairUp rest
  | _ => []

def showIds (ids : List (Option Nat)) : String :=
  " ".intercalate (toString ids.length :: ids.map fun
    | some i => toString i
    | none => "-")

def insertSorted (e : Str × Nat) : List (Str × Nat) → List (Str × Nat)
  | [] => [e]
  | x :: xs => if e.2 ≤ x.2 then e :: x :: xs else x :: insertSorted e xs

def showMap (tag : String) (m : IdMap) : String :=
  let sorted := m.foldr insertSorted []
  " ".intercalate (tag :: toString m.length ::
    sorted.flatMap fun (s, i) => [hexOfStr s, toString i])

def showMaps (st : ExtractorState) : String :=
  s!"{showMap "U" st.uni} {showMap "L" st.left} {showMap "R" st.right}"

/-- `UNI <k> <t>*k BI <k> (<l> <r>)*k` -/
def takeTemplates (ts : List String) : Option (List Str × List (Str × Str) × List String) :=
  match ts with
  | "UNI" :: rest => do
    let (u, rest) ← takeCounted rest
    match rest with
    | "BI" :: k :: rest => do
      let k ← k.toNat?
      let (cs, rest) ← takeCells (2 * k) rest
      pure (u, pairUp cs, rest)
    | _ => none
  | _ => none

structure Call where
  kind : Kind
  cate : Nat
  cells : List Str

def takeCalls : Nat → List String → Option (List Call × List String)
  | 0, ts => some ([], ts)
  | n + 1, k :: cate :: rest => do
    let k ← kindOf k
    let cate ← cate.toNat?
    let (cells, rest) ← takeCounted rest
    let (cs, rest) ← takeCalls n rest
    pure (⟨k, cate, cells⟩ :: cs, rest)
  | _ + 1, _ => none

def runCall (st : ExtractorState) (c : Call) : Outcome (List (Option Nat) × ExtractorState) :=
  match c.kind with
  | .U =>
    match extractUnigram st c.cells c.cate with
    | .ok (ids, st') => .ok (ids.map some, st')
    | .err => .err
    | .panic => .panic
  | .L => extractLeft st c.cells
  | .R => extractRight st c.cells

def runCalls : List Call → ExtractorState → List String → Outcome (List String × ExtractorState)
  | [], st, acc => .ok (acc.reverse, st)
  | c :: cs, st, acc =>
    match runCall st c with
    | .ok (ids, st') => runCalls cs st' (showIds ids :: acc)
    | .err => .err
    | .panic => .panic

def handleExpand (ts : List String) : String :=
  match ts with
  | k :: tpl :: cate :: rest =>
    match kindOf k, strOfHex tpl, cate.toNat?, takeCounted rest with
    | some k, some tpl, some cate, some (cells, []) =>
      -- the `L`/`R` calls pass category id 0
      let cate := if k = .U then cate else 0
      match expandTemplate k tpl cells cate with
      | .ok none => "none"
      | .ok (some s) => s!"some {hexOfStr s}"
      | .err => "err"
      | .panic => "panic"
    | _, _, _, _ => "badinput"
  | _ => "badinput"

def handleSession (ts : List String) : String :=
  match takeTemplates ts with
  | some (u, b, "CALLS" :: n :: rest) =>
    match n.toNat? with
    | some n =>
      match takeCalls n rest with
      | some (calls, []) =>
        match ExtractorState.new u b with
        | .ok st =>
          match runCalls calls st [] with
          | .ok (outs, st') =>
            " ".intercalate (["ok", toString outs.length] ++ outs ++ [showMaps st'])
          | .err => "err"
          | .panic => "panic"
        | .err => "err"
        | .panic => "panic"
      | _ => "badinput"
    | none => "badinput"
  | _ => "badinput"

/-! FEATSET -/

def takeRule (ts : List String) : Option (Rewriter.RawRule × List String) := do
  let (p, rest) ← takeCounted ts
  let (r, rest) ← takeCounted rest
  pure ((p, r), rest)

def takeRules : Nat → List String → Option (List Rewriter.RawRule × List String)
  | 0, ts => some ([], ts)
  | n + 1, ts => do
    let (r, rest) ← takeRule ts
    let (rs, rest) ← takeRules n rest
    pure (r :: rs, rest)

def takeRuleList (ts : List String) : Option (List Rewriter.RawRule × List String) :=
  match ts with
  | [] => none
  | n :: rest => do
    let n ← n.toNat?
    takeRules n rest

def takeRows : Nat → List String → Option (List (Nat × Str) × List String)
  | 0, ts => some ([], ts)
  | n + 1, cate :: row :: rest => do
    let cate ← cate.toNat?
    let row ← strOfHex row
    let (rs, rest) ← takeRows n rest
    pure ((cate, row) :: rs, rest)
  | _ + 1, _ => none

def runRows (u l r : Rewriter.Trie) : List (Nat × Str) → ExtractorState → List String →
    Outcome (List String × ExtractorState)
  | [], st, acc => .ok (acc.reverse, st)
  | (cate, row) :: rows, st, acc =>
    match extractFeatureSet st u l r row cate with
    | .ok (fs, st') =>
      runRows u l r rows st'
        (s!"U {showIds (fs.unigram.map some)} R {showIds fs.bigramRight} L {showIds fs.bigramLeft}" :: acc)
    | .err => .err
    | .panic => .panic

def handleFeatSet (ts : List String) : String :=
  match takeTemplates ts with
  | some (u, b, "RW" :: rest) =>
    match takeRuleList rest with
    | some (ru, rest) =>
      match takeRuleList rest with
      | some (rl, rest) =>
        match takeRuleList rest with
        | some (rr, "ROWS" :: n :: rest) =>
          match n.toNat? with
          | some n =>
            match takeRows n rest with
            | some (rows, tail) =>
              let fixed := tail = ["FIXED", "1"]
              match ExtractorState.new u b, Rewriter.build fixed ru, Rewriter.build fixed rl,
                    Rewriter.build fixed rr with
              | .ok st, .ok tu, .ok tl, .ok tr =>
                match runRows tu tl tr rows st [] with
                | .ok (outs, st') =>
                  " ".intercalate (["ok", toString outs.length] ++ outs ++ [showMaps st'])
                | .err => "err"
                | .panic => "panic"
              | _, _, _, _ => "panic"
            | none => "badinput"
          | none => "badinput"
        | _ => "badinput"
      | none => "badinput"
    | none => "badinput"
  | _ => "badinput"

def handleFeatCfg (ts : List String) : String :=
  match ts with
  | file :: cate :: rest =>
    match bytesOfHex file, cate.toNat?, takeCounted rest with
    | some bytes, some cate, some (cells, []) =>
      match parseFeatureConfig bytes with
      | .ok st =>
        match extractUnigram st cells cate with
        | .ok (_, st1) =>
          match extractLeft st1 cells with
          | .ok (_, st2) =>
            match extractRight st2 cells with
            | .ok (_, st3) => s!"ok {showMaps st3}"
            | .err => "err"
            | .panic => "panic"
          | .err => "err"
          | .panic => "panic"
        | .err => "err"
        | .panic => "panic"
      | .err => "err"
      | .panic => "panic"
    | _, _, _ => "badinput"
  | _ => "badinput"

def handleMecab (ts : List String) : String :=
  match ts with
  | f :: r :: l :: m :: cf :: tail =>
    let fixed := tail = ["FIXED", "1"]
    match bytesOfHex f, bytesOfHex r, bytesOfHex l, bytesOfHex m, cf.toNat? with
    | some f, some r, some l, some m, some cf =>
      match Mecab.generateBigramInfo fixed f r l m (Float.ofBits cf.toUInt64) with
      | .ok (a, b, c) => s!"ok {hexOfBytes a} {hexOfBytes b} {hexOfBytes c}"
      | .err => "err"
      | .panic => "panic"
    | _, _, _, _, _ => "badinput"
  | _ => "badinput"

def handle (toks : List String) : String :=
  match toks with
  | "EXPAND" :: rest => handleExpand rest
  | "SESSION" :: rest => handleSession rest
  | "FEATSET" :: rest => handleFeatSet rest
  | "FEATCFG" :: rest => handleFeatCfg rest
  | "MECAB" :: rest => handleMecab rest
  | _ => "badinput"

end Vibrato.Driver.Extractor
