/-
Model driver for the programs `split`, `evaluate` (package `evaluate`) and the output modes
`wakati` / `detail` of `tokenize` (property C19, last clause).  Mathlib-free.
Model: `Vibrato/Model/EvalSplit.lean`; theorems: `Vibrato/Props/C19cli.lean`.

`handle toks` receives the tokens of one protocol line after the stream name (`evalsplit`) and the
case id, INCLUDING the implementation's observation after the token `IMPL` (the verdicts need it).
Byte strings are lower-case hex, `-` is the empty byte string, numbers are decimal, an `f64` is the
decimal `u64` of its bit pattern (`Vibrato.Util.Wire`).  The answer is

    <model observation> P <FLAG=value>*

where `<model observation>` is string-equal to the implementation's observation (the text between
`IMPL` and ` ## `) exactly when model and implementation agree.

Input lines (verb first)
------------------------
SPLIT <corpus> <valid_ratio bits> <test_ratio bits> IMPL <OBS>
    the real `split -i corpus --valid-ratio <r> --test-ratio <r> -t train -v valid -e test`
    (ratios passed as the shortest decimal text that parses back to exactly these bits).
    OBS ::= err | panic | ok <valid file> <test file> <train file>
    (`err` = any exit status other than 0 and 101, in particular clap's status 2 for a ratio
    outside 0.0..=1.0 and for `valid_len + test_len > corpus.len()`).
    Model observation: its own status; for `ok` the model cannot predict the permutation
    (`thread_rng`), so it ACCEPTS the implementation's files — and then echoes them, making the
    observations equal — iff they consist, byte for byte, of the `Example::write` texts of the
    parsed examples, each used exactly once, `validLen` of them in the valid file, `testLen` in
    the test file and the rest in the train file; otherwise it prints `ok !<validLen>,<testLen>,<rest>`.
    Flags: LENS=<validLen>,<testLen>,<rest> (model), ACCEPT=<0|1|n/a>,
    PART=<true|false|n/a> = the predicate of theorem `split_partition` evaluated on the
    implementation's files (all three parse, the lengths are the expected ones, valid ++ test ++
    train is a permutation of the parsed input); `n/a` when the theorem's hypothesis fails
    (a parsed feature ends in `\r`) or the status is not `ok`.

EVAL <corpus> SYS <m> TOKS{m} IDX <j> <index>{j} IMPL <OBS>
    the real `evaluate -t corpus -i sys.dic.zst [-u user.csv] [-M n] [--feature-indices i,j,..]`.
    TOKS ::= panic | <n> (<start> <end> <feature>){n}     the LIBRARY tokenizer's tokens
             (`range_char()`, `feature()`) for the concatenated surfaces of the i-th parsed
             example, computed in-process by the harness with the same dictionary, user lexicon
             and `max_grouping_len` (`m` = number of parsed examples, 0 when the corpus is rejected);
             `panic` = `tokenize()` panicked.
    OBS ::= err | panic | ok <precision> <recall> <f1>     each `nan` or the decimal u64 of the bits
             of the f64 the program printed (`Precision = {}` parsed back; Rust's `{}` round-trips).
    Model observation: the same, computed by `evaluateProgram` with the tokenizer `sentence ↦ TOKS`.
    Flags: COUNTS=<num_ref>,<num_sys>,<num_cor> (model; `-` unless ok).

WAKATI <k> SENT{k} IMPL <OBS>        SENT ::= panic | <n> (<surface>){n}
DETAIL <k> DSENT{k} IMPL <OBS>       DSENT ::= panic | <n> (<surface> <feature> <lextype 0|1|2> <left_id>
                                                             <right_id> <word_cost> <total_cost>){n}
    the real `tokenize -O wakati|detail [-S] [-M n] [-u user.csv]` on `k` input lines; the tokens
    are the library tokenizer's for each line (harness, in-process, same options).
    OBS ::= err | panic | ok <stdout bytes>
    Model observation: `ok` + the concatenation of `wakatiLine` / `detailLines`; `panic` if some
    SENT is `panic`.
    Flags: SPLITOK=<true|false> (WAKATI: predicate of `wakati_split_roundtrip` holds for every
    line, i.e. every line has a token and no surface contains a space), FIELDS7=<true|false>
    (DETAIL: every printed token line splits into seven tab-separated fields).

Malformed protocol line: `badinput`.
-/
import Vibrato.Util.Wire
import Vibrato.Model.EvalSplit

namespace Vibrato.Driver.EvalSplit
open Vibrato.Wire Vibrato.Corpus Vibrato.EvalSplit

def implOf (toks : List String) : List String :=
  (toks.dropWhile (· ≠ "IMPL")).drop 1 |>.takeWhile (· ≠ "##")

def inputOf (toks : List String) : List String := toks.takeWhile (· ≠ "IMPL")

def floatOfBits (s : String) : Option Float := (s.toNat?).map fun n => Float.ofBits n.toUInt64

def showFloat (f : Float) : String := if f.isNaN then "nan" else toString f.toBits.toNat

/-! ### SPLIT -/

/-- Remove the first example of the pool whose written text is a prefix of `bytes`. -/
def takeOne : List Example → List UInt8 → Option (List Example × List UInt8)
  | [], _ => none
  | e :: rest, bytes =>
    let w := writeExample e
    if w.isPrefixOf bytes then some (rest, bytes.drop w.length)
    else (takeOne rest bytes).map fun (p, b) => (e :: p, b)

/-- Consume the whole file with examples of the pool: remaining pool and number used. -/
def consume : Nat → List Example → List UInt8 → Nat → Option (List Example × Nat)
  | 0, _, _, _ => none
  | _ + 1, pool, [], k => some (pool, k)
  | fuel + 1, pool, bytes, k =>
    match takeOne pool bytes with
    | some (p, b) => consume fuel p b (k + 1)
    | none => none

def acceptFiles (exs : List Example) (v t : Nat) (fv ft fr : List UInt8) : Bool :=
  let fuel := exs.length + 2
  match consume fuel exs fv 0 with
  | some (p1, k1) =>
    match consume fuel p1 ft 0 with
    | some (p2, k2) =>
      match consume fuel p2 fr 0 with
      | some (p3, k3) => p3.isEmpty && k1 == v && k2 == t && k3 == exs.length - v - t
      | none => false
    | none => false
  | none => false

def partitionPred (exs : List Example) (v t : Nat) (fv ft fr : List UInt8) : Bool :=
  match parseCorpus fv, parseCorpus ft, parseCorpus fr with
  | .ok ev, .ok et, .ok er =>
    ev.length == v && et.length == t && er.length == exs.length - v - t &&
      (ev ++ et ++ er).isPerm exs
  | _, _, _ => false

def handleSplit (inp impl : List String) : String :=
  match inp with
  | [c, vb, tb] =>
    match bytesOfHex c, floatOfBits vb, floatOfBits tb with
    | some corpus, some vr, some tr =>
      if !(ratioOk vr && ratioOk tr) then "err P LENS=- ACCEPT=n/a PART=n/a"
      else
        match parseCorpus corpus with
        | .err => "err P LENS=- ACCEPT=n/a PART=n/a"
        | .panic => "panic P LENS=- ACCEPT=n/a PART=n/a"
        | .ok exs =>
          let n := exs.length
          let (v, t) := splitLens n vr tr
          let lens := s!"{v},{t},{n - v - t}"
          if v + t > n then s!"err P LENS={v},{t},- ACCEPT=n/a PART=n/a"
          else
            match impl with
            | ["ok", a, b, d] =>
              match bytesOfHex a, bytesOfHex b, bytesOfHex d with
              | some fv, some ft, some fr =>
                let acc := acceptFiles exs v t fv ft fr
                let hyp := exs.all fun e => e.tokens.all fun w => decide (NoTrailingCR w)
                let part := if hyp then toString (partitionPred exs v t fv ft fr) else "n/a"
                let obs := if acc then s!"ok {a} {b} {d}" else s!"ok !{lens}"
                s!"{obs} P LENS={lens} ACCEPT={if acc then 1 else 0} PART={part}"
              | _, _, _ => "badinput"
            | _ => s!"ok !{lens} P LENS={lens} ACCEPT=n/a PART=n/a"
    | _, _, _ => "badinput"
  | _ => "badinput"

/-! ### EVAL -/

/-- One `TOKS` group. -/
def takeToks : List String → Option (Outcome (List SysTok) × List String)
  | "panic" :: rest => some (.panic, rest)
  | rest =>
    match takeGroups 3 rest with
    | some (groups, rest') =>
      (groups.mapM fun (g : List String) =>
        match g with
        | [a, b, f] => do
          let a ← String.toNat? a
          let b ← String.toNat? b
          let f ← bytesOfHex f
          pure (⟨a, b, f⟩ : SysTok)
        | _ => none).map fun ts => (.ok ts, rest')
    | none => none

def takeToksN : Nat → List String → Option (List (Outcome (List SysTok)) × List String)
  | 0, rest => some ([], rest)
  | n + 1, rest => do
    let (t, rest) ← takeToks rest
    let (ts, rest) ← takeToksN n rest
    pure (t :: ts, rest)

/-- The tokenizer of the case: the harness's tokens for the sentence (first example with these
concatenated surfaces). -/
def tableTok (table : List (List UInt8 × Outcome (List SysTok))) (sent : List UInt8) :
    Outcome (List SysTok) :=
  match table.find? (·.1 == sent) with
  | some (_, r) => r
  | none => .err

def handleEval (fixed : Bool) (inp : List String) : String :=
  match inp with
  | c :: "SYS" :: m :: rest =>
    match bytesOfHex c, m.toNat? with
    | some corpus, some m =>
      match takeToksN m rest with
      | some (toks, "IDX" :: j :: idxs) =>
        match j.toNat?, idxs.mapM String.toNat? with
        | some j, some idx =>
          if idx.length ≠ j then "badinput" else
          match parseCorpus corpus with
          | .err => "err P COUNTS=-"
          | .panic => "panic P COUNTS=-"
          | .ok exs =>
            if exs.length ≠ toks.length then s!"badinput examples={exs.length}" else
            let table := (exs.map fun e => sentenceOf e.tokens).zip toks
            match evaluate fixed (tableTok table) idx exs with
            | .ok c =>
              let (p, r, f) := scores c
              s!"ok {showFloat p} {showFloat r} {showFloat f} P COUNTS={c.ref},{c.sys},{c.cor}"
            | .err => "err P COUNTS=-"
            | .panic => "panic P COUNTS=-"
        | _, _ => "badinput"
      | _ => "badinput"
    | _, _ => "badinput"
  | _ => "badinput"

/-! ### WAKATI / DETAIL -/

def takeSent (k : Nat) : List String → Option (Option (List (List String)) × List String)
  | "panic" :: rest => some (none, rest)
  | rest => (takeGroups k rest).map fun (g, r) => (some g, r)

def takeSents (k : Nat) : Nat → List String → Option (List (Option (List (List String))) × List String)
  | 0, rest => some ([], rest)
  | n + 1, rest => do
    let (s, rest) ← takeSent k rest
    let (ss, rest) ← takeSents k n rest
    pure (s :: ss, rest)

def detailTokOf : List String → Option DetailTok
  | [s, f, lt, l, r, wc, tc] => do
    let s ← bytesOfHex s
    let f ← bytesOfHex f
    let lt ← lt.toNat?
    let l ← l.toNat?
    let r ← r.toNat?
    let wc ← wc.toInt?
    let tc ← tc.toInt?
    pure ⟨s, f, lt, l, r, wc, tc⟩
  | _ => none

def handleWakati (inp : List String) : String :=
  match inp with
  | k :: rest =>
    match k.toNat? with
    | some k =>
      match takeSents 1 k rest with
      | some (sents, []) =>
        if sents.any Option.isNone then "panic P SPLITOK=n/a" else
        match (sents.filterMap id).mapM (fun g => g.mapM fun x =>
            match x with
            | [h] => bytesOfHex h
            | _ => none) with
        | some lines =>
          let out := lines.flatMap wakatiLine
          let splitOk := lines.all fun ss => splitOnByte SP (wakatiBody ss) == ss
          s!"ok {hexOfBytes out} P SPLITOK={splitOk}"
        | none => "badinput"
      | _ => "badinput"
    | none => "badinput"
  | _ => "badinput"

def handleDetail (inp : List String) : String :=
  match inp with
  | k :: rest =>
    match k.toNat? with
    | some k =>
      match takeSents 7 k rest with
      | some (sents, []) =>
        if sents.any Option.isNone then "panic P FIELDS7=n/a" else
        match (sents.filterMap id).mapM (fun g => g.mapM detailTokOf) with
        | some lines =>
          let out := lines.flatMap detailLines
          let f7 := lines.all fun ts => ts.all fun t =>
            (splitOnByte TAB (detailBody t)).length == 7
          s!"ok {hexOfBytes out} P FIELDS7={f7}"
        | none => "badinput"
      | _ => "badinput"
    | none => "badinput"
  | _ => "badinput"

/-- `fixed` = the row parser of `evaluate` (`false`: the program's own copy on the pinned tree). -/
def handleWith (fixed : Bool) (toks : List String) : String :=
  let inp := inputOf toks
  let impl := implOf toks
  match inp with
  | "SPLIT" :: rest => handleSplit rest impl
  | "EVAL" :: rest => handleEval fixed rest
  | "WAKATI" :: rest => handleWakati rest
  | "DETAIL" :: rest => handleDetail rest
  | _ => "badinput"

def handle (toks : List String) : String := handleWith false toks

end Vibrato.Driver.EvalSplit
