/-
Driver for the stream `trainnew` (property C18, second half): from the five seed files of a training
set-up to the label feature sets registered by `Trainer::new` and the interning maps of the
feature extractor (`Vibrato/Model/TrainerNew.lean`).

Input line (tokens after the stream name and the case id):

    <lex.csv hex> <char.def hex> <unk.def hex> <feature.def hex> <rewrite.def hex>

(`-` = the empty file).  The five byte strings are handed to

    TrainerConfig::from_readers(lex, char, unk, feature_def, rewrite_def)?      -- Err → `err`
    Trainer::new(config)?                                                         -- Err → `err`
        .max_iter(1).train(corpus)?                                               -- Err → `err`
    model.write_model(&mut image)?

with any corpus (the labels do not depend on it; a panic anywhere → `panic`).

Observation (one line, tokens separated by one blank):

    err | panic
    ok <n> SET_1 … SET_n <uniNext> <leftNext> <rightNext> MAP_unigram MAP_left MAP_right

    SET  := <u> <id>*u  <r> <oid>*r  <l> <oid>*l
            the `rucrf::FeatureSet`s of the model's `FeatureProvider` in label order (label id = position,
            from 1): `unigram` (ids), `bigram_right`, `bigram_left` (`oid` = the id, `0` for `None`);
            ALL sets of the provider: the labels created by `Trainer::new` (lexicon rows in file
            order, then the unk.def rows grouped by category id) followed by the empty sets
            `0 0 0` that `train` appends for corpus tokens found in neither (virtual edges);
    *Next := the three `next_id` counters of the `FeatureExtractor` (decimal);
    MAP  := <k> (<string hex> <id>)*k
            the entries of `unigram_feature_ids` / `left_feature_ids` / `right_feature_ids` that are
            still present in the trained model, sorted by id ascending (`train` removes the strings
            of features without weight; which ones survive is not determined by the five files).

IMPORTANT: training also FILTERS the feature sets (`rucrf::Trainer::train`, the loop over
`provider.feature_sets` at its end): a unigram id without weight index is removed from `unigram`
(the list gets shorter), a `bigram_left` / `bigram_right` id without any weight becomes `None`.
The filter is uniform per id (an id is dropped everywhere or nowhere), so the sets of the trained
model are the sets of `Trainer::new` restricted to the SURVIVING ids = the ids that still occur in
some set of the observation.  A second head word is reserved for an observation taken directly
after `Trainer::new` (needs a new hook, see the report):

    okfull <n> SET_1 … SET_n <uniNext> <leftNext> <rightNext> MAP_unigram MAP_left MAP_right

with the unfiltered sets and the complete maps; the model then prints its own complete observation.

Everything is available in the image written by `Model::write_model`: it starts with the three maps
(`Vec<(String, NonZeroU32)>` each), the three `u32` counters, and ends with the provider
(`Vec<FeatureSet>`); `probe/src/main.rs::observe` computes the line with `bincode` and the hook
`model_feature_maps`.

The model side gets the implementation's observation as well (`handle fx inputs impl`) and prints

    ok <n'> …  — its own label sets RESTRICTED to the surviving ids (per kind: the ids occurring in
                 the implementation's sets), padded with empty sets `0 0 0` up to the
                 implementation's `n` when that is larger, its counters, and for every map the
                 entries for exactly the ids the implementation listed (`? <id>` for an id the
                 model's map does not have),

so the two lines are equal iff the implementation's sets are the model's label sets restricted to
the surviving ids, every additional set is empty, the counters are equal and every surviving map
entry is an entry of the model's final map.  Without a
well-formed `ok …` observation the model prints its full maps.

Flags after ` P `: `LABELS=<number of labels> UNI=<listed>/<all> LEFT=<listed>/<all>
RIGHT=<listed>/<all>` (how much of the model's maps the implementation's observation covered).

Mathlib-free; linked into the driver executable.
-/
import Vibrato.Model.TrainerNew
import Vibrato.Util.Wire

namespace Vibrato.Driver.TrainerNew
open Vibrato Vibrato.Extractor Vibrato.TrainerNew

def oid : Option Nat → String
  | some i => toString i
  | none => "0"

def setToks (fs : FeatureSet) : List String :=
  toString fs.unigram.length :: fs.unigram.map toString ++
  toString fs.bigramRight.length :: fs.bigramRight.map oid ++
  toString fs.bigramLeft.length :: fs.bigramLeft.map oid

def hexOfStr (s : Str) : String := Wire.hexOfString (String.ofList s)

def insertById (p : Str × Nat) : List (Str × Nat) → List (Str × Nat)
  | [] => [p]
  | q :: rest => if p.2 ≤ q.2 then p :: q :: rest else q :: insertById p rest

def sortById (m : IdMap) : IdMap := m.foldr insertById []

def mapToks (m : IdMap) : List String :=
  toString m.length :: (sortById m).flatMap fun p => [hexOfStr p.1, toString p.2]

def nameOf (m : IdMap) (id : Nat) : Option Str := (m.find? fun p => p.2 = id).map (·.1)

/-- The model's entries for the listed ids. -/
def mapToksFor (m : IdMap) (ids : List Nat) : List String :=
  toString ids.length :: ids.flatMap fun id =>
    [match nameOf m id with | some s => hexOfStr s | none => "?", toString id]

/-! ### Reading the implementation's observation -/

def takeNat : List String → Option (Nat × List String)
  | [] => none
  | t :: rest => t.toNat?.map fun n => (n, rest)

/-- `<k> x*k`: skip a counted list of `k * width` tokens, returning them. -/
def takeCounted (width : Nat) (toks : List String) : Option (List String × List String) := do
  let (k, rest) ← takeNat toks
  if rest.length < k * width then none else pure (rest.take (k * width), rest.drop (k * width))

/-- `<k> x*k` as numbers. -/
def takeNats (toks : List String) : Option (List Nat × List String) := do
  let (xs, rest) ← takeCounted 1 toks
  pure (xs.map fun t => t.toNat?.getD 0, rest)

/-- `n` sets: the ids of the three kinds (unigram, right, left) that occur anywhere. -/
def readSets : Nat → List String → List Nat × List Nat × List Nat →
    Option ((List Nat × List Nat × List Nat) × List String)
  | 0, toks, acc => some (acc, toks)
  | n + 1, toks, (u, r, l) => do
    let (a, r1) ← takeNats toks
    let (b, r2) ← takeNats r1
    let (c, r3) ← takeNats r2
    readSets n r3 (a ++ u, b ++ r, c ++ l)

def idsOfEntries : List String → List Nat
  | _ :: id :: rest => id.toNat?.getD 0 :: idsOfEntries rest
  | _ => []

structure Impl where
  full : Bool
  n : Nat
  keptU : List Nat
  keptR : List Nat
  keptL : List Nat
  mapU : List Nat
  mapL : List Nat
  mapR : List Nat

/-- From `ok|okfull <n> sets… c c c map map map`. -/
def readImpl (impl : List String) : Option Impl :=
  match impl with
  | head :: rest =>
    if head = "ok" ∨ head = "okfull" then do
      let (n, r0) ← takeNat rest
      let ((u, r, l), r1) ← readSets n r0 ([], [], [])
      let (_, r2) ← takeNat r1
      let (_, r3) ← takeNat r2
      let (_, r4) ← takeNat r3
      let (mu, r5) ← takeCounted 2 r4
      let (ml, r6) ← takeCounted 2 r5
      let (mr, _) ← takeCounted 2 r6
      pure ⟨head = "okfull", n, u, r, l, idsOfEntries mu, idsOfEntries ml, idsOfEntries mr⟩
    else none
  | [] => none

/-- A label set restricted to the surviving ids. -/
def restrict (i : Impl) (fs : FeatureSet) : FeatureSet :=
  ⟨fs.unigram.filter i.keptU.contains,
   fs.bigramRight.map fun o => o.filter i.keptR.contains,
   fs.bigramLeft.map fun o => o.filter i.keptL.contains⟩

/-- Observation and flags. -/
def observe (fx : Fixes) (lex chardef unk fdef rdef : List UInt8) (impl : List String) :
    String × String :=
  match labelFeatureSets fx lex chardef unk fdef rdef with
  | .err => ("err", "LABELS=na")
  | .panic => ("panic", "LABELS=na")
  | .ok (sets, st) =>
    let nexts := [toString st.uniNext, toString st.leftNext, toString st.rightNext]
    let full (tag : String) : String :=
      " ".intercalate (tag :: toString sets.length :: sets.flatMap setToks ++ nexts ++
        mapToks st.uni ++ mapToks st.left ++ mapToks st.right)
    match readImpl impl with
    | some i =>
      if i.full then
        (full "okfull", s!"LABELS={sets.length} UNI={st.uni.length}/{st.uni.length} " ++
          s!"LEFT={st.left.length}/{st.left.length} RIGHT={st.right.length}/{st.right.length}")
      else
        let pad := i.n - sets.length
        (" ".intercalate ("ok" :: toString (sets.length + pad) ::
            sets.flatMap (fun fs => setToks (restrict i fs)) ++
            (List.replicate pad ["0", "0", "0"]).flatten ++ nexts ++
            mapToksFor st.uni i.mapU ++ mapToksFor st.left i.mapL ++ mapToksFor st.right i.mapR),
         s!"LABELS={sets.length} UNI={i.mapU.length}/{st.uni.length} " ++
         s!"LEFT={i.mapL.length}/{st.left.length} RIGHT={i.mapR.length}/{st.right.length} " ++
         s!"IDS={i.keptU.eraseDups.length}/{i.keptL.eraseDups.length}/{i.keptR.eraseDups.length}")
    | none =>
      (full "ok", s!"LABELS={sets.length} UNI=0/{st.uni.length} LEFT=0/{st.left.length} " ++
        s!"RIGHT=0/{st.right.length}")

/-- `toks` = the five hex tokens, `impl` = the tokens of the implementation's observation.
Returns `<observation> P <flags>`. -/
def handle (fx : Fixes) (toks : List String) (impl : List String) : String :=
  match toks with
  | [a, b, c, d, e] =>
    match Wire.bytesOfHex a, Wire.bytesOfHex b, Wire.bytesOfHex c, Wire.bytesOfHex d,
          Wire.bytesOfHex e with
    | some lex, some chardef, some unk, some fdef, some rdef =>
      let (obs, flags) := observe fx lex chardef unk fdef rdef impl
      s!"{obs} P {flags}"
    | _, _, _, _, _ => "bad-input"
  | _ => "bad-input"

end Vibrato.Driver.TrainerNew
