/-
Driver for the streams `def` and `tok` (see `harness/src/tok.rs` for the line
formats).  For every case it prints the model's observation in the same
canonical format as the harness prints the implementation's, and the verdict of
the executable property predicates evaluated on the *implementation's*
observation.  No Mathlib imports.
-/
import Vibrato.Util.Wire
import Vibrato.Model.Worker
import Vibrato.Model.Worker16
import Vibrato.Model.Mapper
import Vibrato.Model.SpecMin
import Vibrato.Model.DictBigram

namespace Vibrato.Driver.Tok
open Vibrato Vibrato.Wire

abbrev Dicts := List (String × DictM)

def field (toks : List String) (key : String) : Option String :=
  match toks.dropWhile (· ≠ key) with
  | _ :: v :: _ => some v
  | _ => none

def hexField (toks : List String) (key : String) : Option (List UInt8) :=
  (field toks key).bind bytesOfHex

def parseInts (ts : List String) : Option (List Int) := ts.mapM intOf
def parseNats (ts : List String) : Option (List Nat) := ts.mapM natOf

/-- KIND 1/2 (`from_readers_with_bigram_info`): the builder model followed by the evaluation of
the whole cost table with the connector model (`oc = true`: the harness is compiled with
`overflow-checks = true`).  `.error "costpanic"`: the builder succeeds and `Connector::cost`
panics for some pair of the table (the harness prints the same word). -/
def bigramDef (fx : Fixes) (lex right left cost chardef unk : List UInt8) (dual : Bool) :
    Except String (Outcome DictM) :=
  -- repair F26: 65535 or more rows in bigram.right / bigram.left are an error (`Props/C10guard.lean`)
  if (RawConnector.splitLines right []).length ≥ 65535 ∨ (RawConnector.splitLines left []).length ≥ 65535 then .ok .err else
  match Bigram.buildBigram fx true none lex right left cost chardef unk dual with
  | .ok B =>
    match B.table true with
    | .ok t => .ok (.ok (B.toDict t))
    | _ => .error "costpanic"
  | .err => .ok .err
  | .panic => .ok .panic

/-- diagnostic for a rejected `def`: are all files fine and only a connection id outside the
connector (`numLeft`, `numRight`)? -/
def idsOutOfRange (fx : Fixes) (lex chardef unk : List UInt8) (numLeft numRight : Nat) : Bool :=
  match parseLexCsv fx lex, CharDef.parse chardef, parseLexCsv fx unk with
  | .ok lrows, .ok P, .ok urows =>
    match lexOfRows lrows, unkOfRows P urows with
    | some L, some U =>
      !(paramsInRange (L.entries.map (·.param)) numLeft numRight) ||
        !(paramsInRange (U.map (·.param)) numLeft numRight)
    | _, _ => false
  | _, _, _ => false

/-- `def` line: returns the model outcome tag and the dictionary. -/
def handleDef (fx : Fixes) (toks : List String) : String × Option (String × DictM) :=
  match toks with
  | name :: rest =>
    let r : Option (Except String (Outcome DictM)) := do
      let kind ← (field rest "KIND").bind natOf
      let lex ← hexField rest "LEX"
      let chardef ← hexField rest "CHAR"
      let unk ← hexField rest "UNK"
      if kind = 0 then
        let matrix ← hexField rest "MATRIX"
        pure (.ok (buildMatrixDict fx lex matrix chardef unk))
      else
        -- raw/dual: `SystemDictionaryBuilder::from_readers_with_bigram_info`
        let right ← hexField rest "RIGHT"
        let left ← hexField rest "LEFT"
        let cost ← hexField rest "COST"
        pure (bigramDef fx lex right left cost chardef unk (kind = 2))
    match r with
    | none => ("badinput", none)
    | some (.error s) => (s, none)
    | some (.ok (.ok D)) =>
      let costs := " ".intercalate (D.conn.map toString)
      (s!"ok {D.numRight} {D.numLeft}" ++ (if D.conn.isEmpty then "" else " " ++ costs), some (name, D))
    | some (.ok .err) =>
      -- diagnostic: is the rejection due to a connection id outside the connector?
      let why : Option Bool := do
        let kind ← (field rest "KIND").bind natOf
        let lex ← hexField rest "LEX"
        let chardef ← hexField rest "CHAR"
        let unk ← hexField rest "UNK"
        if kind = 0 then
          let matrix ← hexField rest "MATRIX"
          match MatrixDef.parse matrix with
          | .ok M => pure (idsOutOfRange fx lex chardef unk M.numLeft M.numRight)
          | _ => pure false
        else
          let right ← hexField rest "RIGHT"
          let left ← hexField rest "LEFT"
          let cost ← hexField rest "COST"
          match Bigram.buildConn fx.f14 true none right left cost (kind = 2) with
          | .ok c => pure (idsOutOfRange fx lex chardef unk c.numLeft c.numRight)
          | _ => pure false
      (if why == some true then "err ids-out-of-range" else "err", none)
    | some (.ok .panic) => ("panic", none)
  | _ => ("badinput", none)

inductive DOp where
  | map (l r : List Nat)
  | user (csv : List UInt8)
  | userNone
  | writeRead

def parseDOps : Nat → List String → Option (List DOp × List String)
  | 0, ts => some ([], ts)
  | n + 1, "M" :: nl :: ts => do
    let nl ← natOf nl
    let l ← parseNats (ts.take nl)
    match ts.drop nl with
    | nr :: ts' => do
      let nr ← natOf nr
      let r ← parseNats (ts'.take nr)
      let (ops, rest) ← parseDOps n (ts'.drop nr)
      pure (.map l r :: ops, rest)
    | [] => none
  | n + 1, "U" :: h :: ts => do
    let b ← bytesOfHex h
    let (ops, rest) ← parseDOps n ts
    pure (.user b :: ops, rest)
  | n + 1, "UN" :: ts => do
    let (ops, rest) ← parseDOps n ts
    pure (.userNone :: ops, rest)
  | n + 1, "W" :: ts => do
    let (ops, rest) ← parseDOps n ts
    pure (.writeRead :: ops, rest)
  | _, _ => none

def parseWOps : Nat → List String → Option (List WOp × List String)
  | 0, ts => some ([], ts)
  | n + 1, "R" :: h :: ts => do
    let b ← bytesOfHex h
    let cps ← codePoints b
    let (ops, rest) ← parseWOps n ts
    pure (.reset cps :: ops, rest)
  | n + 1, t :: ts => do
    let op ← match t with
      | "T" => some WOp.tokenize
      | "Q" => some WOp.query
      | "L" => some WOp.lattice
      | "I" => some WOp.initCounter
      | "U" => some WOp.updateCounts
      | "P" => some WOp.probs
      | "C" => some WOp.counts
      | _ => none
    let (ops, rest) ← parseWOps n ts
    pure (op :: ops, rest)
  | _, _ => none

def encodeUtf8 (cps : List Nat) : List UInt8 :=
  (String.ofList (cps.map Char.ofNat)).toUTF8.toList

def nodeStr (n : Node) : String :=
  s!"{n.wordId} {n.lexType} {n.startNode} {n.startWord} {n.leftId} {n.rightId} {n.minIdx} {n.minCost}"

def natsStr (xs : List Nat) : String :=
  toString xs.length ++ String.join (xs.map fun x => " " ++ toString x)

/-- token observation: `<start> <end> <bstart> <bend> <surface> <lextype> <wordid> <left> <right>
<wcost> <total> <feature>`; `none` = an accessor would panic -/
def tokenStr (D : DictM) (sent : List Nat) (e : Nat) (n : Node) : Option String := do
  let feat ← D.feature n.lexType n.wordId
  let p ← D.param n.lexType n.wordId
  let surf := encodeUtf8 ((sent.drop n.startWord).take (e - n.startWord))
  pure s!"{n.startWord} {e} {bytePos sent n.startWord} {bytePos sent e} {hexOfBytes surf} {n.lexType} {n.wordId} {n.leftId} {n.rightId} {p.wordCost} {n.minCost} {hexOfBytes feat}"

def outStr (D : DictM) (w : WorkerM) : WOut → Option (Option String)
  | .unit => some none
  | .tokens ts => do
    let strs ← ts.mapM fun (e, n) => tokenStr D w.sent e n
    pure (some (s!"ok {ts.length}" ++ String.join (strs.map (" " ++ ·))))
  | .lat ends eos =>
    let body := String.join (ends.map fun v =>
      " " ++ toString v.length ++ String.join (v.map fun n => " " ++ nodeStr n))
    let e := match eos with
      | some n => " eos " ++ nodeStr n
      | none => " noeos"
    some (some (s!"lat {ends.length}" ++ body ++ e))
  | .probs l r => some (some ("probs " ++ natsStr l ++ " " ++ natsStr r))
  | .counts none => some (some "counts none")
  | .counts (some (l, r)) => some (some ("counts " ++ natsStr l ++ " " ++ natsStr r))

def runDOps (fx : Fixes) : DictM → List DOp → Nat → Except String DictM
  | D, [], _ => .ok D
  | D, op :: ops, i =>
    let r : Outcome DictM := match op with
      | .map l r => D.mapIds fx l r
      | .user b => D.resetUser fx (some b)
      | .userNone => D.resetUser fx none
      | .writeRead => .ok D
    match r with
    | .ok D' => runDOps fx D' ops (i + 1)
    | .err => .error s!"D{i} err"
    | .panic => .error s!"D{i} panic"

def runWOps (fx : Fixes) (T : TokenizerM) : WorkerM → List WOp → Nat → List String → List String
  | _, [], _, acc => acc.reverse
  | w, op :: ops, i, acc =>
    match w.step16 fx T op with
    | none => (s!"W{i} panic" :: acc).reverse
    | some (w', out) =>
      match outStr T.dict w' out with
      | none => (s!"W{i} panic" :: acc).reverse
      | some none => runWOps fx T w' ops (i + 1) acc
      | some (some s) => runWOps fx T w' ops (i + 1) (s!"W{i} {s}" :: acc)

/-- `Tokenizer::new(dict)` followed by a HISTORY of option settings and then the final ones
(`OPT <ign> <maxg> H…`): every setter overwrites its option, so only the final values count — except that
`ignore_space(true)` is an error (which ends the chain) when `SPACE` is not defined, also inside the history. -/
def mkTokenizerH (histIgn : Bool) (D : DictM) (ign : Bool) (maxg : Nat) : Option TokenizerM :=
  if histIgn && (D.chars.cateId "SPACE").isNone then none else mkTokenizer D ign maxg

/-- After a DOPS history that contains an id mapping the harness dumps the whole connection-cost table of the
resulting dictionary (`K <numRight> <numLeft> <costs row-major r*numLeft+l>`, at most 1024 cells): C06's clause
"connection cost between mapped ids equals the original cost between the original ids" (theorem `mapIds_cost`). -/
def connPart (D : DictM) (dops : List DOp) : Option String :=
  if dops.any (fun op => match op with | .map _ _ => true | _ => false) && D.numRight * D.numLeft ≤ 1024 then
    some (s!"K {D.numRight} {D.numLeft}" ++ String.join ((List.range D.numRight).flatMap fun r =>
      (List.range D.numLeft).map fun l => " " ++ toString (D.cost r l)))
  else none

/-- The model's observation for a `tok` case. -/
def modelObs (fx : Fixes) (D : DictM) (dops : List DOp) (ign : Bool) (maxg : Nat) (wops : List WOp)
    (histIgn : Bool := false) : String :=
  match runDOps fx D dops 0 with
  | .error e => e
  | .ok D' =>
    let k := (connPart D' dops).toList
    match mkTokenizerH histIgn D' ign maxg with
    | none => " ; ".intercalate (k ++ ["O err"])
    | some T =>
      let parts := k ++ runWOps fx T WorkerM.fresh wops 0 []
      if parts.isEmpty then "-" else " ; ".intercalate parts

structure Case where
  dname : String
  dops : List DOp
  ign : Bool
  maxg : Nat
  wops : List WOp
  impl : List String
  /-- the option history before the final settings contains `ignore_space(true)` -/
  histIgn : Bool := false

def parseCase (toks : List String) : Option Case :=
  match toks with
  | dname :: "DOPS" :: k :: rest => do
    let k ← natOf k
    let (dops, rest) ← parseDOps k rest
    -- optional history token `H(i0|i1|m<n>)*` between the final options and `WOPS`
    let (hist, rest) := match rest with
      | "OPT" :: ign :: maxg :: h :: "WOPS" :: r => (h, "OPT" :: ign :: maxg :: "WOPS" :: r)
      | r => ("", r)
    match rest with
    | "OPT" :: ign :: maxg :: "WOPS" :: k2 :: rest => do
      let ign ← natOf ign
      let maxg ← natOf maxg
      let k2 ← natOf k2
      let (wops, rest) ← parseWOps k2 rest
      match rest with
      | "IMPL" :: impl => pure { dname, dops, ign := ign = 1, maxg, wops, impl, histIgn := (hist.splitOn "i1").length > 1 }
      | _ => none
    | _ => none
  | _ => none

def handleTok (fx : Fixes) (dicts : Dicts) (toks : List String) : String :=
  match parseCase toks with
  | none => "badinput"
  | some c =>
    match dicts.lookup c.dname with
    | none => "nodict"
    | some D => modelObs fx D c.dops c.ign c.maxg c.wops c.histIgn

end Vibrato.Driver.Tok

/-! ## Executable property predicates, evaluated on the implementation's observation -/
namespace Vibrato.Driver.Tok
open Vibrato Vibrato.Wire

/-- A token as reported by the implementation. -/
structure ITok where
  start : Nat
  stop : Nat
  bstart : Nat
  bstop : Nat
  surface : List UInt8
  lexType : Nat
  wordId : Nat
  left : Nat
  right : Nat
  wcost : Int
  total : Int
  feature : List UInt8
  deriving Repr, Inhabited

def parseITok (f : List String) : Option ITok :=
  match f with
  | [a, b, c, d, s, lt, wi, l, r, wc, tot, ft] => do
    pure { start := ← natOf a, stop := ← natOf b, bstart := ← natOf c, bstop := ← natOf d,
           surface := ← bytesOfHex s, lexType := ← natOf lt, wordId := ← natOf wi,
           left := ← natOf l, right := ← natOf r, wcost := ← intOf wc, total := ← intOf tot,
           feature := ← bytesOfHex ft }
  | _ => none

/-- parse `ok <n> <12 fields>*` -/
def parseITokens (ts : List String) : Option (List ITok) :=
  match ts with
  | "ok" :: n :: rest => do
    let n ← natOf n
    if rest.length ≠ 12 * n then none
    else (List.range n).mapM fun i => parseITok ((rest.drop (12 * i)).take 12)
  | _ => none

/-- split the implementation's observation into its step results -/
def splitParts (impl : List String) : List (List String) :=
  let rec go : List String → List String → List (List String)
    | [], cur => if cur.isEmpty then [] else [cur.reverse]
    | ";" :: rest, cur => cur.reverse :: go rest []
    | t :: rest, cur => go rest (t :: cur)
  go impl []

/-- **C01 predicate**: non-empty, ordered, non-overlapping tokens whose character range, byte
range and surface agree with the input and whose feature / ids / word cost are those of the
dictionary entry they name; exact cover without ignore_space, gaps start with SPACE with it. -/
def c01Pred (D : DictM) (o : TokOpts) (sent : List Nat) (ts : List ITok) : Bool :=
  let len := sent.length
  let each := ts.all fun t =>
    t.start < t.stop && t.stop ≤ len &&
    t.bstart == bytePos sent t.start && t.bstop == bytePos sent t.stop &&
    t.surface == encodeUtf8 ((sent.drop t.start).take (t.stop - t.start)) &&
    (match D.param t.lexType t.wordId, D.feature t.lexType t.wordId with
     | some p, some f => p.leftId == t.left && p.rightId == t.right && p.wordCost == t.wcost &&
                         f == t.feature
     | _, _ => false)
  let bounds := 0 :: (ts.flatMap fun t => [t.start, t.stop]) ++ [len]
  -- bounds = [0, s1, e1, s2, e2, ..., len]; gaps are (0,s1), (e1,s2), ..., (ek,len)
  let rec gaps : List Nat → List (Nat × Nat)
    | a :: b :: rest => (a, b) :: gaps rest
    | _ => []
  let gs := gaps bounds
  let gapsOk := gs.all fun (a, b) =>
    a ≤ b && (a == b || (match o.spaceSet with
      | none => false
      | some sp => (D.chars.charInfo (sent.getD a 0)).cateSet &&& sp != 0))
  each && gapsOk

/-- **C02 predicate**: every token's `total_cost` is the accumulated cost, and the total
including the EOS connection equals the minimum over all lattice paths (decided by the model's
Viterbi value, justified by `viterbi_optimal`). -/
def c02Pred (D : DictM) (o : TokOpts) (sent : List Nat) (ts : List ITok) : Bool :=
  if sent.isEmpty then ts.isEmpty else
  let TD := D.tokDict
  let Lt := buildLattice (latEnvOf TD (compileSent TD sent) o)
  let rec acc : Nat → Int → List ITok → Option (Nat × Int)
    | r, c, [] => some (r, c)
    | r, c, t :: rest =>
      let c' := c + D.cost r t.left + t.wcost
      if t.total == c' then acc t.right c' rest else none
  match acc 0 0 ts with
  | none => false
  | some (r, c) => c + D.cost r 0 == Lt.eos.minCost

/-- **C02, unrestricted reading**: the reported total equals the minimum over all candidate
segmentations (`specMin`). -/
def c02SpecPred (D : DictM) (o : TokOpts) (sent : List Nat) (ts : List ITok) : Bool :=
  if sent.isEmpty then ts.isEmpty else
  let TD := D.tokDict
  let E := latEnvOf TD (compileSent TD sent) o
  let implTotal : Int := match ts.getLast? with
    | none => D.cost 0 0
    | some t => t.total + D.cost t.right 0
  specMin E == some implTotal

/-- **C04 predicate**: the tokens read after `reset s; tokenize⁺` are those a fresh worker
reports for `s` (compared as canonical strings against the fresh model run). -/
def freshObs (fx : Fixes) (T : TokenizerM) (sent : List Nat) : Option String :=
  match (WorkerM.fresh.step16 fx T (.reset sent)).bind (fun p => p.1.step16 fx T .tokenize) with
  | none => none
  | some (w, _) => (outStr T.dict w (.tokens w.top.reverse)).bind id

/-- Walk the worker history with the model to know, at every `Q`, the current sentence and
whether `tokenize` ran since the last reset; evaluate the predicates on the implementation's
answers. Returns `C01=<0|1> C02=<0|1> C04=<0|1>` (`n/a` when no `Q` was evaluated). -/
def evalP (fx : Fixes) (D0 : DictM) (c : Case) : String :=
  match runDOps Fixes.all D0 c.dops 0, runDOps fx D0 c.dops 0 with
  | .ok _, .ok D =>
    match mkTokenizerH c.histIgn D c.ign c.maxg with
    | none => "n/a"
    | some T =>
      let parts := splitParts c.impl
      let find (i : Nat) : Option (List String) :=
        (parts.find? fun p => p.head? == some s!"W{i}").map (·.drop 1)
      let rec go : List WOp → Nat → List Nat → Bool → (Bool × Bool × Bool × Nat × Bool) → (Bool × Bool × Bool × Nat × Bool)
        | [], _, _, _, acc => acc
        | op :: ops, i, sent, tokd, acc =>
          match op with
          | .reset s => go ops (i + 1) s false acc
          | .tokenize => go ops (i + 1) sent true acc
          | .query =>
            match (find i).bind parseITokens with
            | none => go ops (i + 1) sent tokd acc
            | some its =>
              let (a1, a2, a4, n, a2s) := acc
              if tokd then
                let fresh := freshObs Fixes.all T sent
                let mine := some (s!"ok {its.length}" ++ String.join ((find i).getD [] |>.drop 2 |>.map (" " ++ ·)))
                go ops (i + 1) sent tokd
                  (a1 && c01Pred D T.opts sent its, a2 && c02Pred D T.opts sent its,
                   a4 && (fresh == mine || fresh.isNone), n + 1, a2s && c02SpecPred D T.opts sent its)
              else go ops (i + 1) sent tokd (a1, a2, a4 && its.isEmpty, n + 1, a2s)
          | _ => go ops (i + 1) sent tokd acc
      let (p1, p2, p4, n, p2s) := go c.wops 0 [] false (true, true, true, 0, true)
      if n = 0 then "n/a"
      else
        let b (x : Bool) := if x then "1" else "0"
        s!"C01={b p1} C02={b p2} C02S={b p2s} C04={b p4}"
  | _, _ => "n/a"

/-- id-free projection of a token: what C06/C12 say must not change -/
def projTok (t : ITok) : String :=
  s!"{hexOfBytes t.surface}:{t.lexType}:{t.wordId}:{t.wcost}:{t.total}:{hexOfBytes t.feature}"

def projTokPos (t : ITok) : String := s!"{t.start}-{t.stop}:" ++ projTok t

/-- apply only the user-lexicon operations of a DOPS history (no id mapping, no write/read) -/
def userOnly (D : DictM) : List DOp → Option DictM
  | [] => some D
  | .user b :: ops => match D.resetUser Fixes.all (some b) with
    | .ok D' => userOnly D' ops
    | _ => none
  | .userNone :: ops => match D.resetUser Fixes.all none with
    | .ok D' => userOnly D' ops
    | _ => none
  | _ :: ops => userOnly D ops

/-- the dictionary with the user rows appended to the system lexicon (C08) -/
def extendSys (D : DictM) : DictM :=
  match D.user with
  | none => D
  | some u => { D with sys := { entries := D.sys.entries ++ u.entries, features := D.sys.features ++ u.features },
                       user := none }

def parseLat (f : List String) : Option (List (List (List Nat))) :=
  -- `lat <nb> (<count> (<8 fields>)*)* (eos <8 fields> | noeos)`; returns per boundary the
  -- candidate projection [wordId, lexType, startNode, startWord, left, right]
  match f with
  | "lat" :: nb :: rest => do
    let nb ← natOf nb
    let rec go : Nat → List String → List (List (List Nat)) → Option (List (List (List Nat)))
      | 0, _, acc => some acc.reverse
      | k + 1, cnt :: r, acc => do
        let cnt ← natOf cnt
        let nodes ← (List.range cnt).mapM fun j => do
          let g := (r.drop (8 * j)).take 8
          let ns ← g.mapM intOf
          pure ((ns.take 6).map Int.toNat)
        go k (r.drop (8 * cnt)) (nodes :: acc)
      | _, _, _ => none
    go nb rest []
  | _ => none

def sortStrs (xs : List String) : List String := (xs.toArray.qsort (· < ·)).toList

/-- counts sorted check: ids form a permutation of `1..n-1` ordered by count desc, id asc -/
def probsOk (counts ids : List Nat) : Bool :=
  let n := counts.length
  ids.length + 1 == n && (List.range' 1 (n - 1)).all (ids.contains ·) &&
  (ids.zip ids.tail).all fun (a, b) =>
    let ca := counts.getD a 0; let cb := counts.getD b 0
    ca > cb || (ca == cb && a < b)

/-- Second group of predicates: `C03 C06 C08 C12 C13`. -/
def evalP2 (D0 : DictM) (c : Case) : String :=
  let parts := splitParts c.impl
  let find (i : Nat) : Option (List String) :=
    (parts.find? fun p => p.head? == some s!"W{i}").map (·.drop 1)
  let b (x : Bool) := if x then "1" else "0"
  -- reference dictionaries
  let DU := userOnly D0 c.dops
  let TU := DU.bind fun D => mkTokenizerH c.histIgn D c.ign c.maxg
  let TE := DU.bind fun D => mkTokenizerH c.histIgn (extendSys D) c.ign c.maxg
  let TM := (match runDOps Fixes.all D0 c.dops 0 with | .ok D => some D | _ => none).bind
    fun D => mkTokenizerH c.histIgn D c.ign c.maxg
  let rec go : List WOp → Nat → List Nat → Bool → List Nat × List Nat →
      (Bool × Bool × Bool × Bool × List (List String)) → (Bool × Bool × Bool × Bool × List (List String))
    | [], _, _, _, _, acc => acc
    | op :: ops, i, sent, tokd, cnts, acc =>
      let (a3, a6, a8, a13, projs) := acc
      match op with
      | .reset s => go ops (i + 1) s false cnts acc
      | .tokenize => go ops (i + 1) sent true cnts acc
      | .query =>
        match (find i).bind parseITokens with
        | some its =>
          if tokd then
            -- C06: same tokens (ids aside) as the unmapped dictionary
            let ok6 := match TU with
              | none => true
              | some T =>
                match tokenize T.dict.tokDict T.opts sent with
                | none => true
                | some ts =>
                  let want := ts.map fun t =>
                    let feat := (T.dict.feature t.node.lexType t.node.wordId).getD []
                    let surf := encodeUtf8 ((sent.drop t.startWord).take (t.endWord - t.startWord))
                    s!"{t.startWord}-{t.endWord}:{hexOfBytes surf}:{t.node.lexType}:{t.node.wordId}:{t.node.wordCost}:{t.node.minCost}:{hexOfBytes feat}"
                  want == its.map projTokPos
            -- C08: optimal cost equals that of the extended system dictionary
            let ok8 := match TE, TM with
              | some TEx, some TMm =>
                if sent.isEmpty then true else
                let LtE := buildLattice (latEnvOf TEx.dict.tokDict (compileSent TEx.dict.tokDict sent) TEx.opts)
                let LtM := buildLattice (latEnvOf TMm.dict.tokDict (compileSent TMm.dict.tokDict sent) TMm.opts)
                let implTotal : Int := match its.getLast? with
                  | none => TMm.dict.cost 0 0
                  | some t => t.total + TMm.dict.cost t.right 0
                LtE.eos.minCost == implTotal && LtM.eos.minCost == implTotal
              | _, _ => true
            -- C03 (astral clause): an unknown word starting with a character above U+FFFF must
            -- carry an entry of DEFAULT (category id 0), the category of characters absent from char.def
            let okA : Bool := match TM with
              | none => true
              | some T => its.all fun t =>
                  !(t.lexType == 2 && decide (sent.getD t.start 0 ≥ 65536)) ||
                  ((T.dict.unk[t.wordId]?).map (·.cateId) == some 0)
            go ops (i + 1) sent tokd cnts (a3, a6 && ok6, a8 && ok8, a13, ((if okA then [] else ["!astral"]) ++ its.map projTok) :: projs)
          else go ops (i + 1) sent tokd cnts acc
        | none => go ops (i + 1) sent tokd cnts acc
      | .lattice =>
        let ok3 := match (find i).bind parseLat, TM with
          | some lat, some T =>
            if sent.isEmpty || !tokd then true else
            let Lt := buildLattice (latEnvOf T.dict.tokDict (compileSent T.dict.tokDict sent) T.opts)
            (List.range lat.length).all fun e =>
              let mine := (endsAt Lt.ends e).map fun n =>
                [n.wordId, n.lexType, n.startNode, n.startWord, n.leftId, n.rightId]
              sortStrs ((lat.getD e []).map toString) == sortStrs (mine.map toString)
          | _, _ => true
        go ops (i + 1) sent tokd cnts (a3 && ok3, a6, a8, a13, projs)
      | .counts =>
        match find i with
        | some ("counts" :: nl :: rest) =>
          match natOf nl with
          | some nl =>
            let l := (rest.take nl).filterMap natOf
            let r := ((rest.drop (nl + 1))).filterMap natOf
            go ops (i + 1) sent tokd (l, r) acc
          | none => go ops (i + 1) sent tokd cnts acc
        | _ => go ops (i + 1) sent tokd cnts acc
      | .probs =>
        match find i with
        | some ("probs" :: nl :: rest) =>
          match natOf nl with
          | some nl =>
            let l := (rest.take nl).filterMap natOf
            let r := ((rest.drop (nl + 1))).filterMap natOf
            let ok := if cnts.1.isEmpty then true else probsOk cnts.1 l && probsOk cnts.2 r
            go ops (i + 1) sent tokd cnts (a3, a6, a8, a13 && ok, projs)
          | none => go ops (i + 1) sent tokd cnts acc
        | _ => go ops (i + 1) sent tokd cnts acc
      | _ => go ops (i + 1) sent tokd cnts acc
  -- C08 (verify clause): every user lexicon the implementation ACCEPTED has its ids inside the connector
  let firstFail : Nat := match parts.head? with
    | some (t :: _) => if t.startsWith "D" then (t.drop 1).toString.toNat?.getD 1000000 else 1000000
    | _ => 1000000
  let p8v : Bool := (c.dops.zipIdx.all fun (op, i) =>
    match op with
    | .user b =>
      if i ≥ firstFail then true else
      match (parseLexCsv Fixes.all b).bind (fun rows => Outcome.ofOption (lexOfRows rows)) with
      | .ok u => paramsInRange (u.entries.map (·.param)) D0.numLeft D0.numRight
      | _ => false
    | _ => true)
  let (p3, p6, p8, p13, projs) := go c.wops 0 [] false ([], []) (true, true, true, true, [])
  let p8 := p8 && p8v
  -- C06 (cost clause): the implementation's connection-cost table after the history is the original table
  -- permuted by the applied mappings (the model's table, theorem `mapIds_cost` / `history_costs_refined`)
  let p6k : Bool := match parts.find? (fun p => p.head? == some "K"),
      (match runDOps Fixes.all D0 c.dops 0 with | .ok D => connPart D c.dops | _ => none) with
    | some ik, some mk => " ".intercalate ik == mk
    | _, _ => true
  let p6 := p6 && p6k
  let p3a := projs.all fun p => !(p.contains "!astral")
  let projs := projs.map fun p => p.filter (· != "!astral")
  let p12 := match projs with
    | [] => true
    | x :: xs => xs.all (· == x)
  s!"C03={b p3} C03A={b p3a} C06={b p6} C08={b p8} C12={b p12} C13={b p13} NQ={projs.length}"

/-! ### Cross-check of the two dictionary-mapping models

`Vibrato.Mapper` (Model/Mapper.lean) is the model the theorems of `Props/C06map.lean` and
`Props/C13probs.lean` are about; `DictM` (Model/Dict.lean) is the model compared with the
implementation.  Every `tok` case with dictionary operations runs both and compares them, so
the `Mapper` model is tied to the code through `DictM`. -/

def toMapperDict (D : DictM) : Mapper.Dict :=
  let ps (es : List LexEntry) : List Mapper.Param :=
    es.map fun e => ⟨e.param.leftId, e.param.rightId, e.param.wordCost⟩
  { sysParams := ps D.sys.entries
    userParams := D.user.map fun u => ps u.entries
    conn := .matrix { data := (List.range D.numLeft).flatMap fun l =>
                        (List.range D.numRight).map fun r => D.cost r l,
                      numRight := D.numRight, numLeft := D.numLeft }
    unkParams := D.unk.map fun e => ⟨e.param.leftId, e.param.rightId, e.param.wordCost⟩
    stored := D.mapper.map fun m => ⟨m.1, m.2⟩ }

/-- `some true` = both models agree on the whole history, `some false` = they differ,
`none` = not applicable -/
def mapperAgree (fx : Fixes) (D0 : DictM) (dops : List DOp) : Option Bool :=
  if dops.isEmpty then none else
  let rec go : DictM → Mapper.Dict → List DOp → Bool
    | _, _, [] => true
    | D, M, op :: ops =>
      let step : Outcome DictM × Option (Mapper.Outcome Mapper.Dict) := match op with
        | .map l r => (D.mapIds fx l r, some (M.mapIds fx.f3 l r))
        | .userNone => (D.resetUser fx none, some (.ok M.clearUser))
        | .writeRead => (.ok D, some (.ok M))
        | .user b =>
          match (parseLexCsv fx b).bind (fun rows => Outcome.ofOption (lexOfRows rows)) with
          | .ok u => (D.resetUser fx (some b),
              some (M.loadUserChecked (u.entries.map fun e => ⟨e.param.leftId, e.param.rightId, e.param.wordCost⟩)))
          | _ => (D.resetUser fx (some b), none)
      match step with
      | (.ok D', some (.ok M')) => toMapperDict D' == M' && go D' M' ops
      | (.err, some .err) => true
      | (.panic, some .panic) => true
      | (.err, none) => true
      | (.panic, none) => true
      | _ => false
  some (go D0 (toMapperDict D0) dops)

/-- Are all lattices of the history exact under `u16` back pointers (`Props/C02u16.stepW_eq_step`:
then the faithful step function used here coincides with `WorkerM.step`, the one the theorems are
about)?  `IDX16=0` marks a case outside that hypothesis (known finding F15). -/
def allExact (fx : Fixes) (T : TokenizerM) : WorkerM → List WOp → Bool
  | _, [] => true
  | w, op :: ops =>
    WorkerM.exactOp 65536 T w op &&
      (match w.step16 fx T op with
       | none => true
       | some (w', _) => allExact fx T w' ops)

def idx16Flag (fx : Fixes) (D : DictM) (c : Case) : String :=
  match runDOps fx D c.dops 0 with
  | .ok D' =>
    match mkTokenizerH c.histIgn D' c.ign c.maxg with
    | some T => if allExact fx T WorkerM.fresh c.wops then " IDX16=1" else " IDX16=0"
    | none => ""
  | _ => ""

def handleTokP (fx : Fixes) (dicts : Dicts) (toks : List String) : String :=
  match parseCase toks with
  | none => "badinput"
  | some c =>
    match dicts.lookup c.dname with
    | none => "nodict"
    | some D =>
      let mm := match mapperAgree fx D c.dops with
        | none => ""
        | some true => " MAPPERMODEL=1"
        | some false => " MAPPERMODEL=0"
      modelObs fx D c.dops c.ign c.maxg c.wops c.histIgn ++ " P " ++ evalP fx D c ++ " " ++ evalP2 D c ++ mm ++ idx16Flag fx D c

end Vibrato.Driver.Tok
