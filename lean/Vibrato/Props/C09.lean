/-
C09 — Truncated or foreign dictionary images are rejected.

Model: `Vibrato/Model/Image.lean` (`readImage` = `Dictionary::read`, outcomes
`ok / err / panic`).  Helper lemmas: `Vibrato/Proofs/Framed.lean`, `Vibrato/Proofs/Image.lean`.

All statements conclude `= .err`: the reader returns `Err`, it neither accepts a smaller
dictionary nor panics.
-/
import Vibrato.Proofs.Image
import Vibrato.Proofs.ImageExamples

namespace Vibrato.C09
open Vibrato.Bincode Vibrato.Image

/-- Every strict prefix of a valid image is rejected with an error (for every dictionary:
all three connector kinds, with or without user lexicon and mapper). -/
theorem strict_prefix_rejected (D : Dict) (p : List UInt8) (hwf : WFsize D)
    (hp : p <+: writeImage D) (hne : p ≠ writeImage D) : readImage p = .err := by
  have hrt := rt_decodeImage D hwf []
  rw [List.append_nil] at hrt
  have := framed_decodeImage.strict_prefix_err hrt hp hne
  simp [readImage, this]

example : ∀ n, n < (writeImage Examples.dMatrix).length →
    readImage ((writeImage Examples.dMatrix).take n) = .err := by
  intro n hn
  apply strict_prefix_rejected _ _ Examples.wf_dMatrix (List.take_prefix _ _)
  intro h
  have := congrArg List.length h
  simp at this
  omega

/-- The same for *any* accepted stream, canonical or not: if the reader accepts `bs` having
consumed `bs.length - rest.length` bytes, it rejects every shorter prefix of `bs`.  (So an
image cut anywhere inside the part the reader looks at is never loaded.) -/
theorem accepted_cut_rejected (bs rest : List UInt8) (D : Dict)
    (h : decodeImage bs = .ok D rest) (p : List UInt8) (hp : p <+: bs)
    (hlen : p.length + rest.length < bs.length) : readImage p = .err := by
  obtain ⟨used, e, _, s⟩ := framed_decodeImage _ _ _ h
  subst e
  have hpu : p <+: used := by
    apply List.prefix_of_prefix_length_le hp (List.prefix_append _ _)
    simp at hlen; omega
  have hne : p ≠ used := by
    intro hc; subst hc; simp at hlen
  simp [readImage, s p hpu hne]

set_option maxRecDepth 20000 in
example : readImage ((writeImage Examples.dRaw ++ [1, 2, 3]).take 40) = .err :=
  accepted_cut_rejected (writeImage Examples.dRaw ++ [1, 2, 3]) [1, 2, 3] Examples.dRaw
    (rt_decodeImage _ Examples.wf_dRaw _) _ (List.take_prefix _ _) (by decide)

/-- A stream that does not start with the model magic (wrong bytes, a strict prefix of the
magic, the empty stream) is rejected with an error. -/
theorem foreign_magic_rejected (b : List UInt8) (h : ¬ magic <+: b) : readImage b = .err := by
  have : decodeImage b = .err := by
    unfold decodeImage
    by_cases hlen : b.length < magic.length
    · exact andThen_err (by simp [readExact, hlen])
    · have hr : readExact magic.length b = .ok (b.take magic.length) (b.drop magic.length) := by
        simp [readExact, hlen]
      rw [andThen_ok hr]
      have hne : ¬ b.take magic.length = magic := by
        intro hc
        exact h (hc ▸ List.take_prefix _ _)
      simp [hne]
  simp [readImage, this]

example : readImage [] = .err := foreign_magic_rejected _ (by decide)
example : readImage (magic.take 20) = .err := foreign_magic_rejected _ (by decide)
/-- An image of the previous format version ("VibratoTokenizer 0.4\n"). -/
example : readImage (magic.set 19 0x34 ++ encodeDict Examples.dDual) = .err :=
  foreign_magic_rejected _ (by decide)

end Vibrato.C09
