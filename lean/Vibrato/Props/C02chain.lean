/-
C02 on chain sentences (stream `tokchain`): the closed form the driver answers with is a theorem about the lattice model.

For the environment `chainEnv n w c` (one word, one segmentation) EVERY node stored at boundary `e` of the built lattice starts
at `e - 1` and carries `min_cost = e·(w + c)` — for every sentence length, every buffer history, every cost pair within the
32-bit bound of `EnvOK`.  Hence every reported token `i` (0-based) has `total_cost = (i+1)·(w+c)`.
-/
import Vibrato.Props.C02
import Vibrato.Model.Chain

namespace Vibrato

theorem chain_cands_mem {n : Nat} {w c : Int} {p : Nat} {x : Cand} (h : x ∈ (chainEnv n w c).cands p) :
    x.endWord = p + 1 ∧ x.wordCost = w := by
  simp only [chainEnv] at h
  split at h
  · simp only [List.mem_singleton] at h; subst h; exact ⟨rfl, rfl⟩
  · cases h

/-- **Every node of a chain lattice**: stored at boundary `e > 0`, it starts at `e - 1` and its `min_cost` is `e·(w+c)`. -/
theorem chain_node_cost (n : Nat) (w c C W : Int) (hE : EnvOK (chainEnv n w c) C W) (b : Nat) :
    ∀ e, 0 < e → ∀ x ∈ endsAt (buildLattice (chainEnv n w c) b).ends e,
      x.startNode + 1 = e ∧ x.startWord + 1 = e ∧ x.minCost = (e : Int) * (w + c) := by
  have h0 := reset_inv (chainEnv n w c) C W b
  obtain ⟨hinv, _, _⟩ := buildLoop_inv hE (resetEnds b (chainEnv n w c).len) 0 h0 (Nat.zero_le _)
  have hends : (buildLattice (chainEnv n w c) b).ends = (buildLoop (chainEnv n w c) (resetEnds b (chainEnv n w c).len) 0).1 := rfl
  rw [← hends] at hinv
  intro e
  induction e using Nat.strongRecOn with
  | _ e ih =>
    intro he x hx
    obtain ⟨hok, _⟩ := hinv.nodes e he x hx
    obtain ⟨cd, hcd, hend, _, _, _, _, hwc⟩ := hok.fromCand
    obtain ⟨hcend, hcw⟩ := chain_cands_mem hcd
    have hsw : x.startWord + 1 = e := by rw [← hend, hcend]
    have hsn : x.startNode = x.startWord := by
      have := hok.sw_eq
      simp only [chainEnv, Nat.add_zero] at this
      exact this.symm
    have hsn1 : x.startNode + 1 = e := by rw [hsn]; exact hsw
    refine ⟨hsn1, hsw, ?_⟩
    obtain ⟨m, hm, hcost⟩ := hok.back
    have hmmem : m ∈ endsAt (buildLattice (chainEnv n w c) b).ends x.startNode := List.mem_of_getElem? hm
    have hxw : x.wordCost = w := by rw [← hwc, hcw]
    have hconn : ∀ r l, (chainEnv n w c).conn r l = c := fun _ _ => rfl
    rw [hcost, hxw]
    unfold stepCost
    rw [hconn]
    rcases Nat.eq_zero_or_pos x.startNode with h0' | hpos
    · -- the predecessor is BOS
      rw [h0', hinv.bos] at hmmem
      simp only [List.mem_singleton] at hmmem
      subst hmmem
      have : e = 1 := by omega
      subst this
      simp [bosNode]
      omega
    · have hlt : x.startNode < e := by omega
      obtain ⟨_, _, hmc⟩ := ih x.startNode hlt hpos m hmmem
      rw [hmc]
      have : (e : Int) = (x.startNode : Int) + 1 := by omega
      rw [this]
      simp only [Int.add_mul, Int.one_mul]
      omega

theorem rpath_mem {L : Ends} : ∀ (π : List (Nat × Node)) (s : Nat), RPath L π s →
    ∀ p ∈ π, 0 < p.1 ∧ p.2 ∈ endsAt L p.1
  | [], _, _, p, hp => by cases hp
  | (e1, n) :: rest, s, h, p, hp => by
    simp only [RPath] at h
    obtain ⟨he, hpos, hmem, hrest⟩ := h
    rcases List.mem_cons.mp hp with rfl | hp'
    · exact ⟨by simpa [he] using hpos, by simpa [he] using hmem⟩
    · exact rpath_mem rest n.startNode hrest p hp'

/-- **The tokens of a chain sentence**: every reported token `t` covers one character and
`t.total_cost = t.end·(w+c)`, i.e. token `i` (0-based) carries `(i+1)·(w+c)` — the closed form of the stream `tokchain`. -/
theorem chain_tokens (n : Nat) (w c C W : Int) (hE : EnvOK (chainEnv n w c) C W)
    (hcov : Covered (chainEnv n w c)) (b : Nat) :
    ∃ ts, tokensOf (buildLattice (chainEnv n w c) b) = some ts ∧
      ∀ t ∈ ts, t.startWord + 1 = t.endWord ∧ t.node.minCost = (t.endWord : Int) * (w + c) := by
  obtain ⟨π, hπ, hpath, _, _⟩ := viterbi_optimal (chainEnv n w c) C W hE hcov b
  refine ⟨(π.map fun (e, nd) => ({ startWord := nd.startWord, endWord := e, node := nd } : Tok)).reverse, ?_, ?_⟩
  · simp [tokensOf, hπ]
  · intro t ht
    simp only [List.mem_reverse, List.mem_map] at ht
    obtain ⟨⟨e, nd⟩, hmem, rfl⟩ := ht
    obtain ⟨hpos, hin⟩ := rpath_mem π _ hpath (e, nd) hmem
    obtain ⟨_, hsw, hc⟩ := chain_node_cost n w c C W hE b e hpos nd hin
    exact ⟨hsw, hc⟩

/-- the chain environment is covered (a candidate at every position) -/
theorem chain_covered (n : Nat) (w c : Int) : Covered (chainEnv n w c) := by
  intro sw hsw
  simp only [chainEnv] at hsw ⊢
  simp [hsw]

/-- ... and within the cost bound whenever `(n+1)·(max c 0 + max w 0)` fits 31 bits: the cases of the stream
(40 000 × (32 767, 1), 65 000 × (32 767, 255), 30 000 × (−32 768, −300)) all do. -/
theorem chain_envOK (n : Nat) (w c : Int) (hb : ((n : Int) + 1) * (max c 0 + max w 0) ≤ MAX_COST) :
    EnvOK (chainEnv n w c) (max c 0) (max w 0) where
  cands_range := by
    intro sw hsw x hx
    obtain ⟨he, _⟩ := chain_cands_mem hx
    simp only [chainEnv] at hsw
    simp only [chainEnv]
    omega
  conn_le := by intro r l; simp only [chainEnv]; omega
  word_le := by
    intro sw _ x hx
    obtain ⟨_, hw⟩ := chain_cands_mem hx
    rw [hw]; omega
  C_nonneg := by omega
  W_nonneg := by omega
  bound := by simpa [chainEnv] using hb

/-- Non-vacuity: the largest case of the stream satisfies the hypotheses. -/
example : ((65000 : Int) + 1) * (max 255 0 + max 32767 0) ≤ MAX_COST := by decide

end Vibrato
