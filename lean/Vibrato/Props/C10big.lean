/-
C10 for the bigram builders — `SystemDictionaryBuilder::from_readers_with_bigram_info`
(lex.csv, bigram.right, bigram.left, bigram.cost, char.def, unk.def, `dual_connector`).

Property theorems only; helper lemmas are in `Proofs/DictBigram.lean`.  The model is
`Model/DictBigram.lean`:

* `Bigram.buildBigram fx oc split … dual : Outcome Built` is the Rust builder (same order of
  parsing steps, same error and panic sites), with the connector kept as a connector
  (`Bigram.Conn.raw` / `.dual`, models `Model/RawConnector.lean`, `Model/DualConnector.lean`);
* `Bigram.Built.table oc` evaluates `Connector::cost` on the whole `numRight × numLeft` table;
* `Bigram.buildBigramDictWith fx oc split …` = builder, then table, as a `DictM`;
  `buildBigramDict fx …` is its instance for the release profile (`oc = false`: wrapping `i32`
  arithmetic) and the greedy template split with ascending iteration order (`split = none`).

Parameters that are not file contents:
* `oc` — `overflow-checks` of the build profile.  The totality theorems are for `oc = false`
  (the default of `cargo build --release`); with `oc = true` the builder itself panics on
  `i32` overflow in `create_matrix_connector` (`overflow_checks_builder_panics`).
* `split` — `DualConnector::remove_feature_templates_greedy` iterates a `hashbrown::HashSet`, so
  the set of templates kept in the raw part is NOT a function of the files (observed on the
  real crate: same files, different cost tables from run to run whenever the pre-summed part
  saturates `i16`).  All theorems hold for EVERY split `some s` with `s.length ≤ 8` and for the
  model's own greedy search (`none`).

Size hypotheses.  The Rust code counts with `u32` (double-array base), `U31` (feature ids) and
`u16` (connection ids) and panics when these overflow, so "for all byte contents" holds up to
these bounds only:
* `lineCount cost ≤ 65535` (the first-fit base of `ScorerBuilder::build` stays below `2^32`: at
  most `entries²` bases are blocked; also covers `U31::new(map.len()).unwrap()`);
* dual connector: at most 65535 lines in `bigram.right` / `bigram.left`
  (`u16::try_from(conn_id).unwrap()`: with 65536 pairwise different rows the builder panics —
  verified on the real crate, `dual_u16_conn_id_panics` is the model's site);
* raw connector: `RawConnector::cost(65535, _)` panics (`right_id + 1` in `u16`) although
  `from_readers_with_bigram_info` ACCEPTS a `bigram.right` of 65535 lines and a lexicon entry
  with right id 65535 (verified on the real crate: the accepted dictionary panics in
  `tokenize`) — `raw_cost_panics_at_u16_max`; `bigram_cost_total` therefore asks for ids
  `< 65535` for the raw connector.
-/
import Vibrato.Props.C10
import Vibrato.Proofs.DictBigram

namespace Vibrato
open Vibrato.Bigram

/-! ## 1. Totality -/

/-- **`from_readers_with_bigram_info` is total** (repaired tree `Fixes.all`, release
arithmetic): for ALL byte contents of the six files with at most 65535 lines in `bigram.cost`
(and, for the dual connector, at most 65535 lines in `bigram.right` and `bigram.left`), both
values of `dual_connector` and every template split, it returns a dictionary or an error value,
never a panic. -/
theorem bigram_builders_total (split : Option (List Nat))
    (lex right left cost chardef unk : List UInt8) (dual : Bool)
    (hC : lineCount cost ≤ 65535)
    (hD : dual = true → lineCount right ≤ 65535 ∧ lineCount left ≤ 65535) :
    buildBigram Fixes.all false split lex right left cost chardef unk dual ≠ .panic :=
  buildBigram_ne_panic split lex right left cost chardef unk dual hC hD

/-- The same in bytes: files of at most 65535 bytes (a file has at most as many lines as
bytes) — in particular every single-edit corruption of a small valid file. -/
theorem bigram_builders_total_small (split : Option (List Nat))
    (lex right left cost chardef unk : List UInt8) (dual : Bool)
    (hC : cost.length ≤ 65535) (hR : right.length ≤ 65535) (hL : left.length ≤ 65535) :
    buildBigram Fixes.all false split lex right left cost chardef unk dual ≠ .panic :=
  bigram_builders_total split lex right left cost chardef unk dual
    (Nat.le_trans (lineCount_le cost) hC)
    (fun _ => ⟨Nat.le_trans (lineCount_le right) hR, Nat.le_trans (lineCount_le left) hL⟩)

/-- **`buildBigramDict` is total**: builder AND evaluation of the whole cost table
(`Connector::cost` for every pair) never panic; for the raw connector the connector must stay
below `u16::MAX` ids per side (at most 65534 lines), see `raw_cost_panics_at_u16_max`. -/
theorem bigram_dict_builders_total (lex right left cost chardef unk : List UInt8) (dual : Bool)
    (hC : lineCount cost ≤ 65535)
    (hD : dual = true → lineCount right ≤ 65535 ∧ lineCount left ≤ 65535)
    (hRaw : dual = false → lineCount right ≤ 65534 ∧ lineCount left ≤ 65534) :
    buildBigramDict Fixes.all lex right left cost chardef unk dual ≠ .panic := by
  unfold buildBigramDict buildBigramDictWith
  have h1 := bigram_builders_total none lex right left cost chardef unk dual hC hD
  split
  · simp
  · rename_i hp; exact absurd hp h1
  · rename_i B hB
    obtain ⟨t, ht⟩ := table_ok hB (by omega) (by intro s hs; cases hs) hRaw
    rw [ht]
    simp

/-! ### Witnesses: the hypotheses are not idle -/

namespace C10big

def isPanic {α : Type} : Outcome α → Bool
  | .panic => true
  | _ => false

/-- `a,0,0,1,x\n` -/
def lexA : List UInt8 := [97, 44, 48, 44, 48, 44, 49, 44, 120, 10]
/-- `1<TAB>a\n` / `1<TAB>b\n`: one feature template -/
def right1 : List UInt8 := [49, 9, 97, 10]
def left1 : List UInt8 := [49, 9, 98, 10]
/-- `/<TAB>5\n` -/
def cost1 : List UInt8 := [47, 9, 53, 10]
/-- `DEFAULT 0 1 0\n` -/
def charDefault : List UInt8 := [68, 69, 70, 65, 85, 76, 84, 32, 48, 32, 49, 32, 48, 10]
/-- `DEFAULT,0,0,10,*\n` -/
def unkDefault : List UInt8 := [68, 69, 70, 65, 85, 76, 84, 44, 48, 44, 48, 44, 49, 48, 44, 42, 10]
/-- ten templates, all `a` / `A`; `a/A<TAB>2147483647\n` -/
def right10 : List UInt8 := [49, 9, 97, 44, 97, 44, 97, 44, 97, 44, 97, 44, 97, 44, 97, 44, 97, 44, 97, 44, 97, 10]
def left10 : List UInt8 := [49, 9, 65, 44, 65, 44, 65, 44, 65, 44, 65, 44, 65, 44, 65, 44, 65, 44, 65, 44, 65, 10]
def costMax : List UInt8 := [97, 47, 65, 9, 50, 49, 52, 55, 52, 56, 51, 54, 52, 55, 10]

end C10big

open C10big in
set_option maxRecDepth 100000 in
/-- **Pinned tree (findings F11, F17)**: with fewer than 8 feature templates the dual builder
panics (`feat_template_size - SIMD_SIZE`), with no template at all the raw builder panics
(`chunks_mut(0)`), on files for which the repaired tree returns `Ok` / `Err`. -/
theorem pinned_builder_panics :
    isPanic (buildBigram Fixes.pinned false none lexA right1 left1 cost1 charDefault unkDefault true) = true ∧
    isPanic (buildBigram Fixes.pinned false none lexA [] [] cost1 charDefault unkDefault false) = true ∧
    (buildBigram Fixes.all false none lexA right1 left1 cost1 charDefault unkDefault true).tag = "ok" ∧
    (buildBigram Fixes.all false none lexA [] [] cost1 charDefault unkDefault false).tag = "err" := by
  decide

open C10big in
set_option maxRecDepth 100000 in
/-- **Overflow checks**: with `overflow-checks = true` (debug profile) the dual builder panics in
`create_matrix_connector` when two pre-summed templates overflow `i32` (verified on the real
crate, which the harness compiles with overflow checks); in the release profile the sum wraps
and the builder returns a dictionary. -/
theorem overflow_checks_builder_panics :
    isPanic (buildBigram Fixes.all true none lexA right10 left10 costMax charDefault unkDefault true) = true ∧
    (buildBigram Fixes.all false none lexA right10 left10 costMax charDefault unkDefault true).tag = "ok" := by
  decide

/-- **`u16::try_from(conn_id).unwrap()`** (dual connector): the 65537-th distinct feature vector
panics.  On the real crate: `bigram.right` with 65536 pairwise different 9-template lines. -/
theorem dual_u16_conn_id_panics (idxs : List Nat) (row : List Nat) (rest : List (List Nat))
    (cm : List Nat) (feats : List (List Nat)) (hlen : 65536 ≤ feats.length)
    (hnew : DualConnector.lookupVec (DualConnector.project idxs row) feats = none) :
    DualConnector.featureMapLoop idxs (row :: rest) cm feats = .panic := by
  simp only [DualConnector.featureMapLoop, DualConnector.internVec, hnew]
  rw [if_neg (by omega)]

/-! ## 2. Acceptance implies the structural invariant -/

/-- **Acceptance establishes `DictWF` up to the range of the connection costs** (pinned and
repaired parser alike, any profile, any split): table of `numRight * numLeft` entries, all
lexicon / unknown ids inside `num_left` / `num_right` of the connector, all word costs `i16`s,
feature tables as long as entry tables, unknown entries and every character's primary category
a defined category, packed character entries in range; the connection costs are bounded by the
largest table entry (they are `i32` sums, NOT `i16`s: `bigram_costs_exceed_i16`).  If all table
entries happen to be `i16`s the dictionary is `DictWF`, and `wf_is_safe`,
`accepted_ids_in_range`, `builders_preserve_wf`, `applyOps_spec` apply unchanged. -/
theorem bigram_builders_establish_wf {fx : Fixes} {oc : Bool} {split : Option (List Nat)}
    {lex right left cost chardef unk : List UInt8} {dual : Bool} {D : DictM}
    (h : buildBigramDictWith fx oc split lex right left cost chardef unk dual = .ok D) :
    DictWFc (connBound D) D ∧ D.user = none ∧ D.mapper = none ∧
      ((∀ x ∈ D.conn, I16 x) → DictWF D) := by
  obtain ⟨h1, h2, h3⟩ := buildBigramDictWith_wfc h
  exact ⟨h1, h2, h3, fun hc => h1.toWF hc⟩

/-- The instance for `buildBigramDict`. -/
theorem bigram_dict_establish_wf {fx : Fixes} {lex right left cost chardef unk : List UInt8}
    {dual : Bool} {D : DictM}
    (h : buildBigramDict fx lex right left cost chardef unk dual = .ok D) :
    DictWFc (connBound D) D ∧ ((∀ x ∈ D.conn, I16 x) → DictWF D) := by
  obtain ⟨h1, _, _, h4⟩ := bigram_builders_establish_wf h
  exact ⟨h1, h4⟩

open C10big in
/-- The `i16` clause of `DictWF` does fail for accepted bigram dictionaries: one template with
the listed pair `a/b ↦ 40000` gives the table `[0, 0, 0, 40000]`. -/
theorem bigram_costs_exceed_i16 :
    (buildBigramDict Fixes.all lexA right1 left1
        [97, 47, 98, 9, 52, 48, 48, 48, 48, 10] charDefault unkDefault false).bind
      (fun D => .ok D.conn) = .ok [0, 0, 0, 40000] := by
  decide

/-- **Every id an accepted bigram dictionary hands to the tokenizer is in range** (no
hypothesis on the costs): the statement of `accepted_ids_in_range`. -/
theorem bigram_accepted_ids_in_range {C : Int} {D : DictM} (hD : DictWFc C D) :
    0 < D.numLeft ∧ 0 < D.numRight ∧
    (∀ r l, r < D.numRight → l < D.numLeft → r * D.numLeft + l < D.conn.length) ∧
    (∀ e ∈ D.sys.entries, e.param.leftId < D.numLeft ∧ e.param.rightId < D.numRight) ∧
    (∀ u, D.user = some u → ∀ e ∈ u.entries,
      e.param.leftId < D.numLeft ∧ e.param.rightId < D.numRight) ∧
    (∀ e ∈ D.unk, e.param.leftId < D.numLeft ∧ e.param.rightId < D.numRight ∧
      e.cateId < D.chars.names.length) ∧
    D.sys.features.length = D.sys.entries.length ∧
    (∀ u, D.user = some u → u.features.length = u.entries.length) ∧
    (∀ c, (D.chars.charInfo c).baseId < D.chars.names.length) := by
  -- the statement does not mention the values of the table: use the dictionary with a zero table
  let Z : DictM := { D with conn := D.conn.map fun _ => 0 }
  have hZ : DictWF Z :=
    ⟨by simpa [Z] using hD.conn_len, by intro x hx; simp [Z] at hx; obtain ⟨_, rfl⟩ := hx; simp [I16],
      hD.sys_ok, hD.sys_ne, hD.user_ok, hD.unk_ok, hD.mapper_ok, hD.chars_ok⟩
  have := accepted_ids_in_range hZ
  simpa [Z] using this

/-- **Well-formed bigram dictionaries tokenize every string**: `wf_is_safe` with the `i16` bound
on connection costs replaced by the bound `C` of the table (the sentence-length bound becomes
`(|chars| + 1) * (C + 32767) ≤ i32::MAX`). -/
theorem wfc_is_safe {C : Int} {D : DictM} (hD : DictWFc C D) :
    DictOK D.tokDict C 32767 ∧
    (UnkCovered D.tokDict → ∀ (o : TokOpts) (chars : List Nat),
      ((chars.length : Int) + 1) * (C + 32767) ≤ MAX_COST →
      ∃ ts, tokenize D.tokDict o chars = some ts ∧
        ∀ t ∈ ts, t.node.leftId < D.numLeft ∧ t.node.rightId < D.numRight ∧
          D.param t.node.lexType t.node.wordId =
            some ⟨t.node.leftId, t.node.rightId, t.node.wordCost⟩ ∧
          (D.feature t.node.lexType t.node.wordId).isSome) := by
  have hok := dictOK_of_wfc hD
  refine ⟨hok, ?_⟩
  intro hcov o chars hb
  obtain ⟨ts, hts⟩ := tokenize_total D.tokDict C 32767 hok hcov o chars hb
  refine ⟨ts, hts, ?_⟩
  obtain ⟨sn, _, _, _, htok⟩ := tokens_partition D.tokDict C 32767 hok hcov o chars hb ts hts
  intro t ht
  rcases (htok t ht).2 with ⟨hty, e, he, _, hp⟩ | ⟨hty, u, e, hu, he, _, hp⟩ | ⟨hty, p, hpm, hid, hp⟩
  · have hmem : e ∈ D.sys.entries := List.mem_of_getElem? he
    have hpo := hD.sys_ok.1 e hmem
    rw [hp] at hpo
    have hlt : t.node.wordId < D.sys.entries.length := by
      rcases Nat.lt_or_ge t.node.wordId D.sys.entries.length with h | h
      · exact h
      · have : D.tokDict.sys[t.node.wordId]? = none := List.getElem?_eq_none h
        rw [this] at he; cases he
    refine ⟨hpo.1, hpo.2.1, ?_, ?_⟩
    · have he' : D.sys.entries[t.node.wordId]? = some e := he
      simp [hty, DictM.param, he', hp]
    · simp only [hty, DictM.feature]
      rw [List.getElem?_eq_getElem (by rw [hD.sys_ok.2]; exact hlt)]
      rfl
  · simp only [DictM.tokDict, Option.map_eq_some_iff] at hu
    obtain ⟨u0, hu0, rfl⟩ := hu
    have hmem : e ∈ u0.entries := List.mem_of_getElem? he
    have hpo := (hD.user_ok u0 hu0).1 e hmem
    rw [hp] at hpo
    have hlt : t.node.wordId < u0.entries.length := by
      rcases Nat.lt_or_ge t.node.wordId u0.entries.length with h | h
      · exact h
      · rw [List.getElem?_eq_none h] at he; cases he
    refine ⟨hpo.1, hpo.2.1, ?_, ?_⟩
    · simp [hty, DictM.param, hu0, he, hp]
    · simp only [hty, DictM.feature, hu0, Option.bind_some]
      rw [List.getElem?_eq_getElem (by rw [(hD.user_ok u0 hu0).2]; exact hlt)]
      rfl
  · obtain ⟨e, he, _, hep⟩ := C10.unkOf_mem hpm
    have hpo := (hD.unk_ok e (List.mem_of_getElem? he)).1
    rw [hep, hp] at hpo
    rw [hid] at he
    refine ⟨hpo.1, hpo.2.1, ?_, ?_⟩
    · simp [hty, DictM.param, he, hep, hp]
    · simp [hty, DictM.feature, he]

/-- **Acceptance implies safe use** (the form of `accepted_is_safe`).  A dictionary returned by
`from_readers_with_bigram_info` whose cost table is within `i16` — also after any sequence of
successful `reset_user_lexicon_from_reader` / `map_connection_ids_from_iter` calls — is `DictWF`,
has all costs and ids in range, and, provided every character's primary category has an `unk.def`
entry (F9), tokenizes every sentence `chars` with `(|chars| + 1) * 65534 ≤ i32::MAX` without
panicking and without reading outside the connector or the word tables. -/
theorem bigram_accepted_is_safe {lex right left cost chardef unk : List UInt8} {dual : Bool}
    {D0 D : DictM}
    (hbuild : buildBigramDict Fixes.all lex right left cost chardef unk dual = .ok D0)
    (hi16 : ∀ x ∈ D0.conn, I16 x)
    (ops : List BuildOp) (hops : D0.applyOps ops = .ok D) :
    DictWF D ∧ DictOK D.tokDict 32767 32767 ∧
    (UnkCovered D.tokDict → ∀ (o : TokOpts) (chars : List Nat),
      ((chars.length : Int) + 1) * 65534 ≤ MAX_COST →
      ∃ ts, tokenize D.tokDict o chars = some ts ∧
        ∀ t ∈ ts, t.node.leftId < D.numLeft ∧ t.node.rightId < D.numRight ∧
          D.param t.node.lexType t.node.wordId =
            some ⟨t.node.leftId, t.node.rightId, t.node.wordCost⟩ ∧
          (D.feature t.node.lexType t.node.wordId).isSome) := by
  have hD0 : DictWF D0 := (bigram_dict_establish_wf hbuild).2 hi16
  have hD := (applyOps_spec hD0 ops).2 D hops
  exact ⟨hD, wf_is_safe hD⟩

/-- `applyOps_spec` for `DictWFc`: any history of `reset_user_lexicon_from_reader` /
`map_connection_ids_from_iter` calls (arbitrary bytes / id sequences) on a dictionary with
arbitrary `i32` connection costs never panics and preserves the invariant with the same bound
(`map_connection_ids` only permutes the table). -/
theorem applyOps_spec_c {C : Int} {D : DictM} (hD : DictWFc C D) (ops : List BuildOp) :
    D.applyOps ops ≠ .panic ∧ ∀ D', D.applyOps ops = .ok D' → DictWFc C D' := by
  induction ops generalizing D with
  | nil => simp only [DictM.applyOps]; exact ⟨by simp, fun D' h => by cases h; exact hD⟩
  | cons op ops ih =>
    simp only [DictM.applyOps]
    have hop : D.applyOp op ≠ .panic ∧ ∀ D1, D.applyOp op = .ok D1 → DictWFc C D1 := by
      cases op with
      | resetUser csv =>
        exact ⟨(C10.resetUser_spec_c hD csv).1, fun D1 h => ((C10.resetUser_spec_c hD csv).2 D1 h).1⟩
      | mapIds l r =>
        exact ⟨(C10.mapIds_spec_c hD l r).1, fun D1 h => ((C10.mapIds_spec_c hD l r).2 D1 h).1⟩
    split
    · rename_i D1 h1
      exact ih (hop.2 D1 h1)
    · simp
    · rename_i hp; exact absurd hp hop.1

/-- **Acceptance implies safe use, any cost table** (the form of `accepted_is_safe` without the
`i16` hypothesis).  A dictionary returned by `from_readers_with_bigram_info` (template split and
profile arbitrary), also after any sequence of successful `reset_user_lexicon_from_reader` /
`map_connection_ids_from_iter` calls, has all ids in range and all word costs in `i16`, its
connection costs are bounded by `C = connBound D0` (largest entry of the table the builder
produced), and — provided every character's primary category has an `unk.def` entry — it
tokenizes every sentence `chars` with `(|chars| + 1) * (C + 32767) ≤ i32::MAX` without panicking
and without reading outside the connector or the word tables. -/
theorem bigram_accepted_is_safe_i32 {fx : Fixes} {oc : Bool} {split : Option (List Nat)}
    {lex right left cost chardef unk : List UInt8} {dual : Bool} {D0 D : DictM}
    (hbuild : buildBigramDictWith fx oc split lex right left cost chardef unk dual = .ok D0)
    (ops : List BuildOp) (hops : D0.applyOps ops = .ok D) :
    DictWFc (connBound D0) D ∧ DictOK D.tokDict (connBound D0) 32767 ∧
    (UnkCovered D.tokDict → ∀ (o : TokOpts) (chars : List Nat),
      ((chars.length : Int) + 1) * (connBound D0 + 32767) ≤ MAX_COST →
      ∃ ts, tokenize D.tokDict o chars = some ts ∧
        ∀ t ∈ ts, t.node.leftId < D.numLeft ∧ t.node.rightId < D.numRight ∧
          D.param t.node.lexType t.node.wordId =
            some ⟨t.node.leftId, t.node.rightId, t.node.wordCost⟩ ∧
          (D.feature t.node.lexType t.node.wordId).isSome) := by
  have hD0 := (bigram_builders_establish_wf hbuild).1
  have hD := (applyOps_spec_c hD0 ops).2 D hops
  exact ⟨hD, wfc_is_safe hD⟩

/-- **Whole API, any history**: a dictionary built from arbitrary bigram files (within the size
bounds of `bigram_dict_builders_total`) and then subjected to an arbitrary sequence of
user-lexicon loads and id mappings never panics. -/
theorem bigram_total_any_history (lex right left cost chardef unk : List UInt8) (dual : Bool)
    (ops : List BuildOp)
    (hC : lineCount cost ≤ 65535)
    (hD : dual = true → lineCount right ≤ 65535 ∧ lineCount left ≤ 65535)
    (hRaw : dual = false → lineCount right ≤ 65534 ∧ lineCount left ≤ 65534) :
    (buildBigramDict Fixes.all lex right left cost chardef unk dual).bind (·.applyOps ops) ≠ .panic := by
  cases h : buildBigramDict Fixes.all lex right left cost chardef unk dual with
  | panic => exact absurd h (bigram_dict_builders_total lex right left cost chardef unk dual hC hD hRaw)
  | err => simp [Outcome.bind]
  | ok D => exact (applyOps_spec_c (bigram_dict_establish_wf h).1 ops).1

/-! ## 3. The connector cost function is defined on the whole table -/

/-- **`bigram_cost_total`**: for a dictionary accepted by the builder (repaired tree), every pair
`(r, l)` with `r < num_right`, `l < num_left` has a cost — `Connector::cost` (wrapping
arithmetic) neither panics nor reads out of range — for the dual connector without restriction,
for the raw connector for ids below `u16::MAX` (see `raw_cost_panics_at_u16_max`). -/
theorem bigram_cost_total {oc : Bool} {split : Option (List Nat)}
    {lex right left cost chardef unk : List UInt8} {dual : Bool} {B : Built}
    (h : buildBigram Fixes.all oc split lex right left cost chardef unk dual = .ok B)
    (hC : lineCount cost < 2147483647) (hs : ∀ s, split = some s → s.length ≤ 8)
    (r l : Nat) (hr : r < B.numRight) (hl : l < B.numLeft)
    (h16 : dual = false → r < 65535 ∧ l < 65535) :
    ∃ c, B.conn.cost false r l = .ok c :=
  conn_cost_total (buildBigram_spec h).1 hC hs r l hr hl h16

/-- The connector of an accepted dictionary has one id per line of `bigram.right` /
`bigram.left` plus the BOS/EOS id 0; the builder checked every lexicon and unknown id against
exactly these numbers. -/
theorem bigram_connector_dims {oc : Bool} {split : Option (List Nat)}
    {lex right left cost chardef unk : List UInt8} {dual : Bool} {B : Built}
    (h : buildBigram Fixes.all oc split lex right left cost chardef unk dual = .ok B)
    (hC : lineCount cost < 2147483647) (hs : ∀ s, split = some s → s.length ≤ 8) :
    B.numRight = lineCount right + 1 ∧ B.numLeft = lineCount left + 1 ∧
    (∀ e ∈ B.sys.entries, e.param.leftId < B.numLeft ∧ e.param.rightId < B.numRight) ∧
    (∀ e ∈ B.unk, e.param.leftId < B.numLeft ∧ e.param.rightId < B.numRight) := by
  obtain ⟨hc, h1, _, h3, _⟩ := buildBigram_spec h
  obtain ⟨d1, d2⟩ := buildConn_dims hc hC hs
  exact ⟨d1, d2, fun e he => ⟨(h1.1 e he).1, (h1.1 e he).2.1⟩,
    fun e he => ⟨(h3 e he).1.1, (h3 e he).1.2.1⟩⟩

/-- **The `DictM` table is the connector's cost function**: entry `r * numLeft + l` of the
dictionary produced by `buildBigramDictWith` is `Connector::cost(r, l)` of the connector the
builder returned (in particular every pair inside the table has a cost). -/
theorem bigram_table_is_cost {fx : Fixes} {oc : Bool} {split : Option (List Nat)}
    {lex right left cost chardef unk : List UInt8} {dual : Bool} {D : DictM}
    (h : buildBigramDictWith fx oc split lex right left cost chardef unk dual = .ok D) :
    ∃ B, buildBigram fx oc split lex right left cost chardef unk dual = .ok B ∧
      D.numRight = B.numRight ∧ D.numLeft = B.numLeft ∧
      ∀ r l, r < D.numRight → l < D.numLeft → B.conn.cost oc r l = .ok (D.cost r l) := by
  obtain ⟨B, t, hB, ht, rfl⟩ := buildBigramDictWith_ok h
  refine ⟨B, hB, rfl, rfl, ?_⟩
  intro r l hr hl
  have hr' : r < B.numRight := hr
  have hl' : l < B.numLeft := hl
  obtain ⟨x, hx, hc⟩ := costRows_entry oc B.conn B.numLeft _ t ht r r l
    (List.getElem?_range hr') hl'
  rw [hc]
  simp [DictM.cost, Built.toDict, hx]

/-- **`RawConnector::cost` at `u16::MAX`**: `usize::from(right_id + 1)` overflows `u16`; the cost
function panics for id 65535 on either side, whatever the connector.  Since the builder accepts
a `bigram.right` with 65535 lines (then `num_right = 65536`) and a lexicon entry with right id
65535, an accepted dictionary can panic in `tokenize` (verified on the real crate). -/
theorem raw_cost_panics_at_u16_max (oc : Bool) (c : RawConnector.Conn) (l : Nat) :
    (Conn.raw c).cost oc 65535 l = .panic ∧
      (l < 65535 → l < (Conn.raw c).numRight → (Conn.raw c).cost oc l 65535 = .panic) :=
  rawCost_panics_at_u16_max oc c l

/-! ## Non-vacuity -/

section Examples
open C10big

-- nine templates `a..i` / `A..I`, cost lines `/ ↦ 1000`, `a/A ↦ 3`; lexicon entry with ids (1,1)
def C10big.lexB : List UInt8 := "a,1,1,1,x\n".toUTF8.toList
def C10big.right9 : List UInt8 := "1\ta,b,c,d,e,f,g,h,i\n".toUTF8.toList
def C10big.left9 : List UInt8 := "1\tA,B,C,D,E,F,G,H,I\n".toUTF8.toList
def C10big.cost9 : List UInt8 := "/\t1000\na/A\t3\n".toUTF8.toList
def C10big.charD : List UInt8 := "DEFAULT 0 1 0\n".toUTF8.toList
def C10big.unkD : List UInt8 := "DEFAULT,0,0,10,*\n".toUTF8.toList

-- accepted by both connectors, same table (outputs of the real crate: `ok 2 2 9000 0 0 3`)
#guard (match buildBigramDict Fixes.all lexB right9 left9 cost9 charD unkD false with
  | .ok D => D.numRight == 2 && D.numLeft == 2 && D.conn == [9000, 0, 0, 3]
  | _ => false)
#guard (match buildBigramDict Fixes.all lexB right9 left9 cost9 charD unkD true with
  | .ok D => D.numRight == 2 && D.numLeft == 2 && D.conn == [9000, 0, 0, 3]
  | _ => false)
-- a connection id outside the connector is rejected by `build` (`verify`)
#guard (buildBigramDict Fixes.all "a,2,1,1,x\n".toUTF8.toList right9 left9 cost9 charD unkD false).tag == "err"
-- malformed bigram files: error values, not panics
#guard (buildBigramDict Fixes.all lexB "2\ta\n".toUTF8.toList left9 cost9 charD unkD false).tag == "err"
#guard (buildBigramDict Fixes.all lexB right9 left9 "a/A/b\t3\n".toUTF8.toList charD unkD true).tag == "err"
#guard (buildBigramDict Fixes.all lexB right9 [0x31, 0x09, 0xff, 0x0a] cost9 charD unkD true).tag == "err"
#guard (buildBigramDict Fixes.all lexB [] [] cost9 charD unkD true).tag == "err"
-- the pinned tree panics where the repaired one answers (F11: 7 templates, dual)
#guard (buildBigramDict Fixes.pinned lexB "1\ta,b,c,d,e,f,g\n".toUTF8.toList "1\tA,B,C,D,E,F,G\n".toUTF8.toList
  cost9 charD unkD true).tag == "panic"
#guard (buildBigramDict Fixes.all lexB "1\ta,b,c,d,e,f,g\n".toUTF8.toList "1\tA,B,C,D,E,F,G\n".toUTF8.toList
  cost9 charD unkD true).tag == "ok"
-- the split matters exactly under `i16` saturation (`a/A ↦ 40000`, nine templates):
-- template 0 in the matrix part ⇒ 32767, in the raw part ⇒ 40000 (both observed on the real crate)
#guard (match buildBigramDictWith Fixes.all false (some [1, 2, 3, 4, 5, 6, 7, 8]) lexB right9 left9
    "a/A\t40000\n".toUTF8.toList charD unkD true with
  | .ok D => D.conn == [0, 0, 0, 32767]
  | _ => false)
#guard (match buildBigramDictWith Fixes.all false (some [0, 1, 2, 3, 4, 5, 6, 7]) lexB right9 left9
    "a/A\t40000\n".toUTF8.toList charD unkD true with
  | .ok D => D.conn == [0, 0, 0, 40000]
  | _ => false)
-- an accepted bigram dictionary tokenizes ("aba": the word `a`, then the unknown word `ba`)
#guard (match buildBigramDict Fixes.all lexB right9 left9 cost9 charD unkD true with
  | .ok D => ((tokenize D.tokDict ⟨none, none⟩ [97, 98, 97]).map (·.length)) == some 2
  | _ => false)

/-- The hypotheses of `bigram_builders_total` hold for the one-template files (lines ≤ bytes). -/
example : buildBigram Fixes.all false none lexA right1 left1 cost1 charDefault unkDefault true ≠ .panic :=
  bigram_builders_total_small none _ _ _ _ _ _ _ (by decide) (by decide) (by decide)

set_option maxRecDepth 100000 in
/-- `bigram_accepted_is_safe` is not vacuous: the one-template dictionary is accepted and its
table `[5, 0, 0, 0]` is within `i16`. -/
example : ∃ D, buildBigramDict Fixes.all lexA right1 left1 cost1 charDefault unkDefault false = .ok D ∧
    ∀ x ∈ D.conn, I16 x := by
  refine ⟨_, rfl, ?_⟩
  intro x hx
  have hx' : x ∈ ([5, 0, 0, 0] : List Int) := hx
  simp only [List.mem_cons, List.not_mem_nil, or_false] at hx'
  rcases hx' with rfl | rfl | rfl | rfl <;> simp [I16]

end Examples

end Vibrato
