/-
Property C18, second half — from the five SEED FILES to the connection classes.

"In the generated dictionary, words whose expanded right-context (left-context) bigram feature
tuples coincide share a left (right) connection id, and the tuple listed for that id in
bigram.left (bigram.right) equals the expansion of every word carrying it."

`Props/C18.lean` proves this for abstract lists of feature-id tuples (`classes_spec`,
`tuple_listed`); `Model/Trainer.lean` starts from the serialised model image.  This file closes the
gap in between: `TrainerConfig::from_readers` followed by `Trainer::new`
(`Model/TrainerNew.lean`: `fromReaders`, `trainerNew`, `labelFeatureSets`), i.e. WHICH feature set
is registered for WHICH row of lex.csv / unk.def, with WHICH of the three rewriters.

* `label_sets_spec`      every label's feature set is the one of ITS OWN row: cells of its own feature
                         string, unigram / left / right rewriter of the respective `rewrite.def`
                         section, unigram / LEFT / RIGHT templates — read through the final
                         interning maps, which are injective (`StateOK`);
* `rewriters_of_sections`, `section_rewrite_spec`
                         the three tries are built from the rules under `[unigram rewrite]`,
                         `[left rewrite]`, `[right rewrite]` respectively, and (repaired builder)
                         rewrite by the first registered matching rule of that section;
* `label_rows_of_files`  label `i + 1` for `i < #lexicon rows` is row `i` of lex.csv (file order, no
                         de-duplication), followed by the unk.def rows bucketed by category id;
* `classes_of_rows`, `class_row_listed`
                         composition with `C18.classes_spec` / `C18.tuple_listed`: two rows get the same
                         left (right) connection id iff their right-context (left-context) expansion
                         tuples are equal, and the table row of that id is the tuple of expansions;
* `labels_total`         `labelFeatureSets` never panics on the repaired tree (hypotheses: no template
                         index / `$n` beyond `usize`, no `$0`, fewer than 2^32 - 1 features), with
                         `utf8_agree`: the model's UTF-8 automaton vs. Lean's `String.fromUTF8?`.

Helper lemmas: `Vibrato/Proofs/TrainerNew.lean`.
-/
import Vibrato.Proofs.TrainerNew
import Vibrato.Proofs.TrainerNewTotal
import Vibrato.Proofs.Utf8Agree
import Vibrato.Props.C18

namespace Vibrato.Props.C18new

open Vibrato (Outcome Fixes DictM LexEntry UnkEntryM CharProp)
open Vibrato.Extractor Vibrato.TrainerNew
open Vibrato.Rewriter (RawRule RewriteConfig GoodRules BadRef firstMatch)

/-! ## 1. Every label carries the feature set of its own row -/

/-- **label_sets_spec.**  Let `cfg` be the configuration read from the five files
(`TrainerConfig::from_readers`) and `(sets, fin)` the result of `Trainer::new`: the provider's
feature sets in label order and the feature extractor afterwards.  Then

* `fin`'s three interning maps are injective functions into `[1, next)` (`StateOK`), they extend
  the maps of `cfg.ext` and the templates are unchanged (`After`);
* there is exactly one set per label row (`labelRows cfg`: no de-duplication, label id = index + 1);
* the set of row `i` is `RowSpec cfg.rw fin row`: with `feats` = the cells of the row's OWN feature
  string (`parse_csv_row`), `fu` / `fl` / `fr` = `feats` rewritten by the UNIGRAM / LEFT / RIGHT
  rewriter (unchanged when no rule matches),

      unigram      = ids `fin.uni`   gives to the expansions of the unigram templates over `fu`
                     with the row's category id (templates without feature dropped),
      bigram_right = ids `fin.right` gives to the expansions of the RIGHT templates over `fr`,
      bigram_left  = ids `fin.left`  gives to the expansions of the LEFT  templates over `fl`,

  position by position (`none` where a `?` placeholder refers to `*` / an absent cell), and every
  one of these expansions is interned in `fin`.

No other row, and no rewriter of another section, enters the set of a row: e.g. exchanging the left
and the right rewriter for the unk.def rows changes `fl` / `fr` and contradicts this theorem
whenever the two sections rewrite the row differently. -/
theorem label_sets_spec (fx : Fixes) (lex chardef unk fdef rdef : List UInt8) (cfg : Config)
    (sets : List FeatureSet) (fin : ExtractorState)
    (hcfg : fromReaders fx lex chardef unk fdef rdef = .ok cfg)
    (hrun : trainerNew cfg = .ok (sets, fin)) :
    StateOK fin ∧ After cfg.ext fin ∧ sets.length = (labelRows cfg).length ∧
      ∀ (i : Nat) (row : LabelRow), (labelRows cfg)[i]? = some row →
        ∃ fs, sets[i]? = some fs ∧ RowSpec cfg.rw fin row fs := by
  obtain ⟨h1, _, _⟩ := fromReaders_ok hcfg
  have hst : StateOK cfg.ext := stateOK_of_parse h1
  have hrows := trainerNew_rows cfg (sets, fin) hrun
  obtain ⟨news, e1, e2, ok2, aft2, spec⟩ :=
    rowsLoop_spec cfg.rw (labelRows cfg) ([], cfg.ext) (sets, fin) hst hrows
  simp only [List.nil_append] at e1
  subst e1
  exact ⟨ok2, aft2, e2, fun i row hrow => spec fin (After.refl _) i row hrow⟩

/-- The same for the composed function `labelFeatureSets`. -/
theorem label_sets_spec' (fx : Fixes) (lex chardef unk fdef rdef : List UInt8)
    (sets : List FeatureSet) (fin : ExtractorState)
    (h : labelFeatureSets fx lex chardef unk fdef rdef = .ok (sets, fin)) :
    ∃ cfg, fromReaders fx lex chardef unk fdef rdef = .ok cfg ∧ trainerNew cfg = .ok (sets, fin) ∧
      StateOK fin ∧ After cfg.ext fin ∧ sets.length = (labelRows cfg).length ∧
      ∀ (i : Nat) (row : LabelRow), (labelRows cfg)[i]? = some row →
        ∃ fs, sets[i]? = some fs ∧ RowSpec cfg.rw fin row fs := by
  unfold labelFeatureSets at h
  cases hc : fromReaders fx lex chardef unk fdef rdef with
  | err => simp [hc] at h
  | panic => simp [hc] at h
  | ok cfg =>
    simp only [hc] at h
    exact ⟨cfg, rfl, h, label_sets_spec fx lex chardef unk fdef rdef cfg sets fin hc h⟩

/-- **rewriters_of_sections.**  The three rewriters of a configuration are exactly what
`add_rule` builds from the rule lines under `[unigram rewrite]`, `[left rewrite]` and
`[right rewrite]` of `rewrite.def` (`Rewriter.parseRewriteConfig`: the section parser of
`Model/Rewriter.lean`), each from its own section, in file order. -/
theorem rewriters_of_sections (fx : Fixes) (lex chardef unk fdef rdef : List UInt8) (cfg : Config)
    (hcfg : fromReaders fx lex chardef unk fdef rdef = .ok cfg) :
    ∃ (lines : List Str) (rules : RewriteConfig),
      readLines rdef = lines.map some ∧
      Rewriter.parseRewriteConfig lines none {} = some rules ∧
      Rewriter.build fx.f10 rules.unigram = .ok cfg.rw.uni ∧
      Rewriter.build fx.f10 rules.left = .ok cfg.rw.left ∧
      Rewriter.build fx.f10 rules.right = .ok cfg.rw.right := by
  obtain ⟨_, h2, _⟩ := fromReaders_ok hcfg
  unfold parseRewriteDef at h2
  obtain ⟨strs, c', e1, e2, e3⟩ :=
    rewriteLines_built fx.f10 (readLines rdef) none {} cfg.rw {} (builtFrom_init _) h2
  exact ⟨strs, c', e1, e2, e3.uni, e3.left, e3.right⟩

/-- **section_rewrite_spec** (repaired builder, finding F10).  What "rewritten by the rewriter of
the section" means: the output of the FIRST rule of that section, in file order, whose pattern
matches the cells (`Rewriter.firstMatch`, property C17), and the cells unchanged when no rule of
that section matches. -/
theorem section_rewrite_spec (rules : List RawRule) (trie : Rewriter.Trie)
    (hb : Rewriter.build true rules = .ok trie) (feats : List Str) :
    ofRewriter (Rewriter.rewriteOrSame trie feats) = .ok ((firstMatch rules feats).getD feats) :=
  rewriteOrSame_built rules trie hb feats

/-! ## 2. Which rows: file order, no de-duplication, unk.def bucketed by category -/

/-- **label_rows_of_files.**  With `es` / `us` the rows `Lexicon::parse_csv` returns for lex.csv /
unk.def (rows with an empty surface are skipped by the parser, everything else is kept — also
repeated rows):

* label `i + 1` (`i < es.length`) is built from lexicon row `i`: its feature string and the primary
  category of the first character `c` of its surface (which exists: the parser never returns an
  empty surface, so `chars().next().unwrap()` is safe);
* the remaining labels are the unk.def rows, each with the category id of its first column,
  BUCKETED by category id (categories in the order of char.def, file order within a category);
  `ues[i]` is row `i` of unk.def with its category id. -/
theorem label_rows_of_files (fx : Fixes) (lex chardef unk fdef rdef : List UInt8) (cfg : Config)
    (hcfg : fromReaders fx lex chardef unk fdef rdef = .ok cfg) :
    ∃ (es us : List LexCsv.RawEntry) (ues : List UnkEntryM),
      LexCsv.parseCsv fx.f8 lex = .ok es ∧ LexCsv.parseCsv fx.f8 unk = .ok us ∧
      Vibrato.CharDef.parse chardef = .ok cfg.dict.chars ∧
      (∀ (i : Nat) (e : LexCsv.RawEntry), es[i]? = some e →
        ∃ cps c, Vibrato.codePoints e.surface = some cps ∧ cps.head? = some c ∧
          (labelRows cfg)[i]? = some ⟨e.feature, (cfg.dict.chars.charInfo c).baseId⟩) ∧
      ues.length = us.length ∧
      (∀ (i : Nat) (u : LexCsv.RawEntry), us[i]? = some u →
        ∃ name ue, Text.decodeLine u.surface = some name ∧ ues[i]? = some ue ∧
          cfg.dict.chars.cateId name = some ue.cateId ∧ ue.feature = u.feature) ∧
      (labelRows cfg).drop es.length =
        ((List.range cfg.dict.chars.names.length).flatMap fun c =>
          ues.filter (·.cateId == c)).map fun e => ⟨e.feature, e.cateId⟩ := by
  obtain ⟨_, _, h3⟩ := fromReaders_ok hcfg
  obtain ⟨es, us, ues, a1, a2, a3, a4, a5, a6, a7, a8, a9⟩ := dict_of_files h3
  have hflen : cfg.dict.sys.features.length = cfg.dict.sys.entries.length := by
    rw [a4, a5]; simp
  have hlen := lexLabelRows_length cfg.dict.chars cfg.dict.sys.entries cfg.dict.sys.features hflen
  refine ⟨es, us, ues, a1, a2, a3, ?_, a7, a8, ?_⟩
  · intro i e hie
    obtain ⟨le, g1, g2⟩ := a6 i e hie
    have hne : le.surface ≠ [] := codePoints_nonempty g2
      (LexCsv.TN.parseCsv_text a1 e (List.mem_of_getElem? hie)).1
    obtain ⟨c, t, hct⟩ := List.exists_cons_of_ne_nil hne
    refine ⟨le.surface, c, g2, by rw [hct]; rfl, ?_⟩
    have hc0 : le.surface.headD 0 = c := by rw [hct]; rfl
    rw [← hc0]
    have hf : cfg.dict.sys.features[i]? = some e.feature := by
      rw [a4, List.getElem?_map, hie]; rfl
    have := lexLabelRows_getElem cfg.dict.chars _ _ i le e.feature g1 hf
    rw [labelRows, List.getElem?_append_left (by rw [hlen]; exact (List.getElem?_eq_some_iff.mp g1).1)]
    exact this
  · rw [labelRows, List.drop_left' (by rw [hlen, a5]), unkLabelRows, a9]

/-! ## 3. Composition with the connection classes of `RawModel::merge` -/

/-- The cells of a row after one of the three rewriters (`none` only when the row's
`parse_csv_row` / `rewrite` fail, which `RowSpec` excludes). -/
def rewrittenCells (trie : Rewriter.Trie) (feature : List UInt8) : Option (List Str) :=
  match strOfBytes feature with
  | none => none
  | some f =>
    match csvRow f with
    | .ok feats =>
      match ofRewriter (Rewriter.rewriteOrSame trie feats) with
      | .ok out => some out
      | _ => none
    | _ => none

/-- The RIGHT-context expansion tuple of a row: the expansions of the right templates over the
right-rewritten cells (`.ok none` = the template yields no feature).  This is what the row
contributes as the right-hand word of a bigram; it determines the row's LEFT connection id. -/
def rightTuple (cfg : Config) (row : LabelRow) : Option (List (Outcome (Option Str))) :=
  (rewrittenCells cfg.rw.right row.feature).map fun fr => cfg.ext.rightT.map fun pt => expand pt fr 0

/-- The LEFT-context expansion tuple of a row (determines its RIGHT connection id). -/
def leftTuple (cfg : Config) (row : LabelRow) : Option (List (Outcome (Option Str))) :=
  (rewrittenCells cfg.rw.left row.feature).map fun fl => cfg.ext.leftT.map fun pt => expand pt fl 0

theorem rowSpec_cells {rw : Rewriters} {fin : ExtractorState} {row : LabelRow} {fs : FeatureSet}
    (h : RowSpec rw fin row fs) :
    ∃ fu fl fr, rewrittenCells rw.uni row.feature = some fu ∧
      rewrittenCells rw.left row.feature = some fl ∧
      rewrittenCells rw.right row.feature = some fr ∧ fs = setOf fin fu fl fr row.cate ∧
      Defined fin.uni fin.uniT fu row.cate ∧ Defined fin.left fin.leftT fl 0 ∧
      Defined fin.right fin.rightT fr 0 := by
  obtain ⟨f, feats, fu, fl, fr, h0, h1, h2, h3, h4, h5, d1, d2, d3⟩ := h
  exact ⟨fu, fl, fr, by simp [rewrittenCells, h0, h1, h2], by simp [rewrittenCells, h0, h1, h3],
    by simp [rewrittenCells, h0, h1, h4], h5, d1, d2, d3⟩

/-- **classes_of_rows.**  `classesOf (sets.map (·.bigramRight))` are the LEFT connection ids
`RawModel::merge` assigns to the labels (`left_conn_ids` is keyed by the `bigram_right` tuple), and
`classesOf (sets.map (·.bigramLeft))` the RIGHT connection ids.  For any two label rows `i`, `j`
of a set-up read from the five files:

* they get the same left connection id iff their right-context expansion tuples are equal,
* they get the same right connection id iff their left-context expansion tuples are equal

(position by position, "no feature" included) — where the tuples are computed from each row's own
feature string with the right / left section of `rewrite.def` and the right / left templates of
`feature.def`. -/
theorem classes_of_rows (fx : Fixes) (lex chardef unk fdef rdef : List UInt8) (cfg : Config)
    (sets : List FeatureSet) (fin : ExtractorState)
    (hcfg : fromReaders fx lex chardef unk fdef rdef = .ok cfg)
    (hrun : trainerNew cfg = .ok (sets, fin))
    (i j : Nat) (ri rj : LabelRow) (hi : (labelRows cfg)[i]? = some ri)
    (hj : (labelRows cfg)[j]? = some rj) :
    ((classesOf (sets.map (·.bigramRight)))[i]? = (classesOf (sets.map (·.bigramRight)))[j]? ↔
        rightTuple cfg ri = rightTuple cfg rj) ∧
    ((classesOf (sets.map (·.bigramLeft)))[i]? = (classesOf (sets.map (·.bigramLeft)))[j]? ↔
        leftTuple cfg ri = leftTuple cfg rj) := by
  obtain ⟨hok, haft, hlen, hspec⟩ := label_sets_spec fx lex chardef unk fdef rdef cfg sets fin hcfg hrun
  obtain ⟨hp, _, _⟩ := fromReaders_ok hcfg
  have htp : TemplatesParsed fin := (templatesParsed_of_parse hp).after haft
  obtain ⟨fsi, hsi, specI⟩ := hspec i ri hi
  obtain ⟨fsj, hsj, specJ⟩ := hspec j rj hj
  obtain ⟨fui, fli, fri, ci1, ci2, ci3, ei, di1, di2, di3⟩ := rowSpec_cells specI
  obtain ⟨fuj, flj, frj, cj1, cj2, cj3, ej, dj1, dj2, dj3⟩ := rowSpec_cells specJ
  have hil : i < sets.length := (List.getElem?_eq_some_iff.mp hsi).1
  have hjl : j < sets.length := (List.getElem?_eq_some_iff.mp hsj).1
  have gi : sets[i] = fsi := (List.getElem?_eq_some_iff.mp hsi).2
  have gj : sets[j] = fsj := (List.getElem?_eq_some_iff.mp hsj).2
  constructor
  · have hc := (C18.classes_spec (sets.map (·.bigramRight)) i j (by simpa using hil)
      (by simpa using hjl)).2
    rw [hc]
    simp only [List.getElem_map, gi, gj, ei, ej, setOf, rightTuple, ci3, cj3, Option.map_some,
      Option.some.injEq]
    rw [← haft.rightT]
    exact C18.id_tuples_eq_iff hok.right fin.rightT fri frj 0 0
      (fun pt hpt => by
        obtain ⟨o, ho⟩ := expand_ok_of_parsed (htp.right pt hpt) fri 0
        exact ⟨o, ho, fun s hs => di3 pt hpt s (by rw [ho, hs])⟩)
      (fun pt hpt => by
        obtain ⟨o, ho⟩ := expand_ok_of_parsed (htp.right pt hpt) frj 0
        exact ⟨o, ho, fun s hs => dj3 pt hpt s (by rw [ho, hs])⟩)
  · have hc := (C18.classes_spec (sets.map (·.bigramLeft)) i j (by simpa using hil)
      (by simpa using hjl)).2
    rw [hc]
    simp only [List.getElem_map, gi, gj, ei, ej, setOf, leftTuple, ci2, cj2, Option.map_some,
      Option.some.injEq]
    rw [← haft.leftT]
    exact C18.id_tuples_eq_iff hok.left fin.leftT fli flj 0 0
      (fun pt hpt => by
        obtain ⟨o, ho⟩ := expand_ok_of_parsed (htp.left pt hpt) fli 0
        exact ⟨o, ho, fun s hs => di2 pt hpt s (by rw [ho, hs])⟩)
      (fun pt hpt => by
        obtain ⟨o, ho⟩ := expand_ok_of_parsed (htp.left pt hpt) flj 0
        exact ⟨o, ho, fun s hs => dj2 pt hpt s (by rw [ho, hs])⟩)

/-- **class_row_listed.**  The left connection id `c` of label row `i` is positive, and row `c - 1`
of `left_conn_to_right_feats` (what `write_bigram_details` prints as line `c` of `bigram.left`,
before zero-weight features are shown as `*`) is the id tuple of row `i`'s OWN right-context
expansions: position `t` holds the id that the final (injective) right map gives to the expansion
of right template `t` over the row's right-rewritten cells.  Hence the tuple listed for an id is
the expansion tuple of EVERY row carrying that id (`classes_of_rows`).  Symmetrically for the right
connection id / `bigram.right` / left templates. -/
theorem class_row_listed (fx : Fixes) (lex chardef unk fdef rdef : List UInt8) (cfg : Config)
    (sets : List FeatureSet) (fin : ExtractorState)
    (hcfg : fromReaders fx lex chardef unk fdef rdef = .ok cfg)
    (hrun : trainerNew cfg = .ok (sets, fin))
    (i : Nat) (row : LabelRow) (hi : (labelRows cfg)[i]? = some row) :
    ∃ fl fr, rewrittenCells cfg.rw.left row.feature = some fl ∧
      rewrittenCells cfg.rw.right row.feature = some fr ∧
      (∃ c, (classesOf (sets.map (·.bigramRight)))[i]? = some c ∧ 0 < c ∧
        (classTable (sets.map (·.bigramRight)))[c - 1]? =
          some (fin.rightT.map (idOf fin.right fr 0))) ∧
      (∃ c, (classesOf (sets.map (·.bigramLeft)))[i]? = some c ∧ 0 < c ∧
        (classTable (sets.map (·.bigramLeft)))[c - 1]? =
          some (fin.leftT.map (idOf fin.left fl 0))) := by
  obtain ⟨_, _, _, hspec⟩ := label_sets_spec fx lex chardef unk fdef rdef cfg sets fin hcfg hrun
  obtain ⟨fs, hs, spec⟩ := hspec i row hi
  obtain ⟨fu, fl, fr, _, c2, c3, e, _, _, _⟩ := rowSpec_cells spec
  have hil : i < sets.length := (List.getElem?_eq_some_iff.mp hs).1
  have g : sets[i] = fs := (List.getElem?_eq_some_iff.mp hs).2
  refine ⟨fl, fr, c2, c3, ?_, ?_⟩
  · obtain ⟨c, h1, h2, h3⟩ := C18.tuple_listed (sets.map (·.bigramRight)) i (by simpa using hil)
    refine ⟨c, h1, h2, ?_⟩
    rw [h3]
    simp [g, e, setOf]
  · obtain ⟨c, h1, h2, h3⟩ := C18.tuple_listed (sets.map (·.bigramLeft)) i (by simpa using hil)
    refine ⟨c, h1, h2, ?_⟩
    rw [h3]
    simp [g, e, setOf]

/-! ## 4. Totality -/

/-- `from_readers` on the repaired tree never panics when `feature.def` has no template index above
`usize::MAX` and no rule line of `rewrite.def` contains `$0` or `$n` with `n > usize::MAX`
(`SystemDictionaryBuilder` part: `C10.builders_total`). -/
theorem fromReaders_total (lex chardef unk fdef rdef : List UInt8)
    (hT : parseFeatureConfig fdef ≠ .panic) (hR : GoodRewriteLines (readLines rdef)) :
    fromReaders Fixes.all lex chardef unk fdef rdef ≠ .panic := by
  unfold fromReaders
  cases h1 : parseFeatureConfig fdef with
  | err => simp
  | panic => exact absurd h1 hT
  | ok ext =>
    simp only
    have h2 := parseRewriteDef_total rdef hR
    cases h2' : parseRewriteDef Fixes.all.f10 rdef with
    | err => simp
    | panic => exact absurd h2' h2
    | ok rw =>
      simp only
      have h3 := Vibrato.C10.buildMatrixDict_ne_panic lex matrix11 chardef unk
      cases h3' : Vibrato.buildMatrixDict Fixes.all lex matrix11 chardef unk with
      | err => simp
      | panic => exact absurd h3' h3
      | ok D => simp

/-- Reading of hypothesis `hT`: a template makes `FeatureExtractor::new` panic iff one of its
placeholders (in the unique reading `Decomp` of the template text, `C18.template_reading_exists`)
has an index above `usize::MAX`. -/
theorem template_panic_iff (k : Kind) (raw : Str) (segs : List Seg) (h : Decomp k raw segs) :
    parseTemplate k raw = .panic ↔ segs.any Seg.tooBig = true := by
  rw [parseTemplate_decomp k raw segs h]
  by_cases hany : segs.any Seg.tooBig = true <;> simp [hany]

theorem parseTemplate_ne_err (k : Kind) (t : Str) : parseTemplate k t ≠ .err := by
  unfold parseTemplate; split <;> simp

theorem parseTemplates_ne_err (k : Kind) (ts : List Str) : parseTemplates k ts ≠ .err := by
  induction ts with
  | nil => simp [parseTemplates]
  | cons t ts ih =>
    simp only [parseTemplates]
    cases h1 : parseTemplate k t with
    | err => exact absurd h1 (parseTemplate_ne_err k t)
    | panic => simp
    | ok p =>
      simp only
      cases h2 : parseTemplates k ts with
      | err => exact absurd h2 ih
      | panic => simp
      | ok ps => simp

theorem parseTemplates_panic_iff (k : Kind) (ts : List Str) :
    parseTemplates k ts = .panic ↔ ∃ t ∈ ts, parseTemplate k t = .panic := by
  induction ts with
  | nil => simp [parseTemplates]
  | cons t ts ih =>
    simp only [parseTemplates, List.mem_cons, exists_eq_or_imp]
    cases h1 : parseTemplate k t with
    | err => exact absurd h1 (parseTemplate_ne_err k t)
    | panic => simp
    | ok p =>
      simp only
      cases h2 : parseTemplates k ts with
      | err => exact absurd h2 (parseTemplates_ne_err k ts)
      | panic => simp [← ih, h2]
      | ok ps => simp [← ih, h2]

/-- `parse_feature_config` panics iff the file is well formed and some UNIGRAM template, or the left
or the right half of some BIGRAM template, panics in `FeatureExtractor::new` (`template_panic_iff`). -/
theorem feature_config_panic_iff (fdef : List UInt8) :
    parseFeatureConfig fdef = .panic ↔
      ∃ u b, featureConfigTemplates fdef = some (u, b) ∧
        ((∃ t ∈ u, parseTemplate .U t = .panic) ∨ (∃ p ∈ b, parseTemplate .L p.1 = .panic) ∨
          (∃ p ∈ b, parseTemplate .R p.2 = .panic)) := by
  unfold parseFeatureConfig
  cases hf : featureConfigTemplates fdef with
  | none => simp
  | some ub =>
    obtain ⟨u, b⟩ := ub
    have e1 := parseTemplates_panic_iff .U u
    have e2 : parseTemplates .L (b.map (·.1)) = .panic ↔ ∃ p ∈ b, parseTemplate .L p.1 = .panic := by
      rw [parseTemplates_panic_iff]
      constructor
      · rintro ⟨t, ht, hp⟩
        obtain ⟨p, hpb, rfl⟩ := List.mem_map.mp ht
        exact ⟨p, hpb, hp⟩
      · rintro ⟨p, hpb, hp⟩
        exact ⟨p.1, List.mem_map.mpr ⟨p, hpb, rfl⟩, hp⟩
    have e3 : parseTemplates .R (b.map (·.2)) = .panic ↔ ∃ p ∈ b, parseTemplate .R p.2 = .panic := by
      rw [parseTemplates_panic_iff]
      constructor
      · rintro ⟨t, ht, hp⟩
        obtain ⟨p, hpb, rfl⟩ := List.mem_map.mp ht
        exact ⟨p, hpb, hp⟩
      · rintro ⟨p, hpb, hp⟩
        exact ⟨p.2, List.mem_map.mpr ⟨p, hpb, rfl⟩, hp⟩
    have key : ExtractorState.new u b = .panic ↔
        ((∃ t ∈ u, parseTemplate .U t = .panic) ∨ (∃ p ∈ b, parseTemplate .L p.1 = .panic) ∨
          (∃ p ∈ b, parseTemplate .R p.2 = .panic)) := by
      rw [← e1, ← e2, ← e3]
      unfold ExtractorState.new
      cases h1 : parseTemplates .U u with
      | panic => simp
      | err => exact absurd h1 (parseTemplates_ne_err _ _)
      | ok pu =>
        simp only
        cases h2 : parseTemplates .L (b.map (·.1)) with
        | panic => simp
        | err => exact absurd h2 (parseTemplates_ne_err _ _)
        | ok pl =>
          simp only
          cases h3 : parseTemplates .R (b.map (·.2)) with
          | panic => simp
          | err => exact absurd h3 (parseTemplates_ne_err _ _)
          | ok pr => simp
    simp only
    rw [key]
    constructor
    · intro h; exact ⟨u, b, rfl, h⟩
    · rintro ⟨u', b', heq, h⟩
      cases heq
      exact h

/-- **The model's UTF-8 automaton accepts only what Lean's validator accepts** (`Utf8Agree`):
`LexCsv.validUtf8` (the table of `core::str::from_utf8`) accepts a byte string only if it is the
encoding of a list of Unicode scalar values (`Proofs/Utf8Agree.lean`), so `String.fromUTF8?`
decodes it.  The model of `extract_feature_set` decodes feature strings and csv cells with
`String.fromUTF8?` and maps a failure to `panic`; `parse_csv` validated them with the automaton. -/
theorem utf8_agree : Utf8Agree := Vibrato.Utf8.validUtf8_decodes

/-- **labels_total** (repaired tree: `Fixes.all`, i.e. the `fix:` commits for F8 lex.csv end of
input, F10 rewrite trie, F18 `parse_csv_row` buffer, F6 char.def).  For ARBITRARY bytes of the five
files, `TrainerConfig::from_readers` followed by `Trainer::new` returns a trainer or an error
value, never a panic, provided

* `hT`   no template of `feature.def` has an index above `usize::MAX`
         (`idx.parse::<usize>().unwrap()` in `FeatureExtractor::new`; exact reading:
         `feature_config_panic_iff` + `template_panic_iff`; witness `template_index_panics`),
* `hR`   no rule line of `rewrite.def` has a rewrite cell `$0` (`0usize - 1`, overflow checks on) or
         `$n` with `n > usize::MAX` (`add_rule`; witnesses `rewrite_ref_zero_panics`,
         `rewrite_ref_huge_panics`),
* `hsize` the number of labels is at most `u32::MAX` and `labels × templates + 1 ≤ u32::MAX` for each
         of the three template lists, so that no `next_id` counter reaches `u32::MAX`
         (`*next_id += 1`) — more than 4·10⁹ features; not reachable with files that fit in memory.

All three hypotheses are necessary in the sense that the panics they exclude are real
(`hT`, `hR`: witnesses below, reproduced by the differential runs; `hsize`: `intern` panics at
`next = u32::MAX` by definition of the model, mirroring the overflow check).

What is proved on the way: `parse_csv` only returns rows with non-empty `&str` surfaces and `&str`
features (`parseCsv_text`), so `chars().next().unwrap()` cannot fail; the feature table is as long
as the entry table; rewriting with a built trie cannot fail; templates produced by
`FeatureExtractor::new` expand without slice panics; the counters stay positive and below
`u32::MAX`; every `&str` decodes (`utf8_agree`). -/
theorem labels_total (lex chardef unk fdef rdef : List UInt8)
    (hT : parseFeatureConfig fdef ≠ .panic) (hR : GoodRewriteLines (readLines rdef))
    (hsize : ∀ cfg, fromReaders Fixes.all lex chardef unk fdef rdef = .ok cfg →
      (labelRows cfg).length ≤ u32Max ∧ Room cfg.ext (labelRows cfg).length) :
    labelFeatureSets Fixes.all lex chardef unk fdef rdef ≠ .panic := by
  unfold labelFeatureSets
  cases hc : fromReaders Fixes.all lex chardef unk fdef rdef with
  | err => simp
  | panic => exact absurd hc (fromReaders_total lex chardef unk fdef rdef hT hR)
  | ok cfg =>
    simp only
    obtain ⟨c, hok⟩ := cfgOK_of_fromReaders hc
    obtain ⟨s1, s2⟩ := hsize cfg hc
    exact trainerNew_ne_panic utf8_agree cfg c hok s1 s2

/-! ## 5. Non-vacuity: a concrete set-up, and witnesses for the hypotheses of `labels_total` -/

section Examples

private def b (s : String) : List UInt8 := Vibrato.Utf8.encs s.toList
private def str (s : String) : Str := s.toList

/-- Three lexicon rows (the third repeats the first), KANJI = category 1. -/
def lexW : List UInt8 := b "京,0,0,0,N,a,r1\n都,0,0,0,V,b,r2\n京,0,0,0,N,a,r1\n"
def charW : List UInt8 :=
  b "DEFAULT 0 1 0\nKANJI 0 0 2\nALPHA 1 1 0\n0x4E00..0x9FFF KANJI\n0x0061..0x007A ALPHA\n"
/-- Four unk.def rows in the file order ALPHA, DEFAULT, KANJI, DEFAULT. -/
def unkW : List UInt8 := b "ALPHA,0,0,0,N,x\nDEFAULT,0,0,0,P,y\nKANJI,0,0,0,N,z\nDEFAULT,0,0,0,Q,y\n"
def fdefW : List UInt8 := b "UNIGRAM u:%F[0]/%t\nBIGRAM l:%L[0],%L?[1]/r:%R[1]\n"
/-- The three sections rewrite `N,…` differently: unigram keeps `N`, left gives `L,$2`, right `R,$2`. -/
def rdefW : List UInt8 :=
  b "[unigram rewrite]\n*,a $1,A\n[left rewrite]\nN,* L,$2\n[right rewrite]\nN,* R,$2\n(V|P),* $1,RR\n"

-- The labels: lexicon rows 1-3 in file order (row 3 = row 1: a separate label with the same set, no
-- de-duplication), then the unk.def rows bucketed by category: DEFAULT `P,y`, DEFAULT `Q,y`,
-- KANJI `N,z`, ALPHA `N,x` — not in file order.  `bigram_left` ids come from the LEFT section
-- (`l:L,…`), `bigram_right` ids from the RIGHT section (`r:…`, `r:RR`), unigram ids from `%F[0]/%t`
-- with the category id of the first character / of the unk.def category.
#guard (match labelFeatureSets Fixes.all lexW charW unkW fdefW rdefW with
  | .ok (sets, fin) =>
    sets == [⟨[1], [some 1], [some 1]⟩, ⟨[2], [some 2], [some 2]⟩, ⟨[1], [some 1], [some 1]⟩,
             ⟨[3], [some 2], [some 3]⟩, ⟨[4], [some 3], [some 4]⟩, ⟨[1], [some 4], [some 5]⟩,
             ⟨[5], [some 5], [some 6]⟩]
    && fin.uni == [(str "u:N/1", 1), (str "u:V/1", 2), (str "u:P/0", 3), (str "u:Q/0", 4), (str "u:N/2", 5)]
    && fin.left == [(str "l:L,a", 1), (str "l:V,b", 2), (str "l:P,y", 3), (str "l:Q,y", 4),
                    (str "l:L,z", 5), (str "l:L,x", 6)]
    && fin.right == [(str "r:a", 1), (str "r:RR", 2), (str "r:y", 3), (str "r:z", 4), (str "r:x", 5)]
    && fin.uniNext == 6 && fin.leftNext == 7 && fin.rightNext == 6
  | _ => false)

-- the classes that `RawModel::merge` derives from these sets (`classes_of_rows`): left connection ids
-- from `bigram_right`, right connection ids from `bigram_left`
#guard (match labelFeatureSets Fixes.all lexW charW unkW fdefW rdefW with
  | .ok (sets, _) =>
    classesOf (sets.map (·.bigramRight)) == [1, 2, 1, 2, 3, 4, 5] &&
    classesOf (sets.map (·.bigramLeft)) == [1, 2, 1, 3, 4, 5, 6]
  | _ => false)

-- `label_id_map`: key (feature string, first character); the later of two equal rows wins;
-- `label_id_map_unk`: entry `w` ↦ `3 + w + 1`
#guard (match fromReaders Fixes.all lexW charW unkW fdefW rdefW with
  | .ok cfg =>
    labelIdOf cfg.dict (b "N,a,r1") 0x4EAC == some 3 && labelIdOf cfg.dict (b "V,b,r2") 0x90FD == some 2 &&
    labelIdOf cfg.dict (b "N,a,r1") 0x90FD == none && labelIdMapUnk cfg.dict == [4, 5, 6, 7] &&
    (labelRows cfg).map (·.cate) == [1, 1, 1, 0, 0, 1, 2]
  | _ => false)

-- exchanging the `[left rewrite]` and `[right rewrite]` sections changes the sets (what the seeded
-- defect "rewriters swapped for unk.def entries" did to the last four labels)
#guard (match labelFeatureSets Fixes.all lexW charW unkW fdefW rdefW,
    labelFeatureSets Fixes.all lexW charW unkW fdefW
      (b "[unigram rewrite]\n*,a $1,A\n[right rewrite]\nN,* L,$2\n[left rewrite]\nN,* R,$2\n(V|P),* $1,RR\n") with
  | .ok (s1, _), .ok (s2, _) => s1 != s2
  | _, _ => false)

-- order of the outcomes in `parse_rewrite_config`: `add_rule` panics on line 2 before the format
-- error on line 3 is reached; with the lines exchanged the result is `Err`
#guard parseRewriteDef true (b "[left rewrite]\na $0\nno-columns\n") == .panic
#guard parseRewriteDef true (b "[left rewrite]\nno-columns\na $0\n") == .err
-- cells that are NOT references: `$`, `$x`, `$1x`, `a$1`, non-ASCII digits; `$01` = `$1`
#guard (match parseRewriteDef true (b "[left rewrite]\n* $,$x,$1x,a$1,$٣,$01\n") with
  | .ok rw => Rewriter.rewriteOrSame rw.left [str "q"] ==
      .ok [str "$", str "$x", str "$1x", str "a$1", str "$٣", str "q"]
  | _ => false)
-- header lines are compared after `trim` (Unicode white space); anything else is a rule line
#guard parseRewriteDef true (b "　[left rewrite] \n") == .ok {}
#guard parseRewriteDef true (b "[left  rewrite]\n") == .err
#guard parseRewriteDef true (b "a b\n") == .err
#guard parseRewriteDef true [0xff, 10] == .err

set_option maxRecDepth 100000 in
/-- `hT` is needed: a template index above `usize::MAX` makes `FeatureExtractor::new` panic. -/
theorem template_index_panics :
    labelFeatureSets Fixes.all lexW charW unkW (b "UNIGRAM %F[18446744073709551616]\n") rdefW = .panic := by
  decide

set_option maxRecDepth 100000 in
/-- `hR` is needed: `$0` makes `add_rule` panic (`0usize - 1` with overflow checks). -/
theorem rewrite_ref_zero_panics :
    labelFeatureSets Fixes.all lexW charW unkW fdefW (b "[left rewrite]\na $0\n") = .panic := by
  decide

set_option maxRecDepth 100000 in
/-- `hR` is needed: `$n` above `usize::MAX` makes `add_rule` panic (`parse::<usize>().unwrap()`). -/
theorem rewrite_ref_huge_panics :
    labelFeatureSets Fixes.all lexW charW unkW fdefW (b "[right rewrite]\na x,$18446744073709551616\n")
      = .panic := by
  decide

private def cfgW : Config :=
  match fromReaders Fixes.all lexW charW unkW fdefW rdefW with
  | .ok c => c
  | _ => ⟨{}, {}, default⟩

private def isOk {α : Type} : Outcome α → Bool
  | .ok _ => true
  | _ => false

set_option maxRecDepth 1000000 in
/-- The hypotheses of `labels_total` hold for the concrete set-up (and `from_readers` succeeds on
it), so the theorem applies to it. -/
example : labelFeatureSets Fixes.all lexW charW unkW fdefW rdefW ≠ .panic := by
  refine labels_total lexW charW unkW fdefW rdefW (by decide) (goodLinesB_sound _ (by decide)) ?_
  intro cfg hc
  have hcfg : cfgW = cfg := by unfold cfgW; rw [hc]
  rw [← hcfg]
  have h1 : (labelRows cfgW).length = 7 := by decide
  have h2 : cfgW.ext.uniT.length = 1 ∧ cfgW.ext.leftT.length = 1 ∧ cfgW.ext.rightT.length = 1 := by
    decide
  rw [h1]
  exact ⟨by decide, ⟨by rw [h2.1]; decide, by rw [h2.2.1]; decide, by rw [h2.2.2]; decide⟩⟩

set_option maxRecDepth 1000000 in
example : isOk (fromReaders Fixes.all lexW charW unkW fdefW rdefW) = true := by decide

end Examples

end Vibrato.Props.C18new
