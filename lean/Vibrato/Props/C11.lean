/-
C11 — Lexicon CSV rows are preserved verbatim as words.

Statements about the models of `Lexicon::parse_csv` (`Vibrato/Model/LexCsv.lean`) and of the
`csv-core` reader (`Vibrato/Model/CsvCore.lean`).  Grammar (`Vibrato/Proofs/LexCsvRows.lean`):

  Row  := c0 , c1 , c2 , c3 , f_1 , … , f_k , f_last     cells `plain` (free of , " \r \n)
                                                          or `quoted` ("…" with "" for ")
  Line := seps Row term        seps ∈ {\n,\r}*  (blank lines),  term ∈ {\n,\r}
  Tail := seps | seps Row      (what follows the terminated rows)
  file := Line* Tail

This covers `rows joined by "\n" (+ optional final "\n")` with blank lines anywhere, and also
`\r\n` / `\r` line ends.  `parseCsv true` is the repaired end-of-input handling (finding F8),
`parseCsv false` the code of the pinned tree.
-/
import Vibrato.Proofs.LexCsvRows
import Vibrato.Proofs.LexCsvJoin
import Vibrato.Proofs.CsvQuote
import Vibrato.Proofs.CsvRowTotal

namespace Vibrato.C11

open Vibrato.Csv Vibrato.LexCsv

/-! ## `read_cell` -/

/-- **read_cell (delimiter).** From any state in which a field starts, on
`render c ++ "," ++ rest` one `read_field` call with a `cap`-byte buffer returns
`Field{record_end:false}`, the unquoted value of the cell, and consumes exactly
`|render c| + 1` bytes.  Holds for plain and quoted cells (quoted values may contain `,`,
`"` (doubled in the file), `\r`, `\n`). -/
theorem read_cell_delim {r : Reader} (hs : FieldStart r.state) (c : Cell)
    (hwf : c.wf = true) (rest : List UInt8) {cap : Nat} (hcap : c.value.length < cap)
    (hnb : NoBom r (c.render ++ 44 :: rest)) :
    readField r (c.render ++ 44 :: rest) cap =
      (.field false, c.render.length + 1, c.value,
        { state := .endFieldDelim, hasRead := true }) :=
  readField_cell_delim hs c hwf rest hcap hnb

example :
    readField Reader.new (Cell.render (.quoted [97, 44, 34, 10]) ++ 44 :: [120]) 4096 =
      (.field false, 8, [97, 44, 34, 10], { state := .endFieldDelim, hasRead := true }) :=
  read_cell_delim (Or.inr (Or.inr (Or.inl rfl))) (.quoted [97, 44, 34, 10]) rfl [120]
    (by decide) (Or.inr (by decide))

/-- **read_cell (record terminator).** Inside a record, on `render c ++ t ++ rest` with
`t ∈ {\n,\r}` the call returns `Field{record_end:true}`, the unquoted value, and consumes
`|render c| + 1` bytes; the reader is then in `EndRecord` (after `\n`) or `CRLF` (after `\r`,
so that a directly following `\n` is swallowed by the next call). -/
theorem read_cell_term {r : Reader} (hs : r.state = .startField ∨ r.state = .endFieldDelim)
    (c : Cell) (hwf : c.wf = true) {t : UInt8} (ht : t = 10 ∨ t = 13) (rest : List UInt8)
    {cap : Nat} (hcap : c.value.length < cap) (hnb : NoBom r (c.render ++ t :: rest)) :
    readField r (c.render ++ t :: rest) cap =
      (.field true, c.render.length + 1, c.value,
        { state := if t = 10 then .endRecord else .crlf, hasRead := true }) :=
  readField_cell_term hs c hwf ht rest hcap hnb

example :
    readField efd (Cell.render (.plain [102, 111]) ++ 13 :: [10, 120]) 4096 =
      (.field true, 3, [102, 111], { state := .crlf, hasRead := true }) :=
  read_cell_term (Or.inr rfl) (.plain [102, 111]) (by decide) (Or.inr rfl) [10, 120]
    (by decide) (Or.inl rfl)

/-- **read_cell (end of data).** A cell that is non-empty in the file and ends the data gives
`InputEmpty` with the unquoted value, all bytes consumed; the next call (empty input) closes
the record with `Field{record_end:true}` and no output (`readField_flush`). -/
theorem read_cell_eof {r : Reader} (hs : FieldStart r.state) (c : Cell)
    (hwf : c.wf = true) (hne : c.render ≠ []) {cap : Nat} (hcap : c.value.length < cap)
    (hnb : NoBom r c.render) :
    readField r c.render cap =
      (.inputEmpty, c.render.length, c.value,
        { state := c.after r.state, hasRead := true }) :=
  readField_cell_eof hs c hwf hne hcap hnb

example :
    readField efd (Cell.render (.quoted [102])) 4096 =
      (.inputEmpty, 3, [102], { state := .inDoubleEscapedQuote, hasRead := true }) :=
  read_cell_eof (Or.inr (Or.inl rfl)) (.quoted [102]) rfl (by decide) (by decide) (Or.inl rfl)

/-! ## `parse_csv_rows` -/

/-- **parse_csv_rows (repaired code, full strength).**  For every file of the grammar —
terminated rows with blank lines anywhere, then nothing / blank lines / an unterminated last
row — whose rows are well-formed (`Row.WF`: cells readable in a 4096 byte buffer, numbers in
range, surface and feature valid UTF-8) and that does not start with a UTF-8 BOM, `parse_csv`
returns exactly the entries of the rows with a non-empty surface, in order, and the feature
of each entry is the raw remainder of its row after the fourth comma, byte for byte. -/
theorem parse_csv_rows (lines : List Line) (tail : Tail) (hl : ∀ ln ∈ lines, ln.WF)
    (ht : tail.WF) (hbom : ¬ (bom <+: renderFile lines tail)) :
    parseCsv true (renderFile lines tail) = .ok (fileEntries lines tail) := by
  apply parseCsv_of_tail true lines tail _ hl hbom
  intro st hst
  cases tail with
  | blank seps =>
    simpa [fileEntries, Tail.entries] using
      tail_blank_reaches_fixed st seps _ hst ht
  | lastRow seps row =>
    obtain ⟨hseps, hrow⟩ := ht
    by_cases he : row.fLast.render = []
    · exact tail_lastRow_empty_reaches_fixed st seps row _ hst hseps hrow he
    · exact tail_lastRow_reaches true st seps row _ hst hseps hrow he

/-- **parse_csv_rows (pinned code).**  Same conclusion for the code of the pinned tree under
the extra hypothesis `tail.PinnedOk`: after the last terminated row there is nothing at all
(a single final `\n` or `\r`, no `\r\n`, no blank line), or an unterminated last row that
does not end with a comma. -/
theorem parse_csv_rows_pinned (lines : List Line) (tail : Tail) (hl : ∀ ln ∈ lines, ln.WF)
    (ht : tail.WF) (hp : tail.PinnedOk) (hbom : ¬ (bom <+: renderFile lines tail)) :
    parseCsv false (renderFile lines tail) = .ok (fileEntries lines tail) := by
  apply parseCsv_of_tail false lines tail _ hl hbom
  intro st hst
  cases tail with
  | blank seps =>
    simp only [Tail.PinnedOk] at hp
    subst hp
    simpa [fileEntries, Tail.entries] using tail_nil_reaches false st _ hst
  | lastRow seps row =>
    obtain ⟨hseps, hrow⟩ := ht
    exact tail_lastRow_reaches false st seps row _ hst hseps hrow hp

/-- Example file (used for the non-vacuity checks below):
`東,1,2,-3,"a,b",c` `\n` `\n` `,0,0,0,skipped` `\r\n` `x,+7,0,0,` … -/
def exRow1 : Row :=
  { c0 := .plain [0xE6, 0x9D, 0xB1], c1 := .plain [49], c2 := .plain [50],
    c3 := .plain [45, 51], fInit := [.quoted [97, 44, 98]], fLast := .plain [99],
    left := 1, right := 2, cost := -3 }
def exRow2 : Row :=
  { c0 := .plain [], c1 := .plain [48], c2 := .plain [48], c3 := .plain [48], fInit := [],
    fLast := .plain [115], left := 0, right := 0, cost := 0 }
def exRow3 : Row :=
  { c0 := .plain [120], c1 := .plain [43, 55], c2 := .quoted [48], c3 := .plain [48],
    fInit := [.plain [102]], fLast := .plain [], left := 7, right := 0, cost := 0 }
def exRow4 : Row := { exRow3 with fInit := [], fLast := .plain [102, 103] }

theorem exRow1_wf : exRow1.WF := by
  constructor <;> decide
theorem exRow2_wf : exRow2.WF := by
  constructor <;> decide
theorem exRow3_wf : exRow3.WF := by
  constructor <;> decide
theorem exRow4_wf : exRow4.WF := by
  constructor <;> decide

def exLines : List Line := [⟨[], exRow1, 10⟩, ⟨[10], exRow2, 13⟩]

theorem exLines_wf : ∀ ln ∈ exLines, ln.WF := by
  intro ln h
  simp only [exLines, List.mem_cons, List.mem_nil_iff, or_false] at h
  rcases h with rfl | rfl
  · exact ⟨by decide, by decide, exRow1_wf⟩
  · exact ⟨by decide, by decide, exRow2_wf⟩

/-- Non-vacuity of `parse_csv_rows`: three rows (multi-byte surface, quoted feature cell with
a comma, a skipped empty-surface row, `\r\n`, a blank line), last row unterminated and ending
with a comma. -/
example :
    parseCsv true (renderFile exLines (.lastRow [10] exRow3)) =
      .ok [⟨[0xE6, 0x9D, 0xB1], 1, 2, -3, [34, 97, 44, 98, 34, 44, 99]⟩,
           ⟨[120], 7, 0, 0, [102, 44]⟩] :=
  parse_csv_rows exLines (.lastRow [10] exRow3) exLines_wf ⟨by decide, exRow3_wf⟩ (by decide)

/-- Non-vacuity of `parse_csv_rows_pinned`. -/
example :
    parseCsv false (renderFile exLines (.lastRow [10] exRow4)) =
      .ok [⟨[0xE6, 0x9D, 0xB1], 1, 2, -3, [34, 97, 44, 98, 34, 44, 99]⟩,
           ⟨[120], 7, 0, 0, [102, 103]⟩] :=
  parse_csv_rows_pinned exLines (.lastRow [10] exRow4) exLines_wf ⟨by decide, exRow4_wf⟩
    (by show exRow4.fLast.render ≠ []; decide) (by decide)

/-! ## The regions where the pinned code fails (finding F8) -/

/-- Pinned code, region 1: anything but nothing after the last terminated row — a blank
line, or the `\n` of a final `\r\n` — makes `parse_csv` return `Err`
("A csv row of lexicon must have five items at least"). -/
theorem parse_csv_pinned_trailing_blank_err (lines : List Line) (seps : List UInt8)
    (hl : ∀ ln ∈ lines, ln.WF) (hseps : ∀ b ∈ seps, isNl b) (hne : seps ≠ [])
    (hbom : ¬ (bom <+: renderFile lines (.blank seps))) :
    parseCsv false (renderFile lines (.blank seps)) = .err := by
  apply parseCsv_of_tail false lines _ _ hl hbom
  intro st hst
  exact tail_blank_reaches_pinned st seps _ hst hseps hne

example : parseCsv false (renderFile exLines (.blank [10])) = .err :=
  parse_csv_pinned_trailing_blank_err exLines [10] exLines_wf (by decide) (by decide)
    (by decide)

/-- Pinned code, region 2: the data ends directly after the fourth comma of the last row
(empty feature, no final newline) — `features_len - 1` underflows: panic. -/
theorem parse_csv_pinned_eof_after_fourth_comma_panic (lines : List Line)
    (seps : List UInt8) (row : Row) (hl : ∀ ln ∈ lines, ln.WF)
    (hseps : ∀ b ∈ seps, isNl b) (hrow : row.WF) (he : row.fLast.render = [])
    (hi : row.fInit = []) (hbom : ¬ (bom <+: renderFile lines (.lastRow seps row))) :
    parseCsv false (renderFile lines (.lastRow seps row)) = .panic := by
  apply parseCsv_of_tail false lines _ _ hl hbom
  intro st hst
  exact tail_lastRow_empty_reaches_pinned_panic st seps row _ hst hseps hrow he hi

example :
    parseCsv false (renderFile exLines (.lastRow [] { exRow3 with fInit := [] })) = .panic :=
  parse_csv_pinned_eof_after_fourth_comma_panic exLines [] { exRow3 with fInit := [] }
    exLines_wf (by decide) (by constructor <;> decide) rfl rfl (by decide)

/-- Pinned code, region 3: the unterminated last row ends with a comma after at least one
more feature cell — accepted, but the stored feature has lost its final comma (not the raw
remainder of the row). -/
theorem parse_csv_pinned_eof_trailing_comma_truncated (lines : List Line)
    (seps : List UInt8) (row : Row) (hl : ∀ ln ∈ lines, ln.WF)
    (hseps : ∀ b ∈ seps, isNl b) (hrow : row.WF) (he : row.fLast.render = [])
    (hi : row.fInit ≠ []) (hbom : ¬ (bom <+: renderFile lines (.lastRow seps row))) :
    parseCsv false (renderFile lines (.lastRow seps row)) =
      .ok (lines.flatMap (fun ln => ln.row.entries) ++ row.truncatedEntries) := by
  apply parseCsv_of_tail false lines _ _ hl hbom
  intro st hst
  exact tail_lastRow_empty_reaches_pinned_truncated st seps row _ hst hseps hrow he hi

example :
    parseCsv false (renderFile exLines (.lastRow [10] exRow3)) =
      .ok [⟨[0xE6, 0x9D, 0xB1], 1, 2, -3, [34, 97, 44, 98, 34, 44, 99]⟩,
           ⟨[120], 7, 0, 0, [102]⟩] :=
  parse_csv_pinned_eof_trailing_comma_truncated exLines [10] exRow3 exLines_wf (by decide)
    exRow3_wf rfl (by decide) (by decide)

/-! ### Replay witnesses (kernel-evaluated on the model) -/

/-- `"a,0,0,0,"` without final newline: the pinned code panics, the repaired code returns
the entry with the empty feature. -/
theorem witness_eof_after_fourth_comma :
    parseCsv false [97, 44, 48, 44, 48, 44, 48, 44] = .panic ∧
    parseCsv true [97, 44, 48, 44, 48, 44, 48, 44] = .ok [⟨[97], 0, 0, 0, []⟩] := by
  decide

/-- `"a,0,0,0,f\n\n"` (trailing blank line) and `"a,0,0,0,f\r\n"` (final CRLF): `Err` on the
pinned code, accepted by the repaired code. -/
theorem witness_trailing_blank :
    parseCsv false [97, 44, 48, 44, 48, 44, 48, 44, 102, 10, 10] = .err ∧
    parseCsv false [97, 44, 48, 44, 48, 44, 48, 44, 102, 13, 10] = .err ∧
    parseCsv true [97, 44, 48, 44, 48, 44, 48, 44, 102, 10, 10] = .ok [⟨[97], 0, 0, 0, [102]⟩] ∧
    parseCsv true [97, 44, 48, 44, 48, 44, 48, 44, 102, 13, 10] = .ok [⟨[97], 0, 0, 0, [102]⟩] := by
  decide

/-- `"a,0,0,0,f,"` without final newline: the pinned code stores the feature `f` (comma
lost), the repaired code `f,`; with a final newline both store `f,`. -/
theorem witness_trailing_comma :
    parseCsv false [97, 44, 48, 44, 48, 44, 48, 44, 102, 44] = .ok [⟨[97], 0, 0, 0, [102]⟩] ∧
    parseCsv true [97, 44, 48, 44, 48, 44, 48, 44, 102, 44] = .ok [⟨[97], 0, 0, 0, [102, 44]⟩] ∧
    parseCsv false [97, 44, 48, 44, 48, 44, 48, 44, 102, 44, 10] =
      .ok [⟨[97], 0, 0, 0, [102, 44]⟩] := by
  decide

/-- A file of blank lines only: `Err` on the pinned code, empty lexicon on the repaired
code; the empty file is accepted by both. -/
theorem witness_blank_file :
    parseCsv false [10] = .err ∧ parseCsv true [10] = .ok [] ∧
    parseCsv false [] = .ok [] ∧ parseCsv true [] = .ok [] := by
  decide

/-! ## `eof_variants_agree` (needs the F8 repair) -/

/-- **eof_variants_agree.**  On the repaired code the way the file ends does not matter:
any run of `\n` / `\r` after the last row (none, `\n`, `\r\n`, blank lines) gives the same
entries as the file that ends with the bare last row. -/
theorem eof_variants_agree (lines : List Line) (seps0 : List UInt8) (row : Row)
    (seps : List UInt8) (hl : ∀ ln ∈ lines, ln.WF) (hseps0 : ∀ b ∈ seps0, isNl b)
    (hrow : row.WF) (hseps : ∀ b ∈ seps, isNl b)
    (hbom : ¬ (bom <+: renderFile lines (.lastRow seps0 row))) :
    parseCsv true (renderFile lines (.lastRow seps0 row) ++ seps) =
      parseCsv true (renderFile lines (.lastRow seps0 row)) := by
  rw [parse_csv_rows lines (.lastRow seps0 row) hl ⟨hseps0, hrow⟩ hbom]
  cases seps with
  | nil => simpa using parse_csv_rows lines (.lastRow seps0 row) hl ⟨hseps0, hrow⟩ hbom
  | cons t seps' =>
    have ht : isNl t := hseps t (by simp)
    have hseps' : ∀ b ∈ seps', isNl b := fun b hb => hseps b (by simp [hb])
    have hfile : renderFile lines (.lastRow seps0 row) ++ t :: seps' =
        renderFile (lines ++ [⟨seps0, row, t⟩]) (.blank seps') := by
      simp [renderFile, Tail.render, Line.render]
    have hl' : ∀ ln ∈ lines ++ [⟨seps0, row, t⟩], ln.WF := by
      intro ln h
      rcases List.mem_append.mp h with h | h
      · exact hl ln h
      · simp only [List.mem_cons, List.mem_nil_iff, or_false] at h
        subst h
        exact ⟨hseps0, ht, hrow⟩
    have hbom' : ¬ (bom <+: renderFile (lines ++ [⟨seps0, row, t⟩]) (.blank seps')) := by
      rw [← hfile]
      intro hp
      apply hbom
      have hlen : bom.length ≤ (renderFile lines (.lastRow seps0 row)).length := by
        have h5 : 3 ≤ row.render.length := by
          rw [Row.render_eq]; simp only [List.length_append, List.length_cons]; omega
        simp only [renderFile, Tail.render, bom, List.length_append, List.length_cons,
          List.length_nil]
        omega
      exact List.prefix_of_prefix_length_le hp (List.prefix_append _ _) hlen
    rw [hfile, parse_csv_rows _ (.blank seps') hl' hseps' hbom']
    simp [fileEntries, Tail.entries]

example :
    parseCsv true (renderFile exLines (.lastRow [10] exRow3) ++ [13, 10, 10]) =
      parseCsv true (renderFile exLines (.lastRow [10] exRow3)) :=
  eof_variants_agree exLines [10] exRow3 [13, 10, 10] exLines_wf (by decide) exRow3_wf
    (by decide) (by decide)

/-! ## The statement in the "lines joined by `\n`" form of the property text -/

/-- **parse_csv_rows, joined form.**  `items` are the lines of the file: `some row` or `none`
for a blank line.  The file is the lines joined by `"\n"`, optionally followed by a final
`"\n"`.  The repaired code returns the entries of the rows with non-empty surface in order. -/
theorem parse_csv_joined (items : List (Option Row)) (finalNl : Bool)
    (hrows : ∀ r, some r ∈ items → r.WF)
    (hbom : ¬ (bom <+: joinedFile items finalNl)) :
    parseCsv true (joinedFile items finalNl) =
      .ok ((items.filterMap id).flatMap Row.entries) := by
  obtain ⟨lines, tail, hfile, hl, ht, hent⟩ := joined_as_grammar items finalNl hrows
  rw [hfile] at hbom ⊢
  rw [parse_csv_rows lines tail hl ht hbom, hent]

/-- Pinned code, joined form: correct when the file is empty, or the last line is a row and
either a final `"\n"` is present or that row does not end with a comma. -/
theorem parse_csv_joined_pinned (items : List (Option Row)) (finalNl : Bool)
    (hrows : ∀ r, some r ∈ items → r.WF)
    (hlast : items = [] ∧ finalNl = false ∨
      ∃ r, items.getLast? = some (some r) ∧ (finalNl = true ∨ r.fLast.render ≠ []))
    (hbom : ¬ (bom <+: joinedFile items finalNl)) :
    parseCsv false (joinedFile items finalNl) =
      .ok ((items.filterMap id).flatMap Row.entries) := by
  obtain ⟨lines, tail, hfile, hl, ht, hent, hp⟩ :=
    joined_as_grammar_pinned items finalNl hrows hlast
  rw [hfile] at hbom ⊢
  rw [parse_csv_rows_pinned lines tail hl ht hp hbom, hent]

example :
    parseCsv true (joinedFile [none, some exRow1, none, none, some exRow2, some exRow3] false) =
      .ok [⟨[0xE6, 0x9D, 0xB1], 1, 2, -3, [34, 97, 44, 98, 34, 44, 99]⟩,
           ⟨[120], 7, 0, 0, [102, 44]⟩] :=
  parse_csv_joined _ false
    (by
      intro r h
      simp only [List.mem_cons, List.mem_nil_iff, or_false, Option.some.injEq, reduceCtorEq,
        false_or] at h
      rcases h with rfl | rfl | rfl
      · exact exRow1_wf
      · exact exRow2_wf
      · exact exRow3_wf)
    (by decide)

/-! ## Homographs at the level of the parsed entries -/

/-- The rows of a file in order. -/
def fileRows (lines : List Line) : Tail → List Row
  | .blank _ => lines.map (·.row)
  | .lastRow _ row => lines.map (·.row) ++ [row]

theorem fileEntries_eq_rows (lines : List Line) (tail : Tail) :
    fileEntries lines tail = (fileRows lines tail).flatMap Row.entries := by
  cases tail <;> simp [fileEntries, fileRows, Tail.entries, List.flatMap_map]

/-- **homographs_kept (entry level).**  For a non-empty surface `s`, the entries with surface
`s` are exactly the rows whose unquoted first cell is `s` — one entry per row, duplicates
included, in row order (so the word ids, which are the positions in the entry list, are
ascending in row order).  The postings structure built from the entry list
(`WordMapBuilder`, `Postings`) is not part of this model. -/
theorem homographs_kept_entries (rows : List Row) (s : List UInt8) (hs : s ≠ []) :
    (rows.flatMap Row.entries).filter (fun e => e.surface = s) =
      (rows.filter (fun r => r.c0.value = s)).map Row.entry := by
  induction rows with
  | nil => simp
  | cons r rows ih =>
    simp only [List.flatMap_cons, List.filter_append, ih, List.filter_cons]
    by_cases h0 : r.c0.value = []
    · have : ¬ (r.c0.value = s) := by rw [h0]; exact fun h => hs h.symm
      have hs' : ¬ (s = []) := hs
      simp [Row.entries, h0, hs']
    · by_cases h1 : r.c0.value = s
      · have hs' : ¬ (s = []) := hs
        simp [Row.entries, h1, Row.entry, hs']
      · simp [Row.entries, h0, h1, Row.entry]

example :
    ((fileRows exLines (.lastRow [10] exRow3) ++ [exRow4]).flatMap Row.entries).filter
        (fun e => e.surface = [120]) = [exRow3.entry, exRow4.entry] := by
  rw [homographs_kept_entries _ _ (by decide)]
  decide

/-! ## Writer / reader round trip (`quote_csv_cell`, `parse_csv_row`; used by C14) -/

/-- **quote_csv_cell.**  `quote_csv_cell(wtr, x)` never panics and writes `quoteCell x`:
`x` itself if it is non-empty and free of `,` `"` `\r` `\n`; `""` if `x` is empty; otherwise
`"` ++ (`x` with every `"` doubled) ++ `"`.  Holds for cells of any length (the 4096 byte
buffer of `quote_csv_cell` is refilled by the loop). -/
theorem quote_csv_cell_eq (x : List UInt8) : quoteCsvCell x = .ok (quoteCell x) :=
  quoteCsvCell_eq x

example : quoteCsvCell [97, 34, 44] = .ok [34, 97, 34, 34, 44, 34] := quote_csv_cell_eq _

/-- **unquote_quote (pinned tree, 4096 byte buffer).**  `parse_csv_row(quote_csv_cell(x)) =
[x]` for every valid UTF-8 `x` shorter than 4096 bytes that does not start with a BOM. -/
theorem unquote_quote (x : List UInt8) (hu : validUtf8 x = true) (hlen : x.length < 4096)
    (hbom : ¬ (bom <+: quoteCell x)) :
    parseCsvRowBytes false (quoteCell x) = .ok [x] :=
  Vibrato.LexCsv.unquote_quote x hu hlen hbom

example : parseCsvRowBytes false (quoteCell [0xE6, 0x9D, 0xB1, 44, 34, 10]) =
    .ok [[0xE6, 0x9D, 0xB1, 44, 34, 10]] :=
  unquote_quote _ (by decide) (by decide) (by decide)

/-- **unquote_quote (repaired tree, finding F18: buffer sized by the row).**  For every valid
UTF-8 `x` of any length that does not start with a BOM. -/
theorem unquote_quote_fixed (x : List UInt8) (hu : validUtf8 x = true)
    (hbom : ¬ (bom <+: quoteCell x)) :
    parseCsvRowBytes true (quoteCell x) = .ok [x] :=
  Vibrato.LexCsv.unquote_quote_fixed x hu hbom

example : parseCsvRowBytes true (quoteCell [0xE6, 0x9D, 0xB1, 44, 34, 10]) =
    .ok [[0xE6, 0x9D, 0xB1, 44, 34, 10]] :=
  unquote_quote_fixed _ (by decide) (by decide)

/-- **parse_csv_row on a written row (pinned tree).**  A row `c_1,…,c_k,last` of well-formed
cells (values valid UTF-8 and shorter than 4096 bytes), whose last cell is not empty in the
file and which does not start with a BOM, is parsed into the unquoted values.  With
`cellOfValue_render : (cellOfValue x).render = quoteCell x` this covers every row written as
`quote_csv_cell` cells joined by commas. -/
theorem parse_csv_row_cells (cs : List Cell) (last : Cell)
    (hnb : ¬ (bom <+: featInitBytes cs ++ last.render))
    (hcs : ∀ c ∈ cs, cellOk c ∧ validUtf8 c.value = true)
    (hlast : cellOk last ∧ validUtf8 last.value = true) (hne : last.render ≠ []) :
    parseCsvRowBytes false (featInitBytes cs ++ last.render) =
      .ok (cs.map Cell.value ++ [last.value]) :=
  Vibrato.LexCsv.parse_csv_row_cells cs last hnb hcs hlast hne

example :
    parseCsvRowBytes false (featInitBytes [cellOfValue [97], cellOfValue []] ++
      (cellOfValue [49, 44, 50]).render) = .ok [[97], [], [49, 44, 50]] :=
  parse_csv_row_cells _ _ (by decide) (by decide) (by decide) (by decide)

/-- **parse_csv_row on a written row (repaired tree, F18).**  The same without any length
restriction on the cells. -/
theorem parse_csv_row_cells_fixed (cs : List Cell) (last : Cell)
    (hnb : ¬ (bom <+: featInitBytes cs ++ last.render))
    (hcs : ∀ c ∈ cs, c.wf = true ∧ validUtf8 c.value = true)
    (hlast : last.wf = true ∧ validUtf8 last.value = true) (hne : last.render ≠ []) :
    parseCsvRowBytes true (featInitBytes cs ++ last.render) =
      .ok (cs.map Cell.value ++ [last.value]) :=
  Vibrato.LexCsv.parse_csv_row_cells_fixed cs last hnb hcs hlast hne

example :
    parseCsvRowBytes true (featInitBytes [cellOfValue [97], cellOfValue []] ++
      (cellOfValue [49, 44, 50]).render) = .ok [[97], [], [49, 44, 50]] :=
  parse_csv_row_cells_fixed _ _ (by decide) (by decide) (by decide) (by decide)

/-- Edge cases of `parse_csv_row` (kernel-evaluated on the model, both buffer variants; the
first two also confirmed against the real crate):
* a row that ends with a comma yields TWO trailing empty cells (`"a,"` → `["a","",""]`):
  the flush `Field{record_end:true}` and the final `End` both push an empty string;
* the empty row yields `[""]`;
* a leading BOM is dropped by csv-core, so `parse_csv_row(quote_csv_cell(x)) ≠ [x]` when `x`
  starts with U+FEFF. -/
theorem witness_parse_csv_row_edges :
    (∀ fixed, parseCsvRowBytes fixed [97, 44] = .ok [[97], [], []]) ∧
    (∀ fixed, parseCsvRowBytes fixed [] = .ok [[]]) ∧
    (∀ fixed, parseCsvRowBytes fixed (quoteCell [0xEF, 0xBB, 0xBF, 97]) = .ok [[97]]) := by
  decide

/-! ## Finding F18: `parse_csv_row` and cells of 4096 bytes or more -/

/-- **parse_csv_row_total** (repaired tree).  With the output buffer sized by the row
(`let mut output = vec![0; row.len()];`) `parse_csv_row` has no reachable panic site for any
`&str`: `OutputFull` cannot occur because every output byte consumes an input byte
(`readField_ne_outputFull`), so `unreachable!()` is dead; and every field of a valid UTF-8 row
is valid UTF-8 (`readField_utf8`: the reader only drops `,` `"` `\r` `\n` and a leading BOM,
and ends fields only after such a byte or at the end of the row), so `from_utf8(..).unwrap()`
cannot fail. -/
theorem parse_csv_row_total (row : List UInt8) (hv : validUtf8 row = true) :
    parseCsvRowBytes true row ≠ .panic :=
  parseCsvRowBytes_fixed_ne_panic row hv

example : parseCsvRowBytes true [0xE6, 0x9D, 0xB1, 34, 44, 13, 10, 34, 34] ≠ .panic :=
  parse_csv_row_total _ (by decide)

/-- `parse_csv_row` has no `Err` path either: on the repaired tree every `&str` yields a list
of cells. -/
theorem parse_csv_row_ok (row : List UInt8) (hv : validUtf8 row = true) :
    ∃ cells, parseCsvRowBytes true row = .ok cells := by
  have h1 := parse_csv_row_total row hv
  have h2 : parseCsvRowBytes true row ≠ .err := by
    unfold parseCsvRowBytes
    cases hr : rowLoop (rowCap true row) (parseFuel row) Reader.new row [] with
    | none => simp
    | some r =>
      intro h
      exact rowLoop_ne_err _ _ _ _ _ (by rw [hr]; simpa using congrArg some h)
  cases h : parseCsvRowBytes true row with
  | ok cells => exact ⟨cells, rfl⟩
  | err => exact absurd h h2
  | panic => exact absurd h h1

example : ∃ cells, parseCsvRowBytes true [97, 44, 34, 98] = .ok cells :=
  parse_csv_row_ok _ (by decide)

/-- **Pinned tree (F18).**  A row whose first cell is a plain cell of 4096 bytes or more,
followed by at least one more byte, makes `parse_csv_row` hit `_ => unreachable!()`
(`OutputFull` from the fixed `[0; 4096]` buffer): panic. -/
theorem parse_csv_row_pinned_panic (v rest : List UInt8) (hwf : (Cell.plain v).wf = true)
    (hlen : 4096 ≤ v.length) (b : UInt8) (hnb : ¬ (bom <+: v ++ b :: rest)) :
    parseCsvRowBytes false (v ++ b :: rest) = .panic :=
  parseCsvRowBytes_pinned_panic v rest hwf hlen b hnb

/-- `n ≥ 4096` times `a`, then `,b`: panic on the pinned tree, two cells on the repaired
tree. -/
theorem row_long_cell (n : Nat) (hn : 4096 ≤ n) :
    parseCsvRowBytes false (List.replicate n 97 ++ [44, 98]) = .panic ∧
    parseCsvRowBytes true (List.replicate n 97 ++ [44, 98]) =
      .ok [List.replicate n 97, [98]] := by
  obtain ⟨m, rfl⟩ : ∃ m, n = m + 1 := ⟨n - 1, by omega⟩
  have hwf : (Cell.plain (List.replicate (m + 1) 97)).wf = true := by
    simp only [Cell.wf, List.all_eq_true, List.mem_replicate]
    intro x hx
    rw [hx.2]; decide
  have hb : ∀ rest, ¬ (bom <+: List.replicate (m + 1) 97 ++ rest) := by
    intro rest h
    rw [List.replicate_succ, List.cons_append] at h
    have := List.IsPrefix.getElem h (i := 0) (by simp [bom])
    simp [bom] at this
  constructor
  · exact parse_csv_row_pinned_panic _ _ hwf (by simpa using hn) 44 (hb _)
  · have h := parse_csv_row_cells_fixed [.plain (List.replicate (m + 1) 97)] (.plain [98])
      (by simpa [featInitBytes, Cell.render] using hb [44, 98])
      (by
        intro c hc
        simp only [List.mem_cons, List.mem_nil_iff, or_false] at hc
        subst hc
        refine ⟨hwf, ?_⟩
        apply validUtf8_ascii
        intro b hb'
        simp only [Cell.value, List.mem_replicate] at hb'
        rw [hb'.2]; decide)
      (by decide) (by decide)
    simpa [featInitBytes, Cell.render, Cell.value] using h

/-- Witness: 4096 times `a`, then `,b`. -/
theorem witness_row_4096 :
    parseCsvRowBytes false (List.replicate 4096 97 ++ [44, 98]) = .panic ∧
    parseCsvRowBytes true (List.replicate 4096 97 ++ [44, 98]) =
      .ok [List.replicate 4096 97, [98]] :=
  row_long_cell 4096 (by decide)

#guard parseCsvRowBytes false (List.replicate 4096 97 ++ [44, 98]) == .panic
#guard parseCsvRowBytes true (List.replicate 4096 97 ++ [44, 98]) ==
  .ok [List.replicate 4096 97, [98]]
#guard parseCsvRowBytes false (List.replicate 4095 97 ++ [44, 98]) ==
  .ok [List.replicate 4095 97, [98]]

end Vibrato.C11
