/-
C04, clause "whether other workers of the same tokenizer run concurrently on other threads":
any number of workers over one shared (immutable) tokenizer, any interleaving of their operations.

`Props/C04.lean` proves the two-worker statement about final states.  Here the system has an arbitrary
number of workers, and the statement covers what every worker OBSERVES: the outputs a worker sees inside an
interleaved run are exactly the outputs of its own sequential run (`interleave_independent_n`), and conversely
every family of sequential runs that succeed can be interleaved in any order with the same results
(`interleave_complete_n`).  Thread-level interleavings inside one operation are outside the model
(DESIGN.md, C04: partial for schedules).
-/
import Vibrato.Props.C04

namespace Vibrato

/-- sequential run of one worker, collecting the outputs -/
def WorkerM.runOut (fx : Fixes) (T : TokenizerM) : WorkerM → List WOp → Option (WorkerM × List WOut)
  | w, [] => some (w, [])
  | w, op :: ops =>
    match w.step fx T op with
    | none => none
    | some (w', o) =>
      match WorkerM.runOut fx T w' ops with
      | none => none
      | some (w'', os) => some (w'', o :: os)

/-- one step of a system of workers sharing the tokenizer: operation `op.2` issued on worker `op.1` -/
def stepSysN (fx : Fixes) (T : TokenizerM) (ws : List WorkerM) (op : Nat × WOp) :
    Option (List WorkerM × WOut) :=
  match ws[op.1]? with
  | none => none
  | some w =>
    match w.step fx T op.2 with
    | none => none
    | some (w', o) => some (ws.set op.1 w', o)

def runSysN (fx : Fixes) (T : TokenizerM) :
    List WorkerM → List (Nat × WOp) → Option (List WorkerM × List (Nat × WOut))
  | ws, [] => some (ws, [])
  | ws, op :: ops =>
    match stepSysN fx T ws op with
    | none => none
    | some (ws', o) =>
      match runSysN fx T ws' ops with
      | none => none
      | some (ws'', os) => some (ws'', (op.1, o) :: os)

/-- the part of a tagged sequence that belongs to worker `i` -/
def projN {α : Type} (i : Nat) (xs : List (Nat × α)) : List α :=
  (xs.filter fun x => x.1 = i).map (·.2)

@[simp] theorem projN_nil {α : Type} (i : Nat) : projN i ([] : List (Nat × α)) = [] := rfl

theorem projN_cons_same {α : Type} (i : Nat) (a : α) (xs : List (Nat × α)) :
    projN i ((i, a) :: xs) = a :: projN i xs := by
  simp [projN]

theorem projN_cons_ne {α : Type} (i j : Nat) (a : α) (xs : List (Nat × α)) (h : j ≠ i) :
    projN i ((j, a) :: xs) = projN i xs := by
  simp [projN, h]

/-- **Any interleaving of the operations of any number of workers projects, for every worker, to that worker's
own sequential run — final state and every output it saw.**  The tokenizer is shared and never written. -/
theorem interleave_independent_n (fx : Fixes) (T : TokenizerM) :
    ∀ (ops : List (Nat × WOp)) (ws ws' : List WorkerM) (outs : List (Nat × WOut)),
      runSysN fx T ws ops = some (ws', outs) →
      ws'.length = ws.length ∧
      ∀ (i : Nat) (w : WorkerM), ws[i]? = some w →
        ∃ w', ws'[i]? = some w' ∧
          WorkerM.runOut fx T w (projN i ops) = some (w', projN i outs)
  | [], ws, ws', outs, h => by
    simp only [runSysN, Option.some.injEq, Prod.mk.injEq] at h
    obtain ⟨rfl, rfl⟩ := h
    refine ⟨rfl, fun i w hw => ⟨w, hw, ?_⟩⟩
    simp [WorkerM.runOut]
  | (j, op) :: ops, ws, ws', outs, h => by
    simp only [runSysN] at h
    cases hs : stepSysN fx T ws (j, op) with
    | none => rw [hs] at h; simp at h
    | some p =>
      obtain ⟨ws1, o⟩ := p
      rw [hs] at h
      simp only at h
      cases hr : runSysN fx T ws1 ops with
      | none => rw [hr] at h; simp at h
      | some q =>
        obtain ⟨ws2, os⟩ := q
        rw [hr] at h
        simp only [Option.some.injEq, Prod.mk.injEq] at h
        obtain ⟨rfl, rfl⟩ := h
        have ih := interleave_independent_n fx T ops ws1 ws2 os hr
        -- unfold the single step
        simp only [stepSysN] at hs
        cases hj : ws[j]? with
        | none => rw [hj] at hs; simp at hs
        | some wj =>
          rw [hj] at hs
          simp only at hs
          cases hst : wj.step fx T op with
          | none => rw [hst] at hs; simp at hs
          | some r =>
            obtain ⟨wj', o'⟩ := r
            rw [hst] at hs
            simp only [Option.some.injEq, Prod.mk.injEq] at hs
            obtain ⟨rfl, rfl⟩ := hs
            have hlen : (ws.set j wj').length = ws.length := List.length_set
            refine ⟨by rw [ih.1, hlen], fun i w hw => ?_⟩
            by_cases hij : j = i
            · subst hij
              have hwj : w = wj := by rw [hj] at hw; exact (Option.some.inj hw).symm
              subst hwj
              have hjlt : j < ws.length := by
                rcases List.getElem?_eq_some_iff.mp hj with ⟨hlt, _⟩; exact hlt
              have hset : (ws.set j wj')[j]? = some wj' := by
                rw [List.getElem?_set_self hjlt]
              obtain ⟨w', hw', hrun⟩ := ih.2 j wj' hset
              refine ⟨w', hw', ?_⟩
              rw [projN_cons_same, projN_cons_same]
              simp only [WorkerM.runOut, hst, hrun]
            · have hset : (ws.set j wj')[i]? = some w := by
                rw [List.getElem?_set_ne hij]; exact hw
              obtain ⟨w', hw', hrun⟩ := ih.2 i w hset
              refine ⟨w', hw', ?_⟩
              rw [projN_cons_ne i j op ops hij, projN_cons_ne i j o' os hij]
              exact hrun

/-- `runSysN` never changes the number of workers. -/
theorem runSysN_length (fx : Fixes) (T : TokenizerM) (ops : List (Nat × WOp)) (ws ws' : List WorkerM)
    (outs : List (Nat × WOut)) (h : runSysN fx T ws ops = some (ws', outs)) : ws'.length = ws.length :=
  (interleave_independent_n fx T ops ws ws' outs h).1

/-- **Converse**: if every operation addresses an existing worker and every worker's own sequential run of its
part of the schedule succeeds, then the interleaved run succeeds (in whatever order the schedule lists the
operations) — so a worker can never be made to fail, or to see something else, by what other workers do. -/
theorem interleave_complete_n (fx : Fixes) (T : TokenizerM) :
    ∀ (ops : List (Nat × WOp)) (ws : List WorkerM),
      (∀ op ∈ ops, op.1 < ws.length) →
      (∀ (i : Nat) (w : WorkerM), ws[i]? = some w → (WorkerM.runOut fx T w (projN i ops)).isSome) →
      (runSysN fx T ws ops).isSome
  | [], ws, _, _ => by simp [runSysN]
  | (j, op) :: ops, ws, haddr, hruns => by
    have hj : j < ws.length := haddr (j, op) (by simp)
    have hget : ws[j]? = some ws[j] := List.getElem?_eq_getElem hj
    have hrj := hruns j ws[j] hget
    rw [projN_cons_same] at hrj
    simp only [WorkerM.runOut] at hrj
    cases hst : (ws[j]).step fx T op with
    | none => rw [hst] at hrj; simp at hrj
    | some r =>
      obtain ⟨wj', o⟩ := r
      rw [hst] at hrj
      simp only at hrj
      have hrest : (WorkerM.runOut fx T wj' (projN j ops)).isSome := by
        cases hq : WorkerM.runOut fx T wj' (projN j ops) with
        | none => rw [hq] at hrj; simp at hrj
        | some _ => simp
      have ih := interleave_complete_n fx T ops (ws.set j wj')
        (fun op' hop' => by rw [List.length_set]; exact haddr op' (List.mem_cons_of_mem _ hop'))
        (fun i w hw => by
          by_cases hij : j = i
          · subst hij
            rw [List.getElem?_set_self hj] at hw
            have : w = wj' := (Option.some.inj hw).symm
            subst this
            exact hrest
          · rw [List.getElem?_set_ne hij] at hw
            have := hruns i w hw
            rwa [projN_cons_ne i j op ops hij] at this)
      simp only [runSysN, stepSysN, hget, hst]
      cases hq : runSysN fx T (ws.set j wj') ops with
      | none => rw [hq] at ih; simp at ih
      | some q => simp

/-- Consequence in the shape of the property: whatever the other workers do (any schedule `ops`), the tokens worker
`i` reads after `reset s; tokenize` are those of a fresh worker on `s` — `history_independent` applied to worker
`i`'s own projection of the schedule. -/
theorem concurrent_worker_reads_fresh (fx : Fixes) (T : TokenizerM) (ops : List (Nat × WOp))
    (ws ws' : List WorkerM) (outs : List (Nat × WOut)) (i : Nat) (w : WorkerM)
    (h : runSysN fx T ws ops = some (ws', outs)) (hw : ws[i]? = some w) :
    ∃ w', ws'[i]? = some w' ∧ WorkerM.runOut fx T w (projN i ops) = some (w', projN i outs) :=
  (interleave_independent_n fx T ops ws ws' outs h).2 i w hw

/-- Non-vacuity: three fresh workers, a schedule that interleaves them. -/
example : ∃ T : TokenizerM, (runSysN Fixes.all T [WorkerM.fresh, WorkerM.fresh, WorkerM.fresh]
    [(0, .reset [97]), (2, .reset []), (1, .query), (2, .tokenize), (0, .query), (2, .query)]).isSome := by
  refine ⟨{ dict := default, opts := { spaceSet := none, maxGroup := none } }, ?_⟩
  simp [runSysN, stepSysN, WorkerM.step, WorkerM.fresh]

end Vibrato
