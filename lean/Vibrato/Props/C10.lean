/-
C10 — Dictionary builders are total and their acceptance implies safe use.

Property theorems only; helper lemmas are in `Proofs/BuildersCsv.lean` (span accounting of
`Lexicon::parse_csv`), `Proofs/Builders.lean` (matrix.def, char.def, `CharInfo` packing) and
`Proofs/BuildersDict.lean` (`DictWF`, `buildMatrixDict`, `resetUser`, `mapIds`).

Statements are about the executable model of `/repo` with all repairs applied
(`Fixes.all`: F2, F2b, F3, F6, F7, F8): `buildMatrixDict` =
`SystemDictionaryBuilder::from_readers`, `DictM.resetUser` =
`Dictionary::reset_user_lexicon_from_reader`, `DictM.mapIds` =
`Dictionary::map_connection_ids_from_iter`, `tokenize` = `Worker::reset_sentence; tokenize`.
The tie to the Rust code is the correspondence check (`check.py C10`).

The one defect left unrepaired is F9 (a category without `unk.def` entries is accepted and
tokenisation panics): the safety theorem carries the hypothesis `UnkCovered`, and
`f9_accepted_dictionary_panics` is the replay witness.
-/
import Vibrato.Props.C01
import Vibrato.Proofs.BuildersDict

namespace Vibrato

/-! ## 1. Totality -/

/-- **The three file parsers never panic**, for arbitrary bytes: `Lexicon::parse_csv`
(lex.csv, unk.def, user CSV; none of the slice / `features_len - 1` sites fires),
`MatrixConnector::from_reader`, `CharProperty::from_reader`. -/
theorem parsers_total (bytes : List UInt8) :
    LexCsv.parseCsv true bytes ≠ .panic ∧ MatrixDef.parse bytes ≠ .panic ∧
      CharDef.parse bytes ≠ .panic :=
  ⟨LexCsv.parseCsv_ne_panic bytes, (C10.matrix_parse_spec bytes).1, C10.chardef_parse_ne_panic bytes⟩

/-- **`SystemDictionaryBuilder::from_readers` is total**: for ALL byte contents of lex.csv,
matrix.def, char.def and unk.def it returns a dictionary or an error value, never a panic. -/
theorem builders_total (lex matrix chardef unk : List UInt8) :
    buildMatrixDict Fixes.all lex matrix chardef unk ≠ .panic :=
  C10.buildMatrixDict_ne_panic lex matrix chardef unk

/-- `reset_user_lexicon_from_reader` on a well-formed dictionary never panics, whatever the
bytes of the user CSV (`none` = `None::<&[u8]>`). -/
theorem resetUser_total {D : DictM} (hD : DictWF D) (csv : Option (List UInt8)) :
    D.resetUser Fixes.all csv ≠ .panic :=
  (C10.resetUser_spec hD csv).1

/-- `map_connection_ids_from_iter` on a well-formed dictionary never panics, whatever the two
id sequences (wrong length, repeated, zero or too large ids are errors). -/
theorem mapIds_total {D : DictM} (hD : DictWF D) (lmap rmap : List Nat) :
    D.mapIds Fixes.all lmap rmap ≠ .panic :=
  (C10.mapIds_spec hD lmap rmap).1

/-- **Acceptance establishes `DictWF`** (for the pinned and for the repaired parser alike):
connection table of `numRight * numLeft` `i16`s, all lexicon / unknown ids inside the
connector, all word costs `i16`s, feature tables as long as entry tables, unknown entries and
every character's primary category name a defined category, character table entries fit the
packed word. -/
theorem builders_establish_wf {fx : Fixes} {lex matrix chardef unk : List UInt8} {D : DictM}
    (h : buildMatrixDict fx lex matrix chardef unk = .ok D) : DictWF D :=
  (C10.buildMatrixDict_wf h).1

/-- **`DictWF` is preserved** by every successful `reset_user_lexicon_from_reader` and
`map_connection_ids_from_iter`; the connector dimensions and the character table do not
change. -/
theorem builders_preserve_wf {D D' : DictM} (hD : DictWF D) :
    (∀ csv, D.resetUser Fixes.all csv = .ok D' → DictWF D' ∧ D'.numLeft = D.numLeft ∧
      D'.numRight = D.numRight ∧ D'.chars = D.chars) ∧
    (∀ lmap rmap, D.mapIds Fixes.all lmap rmap = .ok D' → DictWF D' ∧ D'.numLeft = D.numLeft ∧
      D'.numRight = D.numRight ∧ D'.chars = D.chars) := by
  constructor
  · intro csv h
    obtain ⟨h1, h2, h3, h4, _⟩ := (C10.resetUser_spec hD csv).2 D' h
    exact ⟨h1, h2, h3, h4⟩
  · intro lmap rmap h
    exact (C10.mapIds_spec hD lmap rmap).2 D' h

/-- One public mutation of a built dictionary. -/
inductive BuildOp where
  | resetUser (csv : Option (List UInt8))
  | mapIds (lmap rmap : List Nat)

def DictM.applyOp (D : DictM) : BuildOp → Outcome DictM
  | .resetUser csv => D.resetUser Fixes.all csv
  | .mapIds l r => D.mapIds Fixes.all l r

/-- A sequence of mutations; both Rust functions consume `self`, so the first `Err` (or
panic) ends the sequence. -/
def DictM.applyOps (D : DictM) : List BuildOp → Outcome DictM
  | [] => .ok D
  | op :: ops =>
    match D.applyOp op with
    | .ok D' => D'.applyOps ops
    | .err => .err
    | .panic => .panic

theorem applyOps_spec {D : DictM} (hD : DictWF D) (ops : List BuildOp) :
    D.applyOps ops ≠ .panic ∧ ∀ D', D.applyOps ops = .ok D' → DictWF D' := by
  induction ops generalizing D with
  | nil => simp only [DictM.applyOps]; exact ⟨by simp, fun D' h => by cases h; exact hD⟩
  | cons op ops ih =>
    simp only [DictM.applyOps]
    have hop : D.applyOp op ≠ .panic ∧ ∀ D1, D.applyOp op = .ok D1 → DictWF D1 := by
      cases op with
      | resetUser csv =>
        exact ⟨resetUser_total hD csv, fun D1 h => ((builders_preserve_wf hD).1 csv h).1⟩
      | mapIds l r =>
        exact ⟨mapIds_total hD l r, fun D1 h => ((builders_preserve_wf hD).2 l r h).1⟩
    split
    · rename_i D1 h1
      exact ih (hop.2 D1 h1)
    · simp
    · rename_i hp; exact absurd hp hop.1

/-- **Whole API, any history**: a dictionary built from arbitrary files and then subjected to
an arbitrary sequence of user-lexicon loads and id mappings (arbitrary bytes / id sequences)
never panics. -/
theorem builders_total_any_history (lex matrix chardef unk : List UInt8) (ops : List BuildOp) :
    (buildMatrixDict Fixes.all lex matrix chardef unk).bind (·.applyOps ops) ≠ .panic := by
  cases h : buildMatrixDict Fixes.all lex matrix chardef unk with
  | panic => exact absurd h (builders_total lex matrix chardef unk)
  | err => simp [Outcome.bind]
  | ok D => exact (applyOps_spec (builders_establish_wf h) ops).1

/-! ## 2. Acceptance implies safe use -/

/-- **Every id an accepted dictionary hands to the tokenizer is in range.**  Connector
dimensions are positive (BOS/EOS use id 0); every connection index computed from ids inside
the connector is inside the table; lexicon, user-lexicon and unknown entries carry ids inside
the connector; `word_feature` exists for every word id; unknown entries and every character's
primary category name a defined category (`offsets[base_id + 1]` exists). -/
theorem accepted_ids_in_range {D : DictM} (hD : DictWF D) :
    0 < D.numLeft ∧ 0 < D.numRight ∧
    (∀ r l, r < D.numRight → l < D.numLeft → r * D.numLeft + l < D.conn.length) ∧
    (∀ e ∈ D.sys.entries, e.param.leftId < D.numLeft ∧ e.param.rightId < D.numRight) ∧
    (∀ u, D.user = some u → ∀ e ∈ u.entries,
      e.param.leftId < D.numLeft ∧ e.param.rightId < D.numRight) ∧
    (∀ e ∈ D.unk, e.param.leftId < D.numLeft ∧ e.param.rightId < D.numRight ∧
      e.cateId < D.chars.names.length) ∧
    D.sys.features.length = D.sys.entries.length ∧
    (∀ u, D.user = some u → u.features.length = u.entries.length) ∧
    (∀ c, (D.chars.charInfo c).baseId < D.chars.names.length) := by
  refine ⟨(C10.dims_pos hD).1, (C10.dims_pos hD).2, fun r l hr hl => C10.conn_index_lt hD hr hl,
    fun e he => ⟨(hD.sys_ok.1 e he).1, (hD.sys_ok.1 e he).2.1⟩, ?_, ?_, hD.sys_ok.2,
    fun u hu => (hD.user_ok u hu).2, fun c => (C10.charInfo_ok hD.chars_ok c).base_lt⟩
  · intro u hu e he
    exact ⟨((hD.user_ok u hu).1 e he).1, ((hD.user_ok u hu).1 e he).2.1⟩
  · intro e he
    exact ⟨(hD.unk_ok e he).1.1, (hD.unk_ok e he).1.2.1, (hD.unk_ok e he).2⟩

/-- **Well-formed dictionaries tokenize every string.**  All connection and word costs are
parsed `i16`s (`DictOK … 32767 32767`); if moreover every character's primary category has an
`unk.def` entry (F9: not enforced by the builders), then for every option setting and every
sentence within the 32-bit cost bound `tokenize` returns tokens (no panic), the tokens name
existing words (`word_param`, `word_feature` are defined) and carry connection ids inside the
connector (no out-of-range read). -/
theorem wf_is_safe {D : DictM} (hD : DictWF D) :
    DictOK D.tokDict 32767 32767 ∧
    (UnkCovered D.tokDict → ∀ (o : TokOpts) (chars : List Nat),
      ((chars.length : Int) + 1) * 65534 ≤ MAX_COST →
      ∃ ts, tokenize D.tokDict o chars = some ts ∧
        ∀ t ∈ ts, t.node.leftId < D.numLeft ∧ t.node.rightId < D.numRight ∧
          D.param t.node.lexType t.node.wordId =
            some ⟨t.node.leftId, t.node.rightId, t.node.wordCost⟩ ∧
          (D.feature t.node.lexType t.node.wordId).isSome) := by
  have hok := C10.dictOK_of_wf hD
  refine ⟨hok, ?_⟩
  intro hcov o chars hb
  have hb' : ((chars.length : Int) + 1) * (32767 + 32767) ≤ MAX_COST := by simpa using hb
  obtain ⟨ts, hts⟩ := tokenize_total D.tokDict 32767 32767 hok hcov o chars hb'
  refine ⟨ts, hts, ?_⟩
  obtain ⟨sn, _, _, _, htok⟩ := tokens_partition D.tokDict 32767 32767 hok hcov o chars hb' ts hts
  intro t ht
  rcases (htok t ht).2 with ⟨hty, e, he, _, hp⟩ | ⟨hty, u, e, hu, he, _, hp⟩ | ⟨hty, p, hpm, hid, hp⟩
  · have hmem : e ∈ D.sys.entries := List.mem_of_getElem? he
    have hpo := hD.sys_ok.1 e hmem
    rw [hp] at hpo
    have hlt : t.node.wordId < D.sys.entries.length := by
      rcases Nat.lt_or_ge t.node.wordId D.sys.entries.length with h | h
      · exact h
      · have : D.tokDict.sys[t.node.wordId]? = none := List.getElem?_eq_none h
        rw [this] at he; cases he
    refine ⟨hpo.1, hpo.2.1, ?_, ?_⟩
    · have he' : D.sys.entries[t.node.wordId]? = some e := he
      simp [hty, DictM.param, he', hp]
    · simp only [hty, DictM.feature]
      rw [List.getElem?_eq_getElem (by rw [hD.sys_ok.2]; exact hlt)]
      rfl
  · simp only [DictM.tokDict, Option.map_eq_some_iff] at hu
    obtain ⟨u0, hu0, rfl⟩ := hu
    have hmem : e ∈ u0.entries := List.mem_of_getElem? he
    have hpo := (hD.user_ok u0 hu0).1 e hmem
    rw [hp] at hpo
    have hlt : t.node.wordId < u0.entries.length := by
      rcases Nat.lt_or_ge t.node.wordId u0.entries.length with h | h
      · exact h
      · rw [List.getElem?_eq_none h] at he; cases he
    refine ⟨hpo.1, hpo.2.1, ?_, ?_⟩
    · simp [hty, DictM.param, hu0, he, hp]
    · simp only [hty, DictM.feature, hu0, Option.bind_some]
      rw [List.getElem?_eq_getElem (by rw [(hD.user_ok u0 hu0).2]; exact hlt)]
      rfl
  · obtain ⟨e, he, _, hep⟩ := C10.unkOf_mem hpm
    have hpo := (hD.unk_ok e (List.mem_of_getElem? he)).1
    rw [hep, hp] at hpo
    rw [hid] at he
    refine ⟨hpo.1, hpo.2.1, ?_, ?_⟩
    · simp [hty, DictM.param, he, hep, hp]
    · simp [hty, DictM.feature, he]

/-- **Acceptance implies safe use.**  Any dictionary returned by
`SystemDictionaryBuilder::from_readers`, also after any sequence of successful
`reset_user_lexicon_from_reader` / `map_connection_ids_from_iter` calls, has all its costs in
`i16` range and all its ids in range, and — provided every character's primary category has
an `unk.def` entry — tokenizes every sentence `chars` with `(|chars| + 1) * 65534 ≤ i32::MAX`
without panicking and without reading outside the connector or the word tables. -/
theorem accepted_is_safe {lex matrix chardef unk : List UInt8} {D0 D : DictM}
    (hbuild : buildMatrixDict Fixes.all lex matrix chardef unk = .ok D0)
    (ops : List BuildOp) (hops : D0.applyOps ops = .ok D) :
    DictWF D ∧ DictOK D.tokDict 32767 32767 ∧
    (UnkCovered D.tokDict → ∀ (o : TokOpts) (chars : List Nat),
      ((chars.length : Int) + 1) * 65534 ≤ MAX_COST →
      ∃ ts, tokenize D.tokDict o chars = some ts ∧
        ∀ t ∈ ts, t.node.leftId < D.numLeft ∧ t.node.rightId < D.numRight ∧
          D.param t.node.lexType t.node.wordId =
            some ⟨t.node.leftId, t.node.rightId, t.node.wordCost⟩ ∧
          (D.feature t.node.lexType t.node.wordId).isSome) := by
  have hD := (applyOps_spec (builders_establish_wf hbuild) ops).2 D hops
  exact ⟨hD, wf_is_safe hD⟩

/-- The form asked for in the design: acceptance gives `DictOK`, and with `UnkCovered`
tokenisation is total. -/
theorem accepted_tokenizes {lex matrix chardef unk : List UInt8} {D : DictM}
    (h : buildMatrixDict Fixes.all lex matrix chardef unk = .ok D) :
    DictOK D.tokDict 32767 32767 ∧
    (UnkCovered D.tokDict → ∀ (o : TokOpts) (chars : List Nat),
      ((chars.length : Int) + 1) * 65534 ≤ MAX_COST → ∃ ts, tokenize D.tokDict o chars = some ts) := by
  obtain ⟨_, h1, h2⟩ := accepted_is_safe h [] rfl
  refine ⟨h1, fun hc o chars hb => ?_⟩
  obtain ⟨ts, hts, _⟩ := h2 hc o chars hb
  exact ⟨ts, hts⟩

/-! ## 3. No silent mis-categorisation -/

/-- **Packing round trip** (`CharInfo::new` and the getters): when the category set fits
`CATE_IDSET_BITS` bits, the base id `BASE_ID_BITS` bits and the length `LENGTH_BITS` bits,
`CharInfo::new` succeeds, the word fits the `u32`, and the getters return the fields. -/
theorem packing_roundtrip_param (cs b : Nat) (inv grp : Bool) (len : Nat)
    (h1 : cs < 2 ^ CATE_IDSET_BITS) (h2 : b < 2 ^ BASE_ID_BITS) (h3 : len < 2 ^ LENGTH_BITS) :
    ∃ w, CharInfo.pack cs b inv grp len = some w ∧ w < 2 ^ 32 ∧
      CharInfo.unpack w = ⟨cs, b, inv, grp, len⟩ :=
  C10.pack_unpack cs b inv grp len h1 h2 h3

/-- The layout fills the `u32` exactly and the base id can hold every category id. -/
theorem layout_fits : CATE_IDSET_BITS + BASE_ID_BITS + 1 + 1 + LENGTH_BITS = 32 ∧
    CATE_IDSET_BITS ≤ 2 ^ BASE_ID_BITS := by decide

/-- Every entry of an accepted table packs and unpacks to itself. -/
theorem entry_packs {n : Nat} {ci : CharInfo} (hn : n ≤ CATE_IDSET_BITS) (h : C10.InfoOK n ci) :
    ∃ w, CharInfo.pack ci.cateSet ci.baseId ci.invoke ci.group ci.length = some w ∧ w < 2 ^ 32 ∧
      CharInfo.unpack w = ci := by
  have h1 : ci.cateSet < 2 ^ CATE_IDSET_BITS :=
    Nat.lt_of_lt_of_le h.set_lt (Nat.pow_le_pow_right (by decide) hn)
  have h2 : ci.baseId < 2 ^ BASE_ID_BITS :=
    Nat.lt_of_lt_of_le (Nat.lt_of_lt_of_le h.base_lt hn) layout_fits.2
  have h3 : ci.length < 2 ^ LENGTH_BITS := (C10.shiftRight_eq_zero_iff_lt _ _).1 h.len_ok
  exact packing_roundtrip_param ci.cateSet ci.baseId ci.invoke ci.group ci.length h1 h2 h3

/-- **No silent mis-categorisation.**  If `CharProperty::from_reader` accepts `bytes` then,
with `st` the category definitions of the whole file (`names` = category ids in order of first
definition, at most `CATE_IDSET_BITS` = 18 of them) and `rangeLines bytes` its range lines in
file order (`start ..= stop - 1` are the bounds written in the file,
`C10.parseRange_inclusive`), for every code point `c < 65536`:

* `char_info(c)` is the encoding (`encode_cate_info`) of the LAST range line covering `c`, or
  of `DEFAULT` when no line covers it;
* that encoding has base id = id of the first listed category, invoke/group/length of that
  category's definition, and a category set with exactly the bits of the listed categories,
  all of which are defined (`C10.encodeCateInfo_spec`);
* every id is `< 18`, the fields fit their bit widths, `CharInfo::new` succeeds on them and
  the getters return them unchanged. -/
theorem no_silent_miscategorisation {bytes : List UInt8} {P : CharProp}
    (h : CharDef.parse bytes = .ok P) :
    ∃ st, CharDef.foldLines C10.st0 (Text.rawLines bytes) = .ok st ∧
      P.names = st.names.map String.ofList ∧ P.names.length ≤ CATE_IDSET_BITS ∧
      ∀ c, c < 65536 →
        ((∃ (i : Nat) (r : CharRange), (C10.rangeLines bytes)[i]? = some r ∧
            r.start ≤ c ∧ c < r.stop ∧
            (∀ (j : Nat) (r' : CharRange), i < j → (C10.rangeLines bytes)[j]? = some r' →
              ¬ (r'.start ≤ c ∧ c < r'.stop)) ∧
            CharDef.encodeCateInfo st r.cates = .ok (P.charInfo c)) ∨
         ((∀ r ∈ C10.rangeLines bytes, ¬ (r.start ≤ c ∧ c < r.stop)) ∧
            CharDef.encodeCateInfo st ["DEFAULT".toList] = .ok (P.charInfo c))) ∧
        (P.charInfo c).baseId < P.names.length ∧
        (P.charInfo c).cateSet < 2 ^ P.names.length ∧
        (P.charInfo c).cateSet.testBit (P.charInfo c).baseId = true ∧
        ∃ w, CharInfo.pack (P.charInfo c).cateSet (P.charInfo c).baseId (P.charInfo c).invoke
            (P.charInfo c).group (P.charInfo c).length = some w ∧ w < 2 ^ 32 ∧
          CharInfo.unpack w = P.charInfo c := by
  obtain ⟨st, hst, hok, hn, hentry⟩ := C10.entry_last_range h
  have hwf := C10.charsWF_of_parse h
  refine ⟨st, hst, hn, hwf.1, ?_⟩
  intro c hc
  have hci : P.charInfo c = P.entry c := by simp [CharProp.charInfo, hc]
  rw [hci]
  have hinfo := hwf.2 c
  refine ⟨?_, hinfo.base_lt, hinfo.set_lt, hinfo.base_in, entry_packs hwf.1 hinfo⟩
  rcases hentry c with ⟨i, r, ci, h1, h2, h3, h4, h5, h6⟩ | ⟨h1, h2⟩
  · exact Or.inl ⟨i, r, h1, h2, h3, h4, h6 ▸ h5⟩
  · exact Or.inr ⟨h1, h2⟩

/-- **Astral code points** (`c ≥ 65536`, outside the 65 536-entry table) read entry 0: they get
the categories of U+0000 — the last range line covering 0, else DEFAULT — not DEFAULT as
such. -/
theorem astral_reads_entry_zero (P : CharProp) (c : Nat) (hc : 65536 ≤ c) :
    P.charInfo c = P.charInfo 0 := by
  simp [CharProp.charInfo, Nat.not_lt.mpr hc]

/-! ## 4. F9: an accepted dictionary on which tokenisation panics -/

namespace C10

def f9Lex : List UInt8 := "a,0,0,1,x\n".toUTF8.toList
def f9Matrix : List UInt8 := "1 1\n0 0 0\n".toUTF8.toList
/-- SPACE is defined and used for U+0020 … -/
def f9CharDef : List UInt8 := "DEFAULT 0 1 0\nSPACE 0 1 0\n0x0020 SPACE\n".toUTF8.toList
/-- … but has no unk.def entry. -/
def f9Unk : List UInt8 := "DEFAULT,0,0,10,*\n".toUTF8.toList

/-- What `from_readers` returns for these four files (checked by `#guard` below). -/
def f9Dict : DictM :=
  { sys := { entries := [{ surface := [97], param := ⟨0, 0, 1⟩ }], features := [[120]] }
    user := none, numRight := 1, numLeft := 1, conn := [0], mapper := none
    chars := { names := ["DEFAULT", "SPACE"], defInfo := ⟨1, 0, false, true, 0⟩,
               ranges := [(32, 33, ⟨2, 1, false, true, 0⟩)] }
    unk := [{ cateId := 0, param := ⟨0, 0, 10⟩, feature := [42] }] }

theorem f9_entry (c : Nat) : f9Dict.chars.entry c =
    if c = 32 then ⟨2, 1, false, true, 0⟩ else ⟨1, 0, false, true, 0⟩ := by
  simp only [CharProp.entry, f9Dict, List.reverse_cons, List.reverse_nil, List.nil_append,
    List.find?_cons, List.find?_nil]
  by_cases h : c = 32
  · subst h; rfl
  · have : (decide (32 ≤ c) && decide (c < 33)) = false := by
      simp only [Bool.and_eq_false_iff, decide_eq_false_iff_not]; omega
    simp [this, h]

end C10

-- replay: the builder accepts the files, returns `f9Dict`, and tokenising " " panics
#guard (buildMatrixDict Fixes.all C10.f9Lex C10.f9Matrix C10.f9CharDef C10.f9Unk).tag == "ok"
#guard (match buildMatrixDict Fixes.all C10.f9Lex C10.f9Matrix C10.f9CharDef C10.f9Unk with
  | .ok D => toString (repr D) == toString (repr C10.f9Dict)
  | _ => false)
#guard (match buildMatrixDict Fixes.all C10.f9Lex C10.f9Matrix C10.f9CharDef C10.f9Unk with
  | .ok D => (tokenize D.tokDict ⟨none, none⟩ [32]).isNone && (tokenize D.tokDict ⟨none, none⟩ [97]).isSome
  | _ => false)

/-- **F9 witness.**  `f9Dict` satisfies everything the builders guarantee (`DictWF`), its
SPACE category has no unknown-word entry (`¬ UnkCovered`), and tokenising the one-character
sentence `" "` panics (`none`), while `"a"` tokenizes. -/
theorem f9_accepted_dictionary_panics :
    DictWF C10.f9Dict ∧ ¬ UnkCovered C10.f9Dict.tokDict ∧
      tokenize C10.f9Dict.tokDict ⟨none, none⟩ [32] = none := by
  refine ⟨?_, ?_, ?_⟩
  · refine ⟨by decide, ?_, ?_, by simp [C10.f9Dict], ?_, ?_, ?_, ?_⟩
    · intro x hx; simp [C10.f9Dict] at hx; subst hx; simp [I16]
    · refine ⟨?_, rfl⟩
      intro e he; simp [C10.f9Dict] at he; subst he; simp [ParamOK, I16, C10.f9Dict]
    · intro u hu; simp [C10.f9Dict] at hu
    · intro e he; simp [C10.f9Dict] at he; subst he; simp [ParamOK, I16, C10.f9Dict]
    · intro ml mr hm; simp [C10.f9Dict] at hm
    · refine ⟨by decide, ?_⟩
      intro c
      rw [C10.f9_entry]
      split <;> constructor <;> first | decide | simp [C10.f9Dict, LENGTH_BITS]
  · intro hcov
    exact hcov 32 (by decide)
  · apply C10.tokenize_single_uncovered
    decide

/-! ## Non-vacuity -/

-- 1. totality: arbitrary garbage gives `err`, never `panic`; the pinned parser panicked here (F8)
#guard (buildMatrixDict Fixes.all "a,1,2,3,".toUTF8.toList [] [0xFF] []).tag == "err"
#guard LexCsv.parseCsv false "a,1,2,3,".toUTF8.toList == .panic
#guard LexCsv.parseCsv true "a,1,2,3,".toUTF8.toList == .ok [⟨[97], 1, 2, 3, []⟩]

example : DictWF C10.f9Dict := f9_accepted_dictionary_panics.1

/-- A well-formed dictionary WITH full unknown-word coverage (DEFAULT and SPACE entries). -/
def C10.okDict : DictM :=
  { C10.f9Dict with unk := [⟨0, ⟨0, 0, 10⟩, [42]⟩, ⟨1, ⟨0, 0, 5⟩, [42]⟩] }

example : DictWF C10.okDict ∧ UnkCovered C10.okDict.tokDict := by
  have h9 := f9_accepted_dictionary_panics.1
  refine ⟨⟨h9.conn_len, h9.conn_i16, h9.sys_ok, h9.sys_ne, h9.user_ok, ?_, h9.mapper_ok, h9.chars_ok⟩, ?_⟩
  · intro e he
    simp [C10.okDict] at he
    rcases he with rfl | rfl <;> simp [ParamOK, I16, C10.okDict, C10.f9Dict]
  · intro c
    have hb : (C10.okDict.tokDict.charInfo c).baseId = 0 ∨ (C10.okDict.tokDict.charInfo c).baseId = 1 := by
      have : ∀ c, C10.okDict.chars.entry c = ⟨2, 1, false, true, 0⟩ ∨
          C10.okDict.chars.entry c = ⟨1, 0, false, true, 0⟩ := by
        intro c
        have := C10.f9_entry c
        have hc : C10.okDict.chars = C10.f9Dict.chars := rfl
        rw [hc, this]
        split <;> simp
      simp only [DictM.tokDict, CharProp.charInfo]
      split
      · rcases this c with h | h <;> simp [h]
      · rcases this 0 with h | h <;> simp [h]
    rcases hb with h | h <;> rw [h] <;> decide

-- mapping and user-lexicon loads on it: ok / err, and tokenisation afterwards
#guard (C10.okDict.applyOps [.mapIds [] [], .resetUser (some "b,0,0,2,y\n".toUTF8.toList)]).tag == "ok"
#guard (C10.okDict.applyOps [.mapIds [1] [1]]).tag == "err"
#guard (C10.okDict.applyOps [.resetUser (some "b,7,0,2,y\n".toUTF8.toList)]).tag == "err"
#guard ((tokenize C10.okDict.tokDict ⟨none, none⟩ [97, 32, 98]).map (·.length)) == some 3

-- the same calls on the pinned tree panic (F2, F2b): the `Fixes.all` hypothesis is not idle
#guard (C10.okDict.mapIds Fixes.pinned [1] [1]).tag == "panic"
#guard (match C10.okDict.mapIds Fixes.pinned [] [] with
  | .ok D => (D.resetUser Fixes.pinned (some "b,7,0,2,y\n".toUTF8.toList)).tag == "panic" &&
      (D.resetUser Fixes.all (some "b,7,0,2,y\n".toUTF8.toList)).tag == "err"
  | _ => false)

-- 3. char.def: last range line wins; 19 categories are rejected (F6)
#guard (match CharDef.parse "DEFAULT 0 1 0\nA 1 0 2\nB 0 0 3\n0x41..0x5A A\n0x50 B A\n".toUTF8.toList with
  | .ok P => P.charInfo 0x41 == ⟨2, 1, true, false, 2⟩ && P.charInfo 0x50 == ⟨6, 2, false, false, 3⟩ &&
      P.charInfo 0x5B == ⟨1, 0, false, true, 0⟩ && P.charInfo 0x1F600 == P.charInfo 0
  | _ => false)
#guard (CharDef.parse ("DEFAULT 0 1 0\n" ++ String.join ((List.range 18).map fun i => s!"C{i} 0 1 0\n")).toUTF8.toList).tag == "err"
#guard (CharDef.parse ("DEFAULT 0 1 0\n" ++ String.join ((List.range 17).map fun i => s!"C{i} 0 1 0\n")).toUTF8.toList).tag == "ok"
#guard (CharDef.parse "DEFAULT 0 1 16\n".toUTF8.toList).tag == "err"

example : ∃ w, CharInfo.pack 0x3FFFF 17 true false 15 = some w ∧ w < 2 ^ 32 ∧
    CharInfo.unpack w = ⟨0x3FFFF, 17, true, false, 15⟩ :=
  packing_roundtrip_param _ _ _ _ _ (by decide) (by decide) (by decide)

end Vibrato
