/-
C02 — The reported segmentation is a minimum-cost path.

Property theorems only; helper lemmas are in `Proofs/{SearchMin,LatticeInv,Viterbi}`.
The statements are about `buildLattice`, the model of `Tokenizer::build_lattice_inner`
+ `Lattice::{insert_node,search_min_node,insert_eos,append_top_nodes}`; the tie to the
Rust code is the correspondence check (`check.py C02`).
-/
import Vibrato.Proofs.Viterbi

namespace Vibrato

/-- **Viterbi optimality.**  For every environment whose candidates lie inside the
sentence and whose costs cannot overflow 32 bits (`EnvOK`), and in which every
start position offers a candidate (`Covered`): the back-pointer walk from EOS
succeeds, the reported words form a path from the sentence start to the EOS
boundary, the EOS node's `min_cost` is that path's cost including both BOS/EOS
connections (connection id 0), and **no path through the lattice is cheaper**. -/
theorem viterbi_optimal (E : LatEnv) (C W : Int) (hE : EnvOK E C W) (hcov : Covered E) (b : Nat) :
    let Lt := buildLattice E b
    ∃ π, topNodes Lt = some π ∧ RPath Lt.ends π Lt.eos.startNode ∧
      Lt.eos.minCost = totalCost E.conn π ∧
      ∀ π', RPath Lt.ends π' Lt.eos.startNode → totalCost E.conn π ≤ totalCost E.conn π' := by
  intro Lt
  have h0 := reset_inv E C W b
  obtain ⟨hinv, hsn, _⟩ := buildLoop_inv hE (resetEnds b E.len) 0 h0 (Nat.zero_le _)
  have hreach := buildLoop_reach hE hcov (resetEnds b E.len) 0 h0 (Nat.zero_le _)
    ⟨0, Nat.le_refl _, by rw [endsAt_resetEnds_zero]; simp⟩
  -- abbreviations
  generalize hL : (buildLoop E (resetEnds b E.len) 0).1 = L at hinv hreach
  generalize hs : (buildLoop E (resetEnds b E.len) 0).2 = sn at hinv hreach hsn
  have hLt : Lt = { ends := L, eos := eosNode E L sn } := by
    simp only [Lt, buildLattice, hL, hs]
  have hmax : ∀ m ∈ endsAt L sn, stepCost E.conn 0 m ≤ MAX_COST := by
    intro m hm
    have h1 := stepCost_le hinv hE sn 0 m hm
    have h2 := bound_mono hE sn hsn
    have := hE.W_nonneg
    omega
  obtain ⟨m, hget, hcost, hmin⟩ := searchMin_spec E.conn 0 (endsAt L sn) hreach hmax
  have heos_sn : Lt.eos.startNode = sn := by rw [hLt]; rfl
  have heos_idx : Lt.eos.minIdx = (searchMin E.conn (endsAt L sn) 0).1 := by rw [hLt]; rfl
  have heos_cost : Lt.eos.minCost = (searchMin E.conn (endsAt L sn) 0).2 := by rw [hLt]; rfl
  have hends : Lt.ends = L := by rw [hLt]
  rw [heos_sn, hends]
  rcases Nat.eq_zero_or_pos sn with h0sn | hpos
  · -- EOS connects to BOS: no words
    subst h0sn
    have hm : m = bosNode := by
      have := List.mem_of_getElem? hget
      rw [hinv.bos] at this; simpa using this
    subst hm
    refine ⟨[], ?_, rfl, ?_, ?_⟩
    · simp only [topNodes, heos_sn, hends]; rw [walkBack]; simp
    · rw [heos_cost, hcost]; simp [totalCost, rcost, lastRight, stepCost, bosNode]
    · intro π' hp'
      cases π' with
      | nil => exact Int.le_refl _
      | cons hd tl =>
        obtain ⟨e1, n⟩ := hd
        simp only [RPath] at hp'
        omega
  · obtain ⟨rest, hw, hp, hc⟩ := walkBack_spec hinv sn _ m hpos hget
    refine ⟨(sn, m) :: rest, ?_, hp, ?_, ?_⟩
    · simp only [topNodes, heos_sn, hends, heos_idx]; exact hw
    · rw [heos_cost, hcost]; simp [totalCost, lastRight, hc, stepCost]
    · intro π' hp'
      cases π' with
      | nil => simp only [RPath] at hp'; omega
      | cons hd tl =>
        obtain ⟨e1, n⟩ := hd
        have hp'' := hp'
        simp only [RPath] at hp'
        obtain ⟨rfl, _, hn, htl⟩ := hp'
        have h1 := minCost_le_path hinv e1 n tl hpos hn htl
        have h2 := hmin n hn
        simp only [totalCost, lastRight, hc]
        rw [hcost] at h2
        simp only [stepCost] at h2
        omega

/-- **total_cost is the accumulated cost.**  Along the reported path, every word's
stored `min_cost` (what `Token::total_cost` returns) equals the accumulated
connection and word costs from the sentence start up to and including that word. -/
theorem total_cost_prefix (E : LatEnv) (C W : Int) (hE : EnvOK E C W) (b : Nat) :
    let Lt := buildLattice E b
    ∀ π, topNodes Lt = some π → ∀ x r, (x :: r) <:+ π → x.2.minCost = rcost E.conn (x :: r) := by
  intro Lt
  have h0 := reset_inv E C W b
  obtain ⟨hinv, _, _⟩ := buildLoop_inv hE (resetEnds b E.len) 0 h0 (Nat.zero_le _)
  have hends : Lt.ends = (buildLoop E (resetEnds b E.len) 0).1 := rfl
  rw [← hends] at hinv
  -- general statement about the walk
  have key : ∀ (e i : Nat) (π : List (Nat × Node)), walkBack Lt.ends e i = some π →
      ∀ x r, (x :: r) <:+ π → x.2.minCost = rcost E.conn (x :: r) := by
    intro e
    induction e using Nat.strongRecOn with
    | _ e ih =>
      intro i π hw x r hsuf
      rw [walkBack] at hw
      split at hw
      · cases hw; simp at hsuf
      · rename_i hne
        split at hw
        · cases hw
        · rename_i n hget
          split at hw
          · rename_i hlt
            cases hrec : walkBack Lt.ends n.startNode n.minIdx with
            | none => rw [hrec] at hw; cases hw
            | some rest =>
              rw [hrec] at hw
              simp only [Option.map_some, Option.some.injEq] at hw
              subst hw
              rcases List.suffix_cons_iff.mp hsuf with heq | hsuf'
              · cases heq
                have hpos : 0 < e := Nat.pos_of_ne_zero hne
                obtain ⟨rest', hw', _, hc'⟩ := walkBack_spec hinv e i n hpos hget
                rw [walkBack] at hw'
                simp only [hne, if_false, hget, hlt, if_true, hrec, Option.map_some,
                  Option.some.injEq, List.cons.injEq, true_and] at hw'
                subst hw'
                exact hc'.symm
              · exact ih n.startNode hlt n.minIdx rest hrec x r hsuf'
          · cases hw
  intro π hπ
  exact key _ _ π hπ

/-- Non-vacuity: a concrete three-character environment with two competing
segmentations satisfies the hypotheses, and the cheaper one is reported. -/
def exampleEnv : LatEnv :=
  { len := 3
    conn := fun r l => if r = 1 ∧ l = 1 then 5 else 0
    skip := fun _ => 0
    cands := fun sw =>
      if sw = 0 then [⟨1, 0, 0, 1, 1, 2⟩, ⟨3, 1, 0, 0, 0, 9⟩]
      else if sw = 1 then [⟨3, 2, 0, 1, 1, 1⟩]
      else if sw = 2 then [⟨3, 3, 2, 0, 0, 7⟩] else [] }

example : EnvOK exampleEnv 5 9 ∧ Covered exampleEnv := by
  refine ⟨⟨?_, ?_, ?_, by decide, by decide, by decide⟩, ?_⟩
  · intro sw _ c hc
    simp only [exampleEnv] at hc ⊢
    split at hc
    · subst_vars; simp at hc; rcases hc with rfl | rfl <;> simp
    · split at hc
      · subst_vars; simp at hc; subst hc; simp
      · split at hc
        · subst_vars; simp at hc; subst hc; simp
        · cases hc
  · intro r l; simp only [exampleEnv]; split <;> omega
  · intro sw _ c hc
    simp only [exampleEnv] at hc
    split at hc
    · simp at hc; rcases hc with rfl | rfl <;> simp
    · split at hc
      · simp at hc; subst hc; simp
      · split at hc
        · simp at hc; subst hc; simp
        · cases hc
  · intro sw hsw
    have : sw = 0 ∨ sw = 1 ∨ sw = 2 := by simp only [exampleEnv] at hsw; omega
    rcases this with rfl | rfl | rfl <;> simp [exampleEnv]

-- (executable test, not a theorem) the cheaper segmentation `0-1, 1-3` (cost 8 < 9) is reported
#guard (tokensOf (buildLattice exampleEnv)).map (·.map fun t => (t.startWord, t.endWord, t.node.minCost))
    == some [(0, 1, 2), (1, 3, 8)]

end Vibrato
