/-
C02 (oracle) — `specMin` is the minimum cost over all candidate segmentations.

`specMin` (`Model/SpecMin.lean`) is the executable oracle of the differential check "the total
cost reported by the implementation = the minimum over ALL candidate segmentations of the
sentence" (`c02SpecPred` in `Driver/Tok.lean`).  It is a forward dynamic programme over the
boundaries `0 … len` that knows nothing about the lattice of `build_lattice_inner` (no `ends`
vectors, no notion of visited start nodes).  This file proves that the number it returns is what
its doc comment says, in the vocabulary of `Props/C02cap.lean`:

* candidate segmentation = `CandSeg E 0 cs sn` with `FinalB E sn` (chain of candidate words from
  boundary 0 to a boundary `sn` with `sn = len` or everything after `sn` skipped);
* cost = `segCost E.conn cs` (connection costs from BOS, word costs, final connection to EOS).

Results:
* `specMin_lower_bound` — `specMin` is defined and is a lower bound of the cost of every candidate
  segmentation (needs only "candidates end after their start and inside the sentence", the first
  field `cands_range` of `EnvOK`);
* `specMin_attained` — a returned value is the cost of some candidate segmentation (no hypothesis);
* `specMin_spec` — the two together: `specMin E = some m` iff `m` is the minimum;
  `specMin_none_iff` — `none` iff there is no candidate segmentation;
* `specMin_le_lattice` — under `EnvOK` and `Covered`, `specMin` is at most the lattice's EOS cost;
* `specMin_eq_lattice` — under the hypotheses of `optimal_among_candidate_segmentations`
  (`EnvOK`, `Covered`, `NoEndInSkip`) it IS the EOS cost of `buildLattice`, for every buffer state;
* `specMin_ne_lattice_deadEnv` — on `deadEnv` (finding F24: a word ends inside a skipped run)
  `specMin = 2` but the lattice reports 10: `NoEndInSkip` cannot be dropped.
-/
import Vibrato.Props.C02cap
import Vibrato.Proofs.SpecMin

namespace Vibrato
open SpecMin

/-- **`specMin` is a lower bound of every candidate segmentation.**  Assume that every candidate
offered at a start word position inside the sentence ends after that position and not after the
end of the sentence (this is `EnvOK.cands_range`; nothing is assumed about costs, about `skip`,
or about coverage).  Then for every chain of candidate words `cs` from boundary 0 to a final
boundary `sn` (`CandSeg`, `FinalB`: the predicate of `optimal_among_candidate_segmentations`),
`specMin E` returns a value, and that value is at most `segCost E.conn cs` (word costs +
connection costs, BOS and EOS included).  In particular `specMin E ≠ none` as soon as one
candidate segmentation exists.  The empty sentence is included (`cs = []`, `sn = 0 = len`). -/
theorem specMin_lower_bound (E : LatEnv)
    (hr : ∀ sw, sw < E.len → ∀ c, c ∈ E.cands sw → sw < c.endWord ∧ c.endWord ≤ E.len)
    (cs : List Cand) (sn : Nat) (hseg : CandSeg E 0 cs sn) (hfin : FinalB E sn) :
    ∃ m, specMin E = some m ∧ m ≤ segCost E.conn cs := by
  have hreach : Reach E sn (lastR 0 cs) (preCost E.conn 0 cs) := ⟨cs, hseg, rfl, rfl⟩
  have hle : sn ≤ E.len := hreach.le_len hr
  obtain ⟨p, hp, hp1, hp2⟩ := (tableUpTo_comp hr E.len).full hr hle hreach
  obtain ⟨m, hm, hmle⟩ := finFold_le E.conn (table E) sn p hp (finals E) none
    ((mem_finals E sn).mpr ⟨hle, hfin⟩)
  refine ⟨m, by rw [specMin_eq_finFold]; exact hm, ?_⟩
  rw [segCost_eq_preCost, ← hp1]
  omega

/-- The same with the hypothesis packaged as in the capstone theorems. -/
theorem specMin_lower_bound_envOK (E : LatEnv) (C W : Int) (hE : EnvOK E C W)
    (cs : List Cand) (sn : Nat) (hseg : CandSeg E 0 cs sn) (hfin : FinalB E sn) :
    ∃ m, specMin E = some m ∧ m ≤ segCost E.conn cs :=
  specMin_lower_bound E hE.cands_range cs sn hseg hfin

/-- **A value returned by `specMin` is the cost of a candidate segmentation.**  For every
environment whatsoever: if `specMin E = some m` then there are a chain of candidate words `cs` from
boundary 0 to a boundary `sn ≤ len` at which a segmentation may stop, with `segCost E.conn cs = m`.
(So the oracle never reports a cost that no sequence of dictionary words realises.) -/
theorem specMin_attained (E : LatEnv) (m : Int) (h : specMin E = some m) :
    ∃ cs sn, CandSeg E 0 cs sn ∧ FinalB E sn ∧ sn ≤ E.len ∧ segCost E.conn cs = m := by
  rw [specMin_eq_finFold] at h
  rcases finFold_attained E.conn (table E) m (finals E) none h with h0 | ⟨sn, hsn, p, hp, hm⟩
  · cases h0
  · obtain ⟨hle, hfin⟩ := (mem_finals E sn).mp hsn
    obtain ⟨cs, h1, h2, h3⟩ := tableUpTo_sound E E.len sn p hp
    refine ⟨cs, sn, h1, hfin, hle, ?_⟩
    rw [segCost_eq_preCost, h2, h3, hm]

/-- **`specMin` is the minimum.**  Under `cands_range`: `specMin E = some m` iff `m` is the cost
of some candidate segmentation and no candidate segmentation is cheaper. -/
theorem specMin_spec (E : LatEnv)
    (hr : ∀ sw, sw < E.len → ∀ c, c ∈ E.cands sw → sw < c.endWord ∧ c.endWord ≤ E.len) (m : Int) :
    specMin E = some m ↔
      (∃ cs sn, CandSeg E 0 cs sn ∧ FinalB E sn ∧ segCost E.conn cs = m) ∧
      (∀ cs sn, CandSeg E 0 cs sn → FinalB E sn → m ≤ segCost E.conn cs) := by
  constructor
  · intro h
    obtain ⟨cs, sn, h1, h2, _, h3⟩ := specMin_attained E m h
    refine ⟨⟨cs, sn, h1, h2, h3⟩, ?_⟩
    intro cs' sn' h1' h2'
    obtain ⟨m', hm', hle⟩ := specMin_lower_bound E hr cs' sn' h1' h2'
    rw [h] at hm'; cases hm'; exact hle
  · rintro ⟨⟨cs, sn, h1, h2, h3⟩, hall⟩
    obtain ⟨m', hm', hle⟩ := specMin_lower_bound E hr cs sn h1 h2
    obtain ⟨cs', sn', h1', h2', _, h3'⟩ := specMin_attained E m' hm'
    have := hall cs' sn' h1' h2'
    rw [hm']; congr 1; omega

/-- **`specMin` answers `none` exactly when the sentence has no candidate segmentation.** -/
theorem specMin_none_iff (E : LatEnv)
    (hr : ∀ sw, sw < E.len → ∀ c, c ∈ E.cands sw → sw < c.endWord ∧ c.endWord ≤ E.len) :
    specMin E = none ↔ ¬ ∃ cs sn, CandSeg E 0 cs sn ∧ FinalB E sn := by
  constructor
  · rintro h ⟨cs, sn, h1, h2⟩
    obtain ⟨m, hm, _⟩ := specMin_lower_bound E hr cs sn h1 h2
    rw [h] at hm; cases hm
  · intro h
    cases hs : specMin E with
    | none => rfl
    | some m =>
      obtain ⟨cs, sn, h1, h2, _, _⟩ := specMin_attained E m hs
      exact absurd ⟨cs, sn, h1, h2⟩ h

/-- **The oracle never exceeds the code's answer.**  Under `EnvOK` and `Covered` only (no
hypothesis on skipped spaces): `specMin E` is defined and at most `eos.min_cost`, because the
reported segmentation is itself a candidate segmentation. -/
theorem specMin_le_lattice (E : LatEnv) (C W : Int) (hE : EnvOK E C W) (hcov : Covered E) (b : Nat) :
    ∃ m, specMin E = some m ∧ m ≤ (buildLattice E b).eos.minCost := by
  obtain ⟨ts, _, hseg, hfin, _, _, hcost⟩ := reported_is_candidate_segmentation E C W hE hcov b
  obtain ⟨m, hm, hle⟩ := specMin_lower_bound E hE.cands_range _ _ hseg hfin
  exact ⟨m, hm, by rw [← hcost]; exact hle⟩

/-- **The oracle and the lattice agree wherever the capstone theorem applies.**  Under the
hypotheses of `optimal_among_candidate_segmentations` — `EnvOK` (candidates end after their start
and inside the sentence, costs within the 32-bit bound), `Covered` (every start position offers a
candidate), `NoEndInSkip` (no candidate ends inside or right after a run skipped from a boundary
inside it) — and for every buffer state `b`: `specMin E` is exactly the `min_cost` of the EOS node
that `build_lattice` computes, i.e. the total cost the implementation reports. -/
theorem specMin_eq_lattice (E : LatEnv) (C W : Int) (hE : EnvOK E C W) (hcov : Covered E)
    (hns : NoEndInSkip E) (b : Nat) : specMin E = some (buildLattice E b).eos.minCost := by
  obtain ⟨m, hm, hle⟩ := specMin_le_lattice E C W hE hcov b
  obtain ⟨cs, sn, hseg, hfin, _, hcost⟩ := specMin_attained E m hm
  have hge := (optimal_among_candidate_segmentations E C W hE hcov hns b cs sn hseg hfin).2
  rw [hm]; congr 1; omega

/-! ### Non-vacuity -/

/-- `specMin_lower_bound` on `capEnv` (`a␠bc`, one skipped space, three cheapest segmentations of
cost 8): the hypotheses hold and the bound is attained. -/
example (f : Bool) : ∃ m, specMin (capEnv f) = some m ∧ m ≤ 8 := by
  have h := specMin_lower_bound (capEnv f) (capEnv_ok f).cands_range capSegA 4
    (by cases f <;> decide) (Or.inl rfl)
  have hc : segCost (capEnv f).conn capSegA = 8 := by cases f <;> decide
  rw [hc] at h; exact h

/-- the value is 8 (kernel evaluation of the dynamic programme) … -/
theorem specMin_capEnv (f : Bool) : specMin (capEnv f) = some 8 := by cases f <;> decide

/-- … so `specMin_attained` yields a candidate segmentation of `capEnv` of cost exactly 8. -/
example (f : Bool) : ∃ cs sn, CandSeg (capEnv f) 0 cs sn ∧ FinalB (capEnv f) sn ∧ sn ≤ 4 ∧
    segCost (capEnv f).conn cs = 8 :=
  specMin_attained (capEnv f) 8 (specMin_capEnv f)

/-- `specMin_eq_lattice` on `capEnv`: all three hypotheses hold, so the EOS cost is 8. -/
example (f : Bool) : (buildLattice (capEnv f)).eos.minCost = 8 := by
  have h := specMin_eq_lattice (capEnv f) 1 5 (capEnv_ok f) (capEnv_covered f) (capEnv_noEndInSkip f) 0
  rw [specMin_capEnv] at h
  exact (Option.some.inj h).symm

/-- `specMin_none_iff` is not vacuous either: an environment of length 1 without candidates has no
candidate segmentation, and `specMin` says `none`. -/
example : specMin { len := 1, conn := fun _ _ => 0, skip := fun _ => 0, cands := fun _ => [] } = none := by
  decide

/-- the empty sentence: one candidate segmentation (no word), cost `conn 0 0` -/
example : specMin { len := 0, conn := fun _ _ => 7, skip := fun _ => 0, cands := fun _ => [] } = some 7 := by
  decide

-- executable tests (compiled evaluation) of the same values
#guard specMin (capEnv false) == some 8 && specMin (capEnv true) == some 8
#guard specMin (capEnv false) == some (buildLattice (capEnv false)).eos.minCost

/-! ### F24: `NoEndInSkip` is needed -/

/-- **Finding F24, kernel-checked.**  On `deadEnv` (`a␠␠` with the lexicon word `a␠`; `EnvOK` and
`Covered` hold, `NoEndInSkip` fails) the minimum over all candidate segmentations is 2 (`a␠`, `␠`)
— `specMin` computes it — but the lattice loop never uses boundary 2 as a start node and reports
EOS cost 10.  So `specMin_eq_lattice` is false without `NoEndInSkip`, while `specMin_le_lattice`
(`2 ≤ 10`) still holds. -/
theorem specMin_ne_lattice_deadEnv :
    EnvOK deadEnv 0 10 ∧ Covered deadEnv ∧ ¬ NoEndInSkip deadEnv ∧
    specMin deadEnv = some 2 ∧ (buildLattice deadEnv).eos.minCost = 10 ∧
    specMin deadEnv ≠ some (buildLattice deadEnv).eos.minCost := by
  have h2 : specMin deadEnv = some 2 := by decide
  refine ⟨deadEnv_ok.1, deadEnv_ok.2, dead_end_cheaper.2.2.1, h2, deadEnv_eos.1, ?_⟩
  rw [h2, deadEnv_eos.1]
  decide

#guard specMin deadEnv == some 2 && (buildLattice deadEnv).eos.minCost == 10

end Vibrato
