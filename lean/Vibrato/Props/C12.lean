/-
C12 — With `ignore_space`, the amount of whitespace does not matter.

Property theorems only; helper lemmas are in `Proofs/Respace{Local,Sim,Pos,Main}.lean`:
* `RespaceLocal`: `segments`, `SpacePre`, locality of `compute_groupable`
  (`groupables_space_run`, `groupables_seg_local`), of the lexicon matches (`lexMatches_local`)
  and of the whole candidate list (`candsAt_drop`, `relCands_local`), `skipAt_eq`;
* `RespaceSim`: the lattice-level simulation (`RSim`, `sim_loop`, `sim_walk`, `rsim_tokens`);
* `RespacePos`: the boundary map between two re-spacings (`phiOf`), corresponding suffixes
  (`corr_suffix`), no candidate ends in or crosses a space run (`env_cand_end`), and
  `respace_rsim`: the two lattice environments satisfy the simulation hypotheses;
* `RespaceMain`: surfaces and observations.

Statements are about `tokenize` (model of `Worker::reset_sentence` + `Worker::tokenize` +
`Token` accessors on a fresh worker, `Model/Tokenizer.lean`) with options
`⟨some sp, mg⟩` = `ignore_space(true)` where `sp = 1 << cate_id("SPACE")`, and about
`mkTokenizer` (`Model/Worker.lean`).  The tie to the Rust code is the correspondence check
(`check.py C12`).
-/
import Vibrato.Proofs.RespaceMain
import Vibrato.Model.Worker

namespace Vibrato

/-- A sentence without any space-free segment (empty or spaces only) yields no tokens. -/
theorem tokenize_no_segments {D : TokDict} {sp : Nat} (h : SpacePre D sp) (mg : Option Nat) (s : List Nat)
    (hs : segments (isSpC D sp) s = []) : tokenize D ⟨some sp, mg⟩ s = some [] := by
  apply tokenize_done_zero
  have := (env_done_iff h mg s 0 (Nat.zero_le _)).mpr
    (by rw [List.drop_zero]; exact (segments_eq_nil_iff _ s).mp hs)
  exact this

/-- **Re-spacing invariance (full statement).**  Let the dictionary satisfy `SpacePre D sp`
(a character with the SPACE bit has category set exactly `sp`; no system or user lexicon
surface contains such a character) and let `ignore_space` be on (`space_cateset = sp`), with
any `max_grouping_len`.  If two sentences have the same list of maximal space-free segments
— i.e. they differ only in the lengths of their space runs (inner runs non-empty in both,
leading and trailing runs of any length including none) and in *which* SPACE characters are
used — then `tokenize` reports the same observable token sequence on both: same number of
tokens, and token by token the same surface characters, lexicon type and word id (hence the
same feature string), left/right connection ids, word cost and accumulated total cost.  The
result is `none` (a panic in the Rust code: a boundary without node reached by EOS, possible
only when some category has no unknown-word entry) on one side iff on the other.
No cost bound and no coverage assumption is needed. -/
theorem respace_invariant {D : TokDict} {sp : Nat} (h : SpacePre D sp) (mg : Option Nat) (s s' : List Nat)
    (H : segments (isSpC D sp) s = segments (isSpC D sp) s') :
    obs s (tokenize D ⟨some sp, mg⟩ s) = obs s' (tokenize D ⟨some sp, mg⟩ s') := by
  by_cases hseg : segments (isSpC D sp) s = []
  · rw [tokenize_no_segments h mg s hseg, tokenize_no_segments h mg s' (by rw [← H]; exact hseg)]
    rfl
  · have hs : s ≠ [] := by rintro rfl; exact hseg rfl
    have hs' : s' ≠ [] := by rintro rfl; exact hseg (by rw [H]; rfl)
    obtain ⟨h1, h2⟩ := rsim_tokens (respace_rsim h mg s s' H)
    rw [tokenize_ne_nil D _ s hs, tokenize_ne_nil D _ s' hs']
    show obs s (tokensOf (buildLattice (envOf D sp mg s))) = obs s' (tokensOf (buildLattice (envOf D sp mg s')))
    rw [h1]
    cases hts : tokensOf (buildLattice (envOf D sp mg s)) with
    | none => rfl
    | some ts =>
      simp only [obs, Option.map_some, List.map_map, Option.some.injEq]
      apply List.map_congr_left
      intro t ht
      obtain ⟨hpos, q, k, hsw⟩ := h2 ts hts t ht
      obtain ⟨c, hc, hce, _⟩ := k.fromCand
      rw [k.sw_eq] at hc
      obtain ⟨_, _, hsurf, _⟩ := respace_surface h mg s s' H t.node.startNode k.gsn k.notDone c hc
      obtain ⟨f1, f2, f3, f4, f5, f6⟩ := shiftNode_fields (envOf D sp mg s') (phiOf (isSpC D sp) s s') t.node
      obtain ⟨_, g2⟩ := shiftNode_start (envOf D sp mg s') (phiOf (isSpC D sp) s s') t.node k.notBos
      simp only [Function.comp, obsTok, mapTok, f1, f2, f3, f4, f5, f6, g2, hsw, k.sw_eq, ← hce]
      rw [hsurf]

/-- **A sentence of spaces only yields no tokens** (under `SpacePre`; the empty sentence
included). -/
theorem spaces_only {D : TokDict} {sp : Nat} (h : SpacePre D sp) (mg : Option Nat) (s : List Nat)
    (hall : ∀ c ∈ s, isSpC D sp c = true) : tokenize D ⟨some sp, mg⟩ s = some [] :=
  tokenize_no_segments h mg s
    ((segments_eq_nil_iff _ s).mpr ((spTail_eq_nil_iff _ s).mpr hall))

/-- **… and also without `SpacePre`**, for every dictionary, provided the mask is a single bit
— which is what `ignore_space` always installs (`1 << cate_id`, see
`ignore_space_sets_single_bit`): all characters carry that bit, so adjacent category sets
intersect, the groupable run at 0 is the whole sentence and the loop stops at once.  (For a
hypothetical multi-bit mask it fails, see the `#guard` below.) -/
theorem spaces_only_any_dict (D : TokDict) (i : Nat) (mg : Option Nat) (s : List Nat)
    (hall : ∀ c ∈ s, (D.charInfo c).cateSet &&& (1 <<< i) ≠ 0) :
    tokenize D ⟨some (1 <<< i), mg⟩ s = some [] := by
  rw [Nat.one_shiftLeft] at hall ⊢
  exact tokenize_done_zero D _ s (done_zero_of_all_space_bit D i mg s hall)

/-- **`ignore_space(true)` is rejected exactly when the category SPACE is undefined.** -/
theorem ignore_space_requires_SPACE (D : DictM) (m : Nat) :
    mkTokenizer D true m = none ↔ D.chars.cateId "SPACE" = none := by
  unfold mkTokenizer
  cases D.chars.cateId "SPACE" <;> simp

/-- When it is accepted, the space mask is the single bit of the SPACE category; with
`ignore_space(false)` there is no mask. -/
theorem ignore_space_sets_single_bit (D : DictM) (m : Nat) (T : TokenizerM) (hT : mkTokenizer D true m = some T) :
    ∃ id, D.chars.cateId "SPACE" = some id ∧ T.opts.spaceSet = some (1 <<< id) ∧ T.dict = D := by
  unfold mkTokenizer at hT
  cases hid : D.chars.cateId "SPACE" with
  | none => simp [hid] at hT
  | some id =>
    simp only [hid, if_true, Option.some.injEq] at hT
    subst hT
    exact ⟨id, rfl, rfl, rfl⟩

/-- **Skipped characters are never tokenized.**  Under `SpacePre`, every reported token is
non-empty, lies inside the sentence and consists of non-space characters only (it lies
inside one space-free segment). -/
theorem skipped_not_tokenized {D : TokDict} {sp : Nat} (h : SpacePre D sp) (mg : Option Nat) (s : List Nat)
    (ts : List Tok) (hts : tokenize D ⟨some sp, mg⟩ s = some ts) :
    ∀ t ∈ ts, t.startWord < t.endWord ∧ t.endWord ≤ s.length ∧
      ∀ i, t.startWord ≤ i → i < t.endWord → ∃ x, s[i]? = some x ∧ isSpC D sp x = false := by
  by_cases hs : s = []
  · subst hs
    have : ts = [] := by
      have : tokenize D ⟨some sp, mg⟩ [] = some [] := rfl
      rw [this] at hts; cases hts; rfl
    subst this
    intro t ht; cases ht
  · obtain ⟨_, h2⟩ := rsim_tokens (respace_rsim h mg s s rfl)
    rw [tokenize_ne_nil D _ s hs] at hts
    intro t ht
    obtain ⟨hpos, q, k, hsw⟩ := h2 ts hts t ht
    obtain ⟨c, hc, hce, _⟩ := k.fromCand
    rw [k.sw_eq] at hc
    obtain ⟨r1, r2, _, r4⟩ := respace_surface h mg s s rfl t.node.startNode k.gsn k.notDone c hc
    rw [hsw, k.sw_eq, ← hce]
    exact ⟨r1, r2, r4⟩

/-! ### Locality lemmas (restated; proofs in `Proofs/RespaceLocal.lean`, `RespacePos.lean`) -/

/-- **(a)** With `ignore_space`, the number of characters skipped at a boundary is the length
of the run of SPACE characters that starts there (0 if none does). -/
theorem skip_is_space_run {D : TokDict} {sp : Nat} (h : SpacePre D sp) (mg : Option Nat) (s : List Nat) (p : Nat) :
    skipAt (compileSent D s) ⟨some sp, mg⟩ p = ((s.drop p).takeWhile (isSpC D sp)).length :=
  skipAt_eq h mg s p

/-- **(a)–(c)** The candidate list (user matches, system matches, unknown words; insertion
order) at a position whose remaining text reads `seg ++ rest` — `seg` a non-empty space-free
run, `rest` empty or starting with a space — is the candidate list computed from `seg` alone,
moved to the position.  In particular it does not depend on what follows the segment or on
the position. -/
theorem cands_local {D : TokDict} {sp : Nat} (h : SpacePre D sp) (o : TokOpts) (s : List Nat) (sw : Nat)
    (seg rest : List Nat) (hd : s.drop sw = seg ++ rest) (hne : seg ≠ [])
    (hseg : ∀ c ∈ seg, isSpC D sp c = false) (hrest : startsNS (isSpC D sp) rest = false) :
    candsAt D (compileSent D s) o sw = (relCands D o.maxGroup seg).map (addEnd sw) ∧
      ∀ c ∈ relCands D o.maxGroup seg, 1 ≤ c.endWord ∧ c.endWord ≤ seg.length := by
  have hsw : sw < s.length := by
    rcases Nat.lt_or_ge sw s.length with h1 | h1
    · exact h1
    · rw [List.drop_eq_nil_of_le h1] at hd
      have := congrArg List.length hd
      simp only [List.length_nil, List.length_append] at this
      have := List.length_pos_iff.mpr hne
      omega
  refine ⟨?_, fun c hc => relCands_bounds D _ seg hne c hc⟩
  rw [candsAt_drop D o s sw hsw, hd, relCands_local h _ seg rest hne hseg hrest]

/-- **(d)** Under `SpacePre`, every node stored in the lattice (on the best path or not) ends
just after a non-space character (`goodB`: never inside or at the end of a space run), starts
at such a boundary or at 0, and is one of the candidates offered at its start word
`start_node + skip`. -/
theorem no_node_ends_in_run {D : TokDict} {sp : Nat} (h : SpacePre D sp) (mg : Option Nat) (s : List Nat)
    (e : Nat) (he : 0 < e) (n : Node)
    (hn : n ∈ endsAt (buildLattice (latEnvOf D (compileSent D s) ⟨some sp, mg⟩)).ends e) :
    goodB (isSpC D sp) s e ∧ goodB (isSpC D sp) s n.startNode ∧ n.startNode < e ∧
      n.startWord = n.startNode + skipAt (compileSent D s) ⟨some sp, mg⟩ n.startNode ∧
      ∃ c ∈ candsAt D (compileSent D s) ⟨some sp, mg⟩ n.startWord, c.endWord = e := by
  obtain ⟨q, k⟩ := rsim_nodes (respace_rsim h mg s s rfl) e he n hn
  obtain ⟨c, hc, hce, _⟩ := k.fromCand
  exact ⟨k.ge, k.gsn, k.sn_lt, k.sw_eq, c, hc, hce⟩

/-! ### The precondition as an executable check on a loaded dictionary -/

/-- `SpacePre` for a `DictM`, decided by running over the 65 536-entry character table
(`char_info` reads entry 0 beyond it) and over all lexicon surfaces. -/
def spacePreB (D : DictM) (sp : Nat) : Bool :=
  ((List.range 65536).all fun c =>
    (D.chars.entry c).cateSet &&& sp == 0 || (D.chars.entry c).cateSet == sp) &&
  (D.sys.entries.all fun e => e.surface.all fun c => (D.chars.charInfo c).cateSet &&& sp == 0) &&
  (match D.user with
   | none => true
   | some u => u.entries.all fun e => e.surface.all fun c => (D.chars.charInfo c).cateSet &&& sp == 0)

theorem spacePreB_sound (D : DictM) (sp : Nat) (h : spacePreB D sp = true) : SpacePre D.tokDict sp := by
  unfold spacePreB at h
  simp only [Bool.and_eq_true] at h
  obtain ⟨⟨h1, h2⟩, h3⟩ := h
  refine ⟨?_, ?_, ?_⟩
  · intro c hc
    have key : ∀ c', c' < 65536 → (D.chars.entry c').cateSet &&& sp ≠ 0 → (D.chars.entry c').cateSet = sp := by
      intro c' hc' hne
      have := List.all_eq_true.mp h1 c' (List.mem_range.mpr hc')
      simp only [Bool.or_eq_true, beq_iff_eq] at this
      rcases this with h0 | h0
      · exact absurd h0 hne
      · exact h0
    simp only [DictM.tokDict, CharProp.charInfo] at hc ⊢
    split
    · rename_i hlt; simp only [hlt, if_true] at hc; exact key c hlt hc
    · rename_i hlt; simp only [hlt, if_false] at hc; exact key 0 (by omega) hc
  · intro e he c hc
    have := List.all_eq_true.mp (List.all_eq_true.mp h2 e he) c hc
    show (D.chars.charInfo c).cateSet &&& sp = 0
    simpa using this
  · intro u hu e he c hc
    simp only [DictM.tokDict] at hu
    cases hU : D.user with
    | none => rw [hU] at hu; cases hu
    | some um =>
      rw [hU] at hu h3
      simp only [Option.map_some, Option.some.injEq] at hu
      subst hu
      have := List.all_eq_true.mp (List.all_eq_true.mp h3 e he) c hc
      show (D.chars.charInfo c).cateSet &&& sp = 0
      simpa using this

/-! ### Non-vacuity and executable checks -/

/-- A dictionary satisfying `SpacePre` for the mask `2`: two SPACE characters (U+0020 and
U+3000) with category set `{SPACE}`, letters in category DEFAULT (bit 0, grouping, invoke),
other characters in bits 0 and 2; system and user lexicon without spaces; non-trivial
connection costs. -/
def c12Dict : TokDict :=
  { sys := [⟨[97, 98], ⟨1, 1, 3⟩⟩, ⟨[97], ⟨0, 1, 1⟩⟩, ⟨[98, 99], ⟨1, 0, 2⟩⟩]
    user := some [⟨[99], ⟨0, 0, -1⟩⟩]
    conn := fun r l => (r : Int) * 2 - (l : Int)
    charInfo := fun c =>
      if c = 32 ∨ c = 12288 then ⟨2, 1, false, true, 0⟩
      else if c < 128 then ⟨1, 0, true, true, 2⟩ else ⟨5, 2, false, false, 1⟩
    unkOf := fun b => if b = 0 then [(0, ⟨0, 0, 10⟩)] else if b = 1 then [(1, ⟨1, 1, 5⟩)] else [(2, ⟨1, 0, 7⟩)] }

theorem c12Dict_spacePre : SpacePre c12Dict 2 := by
  have hci : ∀ c, (c12Dict.charInfo c).cateSet &&& 2 = 0 ∨ (c12Dict.charInfo c).cateSet = 2 := by
    intro c
    simp only [c12Dict]
    split
    · right; rfl
    · split
      · left; rfl
      · left; rfl
  have hletter : ∀ c, c < 128 → c ≠ 32 → (c12Dict.charInfo c).cateSet &&& 2 = 0 := by
    intro c h1 h2
    have h3 : c ≠ 12288 := by omega
    simp [c12Dict, h1, h2, h3]
  refine ⟨?_, ?_, ?_⟩
  · intro c hc
    rcases hci c with h0 | h2
    · exact absurd h0 hc
    · exact h2
  · intro e he c hc
    simp only [c12Dict, List.mem_cons, List.not_mem_nil, or_false] at he
    rcases he with rfl | rfl | rfl <;> simp at hc <;> rcases hc with rfl | rfl <;>
      exact hletter _ (by omega) (by omega)
  · intro u hu e he c hc
    simp only [c12Dict, Option.some.injEq] at hu
    subst hu
    simp only [List.mem_cons, List.not_mem_nil, or_false] at he
    subst he
    simp at hc; subst hc
    exact hletter _ (by omega) (by omega)

/-- Two re-spacings of `ab c xyz é` (different run lengths, different SPACE characters, leading
and trailing runs) … -/
def c12s : List Nat := [97, 98, 32, 99, 32, 120, 121, 122, 32, 233]
def c12s' : List Nat := [12288, 32, 97, 98, 32, 32, 32, 99, 12288, 120, 121, 122, 32, 12288, 233, 32, 32]

/-- … instantiate the theorem: -/
example : obs c12s (tokenize c12Dict ⟨some 2, some 3⟩ c12s) = obs c12s' (tokenize c12Dict ⟨some 2, some 3⟩ c12s') :=
  respace_invariant c12Dict_spacePre (some 3) c12s c12s' (by decide)

example : tokenize c12Dict ⟨some 2, none⟩ [32, 12288, 32] = some [] :=
  spaces_only c12Dict_spacePre none _ (by decide)

-- executable cross-checks of the same facts (and that the observation is not trivial)
#guard segments (isSpC c12Dict 2) c12s == segments (isSpC c12Dict 2) c12s'
#guard obs c12s (tokenize c12Dict ⟨some 2, some 3⟩ c12s) == obs c12s' (tokenize c12Dict ⟨some 2, some 3⟩ c12s')
#guard (obs c12s (tokenize c12Dict ⟨some 2, none⟩ c12s)).map (·.map (·.1)) ==
  some [[97, 98], [99], [120, 121, 122], [233]]
#guard (obs c12s' (tokenize c12Dict ⟨some 2, none⟩ c12s')).map (·.map (·.2.2.2.2.2.2)) ==
  (obs c12s (tokenize c12Dict ⟨some 2, none⟩ c12s)).map (·.map (·.2.2.2.2.2.2))
#guard ((tokenize c12Dict ⟨some 2, none⟩ c12s').map (·.map fun t => (t.startWord, t.endWord))) ==
  some [(2, 4), (7, 8), (9, 12), (14, 15)]
#guard tokenize c12Dict ⟨some 2, none⟩ [32, 12288, 32] |>.map (·.length) |> (· == some 0)

/-- **The precondition matters (1): a lexicon surface containing a space.**  With the entry
`a b` (cheap), `a b` is one token but `a  b` is two. -/
def c12BadLex : TokDict := { c12Dict with sys := c12Dict.sys ++ [⟨[97, 32, 98], ⟨0, 0, -100⟩⟩] }

#guard segments (isSpC c12BadLex 2) [97, 32, 98] == segments (isSpC c12BadLex 2) [97, 32, 32, 98]
#guard (obs [97, 32, 98] (tokenize c12BadLex ⟨some 2, none⟩ [97, 32, 98])).map (·.map (·.1)) == some [[97, 32, 98]]
#guard (obs [97, 32, 32, 98] (tokenize c12BadLex ⟨some 2, none⟩ [97, 32, 32, 98])).map (·.map (·.1)) == some [[97], [98]]

/-- **The precondition matters (2): a SPACE character with a second category.**  If U+0020 is
in SPACE and DEFAULT (and letters only get the grouped unknown word), the unknown word
starting at `x` runs across the spaces, so the reported surface contains them and changes
with their number. -/
def c12BadCate : TokDict :=
  { c12Dict with charInfo := fun c => if c = 32 then ⟨3, 1, false, true, 0⟩ else ⟨1, 0, false, true, 0⟩ }

#guard segments (isSpC c12BadCate 2) [120, 32, 121] == segments (isSpC c12BadCate 2) [120, 32, 32, 121]
#guard (obs [120, 32, 121] (tokenize c12BadCate ⟨some 2, none⟩ [120, 32, 121])).map (·.map (·.1)) ==
  some [[120, 32, 121]]
#guard (obs [120, 32, 32, 121] (tokenize c12BadCate ⟨some 2, none⟩ [120, 32, 32, 121])).map (·.map (·.1)) ==
  some [[120, 32, 32, 121]]

/-- A multi-bit mask (never produced by `ignore_space`) breaks `spaces_only`: `a`,`b` both
meet the mask 3 but their category sets 1 and 2 are disjoint, so only `a` is skipped. -/
def c12TwoBit : TokDict :=
  { c12Dict with charInfo := fun c => if c = 97 then ⟨1, 0, false, true, 0⟩ else ⟨2, 1, false, true, 0⟩ }

#guard (tokenize c12TwoBit ⟨some 3, none⟩ [97, 98]).map (·.length) == some 1

/-- `ignore_space` needs the SPACE category; a loaded dictionary passing the executable
precondition check: -/
def c12DictM (names : List String) : DictM :=
  { sys := ⟨[⟨[97], ⟨0, 0, 1⟩⟩], [[]]⟩, user := none, numRight := 1, numLeft := 1, conn := [0],
    mapper := none,
    chars := { names := names, defInfo := ⟨1, 0, false, true, 0⟩, ranges := [(32, 33, ⟨2, 1, false, true, 0⟩)] },
    unk := [] }

example : mkTokenizer (c12DictM ["DEFAULT"]) true 0 = none :=
  (ignore_space_requires_SPACE _ 0).mpr (by decide)
example : (c12DictM ["DEFAULT", "SPACE"]).chars.cateId "SPACE" = some 1 := by decide

#guard (mkTokenizer (c12DictM ["DEFAULT", "SPACE"]) true 0).map (·.opts.spaceSet) == some (some 2)
#guard (mkTokenizer (c12DictM ["DEFAULT"]) true 0).isNone
#guard (mkTokenizer (c12DictM ["DEFAULT"]) false 0).isSome
#guard spacePreB (c12DictM ["DEFAULT", "SPACE"]) 2
#guard !spacePreB { c12DictM ["DEFAULT", "SPACE"] with sys := ⟨[⟨[97, 32], ⟨0, 0, 1⟩⟩], [[]]⟩ } 2

end Vibrato
