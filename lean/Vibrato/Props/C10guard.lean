/-
Property C10, bigram builder path, after the repair F26 ("bigram.right/left with 65535 or more rows
are rejected").  The repaired `RawConnectorBuilder::from_readers` returns `Err` as soon as one of the
two id files has `u16::MAX` or more rows; for fewer rows it is the code modelled by
`Bigram.buildBigram` (`Model/DictBigram.lean`).  The guard sits after the parsing loops of the Rust
function, which can only end in `Ok`/`Err` (no panic site: `C07`/`C10big`), so placing it first is
outcome-equivalent up to WHICH error is reported.

With the guard the size hypotheses on `bigram.right` / `bigram.left` of `C10big.bigram_builders_total`
and `bigram_dict_builders_total` disappear; only the bound on the number of `bigram.cost` lines (the
`u32` first-fit base of the scorer) remains.
-/
import Vibrato.Props.C10big

namespace Vibrato
open Vibrato.Bigram

/-- `from_readers_with_bigram_info` of the repaired tree (F26). -/
def buildBigramGuarded (fx : Fixes) (oc : Bool) (split : Option (List Nat))
    (lex right left cost chardef unk : List UInt8) (dual : Bool) : Outcome Built :=
  if lineCount right ≥ 65535 ∨ lineCount left ≥ 65535 then
    -- the lexicon is parsed first; a panic there is impossible (`parsers_total`), so the outcome is an error either way
    .err
  else buildBigram fx oc split lex right left cost chardef unk dual

/-- The repaired builder followed by the evaluation of the whole cost table. -/
def buildBigramDictGuarded (fx : Fixes) (lex right left cost chardef unk : List UInt8) (dual : Bool) :
    Outcome DictM :=
  if lineCount right ≥ 65535 ∨ lineCount left ≥ 65535 then .err
  else buildBigramDict fx lex right left cost chardef unk dual

/-- **The repaired bigram builder is total** for ALL contents of lex.csv, bigram.right, bigram.left,
char.def and unk.def, and every bigram.cost of at most 65535 lines: never a panic. -/
theorem bigram_builders_total_guarded (split : Option (List Nat))
    (lex right left cost chardef unk : List UInt8) (dual : Bool) (hC : lineCount cost ≤ 65535) :
    buildBigramGuarded Fixes.all false split lex right left cost chardef unk dual ≠ .panic := by
  unfold buildBigramGuarded
  split
  · simp
  · rename_i h
    exact bigram_builders_total split lex right left cost chardef unk dual hC (fun _ => by omega)

/-- **Builder and cost table together are total** on the repaired tree, raw and dual connector alike. -/
theorem bigram_dict_builders_total_guarded (lex right left cost chardef unk : List UInt8) (dual : Bool)
    (hC : lineCount cost ≤ 65535) :
    buildBigramDictGuarded Fixes.all lex right left cost chardef unk dual ≠ .panic := by
  unfold buildBigramDictGuarded
  split
  · simp
  · rename_i h
    exact bigram_dict_builders_total lex right left cost chardef unk dual hC (fun _ => by omega) (fun _ => by omega)

/-- Whatever the repaired builder accepts is what the modelled builder accepts (so every statement of
`C10big` about accepted dictionaries — `bigram_builders_establish_wf`, `bigram_accepted_is_safe`,
`bigram_cost_total` — applies to it). -/
theorem guarded_ok_is_unguarded {fx : Fixes} {lex right left cost chardef unk : List UInt8} {dual : Bool}
    {D : DictM} (h : buildBigramDictGuarded fx lex right left cost chardef unk dual = .ok D) :
    buildBigramDict fx lex right left cost chardef unk dual = .ok D ∧
      lineCount right < 65535 ∧ lineCount left < 65535 := by
  unfold buildBigramDictGuarded at h
  split at h
  · cases h
  · rename_i hn
    exact ⟨h, by omega, by omega⟩

-- Non-vacuity (executable test): a small valid set of files is accepted by the guarded builder, so the guard is
-- not the whole story; 65535 rows are rejected.
#guard match buildBigramDictGuarded Fixes.all "a,1,1,3,f\n".toUTF8.toList "1\tx\n".toUTF8.toList
    "1\ty\n".toUTF8.toList "x/y\t5\n".toUTF8.toList "DEFAULT 0 1 0\n".toUTF8.toList
    "DEFAULT,0,0,10,*\n".toUTF8.toList false with
  | .ok D => D.numRight == 2 && D.numLeft == 2
  | _ => false

#guard match buildBigramDictGuarded Fixes.all [] (List.replicate 65535 10) [] [] [] [] false with
  | .err => true
  | _ => false

end Vibrato
