/-
C03 — Candidate words are exactly lexicon prefixes plus MeCab-style unknown words.

Property theorems only; helper lemmas are in `Proofs/Candidates.lean`,
`Proofs/Tokenizer.lean`, `Proofs/TokenizerEnv.lean`.  The statements are about the
model functions `lexMatches` (`Lexicon::common_prefix_iterator`), `genUnk`
(`UnkHandler::gen_unk_words`), `groupables` (`Sentence::compute_groupable`),
`candsAt` (`Tokenizer::add_lattice_edges`), `CharDef.parse`/`CharProp.charInfo`
(`CharProperty::from_reader`/`char_info`) and `buildLattice`
(`Tokenizer::build_lattice_inner`); the tie to the Rust code is the
correspondence check (`check.py C03`: image tables and lattice dumps).
-/
import Vibrato.Props.C01
import Vibrato.Proofs.Candidates

namespace Vibrato

/-! ### 1. Lexicon candidates -/

/-- **Lexicon candidates = rows whose surface is a non-empty prefix, every homograph once.**
For a lexicon `es` (row id = position), lexicon type `lt`, remaining text `suffix` and start
position `sw`, the list `Lexicon::common_prefix_iterator` yields
* contains exactly the candidates `lexCand lt sw e i` (end `sw + |surface|`, word id `i`,
  the row's left/right id and cost) of the rows `es[i] = e` whose surface is a non-empty
  prefix of `suffix` — nothing else, nothing missing;
* is a permutation of those rows taken in row order (`lexPrefixRows`), so each row (each homograph)
  occurs exactly once: the list has no duplicates and not even a repeated row id;
* is emitted in increasing length, and for equal length in ascending row id (`candLt`). -/
theorem lex_candidates_spec (es : List LexEntry) (lt : Nat) (suffix : List Nat) (sw : Nat) :
    (∀ c, c ∈ lexMatches es lt suffix sw ↔
        ∃ i e, es[i]? = some e ∧ e.surface ≠ [] ∧ e.surface <+: suffix ∧ c = lexCand lt sw e i) ∧
    (lexMatches es lt suffix sw).Perm (lexPrefixRows es lt suffix sw) ∧
    (lexMatches es lt suffix sw).Nodup ∧
    ((lexMatches es lt suffix sw).map (·.wordId)).Nodup ∧
    (lexMatches es lt suffix sw).Pairwise candLt :=
  ⟨mem_lexMatches es lt suffix sw, lexMatches_perm es lt suffix sw, lexMatches_nodup es lt suffix sw,
    lexMatches_wordId_nodup es lt suffix sw, lexMatches_sorted es lt suffix sw⟩

/-- Non-vacuity: homographs (rows 0 and 2), nested prefixes (rows 0/2 ⊂ 1 ⊂ 4), a non-prefix
(row 3) and a too-long row (row 5) against the text `abc`, start position 5. -/
def exampleLex : List LexEntry :=
  [⟨[97], ⟨1, 1, 10⟩⟩, ⟨[97, 98], ⟨2, 2, 20⟩⟩, ⟨[97], ⟨3, 3, 30⟩⟩, ⟨[98], ⟨4, 4, 40⟩⟩,
   ⟨[97, 98, 99], ⟨5, 5, 50⟩⟩, ⟨[97, 98, 99, 100], ⟨6, 6, 60⟩⟩]

example : lexMatches exampleLex 0 [97, 98, 99] 5 =
    [⟨6, 0, 0, 1, 1, 10⟩, ⟨6, 2, 0, 3, 3, 30⟩, ⟨7, 1, 0, 2, 2, 20⟩, ⟨8, 4, 0, 5, 5, 50⟩] := by decide
example : lexPrefixRows exampleLex 0 [97, 98, 99] 5 =
    [⟨6, 0, 0, 1, 1, 10⟩, ⟨7, 1, 0, 2, 2, 20⟩, ⟨6, 2, 0, 3, 3, 30⟩, ⟨8, 4, 0, 5, 5, 50⟩] := by decide

/-! ### 2. Unknown words -/

/-- **`gen_unk_words`, clause by clause.**  Let `ci` be the first character's info, `g ≥ 1` its
run length (`groupable`, with `start + g ≤ len`), `hm` = "a lexicon entry matched", `mg` =
`max_grouping_len` (`none` = unbounded), `unk` = the `unk.def` entries `(word id, parameters)`
of the first character's primary category in file order.  Then
1. the emitted list is, for each length `l` of `unkLengths ci g hm mg` in order, one candidate
   per entry of `unk` ending at `start + l`;
2. `unkLengths` has no duplicates, so no (length, entry) pair is emitted twice;
3. nothing is emitted if `hm` and `invoke = 0`;
4. otherwise `l` is emitted iff
   (a) `group = 1`, `l = g` and `g - 1 ≤ max_grouping_len`  (the maximal run), or
   (b) `1 ≤ l ≤ min(length, g)` and not (`group = 1` and `l = g`)  (the prefixes, not repeating
       the run length), or
   (c) `l = 1`, no lexicon entry matched, and neither (a) nor (b) produced anything;
5. order: the run length first, then the prefix lengths increasing (or just `[1]`, or nothing);
6. each length carries every entry of `unk` exactly once, in `unk.def` order, with that
   entry's word id, ids and cost, lexicon type Unknown;
7. if the entry ids are distinct (they are positions in `unk.def`, `unkOf_ids_nodup`) the whole
   emitted candidate list has no duplicates. -/
theorem genUnk_spec (ci : CharInfo) (g len start : Nat) (hm : Bool) (mg : Option Nat)
    (unk : List (Nat × WordParam)) (hg : start + g ≤ len) :
    genUnk ci g len start hm mg unk =
        (unkLengths ci g hm mg).flatMap (fun l => scanEntries unk (start + l)) ∧
    (unkLengths ci g hm mg).Nodup ∧
    (hm = true → ci.invoke = false → unkLengths ci g hm mg = []) ∧
    (∀ l, l ∈ unkLengths ci g hm mg ↔
      ¬ (hm = true ∧ ci.invoke = false) ∧
      ((ci.group = true ∧ l = g ∧ (∀ m, mg = some m → g - 1 ≤ m)) ∨
       (1 ≤ l ∧ l ≤ min ci.length g ∧ ¬ (ci.group = true ∧ l = g)) ∨
       (l = 1 ∧ hm = false ∧
          ¬ (ci.group = true ∧ (∀ m, mg = some m → g - 1 ≤ m)) ∧
          ¬ (∃ k, 1 ≤ k ∧ k ≤ min ci.length g ∧ ¬ (ci.group = true ∧ k = g))))) ∧
    ((unkLengths ci g hm mg = [] ∨ unkLengths ci g hm mg = [1] ∨
        unkLengths ci g hm mg = (if ci.group && unkFits mg g then [g] else []) ++ unkPre ci g) ∧
      (unkPre ci g).Pairwise (· < ·)) ∧
    (∀ e, (scanEntries unk e).map
          (fun c => (c.wordId, (⟨c.leftId, c.rightId, c.wordCost⟩ : WordParam))) = unk ∧
        ∀ c ∈ scanEntries unk e, c.endWord = e ∧ c.lexType = 2) ∧
    ((unk.map (·.1)).Nodup → (genUnk ci g len start hm mg unk).Nodup) := by
  refine ⟨genUnk_eq ci g len start hm mg unk hg, unkLengths_nodup ci g hm mg, ?_, ?_,
    ⟨unkLengths_order ci g hm mg, unkPre_sorted ci g⟩, scanEntries_proj unk,
    genUnk_nodup ci g len start hm mg unk hg⟩
  · intro h1 h2
    simp [unkLengths, h1, h2]
  · intro l
    rw [mem_unkLengths]
    have hmin : ∀ k, (k ≤ min ci.length g) ↔ (k ≤ ci.length ∧ k ≤ g) := fun k => by omega
    simp only [hmin, and_assoc]

/-- The category's entries as the dictionary stores them: `D.unkOf b` lists the rows of `unk.def`
whose category is `b` with their word ids, ascending, each once. -/
theorem unkOf_spec (D : DictM) (b : Nat) :
    (∀ i p, (i, p) ∈ D.unkOf b ↔ ∃ e, D.unk[i]? = some e ∧ e.cateId = b ∧ e.param = p) ∧
    ((D.unkOf b).map (·.1)).Nodup :=
  ⟨mem_unkOf D b, unkOf_ids_nodup D b⟩

/-- `UnkHandler::from_reader`: the entries are the rows of `unk.def` (same parameters and
feature, category id = id of the row's category name), grouped by category id; inside a
category the file order is kept. -/
theorem unkOfRows_order (P : CharProp) (rows : List SimpleCsv.Row) (U : List UnkEntryM)
    (h : unkOfRows P rows = some U) :
    ∃ es : List UnkEntryM, es.length = rows.length ∧
      (∀ (i : Nat) (r : SimpleCsv.Row), rows[i]? = some r → ∃ e name, es[i]? = some e ∧
        Text.decodeLine r.surface = some name ∧ P.cateId name = some e.cateId ∧
        e.param = ⟨r.left, r.right, r.cost⟩ ∧ e.feature = r.feature) ∧
      U = (List.range P.names.length).flatMap (fun c => es.filter (·.cateId == c)) ∧
      ∀ b, b < P.names.length → U.filter (·.cateId == b) = es.filter (·.cateId == b) := by
  unfold unkOfRows at h
  simp only [bind, Option.bind_eq_some_iff, pure] at h
  obtain ⟨es, hes, hU⟩ := h
  cases hU
  obtain ⟨h1, h2⟩ := mapM_option_spec _ rows es hes
  refine ⟨es, h1, ?_, rfl, ?_⟩
  · intro i r hi
    obtain ⟨e, he, hf⟩ := h2 i r hi
    simp only [Option.bind_eq_some_iff, Option.some.injEq] at hf
    obtain ⟨name, hname, id, hid, rfl⟩ := hf
    exact ⟨_, name, he, hname, hid, rfl, rfl⟩
  · intro b hb
    have := flatMap_range_filter (fun e : UnkEntryM => e.cateId) es b P.names.length
    simp only [hb, if_true] at this
    exact this

/-- Non-vacuity (all by evaluation): two `unk.def` entries; `start = 0`, sentence length 5.
`invoke=1 group=1 length=2`, run 3: run first, then lengths 1, 2. -/
def exampleUnk : List (Nat × WordParam) := [(7, ⟨1, 1, 100⟩), (8, ⟨2, 2, 200⟩)]

example : (genUnk ⟨1, 0, true, true, 2⟩ 3 5 0 true none exampleUnk).map (fun c => (c.endWord, c.wordId)) =
    [(3, 7), (3, 8), (1, 7), (1, 8), (2, 7), (2, 8)] := by decide
-- `max_grouping_len = 1 < run - 1 = 2`: the run is omitted
example : (genUnk ⟨1, 0, true, true, 2⟩ 3 5 0 true (some 1) exampleUnk).map (fun c => (c.endWord, c.wordId)) =
    [(1, 7), (1, 8), (2, 7), (2, 8)] := by decide
-- same with `length = 3`: the run was omitted, yet length 3 is still skipped (`grouped` is set
-- before the `max_grouping_len` test), so no word of the run length is offered at all
example : (genUnk ⟨1, 0, true, true, 3⟩ 3 5 0 true (some 1) exampleUnk).map (fun c => (c.endWord, c.wordId)) =
    [(1, 7), (1, 8), (2, 7), (2, 8)] := by decide
-- `length = 3 = run`, `group = 1`: the run length is not repeated
example : (genUnk ⟨1, 0, true, true, 3⟩ 3 5 0 true none exampleUnk).map (fun c => (c.endWord, c.wordId)) =
    [(3, 7), (3, 8), (1, 7), (1, 8), (2, 7), (2, 8)] := by decide
-- matched and `invoke = 0`: nothing; not matched, `group = 0`, `length = 0`: the single character
example : genUnk ⟨1, 0, false, true, 2⟩ 3 5 0 true none exampleUnk = [] := by decide
example : (genUnk ⟨1, 0, false, false, 0⟩ 3 5 0 false none exampleUnk).map (fun c => (c.endWord, c.wordId)) =
    [(1, 7), (1, 8)] := by decide
-- lexicon match + `invoke = 1`, nothing else produced: NO fallback character
example : genUnk ⟨1, 0, true, false, 0⟩ 3 5 0 true none exampleUnk = [] := by decide

/-! ### 3. `compute_groupable` -/

/-- **`groupable(i)` is the length of the maximal category-sharing run from `i`.**
`IsRun cs i g` says: `g ≥ 1`, the run stays inside the sentence, `cs[j] & cs[j+1] ≠ 0` for all
`i ≤ j < i + g - 1`, and the run cannot be extended (`i + g = len` or
`cs[i+g-1] & cs[i+g] = 0`).  The computed value satisfies it and is the only number that does. -/
theorem groupable_spec (cs : List Nat) (i : Nat) (hi : i < cs.length) :
    IsRun cs i ((groupables cs).getD i 0) ∧ ∀ g, IsRun cs i g → g = (groupables cs).getD i 0 :=
  ⟨groupables_isRun cs i hi, fun _ hg => hg.unique (groupables_isRun cs i hi)⟩

/-- Non-vacuity: multi-category chaining (`1&3`, `3&2` share, `2&4` do not, `4&4` do). -/
example : groupables [1, 3, 2, 4, 4] = [3, 2, 1, 2, 1] := by decide
example : IsRun [1, 3, 2, 4, 4] 0 3 := by
  have := (groupable_spec [1, 3, 2, 4, 4] 0 (by decide)).1
  exact this

/-! ### 4. The candidates offered at a start position -/

/-- **`add_lattice_edges` offers user matches, then system matches, then unknown words.**
At a start position `sw` inside the sentence the candidate list is `U ++ S ++ K` where `U`/`S`
are the user/system lexicon matches of the remaining text (see `lex_candidates_spec`) and `K`
is the unknown-word list of `genUnk_spec` for the first character's info `ci`, its maximal run
length `g` over the sentence's category sets (see `groupable_spec`), `hm` = "`U` or `S` is
non-empty", the option `max_grouping_len`, and the `unk.def` entries of `ci`'s primary
category. -/
theorem candidates_spec (D : TokDict) (chars : List Nat) (o : TokOpts) (sw : Nat)
    (hsw : sw < chars.length) :
    let suffix := chars.drop sw
    let U := match D.user with
      | none => []
      | some ue => lexMatches ue 1 suffix sw
    let S := lexMatches D.sys 0 suffix sw
    let ci := D.charInfo (chars.getD sw 0)
    let g := (compileSent D chars).groupable.getD sw 0
    IsRun ((chars.map D.charInfo).map (·.cateSet)) sw g ∧
    candsAt D (compileSent D chars) o sw =
      U ++ S ++ (unkLengths ci g (!(U.isEmpty && S.isEmpty)) o.maxGroup).flatMap
        (fun l => scanEntries (D.unkOf ci.baseId) (sw + l)) := by
  intro suffix U S ci g
  have hgb := compileSent_groupable D chars sw hsw
  have hci : (compileSent D chars).cinfos.getD sw default = ci := by
    simp only [compileSent, List.getD_eq_getElem?_getD, List.getElem?_map, ci]
    rw [List.getElem?_eq_getElem hsw]; simp
  constructor
  · exact groupables_isRun _ sw (by simpa using hsw)
  · unfold candsAt
    simp only [hci]
    rw [genUnk_eq _ _ _ _ _ _ _ (by simpa [compileSent] using hgb.2)]
    rfl

/-- Non-vacuity on the dictionary of `Props/C01` (`ab`, `a` in the lexicon): text `ab a`,
position 0 offers `ab` (row 0), `a` (row 1); no unknown word since `invoke = 0`.  Position 2
(the space, no lexicon match, `group = 1`) offers the run of length 1. -/
example : (candsAt exampleDict (compileSent exampleDict [97, 98, 32, 97]) ⟨none, none⟩ 0).map
    (fun c => (c.endWord, c.lexType, c.wordId)) = [(1, 0, 1), (2, 0, 0)] := by decide
example : (candsAt exampleDict (compileSent exampleDict [97, 98, 32, 97]) ⟨none, none⟩ 2).map
    (fun c => (c.endWord, c.lexType, c.wordId)) = [(3, 2, 1)] := by decide

/-! ### 5. `char.def` -/

/-- **A character's info comes from the last range line covering it, DEFAULT otherwise.**
Let `char.def` parse to `P`, let `st` be the parser's final state (category names by id in
order of first definition with `DEFAULT = 0`; for each id its most recent `invoke/group/length`
line) and `fileRanges bytes` the range lines in file order, each `[start, stop)` with
`stop = end + 1` for the inclusive `end` written in the file (`fileRanges_inclusive`).
For every code point `c ≤ 0xFFFF`, either
* some range line `k` covers `c`, no later line does, and `P.charInfo c` is what
  `encode_cate_info` gives for that line's category names: primary category and
  `invoke/group/length` of the FIRST name, category set = ids of ALL names (`CateLineSpec`); or
* no range line covers `c` and `P.charInfo c` is that of the single name `DEFAULT`. -/
theorem charInfo_last_range (bytes : List UInt8) (P : CharProp) (h : CharDef.parse bytes = .ok P) :
    ∃ st, CharDef.foldLines CharDef.st0 (Text.rawLines bytes) = .ok st ∧
      P.names = st.names.map String.ofList ∧
      ∀ c, c < 65536 →
        (∃ (k : Nat) (r : CharRange), (CharDef.fileRanges bytes)[k]? = some r ∧
            r.start ≤ c ∧ c < r.stop ∧
            (∀ (k' : Nat) (r' : CharRange), k < k' → (CharDef.fileRanges bytes)[k']? = some r' →
              ¬ (r'.start ≤ c ∧ c < r'.stop)) ∧
            CharDef.CateLineSpec st r.cates (P.charInfo c)) ∨
        ((∀ r ∈ CharDef.fileRanges bytes, ¬ (r.start ≤ c ∧ c < r.stop)) ∧
            CharDef.CateLineSpec st ["DEFAULT".toList] (P.charInfo c)) := by
  obtain ⟨st, hst, _, hnames, hdef, hrs⟩ := CharDef.parse_spec bytes P h
  obtain ⟨hlen, hidx⟩ := CharDef.encodeRanges_spec st _ _ hrs
  refine ⟨st, hst, hnames, ?_⟩
  intro c hc
  have hci : P.charInfo c = P.entry c := by simp [CharProp.charInfo, hc]
  rw [hci]
  rcases entry_cases P c with ⟨k, x, hk, hx1, hx2, hlater, hent⟩ | ⟨hall, hent⟩
  · left
    have hklt : k < (CharDef.fileRanges bytes).length := by
      rw [← hlen]
      rcases Nat.lt_or_ge k P.ranges.length with h' | h'
      · exact h'
      · rw [List.getElem?_eq_none h'] at hk; cases hk
    obtain ⟨ci, hout, henc⟩ := hidx k _ (List.getElem?_eq_getElem hklt)
    rw [hk] at hout
    cases hout
    refine ⟨k, _, List.getElem?_eq_getElem hklt, hx1, hx2, ?_, ?_⟩
    · intro k' r' hk' hr'
      obtain ⟨ci', hout', _⟩ := hidx k' r' hr'
      exact hlater k' _ hk' hout'
    · rw [hent]; exact CharDef.encodeCateInfo_spec st _ _ henc
  · right
    refine ⟨?_, by rw [hent]; exact CharDef.encodeCateInfo_spec st _ _ hdef⟩
    intro r hr
    obtain ⟨k, hk, rfl⟩ := List.mem_iff_getElem.mp hr
    obtain ⟨ci, hout, _⟩ := hidx k _ (List.getElem?_eq_getElem hk)
    exact hall _ (List.mem_of_getElem? hout)

/-- Inclusive bounds: every range of `fileRanges` comes from a line `0xSTART[..0xEND] CATS…`
and is stored as `[START, END + 1)` with `END ≤ 0xFFFF` (`END = START` for a single code
point); its categories are the columns after the first up to a `#` comment. -/
theorem fileRanges_inclusive (bytes : List UInt8) (r : CharRange) (hr : r ∈ CharDef.fileRanges bytes) :
    ∃ raw ∈ Text.rawLines bytes, ∃ s, Text.decodeLine raw = some s ∧
      ∃ c0 rest, Text.splitWhitespace (Text.trim s.toList) = c0 :: rest ∧ rest ≠ [] ∧
        Text.parseHexUsize (Text.trimStart0x ((Text.splitDotDot c0).headD [])) = some r.start ∧
        (∃ last, r.stop = last + 1 ∧ r.start ≤ last ∧ last ≤ 0xFFFF ∧
          ((∃ r0 r1 rs, Text.splitDotDot c0 = r0 :: r1 :: rs ∧
              Text.parseHexUsize (Text.trimStart0x r1) = some last) ∨
           ((∀ r0 r1 rs, Text.splitDotDot c0 ≠ r0 :: r1 :: rs) ∧ last = r.start))) ∧
        r.cates = rest.takeWhile (fun col => ¬ Text.startsWith ['#'] col) := by
  unfold CharDef.fileRanges at hr
  rw [List.mem_filterMap] at hr
  obtain ⟨raw, hraw, hline⟩ := hr
  refine ⟨raw, hraw, ?_⟩
  unfold CharDef.rangeOfLine at hline
  cases hs : Text.decodeLine raw with
  | none => rw [hs] at hline; cases hline
  | some s =>
    rw [hs] at hline
    dsimp only at hline
    refine ⟨s, rfl, ?_⟩
    split at hline
    · cases hline
    · split at hline
      · cases hline
      · split at hline
        · rename_i r' hr'
          cases hline
          exact CharDef.parseRange_inclusive _ _ hr'
        · cases hline

/-- **Astral characters (partial, finding F13).**  For a code point beyond the 65 536-entry
table the code (and the model) reads table entry 0, i.e. the info of U+0000 — not DEFAULT. -/
theorem charInfo_astral_partial (P : CharProp) (c : Nat) (hc : 65536 ≤ c) :
    P.charInfo c = P.charInfo 0 := by
  have : ¬ c < 65536 := by omega
  simp [CharProp.charInfo, this]

/-- **`CharInfo` packing is lossless inside the bit widths and refused outside.**
`CharInfo::new(cate_idset, base_id, invoke, group, length)` returns `Some(w)` exactly when
`cate_idset < 2^18`, `base_id < 2^8`, `length < 2^4`; then `w` is a 32-bit word and the five
getters return the five arguments. -/
theorem packing_roundtrip (cs b : Nat) (iv gr : Bool) (len : Nat) :
    (cs < 2 ^ 18 ∧ b < 2 ^ 8 ∧ len < 2 ^ 4 →
      ∃ w, CharInfo.pack cs b iv gr len = some w ∧ w < 2 ^ 32 ∧
        CharInfo.unpack w = ⟨cs, b, iv, gr, len⟩) ∧
    (¬ (cs < 2 ^ 18 ∧ b < 2 ^ 8 ∧ len < 2 ^ 4) → CharInfo.pack cs b iv gr len = none) := by
  refine ⟨?_, pack_none cs b iv gr len⟩
  rintro ⟨h1, h2, h3⟩
  have hi : b2n iv < 2 := by cases iv <;> simp [b2n]
  have hg : b2n gr < 2 := by cases gr <;> simp [b2n]
  refine ⟨_, pack_some cs b iv gr len h1 h2 h3, by omega, ?_⟩
  rw [unpack_sum cs b _ _ len h1 h2 hi hg h3]
  cases iv <;> cases gr <;> simp [b2n]

example : CharInfo.pack 0b110 2 false true 3 = some 940048390 ∧
    CharInfo.unpack 940048390 = ⟨0b110, 2, false, true, 3⟩ ∧
    CharInfo.pack (2 ^ 18) 0 false false 0 = none ∧ CharInfo.pack 0 0 false false 16 = none := by decide

/-- Every info of a successfully parsed `char.def` fits the packed word, so the `u32` table of
the dictionary image carries it without loss (the repaired parser, fix F6, refuses ids `≥ 18`
and lengths `≥ 16`). -/
theorem parse_packable (bytes : List UInt8) (P : CharProp) (h : CharDef.parse bytes = .ok P) (c : Nat) :
    ∃ w, CharInfo.pack (P.charInfo c).cateSet (P.charInfo c).baseId (P.charInfo c).invoke
        (P.charInfo c).group (P.charInfo c).length = some w ∧ w < 2 ^ 32 ∧
      CharInfo.unpack w = P.charInfo c := by
  obtain ⟨st, hst, _, hall⟩ := charInfo_last_range bytes P h
  have hok : CharDef.InfosOK st := by
    apply CharDef.foldLines_infosOK _ _ _ _ hst
    intro p hp; simp [CharDef.st0] at hp
  have key : ∀ c, c < 65536 → (P.charInfo c).cateSet < 2 ^ 18 ∧ (P.charInfo c).baseId < 18 ∧
      (P.charInfo c).length < 2 ^ 4 := by
    intro c hc
    rcases hall c hc with ⟨_, _, _, _, _, _, hspec⟩ | ⟨_, hspec⟩
    · exact hspec.fits hok
    · exact hspec.fits hok
  have key' : (P.charInfo c).cateSet < 2 ^ 18 ∧ (P.charInfo c).baseId < 18 ∧
      (P.charInfo c).length < 2 ^ 4 := by
    rcases Nat.lt_or_ge c 65536 with hc | hc
    · exact key c hc
    · rw [charInfo_astral_partial P c hc]; exact key 0 (by omega)
  exact (packing_roundtrip _ _ _ _ _).1 ⟨key'.1, by omega, key'.2.2⟩

/-- If no range line starts at U+0000, astral characters do get DEFAULT's info. -/
theorem charInfo_astral_default (bytes : List UInt8) (P : CharProp) (h : CharDef.parse bytes = .ok P)
    (h0 : ∀ r ∈ CharDef.fileRanges bytes, r.start ≠ 0) (c : Nat) (hc : 65536 ≤ c) :
    P.charInfo c = P.defInfo ∧
      ∃ st, CharDef.foldLines CharDef.st0 (Text.rawLines bytes) = .ok st ∧
        CharDef.CateLineSpec st ["DEFAULT".toList] P.defInfo := by
  obtain ⟨st, hst, _, _, hdef, hrs⟩ := CharDef.parse_spec bytes P h
  obtain ⟨hlen, hidx⟩ := CharDef.encodeRanges_spec st _ _ hrs
  refine ⟨?_, st, hst, CharDef.encodeCateInfo_spec st _ _ hdef⟩
  rw [charInfo_astral_partial P c hc]
  have : P.charInfo 0 = P.entry 0 := by simp [CharProp.charInfo]
  rw [this]
  rcases entry_cases P 0 with ⟨k, x, hk, hx1, hx2, _, _⟩ | ⟨_, hent⟩
  · exfalso
    have hklt : k < (CharDef.fileRanges bytes).length := by
      rw [← hlen]
      rcases Nat.lt_or_ge k P.ranges.length with h' | h'
      · exact h'
      · rw [List.getElem?_eq_none h'] at hk; cases hk
    obtain ⟨ci, hout, _⟩ := hidx k _ (List.getElem?_eq_getElem hklt)
    rw [hk] at hout
    cases hout
    exact h0 _ (List.getElem_mem hklt) (by simpa using hx1)
  · exact hent

/-- The bytes of
```
DEFAULT 0 1 0
NUL 1 0 2
0x0000 NUL
``` -/
def astralDef : List UInt8 :=
  [68, 69, 70, 65, 85, 76, 84, 32, 48, 32, 49, 32, 48, 10, 78, 85, 76, 32, 49, 32, 48, 32, 50, 10,
   48, 120, 48, 48, 48, 48, 32, 78, 85, 76, 10]

#guard astralDef == "DEFAULT 0 1 0\nNUL 1 0 2\n0x0000 NUL\n".toUTF8.toList

/-- **Witness for F13**: with a `char.def` whose only range line covers U+0000, the emoji
U+1F600 (covered by no range line) gets category `NUL` (id 1, invoke 1, group 0, length 2)
instead of `DEFAULT`. -/
theorem astral_not_default :
    ∃ P, CharDef.parse astralDef = .ok P ∧ P.charInfo 0x1F600 ≠ P.defInfo ∧
      P.charInfo 0x1F600 = ⟨2, 1, true, false, 2⟩ ∧ P.defInfo = ⟨1, 0, false, true, 0⟩ ∧
      P.charInfo 0x41 = P.defInfo := by
  have h : (match CharDef.parse astralDef with
      | .ok P => decide (P.charInfo 0x1F600 ≠ P.defInfo ∧ P.charInfo 0x1F600 = ⟨2, 1, true, false, 2⟩ ∧
          P.defInfo = ⟨1, 0, false, true, 0⟩ ∧ P.charInfo 0x41 = P.defInfo)
      | _ => false) = true := by decide
  cases hp : CharDef.parse astralDef with
  | ok P => rw [hp] at h; exact ⟨P, rfl, by simpa using h⟩
  | err => rw [hp] at h; cases h
  | panic => rw [hp] at h; cases h

/-- Non-vacuity of `charInfo_last_range`: overlapping ranges, the later line wins; a
two-category line; a code point outside every range.
```
DEFAULT 0 1 0
A 1 0 2
B 0 1 3
0x0041..0x0043 A
0x0042 B A
``` -/
def exampleCharDef : List UInt8 :=
  [68, 69, 70, 65, 85, 76, 84, 32, 48, 32, 49, 32, 48, 10, 65, 32, 49, 32, 48, 32, 50, 10, 66, 32, 48,
   32, 49, 32, 51, 10, 48, 120, 48, 48, 52, 49, 46, 46, 48, 120, 48, 48, 52, 51, 32, 65, 10, 48, 120,
   48, 48, 52, 50, 32, 66, 32, 65, 10]

#guard exampleCharDef ==
  "DEFAULT 0 1 0\nA 1 0 2\nB 0 1 3\n0x0041..0x0043 A\n0x0042 B A\n".toUTF8.toList

example : (match CharDef.parse exampleCharDef with
    | .ok P => [P.charInfo 0x40, P.charInfo 0x41, P.charInfo 0x42, P.charInfo 0x43, P.charInfo 0x44]
    | _ => []) =
    [⟨1, 0, false, true, 0⟩, ⟨2, 1, true, false, 2⟩, ⟨6, 2, false, true, 3⟩, ⟨2, 1, true, false, 2⟩,
     ⟨1, 0, false, true, 0⟩] := by decide
example : (CharDef.fileRanges exampleCharDef).map (fun r => (r.start, r.stop, r.cates.length)) =
    [(0x41, 0x44, 1), (0x42, 0x43, 2)] := by decide

/-! ### 6. Lattice level: the candidates of every visited start node are stored, once each -/

/-- **Every candidate of every processed position is in the lattice, exactly once, and
nothing else is.**  Let `L` be the lattice `build_lattice` produces for an environment with
`EnvOK` (candidates end after their start and inside the sentence; bounded costs).
`Visited E L p` = `p` is a value of `start_node` at the head of the `while` loop
(`p = 0`, or `p = b + 1` for a visited `b` without a node, or `p = b + skip b + 1` for a visited
`b` with a node and `b + skip b < len`).
1. For every visited `p` that has a node and whose start word `sw = p + skip p` is inside the
   sentence, and every boundary `e > 0`: the nodes stored at `e` with `start_node = p`, read as
   candidates, are exactly the candidates offered at `sw` that end at `e` — same order, each
   once (so every homograph and every unknown-word entry is there once).
2. Conversely every stored node (other than BOS) starts at such a visited node `p`, has
   `start_word = p + skip p < len`, and is one of the candidates offered there. -/
theorem candidates_all_inserted (E : LatEnv) (C W : Int) (hE : EnvOK E C W) (b : Nat) :
    (∀ p, Visited E (buildLattice E b).ends p → p < E.len → endsAt (buildLattice E b).ends p ≠ [] →
      p + E.skip p < E.len → ∀ e, 0 < e →
        ((endsAt (buildLattice E b).ends e).filter (fun n => n.startNode == p)).map (nodeCand e) =
          (E.cands (p + E.skip p)).filter (fun c => c.endWord == e)) ∧
    (∀ e n, 0 < e → n ∈ endsAt (buildLattice E b).ends e →
      GoodStart E (buildLattice E b).ends n.startNode ∧
      n.startWord = n.startNode + E.skip n.startNode ∧ nodeCand e n ∈ E.cands n.startWord) := by
  have h0 := reset_inv E C W b
  have hinv := (buildLoop_inv hE (resetEnds b E.len) 0 h0 (Nat.zero_le _)).1
  have hends : (buildLattice E b).ends = (buildLoop E (resetEnds b E.len) 0).1 := rfl
  rw [hends]
  constructor
  · exact buildLoop_stored hE _ 0 h0 (Nat.zero_le _)
  · intro e n he hn
    refine ⟨?_, ?_⟩
    · apply buildLoop_visited hE _ 0 h0 (Nat.zero_le _) (.refl 0) ?_ e n he hn
      intro e' n' he' hn'
      obtain ⟨j, rfl⟩ : ∃ j, e' = j + 1 := ⟨e' - 1, by omega⟩
      rw [endsAt_resetEnds_succ] at hn'; cases hn'
    · obtain ⟨hok, _⟩ := hinv.nodes e he n hn
      refine ⟨hok.sw_eq, ?_⟩
      obtain ⟨c, hc, h1, h2, h3, h4, h5, h6⟩ := hok.fromCand
      have : nodeCand e n = c := by
        cases c; simp_all [nodeCand]
      rw [this]; exact hc

/-- Membership form of clause 1: every candidate `c` offered at the start word of a visited
node `p` is stored at `c.endWord` as a node with `start_node = p`, `start_word = p + skip p`
and `c`'s word id, lexicon type, connection ids and word cost. -/
theorem candidate_is_stored (E : LatEnv) (C W : Int) (hE : EnvOK E C W) (b : Nat) (p : Nat)
    (hv : Visited E (buildLattice E b).ends p) (hp : p < E.len)
    (hne : endsAt (buildLattice E b).ends p ≠ []) (hsw : p + E.skip p < E.len)
    (c : Cand) (hc : c ∈ E.cands (p + E.skip p)) :
    ∃ n ∈ endsAt (buildLattice E b).ends c.endWord, n.startNode = p ∧ n.startWord = p + E.skip p ∧
      n.wordId = c.wordId ∧ n.lexType = c.lexType ∧ n.leftId = c.leftId ∧ n.rightId = c.rightId ∧
      n.wordCost = c.wordCost := by
  have hpos : 0 < c.endWord := by have := (hE.cands_range _ hsw c hc).1; omega
  have heq := (candidates_all_inserted E C W hE b).1 p hv hp hne hsw c.endWord hpos
  have hmem : c ∈ (E.cands (p + E.skip p)).filter (fun c' => c'.endWord == c.endWord) := by
    simp [hc]
  rw [← heq, List.mem_map] at hmem
  obtain ⟨n, hn, hnc⟩ := hmem
  simp only [List.mem_filter, beq_iff_eq] at hn
  have hsw' := ((candidates_all_inserted E C W hE b).2 c.endWord n hpos hn.1).2.1
  refine ⟨n, hn.1, hn.2, by rw [hsw', hn.2], ?_⟩
  rw [← hnc]
  simp [nodeCand]

/-- Without `ignore_space` (`skip = 0`) every boundary is a loop head, so the statement holds
for every boundary `p < len` that has a node. -/
theorem visited_no_skip (E : LatEnv) (L : Ends) (hs : ∀ p, E.skip p = 0) :
    ∀ p, p ≤ E.len → Visited E L p
  | 0, _ => .refl 0
  | p + 1, hp => by
    have ih := visited_no_skip E L hs p (by omega)
    by_cases he : endsAt L p = []
    · exact ih.trans (.empty (by omega) he (.refl _))
    · have hsw : p + E.skip p < E.len := by rw [hs p]; omega
      have hstep : VisitedFrom E L p (p + E.skip p + 1) := .step (by omega) he hsw (.refl _)
      rw [hs p] at hstep
      exact ih.trans hstep

theorem candidates_all_inserted_no_skip (E : LatEnv) (C W : Int) (hE : EnvOK E C W) (b : Nat)
    (hs : ∀ p, E.skip p = 0) (p : Nat) (hp : p < E.len) (hne : endsAt (buildLattice E b).ends p ≠ [])
    (e : Nat) (he : 0 < e) :
    ((endsAt (buildLattice E b).ends e).filter (fun n => n.startNode == p)).map (nodeCand e) =
      (E.cands p).filter (fun c => c.endWord == e) := by
  have := (candidates_all_inserted E C W hE b).1 p (visited_no_skip E _ hs p (by omega)) hp hne
    (by rw [hs p]; omega) e he
  rw [hs p] at this
  exact this

/-- Non-vacuity.  The hypotheses hold for the tokenizer environment of the `Props/C01` example
dictionary and the text `ab a` with `ignore_space`; position 0 is visited and has the BOS node,
so clause 1 applies there. -/
theorem exampleDict_ok : DictOK exampleDict 0 10 := by
  refine ⟨fun _ _ => Int.le_refl _, ?_, ?_, ?_, by decide, by decide⟩
  · intro e he; simp [exampleDict] at he; rcases he with rfl | rfl <;> decide
  · intro u hu; simp [exampleDict] at hu
  · intro b p hp; simp only [exampleDict] at hp; split at hp <;> simp at hp <;> subst hp <;> decide

def exampleEnv3 : LatEnv := latEnvOf exampleDict (compileSent exampleDict [97, 98, 32, 97]) ⟨some 2, none⟩

theorem exampleEnv3_ok : EnvOK exampleEnv3 0 10 :=
  latEnvOf_envOK exampleDict 0 10 exampleDict_ok [97, 98, 32, 97] ⟨some 2, none⟩ (by decide)

example : ∀ e, 0 < e →
    ((endsAt (buildLattice exampleEnv3).ends e).filter (fun n => n.startNode == 0)).map (nodeCand e) =
      (exampleEnv3.cands 0).filter (fun c => c.endWord == e) := by
  have hinv := (buildLoop_inv exampleEnv3_ok (resetEnds 0 exampleEnv3.len) 0
    (reset_inv exampleEnv3 0 10 0) (Nat.zero_le _)).1
  have hne : endsAt (buildLattice exampleEnv3).ends 0 ≠ [] := by
    have : endsAt (buildLattice exampleEnv3).ends 0 = [bosNode] := hinv.bos
    rw [this]; simp
  exact (candidates_all_inserted exampleEnv3 0 10 exampleEnv3_ok 0).1 0 (.refl 0) (by decide) hne
    (by decide)

-- (executable tests, not theorems) text `ab a`, ignore_space: the loop heads are 0, 1, 2, 4;
-- boundary 2 (skip 1 → start word 3) stores the candidates of position 3 with start node 2;
-- boundary 3 is never a start node.
#guard ((List.range 5).map fun e => ((endsAt (buildLattice exampleEnv3).ends e).map
    fun n => (n.startNode, n.startWord, n.lexType, n.wordId))) ==
  [[(18446744073709551615, 18446744073709551615, 0, 4294967295)], [(0, 0, 0, 1)], [(0, 0, 0, 0), (1, 1, 2, 0)], [],
   [(2, 3, 0, 1)]]
#guard (exampleEnv3.cands 3).map (fun c => (c.endWord, c.lexType, c.wordId)) == [(4, 0, 1)]

end Vibrato
