/-
Property C20, end to end — "… the connection cost of a dictionary COMPILED from them equals the sum
over bigram templates …".

`Props/C20.lean::mecab_cost_eq_sum` is about the structured files `f : Files`;
`Props/C07.lean::raw_cost_eq_sum` is about what the raw connector computes from the lines it
PARSES.  This file closes the gap between them: the text round trip (helpers in
`Proofs/MecabRoundTrip.lean`)

    bytes written by `generate_bigram_info`  →  `BufRead::lines`  →  `parse_cost` / `parse_features`

gives back the structured files, and `RawConnector::from_readers` succeeds on them.

1. `render_parse_costs`, `render_parse_rows` (round trip under the decidable side conditions `CostOK`,
   `RowsOK`), `generated_files_roundtrip_ok`, `generated_files_parse_back`.
2. `mecab_compiled_cost_eq_sum` (the property about the compiled raw connector),
   `mecab_compiled_cost_eq_sum_small` (< 65536 cost lines: no build hypothesis),
   `mecab_compiled_cost_eq_sum_bounded` (all hypotheses at the level of the inputs).
3. `zero_templates_counterexample`, `no_rows_fails`: the hypotheses "a BIGRAM template exists" and
   "some id ≥ 1 is emitted" cannot be dropped.

Feature TEXTS never reach the generated files: `bigram.cost` carries the decimal interned ids (or the
empty text for BOS/EOS), so a `/` inside a MeCab feature value affects only how `model.def` lines are
matched (`Mecab.model_line_entry` in `Proofs/Mecab.lean`: the first two `/`-pieces), not the round trip.

Trusted as in `Props/C20.lean`: `parseF64`, Lean's `Float` operations.  The round trip itself uses
core's verified `String.utf8EncodeChar` / `ByteArray.IsValidUTF8` lemmas, no new trust.
-/
import Vibrato.Props.C20
import Vibrato.Props.C07
import Vibrato.Proofs.MecabRoundTrip
import Vibrato.Proofs.ScorerBaseBound

namespace Vibrato.Props.C20e2e

open Vibrato.Extractor Vibrato.Mecab
open Vibrato.MecabRT
open Vibrato.Scorer (INVALID buildChecked)
open Vibrato.RawConnector (fromReaders builderFromReaders rawCost numIds Conn costEntries featLines
  absSum rawWs)
open Vibrato.Driver.Conn (csvRow)

/-! ## 1. The text round trip -/

/-- **render_parse_costs.**  Let `cs` be cost lines `(left text, right text, cost)` whose two texts
contain no TAB, no LF and no `/`, and whose cost is an `i32` (`CostOK`, decidable).  The bytes
`generate_bigram_info` writes for them (`<t1>/<t2>TAB<cost>LF` each) are read back by
`BufRead::lines` as exactly these lines (all valid UTF-8), and `parse_cost` (split at TAB,
`parse::<i32>`, split at `/` into exactly two pieces) returns `cs`.  The texts may contain any other
character, including non-ASCII ones and `\r`. -/
theorem render_parse_costs (cs : List CostLine) (h : ∀ e ∈ cs, CostOK e) :
    RawConnector.readLines (toBytes (renderCosts cs)) = (cs.map costText).map some ∧
    costEntries (RawConnector.readLines (toBytes (renderCosts cs))) = some cs :=
  MecabRT.render_parse_costs cs h

/-- The three conditions of `CostOK` are all needed (kernel-checked on the parsed line): a `/` in a
text gives three `/`-pieces, a TAB gives three TAB-pieces (both: `Err`), and a cost outside `i32`
does not parse. -/
theorem costOK_needed :
    RawConnector.parseCostLine (costText ("a/b".toList, "c".toList, 1)) = none ∧
    RawConnector.parseCostLine (costText ("a\tb".toList, "c".toList, 1)) = none ∧
    RawConnector.parseCostLine (costText ("a".toList, "c".toList, 2147483648)) = none ∧
    RawConnector.parseCostLine (costText ("a".toList, "c".toList, 2147483647)) =
      some ("a".toList, "c".toList, 2147483647) := by decide

example : CostOK ("12".toList, [], -2147483648) ∧ ¬ CostOK ("a/b".toList, "c".toList, 1) := by decide

/-- **render_parse_rows.**  Let `rows` be the rows of a generated id file: fewer than `2^64` rows,
none of them empty (`RowsOK`, decidable).  The bytes written (`<i>TAB<cells joined by ','>LF`, a
cell being a decimal id or `*`) are read back line by line, and `parse_features` with the real
`parse_csv_row` (csv-core port, `Driver.Conn.csvRow`) returns the cell texts, with ids
`1, 2, …` accepted by the ascending-id check.  No quoting ever occurs. -/
theorem render_parse_rows (rows : List (List (Option Nat))) (h : RowsOK rows) :
    RawConnector.readLines (toBytes (renderRows rows)) = (featTexts 1 rows).map some ∧
    featLines csvRow (RawConnector.readLines (toBytes (renderRows rows))) 0 = some (cellRows rows) :=
  MecabRT.render_parse_rows rows h

/-- `RowsOK` is needed: an EMPTY row (what `generate_bigram_info` writes when `feature.def` has no
`BIGRAM` line) is rendered as `1<TAB>` and read back as ONE empty cell — the BOS/EOS feature —
because `parse_csv_row("")` returns `[""]`. -/
theorem empty_row_not_roundtrip :
    Vibrato.LexCsv.parseCsvRowBytes true [] = .ok [[]] ∧ cellRows [[]] = [[]] ∧
    featText 1 [] = ['1', '\t'] := by
  refine ⟨by decide, rfl, by decide⟩

#guard featLines csvRow (RawConnector.readLines (toBytes (renderRows [[]]))) 0 == some [[[]]]
#guard featLines csvRow (RawConnector.readLines (toBytes (renderRows [[some 7, none], [none, some 12]]))) 0
  == some [["7".toList, "*".toList], ["*".toList, "12".toList]]

example : RowsOK [[some 7, none], [none, some 12]] := ⟨by decide, by decide⟩

/-- **generated_files_roundtrip_ok.**  The output of `generate_bigram_info` always satisfies the
side conditions, except that rows are empty when `feature.def` has no `BIGRAM` template: fewer
than `2^64` rows (ids passed `parse::<usize>`), one cell per template in every row, cost lines
made of decimal ids / empty texts and an `i32` (`as i32` saturates). -/
theorem generated_files_roundtrip_ok (fixed : Bool) (fd rd ld md : List UInt8) (cf : Float) (f : Files)
    (h : generateFiles fixed fd rd ld md cf = .ok f) :
    ∃ (u : List Str) (b : List (Str × Str)), featureConfigTemplates fd = some (u, b) ∧
      f.right.length < 18446744073709551616 ∧ f.left.length < 18446744073709551616 ∧
      (∀ row ∈ f.right, row.length = b.length) ∧ (∀ row ∈ f.left, row.length = b.length) ∧
      (∀ e ∈ f.cost, CostOK e) :=
  MecabRT.generated_files_roundtrip_ok fixed fd rd ld md cf f h

/-- With at least one `BIGRAM` template the generated files parse back to themselves. -/
theorem generated_files_parse_back (fixed : Bool) (fd rd ld md : List UInt8) (cf : Float) (f : Files)
    (h : generateFiles fixed fd rd ld md cf = .ok f)
    (hT : ∀ u b, featureConfigTemplates fd = some (u, b) → b ≠ []) :
    costEntries (RawConnector.readLines (toBytes (renderCosts f.cost))) = some f.cost ∧
    featLines csvRow (RawConnector.readLines (toBytes (renderRows f.right))) 0 = some (cellRows f.right) ∧
    featLines csvRow (RawConnector.readLines (toBytes (renderRows f.left))) 0 = some (cellRows f.left) := by
  obtain ⟨u, b, hub, hr, hl, hrl, hll, hc⟩ := generated_files_roundtrip_ok fixed fd rd ld md cf f h
  have hb := hT u b hub
  have hb0 : b.length ≠ 0 := fun h0 => hb (List.length_eq_zero_iff.mp h0)
  refine ⟨(render_parse_costs f.cost hc).2, (render_parse_rows f.right ⟨hr, ?_⟩).2,
    (render_parse_rows f.left ⟨hl, ?_⟩).2⟩
  · intro row hrow h0; have := hrl row hrow; rw [h0] at this; exact hb0 this.symm
  · intro row hrow h0; have := hll row hrow; rw [h0] at this; exact hb0 this.symm

/-! ## 2. The compiled dictionary -/

/-- **mecab_compiled_cost_eq_sum** (C20 about the COMPILED raw connector).

Let `generate_bigram_info` (pinned or repaired, `fixed`) succeed with the three byte files
`rb` (`bigram.right`), `lb` (`bigram.left`), `cb` (`bigram.cost`).  Assume

* `hT`: `feature.def` has at least one `BIGRAM` template (needed: `zero_templates_counterexample`),
* `hrows`: one of the two id files is non-empty, i.e. some id `≥ 1` is emitted (otherwise the
  connector has no template at all and `from_readers` fails: `no_rows_fails`, finding F17),
* `hn`: fewer than `2^31 - 2` cost lines (no interned feature gets the id `U31::MAX`; as in C07),
* `hbuild`: the `u32` arithmetic of the scorer's double-array construction does not overflow
  (`buildChecked`, the only panic site left; it depends on the first-fit search only; it holds
  automatically below 65536 cost lines, see `mecab_compiled_cost_eq_sum_small`).

Then `RawConnector::from_readers` (pinned or repaired, `fixedC`; csv via the real
`parse_csv_row`) SUCCEEDS on the lines of the three files, the connector has the ids
`0 … #rows`, and for all non-zero ids `r`, `l` in range (`< 65535`, the `u16` arithmetic of
`right_feature_ids`) whose lane costs do not overflow `i32` (`absSum … ≤ i32::MAX`, as in C07)

    cost(r, l) = Σ_{t < #templates} termOf entries b cellsR cellsL t

the sum over the bigram templates `t` of `-trunc(weight · cost_factor)` of the LAST usable
`model.def` line whose feature texts are (left expansion of `t` on the features of `r`, right
expansion of `t` on the features of `l`) when both expansions exist, else 0 — the right-hand side
of `C20.mecab_cost_eq_sum`.  `cellsR`/`cellsL` are the csv cells of the last `right-id.def` /
`left-id.def` line defining `r` / `l`. -/
theorem mecab_compiled_cost_eq_sum (fixed fixedC oc : Bool) (fd rd ld md : List UInt8) (cf : Float)
    (rb lb cb : List UInt8)
    (h : generateBigramInfo fixed fd rd ld md cf = .ok (rb, lb, cb))
    (hT : ∀ u b, featureConfigTemplates fd = some (u, b) → b ≠ [])
    (hrows : rb ≠ [] ∨ lb ≠ [])
    (hn : (RawConnector.readLines cb).length + 1 ≤ INVALID)
    (hbuild : ∀ bd, builderFromReaders csvRow (RawConnector.readLines rb) (RawConnector.readLines lb)
        (RawConnector.readLines cb) = .ok bd → buildChecked bd.trie ≠ .panic) :
    ∃ (f : Files) (u : List Str) (b : List (Str × Str)) (entries : List CostLine) (conn : Conn),
      generateFiles fixed fd rd ld md cf = .ok f ∧
      featureConfigTemplates fd = some (u, b) ∧
      rawEntries cf (readLines md) = some entries ∧
      fromReaders fixedC csvRow (RawConnector.readLines rb) (RawConnector.readLines lb)
        (RawConnector.readLines cb) = .ok conn ∧
      numIds conn.rightFeatIds conn.fts = f.right.length + 1 ∧
      numIds conn.leftFeatIds conn.fts = f.left.length + 1 ∧
      ∀ r l, 1 ≤ r → r ≤ f.right.length → 1 ≤ l → l ≤ f.left.length →
        r + 1 < 65536 → l + 1 < 65536 →
        absSum (rawWs fixedC f.cost (cellRows f.right) (cellRows f.left) r l) ≤ 2147483647 →
        ∃ cellsR cellsL, lastCells (readLines rd) r = some cellsR ∧
          lastCells (readLines ld) l = some cellsL ∧
          rawCost oc conn r l =
            .ok ((List.range b.length).map (termOf entries b cellsR cellsL)).sum := by
  obtain ⟨f, hf⟩ := files_of_info h
  have hout : rb = toBytes (renderRows f.right) ∧ lb = toBytes (renderRows f.left) ∧
      cb = toBytes (renderCosts f.cost) := by
    unfold generateBigramInfo at h
    simp only [hf, Outcome.ok.injEq, Prod.mk.injEq] at h
    exact ⟨h.1.symm, h.2.1.symm, h.2.2.symm⟩
  obtain ⟨hrb, hlb, hcb⟩ := hout
  obtain ⟨pc, pr, pl⟩ := generated_files_parse_back fixed fd rd ld md cf f hf hT
  rw [← hcb] at pc; rw [← hrb] at pr; rw [← hlb] at pl
  obtain ⟨u, b, entries, hub, hent, hsum⟩ := C20.mecab_cost_eq_sum fixed fd rd ld md cf f hf
  obtain ⟨u', b', hub', _, _, hrl, hll, _⟩ := generated_files_roundtrip_ok fixed fd rd ld md cf f hf
  rw [hub] at hub'
  simp only [Option.some.injEq, Prod.mk.injEq] at hub'
  obtain ⟨rfl, rfl⟩ := hub'
  have hb := hT u b hub
  have hb0 : b.length ≠ 0 := fun h0 => hb (List.length_eq_zero_iff.mp h0)
  -- some row exists, so the connector sees `b.length ≥ 1` templates
  have hne : f.right ≠ [] ∨ f.left ≠ [] := by
    rcases hrows with h1 | h1
    · left; intro h0; apply h1; rw [hrb, h0]; simp [renderRows, renderRowsFrom, toBytes_eq, encs]
    · right; intro h0; apply h1; rw [hlb, h0]; simp [renderRows, renderRowsFrom, toBytes_eq, encs]
  have hK : RawConnector.templateCount (cellRows f.right) (cellRows f.left) ≠ 0 := by
    unfold RawConnector.templateCount
    rw [← maxLen_eq, ← maxLen_eq]
    rcases hne with h1 | h1
    · rw [maxLen_cellRows _ _ h1 hrl]; omega
    · rw [maxLen_cellRows (rows := f.left) _ h1 hll]; omega
  have hlen := RawConnector.costEntries_length _ _ pc
  obtain ⟨conn, hconn⟩ := fromReaders_ok fixedC csvRow _ _ _ f.cost (cellRows f.right) (cellRows f.left)
    pc (by rw [hlen]; exact hn) pr pl hK hbuild
  obtain ⟨es, rfs, lfs, e1, e2, e3, n1, n2, hcost⟩ :=
    C07.raw_cost_eq_sum fixedC oc csvRow _ _ _ conn hn hconn
  rw [pc] at e1; rw [pr] at e2; rw [pl] at e3
  cases e1; cases e2; cases e3
  refine ⟨f, u, b, entries, conn, hf, hub, hent, hconn, by simpa [cellRows] using n1,
    by simpa [cellRows] using n2, ?_⟩
  intro r l hr1 hr2 hl1 hl2 hr16 hl16 habs
  obtain ⟨cellsR, cellsL, hcR, hcL, hdef⟩ := hsum r l hr1 hr2 hl1 hl2
  refine ⟨cellsR, cellsL, hcR, hcL, ?_⟩
  rw [hcost r l (by simpa [cellRows] using hr2) (by simpa [cellRows] using hl2) hr16 hl16 habs]
  have hpad : RawConnector.rawPadTerm fixedC f.cost r l = 0 := by
    unfold RawConnector.rawPadTerm
    rw [if_neg (by omega)]
  rw [hpad, ← defSum_eq, hdef]
  simp

/-- **mecab_compiled_cost_eq_sum_small**: for models with fewer than 65536 lines in the generated
`bigram.cost` the two technical hypotheses `hn`, `hbuild` hold automatically
(`Proofs/ScorerBaseBound.lean`: a double array with `N` entries has all bases `≤ N²`).  What remains
are `hT` (a `BIGRAM` template exists), `hrows` (some id `≥ 1` is emitted) and, per id pair, the
`u16` / `i32` range conditions of `RawConnector::cost`. -/
theorem mecab_compiled_cost_eq_sum_small (fixed fixedC oc : Bool) (fd rd ld md : List UInt8) (cf : Float)
    (rb lb cb : List UInt8)
    (h : generateBigramInfo fixed fd rd ld md cf = .ok (rb, lb, cb))
    (hT : ∀ u b, featureConfigTemplates fd = some (u, b) → b ≠ [])
    (hrows : rb ≠ [] ∨ lb ≠ [])
    (hsmall : (RawConnector.readLines cb).length < 65536) :
    ∃ (f : Files) (u : List Str) (b : List (Str × Str)) (entries : List CostLine) (conn : Conn),
      generateFiles fixed fd rd ld md cf = .ok f ∧
      featureConfigTemplates fd = some (u, b) ∧
      rawEntries cf (readLines md) = some entries ∧
      fromReaders fixedC csvRow (RawConnector.readLines rb) (RawConnector.readLines lb)
        (RawConnector.readLines cb) = .ok conn ∧
      numIds conn.rightFeatIds conn.fts = f.right.length + 1 ∧
      numIds conn.leftFeatIds conn.fts = f.left.length + 1 ∧
      ∀ r l, 1 ≤ r → r ≤ f.right.length → 1 ≤ l → l ≤ f.left.length →
        r + 1 < 65536 → l + 1 < 65536 →
        absSum (rawWs fixedC f.cost (cellRows f.right) (cellRows f.left) r l) ≤ 2147483647 →
        ∃ cellsR cellsL, lastCells (readLines rd) r = some cellsR ∧
          lastCells (readLines ld) l = some cellsL ∧
          rawCost oc conn r l =
            .ok ((List.range b.length).map (termOf entries b cellsR cellsL)).sum :=
  mecab_compiled_cost_eq_sum fixed fixedC oc fd rd ld md cf rb lb cb h hT hrows
    (by simp only [INVALID]; omega)
    (fun bd hbd hp => by
      rw [RawConnector.builder_buildChecked_ok hbd hsmall] at hp; cases hp)

/-- **mecab_compiled_cost_eq_sum_bounded** — every hypothesis is about the INPUT of
`generate_bigram_info` (and the size of its output).  If all usable `model.def` lines have
`|-trunc(weight · cost_factor)| ≤ M` and `#templates · M ≤ i32::MAX` (no `i32` overflow when the
connector adds the template costs), `feature.def` has a `BIGRAM` template, some id `≥ 1` is emitted
and `bigram.cost` has fewer than 65536 lines, then the dictionary compiled from the generated
files has, for ALL non-zero ids `r ≤ #rows(bigram.right)`, `l ≤ #rows(bigram.left)` below 65535,

    cost(r, l) = Σ_t termOf entries b cellsR cellsL t . -/
theorem mecab_compiled_cost_eq_sum_bounded (fixed fixedC oc : Bool) (fd rd ld md : List UInt8) (cf : Float)
    (rb lb cb : List UInt8) (M : Nat)
    (h : generateBigramInfo fixed fd rd ld md cf = .ok (rb, lb, cb))
    (hT : ∀ u b, featureConfigTemplates fd = some (u, b) → b ≠ [] ∧ b.length * M ≤ 2147483647)
    (hM : ∀ entries, rawEntries cf (readLines md) = some entries → ∀ e ∈ entries, e.2.2.natAbs ≤ M)
    (hrows : rb ≠ [] ∨ lb ≠ [])
    (hsmall : (RawConnector.readLines cb).length < 65536) :
    ∃ (f : Files) (u : List Str) (b : List (Str × Str)) (entries : List CostLine) (conn : Conn),
      generateFiles fixed fd rd ld md cf = .ok f ∧
      featureConfigTemplates fd = some (u, b) ∧
      rawEntries cf (readLines md) = some entries ∧
      fromReaders fixedC csvRow (RawConnector.readLines rb) (RawConnector.readLines lb)
        (RawConnector.readLines cb) = .ok conn ∧
      numIds conn.rightFeatIds conn.fts = f.right.length + 1 ∧
      numIds conn.leftFeatIds conn.fts = f.left.length + 1 ∧
      ∀ r l, 1 ≤ r → r ≤ f.right.length → 1 ≤ l → l ≤ f.left.length →
        r + 1 < 65536 → l + 1 < 65536 →
        ∃ cellsR cellsL, lastCells (readLines rd) r = some cellsR ∧
          lastCells (readLines ld) l = some cellsL ∧
          rawCost oc conn r l =
            .ok ((List.range b.length).map (termOf entries b cellsR cellsL)).sum := by
  obtain ⟨f, u, b, entries, conn, hf, hub, hent, hconn, n1, n2, hcost⟩ :=
    mecab_compiled_cost_eq_sum_small fixed fixedC oc fd rd ld md cf rb lb cb h
      (fun u b hub => (hT u b hub).1) hrows hsmall
  refine ⟨f, u, b, entries, conn, hf, hub, hent, hconn, n1, n2, ?_⟩
  intro r l hr1 hr2 hl1 hl2 hr16 hl16
  apply hcost r l hr1 hr2 hl1 hl2 hr16 hl16
  -- the `i32` bound
  obtain ⟨u', b', st, entries', hub', _, _, _, _, _, hent', hcostEq, _⟩ :=
    generate_spec fixed fd rd ld md cf f hf
  rw [hent] at hent'; cases hent'
  obtain ⟨u'', b'', hub'', _, _, hrl, hll, _⟩ := generated_files_roundtrip_ok fixed fd rd ld md cf f hf
  rw [hub] at hub''; cases hub''
  have hMf : ∀ e ∈ f.cost, e.2.2.natAbs ≤ M := by
    intro e he
    rw [hcostEq] at he
    obtain ⟨e0, he0, ht⟩ := List.mem_filterMap.mp he
    rw [(translate_keys ht).2.2]
    exact hM entries hent e0 he0
  have hmax : ∀ (rows : List (List (Option Nat))), (∀ row ∈ rows, row.length = b.length) →
      RawConnector.maxLen (cellRows rows) ≤ b.length := by
    intro rows hrows
    rw [← maxLen_eq]
    by_cases hne : rows = []
    · subst hne; simp [cellRows, maxLen]
    · rw [maxLen_cellRows _ _ hne hrows]; exact Nat.le_refl _
  have hK : RawConnector.templateCount (cellRows f.right) (cellRows f.left) ≤ b.length := by
    unfold RawConnector.templateCount
    have := hmax f.right hrl
    have := hmax f.left hll
    omega
  have := absSum_rawWs_le fixedC f.cost (cellRows f.right) (cellRows f.left) r l M hMf
    (by simpa [cellRows] using hr2) (by omega)
  calc absSum (rawWs fixedC f.cost (cellRows f.right) (cellRows f.left) r l)
      ≤ RawConnector.templateCount (cellRows f.right) (cellRows f.left) * M := this
    _ ≤ b.length * M := Nat.mul_le_mul_right M hK
    _ ≤ 2147483647 := (hT u b hub).2

/-! ## 3. Why the hypotheses are needed -/

theorem csvRow_nil : Vibrato.Driver.Conn.csvRow [] = Scorer.Outcome.ok [[]] := by
  unfold Vibrato.Driver.Conn.csvRow Vibrato.LexCsv.parseCsvRow
  have e : (String.ofList []).toUTF8.toList = encs [] := toBytes_eq []
  rw [e]
  have : Vibrato.LexCsv.parseCsvRowBytes true (encs []) = .ok [encs []] := by decide
  rw [this]
  have := mapM_fromUTF8 [[]]
  simp only [List.map_cons, List.map_nil] at this
  simp only [this]
  simp

/-- The lines `generate_bigram_info` writes when `feature.def` has NO `BIGRAM` template, one id
`1` on each side and `model.def` = `1<TAB>BOS/EOS/BOS/EOS`, cost factor 1 (see the `#guard`
below). -/
def zR : List (Option Str) := [some "1\t".toList]
def zC : List (Option Str) := [some "/\t-1".toList]

/-- **zero_templates_counterexample** (why `hT` is needed).  With no `BIGRAM` template every row is
written as `<id><TAB>` and read back as ONE feature — the empty string, i.e. BOS/EOS — so the
compiled connector charges `table("","")` (the `BOS/EOS/BOS/EOS` weight of `model.def`) for EVERY
pair of ids, here `cost(1,1) = -1`, while the sum over the (zero) templates is `0`. -/
theorem zero_templates_counterexample (fixedC : Bool) :
    ∃ conn, fromReaders fixedC csvRow zR zR zC = .ok conn ∧ rawCost true conn 1 1 = .ok (-1) ∧
      ∀ entries cellsR cellsL,
        ((List.range ([] : List (Str × Str)).length).map (termOf entries [] cellsR cellsL)).sum = 0 := by
  have hf : RawConnector.parseFeatureLine csvRow "1\t".toList = .ok (1, [[]]) := by
    unfold RawConnector.parseFeatureLine
    have h1 : RawConnector.splitOn '\t' "1\t".toList = [['1'], []] := by decide
    have h2 : RawConnector.parseUsize ['1'] = some 1 := by decide
    simp only [h1, h2, csvRow_nil]
  have hb : builderFromReaders csvRow zR zR zC =
      .ok ⟨[[0]], [[0]], 1, [[(0, -1)]]⟩ := by
    have hc : RawConnector.costLoop zC ⟨[[]], [[]], []⟩ = .ok ⟨[[]], [[]], [[(0, -1)]]⟩ := rfl
    unfold builderFromReaders
    simp only [hc, zR, RawConnector.featLoop, hf]
    rfl
  cases fixedC
  · unfold fromReaders; rw [hb]; exact ⟨_, rfl, by decide, fun _ _ _ => rfl⟩
  · unfold fromReaders; rw [hb]; exact ⟨_, rfl, by decide, fun _ _ _ => rfl⟩

/-- **no_rows_fails** (why `hrows` is needed; finding F17).  When both id files are empty (only id 0
is defined in `right-id.def` and `left-id.def`) the connector has no feature template:
`RawConnector::from_readers` returns `Err` on the repaired tree and panics (`chunks_mut(0)`) on
the pinned tree, or fails earlier in `bigram.cost` — it never succeeds. -/
theorem no_rows_fails (fixedC : Bool) (csv : RawConnector.Str → Scorer.Outcome (List RawConnector.Str))
    (cost : List (Option RawConnector.Str)) :
    (∀ conn, fromReaders fixedC csv [] [] cost ≠ .ok conn) ∧
    (∀ st, RawConnector.costLoop cost ⟨[[]], [[]], []⟩ = .ok st →
      fromReaders fixedC csv [] [] cost = if fixedC then .err else .panic) := by
  have key : ∀ st, RawConnector.costLoop cost ⟨[[]], [[]], []⟩ = .ok st →
      fromReaders fixedC csv [] [] cost = if fixedC then .err else .panic := by
    intro st hst
    unfold fromReaders builderFromReaders
    simp only [hst, RawConnector.featLoop]
    rfl
  refine ⟨?_, key⟩
  intro conn h
  cases hc : RawConnector.costLoop cost ⟨[[]], [[]], []⟩ with
  | ok st => rw [key st hc] at h; cases fixedC <;> cases h
  | err => unfold fromReaders builderFromReaders at h; simp only [hc] at h; cases h
  | panic => unfold fromReaders builderFromReaders at h; simp only [hc] at h; cases h

/-! ## 4. Witnesses (non-vacuity) -/

section Witness
private def bytes (x : String) : List UInt8 := x.toUTF8.toList

private def featureDef := bytes "# test\nUNIGRAM u:%F[0]\nBIGRAM B1:%L[0]/B1:%R[0]\nBIGRAM B2:%L?[1]/B2:%R[1]\n"
private def rightId := bytes "0 BOS/EOS,*\n1 N,x\n2 V,*\n"
private def leftId := bytes "0 BOS/EOS,*\n1 N,y\n2 P,z\n"
private def modelDef := bytes
  "1.5\tB1:N/B1:P\n-0.25\tB2:x/B2:y\n0.0001\tB1:V/B1:N\n2\tBOS/EOS/B1:N\n3\tzz/B1:N\n-1\tB1:V/B1:P\n1\tB1:V/B1:P\n"

private def pairs : List (Nat × Nat) := [(1, 1), (1, 2), (2, 1), (2, 2)]

/-- every hypothesis of `mecab_compiled_cost_eq_sum` holds on the C20 witness model … -/
private def hypsOk (fixed : Bool) : Bool :=
  match generateBigramInfo fixed featureDef rightId leftId modelDef 700.0 with
  | .ok (rb, lb, cb) =>
    (match featureConfigTemplates featureDef with | some (_, b) => !b.isEmpty | none => false) &&
    (!rb.isEmpty || !lb.isEmpty) &&
    decide ((RawConnector.readLines cb).length + 1 ≤ INVALID) &&
    (match builderFromReaders csvRow (RawConnector.readLines rb) (RawConnector.readLines lb)
        (RawConnector.readLines cb) with
      | .ok bd => (match buildChecked bd.trie with | .panic => false | _ => true)
      | _ => false)
  | _ => false

/-- … the compiled connector's costs … -/
private def compiled (fixed fixedC : Bool) : List (Scorer.Outcome Int) :=
  match generateBigramInfo fixed featureDef rightId leftId modelDef 700.0 with
  | .ok (rb, lb, cb) =>
    match fromReaders fixedC csvRow (RawConnector.readLines rb) (RawConnector.readLines lb)
        (RawConnector.readLines cb) with
    | .ok conn => pairs.map fun p => rawCost true conn p.1 p.2
    | _ => []
  | _ => []

/-- … and the template sums of the statement. -/
private def templateSums : List (Scorer.Outcome Int) :=
  match featureConfigTemplates featureDef, rawEntries 700.0 (readLines modelDef) with
  | some (_, b), some entries =>
    pairs.map fun p =>
      match lastCells (readLines rightId) p.1, lastCells (readLines leftId) p.2 with
      | some cR, some cL => .ok ((List.range b.length).map (termOf entries b cR cL)).sum
      | _, _ => .err
  | _, _ => []

#guard hypsOk false && hypsOk true
#guard compiled false false == [.ok 175, .ok (-1050), .ok 0, .ok (-700)]
#guard compiled false false == templateSums && compiled true true == templateSums &&
  compiled false true == templateSums

-- the input-level hypotheses of `mecab_compiled_cost_eq_sum_bounded` with `M = 2100`
#guard (match featureConfigTemplates featureDef, rawEntries 700.0 (readLines modelDef),
    generateBigramInfo false featureDef rightId leftId modelDef 700.0 with
  | some (_, b), some entries, .ok (rb, _, cb) =>
    !b.isEmpty && decide (b.length * 2100 ≤ 2147483647) && entries.all (fun e => e.2.2.natAbs ≤ 2100) &&
    !rb.isEmpty && decide ((RawConnector.readLines cb).length < 65536)
  | _, _, _ => false)

-- the zero-template counterexample really is what the model of `generate_bigram_info` writes
#guard (match generateBigramInfo false (bytes "UNIGRAM u:%F[0]\n") (bytes "0 BOS/EOS\n1 N\n")
    (bytes "0 BOS/EOS\n1 N\n") (bytes "1\tBOS/EOS/BOS/EOS\n") 1.0 with
  | .ok (rb, lb, cb) => RawConnector.readLines rb == zR && RawConnector.readLines lb == zR &&
      RawConnector.readLines cb == zC
  | _ => false)
-- only id 0 defined: both id files empty
#guard (match generateBigramInfo true featureDef (bytes "0 BOS/EOS,*\n") (bytes "0 BOS/EOS,*\n") modelDef 700.0 with
  | .ok (rb, lb, _) => rb.isEmpty && lb.isEmpty
  | _ => false)
end Witness

end Vibrato.Props.C20e2e
