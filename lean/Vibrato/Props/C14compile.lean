/-
C14 — "The emitted files always compile into a dictionary" (the part of C14 left open by
`Props/C14.lean::emitted_compiles_partial`).

For a model merged by `merge` (`rucrf::RawModel::merge`) the four readers of
`SystemDictionaryBuilder::from_readers` accept the files written by `Model::write_dictionary`
(`lex.csv`, `matrix.def`, `unk.def`) together with the `char.def` of the training configuration,
and the builder returns a dictionary (`buildMatrixDict … = .ok D`).

* `matrix_def_parses_back` — `MatrixConnector::from_reader` on the emitted `matrix.def`;
* `unk_def_parses_back`    — the csv reader on the emitted `unk.def` (category names are written
                             UNQUOTED: side condition `cateNameOk`, finding F22);
* `emitted_compiles`       — the assembly, with every side condition explicit;
* `emitted_files_compile`  — the same for the files returned by `writeDictionaryWith`.

Helper lemmas: `Vibrato/Proofs/EmittedCompiles.lean`.  Core Lean only.
-/
import Vibrato.Proofs.EmittedCompiles
import Vibrato.Props.C10

namespace Vibrato.C14
open Vibrato.Bincode Vibrato.Image Vibrato.ModelImage Vibrato.Trainer Vibrato.Trainer.WeightOps
open Vibrato.Csv Vibrato.LexCsv Vibrato.EmitC
open Vibrato.MecabRT (encs)

section
variable {W S : Type} [WeightOps W S] [LawfulWeight W S]

/-! ## 1. matrix.def -/

/-- **matrix_def_parses_back.**  For a model merged by `merge` with at most 65534 left and right
connection classes (the header fields are `u16`), under the cost laws,
`MatrixConnector::from_reader` accepts the emitted `matrix.def` and returns a matrix `M` with
* the dimensions of the header: `|right classes| + 1` right ids and `|left classes| + 1` left ids,
* a table of `num_right * num_left` entries,
* at `(r, l)` the cost `cost16 w` written for every stored entry `(l, w)` of row `r` of the
  merged matrix (right id `r`, `0` = BOS; left id `l`, `0` = EOS),
* `0` at every in-range position for which the merged matrix stores nothing.
No line of the file is rejected, duplicated or lost. -/
theorem matrix_def_parses_back {wt : List W} {m : RawModel} {mm : Merged W}
    (h : merge wt m = .ok mm)
    (hL : mm.leftConn.length < 65535) (hR : mm.rightConn.length < 65535) :
    ∃ M : Matrix, MatrixDef.parse (matrixFile mm (scale mm)) = .ok M ∧
      M.numRight = mm.rightConn.length + 1 ∧ M.numLeft = mm.leftConn.length + 1 ∧
      M.data.length = M.numRight * M.numLeft ∧
      (∀ r row e, mm.matrix[r]? = some row → e ∈ row →
        M.cost? r e.1 = some (cost16 e.2 (scale mm))) ∧
      (∀ r l, r < mm.rightConn.length + 1 → l < mm.leftConn.length + 1 →
        (∀ row e, mm.matrix[r]? = some row → e ∈ row → e.1 ≠ l) → M.cost? r l = some 0) := by
  have ok := merge_ok h
  have hcost : ∀ row ∈ mm.matrix, ∀ e ∈ row,
      -32768 ≤ cost16 e.2 (scale mm) ∧ cost16 e.2 (scale mm) ≤ 32767 :=
    fun _ _ e _ => cost_fits_i16 mm e.2
  obtain ⟨hp, hents⟩ := parse_matrixFile mm (scale mm) ok.rows ok.cols hcost hL hR
  have hd := entsOf_distinct (scale mm) mm.matrix 0 (fun row hrow => (ok.cols row hrow).2)
  obtain ⟨hin, hout⟩ := fill_spec (mm.rightConn.length + 1) (mm.leftConn.length + 1)
    (entsOf (scale mm) mm.matrix 0)
    (List.replicate ((mm.rightConn.length + 1) * (mm.leftConn.length + 1)) 0)
    (by simp) hents hd
  refine ⟨_, hp, rfl, rfl, by simp [fill_length], ?_, ?_⟩
  · intro r row e hrow he
    have hmem : (r, e.1, cost16 e.2 (scale mm)) ∈ entsOf (scale mm) mm.matrix 0 :=
      (mem_entsOf _ _ _ _).mpr ⟨r, row, e, hrow, he, by simp⟩
    exact hin _ hmem
  · intro r l hr hl hno
    have h0 := hout r l hr hl (by
      intro x hx ⟨h1, h2⟩
      obtain ⟨i, row, e, hi, he, rfl⟩ := (mem_entsOf _ _ _ _).mp hx
      simp only [Nat.zero_add] at h1 h2
      subst h1
      exact hno row e hi he h2)
    simp only [Matrix.cost?]
    rw [h0, List.getElem?_replicate, if_pos (key_lt hr hl)]

/-! ## 2. unk.def -/

/-- **The condition under which `write_dictionary`'s unquoted `cate_str` is read back**: the
category name is non-empty, contains none of `,` `"` CR LF (`requiresQuotes`), is valid UTF-8
and shorter than the csv reader's 4096 byte cell buffer.  Equivalently: `quote_csv_cell` would
have left the name unchanged.  Decidable (a `Bool`). -/
def cateNameOk (c : Str) : Bool :=
  !c.isEmpty && c.all (fun b => !requiresQuotes b) && LexCsv.validUtf8 c && decide (c.length < 4096)

/-- The feature string of an unknown entry is as `parse_csv` delivers it (given by its cells). -/
structure UnkSeed.FeatOK (r : UnkSeed) : Prop where
  featIs : r.e.feature = featInitBytes r.fInit ++ r.fLast.render
  hInit : ∀ c ∈ r.fInit, cellOk c
  hLast : cellOk r.fLast
  featUtf8 : LexCsv.validUtf8 r.e.feature = true

theorem UnkSeed.ok_of_name {cats : List Str} {r : UnkSeed} (hc : cats[r.e.cateId]? = some r.cate)
    (hn : cateNameOk r.cate = true) (hf : r.FeatOK) : r.OK cats := by
  simp only [cateNameOk, Bool.and_eq_true, Bool.not_eq_true', decide_eq_true_eq] at hn
  obtain ⟨⟨⟨h1, h2⟩, h3⟩, h4⟩ := hn
  exact ⟨hc, h2, (by intro e; rw [e] at h1; cases h1), h3, h4, hf.featIs, hf.hInit, hf.hLast,
    hf.featUtf8⟩

omit [LawfulWeight W S] in
theorem paramsInRange_entries (s : S) {nl nr : Nat} :
    ∀ (f : List (MergedFS W)), (∀ fs ∈ f, fs.leftId < nl ∧ fs.rightId < nr) →
      (∀ (seeds : List SeedRow), paramsInRange (paramsOf (lexEntriesSpec s seeds f)) nl nr = true) ∧
      (∀ (useeds : List UnkSeed), paramsInRange (paramsOf (unkEntriesSpec s useeds f)) nl nr = true) := by
  intro f
  induction f with
  | nil =>
    intro _
    constructor <;> intro l <;> cases l <;> simp [lexEntriesSpec, unkEntriesSpec, paramsOf, paramsInRange]
  | cons fs f ih =>
    intro hf
    have h1 := hf fs (by simp)
    obtain ⟨ihl, ihu⟩ := ih (fun x hx => hf x (by simp [hx]))
    constructor
    · intro seeds
      cases seeds with
      | nil => simp [lexEntriesSpec, paramsOf, paramsInRange]
      | cons r rs =>
        have := ihl rs
        simp only [paramsInRange, paramsOf, List.all_eq_true, lexEntriesSpec, List.map_cons,
          List.mem_cons] at this ⊢
        rintro p (rfl | hp)
        · simp [h1.1, h1.2]
        · exact this p hp
    · intro useeds
      cases useeds with
      | nil => simp [unkEntriesSpec, paramsOf, paramsInRange]
      | cons r rs =>
        have := ihu rs
        simp only [paramsInRange, paramsOf, List.all_eq_true, unkEntriesSpec, List.map_cons,
          List.mem_cons] at this ⊢
        rintro p (rfl | hp)
        · simp [h1.1, h1.2]
        · exact this p hp

/-- **unk_def_parses_back.**  For a model merged by `merge` with at most 65534 classes per side,
under the cost laws: reading the emitted `unk.def` (rows of the merged feature sets from index
`off = |surfaces|` on) with the csv parser of `UnkHandler::from_reader` returns, in order, one
row per unknown entry whose FIRST CELL IS THE CATEGORY NAME (`unkEntriesSpec`: surface =
`r.cate`), with the merged left id, right id and cost and the entry's feature string; and all
parsed ids pass `UnkHandler::verify` against the `matrix.def` header dimensions.
Side conditions: every category name satisfies `cateNameOk` (the name is written WITHOUT
`quote_csv_cell` — F22; see the counterexamples below), the feature strings are as `parse_csv`
delivered them, and the file does not start with a UTF-8 BOM (a first category name starting
with U+FEFF would lose it). -/
theorem unk_def_parses_back {wt : List W} {m : RawModel} {mm : Merged W}
    (h : merge wt m = .ok mm)
    (hL : mm.leftConn.length < 65535) (hR : mm.rightConn.length < 65535)
    (cats : List Str) (useeds : List UnkSeed) (off : Nat)
    (hcate : ∀ r ∈ useeds, cats[r.e.cateId]? = some r.cate)
    (hname : ∀ r ∈ useeds, cateNameOk r.cate = true)
    (hfeat : ∀ r ∈ useeds, r.FeatOK)
    (hbom : ¬ (bom <+: unkRowsSpec (scale mm) cats (useeds.map (·.e)) (mm.featureSets.drop off))) :
    parseCsv true (unkRowsSpec (scale mm) cats (useeds.map (·.e)) (mm.featureSets.drop off)) =
        .ok (unkEntriesSpec (scale mm) useeds (mm.featureSets.drop off)) ∧
    paramsInRange (paramsOf (unkEntriesSpec (scale mm) useeds (mm.featureSets.drop off)))
      (mm.leftConn.length + 1) (mm.rightConn.length + 1) = true := by
  obtain ⟨hids, _, _, _, _, _⟩ := ids_in_dims h
  have hmem : ∀ fs ∈ mm.featureSets.drop off, fs ∈ mm.featureSets :=
    fun fs hfs => List.mem_of_mem_drop hfs
  have hfit : ∀ fs ∈ mm.featureSets.drop off, ParamFits (scale mm) fs := by
    intro fs hfs
    obtain ⟨_, h2, _, h4⟩ := hids fs (hmem fs hfs)
    have := cost_fits_i16 mm fs.weight
    exact ⟨by omega, by omega, this.1, this.2⟩
  refine ⟨unk_rows_parse (scale mm) cats useeds _
    (fun r hr => UnkSeed.ok_of_name (hcate r hr) (hname r hr) (hfeat r hr)) hfit hbom, ?_⟩
  exact (paramsInRange_entries (scale mm) _ (fun fs hfs => by
    obtain ⟨_, h2, _, h4⟩ := hids fs (hmem fs hfs)
    exact ⟨h2, h4⟩)).2 useeds


/-! ## 3. The assembly -/

/-- **emitted_compiles.**  Let `mm` be merged by `merge`, with at most 65534 left and right
connection classes, under the cost laws.  Let the seed lexicon rows (`seeds`, at least one, as
`parse_csv` delivered them: `SeedRow.OK`) have surfaces without a zero byte (= without U+0000,
the end marker of the crawdad trie), let the unknown entries (`useeds`) name categories whose
names satisfy `cateNameOk`, and let `chardef` be a `char.def` that `CharProperty::from_reader`
accepts (`CharDef.parse chardef = .ok P` — the file is an INPUT of training and is passed
through unchanged) and that defines every category used by an unknown entry.  If neither
emitted CSV file starts with a UTF-8 BOM, then `SystemDictionaryBuilder::from_readers` on the
emitted `lex.csv`, `matrix.def`, `unk.def` and that `char.def` RETURNS A DICTIONARY:
the matrix `M` has the header dimensions, the system lexicon `L` has one entry per seed row
with the merged parameters and the seed feature strings, the unknown handler `U` is built from
the read-back rows, and the dictionary is the record below (in particular `DictWF`, see
`emitted_compiles_wf`). -/
theorem emitted_compiles {wt : List W} {m : RawModel} {mm : Merged W} (h : merge wt m = .ok mm)
    (hL : mm.leftConn.length < 65535) (hR : mm.rightConn.length < 65535)
    (seeds : List SeedRow) (hs : ∀ r ∈ seeds, r.OK) (hne : seeds ≠ [])
    (hnul : ∀ r ∈ seeds, (0 : UInt8) ∉ r.surf)
    (cats : List Str) (useeds : List UnkSeed)
    (hcate : ∀ r ∈ useeds, cats[r.e.cateId]? = some r.cate)
    (hname : ∀ r ∈ useeds, cateNameOk r.cate = true)
    (hfeat : ∀ r ∈ useeds, r.FeatOK)
    (hsets : seeds.length + useeds.length ≤ mm.featureSets.length)
    (chardef : List UInt8) (P : CharProp) (hP : CharDef.parse chardef = .ok P)
    (hdef : ∀ r ∈ useeds, ∃ name ∈ P.names, encs name.toList = r.cate)
    (hbomL : ¬ (bom <+: lexRowsSpec (scale mm) (seeds.map (·.surf)) mm.featureSets
      (seeds.map (·.feature))))
    (hbomU : ¬ (bom <+: unkRowsSpec (scale mm) cats (useeds.map (·.e))
      (mm.featureSets.drop seeds.length))) :
    ∃ (M : Matrix) (L : LexM) (U : List UnkEntryM),
      MatrixDef.parse (matrixFile mm (scale mm)) = .ok M ∧
      M.numRight = mm.rightConn.length + 1 ∧ M.numLeft = mm.leftConn.length + 1 ∧
      lexOfRows (rowsOf (lexEntriesSpec (scale mm) seeds mm.featureSets)) = some L ∧
      L.entries.map (·.param) = paramsOf (lexEntriesSpec (scale mm) seeds mm.featureSets) ∧
      L.features = seeds.map (·.feature) ∧
      unkOfRows P (rowsOf (unkEntriesSpec (scale mm) useeds (mm.featureSets.drop seeds.length)))
        = some U ∧
      buildMatrixDict Fixes.all
        (lexRowsSpec (scale mm) (seeds.map (·.surf)) mm.featureSets (seeds.map (·.feature)))
        (matrixFile mm (scale mm)) chardef
        (unkRowsSpec (scale mm) cats (useeds.map (·.e)) (mm.featureSets.drop seeds.length)) =
      .ok { sys := L, user := none, numRight := M.numRight, numLeft := M.numLeft,
            conn := (List.range M.numRight).flatMap fun r =>
              (List.range M.numLeft).map fun l => M.cost r l,
            mapper := none, chars := P, unk := U } := by
  obtain ⟨hlex, hlr⟩ := emitted_compiles_partial h hL hR seeds hs hbomL
  obtain ⟨M, hM, hMr, hMl, _, _, _⟩ := matrix_def_parses_back h hL hR
  obtain ⟨hunk, hur⟩ := unk_def_parses_back h hL hR cats useeds seeds.length hcate hname hfeat hbomU
  -- the lexicon is not empty and its entries are the seed rows
  have hlen : ∀ (seeds : List SeedRow) (f : List (MergedFS W)), seeds.length ≤ f.length →
      (lexEntriesSpec (scale mm) seeds f).map (·.surface) = seeds.map (·.surf) ∧
      (lexEntriesSpec (scale mm) seeds f).map (·.feature) = seeds.map (·.feature) := by
    intro seeds
    induction seeds with
    | nil => intro f _; cases f <;> simp [lexEntriesSpec]
    | cons r rs ih =>
      intro f hf
      cases f with
      | nil => simp at hf
      | cons fs f =>
        have := ih f (by simpa using hf)
        simp [lexEntriesSpec, this.1, this.2]
  obtain ⟨hsurfs, hfeats⟩ := hlen seeds mm.featureSets (by omega)
  have hne' : lexEntriesSpec (scale mm) seeds mm.featureSets ≠ [] := by
    intro e
    rw [e] at hsurfs
    cases seeds with
    | nil => exact hne rfl
    | cons _ _ => simp at hsurfs
  have hsurf : ∀ e ∈ lexEntriesSpec (scale mm) seeds mm.featureSets,
      ∃ cps, codePoints e.surface = some cps ∧ 0 ∉ cps := by
    intro e he
    have : e.surface ∈ seeds.map (·.surf) := by
      rw [← hsurfs]; exact List.mem_map.mpr ⟨e, he, rfl⟩
    obtain ⟨r, hr, hre⟩ := List.mem_map.mp this
    rw [← hre]
    exact codePoints_of_valid (hs r hr).surfUtf8 (hnul r hr)
  -- the unknown rows name categories of the char.def
  have hcat : ∀ e ∈ unkEntriesSpec (scale mm) useeds (mm.featureSets.drop seeds.length),
      ∃ name ∈ P.names, Text.decodeLine e.surface = some name := by
    have : ∀ (useeds : List UnkSeed) (f : List (MergedFS W)),
        ∀ e ∈ unkEntriesSpec (scale mm) useeds f, ∃ r ∈ useeds, e.surface = r.cate := by
      intro useeds
      induction useeds with
      | nil => intro f e he; cases f <;> simp [unkEntriesSpec] at he
      | cons r rs ih =>
        intro f e he
        cases f with
        | nil => simp [unkEntriesSpec] at he
        | cons fs f =>
          simp only [unkEntriesSpec, List.mem_cons] at he
          rcases he with rfl | he
          · exact ⟨r, by simp, rfl⟩
          · obtain ⟨r', hr', e'⟩ := ih f e he
            exact ⟨r', by simp [hr'], e'⟩
    intro e he
    obtain ⟨r, hr, hre⟩ := this useeds _ e he
    obtain ⟨name, hn, henc⟩ := hdef r hr
    refine ⟨name, hn, ?_⟩
    rw [hre, ← henc, decodeLine_encs]
    simp
  rw [← hMl, ← hMr] at hlr hur
  obtain ⟨L, U, hLo, hUo, hLp, hLf, hb⟩ :=
    buildMatrixDict_ok hlex hM hP hunk hne' hsurf hcat hlr hur
  exact ⟨M, L, U, hM, hMr, hMl, hLo, hLp, by rw [hLf, hfeats], hUo, hb⟩

/-- The dictionary built from the emitted files satisfies everything the tokenizer relies on
(`DictWF`, `Props/C10.lean::builders_establish_wf`): a full `num_right × num_left` table of
`i16` costs, all ids in range, non-empty lexicon. -/
theorem emitted_compiles_wf {lex matrix chardef unk : List UInt8} {D : DictM}
    (h : buildMatrixDict Fixes.all lex matrix chardef unk = .ok D) : DictWF D :=
  builders_establish_wf h

/-- **emitted_files_compile** — `emitted_compiles` for the files `write_dictionary` returns: for
a model image `d` whose seed rows / unknown entries are `seeds` / `useeds`, whenever
`write_dictionary` succeeds (`Shape`, `write_dictionary_ok`), `from_readers` on
`files.lex`, `files.matrix`, the training `char.def` and `files.unk` returns a well-formed
dictionary with the header dimensions.  (`files.user` is not an input of `from_readers`.) -/
theorem emitted_files_compile {wt : List W} {m : RawModel} {mm : Merged W}
    (h : merge wt m = .ok mm)
    (hL : mm.leftConn.length < 65535) (hR : mm.rightConn.length < 65535)
    (d : ModelData) (user : List UserEntry) (hshape : Shape d user mm)
    (seeds : List SeedRow) (hsurfs : d.config.surfaces = seeds.map (·.surf))
    (hfeats : d.config.dict.systemLexicon.features = seeds.map (·.feature))
    (hs : ∀ r ∈ seeds, r.OK) (hne : seeds ≠ []) (hnul : ∀ r ∈ seeds, (0 : UInt8) ∉ r.surf)
    (useeds : List UnkSeed) (hue : d.config.dict.unkHandler.entries = useeds.map (·.e))
    (hcate : ∀ r ∈ useeds, d.config.dict.charProp.categories[r.e.cateId]? = some r.cate)
    (hname : ∀ r ∈ useeds, cateNameOk r.cate = true)
    (hfeat : ∀ r ∈ useeds, r.FeatOK)
    (chardef : List UInt8) (P : CharProp) (hP : CharDef.parse chardef = .ok P)
    (hdef : ∀ r ∈ useeds, ∃ name ∈ P.names, encs name.toList = r.cate)
    (files : DictFiles) (hw : writeDictionaryWith d user mm = .ok files)
    (hbomL : ¬ (bom <+: files.lex)) (hbomU : ¬ (bom <+: files.unk)) :
    ∃ D, buildMatrixDict Fixes.all files.lex files.matrix chardef files.unk = .ok D ∧
      DictWF D ∧ D.numRight = mm.rightConn.length + 1 ∧ D.numLeft = mm.leftConn.length + 1 ∧
      D.chars = P ∧ D.sys.features = d.config.dict.systemLexicon.features ∧
      D.sys.entries.map (·.param) =
        paramsOf (lexEntriesSpec (scale mm) seeds mm.featureSets) := by
  rw [write_dictionary_ok d user mm hshape] at hw
  injection hw with hw
  subst hw
  simp only [hsurfs, hfeats, hue, List.length_map] at hbomL hbomU ⊢
  have hsets : seeds.length + useeds.length ≤ mm.featureSets.length := by
    have := hshape.sets
    rw [hsurfs, hue] at this
    simpa using this
  obtain ⟨M, L, U, hM, hMr, hMl, hLo, hLp, hLf, hUo, hb⟩ :=
    emitted_compiles h hL hR seeds hs hne hnul _ useeds hcate hname hfeat hsets chardef P hP hdef
      hbomL hbomU
  exact ⟨_, hb, emitted_compiles_wf hb, hMr, hMl, rfl, hLf, hLp⟩

end


/-! ## Non-vacuity: the concrete merged model of `Props/C14.lean` (`Ex.merged`, exact weight
structure `exactOps 1`) -/

namespace Ex
open Vibrato.Trainer.Examples

attribute [local instance] ops

/-- 1. `matrix.def` of the example (`4 4`, five entries) is read back. -/
example : ∃ M : Matrix, MatrixDef.parse (matrixFile merged (scale merged)) = .ok M ∧
    M.numRight = 3 + 1 ∧ M.numLeft = 3 + 1 ∧ M.data.length = M.numRight * M.numLeft ∧
    (∀ r row e, merged.matrix[r]? = some row → e ∈ row →
      M.cost? r e.1 = some (cost16 e.2 (scale merged))) ∧
    (∀ r l, r < 3 + 1 → l < 3 + 1 →
      (∀ row e, merged.matrix[r]? = some row → e ∈ row → e.1 ≠ l) → M.cost? r l = some 0) :=
  matrix_def_parses_back merge_eq (by decide) (by decide)

/-- … e.g. the entry `(right 0, left 1)` has weight `7 = max`, hence cost `-32767`, and
`(right 3, left 0)` is not stored, hence `0`. -/
example : ∃ M : Matrix, MatrixDef.parse (matrixFile merged (scale merged)) = .ok M ∧
    M.cost? 0 1 = some (-32767) ∧ M.cost? 3 0 = some 0 := by
  obtain ⟨M, hM, _, _, _, hin, hout⟩ := matrix_def_parses_back merge_eq (by decide) (by decide)
  exact ⟨M, hM, hin 0 [(1, 7), (2, 2)] (1, 7) (by decide) (by decide),
    hout 3 0 (by decide) (by decide) (by
      intro row e hrow he
      have : row = [] := by
        have h3 : merged.matrix[3]? = some [] := by decide
        rw [h3] at hrow; exact (Option.some.inj hrow).symm
      subst this; cases he)⟩

-- the same file through the executable model
#guard MatrixDef.parse (matrixFile merged (scale merged)) ==
  .ok ⟨4, 4, [0, -4681, 0, 0, -32767, 0, -23405, 0, -9362, -14043, 0, 0, 0, 0, 0, 0]⟩

theorem useeds_feat : ∀ r ∈ useeds, r.FeatOK := by
  intro r hr
  simp only [useeds, List.mem_cons, List.mem_nil_iff, or_false] at hr
  subst hr
  exact ⟨by decide, by decide, by decide, by decide⟩

/-- 2. `unk.def` of the example (`DEFAULT,3,3,0,U`) is read back; the ids pass `verify`. -/
example : parseCsv true (unkRowsSpec (scale merged) model.config.dict.charProp.categories
      (useeds.map (·.e)) (merged.featureSets.drop 3)) =
      .ok [⟨[68, 69, 70, 65, 85, 76, 84], 3, 3, 0, [85]⟩] ∧
    paramsInRange (paramsOf [⟨[68, 69, 70, 65, 85, 76, 84], 3, 3, 0, [85]⟩]) (3 + 1) (3 + 1) = true :=
  unk_def_parses_back merge_eq (by decide) (by decide) _ useeds 3 (by decide) (by decide)
    useeds_feat (by decide)

/-! ### The side condition on category names is needed (finding F22), kernel-checked -/

/-- a category named `A,B` fails `cateNameOk`; the emitted row `A,B,3,3,0,U` is REJECTED -/
example : cateNameOk [65, 44, 66] = false ∧
    parseCsv true (unkRowsSpec (scale merged) [[65, 44, 66]] [⟨0, 0, 0, 0, [85]⟩]
      (merged.featureSets.drop 3)) = .err := by decide

/-- a category named `"A"` (with the quotes) fails `cateNameOk`; the emitted row `"A",3,3,0,U` is
ACCEPTED but names the category `A`: the entry silently moves to another category (or the
builder fails with an undefined category).  Observed on the crate (char.def
`DEFAULT 0 1 0 / A 0 1 0 / "A" 0 1 0 / 0x0020 "A" / 0x0021 A`, unk.def rows `A,…,T,*` and
`"""A""",…,S,*`): the emitted files compile, `"!"` is then tokenized with feature `S,*`
instead of `T,*` and tokenizing `" "` panics (category `"A"` is left without entries). -/
example : cateNameOk [34, 65, 34] = false ∧
    parseCsv true (unkRowsSpec (scale merged) [[34, 65, 34]] [⟨0, 0, 0, 0, [85]⟩]
      (merged.featureSets.drop 3)) = .ok [⟨[65], 3, 3, 0, [85]⟩] := by decide

/-- the condition is sufficient, not necessary, in exactly one respect: a `"` that is not the
first byte is harmless for csv-core (`A"B` is read back), `cateNameOk` rejects it -/
example : cateNameOk [65, 34, 66] = false ∧
    parseCsv true (unkRowsSpec (scale merged) [[65, 34, 66]] [⟨0, 0, 0, 0, [85]⟩]
      (merged.featureSets.drop 3)) = .ok [⟨[65, 34, 66], 3, 3, 0, [85]⟩] := by decide

/-- an empty category name (impossible after `char.def` parsing) would drop the row silently -/
example : parseCsv true (unkRowsSpec (scale merged) [[]] [⟨0, 0, 0, 0, [85]⟩]
      (merged.featureSets.drop 3)) = .ok [] := by decide

/-! ### The assembly -/

/-- A `char.def` defining the one category of the example. -/
def exCharDef : List UInt8 := b "DEFAULT 0 1 0\n"

def exP : CharProp := { names := ["DEFAULT"], defInfo := ⟨1, 0, false, true, 0⟩, ranges := [] }

/-- `CharProperty::from_reader` accepts it (kernel-checked through `decodeLine_ascii`). -/
theorem exCharDef_parse : CharDef.parse exCharDef = .ok exP := by
  have hl : Text.rawLines exCharDef = [b "DEFAULT 0 1 0"] := by decide
  have hd := decodeLine_ascii (bs := b "DEFAULT 0 1 0") (by decide)
  simp only [CharDef.parse, hl, CharDef.foldLines, CharDef.stepLine, hd, String.toList_ofList]
  rfl

/-- 3. `from_readers` returns a dictionary for the files of the example. -/
example : ∃ (M : Matrix) (L : LexM) (U : List UnkEntryM),
    MatrixDef.parse (matrixFile merged (scale merged)) = .ok M ∧
    M.numRight = 3 + 1 ∧ M.numLeft = 3 + 1 ∧
    lexOfRows (rowsOf (lexEntriesSpec (scale merged) seeds merged.featureSets)) = some L ∧
    L.entries.map (·.param) = paramsOf (lexEntriesSpec (scale merged) seeds merged.featureSets) ∧
    L.features = seeds.map (·.feature) ∧
    unkOfRows exP (rowsOf (unkEntriesSpec (scale merged) useeds (merged.featureSets.drop 3)))
      = some U ∧
    buildMatrixDict Fixes.all
      (lexRowsSpec (scale merged) (seeds.map (·.surf)) merged.featureSets (seeds.map (·.feature)))
      (matrixFile merged (scale merged)) exCharDef
      (unkRowsSpec (scale merged) model.config.dict.charProp.categories (useeds.map (·.e))
        (merged.featureSets.drop 3)) =
    .ok { sys := L, user := none, numRight := M.numRight, numLeft := M.numLeft,
          conn := (List.range M.numRight).flatMap fun r =>
            (List.range M.numLeft).map fun l => M.cost r l,
          mapper := none, chars := exP, unk := U } :=
  emitted_compiles merge_eq (by decide) (by decide) seeds seeds_ok (by decide) (by decide)
    model.config.dict.charProp.categories useeds (by decide) (by decide) useeds_feat (by decide)
    exCharDef exP exCharDef_parse
    (by
      intro r hr
      simp only [useeds, List.mem_cons, List.mem_nil_iff, or_false] at hr
      subst hr
      exact ⟨"DEFAULT", by simp [exP], by decide⟩)
    (by decide) (by decide)

/-- … and for the files `writeDictionaryWith` returns. -/
example : ∃ files, writeDictionaryWith model [] merged = .ok files ∧
    ∃ D, buildMatrixDict Fixes.all files.lex files.matrix exCharDef files.unk = .ok D ∧
      DictWF D ∧ D.numRight = 4 ∧ D.numLeft = 4 ∧ D.chars = exP ∧
      D.sys.features = [[78, 44, 97], [86, 44, 98], [78, 44, 97]] ∧
      D.sys.entries.map (·.param) = [⟨1, 1, -23405⟩, ⟨2, 2, 14043⟩, ⟨1, 1, -23405⟩] := by
  refine ⟨_, write_dictionary_ok model [] merged shape, ?_⟩
  exact emitted_files_compile merge_eq (by decide) (by decide) model [] shape seeds (by decide)
    (by decide) seeds_ok (by decide) (by decide) useeds (by decide) (by decide) (by decide)
    useeds_feat exCharDef exP exCharDef_parse
    (by
      intro r hr
      simp only [useeds, List.mem_cons, List.mem_nil_iff, or_false] at hr
      subst hr
      exact ⟨"DEFAULT", by simp [exP], by decide⟩)
    _ (write_dictionary_ok model [] merged shape) (by decide) (by decide)

-- the same through the executable model: exact weights and the `Float` pipeline of the driver
#guard (buildMatrixDict Fixes.all
  (lexRowsSpec (scale merged) (seeds.map (·.surf)) merged.featureSets (seeds.map (·.feature)))
  (matrixFile merged (scale merged)) exCharDef
  (unkRowsSpec (scale merged) model.config.dict.charProp.categories (useeds.map (·.e))
    (merged.featureSets.drop 3))).tag == "ok"
#guard (match exFloatFiles with
  | some f => (buildMatrixDict Fixes.all f.dict.lex f.dict.matrix exCharDef f.dict.unk).tag == "ok"
  | none => false)

/-! ### Each remaining side condition is needed -/

-- no seed row: crawdad refuses an empty key set
example : lexOfRows [] = none := by decide
#guard (buildMatrixDict Fixes.all [] (matrixFile merged (scale merged)) exCharDef
  (unkRowsSpec (scale merged) model.config.dict.charProp.categories (useeds.map (·.e))
    (merged.featureSets.drop 3))).tag == "err"
-- a surface containing U+0000 (`a\0`): the row is accepted by the csv reader, refused by the trie
#guard parseCsv true [97, 0, 44, 49, 44, 49, 44, 48, 44, 78, 10] == .ok [⟨[97, 0], 1, 1, 0, [78]⟩]
#guard lexOfRows (rowsOf [⟨[97, 0], 1, 1, 0, [78]⟩]) matches none
-- 65535 classes on a side: the header `65536 …` is not a `u16`
example : Text.parseU16 ((natDec 65536).map ch) = none := by decide
#guard (MatrixDef.parse (b "65536 2\n")).tag == "err"
-- a `char.def` that does not define the category of an unknown row
#guard unkOfRows exP (rowsOf [⟨b "KANJI", 3, 3, 0, [85]⟩]) matches none
-- a first surface starting with U+FEFF that needs no quotes: csv-core drops the BOM, the
-- surface read back is `x`, not `﻿x`
example : parseCsv true ([0xEF, 0xBB, 0xBF, 120] ++ rowTail 1 1 0 [78]) =
    .ok [⟨[120], 1, 1, 0, [78]⟩] := by decide

end Ex

end Vibrato.C14
