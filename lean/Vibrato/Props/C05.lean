/-
C05 — A compiled dictionary round-trips through write/read.

Model: `Vibrato/Model/Image.lean` (`writeImage` = bytes of `Dictionary::write`,
`writeReported` = its return value, `decodeImage` / `readImage` = `Dictionary::read`).
Helper lemmas: `Vibrato/Proofs/Framed.lean`, `Vibrato/Proofs/Image.lean`.

`WFsize D` holds for every value a Rust `DictionaryInner` can have (numbers within their
types, vectors that fit in memory, valid UTF-8 strings, scorer arrays of equal length,
trie blob = one serialized crawdad trie).
-/
import Vibrato.Proofs.Image
import Vibrato.Proofs.Sound
import Vibrato.Proofs.ImageExamples

namespace Vibrato.C05
open Vibrato.Bincode Vibrato.Image

/-- Reading what `write` produced gives back exactly the dictionary and leaves whatever
follows the image in the stream untouched. -/
theorem decode_encode (D : Dict) (hwf : WFsize D) (rest : List UInt8) :
    decodeImage (writeImage D ++ rest) = .ok D rest :=
  rt_decodeImage D hwf rest

example : decodeImage (writeImage Examples.dMatrix ++ [0xde, 0xad]) =
    .ok Examples.dMatrix [0xde, 0xad] := decode_encode _ Examples.wf_dMatrix _
example : decodeImage (writeImage Examples.dRaw ++ []) = .ok Examples.dRaw [] :=
  decode_encode _ Examples.wf_dRaw _
example : decodeImage (writeImage Examples.dDual ++ [7]) = .ok Examples.dDual [7] :=
  decode_encode _ Examples.wf_dDual _

/-- `Dictionary::read(write(D))` is `Ok` of a dictionary *equal* to `D`. -/
theorem reread_equal (D : Dict) (hwf : WFsize D) : readImage (writeImage D) = .ok D := by
  have := decode_encode D hwf []
  rw [List.append_nil] at this
  simp [readImage, this]

example : readImage (writeImage Examples.dDual) = .ok Examples.dDual :=
  reread_equal _ Examples.wf_dDual

/-- Trailing bytes after the image do not change the result. -/
theorem trailing_ignored (D : Dict) (hwf : WFsize D) (rest : List UInt8) :
    readImage (writeImage D ++ rest) = .ok D := by
  simp [readImage, decode_encode D hwf rest]

example : readImage (writeImage Examples.dRaw ++ [1, 2, 3]) = .ok Examples.dRaw :=
  trailing_ignored _ Examples.wf_dRaw _

/-- Writing the reloaded dictionary reproduces the same bytes. -/
theorem rewrite_same_bytes (D D' : Dict) (hwf : WFsize D)
    (h : readImage (writeImage D) = .ok D') : writeImage D' = writeImage D := by
  rw [reread_equal D hwf] at h
  cases h
  rfl

example : ∀ D', readImage (writeImage Examples.dMatrix) = .ok D' →
    writeImage D' = writeImage Examples.dMatrix :=
  fun D' h => rewrite_same_bytes _ D' Examples.wf_dMatrix h

/-- Any later operation (tokenize, load/clear user lexicon, map ids, write, …: any function
of the dictionary value) behaves identically on the reloaded dictionary. -/
theorem behaviour_congr {β : Type} (f : Dict → β) (D D' : Dict) (hwf : WFsize D)
    (h : readImage (writeImage D) = .ok D') : f D' = f D := by
  rw [reread_equal D hwf] at h
  cases h
  rfl

example : ∀ D', readImage (writeImage Examples.dRaw) = .ok D' →
    D'.unkHandler.entries.length = 2 :=
  fun D' h => behaviour_congr (fun d => d.unkHandler.entries.length) _ D' Examples.wf_dRaw h

/-- Whatever the reader accepts is a well-formed dictionary: the hypothesis `WFsize` of the
theorems above is automatically true for a dictionary obtained by reading *any* stream
(canonical image or not). -/
theorem accepted_is_wf (bs rest : List UInt8) (D : Dict) (h : decodeImage bs = .ok D rest) :
    WFsize D :=
  sound_decodeImage bs D rest h

/-- Reading any accepted stream, writing the result and reading it again gives the same
dictionary, and from then on the bytes are stable (`write ∘ read` is idempotent). -/
theorem reread_accepted (bs rest : List UInt8) (D : Dict) (h : decodeImage bs = .ok D rest) :
    readImage (writeImage D) = .ok D ∧
      ∀ D', readImage (writeImage D) = .ok D' → writeImage D' = writeImage D :=
  ⟨reread_equal D (accepted_is_wf bs rest D h),
   fun D' h' => rewrite_same_bytes D D' (accepted_is_wf bs rest D h) h'⟩

/-- A stream that is accepted although it is not a canonical image: the system trie blob
carries two bytes after the end of the serialized trie (the real reader drops them), and
the stream continues after the image. -/
def Examples.nonCanonical : List UInt8 :=
  writeImage { Examples.dMatrix with
    systemLexicon := { Examples.dMatrix.systemLexicon with
      map := { Examples.dMatrix.systemLexicon.map with trie := Examples.blob ++ [9, 9] } } } ++ [1]

set_option maxRecDepth 100000 in
theorem Examples.nonCanonical_accepted :
    decodeImage Examples.nonCanonical = .ok Examples.dMatrix [1] := by decide

example : WFsize Examples.dMatrix := accepted_is_wf _ _ _ Examples.nonCanonical_accepted
example : readImage (writeImage Examples.dMatrix) = .ok Examples.dMatrix :=
  (reread_accepted _ _ _ Examples.nonCanonical_accepted).1

/-- `write` reports exactly the number of bytes it emitted. -/
theorem write_len (D : Dict) : writeReported D = (writeImage D).length := by
  simp [writeReported, writeImage]

set_option maxRecDepth 20000 in
example : writeReported Examples.dMatrix = 498 ∧ (writeImage Examples.dMatrix).length = 498 := by
  decide

/-- The image depends only on the lane *values* of the 8-lane feature vectors, not on how a
build keeps them in memory (`[U31; 8]` or `__m256i`): the model of `U31x8` is the list of
lane values, and both builds' encoders write the 8-tuple of lanes, each as 4 LE bytes. -/
theorem lane_repr_irrelevant (l : List Nat) :
    encU31x8 l = l.flatMap (encLE 4) := rfl

example : encU31x8 [1, 2, 3, 4, 5, 6, 7, 0x7fffffff] =
    [1,0,0,0, 2,0,0,0, 3,0,0,0, 4,0,0,0, 5,0,0,0, 6,0,0,0, 7,0,0,0, 0xff,0xff,0xff,0x7f] := by
  decide

end Vibrato.C05
