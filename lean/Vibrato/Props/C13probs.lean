/-
C13 — Reordering statistics always yield a valid, frequency-ordered mapping: the statistics part
(`ConnIdCounter::compute_probs`) and the reorder → map round trip.

Model: `Vibrato/Model/Mapper.lean` (`computeProbs`, ids only); lemmas: `Proofs/MapperProbs.lean`.

FLOAT ASSUMPTION (trusted, checked by the differential): the code orders by
`cnt as f64 / sum as f64` with `partial_cmp(..).unwrap_or(Equal)`; the model orders by `cnt`.
For `sum < 2^53` the quotient is strictly monotone in `cnt`; for `sum = 0` all quotients are NaN,
every comparison is `Equal`, so the id decides — exactly what equal (zero) counts give.

`cntOf counts i` is the count of id `i`; `Before counts a b` says `a` must precede `b`:
`count b < count a`, or equal counts and `a < b`.
-/
import Vibrato.Proofs.MapperProbs

namespace Vibrato.Mapper
open Outcome

/-- `compute_probs` panics exactly when a counter is empty (`drain(..1)` on an empty vector: a
    connector with 0 left or right ids); otherwise both id lists are permutations of
    `[1, …, n-1]` (every id except 0 exactly once) ordered by non-increasing count with ties by
    ascending id.  Covers all-zero counters (no sentence processed) and `n = 1` (empty lists). -/
theorem probs_perm_sorted (lc rc : List Nat) :
    ((lc = [] ∨ rc = []) → computeProbs lc rc = .panic) ∧
    (lc ≠ [] → rc ≠ [] → ∃ ls rs, computeProbs lc rc = .ok (ls, rs) ∧
      ls.Perm (List.range' 1 (lc.length - 1)) ∧ ls.Pairwise (Before lc) ∧
      rs.Perm (List.range' 1 (rc.length - 1)) ∧ rs.Pairwise (Before rc)) := by
  constructor
  · intro h
    unfold computeProbs
    by_cases hl : lc = []
    · rw [(probsSide_spec lc).1 hl]; rfl
    · obtain ⟨ls, h1, _⟩ := (probsSide_spec lc).2 hl
      have hr : rc = [] := by rcases h with h | h; exact absurd h hl; exact h
      rw [h1, (probsSide_spec rc).1 hr]; rfl
  · intro hl hr
    obtain ⟨ls, h1, h2, h3⟩ := (probsSide_spec lc).2 hl
    obtain ⟨rs, h4, h5, h6⟩ := (probsSide_spec rc).2 hr
    exact ⟨ls, rs, by simp [computeProbs, h1, h4], h2, h3, h5, h6⟩

/-- The crate's own test (`mapper.rs: test_compute_probs`): counts `lid = [1,5,4]`, `rid = [3,0,7]`. -/
example : computeProbs [1, 5, 4] [3, 0, 7] = .ok ([1, 2], [2, 1]) := by decide
/-- all-zero counters (no sentence at all): ids in ascending order -/
example : computeProbs [0, 0, 0, 0] [0, 0, 0] = .ok ([1, 2, 3], [1, 2]) := by decide
/-- ties by ascending id, larger count first -/
example : computeProbs [9, 2, 7, 2, 7] [0, 0] = .ok ([2, 4, 1, 3], [1]) := by decide
/-- `n = 1`: only id 0, nothing to order -/
example : computeProbs [5] [5] = .ok ([], []) := by decide
/-- `n = 0`: `drain(..1)` panics -/
example : computeProbs [] [1, 2] = .panic ∧ computeProbs [1, 2] [] = .panic := by decide
example : Before [9, 2, 7, 2, 7] 2 4 ∧ Before [9, 2, 7, 2, 7] 4 1 ∧ Before [9, 2, 7, 2, 7] 1 3 := by
  decide

/-- The reorder output is always accepted by `ConnIdMapper::parse` (counter length = number of
    ids ≤ 65536, as `u16` ids force): both id columns parse, to tables of the counters' lengths. -/
theorem reorder_accepted_by_map (lc rc ls rs : List Nat)
    (hl : lc.length ≤ 65536) (hr : rc.length ≤ 65536)
    (h : computeProbs lc rc = .ok (ls, rs)) :
    ∃ m, Mapper.fromIter ls rs = .ok m ∧ m.left.length = lc.length ∧ m.right.length = rc.length := by
  unfold computeProbs at h
  rcases andThen_eq_ok.1 h with ⟨l, h1, h'⟩
  rcases andThen_eq_ok.1 h' with ⟨r, h2, h''⟩
  cases h''
  obtain ⟨a, ha, hia, hla⟩ := probsSide_accepted lc ls hl h1
  obtain ⟨b, hb, hib, hlb⟩ := probsSide_accepted rc rs hr h2
  refine ⟨⟨a, b⟩, by simp [Mapper.fromIter, ha, hb], ?_, ?_⟩
  · show a.length = lc.length
    rw [hia.1]; exact hla
  · show b.length = rc.length
    rw [hib.1]; exact hlb

example : (computeProbs [9, 2, 7, 2, 7] [0, 0, 3]).andThen (fun p => Mapper.fromIter p.1 p.2)
    = .ok ⟨[0, 3, 1, 4, 2], [0, 2, 1]⟩ := by decide

/-- Reorder → map round trip on the dictionary level: the statistics of a counter created for the
    dictionary's connector (`init_connid_counter`: lengths `num_left`, `num_right`) are a valid
    mapping for that dictionary, for the pinned and for the repaired `map_connection_ids_from_iter`;
    the mapped dictionary is the relabelled one (`MapPost`, hence C06 applies). -/
theorem reorder_then_map (score : List Nat → List Nat → Int) (fixed : Bool) (D : Dict) (hwf : D.WF)
    (lc rc ls rs : List Nat) (hl : lc.length = D.conn.numLeft) (hr : rc.length = D.conn.numRight)
    (h : computeProbs lc rc = .ok (ls, rs)) :
    ValidMaps ls rs D ∧
    ∃ σ D', D.mapIds fixed ls rs = .ok D' ∧ MapPost score fixed D σ D' := by
  have hb := hwf.conn.bounds
  unfold computeProbs at h
  rcases andThen_eq_ok.1 h with ⟨l, h1, h'⟩
  rcases andThen_eq_ok.1 h' with ⟨r, h2, h''⟩
  cases h''
  obtain ⟨a, ha, _, hla⟩ := probsSide_accepted lc ls (by omega) h1
  obtain ⟨b, hb', _, hlb⟩ := probsSide_accepted rc rs (by omega) h2
  have hv : ValidMaps ls rs D :=
    ⟨((parseMap_ok_iff ls a).1 ha).1, by omega, ((parseMap_ok_iff rs b).1 hb').1, by omega⟩
  obtain ⟨σ, D', _, _, _, _, hmap, hpost⟩ := mapIds_ok score fixed D hwf ls rs hv
  exact ⟨hv, σ, D', hmap, hpost⟩

/-- A 3 x 3 matrix dictionary (the example dictionary of `Props/C06map.lean`). -/
def exDict13 : Dict :=
  { sysParams := [⟨1, 2, 10⟩, ⟨2, 1, 20⟩]
    userParams := none
    conn := .matrix ⟨[0, 1, 2, 3, 4, 5, 6, 7, 8], 3, 3⟩
    unkParams := [⟨1, 1, 5⟩]
    stored := none }

example : exDict13.WF :=
  ⟨⟨by decide, by decide, by decide⟩, by decide, by decide, (by intro u hu; cases hu),
    (by intro s hs; cases hs)⟩

example : computeProbs [4, 1, 6] [2, 0, 9] = .ok ([2, 1], [2, 1]) ∧
    (exDict13.mapIds false [2, 1] [2, 1]).andThen (fun D => .ok D.sysParams)
      = .ok [⟨2, 1, 10⟩, ⟨1, 2, 20⟩] := by decide

end Vibrato.Mapper
