/-
C08 — A user lexicon adds candidates and can be replaced or cleared.

Property theorems only; helper lemmas are in
`Proofs/{UserLex,PermCost,Relabel,DictHistory,DictRun,DictIds}.lean`.
Model: `Model/Tokenizer.lean` (`candsAt` = `Tokenizer::add_lattice_edges`: user-lexicon
prefixes first, then system prefixes, then unknown words), `Model/Lattice.lean`,
`Model/Dict.lean` (`DictM.resetUser` = `Dictionary::reset_user_lexicon_from_reader`).
-/
import Vibrato.Proofs.UserLex
import Vibrato.Proofs.PermCost
import Vibrato.Proofs.DictIds
import Vibrato.Props.C06

namespace Vibrato

/-! ## User lexicon = extended system lexicon -/

/-- **user_equiv_extended_system.**  For every dictionary, user lexicon `U`, compiled sentence,
option setting and start position: the candidates offered with the user lexicon are, as a
multiset, the candidates offered by the dictionary whose SYSTEM lexicon is extended by the rows
of `U` (and that has no user lexicon) — after renaming the word identity of user row `i`
(`lex_type = User`, `word_id = i`) to system row `|sys| + i`.  End position, connection ids and
word cost of every candidate are untouched by the renaming; `has_matched` is the same on both
sides, so the unknown-word candidates coincide.  (The order differs: user words of all lengths
come first in the code, the extended trie yields them interleaved by length.)  The compiled
sentence is the same for both dictionaries (`user_sentence_eq`). -/
theorem user_equiv_extended_system (T : TokDict) (U : List LexEntry) (S : Sent) (o : TokOpts)
    (sw : Nat) :
    ((candsAt { T with user := some U } S o sw).map
        (Ren.ofWord (userAsSys T.sys.length)).cand).Perm
      (candsAt { T with sys := T.sys ++ U, user := none } S o sw) :=
  candsAt_user_perm T U S o sw

theorem user_sentence_eq (T : TokDict) (U : List LexEntry) (chars : List Nat) :
    compileSent { T with user := some U } chars =
      compileSent { T with sys := T.sys ++ U, user := none } chars := rfl

/-- What the renaming does to a candidate. -/
theorem userAsSys_cand_spec (n : Nat) (c : Cand) :
    let c' := (Ren.ofWord (userAsSys n)).cand c
    c'.endWord = c.endWord ∧ c'.leftId = c.leftId ∧ c'.rightId = c.rightId ∧
      c'.wordCost = c.wordCost ∧
      (c.lexType = 1 → c'.lexType = 0 ∧ c'.wordId = n + c.wordId) ∧
      (c.lexType ≠ 1 → c' = c) := by
  refine ⟨rfl, rfl, rfl, rfl, ?_, ofWord_cand_of_ne n c⟩
  intro h
  simp [Ren.cand, Ren.ofWord, userAsSys, h]

/-- **System words remain available** when a user lexicon is loaded. -/
theorem system_words_remain (T : TokDict) (U : List LexEntry) (S : Sent) (o : TokOpts) (sw : Nat)
    (c : Cand) (hc : c ∈ lexMatches T.sys 0 (S.chars.drop sw) sw) :
    c ∈ candsAt { T with user := some U } S o sw := by
  unfold candsAt
  simp only [List.mem_append]
  exact Or.inl (Or.inr hc)

/-- and the user words are offered as user-lexicon candidates (`lex_type = 1`) -/
theorem user_words_offered (T : TokDict) (U : List LexEntry) (S : Sent) (o : TokOpts) (sw : Nat)
    (c : Cand) (hc : c ∈ lexMatches U 1 (S.chars.drop sw) sw) :
    c ∈ candsAt { T with user := some U } S o sw ∧ c.lexType = 1 := by
  refine ⟨?_, (lexMatches_spec _ _ _ _ c hc).2.2.1⟩
  unfold candsAt
  simp only [List.mem_append]
  exact Or.inl (Or.inl hc)

/-- The same at the level of `DictM`: the twin dictionary with the extended system lexicon. -/
def DictM.extendSys (D : DictM) (U : LexM) : DictM :=
  { D with sys := ⟨D.sys.entries ++ U.entries, D.sys.features ++ U.features⟩, user := none }

theorem extendSys_tokDict (D : DictM) (U : LexM) :
    (D.extendSys U).tokDict =
      { D.tokDict with sys := D.tokDict.sys ++ U.entries, user := none } := rfl

/-- the renamed word has the same feature string -/
theorem extendSys_feature (D : DictM) (U : LexM) (hlen : D.sys.features.length = D.sys.entries.length)
    (i : Nat) :
    (D.extendSys U).feature 0 (D.sys.entries.length + i) =
      ({ D with user := some U } : DictM).feature 1 i := by
  simp only [DictM.feature, DictM.extendSys, Option.bind_some]
  rw [List.getElem?_append_right (by omega)]
  congr 1
  omega

/-! ## Viterbi minima do not depend on the insertion order -/

/-- **perm_min_cost.**  If `E` and `E'` have the same length, connection costs and skips, and at
every start position the candidate lists are permutations of each other, then (candidates
ending after their start and inside the sentence) at every boundary the stored nodes are the
same multiset up to the back pointer `min_idx`, the EOS nodes agree in everything but `min_idx`;
in particular the optimal cost `eos.min_cost` is the same.  No cost bound is needed. -/
theorem perm_min_cost (E E' : LatEnv) (hE : PermEnv E E') (hf : CandsForward E) (b : Nat) :
    PermReads (buildLattice E b).ends (buildLattice E' b).ends ∧
      (buildLattice E b).eos.strip = (buildLattice E' b).eos.strip ∧
      (buildLattice E b).eos.minCost = (buildLattice E' b).eos.minCost := by
  obtain ⟨h1, h2⟩ := buildLattice_perm hE hf b
  have h3 : (buildLattice E b).eos.strip.minCost = (buildLattice E' b).eos.strip.minCost := by rw [h2]
  exact ⟨h1, h2, h3⟩

/-- Under the hypotheses of C02 (`EnvOK`, `Covered`) both tokenizations succeed and the reported
segmentations have the same total cost, which is the minimum over all paths of either lattice. -/
theorem perm_total_cost_eq (E E' : LatEnv) (C W : Int) (hE : PermEnv E E') (hok : EnvOK E C W)
    (hcov : Covered E) (b : Nat) :
    ∃ π π', topNodes (buildLattice E b) = some π ∧ topNodes (buildLattice E' b) = some π' ∧
      totalCost E.conn π = totalCost E'.conn π' ∧
      (∀ ρ, RPath (buildLattice E b).ends ρ (buildLattice E b).eos.startNode →
        totalCost E.conn π ≤ totalCost E.conn ρ) ∧
      (∀ ρ, RPath (buildLattice E' b).ends ρ (buildLattice E' b).eos.startNode →
        totalCost E'.conn π' ≤ totalCost E'.conn ρ) := by
  obtain ⟨π, h1, _, h3, h4⟩ := viterbi_optimal E C W hok hcov b
  obtain ⟨π', h1', _, h3', h4'⟩ := viterbi_optimal E' C W (hE.envOK hok) (hE.covered hcov) b
  refine ⟨π, π', h1, h1', ?_, h4, h4'⟩
  rw [← h3, ← h3']
  exact (perm_min_cost E E' hE hok.candsForward b).2.2

/-- reversing every candidate list gives a permuted environment -/
theorem permEnv_reverse (E : LatEnv) :
    PermEnv E { E with cands := fun sw => (E.cands sw).reverse } :=
  ⟨rfl, rfl, rfl, fun _ => (List.reverse_perm _).symm⟩

/-- Non-vacuity: the environment of `Props/C02` and its candidate-reversed twin. -/
example : PermEnv exampleEnv { exampleEnv with cands := fun sw => (exampleEnv.cands sw).reverse } :=
  permEnv_reverse exampleEnv

/-- two homographs with equal cost at position 0 (a tie), one word at position 1 -/
def tieEnv : LatEnv :=
  { len := 2, conn := fun _ _ => 0, skip := fun _ => 0
    cands := fun sw =>
      if sw = 0 then [⟨1, 0, 0, 1, 1, 2⟩, ⟨1, 1, 0, 2, 2, 2⟩]
      else if sw = 1 then [⟨2, 2, 0, 1, 1, 1⟩] else [] }

example : PermEnv tieEnv { tieEnv with cands := fun sw => (tieEnv.cands sw).reverse } ∧
    CandsForward tieEnv := by
  refine ⟨permEnv_reverse tieEnv, ?_⟩
  intro sw hsw c hc
  have : sw = 0 ∨ sw = 1 := by simp only [tieEnv] at hsw; omega
  rcases this with rfl | rfl
  · simp only [tieEnv, if_true, List.mem_cons, List.not_mem_nil, or_false] at hc
    rcases hc with rfl | rfl <;> decide
  · simp [tieEnv] at hc
    subst hc; decide

-- same optimal cost …
#guard (buildLattice tieEnv).eos.minCost == 3
#guard (buildLattice { tieEnv with cands := fun sw => (tieEnv.cands sw).reverse }).eos.minCost == 3
-- … but under a tie the REPORTED word depends on the insertion order (last minimum wins):
#guard (tokensOf (buildLattice tieEnv)).map (·.map (·.node.wordId)) == some [1, 2]
#guard (tokensOf (buildLattice { tieEnv with cands := fun sw => (tieEnv.cands sw).reverse })).map
    (·.map (·.node.wordId)) == some [0, 2]

/-! ## Optimal cost with a user lexicon -/

/-- **user_optimal_cost_eq (cost part).**  For every dictionary, user lexicon, option setting and
sentence the optimal cost found with the user lexicon equals the optimal cost found with the
extended system lexicon. -/
theorem user_eos_cost_eq (T : TokDict) (U : List LexEntry) (o : TokOpts) (chars : List Nat) (b : Nat) :
    let T1 : TokDict := { T with user := some U }
    let T2 : TokDict := { T with sys := T.sys ++ U, user := none }
    (buildLattice (latEnvOf T1 (compileSent T1 chars) o) b).eos.minCost =
      (buildLattice (latEnvOf T2 (compileSent T2 chars) o) b).eos.minCost := by
  intro T1 T2
  let ρ := Ren.ofWord (userAsSys T.sys.length)
  let E1 := latEnvOf T1 (compileSent T1 chars) o
  let E1ρ : LatEnv := { E1 with cands := fun sw => (E1.cands sw).map ρ.cand }
  have hren : RenOK ρ E1 E1ρ :=
    ⟨rfl, fun _ _ => rfl, fun _ _ => rfl, rfl, rfl, fun _ _ _ _ => rfl⟩
  have hperm : PermEnv E1ρ (latEnvOf T2 (compileSent T2 chars) o) :=
    ⟨rfl, rfl, rfl, fun sw => candsAt_user_perm T U (compileSent T1 chars) o sw⟩
  have hfwd : CandsForward E1ρ := by
    intro sw hsw c hc
    have hlen : E1ρ.len = chars.length := by simp [E1ρ, E1, latEnvOf, compileSent]
    rw [hlen] at hsw ⊢
    simp only [E1ρ, List.mem_map] at hc
    obtain ⟨c0, hc0, rfl⟩ := hc
    exact ⟨(candsAt_spec T1 chars o sw hsw c0 hc0).1, (candsAt_spec T1 chars o sw hsw c0 hc0).2.1⟩
  have h1 := (buildLattice_ren hren b).2
  have h2 := (perm_min_cost _ _ hperm hfwd b).2.2
  show (buildLattice E1 b).eos.minCost = _
  rw [← h1]
  exact h2

/-- **user_optimal_cost_eq.**  With bounded costs and an unknown entry for every character
category (hypotheses of C01/C02) both tokenizations succeed, and the reported segmentations have
the same total cost — the minimum over all paths of either lattice. -/
theorem user_optimal_cost_eq (T : TokDict) (U : List LexEntry) (C W : Int)
    (hD : DictOK { T with user := some U } C W) (hcov : UnkCovered T) (o : TokOpts)
    (chars : List Nat) (hb : ((chars.length : Int) + 1) * (C + W) ≤ MAX_COST) :
    let T1 : TokDict := { T with user := some U }
    let T2 : TokDict := { T with sys := T.sys ++ U, user := none }
    ∃ π₁ π₂, topNodes (buildLattice (latEnvOf T1 (compileSent T1 chars) o)) = some π₁ ∧
      topNodes (buildLattice (latEnvOf T2 (compileSent T2 chars) o)) = some π₂ ∧
      totalCost T.conn π₁ = totalCost T.conn π₂ := by
  intro T1 T2
  have hD2 : DictOK T2 C W := by
    refine ⟨hD.conn_le, ?_, fun u hu => (by cases hu), hD.unk_cost, hD.C_nonneg, hD.W_nonneg⟩
    intro e he
    simp only [T2, List.mem_append] at he
    rcases he with he | he
    · exact hD.sys_cost e he
    · exact hD.user_cost U rfl e he
  obtain ⟨π₁, h1, _, h3, _⟩ := viterbi_optimal _ C W (latEnvOf_envOK T1 C W hD chars o hb)
    (latEnvOf_covered T1 hcov chars o) 0
  obtain ⟨π₂, h1', _, h3', _⟩ := viterbi_optimal _ C W (latEnvOf_envOK T2 C W hD2 chars o hb)
    (latEnvOf_covered T2 hcov chars o) 0
  refine ⟨π₁, π₂, h1, h1', ?_⟩
  have := user_eos_cost_eq T U o chars 0
  simp only at this
  rw [h3, h3'] at this
  exact this

/-! ## Replace, clear -/

/-- a history of `reset_user_lexicon_from_reader` calls -/
def DictM.runResets (fx : Fixes) : DictM → List (Option (List UInt8)) → Outcome DictM
  | D, [] => .ok D
  | D, c :: cs => (D.resetUser fx c).bind fun D1 => DictM.runResets fx D1 cs

/-- **reset_last_wins.**  After any history of successful `reset_user_lexicon` calls (with
`Some(csv)` or `None`, on the pinned or repaired tree, on a dictionary with or without stored
mapper) the dictionary is exactly what the LAST call alone would have produced from the original
dictionary: all fields but `user` are untouched, and `user` is the last lexicon (translated
through the stored mapper if any) or `None`. -/
theorem reset_last_wins (fx : Fixes) (D D' : DictM) (cs : List (Option (List UInt8)))
    (last : Option (List UInt8)) (h : D.runResets fx (cs ++ [last]) = .ok D') :
    D.resetUser fx last = .ok D' := by
  induction cs generalizing D with
  | nil =>
    simp only [List.nil_append, DictM.runResets] at h
    cases hr : D.resetUser fx last with
    | ok D1 => rw [hr] at h; exact h
    | err => rw [hr] at h; cases h
    | panic => rw [hr] at h; cases h
  | cons c cs ih =>
    simp only [List.cons_append, DictM.runResets] at h
    cases hr : D.resetUser fx c with
    | ok D1 =>
      rw [hr] at h
      have := ih D1 h
      rw [resetUser_shape hr, resetUser_user_irrel] at this
      exact this
    | err => rw [hr] at h; cases h
    | panic => rw [hr] at h; cases h

/-- **`None` restores the dictionary exactly**: loading any user lexicon into a dictionary that
has none and then clearing it gives back the dictionary itself. -/
theorem reset_none_restores (fx : Fixes) (D D1 : DictM) (csv : Option (List UInt8))
    (hu : D.user = none) (h : D.resetUser fx csv = .ok D1) : D1.resetUser fx none = .ok D := by
  rw [resetUser_none, resetUser_shape h]
  cases D
  simp_all

/-- the same as one equation -/
theorem reset_some_then_none (fx : Fixes) (D D1 : DictM) (csv : List UInt8) (hu : D.user = none)
    (h : D.resetUser fx (some csv) = .ok D1) :
    (D.resetUser fx (some csv)).bind (·.resetUser fx none) = .ok D := by
  rw [h]; exact reset_none_restores fx D D1 (some csv) hu h

/-! ## Verification of the ids -/

/-- **verify_in_range.**  An accepted user lexicon has all its (translated) ids inside the
connector, the dictionary's other fields are unchanged, and a dictionary whose ids were in range
stays so (`IdsOK`) — hence (`cands_in_range`) no candidate ever addresses a cell outside the cost
table. -/
theorem verify_in_range (fx : Fixes) (D D' : DictM) (csv : List UInt8)
    (h : D.resetUser fx (some csv) = .ok D') :
    ∃ u', D' = { D with user := some u' } ∧ u'.InRange D.numLeft D.numRight ∧
      (D.IdsOK → D'.IdsOK) := by
  obtain ⟨_, u', _, _, hin, rfl⟩ := resetUser_some_ok h
  exact ⟨u', rfl, hin, fun hids => resetUser_idsOK hids h⟩

/-- Every candidate of a dictionary with ids in range addresses a cell inside the
`numRight × numLeft` cost table (for a table of that size). -/
theorem cands_in_range (D : DictM) (h : D.IdsOK) (hconn : D.conn.length = D.numRight * D.numLeft)
    (chars : List Nat) (o : TokOpts) (sw : Nat) (hsw : sw < chars.length) (c : Cand)
    (hc : c ∈ candsAt D.tokDict (compileSent D.tokDict chars) o sw) :
    c.leftId < D.numLeft ∧ c.rightId < D.numRight ∧
      (∀ r, r < D.numRight → r * D.numLeft + c.leftId < D.conn.length) ∧
      (∀ l, l < D.numLeft → c.rightId * D.numLeft + l < D.conn.length) := by
  obtain ⟨h1, h2⟩ := idsOK_cands h chars o sw hsw c hc
  rw [hconn]
  exact ⟨h1, h2, fun r hr => cost_index_lt hr h1, fun l hl => cost_index_lt h2 hl⟩

/-- **Rejection, never a panic** (repaired order of checks, `f2b = true`; stored mapper tables of
the connector's size, which `mapIds` guarantees — `mapIds_mapperOK`): with `u` the parsed CSV,
malformed CSV ⇒ `err`; an id outside the connector ⇒ `err`; otherwise the call succeeds.  The only
way to a panic is a panic of the CSV parser itself, which does not exist on the repaired tree
(`LexCsv.parseCsv_ne_panic`, C10/C11; hypothesis `hcsv`). -/
theorem reset_rejects (fx : Fixes) (hf : fx.f2b = true) (D : DictM) (hm : D.MapperOK)
    (csv : List UInt8) (hcsv : LexCsv.parseCsv fx.f8 csv ≠ .panic) :
    D.resetUser fx (some csv) ≠ .panic ∧
    (userOfCsv fx csv = .err → D.resetUser fx (some csv) = .err) ∧
    (∀ u, userOfCsv fx csv = .ok u → ¬ u.InRange D.numLeft D.numRight →
      D.resetUser fx (some csv) = .err) ∧
    (∀ u, userOfCsv fx csv = .ok u → u.InRange D.numLeft D.numRight →
      ∃ D', D.resetUser fx (some csv) = .ok D') := by
  obtain ⟨_, h2, h3, h4⟩ := resetUser_outcomes hf D hm csv
  refine ⟨?_, h2, h3, h4⟩
  have hnp : userOfCsv fx csv ≠ .panic := by
    unfold userOfCsv parseLexCsv
    cases hp : LexCsv.parseCsv fx.f8 csv with
    | panic => exact absurd hp hcsv
    | err => simp [Outcome.bind]
    | ok es =>
      simp only [Outcome.bind]
      cases lexOfRows _ <;> simp [Outcome.ofOption]
  cases hu : userOfCsv fx csv with
  | panic => exact absurd hu hnp
  | err => rw [h2 hu]; simp
  | ok u =>
    by_cases hr : u.InRange D.numLeft D.numRight
    · obtain ⟨D', hD'⟩ := h4 u hu hr
      rw [hD']; simp
    · rw [h3 u hu hr]; simp

/-! ## Non-vacuity -/

/-- `bc,1,2,-7,U\n` and `c,2,1,1,V\n` -/
def c08Csv1 : List UInt8 := [98, 99, 44, 49, 44, 50, 44, 45, 55, 44, 85, 10]
def c08Csv2 : List UInt8 := [99, 44, 50, 44, 49, 44, 49, 44, 86, 10]
/-- `bc,3,2,-7,U\n` (left id 3 outside the 3 × 3 connector) and `bc,1\n` (malformed) -/
def c08CsvBadId : List UInt8 := [98, 99, 44, 51, 44, 50, 44, 45, 55, 44, 85, 10]
def c08CsvMalformed : List UInt8 := [98, 99, 44, 49, 10]

/-- the history "load, load another, clear, load the first again" succeeds on `c06Dict` -/
example : (match c06Dict.runResets Fixes.all ([some c08Csv1, some c08Csv2, none] ++ [some c08Csv1]) with
    | .ok _ => true | _ => false) = true := by decide

example : c06Dict.user = none ∧
    (match c06Dict.resetUser Fixes.all (some c08Csv1) with | .ok _ => true | _ => false) = true := by
  decide

/-- rejected with `err`: id out of range, malformed row; also after a mapping -/
example :
    (match c06Dict.resetUser Fixes.all (some c08CsvBadId) with | .err => true | _ => false) = true ∧
    (match c06Dict.resetUser Fixes.all (some c08CsvMalformed) with | .err => true | _ => false) = true ∧
    (match (c06Dict.mapIds Fixes.all [2, 1] [1, 2]).bind (·.resetUser Fixes.all (some c08CsvBadId)) with
      | .err => true | _ => false) = true := by
  decide

/-- on the pinned tree the out-of-range id after a mapping panics (translation before the check) -/
example :
    (match (c06Dict.mapIds Fixes.pinned [2, 1] [1, 2]).bind (·.resetUser Fixes.pinned (some c08CsvBadId)) with
      | .panic => true | _ => false) = true := by
  decide

theorem c06Dict_mapperOK : c06Dict.MapperOK := by
  intro ml mr h; cases h

/-- Non-vacuity of `reset_rejects` and `cands_in_range`: the hypotheses hold for `c06Dict`,
`Fixes.all` and each of the CSVs above. -/
example : Fixes.all.f2b = true ∧ c06Dict.MapperOK ∧ c06Dict.IdsOK ∧
    c06Dict.conn.length = c06Dict.numRight * c06Dict.numLeft ∧
    LexCsv.parseCsv Fixes.all.f8 c08Csv1 ≠ .panic ∧ LexCsv.parseCsv Fixes.all.f8 c08CsvBadId ≠ .panic ∧
    LexCsv.parseCsv Fixes.all.f8 c08CsvMalformed ≠ .panic :=
  ⟨rfl, c06Dict_mapperOK, c06Dict_idsOK, by decide, by decide, by decide, by decide⟩

private def showToks8 (r : Option (List Tok)) :=
  r.map (·.map fun t => (t.startWord, t.endWord, t.node.lexType, t.node.wordId, t.node.leftId,
    t.node.rightId, t.node.wordCost, t.node.minCost))

-- with the user word `bc`: reported as a user-lexicon token (lex type 1, word 0) …
#guard (match c06Dict.resetUser Fixes.all (some c08Csv1) with
    | .ok D => showToks8 (tokenize D.tokDict ⟨none, none⟩ [97, 98, 99]) | _ => none)
  == some [(0, 1, 0, 0, 1, 1, 5, 6), (1, 3, 1, 0, 1, 2, -7, 3)]
-- … and with the extended system lexicon: the same path, word 3 of the system lexicon
#guard (match userOfCsv Fixes.all c08Csv1 with
    | .ok u => showToks8 (tokenize (c06Dict.extendSys u).tokDict ⟨none, none⟩ [97, 98, 99]) | _ => none)
  == some [(0, 1, 0, 0, 1, 1, 5, 6), (1, 3, 0, 3, 1, 2, -7, 3)]
-- cleared again: the behaviour of the original dictionary
#guard (match (c06Dict.resetUser Fixes.all (some c08Csv1)).bind (·.resetUser Fixes.all none) with
    | .ok D => showToks8 (tokenize D.tokDict ⟨none, none⟩ [97, 98, 99]) | _ => none)
  == showToks8 (tokenize c06Dict.tokDict ⟨none, none⟩ [97, 98, 99])

theorem getD_le_of_all (l : List Int) (C : Int) (h : ∀ x ∈ l, x ≤ C) (h0 : 0 ≤ C) (i : Nat) :
    l.getD i 0 ≤ C := by
  rw [List.getD_eq_getElem?_getD]
  cases hi : l[i]? with
  | none => exact h0
  | some x => exact h x (List.mem_of_getElem? hi)

/-- Non-vacuity of `user_optimal_cost_eq`: `c06Dict` with the user word `bc`. -/
example :
    DictOK { c06Dict.tokDict with user := some [⟨[98, 99], ⟨1, 2, -7⟩⟩] } 8 20 ∧
      UnkCovered c06Dict.tokDict := by
  refine ⟨⟨?_, ?_, ?_, ?_, by decide, by decide⟩, ?_⟩
  · intro r l
    exact getD_le_of_all _ 8 (by decide) (by decide) _
  · intro e he
    simp only [DictM.tokDict, c06Dict, List.mem_cons, List.not_mem_nil, or_false] at he
    rcases he with rfl | rfl | rfl <;> decide
  · intro u hu e he
    simp only [Option.some.injEq] at hu
    subst hu
    simp only [List.mem_cons, List.not_mem_nil, or_false] at he
    subst he; decide
  · intro b p hp
    obtain ⟨e, he, hep⟩ := unkOf_mem c06Dict b p hp
    simp only [c06Dict, List.mem_cons, List.not_mem_nil, or_false] at he
    subst he; rw [← hep]; decide
  · intro c
    have : (c06Dict.tokDict.charInfo c).baseId = 0 := by
      simp only [DictM.tokDict, CharProp.charInfo, CharProp.entry, c06Dict]
      split <;> rfl
    rw [this]
    decide

end Vibrato
