/-
C06 / C13 — the tie between the two models of connection-id mapping, as theorems.

Two Lean models of `Dictionary::map_connection_ids_from_iter` /
`Dictionary::reset_user_lexicon_from_reader` exist:

* `DictM` (`Model/Dict.lean`): the model the differential driver compares with the Rust code on
  every case (`Driver/Tok.lean: runDOps`);
* `Vibrato.Mapper.Dict` (`Model/Mapper.lean`): the model the theorems of `Props/C06map.lean` and
  `Props/C13probs.lean` are about (`ConnIdMapper::parse`, the forward-write loops of the
  connectors, `compose`, `verify`).

Until now the two were only compared at run time (`Driver/Tok.lean: mapperAgree`, flag
`MAPPERMODEL`).  This file states the refinement (helper lemmas: `Proofs/MapperRefine.lean`):

 §1  the two `ConnIdMapper::parse` models agree;
 §2  commuting squares for every public operation, every flag setting with `f2 = f3`, lifted to
     arbitrary histories (`DictM.run`, and C10's `DictM.applyOps`);
 §3  the C06map / C13probs theorems restated for `DictM`;
 §4  `mapperAgree` always answers `some true` (for `f2 = f3`, `f2b = true`), and concrete
     witnesses that it answers `some false` for the other flag settings;
 §5  non-vacuity on a 4 x 4 dictionary with two NON-COMMUTING mappings and a user lexicon.

What the refinement does NOT cover: the abstraction always produces a *matrix* connector
(`Conn.matrix`): `DictM` stores the connection table, not the raw / dual layouts, so
`raw_cost_map` / `dual_cost_map` of `Props/C06map.lean` stay theorems about the abstract model
only (raw and dual connectors are tied to the code by `Model/RawConnector.lean`,
`Model/DictBigram.lean` and their own streams).
-/
import Vibrato.Proofs.MapperRefine
import Vibrato.Props.C06map
import Vibrato.Props.C06
import Vibrato.Props.C10
import Vibrato.Props.C13probs
import Vibrato.Driver.Tok

namespace Vibrato.Refine

open Vibrato

/-! ## 1. `ConnIdMapper::parse` -/

/-- **The two parsers agree** (all inputs): `Vibrato.parseMap m = some σ` iff
`Mapper.parseMap m = ok σ`; `none` iff `err`; the abstract one never panics. -/
theorem parse_models_agree (m : List Nat) :
    Mapper.parseMap m = (match Vibrato.parseMap m with | some σ => .ok σ | none => .err) :=
  parseMap_refines m

/-- `Props/C06map.lean: parse_ok_iff` for the parser of `DictM`: it accepts exactly the
permutations of `1..|m|` (at most 65535 items) and returns the inverse placement. -/
theorem dictM_parse_ok_iff (m σ : List Nat) :
    Vibrato.parseMap m = some σ ↔
      (m.Perm (List.range' 1 m.length) ∧ m.length ≤ 65535) ∧
      (σ.length = m.length + 1 ∧ σ[0]? = some 0 ∧
        ∀ i (h : i < m.length), σ[m[i]]? = some (i + 1)) := by
  rw [← Mapper.parse_ok_iff, parseMap_refines]
  cases Vibrato.parseMap m <;> simp

/-- `Props/C06map.lean: parse_err_iff` for the parser of `DictM`. -/
theorem dictM_parse_none_iff (m : List Nat) :
    Vibrato.parseMap m = none ↔ ¬ (m.Perm (List.range' 1 m.length) ∧ m.length ≤ 65535) := by
  rw [← Mapper.parse_err_iff, parseMap_refines]
  cases Vibrato.parseMap m <;> simp

example : Vibrato.parseMap [2, 3, 4, 1] = some [0, 4, 1, 2, 3] ∧
    Mapper.parseMap [2, 3, 4, 1] = .ok [0, 4, 1, 2, 3] ∧
    Vibrato.parseMap [2, 2, 1] = none ∧ Mapper.parseMap [2, 2, 1] = .err := by decide

/-! ## 2. The refinement -/

/-- **Commuting square, `map_connection_ids_from_iter`** (well-formed dictionary, any flag
setting with `f2 = f3`, any id sequences): same kind of outcome, and on `ok` the abstraction of
the concrete result is the abstract result. -/
theorem mapIds_commutes (fx : Fixes) (hf : fx.f2 = fx.f3) {D : DictM} (hD : DictWF D)
    (lmap rmap : List Nat) :
    absOut (D.mapIds fx lmap rmap) = (absDict D).mapIds fx.f3 lmap rmap :=
  mapIds_refines fx hf D (fun _ => hD.mapper_ok) lmap rmap

/-- The same for EVERY flag setting (also `f2 ≠ f3`), against the two-flag form
`absMapIds2 f2 f3` of the abstract step (`absMapIds2 b b = Dict.mapIds b`). -/
theorem mapIds_commutes_all_flags (fx : Fixes) {D : DictM} (hD : DictWF D) (lmap rmap : List Nat) :
    absOut (D.mapIds fx lmap rmap) = absMapIds2 fx.f2 fx.f3 (absDict D) lmap rmap :=
  mapIds_refines2 fx D (fun _ => hD.mapper_ok) lmap rmap

/-- **Commuting square, `reset_user_lexicon_from_reader`** (no hypothesis). -/
theorem resetUser_commutes (fx : Fixes) (D : DictM) (csv : Option (List UInt8)) :
    absOut (D.resetUser fx csv) = absReset fx (absDict D) csv :=
  resetUser_refines fx D csv

/-- **Any history** of the public operations: the outcome of the concrete run, abstracted, is
the outcome of the abstract run on the abstraction -- an `err` / `panic` happens at the same
operation and is of the same kind, and the final states are related. -/
theorem history_commutes (fx : Fixes) (hf : fx.f2 = fx.f3) {D : DictM} (hD : DictWF D)
    (ops : List DOp) : absOut (D.run fx ops) = absRun fx (absDict D) ops :=
  run_refines fx hf ops D hD.mapper_ok

/-- A successful history is a successful history of the abstract model's own `Dict.run`. -/
theorem history_ok_commutes (fx : Fixes) (hf : fx.f2 = fx.f3) {D D' : DictM} (hD : DictWF D)
    (ops : List DOp) (h : D.run fx ops = .ok D') :
    (absDict D).run fx.f3 (ops.map (toOp fx)) = .ok (absDict D') :=
  run_ok_refines fx hf hD.mapper_ok ops h

/-- C10's operation type as `DOp`. -/
def ofBuildOp : BuildOp → DOp
  | .resetUser csv => .reset csv
  | .mapIds l r => .map l r

theorem applyOps_eq_run (D : DictM) (ops : List BuildOp) :
    D.applyOps ops = D.run Fixes.all (ops.map ofBuildOp) := by
  induction ops generalizing D with
  | nil => rfl
  | cons op ops ih =>
    have hs : D.applyOp op = D.step Fixes.all (ofBuildOp op) := by cases op <;> rfl
    simp only [DictM.applyOps, List.map_cons, DictM.run, hs]
    cases D.step Fixes.all (ofBuildOp op) with
    | ok D1 => exact ih D1
    | err => rfl
    | panic => rfl

/-- **C10's `applyOps`** (repaired tree) refines the abstract model. -/
theorem applyOps_commutes {D : DictM} (hD : DictWF D) (ops : List BuildOp) :
    absOut (D.applyOps ops) = absRun Fixes.all (absDict D) (ops.map ofBuildOp) := by
  rw [applyOps_eq_run]
  exact history_commutes Fixes.all rfl hD _

/-- The hypothesis on the stored mapper cannot be dropped: with a stored mapper that names an id
outside the connector, `ConnIdMapper::compose` indexes out of range -- the abstract model
panics (as the Rust code does), `DictM.mapIds` reads the default 0 and answers `ok`.  Such a
state is not reachable through the builders (`DictWF.mapper_ok`). -/
theorem refinement_needs_mapperOK :
    let D : DictM := { sys := ⟨[⟨[97], ⟨1, 1, 0⟩⟩], [[]]⟩, user := none, numRight := 2, numLeft := 2,
                       conn := [0, 0, 0, 0], mapper := some ([0, 5], [0, 1]),
                       chars := default, unk := [] }
    (absDict D).mapIds true [1] [1] = .panic ∧
    (match D.mapIds Fixes.all [1] [1] with | .ok D' => D'.mapper | _ => none)
      = some ([0, 0], [0, 1]) := by
  decide

/-! ## 3. The C06map / C13probs theorems for `DictM` -/

/-- the stored tables are injective (true for every state reachable from a built dictionary;
`DictWF` only records sizes and ranges) -/
def StoredPerm (D : DictM) : Prop := ∀ ml mr, D.mapper = some (ml, mr) → ml.Nodup ∧ mr.Nodup

theorem lexWF_verify {nl nr : Nat} {L : LexM} (h : LexWF nl nr L) :
    Mapper.verifyParams nl nr (absEntries L.entries) = true := by
  rw [verify_entries, paramsInRange_idsLt]
  intro p hp
  obtain ⟨e, he, rfl⟩ := List.mem_map.1 hp
  exact ⟨(h.1 e he).1, (h.1 e he).2.1⟩

/-- The abstraction of a well-formed dictionary is well-formed in the sense of the abstract
model (`Proofs/Mapper.lean: Dict.WF`). -/
theorem absDict_wf {D : DictM} (hD : DictWF D) (hp : StoredPerm D) (hL : D.numLeft ≤ 65536)
    (hR : D.numRight ≤ 65536) : (absDict D).WF := by
  refine ⟨⟨absMatrix_wf _ _ _, hL, hR⟩, lexWF_verify hD.sys_ok, ?_, ?_, ?_⟩
  · show Mapper.verifyParams D.numLeft D.numRight (absUnk D.unk) = true
    have : absUnk D.unk = (D.unk.map (·.param)).map absParam := by
      simp [absUnk, List.map_map, Function.comp_def]
    rw [this, verifyParams_refines, paramsInRange_idsLt]
    intro p hp'
    obtain ⟨e, he, rfl⟩ := List.mem_map.1 hp'
    exact ⟨(hD.unk_ok e he).1.1, (hD.unk_ok e he).1.2.1⟩
  · intro x hx
    have hx' : D.user.map (fun u => absEntries u.entries) = some x := hx
    cases hu : D.user with
    | none => rw [hu] at hx'; cases hx'
    | some u =>
      rw [hu] at hx'
      simp only [Option.map_some, Option.some.injEq] at hx'
      subst hx'
      exact lexWF_verify (hD.user_ok u hu)
  · intro s hs
    have hs' : D.mapper.map absMapper = some s := hs
    cases hmp : D.mapper with
    | none => rw [hmp] at hs'; cases hs'
    | some m =>
      obtain ⟨ml, mr⟩ := m
      rw [hmp] at hs'
      simp only [Option.map_some, Option.some.injEq] at hs'
      subst hs'
      obtain ⟨h1, h2, h3, h4⟩ := hD.mapper_ok ml mr hmp
      obtain ⟨n1, n2⟩ := hp ml mr hmp
      exact ⟨h1, h2, ⟨n1, fun x hx => (by show x < ml.length; rw [h1]; exact h3 x hx)⟩,
        ⟨n2, fun x hx => (by show x < mr.length; rw [h2]; exact h4 x hx)⟩⟩

theorem storedPerm_of_none {D : DictM} (h : D.mapper = none) : StoredPerm D := by
  intro ml mr hm; rw [h] at hm; cases hm

theorem absOut_ok {x : Outcome DictM} {M : Mapper.Dict} (h : absOut x = .ok M) :
    ∃ D', x = .ok D' ∧ absDict D' = M := by
  cases x with
  | ok D' => exact ⟨D', rfl, by simpa [absOut] using h⟩
  | err => cases h
  | panic => cases h

theorem absOut_err {x : Outcome DictM} (h : absOut x = .err) : x = .err := by
  cases x <;> first | rfl | cases h

theorem absOut_panic {x : Outcome DictM} (h : absOut x = .panic) : x = .panic := by
  cases x <;> first | rfl | cases h

/-- **`mapIds_total` of `Props/C06map.lean` for `DictM`** (repaired tree: `f2 = f3 = true`).
On a well-formed dictionary `map_connection_ids_from_iter` never panics; it returns `Err`
EXACTLY for the iterator pairs that are not permutations of `1..num_left-1` /
`1..num_right-1` (id 0, duplicate, omission, too short, too long); on `Ok` the abstraction of
the new dictionary is the abstraction of the old one relabelled by the parsed mapper (`MapPost`:
well-formed, same sizes, every parameter list relabelled, costs preserved, stored mapper =
stored ∘ new). -/
theorem mapIds_total_refined (score : List Nat → List Nat → Int) (fx : Fixes)
    (h2 : fx.f2 = true) (h3 : fx.f3 = true) {D : DictM} (hD : DictWF D) (hp : StoredPerm D)
    (hL : D.numLeft ≤ 65536) (hR : D.numRight ≤ 65536) (lmap rmap : List Nat) :
    D.mapIds fx lmap rmap ≠ .panic ∧
    (D.mapIds fx lmap rmap = .err ↔
      ¬ (Mapper.IsPerm1 lmap ∧ lmap.length + 1 = D.numLeft ∧
         Mapper.IsPerm1 rmap ∧ rmap.length + 1 = D.numRight)) ∧
    (∀ D', D.mapIds fx lmap rmap = .ok D' →
      ∃ σ, Mapper.Mapper.fromIter lmap rmap = .ok σ ∧ σ.Valid D.numLeft D.numRight ∧
        σ.left[0]? = some 0 ∧ σ.right[0]? = some 0 ∧
        Mapper.MapPost score true (absDict D) σ (absDict D')) := by
  have href := mapIds_commutes fx (h2.trans h3.symm) hD lmap rmap
  rw [h3] at href
  obtain ⟨t1, t2, t3⟩ := Mapper.mapIds_total score (absDict D) (absDict_wf hD hp hL hR) lmap rmap
  cases hc : D.mapIds fx lmap rmap with
  | ok D1 =>
    rw [hc] at href
    obtain ⟨hv, σ, s1, s2, s3, s4, s5⟩ := t3 (absDict D1) href.symm
    refine ⟨by simp, ⟨fun h => (by cases h), fun h => absurd hv h⟩, ?_⟩
    intro D' hD'
    cases hD'
    exact ⟨σ, s1, s2, s3, s4, s5⟩
  | err =>
    rw [hc] at href
    exact ⟨by simp, ⟨fun _ => t2.1 href.symm, fun _ => rfl⟩, fun D' h => by cases h⟩
  | panic =>
    rw [hc] at href
    exact absurd href.symm t1

/-- **F2 on the pinned tree, for `DictM`** (`unfixed_wrong_length_panics` of
`Props/C06map.lean`): with `f2 = f3 = false`, a mapping that parses but has the wrong length
ALWAYS panics, whatever the dictionary. -/
theorem wrong_length_panics_refined (fx : Fixes) (h2 : fx.f2 = false) (h3 : fx.f3 = false)
    (D : DictM) (lmap rmap ml mr : List Nat) (hl : Vibrato.parseMap lmap = some ml)
    (hr : Vibrato.parseMap rmap = some mr)
    (hlen : ml.length ≠ D.numLeft ∨ mr.length ≠ D.numRight) :
    D.mapIds fx lmap rmap = .panic := by
  have href := mapIds_refines fx (h2.trans h3.symm) D
    (fun h => by rw [h3] at h; cases h) lmap rmap
  rw [h3] at href
  have hfi : Mapper.Mapper.fromIter lmap rmap = .ok ⟨ml, mr⟩ := by
    rw [fromIter_refines, hl, hr]
  rw [Mapper.unfixed_wrong_length_panics (absDict D) lmap rmap ⟨ml, mr⟩ hfi hlen] at href
  exact absOut_panic href

/-! ### Histories -/

/-- the specification state of the abstract model for a concrete history: the composition of the
parsed mappers (in order) and the most recently loaded user lexicon in ORIGINAL ids -/
def specOf (fx : Fixes) (D0 : DictM) (ops : List DOp) : Mapper.Mapper × Option (List Mapper.Param) :=
  Mapper.specRun (Mapper.idMapper D0.numLeft D0.numRight, (absDict D0).userParams)
    (ops.map (toOp fx))

/-- **`map_compose` of `Props/C06map.lean` for `DictM`** (repaired tree).  After ANY successful
history of `map`, `reset_user_lexicon(Some)`, `reset_user_lexicon(None)` calls starting from a
well-formed dictionary without stored mapper (what the builders return), the abstraction of the
dictionary is the abstraction of the original one relabelled by the composition `τ` of the
applied permutations (`Mapper.Rel`): system and unknown parameters relabelled by `τ`, the user
lexicon is the most recently loaded one (in original ids) relabelled by `τ`, costs satisfy
`cost' (τR r) (τL l) = cost r l`, `τ` is a pair of bijections and is the stored mapper. -/
theorem map_compose_refined (score : List Nat → List Nat → Int) (fx : Fixes)
    (h2 : fx.f2 = true) (h3 : fx.f3 = true) {D0 D : DictM} (hD : DictWF D0)
    (hm : D0.mapper = none) (hL : D0.numLeft ≤ 65536) (hR : D0.numRight ≤ 65536)
    (ops : List DOp) (hrun : D0.run fx ops = .ok D) :
    Mapper.Rel score (absDict D0) (specOf fx D0 ops).1 (specOf fx D0 ops).2 (absDict D) := by
  have hr := history_ok_commutes fx (h2.trans h3.symm) hD ops hrun
  rw [h3] at hr
  exact Mapper.map_compose score (absDict D0) (absDict_wf hD (storedPerm_of_none hm) hL hR)
    (by show D0.mapper.map absMapper = none; rw [hm]; rfl) _ _ hr

/-- Every state reachable from a built dictionary abstracts to a well-formed abstract state
(so `mapIds_total_refined` applies to it: `StoredPerm` holds). -/
theorem reachable_storedPerm (fx : Fixes) (h2 : fx.f2 = true) (h3 : fx.f3 = true) {D0 D : DictM}
    (hD : DictWF D0) (hm : D0.mapper = none) (hL : D0.numLeft ≤ 65536) (hR : D0.numRight ≤ 65536)
    (ops : List DOp) (hrun : D0.run fx ops = .ok D) : StoredPerm D := by
  have rel := map_compose_refined (fun _ _ => 0) fx h2 h3 hD hm hL hR ops hrun
  intro ml mr hmp
  have hs : (absDict D).stored = some ⟨ml, mr⟩ := by
    show D.mapper.map absMapper = _; rw [hmp]; rfl
  have := rel.wf.stored _ hs
  exact ⟨this.lperm.1, this.rperm.1⟩

theorem absDict_cost (score : List Nat → List Nat → Int) (D : DictM) {r l : Nat}
    (hr : r < D.numRight) (hl : l < D.numLeft) :
    (absDict D).conn.cost score r l = .ok (D.cost r l) :=
  absMatrix_cost D.numRight D.numLeft D.cost hr hl

/-- **Costs between mapped ids equal the original costs** (`rel_cost_fn` for `DictM`): after any
successful history, `D.cost (τR r) (τL l) = D0.cost r l` on the whole id range (0 included),
where `τ` is the composed mapper, which maps the id ranges into themselves. -/
theorem history_costs_refined (fx : Fixes) (h2 : fx.f2 = true) (h3 : fx.f3 = true)
    {D0 D : DictM} (hD : DictWF D0) (hm : D0.mapper = none) (hL : D0.numLeft ≤ 65536)
    (hR : D0.numRight ≤ 65536) (ops : List DOp) (hrun : D0.run fx ops = .ok D) (r l : Nat)
    (hr : r < D0.numRight) (hl : l < D0.numLeft) :
    let τ := (specOf fx D0 ops).1
    D.cost (τ.rightFn r) (τ.leftFn l) = D0.cost r l ∧
      τ.rightFn r < D0.numRight ∧ τ.leftFn l < D0.numLeft ∧
      D.numRight = D0.numRight ∧ D.numLeft = D0.numLeft := by
  intro τ
  have rel := map_compose_refined (fun _ _ => 0) fx h2 h3 hD hm hL hR ops hrun
  have hb := rel.valid.fn_bij
  have b1 : τ.leftFn l < D0.numLeft := hb.1 l hl
  have b2 : τ.rightFn r < D0.numRight := hb.2.1 r hr
  have eR : D.numRight = D0.numRight := rel.numR
  have eL : D.numLeft = D0.numLeft := rel.numL
  have hc := Mapper.rel_cost_fn (fun _ _ => 0) rel r l hr hl
  rw [absDict_cost _ D (by rw [eR]; exact b2) (by rw [eL]; exact b1),
    absDict_cost _ D0 hr hl] at hc
  exact ⟨by simpa using hc, b2, b1, eR, eL⟩

/-- **The stored mapper is the composed one** (or none, when no mapping was applied). -/
theorem history_stored_refined (fx : Fixes) (h2 : fx.f2 = true) (h3 : fx.f3 = true)
    {D0 D : DictM} (hD : DictWF D0) (hm : D0.mapper = none) (hL : D0.numLeft ≤ 65536)
    (hR : D0.numRight ≤ 65536) (ops : List DOp) (hrun : D0.run fx ops = .ok D) :
    let τ := (specOf fx D0 ops).1
    τ.Valid D0.numLeft D0.numRight ∧
    (D.mapper = some (τ.left, τ.right) ∨
      (D.mapper = none ∧ τ = Mapper.idMapper D0.numLeft D0.numRight)) := by
  intro τ
  have rel := map_compose_refined (fun _ _ => 0) fx h2 h3 hD hm hL hR ops hrun
  refine ⟨rel.valid, ?_⟩
  rcases rel.stored with h | ⟨h, e⟩
  · left
    have h' : D.mapper.map absMapper = some τ := h
    cases hmp : D.mapper with
    | none => rw [hmp] at h'; cases h'
    | some m =>
      rw [hmp] at h'
      simp only [Option.map_some, Option.some.injEq] at h'
      rw [← h']
      rfl
  · right
    have h' : D.mapper.map absMapper = none := h
    refine ⟨?_, e⟩
    cases hmp : D.mapper with
    | none => rfl
    | some m => rw [hmp] at h'; cases h'

/-- **A user lexicon loaded after k mappings is translated by all of them.**  If the history
`ops` (containing any number of accepted mappings, in any positions) is followed by
`reset_user_lexicon(Some csv)` and `csv` parses to the lexicon `u` (ids as written in the file),
then the user lexicon of the resulting dictionary carries the ids of `u` mapped through the
composition `τ` of ALL mappings of `ops` -- not just the last one (F3). -/
theorem user_translated_by_all (fx : Fixes) (h2 : fx.f2 = true) (h3 : fx.f3 = true)
    {D0 D : DictM} (hD : DictWF D0) (hm : D0.mapper = none) (hL : D0.numLeft ≤ 65536)
    (hR : D0.numRight ≤ 65536) (ops : List DOp) (b : List UInt8) (u : LexM)
    (hu : userOfCsv fx b = .ok u) (hrun : D0.run fx (ops ++ [.reset (some b)]) = .ok D) :
    ∃ u', D.user = some u' ∧
      Mapper.mapParams (specOf fx D0 ops).1 (absEntries u.entries) = .ok (absEntries u'.entries) := by
  have rel := map_compose_refined (fun _ _ => 0) fx h2 h3 hD hm hL hR _ hrun
  have hop : toOp fx (.reset (some b)) = .loadUser (absEntries u.entries) := by
    show toOpUser fx b = _
    unfold toOpUser; rw [hu]
  have hspec : specOf fx D0 (ops ++ [.reset (some b)]) =
      ((specOf fx D0 ops).1, some (absEntries u.entries)) := by
    simp only [specOf, List.map_append, List.map_cons, List.map_nil, Mapper.specRun,
      List.foldl_append, List.foldl_cons, List.foldl_nil, hop, Mapper.specStep]
  rw [hspec] at rel
  have husr := rel.user
  simp only [Mapper.mapUser] at husr
  obtain ⟨v, hv, he⟩ := Mapper.andThen_eq_ok.1 husr
  have he' : some v = D.user.map (fun u => absEntries u.entries) := by
    simp only [Mapper.Outcome.ok.injEq] at he
    exact he
  cases hDu : D.user with
  | none => rw [hDu] at he'; cases he'
  | some u' =>
    rw [hDu] at he'
    simp only [Option.map_some, Option.some.injEq] at he'
    exact ⟨u', rfl, by rw [hv, he']⟩

theorem idsOK_of_wf {D : DictM} (hD : DictWF D) : D.IdsOK :=
  ⟨fun e he => ⟨(hD.sys_ok.1 e he).1, (hD.sys_ok.1 e he).2.1⟩,
    fun u hu e he => ⟨((hD.user_ok u hu).1 e he).1, ((hD.user_ok u hu).1 e he).2.1⟩,
    fun e he => ⟨(hD.unk_ok e he).1.1, (hD.unk_ok e he).1.2.1⟩⟩

/-- **Tokenization after any accepted history equals the unmapped one up to the composed
relabelling** -- `history_tokenize` (`Props/C06.lean`, about `DictM`) and `map_compose`
(`Props/C06map.lean`, about the abstract model) joined: once at least one mapping has been
accepted (`D.mapper = some (tl, tr)`), the relabelling is given by the tables of the abstract
model's composed mapper `τ`, which is a pair of bijections of the id ranges and IS the stored
mapper `(tl, tr)`. -/
theorem history_tokenize_refined (fx : Fixes) (h2 : fx.f2 = true) (h3 : fx.f3 = true)
    {D0 D : DictM} (hD : DictWF D0) (hm : D0.mapper = none) (hL : D0.numLeft ≤ 65536)
    (hR : D0.numRight ≤ 65536) (ops : List DOp) (hrun : D0.run fx ops = .ok D)
    (tl tr : List Nat) (hmp : D.mapper = some (tl, tr)) (o : TokOpts) (s : List Nat) :
    let τ := (specOf fx D0 ops).1
    let st := Vibrato.specRun fx ⟨id, id, D0.user⟩ ops
    τ = ⟨tl, tr⟩ ∧ τ.Valid D0.numLeft D0.numRight ∧
    tokenize D.tokDict o s =
      (tokenize ({ D0 with user := st.user } : DictM).tokDict o s).map
        (·.map (Ren.ofIds (tblFn τ.left) (tblFn τ.right)).tok) := by
  intro τ st
  obtain ⟨hv, hst⟩ := history_stored_refined fx h2 h3 hD hm hL hR ops hrun
  have hτ : τ = ⟨tl, tr⟩ := by
    rcases hst with h | ⟨h, _⟩
    · rw [hmp] at h
      simp only [Option.some.injEq, Prod.mk.injEq] at h
      show (specOf fx D0 ops).1 = _
      cases hτ' : (specOf fx D0 ops).1 with
      | mk a b => rw [hτ'] at h; simp only at h; rw [h.1, h.2]
    · rw [hmp] at h; cases h
  refine ⟨hτ, hv, ?_⟩
  have hids := idsOK_of_wf hD
  have pos := C10.dims_pos hD
  have htok := history_tokenize fx h3 D0 hids hm pos.1 pos.2 ops D hrun o s
  have hinv := history_invariant fx h3 D0 hids hm ops D hrun
  rcases hinv.mapper with ⟨h, _⟩ | ⟨tl', tr', h, e1, e2, _⟩
  · rw [hmp] at h; cases h
  · rw [hmp] at h
    simp only [Option.some.injEq, Prod.mk.injEq] at h
    obtain ⟨rfl, rfl⟩ := h
    rw [hτ]
    simp only at htok ⊢
    rw [htok, e1, e2]

/-! ### C13: reorder → map -/

/-- **`reorder_then_map` of `Props/C13probs.lean` for `DictM`**: the id lists computed by
`compute_connid_probs` from counters of the connector's sizes are accepted by
`map_connection_ids_from_iter` (pinned or repaired tree: any `fx` with `f2 = f3`), and the mapped
dictionary is the relabelled one (`MapPost` on the abstractions, hence the C06 theorems apply). -/
theorem reorder_then_map_refined (score : List Nat → List Nat → Int) (fx : Fixes)
    (hf : fx.f2 = fx.f3) {D : DictM} (hD : DictWF D) (hp : StoredPerm D)
    (hL : D.numLeft ≤ 65536) (hR : D.numRight ≤ 65536) (lc rc ls rs : List Nat)
    (hl : lc.length = D.numLeft) (hr : rc.length = D.numRight)
    (h : Mapper.computeProbs lc rc = .ok (ls, rs)) :
    ∃ σ D', D.mapIds fx ls rs = .ok D' ∧ Mapper.MapPost score fx.f3 (absDict D) σ (absDict D') := by
  obtain ⟨_, σ, M', hmap, hpost⟩ :=
    Mapper.reorder_then_map score fx.f3 (absDict D) (absDict_wf hD hp hL hR) lc rc ls rs hl hr h
  have href := mapIds_commutes fx hf hD ls rs
  rw [hmap] at href
  obtain ⟨D', hD', e⟩ := absOut_ok href
  exact ⟨σ, D', hD', by rw [e]; exact hpost⟩

/-! ## 4. The run-time cross-check `mapperAgree` of the driver is redundant

`Driver/Tok.lean: mapperAgree fx D0 dops` answers `none` for an empty operation list and
otherwise `some (go D0 (toMapperDict D0) dops)`, where `go D M (op :: ops)` runs ONE step in both
models --

  * `M` (id lists `l`, `r`):   `D.mapIds fx l r`            against `M.mapIds fx.f3 l r`;
  * `UN`:                      `D.resetUser fx none`        against `ok M.clearUser`;
  * `W` (write/read):          `ok D`                       against `ok M`;
  * `U` (csv):                 `D.resetUser fx (some csv)`  against
      `M.loadUserChecked (parameter triples of the parsed csv)` when the csv parses, and against
      "nothing" when it does not (then the concrete outcome must be `err` or `panic`);

-- demands the same kind of outcome, on `ok` demands `toMapperDict D' == M'` and continues with
`(D', M')`; it stops with `true` at the first `err` / `panic` pair.  `toMapperDict` is `absDict`. -/

theorem toMapperDict_eq_absDict (D : DictM) : Driver.Tok.toMapperDict D = absDict D := rfl

theorem mapperAgree_go_true (fx : Fixes) (hf : fx.f2 = fx.f3) (h2b : fx.f2b = true) :
    ∀ (dops : List Driver.Tok.DOp) (D : DictM), D.MapperOK →
      Driver.Tok.mapperAgree.go fx D (absDict D) dops = true
  | [], _, _ => rfl
  | op :: ops, D, hm => by
    cases op with
    | map l r =>
      have href := mapIds_refines fx hf D (fun _ => hm) l r
      simp only [Driver.Tok.mapperAgree.go]
      rw [← href]
      cases hc : D.mapIds fx l r with
      | ok D' =>
        have ih := mapperAgree_go_true fx hf h2b ops D' (mapIds_mapperOK hm hc)
        simp [absOut, toMapperDict_eq_absDict, ih]
      | err => rfl
      | panic => rfl
    | userNone =>
      have ih := mapperAgree_go_true fx hf h2b ops { D with user := none }
        (resetUser_mapperOK (csv := none) hm (resetUser_none fx D))
      simp only [Driver.Tok.mapperAgree.go, resetUser_none]
      have e : (absDict D).clearUser = absDict { D with user := none } := rfl
      rw [e]
      simp [toMapperDict_eq_absDict, ih]
    | writeRead =>
      have ih := mapperAgree_go_true fx hf h2b ops D hm
      simp [Driver.Tok.mapperAgree.go, toMapperDict_eq_absDict, ih]
    | user b =>
      simp only [Driver.Tok.mapperAgree.go]
      have hu0 : ((parseLexCsv fx b).bind fun rows => Outcome.ofOption (lexOfRows rows)) =
          userOfCsv fx b := rfl
      rw [hu0]
      have hreq := resetUser_eq fx D b
      cases hu : userOfCsv fx b with
      | err => rw [hu] at hreq; simp only [hreq]
      | panic => rw [hu] at hreq; simp only [hreq]
      | ok u =>
        rw [hu] at hreq
        have href : absOut (D.resetUser fx (some b)) =
            (absDict D).loadUserChecked (absEntries u.entries) := by
          rw [hreq]
          have := load_refines fx D u
          rw [h2b] at this
          exact this
        have e : (List.map (fun e : LexEntry =>
            ({ left := e.param.leftId, right := e.param.rightId, cost := e.param.wordCost } :
              Mapper.Param)) u.entries) = absEntries u.entries := rfl
        simp only []
        rw [e, ← href]
        cases hc : D.resetUser fx (some b) with
        | ok D' =>
          have ih := mapperAgree_go_true fx hf h2b ops D' (resetUser_mapperOK hm hc)
          simp [absOut, toMapperDict_eq_absDict, ih]
        | err => rfl
        | panic => rfl

/-- **`mapperAgree` never reports a disagreement.**  For every flag setting with `f2 = f3` and
`f2b = true` (in particular `Fixes.all`), every dictionary whose stored mapper is well-formed (in
particular every `DictWF` dictionary, hence every dictionary the driver ever holds: built by the
builders and changed by the public operations only) and every operation list, the run-time
cross-check answers `some true` (`none` for the empty list): the flag `MAPPERMODEL` carries no
information beyond this theorem. -/
theorem mapperAgree_true (fx : Fixes) (hf : fx.f2 = fx.f3) (h2b : fx.f2b = true) {D0 : DictM}
    (hm : D0.MapperOK) (dops : List Driver.Tok.DOp) :
    Driver.Tok.mapperAgree fx D0 dops = if dops.isEmpty then none else some true := by
  unfold Driver.Tok.mapperAgree
  split
  · rfl
  · rw [toMapperDict_eq_absDict, mapperAgree_go_true fx hf h2b dops D0 hm]

theorem mapperAgree_true_wf (fx : Fixes) (hf : fx.f2 = fx.f3) (h2b : fx.f2b = true) {D0 : DictM}
    (hD : DictWF D0) (dops : List Driver.Tok.DOp) (hne : dops ≠ []) :
    Driver.Tok.mapperAgree fx D0 dops = some true := by
  rw [mapperAgree_true fx hf h2b hD.mapper_ok]
  cases dops with
  | nil => exact absurd rfl hne
  | cons _ _ => rfl

/-- the dictionaries the driver holds: `handleDef` stores what `buildMatrixDict` returns -/
theorem mapperAgree_true_built (fx fxb : Fixes) (hf : fx.f2 = fx.f3) (h2b : fx.f2b = true)
    {lex matrix chardef unk : List UInt8} {D0 : DictM}
    (hb : buildMatrixDict fxb lex matrix chardef unk = .ok D0) (dops : List Driver.Tok.DOp)
    (hne : dops ≠ []) : Driver.Tok.mapperAgree fx D0 dops = some true :=
  mapperAgree_true_wf fx hf h2b (builders_establish_wf hb) dops hne

/-! ## 5. Non-vacuity: a 4 x 4 dictionary, two non-commuting mappings, a user lexicon -/

/-- words `a` (1,2), `ab` (2,3), `b` (3,1), one DEFAULT unknown entry (2,2), 4 x 4 connector -/
def exD4 : DictM :=
  { sys := ⟨[⟨[97], ⟨1, 2, 5⟩⟩, ⟨[97, 98], ⟨2, 3, 3⟩⟩, ⟨[98], ⟨3, 1, 4⟩⟩], [[83], [84], [85]]⟩
    user := none, numRight := 4, numLeft := 4
    conn := [0, 1, 2, 3, 4, 5, 6, 7, 8, 9, 10, 11, 12, 13, 14, -15]
    mapper := none
    chars := C10.f9Dict.chars
    unk := [⟨0, ⟨2, 2, 20⟩, [88]⟩] }

/-- `bc,3,1,-7,U\n` -/
def exCsv : List UInt8 := [98, 99, 44, 51, 44, 49, 44, 45, 55, 44, 85, 10]
/-- `bc,1,1,-7,U\n` -/
def exCsv1 : List UInt8 := [98, 99, 44, 49, 44, 49, 44, 45, 55, 44, 85, 10]
/-- `bc,4,1,-7,U\n`: left id outside the connector -/
def exCsvBad : List UInt8 := [98, 99, 44, 52, 44, 49, 44, 45, 55, 44, 85, 10]

/-- left: swap ids 1 and 2 -/
def exM1 : DOp := .map [2, 1, 3] [1, 2, 3]
/-- left: swap ids 2 and 3; right: rotate -/
def exM2 : DOp := .map [1, 3, 2] [3, 1, 2]

def exOpsA : List DOp := [exM1, .reset (some exCsv), exM2]
def exOpsB : List DOp := [exM2, .reset (some exCsv), exM1]

theorem exD4_wf : DictWF exD4 := by
  have h9 : DictWF C10.f9Dict := f9_accepted_dictionary_panics.1
  refine ⟨by decide, ?_, ⟨?_, by decide⟩, by decide, fun u hu => (by cases hu), ?_,
    fun ml mr h => (by cases h), h9.chars_ok⟩
  · intro x hx
    simp only [exD4, List.mem_cons, List.not_mem_nil, or_false] at hx
    rcases hx with rfl | rfl | rfl | rfl | rfl | rfl | rfl | rfl | rfl | rfl | rfl | rfl | rfl |
      rfl | rfl | rfl <;> simp [I16]
  · intro e he
    simp only [exD4, List.mem_cons, List.not_mem_nil, or_false] at he
    rcases he with rfl | rfl | rfl <;> simp [ParamOK, I16, exD4]
  · intro e he
    simp only [exD4, List.mem_cons, List.not_mem_nil, or_false] at he
    subst he
    simp [ParamOK, I16, exD4, C10.f9Dict]

/-- hypotheses of §3 hold for `exD4` -/
example : DictWF exD4 ∧ exD4.mapper = none ∧ exD4.numLeft ≤ 65536 ∧ exD4.numRight ≤ 65536 ∧
    Fixes.all.f2 = true ∧ Fixes.all.f3 = true ∧ Fixes.all.f2b = true :=
  ⟨exD4_wf, rfl, by decide, by decide, rfl, rfl, rfl⟩

/-- both histories succeed, and the commuting square `history_commutes` on them -/
example : absOut (exD4.run Fixes.all exOpsA) = absRun Fixes.all (absDict exD4) exOpsA ∧
    absRun Fixes.all (absDict exD4) exOpsA =
      .ok { sysParams := [⟨3, 3, 5⟩, ⟨1, 1, 3⟩, ⟨2, 2, 4⟩]
            userParams := some [⟨2, 2, -7⟩]
            conn := .matrix ⟨[0, 12, 4, 8, 2, 14, 6, 10, 3, -15, 7, 11, 1, 13, 5, 9], 4, 4⟩
            unkParams := [⟨1, 3, 20⟩]
            stored := some ⟨[0, 3, 1, 2], [0, 2, 3, 1]⟩ } := by
  refine ⟨history_commutes Fixes.all rfl exD4_wf exOpsA, by decide⟩

/-- the two mappings do not commute: the other order gives another dictionary -/
example : absRun Fixes.all (absDict exD4) exOpsB =
      .ok { sysParams := [⟨2, 3, 5⟩, ⟨3, 1, 3⟩, ⟨1, 2, 4⟩]
            userParams := some [⟨1, 2, -7⟩]
            conn := .matrix ⟨[0, 12, 4, 8, 3, -15, 7, 11, 1, 13, 5, 9, 2, 14, 6, 10], 4, 4⟩
            unkParams := [⟨3, 3, 20⟩]
            stored := some ⟨[0, 2, 3, 1], [0, 2, 3, 1]⟩ } ∧
    absRun Fixes.all (absDict exD4) exOpsA ≠ absRun Fixes.all (absDict exD4) exOpsB := by
  refine ⟨by decide, by decide⟩

/-- the specification states: composed mapper and the user lexicon in the ids of the file -/
example : specOf Fixes.all exD4 exOpsA = (⟨[0, 3, 1, 2], [0, 2, 3, 1]⟩, some [⟨3, 1, -7⟩]) ∧
    specOf Fixes.all exD4 exOpsB = (⟨[0, 2, 3, 1], [0, 2, 3, 1]⟩, some [⟨3, 1, -7⟩]) := by
  refine ⟨by decide, by decide⟩

-- the concrete model itself (no `DecidableEq` on `DictM`: executable checks)
#guard (match exD4.run Fixes.all exOpsA with
  | .ok D => D.mapper == some ([0, 3, 1, 2], [0, 2, 3, 1]) &&
      D.user.map (·.entries.map (·.param)) == some [⟨2, 2, -7⟩] &&
      D.conn == [0, 2, 3, 1, 12, 14, -15, 13, 4, 6, 7, 5, 8, 10, 11, 9]
  | _ => false)
-- `history_costs_refined` on it: cost' (τR r) (τL l) = cost r l with τR = [0,2,3,1], τL = [0,3,1,2]
#guard (match exD4.run Fixes.all exOpsA with
  | .ok D => (List.range 4).all fun r => (List.range 4).all fun l =>
      D.cost ([0, 2, 3, 1].getD r 0) ([0, 3, 1, 2].getD l 0) == exD4.cost r l
  | _ => false)
-- `user_translated_by_all`: a user word written with ids (1, 1) and loaded AFTER both mappings
-- carries (τL 1, τR 1) = (3, 2); the pinned tree (F3) translates by the last mapping only: (1, 2)
#guard (match exD4.run Fixes.all [exM1, exM2, .reset (some exCsv1)] with
  | .ok D => D.user.map (·.entries.map (·.param)) == some [⟨3, 2, -7⟩] | _ => false)
#guard (match exD4.run Fixes.pinned [exM1, exM2, .reset (some exCsv1)] with
  | .ok D => D.user.map (·.entries.map (·.param)) == some [⟨1, 2, -7⟩] | _ => false)

/-- failures are refined too: wrong length (`err` on the repaired tree, `panic` on the pinned
one), malformed mapping, out-of-range user id after a mapping -/
example :
    absOut (exD4.run Fixes.all [exM1, .map [1, 2] [1, 2, 3]]) = .err ∧
    absRun Fixes.all (absDict exD4) [exM1, .map [1, 2] [1, 2, 3]] = .err ∧
    absOut (exD4.run Fixes.pinned [exM1, .map [1, 2] [1, 2, 3]]) = .panic ∧
    absRun Fixes.pinned (absDict exD4) [exM1, .map [1, 2] [1, 2, 3]] = .panic ∧
    absOut (exD4.run Fixes.all [exM1, .reset (some exCsvBad)]) = .err ∧
    absRun Fixes.all (absDict exD4) [exM1, .reset (some exCsvBad)] = .err ∧
    absOut (exD4.run Fixes.pinned [exM1, .reset (some exCsvBad)]) = .panic ∧
    absRun Fixes.pinned (absDict exD4) [exM1, .reset (some exCsvBad)] = .panic := by
  refine ⟨by decide, by decide, by decide, by decide, by decide, by decide, by decide, by decide⟩

/-! ### `mapperAgree` on the example, and the flag settings outside the theorem -/

/-- instance of `mapperAgree_true_wf` (all four kinds of driver operations) -/
example : Driver.Tok.mapperAgree Fixes.all exD4
    [.map [2, 1, 3] [1, 2, 3], .user exCsv, .writeRead, .map [1, 3, 2] [3, 1, 2], .userNone,
      .user exCsv] = some true :=
  mapperAgree_true_wf Fixes.all rfl rfl exD4_wf _ (by simp)

#guard Driver.Tok.mapperAgree Fixes.all exD4
    [.map [2, 1, 3] [1, 2, 3], .user exCsv, .writeRead, .map [1, 3, 2] [3, 1, 2], .userNone,
      .user exCsv] == some true

/-- **`mapperAgree` gives false alarms outside the hypotheses of `mapperAgree_true`** (these
are defects of the run-time check, not of either model -- the refinement theorems above hold for
these flag settings in the form `step_refines`):

* `f2 ≠ f3`: it passes the single flag `fx.f3` to the abstract model as `fixed`, which stands for
  BOTH repairs; a parsable mapping of the wrong length is `panic` / `err` in one model and
  `err` / `panic` in the other;
* `f2b = false` (e.g. `Fixes.pinned`): it always uses `loadUserChecked` (the F2b repair) on the
  abstract side; a user lexicon with an out-of-range id after a mapping is `panic` in `DictM`
  (pinned order of checks) and `err` in the abstract model. -/
theorem mapperAgree_false_alarms :
    Driver.Tok.mapperAgree { Fixes.all with f2 := false } exD4 [.map [1, 2] [1, 2, 3]] = some false ∧
    Driver.Tok.mapperAgree { Fixes.all with f3 := false } exD4 [.map [1, 2] [1, 2, 3]] = some false ∧
    Driver.Tok.mapperAgree { Fixes.all with f2b := false } exD4
      [.map [2, 1, 3] [1, 2, 3], .user exCsvBad] = some false ∧
    Driver.Tok.mapperAgree Fixes.pinned exD4 [.map [2, 1, 3] [1, 2, 3], .user exCsvBad] = some false := by
  refine ⟨by decide, by decide, by decide, by decide⟩

/-- … while the refinement itself holds there (two-flag abstract step; abstract load chosen by
`f2b`) -/
example :
    absOut (exD4.mapIds { Fixes.all with f2 := false } [1, 2] [1, 2, 3]) = .panic ∧
    absMapIds2 false true (absDict exD4) [1, 2] [1, 2, 3] = .panic ∧
    absOut (exD4.mapIds { Fixes.all with f3 := false } [1, 2] [1, 2, 3]) = .err ∧
    absMapIds2 true false (absDict exD4) [1, 2] [1, 2, 3] = .err := by
  refine ⟨by decide, by decide, by decide, by decide⟩

example :
    absOut (exD4.run Fixes.pinned [exM1, .reset (some exCsvBad)]) =
      absRun Fixes.pinned (absDict exD4) [exM1, .reset (some exCsvBad)] :=
  run_refines Fixes.pinned rfl _ exD4 exD4_wf.mapper_ok

end Vibrato.Refine
