/-
C06 — Connection-id remapping never changes tokenization: the lattice and dictionary level.

(The id-mapping part — `ConnIdMapper::parse`, cost preservation for matrix / raw / dual
connectors, rejection of malformed mappings — is `Props/C06map.lean`.)

Property theorems only; helper lemmas are in
`Proofs/{Relabel,RelabelDict,ParseMap,DictOps,DictHistory,DictRun,DictIds}.lean`.
Model: `Model/Lattice.lean` (`buildLattice`), `Model/Tokenizer.lean` (`tokenize`),
`Model/Dict.lean` (`DictM.mapIds` = `Dictionary::map_connection_ids_from_iter`,
`DictM.resetUser` = `Dictionary::reset_user_lexicon_from_reader`).

Finding reproduced on the model of the pinned tree: F3 (`fx.f3 = false`: a second mapping
replaces the stored mapper instead of composing with it; a user lexicon loaded afterwards is
translated by the last mapping only) — `f3_pinned_breaks_history`.
-/
import Vibrato.Proofs.DictIds
import Vibrato.Props.C02

namespace Vibrato

/-! ## Lattice level -/

/-- **lattice_relabel.**  Let `σL`, `σR` relabel left / right connection ids with
`σL 0 = 0`, `σR 0 = 0`, and let `E'` be `E` with every candidate's `(left_id, right_id)`
replaced by `(σL left_id, σR right_id)` and with
`E'.conn (σR r) (σL l) = E.conn r l` for every right id `r` and left id `l` IN USE, i.e. `r` is 0
(BOS) or the right id of a candidate offered inside the sentence and `l` is 0 (EOS) or the left id
of such a candidate (`RenOK`; BOS's left id 65535 and EOS's right id 65535 are placeholders that
are never looked up, so nothing is required of them; injectivity of `σ` is not needed as a
hypothesis — it is what makes such a cost function exist).

Then the lattice built for `E'` (on a buffer of any previous length `b`) is the lattice built
for `E` with every node's ids relabelled: the same nodes in the same order at every boundary with
identical `min_cost`, `min_idx`, `start_node`, `start_word`, `word_id`, `lex_type`
(`relabel_node_spec`), and the EOS nodes are equal (EOS keeps `left_id = 0`). -/
theorem lattice_relabel (σL σR : Nat → Nat) (E E' : LatEnv)
    (h : RenOK (Ren.ofIds σL σR) E E') (b : Nat) :
    (buildLattice E' b).ends = (Ren.ofIds σL σR).ends (buildLattice E b).ends ∧
      (∀ j, endsAt (buildLattice E' b).ends j =
        (endsAt (buildLattice E b).ends j).map (Ren.ofIds σL σR).node) ∧
      (buildLattice E' b).eos = (buildLattice E b).eos := by
  obtain ⟨h1, h2⟩ := buildLattice_ren h b
  exact ⟨h1, fun j => by rw [h1, Ren.endsAt], h2⟩

/-- What relabelling does to one node: nothing but the two ids changes (and BOS is untouched). -/
theorem relabel_node_spec (σL σR : Nat → Nat) (n : Node) :
    let n' := (Ren.ofIds σL σR).node n
    n'.minCost = n.minCost ∧ n'.minIdx = n.minIdx ∧ n'.startNode = n.startNode ∧
      n'.startWord = n.startWord ∧ n'.wordId = n.wordId ∧ n'.lexType = n.lexType ∧
      n'.wordCost = n.wordCost ∧ n'.isBos = n.isBos ∧
      (n.isBos = false → n'.leftId = σL n.leftId ∧ n'.rightId = σR n.rightId) ∧
      (n.isBos = true → n' = n) := by
  cases hb : n.isBos <;> simp [Ren.node, Ren.ofIds, hb]

/-- **tokens_relabel.**  Hence the reported tokens are the same up to ids: same number of tokens,
same character ranges, and token by token the relabelled node (same `word_idx`, word cost and
`total_cost`). `none` (panic) on one side iff on the other. -/
theorem tokens_relabel (σL σR : Nat → Nat) (E E' : LatEnv)
    (h : RenOK (Ren.ofIds σL σR) E E') (b : Nat) :
    tokensOf (buildLattice E' b) =
      (tokensOf (buildLattice E b)).map (·.map (Ren.ofIds σL σR).tok) := by
  obtain ⟨h1, h2⟩ := buildLattice_ren h b
  exact tokensOf_ren _ _ _ h1 h2

/-- For every relabelling with left inverses (i.e. every injective one) the relabelled
environment exists: permute the cost function by the inverses. -/
theorem renOK_of_leftInverse (σL σR σL' σR' : Nat → Nat) (E : LatEnv)
    (hL : ∀ l, σL' (σL l) = l) (hR : ∀ r, σR' (σR r) = r) (h0L : σL 0 = 0) (h0R : σR 0 = 0) :
    RenOK (Ren.ofIds σL σR) E
      { len := E.len, conn := fun r l => E.conn (σR' r) (σL' l), skip := E.skip,
        cands := fun sw => (E.cands sw).map (Ren.ofIds σL σR).cand } :=
  ⟨rfl, fun _ _ => rfl, fun _ _ => rfl, h0L, h0R, fun r l _ _ => by
    show E.conn (σR' (σR r)) (σL' (σL l)) = E.conn r l
    rw [hL, hR]⟩

/-- swap ids 1 and 2 -/
def swap12 (i : Nat) : Nat := if i = 1 then 2 else if i = 2 then 1 else i

theorem swap12_invol (i : Nat) : swap12 (swap12 i) = i := by
  unfold swap12; split <;> (try split) <;> (try split) <;> omega

/-- Non-vacuity: the three-character environment of `Props/C02` relabelled by swapping left ids
1 ↔ 2 (right ids unchanged). -/
def exampleEnvSwapped : LatEnv :=
  { len := exampleEnv.len, conn := fun r l => exampleEnv.conn r (swap12 l), skip := exampleEnv.skip,
    cands := fun sw => (exampleEnv.cands sw).map (Ren.ofIds swap12 id).cand }

example : RenOK (Ren.ofIds swap12 id) exampleEnv exampleEnvSwapped :=
  renOK_of_leftInverse swap12 id swap12 id exampleEnv swap12_invol (fun _ => rfl) rfl rfl

#guard (tokensOf (buildLattice exampleEnv)).map (·.map fun t =>
    (t.startWord, t.endWord, t.node.leftId, t.node.rightId, t.node.minIdx, t.node.minCost))
  == some [(0, 1, 1, 1, 0, 2), (1, 3, 1, 1, 0, 8)]
#guard (tokensOf (buildLattice exampleEnvSwapped)).map (·.map fun t =>
    (t.startWord, t.endWord, t.node.leftId, t.node.rightId, t.node.minIdx, t.node.minCost))
  == some [(0, 1, 2, 1, 0, 2), (1, 3, 2, 1, 0, 8)]

/-! ## Dictionary level: one mapping -/

/-- the relabelling of tokens induced by a pair of parsed mapping tables -/
def tableRen (ml mr : List Nat) : Ren := Ren.ofIds (tblFn ml) (tblFn mr)

/-- **mapIds_tokenize.**  If `map_connection_ids_from_iter` succeeds (on the pinned or the
repaired tree: `fx` arbitrary), then for EVERY option setting and EVERY sentence the mapped
dictionary produces the tokens of the original dictionary with ids mapped by the parsed
tables `ml`, `mr` (old id ↦ new id): same number of tokens, ranges, `(lex_type, word_id)` — hence
same surfaces and features —, word costs and total costs; a panic on one side iff on the other.
A user lexicon present at the time of the mapping is covered (`D.user` arbitrary).  No
well-formedness hypothesis is needed: success of `mapIds` already implies that every id of the
system lexicon, user lexicon and unknown entries is inside the connector. -/
theorem mapIds_tokenize (fx : Fixes) (D D' : DictM) (lmap rmap : List Nat)
    (h : D.mapIds fx lmap rmap = .ok D') :
    ∃ ml mr, parseMap lmap = some ml ∧ parseMap rmap = some mr ∧
      ∀ (o : TokOpts) (s : List Nat),
        tokenize D'.tokDict o s = (tokenize D.tokDict o s).map (·.map (tableRen ml mr).tok) := by
  obtain ⟨ml, mr, h1, h2, post⟩ := mapIds_ok h
  exact ⟨ml, mr, h1, h2, fun o s => tokenize_rel post.tokDictRel o s⟩

/-- **Connection costs are permuted consistently**: `cost' (σR r) (σL l) = cost r l` for ALL
in-range `r`, `l` (row / column 0 included), sizes unchanged, features and the character table
untouched, all ids of the new dictionary in range. -/
theorem mapIds_cost (fx : Fixes) (D D' : DictM) (lmap rmap : List Nat)
    (h : D.mapIds fx lmap rmap = .ok D') :
    ∃ ml mr, parseMap lmap = some ml ∧ parseMap rmap = some mr ∧
      D'.numLeft = D.numLeft ∧ D'.numRight = D.numRight ∧
      (∀ r l, r < D.numRight → l < D.numLeft → D'.cost (tblFn mr r) (tblFn ml l) = D.cost r l) ∧
      IsTable ml ∧ IsTable mr ∧ ml.length = D.numLeft ∧ mr.length = D.numRight ∧
      D'.sys.features = D.sys.features ∧ D'.chars = D.chars ∧ D'.IdsOK := by
  obtain ⟨ml, mr, h1, h2, post⟩ := mapIds_ok h
  exact ⟨ml, mr, h1, h2, post.numLeft, post.numRight, post.cost, post.tl, post.tr, post.llen,
    post.rlen, post.sysF, post.chars, (mapIds_idsOK h).2⟩

/-- **Features are untouched**: `word_feature` of every `(lex_type, word_id)` is the same before
and after the mapping (together with `mapIds_tokenize`: tokens have the same features). -/
theorem mapIds_feature (fx : Fixes) (D D' : DictM) (lmap rmap : List Nat)
    (h : D.mapIds fx lmap rmap = .ok D') (t i : Nat) : D'.feature t i = D.feature t i := by
  obtain ⟨ml, mr, _, _, post⟩ := mapIds_ok h
  unfold DictM.feature
  split
  · rw [post.sysF]
  · cases hu : D.user with
    | none => rw [post.userNone hu]
    | some u =>
      obtain ⟨u', h1, _, h3, _⟩ := post.user u hu
      rw [h1]; simp [h3]
  · rw [post.unk, List.getElem?_map]
    cases D.unk[i]? <;> rfl

/-- A small dictionary: words `a`, `ab`, `b`, one DEFAULT unknown entry, 3 × 3 connector. -/
def c06Dict : DictM :=
  { sys := ⟨[⟨[97], ⟨1, 1, 5⟩⟩, ⟨[97, 98], ⟨2, 1, 3⟩⟩, ⟨[98], ⟨1, 2, 4⟩⟩], [[83], [84], [85]]⟩
    user := none, numRight := 3, numLeft := 3
    conn := [0, 1, 2, 3, 4, -5, 6, 7, 8]
    mapper := none
    chars := ⟨["DEFAULT"], ⟨1, 0, false, true, 0⟩, []⟩
    unk := [⟨0, ⟨2, 2, 20⟩, [88]⟩] }

/-- `c06Dict` after swapping left ids 1 and 2 -/
def c06DictMapped : DictM :=
  { sys := ⟨[⟨[97], ⟨2, 1, 5⟩⟩, ⟨[97, 98], ⟨1, 1, 3⟩⟩, ⟨[98], ⟨2, 2, 4⟩⟩], [[83], [84], [85]]⟩
    user := none, numRight := 3, numLeft := 3
    conn := [0, 2, 1, 3, -5, 4, 6, 8, 7]
    mapper := some ([0, 2, 1], [0, 1, 2])
    chars := ⟨["DEFAULT"], ⟨1, 0, false, true, 0⟩, []⟩
    unk := [⟨0, ⟨1, 2, 20⟩, [88]⟩] }

/-- Non-vacuity of `mapIds_tokenize` / `mapIds_cost`. -/
example : c06Dict.mapIds Fixes.all [2, 1] [1, 2] = .ok c06DictMapped := by rfl

private def showToks (r : Option (List Tok)) :=
  r.map (·.map fun t => (t.startWord, t.endWord, t.node.lexType, t.node.wordId, t.node.leftId,
    t.node.rightId, t.node.wordCost, t.node.minCost))

-- "abc": `ab` (system) + `c` (unknown); only the left ids differ
#guard showToks (tokenize c06Dict.tokDict ⟨none, none⟩ [97, 98, 99])
  == some [(0, 2, 0, 1, 2, 1, 3, 5), (2, 3, 2, 0, 2, 2, 20, 20)]
#guard showToks (tokenize c06DictMapped.tokDict ⟨none, none⟩ [97, 98, 99])
  == some [(0, 2, 0, 1, 1, 1, 3, 5), (2, 3, 2, 0, 1, 2, 20, 20)]

/-! ## Histories -/

/-- **history_tokenize** (repaired tree: `fx.f3 = true`; the other flags arbitrary).
Start from a dictionary `D0` without stored mapper whose ids are inside its (non-empty)
connector — what the builders return.  After ANY history of successful `map`,
`reset_user_lexicon(Some csv)`, `reset_user_lexicon(None)` calls, tokenization with the
resulting dictionary equals — for every option setting and sentence — tokenization with the
ORIGINAL dictionary carrying the most recently loaded user lexicon *in the ids it was written
in* (`st.user`), up to the composition `st.τL`, `st.τR` of the applied mappings (wherever in the
history the lexicon was loaded).  `st = specRun …` is computed from the operations alone. -/
theorem history_tokenize (fx : Fixes) (hf3 : fx.f3 = true) (D0 : DictM) (hids : D0.IdsOK)
    (hm : D0.mapper = none) (posL : 0 < D0.numLeft) (posR : 0 < D0.numRight)
    (ops : List DOp) (D : DictM) (hrun : D0.run fx ops = .ok D) (o : TokOpts) (s : List Nat) :
    let st := specRun fx ⟨id, id, D0.user⟩ ops
    tokenize D.tokDict o s =
      (tokenize ({ D0 with user := st.user } : DictM).tokDict o s).map
        (·.map (Ren.ofIds st.τL st.τR).tok) :=
  ((HistRel.init D0 hids hm).run hf3 ops hrun).tokenize hids posL posR o s

/-- The invariant behind it, for use by other properties (costs, stored mapper, sizes). -/
theorem history_invariant (fx : Fixes) (hf3 : fx.f3 = true) (D0 : DictM) (hids : D0.IdsOK)
    (hm : D0.mapper = none) (ops : List DOp) (D : DictM) (hrun : D0.run fx ops = .ok D) :
    HistRel D0 (specRun fx ⟨id, id, D0.user⟩ ops) D :=
  (HistRel.init D0 hids hm).run hf3 ops hrun

/-- `bc,1,2,-7,U\n` -/
def c06UserCsv : List UInt8 := [98, 99, 44, 49, 44, 50, 44, 45, 55, 44, 85, 10]

/-- map (swap left ids), load a user lexicon, map again (swap right ids) -/
def c06Ops : List DOp := [.map [2, 1] [1, 2], .reset (some c06UserCsv), .map [1, 2] [2, 1]]

theorem c06Dict_idsOK : c06Dict.IdsOK := by
  refine ⟨?_, fun u hu => (by cases hu), ?_⟩
  · intro e he
    simp only [c06Dict, List.mem_cons, List.not_mem_nil, or_false] at he
    rcases he with rfl | rfl | rfl <;> exact ⟨by decide, by decide⟩
  · intro e he
    simp only [c06Dict, List.mem_cons, List.not_mem_nil, or_false] at he
    subst he; exact ⟨by decide, by decide⟩

/-- Non-vacuity of `history_tokenize`: `c06Dict` satisfies the hypotheses and the history
succeeds on it. -/
example : c06Dict.IdsOK ∧ c06Dict.mapper = none ∧ 0 < c06Dict.numLeft ∧ 0 < c06Dict.numRight ∧
    Fixes.all.f3 = true :=
  ⟨c06Dict_idsOK, rfl, by decide, by decide, rfl⟩

example : (match c06Dict.run Fixes.all c06Ops with | .ok _ => true | _ => false) = true := by decide

-- the user word `bc` was written with ids (1, 2); the composed mapping swaps both sides
#guard (match c06Dict.run Fixes.all c06Ops with
    | .ok D => showToks (tokenize D.tokDict ⟨none, none⟩ [97, 98, 99]) | _ => none)
  == some [(0, 1, 0, 0, 2, 2, 5, 6), (1, 3, 1, 0, 2, 1, -7, 3)]
#guard (match userOfCsv Fixes.all c06UserCsv with
    | .ok u => showToks (tokenize ({ c06Dict with user := some u } : DictM).tokDict ⟨none, none⟩ [97, 98, 99])
    | _ => none)
  == some [(0, 1, 0, 0, 1, 1, 5, 6), (1, 3, 1, 0, 1, 2, -7, 3)]

/-- **F3 on the pinned tree** (`f3 = false`): map (swap left ids 1, 2), map again (swap back),
then load the user word `bc,1,2,-7`.  The composed mapping is the identity, so the user word
must be stored with left id 1 (as the repaired tree does); the pinned tree translates it by the
second mapping only and stores left id 2 — `history_tokenize` fails: a different connection cost
is charged for the same text (total cost −6 instead of 3, `#guard`s below). -/
theorem f3_pinned_breaks_history :
    let ops : List DOp := [.map [2, 1] [1, 2], .map [2, 1] [1, 2], .reset (some c06UserCsv)]
    (match c06Dict.run Fixes.pinned ops with
      | .ok D => D.user.map (·.entries.map (·.param)) | _ => none) = some [⟨2, 2, -7⟩] ∧
    (match c06Dict.run Fixes.all ops with
      | .ok D => D.user.map (·.entries.map (·.param)) | _ => none) = some [⟨1, 2, -7⟩] ∧
    (match c06Dict.run Fixes.pinned ops with
      | .ok D => D.sys.entries == c06Dict.sys.entries && D.conn == c06Dict.conn | _ => false) = true := by
  decide

#guard (match c06Dict.run Fixes.pinned [.map [2, 1] [1, 2], .map [2, 1] [1, 2], .reset (some c06UserCsv)] with
    | .ok D => showToks (tokenize D.tokDict ⟨none, none⟩ [97, 98, 99]) | _ => none)
  == some [(0, 1, 0, 0, 1, 1, 5, 6), (1, 3, 1, 0, 2, 2, -7, -6)]
#guard (match c06Dict.run Fixes.all [.map [2, 1] [1, 2], .map [2, 1] [1, 2], .reset (some c06UserCsv)] with
    | .ok D => showToks (tokenize D.tokDict ⟨none, none⟩ [97, 98, 99]) | _ => none)
  == some [(0, 1, 0, 0, 1, 1, 5, 6), (1, 3, 1, 0, 1, 2, -7, 3)]

end Vibrato
