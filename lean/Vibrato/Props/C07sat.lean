/-
C07 / C16: when can the dual connector's pre-summed `i16` part saturate at all?

`C07.dual_eq_raw_of_fits` says `dual = raw` for every template split whose pre-summed entry fits 16 bits.  The
checks decide *whether that hypothesis can fail* from the files alone (flag `SAT` of the `train` / `cli` streams,
used to tell the known finding F28 from a new defect of the dual connector): with `K` templates, at most `K - 8` of
them are pre-summed, each contributing one `bigram.cost` entry (or nothing), so

    (K - 8) * (largest |entry|) ≤ 32767   ⟹   the pre-summed entry fits, for EVERY valid split and every id pair.

In particular with at most 8 templates nothing is pre-summed.  This file proves exactly that criterion
(`presum_fits_of_bound`) and the resulting unconditional agreement (`dual_eq_raw_of_bound`).
-/
import Vibrato.Props.C07

namespace Vibrato.C07
open Vibrato.Scorer Vibrato.RawConnector Vibrato.DualConnector

/-- every listed cost is at most `B` in absolute value -/
def CostsBounded (es : List (Str × Str × Int)) (B : Nat) : Prop := ∀ e ∈ es, e.2.2.natAbs ≤ B

theorem tableOpt_bounded {es : List (Str × Str × Int)} {B : Nat} (h : CostsBounded es B) (a b : Str) :
    ∀ c, tableOpt es a b = some c → c.natAbs ≤ B := by
  induction es with
  | nil => intro c hc; simp [tableOpt] at hc
  | cons e rest ih =>
    intro c hc
    have hrest : CostsBounded rest B := fun x hx => h x (List.mem_cons_of_mem _ hx)
    simp only [tableOpt] at hc
    cases hr : tableOpt rest a b with
    | some c' =>
      rw [hr] at hc
      simp only [Option.some.injEq] at hc
      subst hc
      exact ih hrest c' hr
    | none =>
      rw [hr] at hc
      simp only at hc
      split at hc
      · simp only [Option.some.injEq] at hc
        subst hc
        exact h e (List.mem_cons_self)
      · simp at hc

theorem pairCost_bounded {es : List (Str × Str × Int)} {B : Nat} (h : CostsBounded es B)
    (oa ob : Option Str) : (pairCost es oa ob).natAbs ≤ B := by
  unfold pairCost pairOpt
  cases oa with
  | none => simp
  | some a =>
    cases ob with
    | none => simp
    | some b =>
      simp only
      cases ht : tableOpt es a b with
      | none => simp
      | some c => simpa using tableOpt_bounded h a b c ht

theorem sum_natAbs_le_absSum : ∀ (xs : List Int), xs.sum.natAbs ≤ absSum xs
  | [] => by simp [absSum]
  | x :: xs => by
    have ih := sum_natAbs_le_absSum xs
    simp only [List.sum_cons, absSum]
    omega

theorem absSum_map_le {α : Type} (f : α → Int) (B : Nat) (hf : ∀ a, (f a).natAbs ≤ B) :
    ∀ (xs : List α), absSum (xs.map f) ≤ xs.length * B
  | [] => by simp [absSum]
  | x :: xs => by
    have ih := absSum_map_le f B hf xs
    have hx := hf x
    simp only [List.map_cons, absSum, List.length_cons, Nat.succ_mul]
    omega

theorem filter_partition_length {α : Type} (p : α → Bool) :
    ∀ xs : List α, (xs.filter (fun x => !p x)).length + (xs.filter p).length = xs.length
  | [] => rfl
  | x :: xs => by
    have ih := filter_partition_length p xs
    simp only [List.filter_cons, List.length_cons]
    cases hp : p x <;> simp <;> omega

/-- the two index lists split `0 .. K-1` -/
theorem matrix_raw_length (K : Nat) (split : List Nat) :
    (matrixIndices K split).length + (rawIndices K split).length = K := by
  unfold matrixIndices rawIndices
  have := filter_partition_length (fun i => split.contains i) (List.range K)
  simpa using this

/-- under a valid split exactly `K - min 8 K` templates are pre-summed -/
theorem matrix_length_of_valid (K : Nat) (split : List Nat) (hv : ValidSplit K split) :
    (matrixIndices K split).length = K - min SIMD_SIZE K := by
  have := matrix_raw_length K split
  unfold ValidSplit at hv
  omega

/-- **The saturation criterion.**  Repaired code (`fixed = true`, padding lanes contribute nothing): if every
`bigram.cost` entry is at most `B` in absolute value and `(K - 8) * B ≤ 32767`, the pre-summed entry of EVERY id pair
fits 16 bits for EVERY valid split. -/
theorem presum_fits_of_bound (es : List (Str × Str × Int)) (rfs lfs : List (List Str)) (split : List Nat)
    (B : Nat) (hB : CostsBounded es B)
    (hv : ValidSplit (templateCount rfs lfs) split)
    (hsat : (templateCount rfs lfs - SIMD_SIZE) * B ≤ 32767) (r l : Nat) :
    -32768 ≤ (matrixWs true es rfs lfs split r l).sum ∧ (matrixWs true es rfs lfs split r l).sum ≤ 32767 := by
  have hlen := matrix_length_of_valid _ split hv
  have habs : absSum (matrixWs true es rfs lfs split r l) ≤ (templateCount rfs lfs - SIMD_SIZE) * B := by
    unfold matrixWs
    simp only [absSum_append, absSum_replicate, dualPadTerm, if_true, Int.natAbs_zero, Nat.mul_zero, Nat.add_zero]
    have h1 := absSum_map_le (posCost es rfs lfs r l) B
      (fun p => by unfold posCost; exact pairCost_bounded hB _ _)
      (matrixIndices (templateCount rfs lfs) split)
    rw [hlen] at h1
    have h2 : templateCount rfs lfs - min SIMD_SIZE (templateCount rfs lfs) = templateCount rfs lfs - SIMD_SIZE := by
      omega
    rw [h2] at h1
    exact h1
  have hs := sum_natAbs_le_absSum (matrixWs true es rfs lfs split r l)
  omega

/-- With at most 8 templates nothing is pre-summed: the criterion holds whatever the entries are. -/
theorem presum_fits_le8 (es : List (Str × Str × Int)) (rfs lfs : List (List Str)) (split : List Nat)
    (hv : ValidSplit (templateCount rfs lfs) split) (hK : templateCount rfs lfs ≤ SIMD_SIZE) (r l : Nat) :
    (matrixWs true es rfs lfs split r l).sum = 0 := by
  have hlen := matrix_length_of_valid _ split hv
  have h0 : (matrixIndices (templateCount rfs lfs) split).length = 0 := by omega
  have hnil : matrixIndices (templateCount rfs lfs) split = [] := List.eq_nil_of_length_eq_zero h0
  unfold matrixWs
  simp [hnil, dualPadTerm, padCount]

/-- **dual = raw under the file-level bound**: `C07.dual_eq_raw_of_fits` with its two "fits 16 bits" hypotheses
discharged by the saturation criterion (repaired code, so `dualExcess = 0`). -/
theorem dual_eq_raw_of_bound (oc : Bool) (parseCsvRow : Str → Outcome (List Str)) (split : List Nat)
    (right left cost : List (Option Str)) (rconn : RawConnector.Conn) (dconn : DualConnector.Conn)
    (hn : cost.length + 1 ≤ INVALID)
    (hraw : RawConnector.fromReaders true parseCsvRow right left cost = .ok rconn)
    (hdual : DualConnector.fromReaders true oc parseCsvRow split right left cost = .ok dconn) :
    ∃ es rfs lfs, costEntries cost = some es ∧ featLines parseCsvRow right 0 = some rfs ∧
      featLines parseCsvRow left 0 = some lfs ∧
      (ValidSplit (templateCount rfs lfs) split →
        ∀ (B : Nat), CostsBounded es B → (templateCount rfs lfs - SIMD_SIZE) * B ≤ 32767 →
        ∀ r l, r ≤ rfs.length → l ≤ lfs.length → r + 1 < 65536 → l + 1 < 65536 →
          absSum (rawWs true es rfs lfs r l) ≤ 2147483647 →
          absSum (matrixWs true es rfs lfs split r l ++ rawLaneWs true es rfs lfs split r l) ≤ 2147483647 →
          ∃ x, rawCost oc rconn r l = .ok x ∧ dualCost oc dconn r l = .ok x) := by
  obtain ⟨es, rfs, lfs, h1, h2, h3, h⟩ :=
    dual_eq_raw_of_fits true oc parseCsvRow split right left cost rconn dconn hn hraw hdual
  refine ⟨es, rfs, lfs, h1, h2, h3, fun hv B hB hsat r l hr hl hr16 hl16 ha1 ha2 => ?_⟩
  obtain ⟨hlo, hhi⟩ := presum_fits_of_bound es rfs lfs split B hB hv hsat r l
  obtain ⟨x, hx1, hx2⟩ := h hv r l hr hl hr16 hl16 ha1 ha2 hlo hhi
  refine ⟨x, hx1, ?_⟩
  simpa [dualExcess] using hx2

/-- Non-vacuity of the criterion: 10 templates, entries up to 16383: `(10 - 8) * 16383 = 32766 ≤ 32767`. -/
example : (10 - SIMD_SIZE) * 16383 ≤ 32767 := by decide

end Vibrato.C07
