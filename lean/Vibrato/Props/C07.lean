import Vibrato.Proofs.Scorer
import Vibrato.Proofs.RawConnector
import Vibrato.Proofs.DualConnector
import Vibrato.Proofs.Avx2
/-!
# C07 — Compact bigram connectors compute the defining feature-pair sum

Property theorems for the models in `Vibrato/Model/{Scorer,RawConnector,DualConnector}.lean`.
Helper lemmas are in `Vibrato/Proofs/{Scorer,RawConnector,DualConnector}.lean`.
-/
namespace Vibrato.C07
open Vibrato.Scorer Vibrato.RawConnector

/-! ## 1. The XOR double array -/

/-- **find_base_terminates**: the `while !check_base(base, ..) { base += 1 }` loop terminates
(the model runs it with fuel `baseFuel`, a power of two above all keys of the row and above
`checks.len()`, which is itself a free base) and returns the *least* free base. -/
theorem find_base_terminates (row : Row) (checks : List Nat) :
    checkBase (findBase row checks) row checks = true ∧
    (∀ b, b < findBase row checks → checkBase b row checks = false) ∧
    findBase row checks ≤ baseFuel row checks :=
  ⟨(findBase_spec row checks).1, (findBase_spec row checks).2, findBase_le row checks⟩

example : findBase [(0, 1), (3, 2)] [7, 4294967295, 9, 4294967295] = 4 := by decide

/-- **Slot invariant** of `build`: an entry `(k, key2) ↦ cost` sits in slot `bases[k] ^ key2`, and
every used slot is of that form for its owner `checks[p]`.  (`chk`/`cst` read `UNUSED`/`0`
beyond the end of the arrays.)  `TrieOK t` = fewer than `2^32 - 1` first keys and no duplicate
second key within a row; both hold for every `ScorerBuilder` with `U31` keys, see
`builder_trieOK`.  In particular `key1 = UNUSED_CHECK = 2^32 - 1` cannot occur. -/
theorem build_slot_invariant (t : Trie) (ht : TrieOK t) :
    (build t).checks.length = (build t).costs.length ∧ (build t).bases.length = t.length ∧
    (∀ k row b, t[k]? = some row → (build t).bases[k]? = some b → ∀ e ∈ row,
        chk (build t).checks (b ^^^ e.1) = k ∧ cst (build t).costs (b ^^^ e.1) = e.2) ∧
    (∀ p, chk (build t).checks p ≠ UNUSED_CHECK →
      ∃ row b e, t[chk (build t).checks p]? = some row ∧
        (build t).bases[chk (build t).checks p]? = some b ∧ e ∈ row ∧ p = b ^^^ e.1) := by
  have inv := build_inv t ht
  refine ⟨inv.len, inv.blen, ?_, fun p hp => (inv.bwd p hp).2⟩
  intro k row b hrow hb
  exact inv.fwd k row b (List.getElem?_eq_some_iff.1 hrow).1 hrow hb

/-- Every builder reachable by `insert` calls with `U31` first keys is well formed: rows are
strictly sorted (`BTreeMap`), `trie.len() ≤ 2^31 - 1 < UNUSED_CHECK`.  (A first key equal to
`U31::MAX` gives `trie.len() = 2^31`, still below `UNUSED_CHECK`; we use the bound `2^31`.) -/
theorem builder_trieOK (es : List (Nat × Nat × Int)) (h : ∀ e ∈ es, e.1 < 2147483648) :
    TrieOK (ofEntries es) :=
  (trieSorted_ofEntries es 2147483648 h).ok (by decide)

/-- **retrieve_build**: looking up `(k1, k2)` in the built double array is the lookup in the
two-level map, for *all* keys (in particular all `k1, k2 < 2^31`, including `INVALID`), and never
panics. -/
theorem retrieve_build (t : Trie) (ht : TrieOK t) (k1 k2 : Nat) :
    retrieve (build t) k1 k2 = .ok ((t[k1]?).bind (rowLookup k2)) :=
  retrieve_build_aux t ht k1 k2

/-- The same for a builder filled by `insert` calls: the last inserted cost wins. -/
theorem retrieve_build_ofEntries (es : List (Nat × Nat × Int)) (h : ∀ e ∈ es, e.1 < 2147483648)
    (k1 k2 : Nat) : retrieve (build (ofEntries es)) k1 k2 = .ok (lastEntry es k1 k2) := by
  rw [retrieve_build _ (builder_trieOK es h)]
  exact congrArg Outcome.ok (get2_ofEntries es k1 k2)

/-- `retrieve(INVALID, ·)` is `None` unless the builder has a row for the key `U31::MAX`. -/
theorem retrieve_invalid_left (t : Trie) (ht : TrieOK t) (h : t.length ≤ INVALID) (k2 : Nat) :
    retrieve (build t) INVALID k2 = .ok none := by
  rw [retrieve_build t ht, List.getElem?_eq_none h]; rfl

-- non-vacuity: a builder with colliding rows (both rows want base 0), overwritten entry
example : TrieOK (ofEntries [(1, 2, 3), (0, 2, 5), (1, 0, 7), (1, 2, 4)]) :=
  builder_trieOK _ (by decide)
example : build (ofEntries [(1, 2, 3), (0, 2, 5), (1, 0, 7), (1, 2, 4)]) =
    ⟨[0, 1], [4294967295, 1, 0, 1], [0, 7, 5, 4]⟩ := by decide
example : retrieve (build (ofEntries [(1, 2, 3), (0, 2, 5), (1, 0, 7), (1, 2, 4)])) 1 2 = .ok (some 4) := by
  decide

/-! ## 2. The raw connector -/

/-- **raw_cost_eq_sum** (exact version for both the pinned and the repaired code).

If `RawConnector::from_readers` succeeds on the three files then all three files parse
(`costEntries`, `featLines`: the *strings*), the connector has one more id per side than the
files have lines, and for all ids in range (`r, l < 65535` because `id + 1` is computed in
`u16`), provided the absolute values of the lane costs sum to at most `i32::MAX`:

`cost(r, l) = Σ_{pos < K} table(rightFeat r pos, leftFeat l pos) + (K' - K) · padTerm`

where `K` = longest row of either file (NOT the padded length), `K' = ⌈K/8⌉·8`, unlisted pairs
count 0, id 0 is the empty feature at every position `< K`, and
`padTerm = table("","")` if `r = 0 ∧ l = 0` on the pinned tree (`fixed = false`), else `0`.

Hypothesis `hn` (fewer than `2^31 - 2` cost lines) excludes an interned feature receiving the
id `U31::MAX = INVALID_FEATURE_ID`. -/
theorem raw_cost_eq_sum (fixed oc : Bool) (parseCsvRow : Str → Outcome (List Str))
    (right left cost : List (Option Str)) (conn : Conn)
    (hn : cost.length + 1 ≤ INVALID)
    (h : fromReaders fixed parseCsvRow right left cost = .ok conn) :
    ∃ es rfs lfs, costEntries cost = some es ∧ featLines parseCsvRow right 0 = some rfs ∧
      featLines parseCsvRow left 0 = some lfs ∧
      numIds conn.rightFeatIds conn.fts = rfs.length + 1 ∧
      numIds conn.leftFeatIds conn.fts = lfs.length + 1 ∧
      ∀ r l, r ≤ rfs.length → l ≤ lfs.length → r + 1 < 65536 → l + 1 < 65536 →
        absSum (rawWs fixed es rfs lfs r l) ≤ 2147483647 →
        rawCost oc conn r l = .ok (defSum es rfs lfs r l +
          ((paddedSize (templateCount rfs lfs) - templateCount rfs lfs : Nat) : Int) *
            rawPadTerm fixed es r l) := by
  obtain ⟨es, rfs, lfs, h1, h2, h3, h4, h5, h6⟩ :=
    rawCost_spec fixed oc parseCsvRow right left cost conn hn h
  refine ⟨es, rfs, lfs, h1, h2, h3, h4, h5, ?_⟩
  intro r l hr hl hr16 hl16 hsum
  rw [h6 r l hr hl hr16 hl16 hsum, rawWs_sum fixed es rfs lfs r l hr hl]

/-- For the repaired code the padding term vanishes: the raw connector computes exactly the
defining sum. -/
theorem raw_cost_eq_sum_fixed (oc : Bool) (parseCsvRow : Str → Outcome (List Str))
    (right left cost : List (Option Str)) (conn : Conn)
    (hn : cost.length + 1 ≤ INVALID)
    (h : fromReaders true parseCsvRow right left cost = .ok conn) :
    ∃ es rfs lfs, costEntries cost = some es ∧ featLines parseCsvRow right 0 = some rfs ∧
      featLines parseCsvRow left 0 = some lfs ∧
      ∀ r l, r ≤ rfs.length → l ≤ lfs.length → r + 1 < 65536 → l + 1 < 65536 →
        absSum (rawWs true es rfs lfs r l) ≤ 2147483647 →
        rawCost oc conn r l = .ok (defSum es rfs lfs r l) := by
  obtain ⟨es, rfs, lfs, h1, h2, h3, _, _, h6⟩ :=
    raw_cost_eq_sum true oc parseCsvRow right left cost conn hn h
  refine ⟨es, rfs, lfs, h1, h2, h3, ?_⟩
  intro r l hr hl hr16 hl16 hsum
  rw [h6 r l hr hl hr16 hl16 hsum]
  simp [rawPadTerm]

/-- On the pinned tree the deviation is confined to the pair `(0, 0)` (BOS/EOS row against
BOS/EOS row) and to models that list the pair `("", "")`. -/
theorem raw_cost_eq_sum_pinned_off_bos (oc : Bool) (parseCsvRow : Str → Outcome (List Str))
    (right left cost : List (Option Str)) (conn : Conn)
    (hn : cost.length + 1 ≤ INVALID)
    (h : fromReaders false parseCsvRow right left cost = .ok conn) :
    ∃ es rfs lfs, costEntries cost = some es ∧ featLines parseCsvRow right 0 = some rfs ∧
      featLines parseCsvRow left 0 = some lfs ∧
      ∀ r l, r ≤ rfs.length → l ≤ lfs.length → r + 1 < 65536 → l + 1 < 65536 →
        (r ≠ 0 ∨ l ≠ 0 ∨ table es [] [] = 0) →
        absSum (rawWs false es rfs lfs r l) ≤ 2147483647 →
        rawCost oc conn r l = .ok (defSum es rfs lfs r l) := by
  obtain ⟨es, rfs, lfs, h1, h2, h3, _, _, h6⟩ :=
    raw_cost_eq_sum false oc parseCsvRow right left cost conn hn h
  refine ⟨es, rfs, lfs, h1, h2, h3, ?_⟩
  intro r l hr hl hr16 hl16 hne hsum
  rw [h6 r l hr hl hr16 hl16 hsum]
  have : rawPadTerm false es r l = 0 := by
    unfold rawPadTerm
    split
    · rename_i hc
      rcases hne with h | h | h
      · exact absurd hc.1 h
      · exact absurd hc.2.1 h
      · exact h
    · rfl
  rw [this]; simp

/-! ### Witnesses (finding F14, raw part; empty feature files) -/

/-- A csv splitter good enough for the witnesses (cells without quotes). -/
def csvPlain (s : Str) : Outcome (List Str) := .ok (splitOn ',' s)

/-- One template (`K = 1`, padded to 8 lanes), cost file `/<TAB>5`, i.e. `table("","") = 5`. -/
def w1Right : List (Option Str) := [some ['1', '\t', 'a']]
def w1Left : List (Option Str) := [some ['1', '\t', 'b']]
def w1Cost : List (Option Str) := [some ['/', '\t', '5']]

/-- **The pinned code violates the property at `(0,0)`**: the defining sum is
`1 · table("","") = 5`, the connector returns `8 · 5 = 40` (verified on the real crate). -/
theorem raw_cost_deviates_pinned :
    (match fromReaders false csvPlain w1Right w1Left w1Cost with
      | .ok c => rawCost true c 0 0
      | _ => .err) = .ok 40 ∧
    defSum [([], [], 5)] [[['a']]] [[['b']]] 0 0 = 5 := by decide

/-- The repaired code returns the defining sum on the same input. -/
theorem raw_cost_witness_fixed :
    (match fromReaders true csvPlain w1Right w1Left w1Cost with
      | .ok c => rawCost true c 0 0
      | _ => .err) = .ok 5 := by decide

/-- Non-vacuity of `raw_cost_eq_sum`: the witness input satisfies its hypotheses. -/
example : ∃ conn, fromReaders false csvPlain w1Right w1Left w1Cost = .ok conn ∧
    w1Cost.length + 1 ≤ INVALID := by
  refine ⟨_, rfl, by decide⟩

/-- Pinned tree: with both feature files empty `from_readers` panics (`chunks_mut(0)`) instead of
returning `Err` (verified on the real crate, finding F17); the repaired code returns `Err`. -/
theorem raw_from_readers_empty_panics (csv : Str → Outcome (List Str)) :
    (match fromReaders false csv [] [] w1Cost with
      | .panic => true
      | _ => false) = true ∧
    (match fromReaders true csv [] [] w1Cost with
      | .err => true
      | _ => false) = true := by
  exact ⟨rfl, rfl⟩

/-- Remark on "`*` counts as 0": the code has no special case for `*`; it is an ordinary feature
string that is simply never listed in a trained `bigram.cost`.  If it *is* listed, it counts. -/
theorem star_is_an_ordinary_feature :
    (match fromReaders false csvPlain [some ['1', '\t', '*']] [some ['1', '\t', '*']]
        [some ['*', '/', '*', '\t', '5']] with
      | .ok c => rawCost true c 1 1
      | _ => .err) = .ok 5 := by decide

/-! ## 3. The dual connector -/

open Vibrato.DualConnector in
/-- **dual_cost_eq** (exact, pinned and repaired code, *every* split the greedy search may
return).  If `DualConnector::from_readers` succeeds and `split` leaves `min(8, K)` raw templates,
then (pinned code: success already implies `K ≥ 8` — finding F11) for all ids in range, without
`i32` overflow,

`cost(r, l) = clamp_i16(Σ_{pos ∈ matrix templates} c(pos) + pad · padTerm) + Σ_{pos ∈ raw templates} c(pos)`

with `c(pos) = table(rightFeat r pos, leftFeat l pos)`, `pad = ⌈|M|/8⌉·8 - |M|` and
`padTerm = table("","")` on the pinned tree (`to_simd_vec` pads with id 0 = `""`), `0` after
the repair. -/
theorem dual_cost_eq (fixed oc : Bool) (parseCsvRow : Str → Outcome (List Str)) (split : List Nat)
    (right left cost : List (Option Str)) (dconn : DualConnector.Conn)
    (hn : cost.length + 1 ≤ INVALID)
    (h : DualConnector.fromReaders fixed oc parseCsvRow split right left cost = .ok dconn) :
    ∃ es rfs lfs, costEntries cost = some es ∧ featLines parseCsvRow right 0 = some rfs ∧
      featLines parseCsvRow left 0 = some lfs ∧
      (ValidSplit (templateCount rfs lfs) split →
        (fixed = false → SIMD_SIZE ≤ templateCount rfs lfs) ∧
        numRight dconn = rfs.length + 1 ∧ numLeft dconn = lfs.length + 1 ∧
        ∀ r l, r ≤ rfs.length → l ≤ lfs.length →
          absSum (matrixWs fixed es rfs lfs split r l ++ rawLaneWs fixed es rfs lfs split r l)
            ≤ 2147483647 →
          dualCost oc dconn r l = .ok (clampI16 (matrixWs fixed es rfs lfs split r l).sum +
            (rawLaneWs fixed es rfs lfs split r l).sum)) :=
  dualCost_spec fixed oc parseCsvRow split right left cost dconn hn h

open Vibrato.DualConnector in
/-- **dual_eq_sum_of_fits**: when the pre-summed part fits in 16 bits the dual connector returns
the defining sum plus `pad · padTerm` — on the pinned tree for *every* pair `(r, l)`, not only
`(0,0)`. -/
theorem dual_eq_sum_of_fits (fixed oc : Bool) (parseCsvRow : Str → Outcome (List Str)) (split : List Nat)
    (right left cost : List (Option Str)) (dconn : DualConnector.Conn)
    (hn : cost.length + 1 ≤ INVALID)
    (h : DualConnector.fromReaders fixed oc parseCsvRow split right left cost = .ok dconn) :
    ∃ es rfs lfs, costEntries cost = some es ∧ featLines parseCsvRow right 0 = some rfs ∧
      featLines parseCsvRow left 0 = some lfs ∧
      (ValidSplit (templateCount rfs lfs) split →
        ∀ r l, r ≤ rfs.length → l ≤ lfs.length →
          absSum (matrixWs fixed es rfs lfs split r l ++ rawLaneWs fixed es rfs lfs split r l)
            ≤ 2147483647 →
          -32768 ≤ (matrixWs fixed es rfs lfs split r l).sum →
          (matrixWs fixed es rfs lfs split r l).sum ≤ 32767 →
          dualCost oc dconn r l = .ok (defSum es rfs lfs r l +
            ((padCount (matrixIndices (templateCount rfs lfs) split).length : Nat) : Int) *
              dualPadTerm fixed es)) := by
  obtain ⟨es, rfs, lfs, h1, h2, h3, h4⟩ :=
    dual_cost_eq fixed oc parseCsvRow split right left cost dconn hn h
  refine ⟨es, rfs, lfs, h1, h2, h3, ?_⟩
  intro hv r l hr hl hsum hlo hhi
  obtain ⟨_, _, _, h5⟩ := h4 hv
  rw [h5 r l hr hl hsum, ← dualWs_sum]
  have : clampI16 (matrixWs fixed es rfs lfs split r l).sum = (matrixWs fixed es rfs lfs split r l).sum := by
    unfold clampI16; rw [if_neg (by omega), if_neg (by omega)]
  rw [this]

/-- How far the dual connector is from the raw connector on the same files. -/
def dualExcess (fixed : Bool) (es : List (Str × Str × Int)) (K r l : Nat) : Int :=
  if fixed then 0 else if r = 0 ∧ l = 0 then 0 else ((paddedSize K - K : Nat) : Int) * table es [] []

open Vibrato.DualConnector in
/-- **dual_eq_raw_of_fits**: for every split, if the pre-summed entry fits in `i16` (and nothing
overflows `i32`), `dual.cost(r,l) = raw.cost(r,l) + dualExcess`, where `dualExcess = 0` for the
repaired code (`fixed = true`: the two connectors agree for any number of templates) and, on the
pinned tree, `dualExcess = (⌈K/8⌉·8 - K) · table("","")` for every pair other than `(0,0)`. -/
theorem dual_eq_raw_of_fits (fixed oc : Bool) (parseCsvRow : Str → Outcome (List Str)) (split : List Nat)
    (right left cost : List (Option Str)) (rconn : RawConnector.Conn) (dconn : DualConnector.Conn)
    (hn : cost.length + 1 ≤ INVALID)
    (hraw : RawConnector.fromReaders fixed parseCsvRow right left cost = .ok rconn)
    (hdual : DualConnector.fromReaders fixed oc parseCsvRow split right left cost = .ok dconn) :
    ∃ es rfs lfs, costEntries cost = some es ∧ featLines parseCsvRow right 0 = some rfs ∧
      featLines parseCsvRow left 0 = some lfs ∧
      (ValidSplit (templateCount rfs lfs) split →
        ∀ r l, r ≤ rfs.length → l ≤ lfs.length → r + 1 < 65536 → l + 1 < 65536 →
          absSum (rawWs fixed es rfs lfs r l) ≤ 2147483647 →
          absSum (matrixWs fixed es rfs lfs split r l ++ rawLaneWs fixed es rfs lfs split r l)
            ≤ 2147483647 →
          -32768 ≤ (matrixWs fixed es rfs lfs split r l).sum →
          (matrixWs fixed es rfs lfs split r l).sum ≤ 32767 →
          ∃ x, rawCost oc rconn r l = .ok x ∧
            dualCost oc dconn r l = .ok (x + dualExcess fixed es (templateCount rfs lfs) r l)) := by
  obtain ⟨es, rfs, lfs, h1, h2, h3, _, _, h6⟩ :=
    raw_cost_eq_sum fixed oc parseCsvRow right left cost rconn hn hraw
  obtain ⟨es', rfs', lfs', d1, d2, d3, d4⟩ :=
    dual_cost_eq fixed oc parseCsvRow split right left cost dconn hn hdual
  rw [h1] at d1; rw [h2] at d2; rw [h3] at d3
  cases d1; cases d2; cases d3
  refine ⟨es, rfs, lfs, h1, h2, h3, ?_⟩
  intro hv r l hr hl hr16 hl16 hsr hsd hlo hhi
  obtain ⟨hK8, _, _, d5⟩ := d4 hv
  refine ⟨_, h6 r l hr hl hr16 hl16 hsr, ?_⟩
  rw [d5 r l hr hl hsd]
  have hcl : clampI16 (matrixWs fixed es rfs lfs split r l).sum = (matrixWs fixed es rfs lfs split r l).sum := by
    unfold clampI16; rw [if_neg (by omega), if_neg (by omega)]
  rw [hcl, dualWs_sum]
  congr 1
  unfold dualExcess dualPadTerm rawPadTerm
  cases fixed with
  | true => simp
  | false =>
    rw [padCount_matrix _ split hv (hK8 rfl)]
    simp only [Bool.false_eq_true, if_false, and_true]
    by_cases hc : r = 0 ∧ l = 0
    · simp [hc]
    · rw [if_neg hc, if_neg hc]; simp

/-! ### Witnesses (findings F11 and F14, dual part) -/

/-- **F11**: on the pinned tree `DualConnector::from_readers` panics whenever the model has fewer
than 8 templates (`feat_template_size - SIMD_SIZE` underflows), whatever the split. -/
theorem dual_pinned_panics_below_8 (oc : Bool) (csv : Str → Outcome (List Str)) (split : List Nat)
    (right left cost : List (Option Str)) (b : Builder) (s : Scorer)
    (hb : builderFromReaders csv right left cost = .ok b) (hs : buildChecked b.trie = .ok s)
    (hK : b.K < SIMD_SIZE) :
    DualConnector.fromReaders false oc csv split right left cost = .panic := by
  unfold DualConnector.fromReaders
  rw [hb]
  simp only [hs, Bool.false_eq_true, false_and, if_false]
  have : DualConnector.createMatrix false oc b.rightRows b.leftRows
      (DualConnector.matrixIndices b.K split) b.K s = .panic := by
    unfold DualConnector.createMatrix
    simp [hK]
  rw [this]

/-- The witness model of §2 (one template): pinned dual panics, repaired dual works and returns
the defining sum. -/
theorem dual_witness_one_template :
    DualConnector.fromReaders false true csvPlain [0] w1Right w1Left w1Cost = .panic ∧
    (match DualConnector.fromReaders true true csvPlain [0] w1Right w1Left w1Cost with
      | .ok c => (DualConnector.dualCost true c 0 0, DualConnector.dualCost true c 1 1)
      | _ => (.err, .err)) = (.ok 5, .ok 0) := by decide

/-- Nine templates `a..i` / `A..I`, the only listed pair is `("","") ↦ 1000`. -/
def w9Right : List (Option Str) := [some "1\ta,b,c,d,e,f,g,h,i".toList]
def w9Left : List (Option Str) := [some "1\tA,B,C,D,E,F,G,H,I".toList]
def w9Cost : List (Option Str) := [some "/\t1000".toList]

/-- **F14, dual part**: with 9 templates the defining sum for `(1,1)` is 0 and the raw connector
returns 0, but the pinned dual connector returns `7 · 1000` (7 zero padding lanes in the matrix
part; verified on the real crate).  The repaired model returns 0. -/
theorem dual_deviates_pinned :
    (match RawConnector.fromReaders false csvPlain w9Right w9Left w9Cost with
      | .ok c => rawCost true c 1 1
      | _ => .err) = .ok 0 ∧
    (match DualConnector.fromReaders false true csvPlain [0, 1, 2, 3, 4, 5, 6, 7] w9Right w9Left w9Cost with
      | .ok c => DualConnector.dualCost true c 1 1
      | _ => .err) = .ok 7000 ∧
    (match DualConnector.fromReaders true true csvPlain [0, 1, 2, 3, 4, 5, 6, 7] w9Right w9Left w9Cost with
      | .ok c => DualConnector.dualCost true c 1 1
      | _ => .err) = .ok 0 := by decide

/-- Non-vacuity of `dual_eq_raw_of_fits`: a successful pinned dual build with a valid split. -/
example : (∃ c, DualConnector.fromReaders false true csvPlain [0, 1, 2, 3, 4, 5, 6, 7]
      w9Right w9Left w9Cost = .ok c) ∧ DualConnector.ValidSplit 9 [0, 1, 2, 3, 4, 5, 6, 7] := by
  refine ⟨⟨_, rfl⟩, by decide⟩

/-! ## 4. Portable and AVX2 code paths -/

/-- **avx2_eq_scalar**: on a built scorer that satisfies what the AVX2 code assumes (`AvxOK`:
both lengths fit `i32`, bases non-negative as `i32`), for `U31` keys in 8-lane chunks and without
`i32` overflow (`Σ|cost| ≤ i32::MAX` over all lanes), the AVX2 `accumulate_cost` (masked gathers,
signed compares, per-lane wrapping add, horizontal sum) returns what the portable one returns,
namely the sum of the looked-up costs. -/
theorem avx2_eq_scalar (oc : Bool) (t : Trie) (ht : TrieOK t) (hs : AvxOK (build t))
    (keys1 keys2 : List U31x8) (hlen : keys1.length = keys2.length)
    (h1 : ∀ c ∈ keys1, c.length = 8 ∧ ∀ k ∈ c, k < 2147483648)
    (h2 : ∀ c ∈ keys2, c.length = 8 ∧ ∀ k ∈ c, k < 2147483648)
    (hsum : absSum (laneWs t keys1.flatten keys2.flatten) ≤ 2147483647) :
    accumulateAvx2 oc (build t) keys1 keys2 = accumulate oc (build t) keys1 keys2 ∧
    accumulate oc (build t) keys1 keys2 = .ok (laneWs t keys1.flatten keys2.flatten).sum := by
  have hp := DualConnector.accumulate_chunks oc t ht keys1 keys2 hlen (fun c hc => (h1 c hc).1)
    (fun c hc => (h2 c hc).1) hsum
  exact ⟨by rw [accumulateAvx2_build oc t ht hs keys1 keys2 hlen h1 h2 hsum, hp], hp⟩

/-- A single AVX2 lane agrees with the portable `retrieve_cost` on any scorer satisfying `AvxOK`
(also on decoded ones), `None ↦ 0`. -/
theorem avx2_lane_eq_retrieve (s : Scorer) (hs : AvxOK s) (k1 k2 : Nat)
    (h1 : k1 < 2147483648) (h2 : k2 < 2147483648) :
    retrieveAvx2Lane s k1 k2 =
      match retrieve s k1 k2 with
      | .ok (some c) => .ok c
      | .ok none => .ok 0
      | .err => .err
      | .panic => .panic :=
  retrieveAvx2Lane_eq s hs k1 k2 h1 h2

-- non-vacuity: the scorer of the crate's unit test, the unit test's key vectors (sum 100)
def utEntries : List (Nat × Nat × Int) :=
  [(18,17,1),(4,9,2),(17,0,3),(17,12,4),(8,6,5),(2,5,6),(12,18,7),(9,1,8),(19,5,9),(9,4,10),
   (0,19,11),(2,19,12),(7,9,13),(18,9,14),(17,4,15),(9,6,16),(13,0,17),(1,4,18),(0,18,19),(18,11,20)]
def utKeys1 : List U31x8 := toSimdVec [18,17,0,INVALID,8,12,19,INVALID,INVALID,9,0,7,17,13,0,INVALID]
def utKeys2 : List U31x8 := toSimdVec [17,0,0,INVALID,6,18,5,INVALID,INVALID,9,19,9,4,0,18,INVALID]

set_option maxRecDepth 8000 in
example : TrieOK (ofEntries utEntries) := builder_trieOK _ (by decide)
set_option maxRecDepth 8000 in
example : AvxOK (build (ofEntries utEntries)) := ⟨by decide, by decide, by decide⟩
set_option maxRecDepth 8000 in
example : (∀ c ∈ utKeys1, c.length = 8 ∧ ∀ k ∈ c, k < 2147483648) ∧
    (∀ c ∈ utKeys2, c.length = 8 ∧ ∀ k ∈ c, k < 2147483648) ∧ utKeys1.length = utKeys2.length := by
  decide
set_option maxRecDepth 8000 in
example : accumulateAvx2 true (build (ofEntries utEntries)) utKeys1 utKeys2 = .ok 100 ∧
    accumulate true (build (ofEntries utEntries)) utKeys1 utKeys2 = .ok 100 := by decide

end Vibrato.C07
