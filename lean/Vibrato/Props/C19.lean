/-
Property C19 — "The corpus text format round-trips and accepts the tokenizer's output".

Model: `Vibrato/Model/Corpus.lean` (`parseCorpus` = `Corpus::from_reader` on the pinned
tree, `parseCorpusWith true` = minimally repaired reader, `writeExample` =
`Example::write`, `mecabOutput` = printing loop of the `tokenize` CLI).
Helper lemmas: `Vibrato/Proofs/Corpus.lean`.

Well-formedness of a word (`WordWF w`, decidable), i.e. exactly what is needed for a word
to survive `write` + `from_reader`:

* `validUtf8 surface`, `validUtf8 feature`  – type invariant of Rust `String`; no restriction;
* no `\t` (0x09) and no `\n` (0x0A) in surface and feature                    (`WordRepr`);
* the feature does not end in `\r` (0x0D)                                     (`NoTrailingCR`).

Nothing is needed about `\r` elsewhere (inside or at the end of a surface, inside a
feature), and nothing about the text `EOS`: a token line always contains a tab, so a word
whose surface or feature is `EOS` is never mistaken for the sentence terminator.
An example is kept by the reader iff the concatenation of its surfaces is non-empty
(`Example.NonEmpty`) – this is stronger than "has at least one token".

What the real code does outside these conditions is shown by the `excluded_*` theorems at
the end (tab ⇒ `Err` on re-reading; line feed ⇒ `Err` or a silently different corpus;
trailing `\r` ⇒ silently removed; empty sentence ⇒ silently dropped).
-/
import Vibrato.Proofs.Corpus

namespace Vibrato.Corpus

/-! ### Concrete values for the non-vacuity examples -/

/-- `ab\tN,x` / `あ\tP` -/
def exA : Example := ⟨[⟨[97, 98], [78, 44, 120]⟩, ⟨[0xE3, 0x81, 0x82], [80]⟩]⟩
/-- `c\r\tEOS` (a surface ending in `\r`, a feature equal to `EOS`) -/
def exB : Example := ⟨[⟨[99, 13], [69, 79, 83]⟩]⟩
/-- `EOS\t` (surface `EOS`, empty feature) -/
def exC : Example := ⟨[⟨[69, 79, 83], []⟩]⟩
/-- a sentence whose only token has an empty surface: `\tX` -/
def exEmpty : Example := ⟨[⟨[], [88]⟩]⟩

/-! ### Round trip -/

/-- **corpus_roundtrip.**  Writing well-formed, non-empty examples one after the other
(as `split` does) and reading the text back gives exactly the same examples.  Holds for
the pinned reader and for the repaired one. -/
theorem corpus_roundtrip (fixed : Bool) (exs : List Example)
    (hwf : ∀ e ∈ exs, ExampleWF e) (hne : ∀ e ∈ exs, e.NonEmpty) :
    parseCorpusWith fixed (exs.flatMap writeExample) = .ok exs := by
  have := parseCorpusWith_write fixed exs hwf
  rw [keepNonEmpty_of_all hne] at this
  exact this

/-- The same for `Corpus::from_reader` of the pinned tree. -/
theorem corpus_roundtrip_pinned (exs : List Example)
    (hwf : ∀ e ∈ exs, ExampleWF e) (hne : ∀ e ∈ exs, e.NonEmpty) :
    parseCorpus (exs.flatMap writeExample) = .ok exs :=
  corpus_roundtrip false exs hwf hne

example : parseCorpus ([exA, exB, exC].flatMap writeExample) = .ok [exA, exB, exC] :=
  corpus_roundtrip_pinned [exA, exB, exC] (by decide) (by decide)

/-- **empty_sentences_dropped.**  For well-formed examples in general, the reader returns
exactly those whose sentence (concatenated surfaces) is non-empty, in order; the others –
a bare `EOS` line, or token lines that all have an empty surface – vanish silently. -/
theorem empty_sentences_dropped (fixed : Bool) (exs : List Example)
    (hwf : ∀ e ∈ exs, ExampleWF e) :
    parseCorpusWith fixed (exs.flatMap writeExample) =
      .ok (exs.filter (fun e => decide e.NonEmpty)) :=
  parseCorpusWith_write fixed exs hwf

example : parseCorpus ([exA, ⟨[]⟩, exEmpty, exB].flatMap writeExample) = .ok [exA, exB] :=
  empty_sentences_dropped false [exA, ⟨[]⟩, exEmpty, exB] (by decide)

/-- **trailing_tokens_dropped.**  Token lines after the last `EOS` line are discarded
without an error (`Ok(Self { examples })` ignores the pending `tokens`). -/
theorem trailing_tokens_dropped (fixed : Bool) (exs : List Example) (ws : List Word)
    (hwf : ∀ e ∈ exs, ExampleWF e) (hws : ∀ w ∈ ws, WordWF w) :
    parseCorpusWith fixed (exs.flatMap writeExample ++ ws.flatMap writeWord) =
      .ok (exs.filter (fun e => decide e.NonEmpty)) :=
  parseCorpusWith_write_trailing fixed exs ws hwf hws

example : parseCorpus ([exA].flatMap writeExample ++ exB.tokens.flatMap writeWord) = .ok [exA] :=
  trailing_tokens_dropped false [exA] exB.tokens (by decide) (by decide)

/-! ### What the reader returns -/

/-- **parse_result_wellformed.**  Every example returned by the reader is non-empty and
all its words are valid UTF-8 without tab and line feed; with the repaired reader no
feature ends in `\r`. -/
theorem parse_result_wellformed {fixed : Bool} {b : List UInt8} {exs : List Example}
    (h : parseCorpusWith fixed b = .ok exs) :
    ∀ e ∈ exs, e.NonEmpty ∧ ∀ w ∈ e.tokens, WordRepr w ∧ (fixed = true → NoTrailingCR w) :=
  fun e he => ⟨(parseCorpusWith_good h e he).2, (parseCorpusWith_good h e he).1⟩

example : parseCorpusWith false [97, 9, 98, 13, 10, 69, 79, 83, 13, 10] = .ok [⟨[⟨[97], [98]⟩]⟩] := by
  decide

/-- The reader never panics. -/
theorem parse_never_panics (fixed : Bool) (b : List UInt8) :
    parseCorpusWith fixed b ≠ .panic :=
  parseCorpusWith_ne_panic fixed b

/-! ### Parse ∘ write ∘ parse -/

/-- **write_parse_idempotent** (pinned tree).  If a corpus parses and none of the parsed
features ends in `\r`, then writing the examples back and re-reading gives the same
examples.  The side condition cannot be dropped on the pinned tree, see
`write_parse_idempotent_fails_pinned`. -/
theorem write_parse_idempotent {b : List UInt8} {exs : List Example}
    (h : parseCorpus b = .ok exs)
    (hcr : ∀ e ∈ exs, ∀ w ∈ e.tokens, NoTrailingCR w) :
    parseCorpus (exs.flatMap writeExample) = .ok exs := by
  have hg := parse_result_wellformed h
  exact corpus_roundtrip false exs
    (fun e he w hw => ⟨((hg e he).2 w hw).1, hcr e he w hw⟩) (fun e he => (hg e he).1)

example : parseCorpus ([exA, exB].flatMap writeExample ++ [10]) = .err := by decide

example :
    parseCorpus (([⟨[⟨[97], [98]⟩]⟩] : List Example).flatMap writeExample)
      = .ok [⟨[⟨[97], [98]⟩]⟩] :=
  write_parse_idempotent (b := [97, 9, 98, 13, 10, 69, 79, 83, 13, 10])
    (exs := [⟨[⟨[97], [98]⟩]⟩]) (by decide) (by decide)

/-- An input-level sufficient condition for the side condition: the file is empty or ends
with a line feed, and nowhere contains `\r\r\n`.  (Plain `\n` and `\r\n` files qualify.) -/
theorem write_parse_idempotent_of_no_crcrlf {b : List UInt8} {exs : List Example}
    (hb : LineComplete b) (hno : ¬ [CR, CR, LF] <:+: b)
    (h : parseCorpus b = .ok exs) :
    parseCorpus (exs.flatMap writeExample) = .ok exs :=
  write_parse_idempotent h (no_trailing_cr_of_no_crcrlf hb hno h)

/-- **write_parse_idempotent fails on the pinned tree** without the side condition: the
corpus `a\tb\r\r\nEOS\n` parses to the word (`a`, `b\r`); written back it is
`a\tb\r\nEOS\n`, which parses to (`a`, `b`). -/
theorem write_parse_idempotent_fails_pinned :
    ¬ ∀ (b : List UInt8) (exs : List Example),
        parseCorpus b = .ok exs → parseCorpus (exs.flatMap writeExample) = .ok exs := by
  intro h
  have := h [97, 9, 98, 13, 13, 10, 69, 79, 83, 10] [⟨[⟨[97], [98, 13]⟩]⟩] (by decide)
  revert this
  decide

/-- **write_parse_idempotent** for the repaired reader (`fixed = true`: a token line whose
feature still ends in `\r` is an error): unconditional. -/
theorem write_parse_idempotent_fixed {b : List UInt8} {exs : List Example}
    (h : parseCorpusWith true b = .ok exs) :
    parseCorpusWith true (exs.flatMap writeExample) = .ok exs := by
  have hg := parse_result_wellformed h
  exact corpus_roundtrip true exs
    (fun e he w hw => ⟨((hg e he).2 w hw).1, ((hg e he).2 w hw).2 rfl⟩)
    (fun e he => (hg e he).1)

example : parseCorpusWith true [97, 9, 98, 13, 13, 10, 69, 79, 83, 10] = .err := by decide
example : parseCorpusWith true [97, 9, 98, 13, 10, 69, 79, 83, 10] = .ok [⟨[⟨[97], [98]⟩]⟩] := by
  decide

/-! ### Malformed input -/

/-- **malformed_line_err.**  A terminated line (content `body`, then `\n`) that follows
complete lines makes the pinned reader fail if, after removal of one `\r` directly before
the `\n`, it has no tab and is not `EOS` (e.g. the empty line, `EOS ` or `EOS\r\r\n`), or
has two or more tabs – whatever precedes and follows it. -/
theorem malformed_line_err {pre body : List UInt8} (post : List UInt8)
    (hpre : LineComplete pre) (hbody : LF ∉ body)
    (hbad : ((stripEol (body ++ [LF])).count TAB = 0 ∧ stripEol (body ++ [LF]) ≠ EOS) ∨
      2 ≤ (stripEol (body ++ [LF])).count TAB) :
    parseCorpus (pre ++ body ++ LF :: post) = .err :=
  parseCorpusWith_bad_line false post hpre hbody (Or.inr (classify_bad_iff.mpr hbad))

example : parseCorpus (writeExample exA ++ [97, 9, 98, 9, 99] ++ LF :: writeExample exB) = .err :=
  malformed_line_err (pre := writeExample exA) (body := [97, 9, 98, 9, 99]) _
    (by decide) (by decide) (by decide)

/-- **blank_line_err.**  In particular an empty line (also `\r\n` alone) is an error. -/
theorem blank_line_err {pre : List UInt8} (post : List UInt8) (hpre : LineComplete pre) :
    parseCorpus (pre ++ LF :: post) = .err ∧ parseCorpus (pre ++ CR :: LF :: post) = .err := by
  constructor
  · have := malformed_line_err (pre := pre) (body := []) post hpre (by simp) (by decide)
    simpa using this
  · have := malformed_line_err (pre := pre) (body := [CR]) post hpre (by decide) (by decide)
    simpa using this

example : parseCorpus (writeExample exA ++ LF :: writeExample exB) = .err :=
  (blank_line_err (pre := writeExample exA) _ (by decide)).1

/-- **malformed_last_line_err.**  The same for a last line without terminator; here no
`\r` is removed, so a final `EOS\r` is an error although `EOS\r\n` is accepted. -/
theorem malformed_last_line_err {pre body : List UInt8}
    (hpre : LineComplete pre) (hbody : LF ∉ body) (hne : body ≠ [])
    (hbad : (body.count TAB = 0 ∧ body ≠ EOS) ∨ 2 ≤ body.count TAB) :
    parseCorpus (pre ++ body) = .err :=
  parseCorpusWith_bad_last_line false hpre hbody hne (Or.inr (classify_bad_iff.mpr hbad))

example : parseCorpus (exA.tokens.flatMap writeWord ++ [69, 79, 83, 13]) = .err :=
  malformed_last_line_err (pre := exA.tokens.flatMap writeWord) (by decide) (by decide)
    (by decide) (by decide)
example : parseCorpus (exA.tokens.flatMap writeWord ++ [69, 79, 83, 13, 10]) = .ok [exA] := by
  decide
example : parseCorpus (exA.tokens.flatMap writeWord ++ [69, 79, 83]) = .ok [exA] := by decide

/-- The same two statements for either reader, in terms of the line classifier; the
repaired reader additionally rejects one-tab lines ending in `\r` (`classify_fixed_bad_iff`). -/
theorem malformed_line_err_gen (fixed : Bool) {pre body : List UInt8} (post : List UInt8)
    (hpre : LineComplete pre) (hbody : LF ∉ body)
    (hbad : validUtf8 (body ++ [LF]) = false ∨
      classify fixed (stripEol (body ++ [LF])) = .bad) :
    parseCorpusWith fixed (pre ++ body ++ LF :: post) = .err :=
  parseCorpusWith_bad_line fixed post hpre hbody hbad

example : parseCorpusWith true ([97, 9, 98, 13, 13] ++ LF :: eosLine) = .err :=
  malformed_line_err_gen true (pre := []) (body := [97, 9, 98, 13, 13]) eosLine
    (by decide) (by decide) (by decide)

/-- **invalid_utf8_err.**  Input that is not valid UTF-8 is never accepted (the failing
`read_line` surfaces through `line?`; an earlier malformed line also gives `Err`). -/
theorem invalid_utf8_err (fixed : Bool) {b : List UInt8} (h : validUtf8 b = false) :
    parseCorpusWith fixed b = .err := by
  cases hp : parseCorpusWith fixed b with
  | ok exs => rw [parseCorpusWith_ok_valid hp] at h; cases h
  | err => rfl
  | panic => exact absurd hp (parseCorpusWith_ne_panic fixed b)

example : parseCorpus ([97, 9, 0xE3, 0x81, 10] ++ eosLine) = .err :=
  invalid_utf8_err false (by decide)

/-! ### Tokenizer output -/

/-- The CLI's printing loop emits byte for byte what `Example::write` emits. -/
theorem mecabOutput_eq_write (toks : List Word) : mecabOutput toks = writeExample ⟨toks⟩ :=
  mecabOutput_eq_writeExample toks

/-- **tokenizer_output_parses.**  The MeCab-style output for one input line whose tokens
are well-formed (surfaces/features without tab and line feed, features not ending in
`\r`) parses to the single example whose words are exactly the tokens, and to the empty
corpus if the concatenated surfaces are empty (in particular when there is no token). -/
theorem tokenizer_output_parses (fixed : Bool) (toks : List Word)
    (hwf : ∀ t ∈ toks, WordWF t) :
    parseCorpusWith fixed (mecabOutput toks) =
      .ok (if sentenceOf toks = [] then [] else [⟨toks⟩]) := by
  have := parseCorpusWith_write fixed [⟨toks⟩] (by simpa [ExampleWF] using hwf)
  rw [mecabOutput_eq_writeExample]
  simp only [writeCorpus, List.flatMap_cons, List.flatMap_nil, List.append_nil] at this
  rw [this]
  by_cases hs : sentenceOf toks = [] <;>
    simp [keepNonEmpty, Example.NonEmpty, Example.sentence, hs]

/-- With non-empty surfaces (what the tokenizer produces, C01): one example, or none when
`toks = []`. -/
theorem tokenizer_output_parses' (toks : List Word)
    (hwf : ∀ t ∈ toks, WordWF t) (hsurf : ∀ t ∈ toks, t.surface ≠ []) :
    parseCorpus (mecabOutput toks) = .ok (if toks = [] then [] else [⟨toks⟩]) := by
  have h := tokenizer_output_parses false toks hwf
  have : sentenceOf toks = [] ↔ toks = [] := by
    cases toks with
    | nil => simp [sentenceOf]
    | cons t ts =>
      have := hsurf t (by simp)
      simp [sentenceOf, this]
  simp only [this] at h
  exact h

example : parseCorpus (mecabOutput exA.tokens) = .ok [exA] :=
  tokenizer_output_parses' exA.tokens (by decide) (by decide)
example : parseCorpus (mecabOutput []) = .ok [] :=
  tokenizer_output_parses' [] (by decide) (by decide)

/-- **tokenizer_outputs_parse.**  The whole CLI output for several input lines (one block
per line) parses to one example per line with a non-empty tokenization, in order. -/
theorem tokenizer_outputs_parse (fixed : Bool) (sents : List (List Word))
    (hwf : ∀ toks ∈ sents, ∀ t ∈ toks, WordWF t) :
    parseCorpusWith fixed (sents.flatMap mecabOutput) =
      .ok ((sents.filter (fun toks => decide (sentenceOf toks ≠ []))).map Example.mk) := by
  have h := parseCorpusWith_write fixed (sents.map Example.mk)
    (by intro e he; simp only [List.mem_map] at he
        obtain ⟨toks, ht, rfl⟩ := he; exact hwf toks ht)
  have e1 : writeCorpus (sents.map Example.mk) = sents.flatMap mecabOutput := by
    have : (fun a => writeExample ⟨a⟩) = mecabOutput := by
      funext a; exact (mecabOutput_eq_writeExample a).symm
    simp [writeCorpus, List.flatMap_map, this]
  rw [← e1, h]
  simp [keepNonEmpty, List.filter_map, Example.NonEmpty, Example.sentence, Function.comp_def]
  congr 1
  apply List.filter_congr
  intro x _
  by_cases hx : sentenceOf x = [] <;> simp [hx]

example :
    parseCorpus ([exA.tokens, [], exB.tokens].flatMap mecabOutput) = .ok [exA, exB] :=
  tokenizer_outputs_parse false [exA.tokens, [], exB.tokens] (by decide)

/-! ### Behaviour of the real code outside the well-formedness conditions -/

/-- A tab inside a surface or a feature: the written line has two tabs, re-reading fails. -/
theorem excluded_tab :
    parseCorpus (writeExample ⟨[⟨[97, 9, 98], [99]⟩]⟩) = .err ∧
    parseCorpus (writeExample ⟨[⟨[97], [98, 9, 99]⟩]⟩) = .err := by decide

/-- A line feed inside a surface or feature breaks the line in two.  Usually the pieces
are malformed (`Err`), but they can also be well-formed, and then re-reading silently
yields a different corpus: surface `EOS\nx` / feature `y` becomes the word (`x`,`y`)
after an empty (dropped) sentence; feature `p\nEOS` loses its tail. -/
theorem excluded_lf :
    parseCorpus (writeExample ⟨[⟨[97, 10, 98], [99]⟩]⟩) = .err ∧
    parseCorpus (writeExample ⟨[⟨[69, 79, 83, 10, 120], [121]⟩]⟩) = .ok [⟨[⟨[120], [121]⟩]⟩] ∧
    parseCorpus (writeExample ⟨[⟨[97], [112, 10, 69, 79, 83]⟩]⟩) = .ok [⟨[⟨[97], [112]⟩]⟩] := by
  decide

/-- A feature ending in `\r`: the `\r` is taken for part of the line terminator and is
silently removed (one `\r` per round trip). -/
theorem excluded_trailing_cr :
    parseCorpus (writeExample ⟨[⟨[97], [98, 13]⟩]⟩) = .ok [⟨[⟨[97], [98]⟩]⟩] ∧
    parseCorpus (writeExample ⟨[⟨[97], [98, 13, 13]⟩]⟩) = .ok [⟨[⟨[97], [98, 13]⟩]⟩] := by
  decide

end Vibrato.Corpus
