/-
C02 (u16 back pointers) — when the reported segmentation is a minimum-cost path, and when
it is not (finding F15).

In `vibrato/src/tokenizer/lattice.rs` the back pointer `Node.min_idx` is a `u16` and
`search_min_node` stores `min_idx = i as u16` (`i % 65536`), `i` being the index into
`ends[start_node]`.  `Model/LatticeW.lean` is the lattice construction with the stored index
taken modulo `W` (`buildLattice16 = buildLatticeW 65536` is the Rust code);
`Model/Lattice.lean` (`buildLattice`) stores the exact index.

* `buildLatticeW_eq`, `idxExact_eq`: if no boundary holds more than `W` nodes, the two
  constructions give the same lattice, node for node.  Hence every theorem about
  `buildLattice` (C01, C02, C03, …) holds for the faithful model on such inputs
  (`viterbi_optimal16`, `total_cost_prefix16`, `tokens_segments16`).  The driver evaluates
  `idxExact 65536` on the lattice it built.
* `boundary_le_of_cands`, `idxExact_of_cands`: a dictionary-level sufficient condition.
* `buildLatticeW_lengths`, `buildLatticeW_costs`: boundary sizes and every stored cost
  (`min_cost`, in particular the EOS cost and `Token::total_cost`) never depend on `W`;
  only back pointers can differ.
* `wrap_not_minimal`: for every `W > 0`, with `W + 1` homographs at one boundary, the last
  one the cheapest, the reported path is NOT a minimum-cost path (C02 fails; the EOS
  `min_cost` still is the minimum).  `W = 65536`: 65537 homographs, as observed on the
  real code.

Helper lemmas: `Proofs/LatticeW.lean`.
-/
import Vibrato.Props.C01
import Vibrato.Proofs.LatticeW
import Vibrato.Model.Worker16

namespace Vibrato

/-! ## Agreement of the two constructions -/

/-- **Boundary sizes do not depend on how back pointers are stored.**  For every
environment, buffer length and modulus, the `ends` vectors of the two constructions have
the same lengths, boundary by boundary. -/
theorem buildLatticeW_lengths (W : Nat) (E : LatEnv) (b : Nat) :
    (buildLatticeW W E b).ends.map List.length = (buildLattice E b).ends.map List.length :=
  agree_map_length (buildLoopW_agree W E _ _ 0 (Agree.refl _)).1

/-- **Only back pointers can differ.**  With back pointers erased (`stripIdx` sets `minIdx`
to 0) the two lattices are equal: same nodes in the same order with the same `min_cost`
(so `Token::total_cost` and the EOS cost are the true Viterbi costs whatever `W` is), and
the EOS node is attached to the same boundary. -/
theorem buildLatticeW_costs (W : Nat) (E : LatEnv) (b : Nat) :
    (buildLatticeW W E b).ends.map (·.map stripIdx) = (buildLattice E b).ends.map (·.map stripIdx) ∧
      stripIdx (buildLatticeW W E b).eos = stripIdx (buildLattice E b).eos := by
  obtain ⟨hag, hsn⟩ := buildLoopW_agree W E (resetEnds b E.len) (resetEnds b E.len) 0 (Agree.refl _)
  constructor
  · apply List.ext_getElem (by simp only [List.length_map]; exact hag.1)
    intro j h1 h2
    simp only [List.length_map] at h1 h2
    have := hag.2 j
    have e1 : (buildLatticeW W E b).ends = (buildLoopW W E (resetEnds b E.len) 0).1 := rfl
    have e2 : (buildLattice E b).ends = (buildLoop E (resetEnds b E.len) 0).1 := rfl
    rw [e1] at h1; rw [e2] at h2
    simp only [endsAt, List.getD_eq_getElem?_getD, List.getElem?_eq_getElem h1,
      List.getElem?_eq_getElem h2, Option.getD_some] at this
    simpa [e1, e2] using this
  · show stripIdx (eosNodeW W E _ _) = stripIdx (eosNode E _ _)
    rw [hsn]
    exact eosNodeW_strip W E hag _

/-- **The faithful model coincides with the exact-index model** whenever every boundary
list of the exact-index lattice holds at most `W` nodes.  For `W = 65536`: with at most
65536 nodes at every boundary, `i as u16 = i` for every index the Rust code stores. -/
theorem buildLatticeW_eq (W : Nat) (E : LatEnv) (b : Nat)
    (h : ∀ l ∈ (buildLattice E b).ends, l.length ≤ W) :
    buildLatticeW W E b = buildLattice E b := by
  have hb : Bounded W (buildLoop E (resetEnds b E.len) 0).1 := bounded_of_forall_mem h
  unfold buildLatticeW buildLattice
  simp only [buildLoopW_eq W E _ 0 hb, eosNodeW_eq W E _ _ (hb _)]

/-- `idxExact` on either lattice says the same. -/
theorem idxExact_iff (W : Nat) (E : LatEnv) (b : Nat) :
    idxExact W (buildLatticeW W E b) = true ↔ ∀ l ∈ (buildLattice E b).ends, l.length ≤ W := by
  unfold idxExact
  rw [decide_eq_true_iff, maxBoundary_congr (buildLatticeW_lengths W E b), maxBoundary_le_iff]

/-- **Run-time form.**  If the lattice built with wrapped back pointers has at most `W`
nodes at every boundary (`idxExact`, evaluated by the driver on the lattice it has), it is
the exact-index lattice. -/
theorem idxExact_eq (W : Nat) (E : LatEnv) (b : Nat)
    (h : idxExact W (buildLatticeW W E b) = true) : buildLatticeW W E b = buildLattice E b :=
  buildLatticeW_eq W E b ((idxExact_iff W E b).mp h)

/-! ## C02 / C01 for the `u16` model under `idxExact` -/

/-- **Viterbi optimality for the `u16` code** (`viterbi_optimal` transferred): under
`EnvOK`, `Covered` and at most 65536 nodes per boundary, the back-pointer walk succeeds,
yields a path to the EOS boundary whose cost is the EOS `min_cost`, and no path is cheaper. -/
theorem viterbi_optimal16 (E : LatEnv) (C W : Int) (hE : EnvOK E C W) (hcov : Covered E) (b : Nat)
    (hx : idxExact 65536 (buildLattice16 E b) = true) :
    let Lt := buildLattice16 E b
    ∃ π, topNodes Lt = some π ∧ RPath Lt.ends π Lt.eos.startNode ∧
      Lt.eos.minCost = totalCost E.conn π ∧
      ∀ π', RPath Lt.ends π' Lt.eos.startNode → totalCost E.conn π ≤ totalCost E.conn π' := by
  intro Lt
  have e : Lt = buildLattice E b := idxExact_eq 65536 E b hx
  clear_value Lt; subst e
  exact viterbi_optimal E C W hE hcov b

/-- **total_cost is the accumulated cost, `u16` code** (`total_cost_prefix` transferred). -/
theorem total_cost_prefix16 (E : LatEnv) (C W : Int) (hE : EnvOK E C W) (b : Nat)
    (hx : idxExact 65536 (buildLattice16 E b) = true) :
    let Lt := buildLattice16 E b
    ∀ π, topNodes Lt = some π → ∀ x r, (x :: r) <:+ π → x.2.minCost = rcost E.conn (x :: r) := by
  intro Lt
  have e : Lt = buildLattice E b := idxExact_eq 65536 E b hx
  clear_value Lt; subst e
  exact total_cost_prefix E C W hE b

/-- **Tokens partition the sentence, `u16` code** (lattice level of C01, `tokens_segments`
transferred). -/
theorem tokens_segments16 (E : LatEnv) (C W : Int) (hE : EnvOK E C W) (hcov : Covered E) (b : Nat)
    (hx : idxExact 65536 (buildLattice16 E b) = true) :
    ∃ ts sn, tokensOf (buildLattice16 E b) = some ts ∧ sn ≤ E.len ∧
      (sn = E.len ∨ E.len ≤ sn + E.skip sn) ∧ Segments E.skip 0 ts sn ∧
      ∀ t ∈ ts, t.endWord ≤ E.len ∧ ∃ c ∈ E.cands t.startWord, c.endWord = t.endWord ∧
        c.wordId = t.node.wordId ∧ c.lexType = t.node.lexType ∧ c.leftId = t.node.leftId ∧
        c.rightId = t.node.rightId ∧ c.wordCost = t.node.wordCost := by
  show ∃ ts sn, tokensOf (buildLatticeW 65536 E b) = some ts ∧ _
  rw [idxExact_eq 65536 E b hx]
  exact tokens_segments E C W hE hcov b

/-! ## A sufficient condition on the dictionary -/

/-- **Boundary size bound.**  If every start position offers at most `m` candidates ending
at any single boundary, every boundary list holds at most `1 + len * m` nodes (the `1` is
BOS; each of the at most `len` loop iterations adds at most `m` nodes to a boundary). -/
theorem boundary_le_of_cands (E : LatEnv) (m : Nat)
    (hm : ∀ sw, sw < E.len → ∀ e, (E.cands sw).countP (fun c => c.endWord == e) ≤ m) (b : Nat) :
    ∀ l ∈ (buildLattice E b).ends, l.length ≤ 1 + E.len * m := by
  intro l hl
  obtain ⟨j, hj, rfl⟩ := List.getElem_of_mem hl
  have e : (buildLattice E b).ends = (buildLoop E (resetEnds b E.len) 0).1 := rfl
  have h1 := buildLoop_length_le E m hm (resetEnds b E.len) 0 j
  have h2 : (endsAt (resetEnds b E.len) j).length ≤ 1 := by
    cases j with
    | zero => simp [endsAt_resetEnds_zero]
    | succ j => simp [endsAt_resetEnds_succ]
  have h3 : endsAt (buildLoop E (resetEnds b E.len) 0).1 j = (buildLattice E b).ends[j] := by
    simp only [endsAt, List.getD_eq_getElem?_getD, ← e, List.getElem?_eq_getElem hj,
      Option.getD_some]
  rw [h3] at h1
  simp only [Nat.sub_zero] at h1
  omega

/-- With at most `m` candidates per (start position, end boundary) and `len * m < W`, the
index is never truncated.  `W = 65536`: sentences of `len` characters over a dictionary in
which no surface form has more than `m` entries (all lexicons and unknown-word entries
together) are safe when `len * m < 65536`. -/
theorem idxExact_of_cands (W : Nat) (E : LatEnv) (m : Nat)
    (hm : ∀ sw, sw < E.len → ∀ e, (E.cands sw).countP (fun c => c.endWord == e) ≤ m)
    (hW : E.len * m < W) (b : Nat) : idxExact W (buildLatticeW W E b) = true := by
  rw [idxExact_iff]
  intro l hl
  have := boundary_le_of_cands E m hm b l hl
  omega

/-! ## The defect: `W + 1` nodes at one boundary -/

/-- `wrapEnv W` satisfies the hypotheses of `viterbi_optimal`. -/
theorem wrapEnv_ok (W : Nat) : EnvOK (wrapEnv W) 0 100 ∧ Covered (wrapEnv W) := by
  have hmem : ∀ c ∈ (wrapPairs W).map wrapCand, c.endWord = 1 ∧ c.wordCost ≤ 100 := by
    intro c hc
    simp only [wrapPairs, List.map_append, List.map_map, List.mem_append, List.mem_map,
      List.mem_range, List.map_cons, List.map_nil, List.mem_singleton] at hc
    rcases hc with ⟨i, _, rfl⟩ | rfl <;> simp [wrapCand]
  have hbound : (((2 : Nat) : Int) + 1) * (0 + 100) ≤ MAX_COST := by decide
  refine ⟨⟨?_, fun _ _ => Int.le_refl _, ?_, by decide, by decide, hbound⟩, ?_⟩
  · intro sw hsw c hc
    have : sw = 0 ∨ sw = 1 := by have : sw < 2 := hsw; omega
    rcases this with rfl | rfl
    · have := (hmem c hc).1
      show 0 < c.endWord ∧ c.endWord ≤ 2
      omega
    · have : c = ⟨2, W + 1, 0, 0, 0, 5⟩ := by simpa [wrapEnv] using hc
      subst this; exact ⟨Nat.lt_succ_self 1, Nat.le_refl 2⟩
  · intro sw hsw c hc
    have : sw = 0 ∨ sw = 1 := by have : sw < 2 := hsw; omega
    rcases this with rfl | rfl
    · exact (hmem c hc).2
    · have : c = ⟨2, W + 1, 0, 0, 0, 5⟩ := by simpa [wrapEnv] using hc
      subst this; show (5 : Int) ≤ 100; decide
  · intro sw hsw
    have : sw = 0 ∨ sw = 1 := by have : sw < 2 := hsw; omega
    rcases this with rfl | rfl <;> simp [wrapEnv, wrapPairs]

/-- **What the wrapped code reports** on `wrapEnv W` (`W + 1` homographs for the first
character, row `W` the cheapest): the first token is row 0, of word cost 100 — the back
pointer `W` was stored as `W % W = 0` — while the second token's `total_cost` is 6, the cost
of the path through row `W`. -/
theorem wrap_reported (W : Nat) (hW : 0 < W) :
    tokensOf (buildLatticeW W (wrapEnv W)) =
      some [⟨0, 1, wrapNode (0, 100)⟩, ⟨1, 2, wrapSecond W 0⟩] := by
  have hn : ((wrapPairs W).map wrapNode)[W % W]? = some (wrapNode (0, 100)) := by
    obtain ⟨k, rfl⟩ : ∃ k, W = k + 1 := ⟨W - 1, by omega⟩
    simp [wrapPairs, List.range_succ_eq_map]
  have := wrap_topNodes W W _ hn rfl
  simp only [tokensOf, this, Nat.mod_self]
  rfl

/-- **What the exact-index model reports** on the same input: row `W`, the cheapest. -/
theorem wrap_exact (W : Nat) :
    tokensOf (buildLattice (wrapEnv W)) =
      some [⟨0, 1, wrapNode (W, 1)⟩, ⟨1, 2, wrapSecond W W⟩] := by
  have hmod : W % (W + 1) = W := Nat.mod_eq_of_lt (Nat.lt_succ_self W)
  have hx : idxExact (W + 1) (buildLatticeW (W + 1) (wrapEnv W)) = true := by
    simp [idxExact, maxBoundary, (wrap_lattice (W + 1) W).1, wrapPairs]
  have hn : ((wrapPairs W).map wrapNode)[W % (W + 1)]? = some (wrapNode (W, 1)) := by
    rw [hmod]
    simp [wrapPairs]
  have := wrap_topNodes (W + 1) W _ hn rfl
  rw [← idxExact_eq (W + 1) (wrapEnv W) 0 hx]
  simp only [tokensOf, this, hmod]
  rfl

/-- **C02 fails once a boundary holds more nodes than the back pointer can address
(finding F15).**  For every modulus `W > 0` (the Rust code: `W = 65536`), `wrapEnv W`
satisfies the hypotheses of `viterbi_optimal` (`wrapEnv_ok`), the back-pointer walk of the
wrapped construction succeeds and yields a path `π` to the EOS boundary of cost 105, there
is a path `π'` of cost 6, the EOS node's `min_cost` is 6 — and therefore the conclusion of
`viterbi_optimal` is false for the wrapped construction: the reported segmentation is not a
minimum-cost path and the EOS cost is not the cost of the reported path. -/
theorem wrap_not_minimal (W : Nat) (hW : 0 < W) :
    let E := wrapEnv W
    let Lt := buildLatticeW W E
    (∃ π π', topNodes Lt = some π ∧ RPath Lt.ends π Lt.eos.startNode ∧
        RPath Lt.ends π' Lt.eos.startNode ∧ totalCost E.conn π = 105 ∧
        totalCost E.conn π' = 6 ∧ Lt.eos.minCost = 6) ∧
      ¬ ∃ π, topNodes Lt = some π ∧
        ∀ π', RPath Lt.ends π' Lt.eos.startNode → totalCost E.conn π ≤ totalCost E.conn π' := by
  intro E Lt
  have hn : ((wrapPairs W).map wrapNode)[W % W]? = some (wrapNode (0, 100)) := by
    obtain ⟨k, rfl⟩ : ∃ k, W = k + 1 := ⟨W - 1, by omega⟩
    simp [wrapPairs, List.range_succ_eq_map]
  have htop : topNodes Lt = some [(2, wrapSecond W (W % W)), (1, wrapNode (0, 100))] :=
    wrap_topNodes W W _ hn rfl
  obtain ⟨hends, heos⟩ := wrap_lattice W W
  have hends' : Lt.ends = [[bosNode], (wrapPairs W).map wrapNode, [wrapSecond W (W % W)]] := hends
  have heos' : Lt.eos = wrapEos := heos
  have hmem0 : wrapNode (0, 100) ∈ (wrapPairs W).map wrapNode := List.mem_of_getElem? hn
  have hmemW : wrapNode (W, 1) ∈ (wrapPairs W).map wrapNode :=
    List.mem_map_of_mem (by simp [wrapPairs])
  have hp : RPath Lt.ends [(2, wrapSecond W (W % W)), (1, wrapNode (0, 100))] Lt.eos.startNode := by
    rw [hends', heos']
    refine ⟨rfl, by decide, by simp [wrapEos, endsAt], rfl, Nat.zero_lt_one, ?_, rfl⟩
    simpa [endsAt, wrapSecond] using hmem0
  have hp' : RPath Lt.ends [(2, wrapSecond W (W % W)), (1, wrapNode (W, 1))] Lt.eos.startNode := by
    rw [hends', heos']
    refine ⟨rfl, by decide, by simp [wrapEos, endsAt], rfl, Nat.zero_lt_one, ?_, rfl⟩
    simpa [endsAt, wrapSecond] using hmemW
  have hc : totalCost E.conn [(2, wrapSecond W (W % W)), (1, wrapNode (0, 100))] = 105 := by
    simp [totalCost, rcost, lastRight, E, wrapEnv, wrapSecond, wrapNode]
  have hc' : totalCost E.conn [(2, wrapSecond W (W % W)), (1, wrapNode (W, 1))] = 6 := by
    simp [totalCost, rcost, lastRight, E, wrapEnv, wrapSecond, wrapNode]
  refine ⟨⟨_, _, htop, hp, hp', hc, hc', by rw [heos']; rfl⟩, ?_⟩
  rintro ⟨π, hπ, hmin⟩
  rw [htop] at hπ
  cases hπ
  have := hmin _ hp'
  rw [hc, hc'] at this
  exact absurd this (by decide)

/-! ## Sanity instances -/

/-- The Rust code (`W = 65536`): 65537 homographs. -/
example :
    tokensOf (buildLattice16 (wrapEnv 65536)) =
      some [⟨0, 1, wrapNode (0, 100)⟩, ⟨1, 2, wrapSecond 65536 0⟩] :=
  wrap_reported 65536 (by decide)

example :
    ¬ ∃ π, topNodes (buildLattice16 (wrapEnv 65536)) = some π ∧
      ∀ π', RPath (buildLattice16 (wrapEnv 65536)).ends π' (buildLattice16 (wrapEnv 65536)).eos.startNode →
        totalCost (wrapEnv 65536).conn π ≤ totalCost (wrapEnv 65536).conn π' :=
  (wrap_not_minimal 65536 (by decide)).2

/-- `wrapEnv 65536` violates `idxExact`, as it must. -/
example : idxExact 65536 (buildLattice16 (wrapEnv 65536)) = false := by
  cases h : idxExact 65536 (buildLattice16 (wrapEnv 65536)) with
  | false => rfl
  | true =>
    exfalso
    have hv := viterbi_optimal16 (wrapEnv 65536) 0 100 (wrapEnv_ok _).1 (wrapEnv_ok _).2 0 h
    obtain ⟨π, h1, _, _, h4⟩ := hv
    exact (wrap_not_minimal 65536 (by decide)).2 ⟨π, h1, h4⟩

-- (executable tests, not theorems) `W = 4`: five homographs, rows 0..3 cost 100, row 4 cost 1
#guard (tokensOf (buildLatticeW 4 (wrapEnv 4))).map
    (·.map fun t => (t.startWord, t.endWord, t.node.wordId, t.node.wordCost, t.node.minCost))
    == some [(0, 1, 0, 100, 100), (1, 2, 5, 5, 6)]
#guard (tokensOf (buildLattice (wrapEnv 4))).map
    (·.map fun t => (t.startWord, t.endWord, t.node.wordId, t.node.wordCost, t.node.minCost))
    == some [(0, 1, 4, 1, 1), (1, 2, 5, 5, 6)]
#guard (buildLatticeW 4 (wrapEnv 4)).eos.minCost == 6
#guard idxExact 4 (buildLatticeW 4 (wrapEnv 4)) == false
#guard idxExact 5 (buildLatticeW 5 (wrapEnv 4)) == true
#guard maxBoundary (buildLatticeW 4 (wrapEnv 4)).ends == 5
-- one node fewer: nothing wraps
#guard (tokensOf (buildLatticeW 5 (wrapEnv 4))).map (·.map fun t => t.node.wordId) == some [4, 5]
-- the same instances from the general theorems
example : tokensOf (buildLatticeW 4 (wrapEnv 4)) =
    some [⟨0, 1, wrapNode (0, 100)⟩, ⟨1, 2, wrapSecond 4 0⟩] := wrap_reported 4 (by decide)
example : tokensOf (buildLattice (wrapEnv 4)) =
    some [⟨0, 1, wrapNode (4, 1)⟩, ⟨1, 2, wrapSecond 4 4⟩] := wrap_exact 4

/-- Non-vacuity of the transfer theorems: `exampleEnv` (of `Props/C02`) satisfies
`idxExact`, directly and through the dictionary-level condition with `m = 1`. -/
example : idxExact 65536 (buildLattice16 exampleEnv) = true := by
  apply idxExact_of_cands 65536 exampleEnv 1 _ (by decide)
  intro sw hsw e
  have : sw = 0 ∨ sw = 1 ∨ sw = 2 := by have : sw < 3 := hsw; omega
  rcases this with rfl | rfl | rfl
  · simp [exampleEnv, List.countP_cons]
    split <;> split <;> omega
  · simp [exampleEnv, List.countP_cons]
    split <;> omega
  · simp [exampleEnv, List.countP_cons]
    split <;> omega

#guard idxExact 65536 (buildLattice16 exampleEnv)
#guard (tokensOf (buildLattice16 exampleEnv)).map (·.map fun t => (t.startWord, t.endWord, t.node.minCost))
    == some [(0, 1, 2), (1, 3, 8)]

/-! ## The worker state machine with `u16` back pointers -/

/-- **The model compared with the code refines the model the theorems are about.**  `WorkerM.stepW W`
(`W = 65536`: what `worker.rs` + `lattice.rs` do, `min_idx = i as u16`) takes the same step as
`WorkerM.step` whenever the lattice built by the operation has no boundary with more than `W`
nodes — the run-time flag `IDX16=1` of the driver.  Every theorem about `WorkerM.step` (C01–C04,
C06, C08, C12, C13) therefore speaks about the faithful model on every case carrying that flag. -/
theorem stepW_eq_step (W : Nat) (fx : Fixes) (T : TokenizerM) (w : WorkerM) (op : WOp)
    (h : WorkerM.exactOp W T w op = true) : w.stepW W fx T op = w.step fx T op := by
  cases op <;> try rfl
  simp only [WorkerM.stepW, WorkerM.step]
  cases he : w.sent.isEmpty
  · simp only [WorkerM.exactOp, he] at h
    have h' : idxExact W (buildLatticeW W (latEnvOf T.dict.tokDict (compileSent T.dict.tokDict w.sent) T.opts)
        w.bufLen) = true := by simpa using h
    simp only [Bool.false_eq_true, if_false]
    rw [idxExact_eq W _ _ h']
    rfl
  · simp

/-- non-vacuity: a fresh worker on the example dictionary of `Props/C04` style histories is exact -/
example : WorkerM.exactOp 65536 ⟨default, ⟨none, none⟩⟩ WorkerM.fresh .tokenize = true := by
  simp [WorkerM.exactOp, WorkerM.fresh]

end Vibrato
