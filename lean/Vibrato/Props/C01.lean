/-
C01 — Tokens partition the input text.

Property theorems only; helper lemmas are in `Proofs/`.  Statements are about
`tokenize`, the model of `Worker::reset_sentence` + `Worker::tokenize` +
`Token` accessors on a fresh worker; the tie to the Rust code is the
correspondence check (`check.py C01`).
-/
import Vibrato.Props.C02
import Vibrato.Proofs.TokenizerEnv

namespace Vibrato

/-- Tokens `t₁ … t_k` read left to right from boundary `a` to boundary `b`: each token starts
at the current boundary plus the characters skipped there (`skip` is 0 unless `ignore_space`
is on and the boundary character is a SPACE character), is non-empty, and the next token
continues where it ends. -/
def Segments (skip : Nat → Nat) : Nat → List Tok → Nat → Prop
  | a, [], b => a = b
  | a, t :: ts, b => t.startWord = a + skip a ∧ t.startWord < t.endWord ∧ Segments skip t.endWord ts b

theorem segments_snoc (skip : Nat → Nat) (t : Tok) :
    ∀ (xs : List Tok) (a m : Nat), Segments skip a xs m → t.startWord = m + skip m →
      t.startWord < t.endWord → Segments skip a (xs ++ [t]) t.endWord
  | [], a, m, h, h1, h2 => by
    simp only [Segments] at h; subst h
    exact ⟨h1, h2, rfl⟩
  | x :: xs, a, m, h, h1, h2 => by
    obtain ⟨hx1, hx2, hx3⟩ := h
    exact ⟨hx1, hx2, segments_snoc skip t xs _ m hx3 h1 h2⟩

def toToks (π : List (Nat × Node)) : List Tok :=
  π.map fun x => { startWord := x.2.startWord, endWord := x.1, node := x.2 }

theorem segments_of_rpath {E C W L q} (h : LInv E C W L q) :
    ∀ (π : List (Nat × Node)) (e : Nat), RPath L π e → Segments E.skip 0 (toToks π).reverse e
  | [], e, hp => by simp only [RPath] at hp; subst hp; simp [toToks, Segments]
  | (e1, n) :: rest, e, hp => by
    simp only [RPath] at hp
    obtain ⟨rfl, hpos, hn, hrest⟩ := hp
    obtain ⟨hok, _⟩ := h.nodes e1 hpos n hn
    have ih := segments_of_rpath h rest n.startNode hrest
    simp only [toToks, List.map_cons, List.reverse_cons]
    exact segments_snoc E.skip ⟨n.startWord, e1, n⟩ _ 0 n.startNode ih hok.sw_eq hok.sw_lt

/-- **Lattice level.**  For every environment satisfying `EnvOK` and `Covered`:
tokenization does not panic; the tokens are non-empty, in order and non-overlapping
(`Segments`), they end at the EOS boundary `sn ≤ len`, and either `sn = len` or everything
from `sn` on was skipped; every token is one of the candidates offered at its start. -/
theorem tokens_segments (E : LatEnv) (C W : Int) (hE : EnvOK E C W) (hcov : Covered E) (b : Nat) :
    ∃ ts sn, tokensOf (buildLattice E b) = some ts ∧ sn ≤ E.len ∧
      (sn = E.len ∨ E.len ≤ sn + E.skip sn) ∧ Segments E.skip 0 ts sn ∧
      ∀ t ∈ ts, t.endWord ≤ E.len ∧ ∃ c ∈ E.cands t.startWord, c.endWord = t.endWord ∧
        c.wordId = t.node.wordId ∧ c.lexType = t.node.lexType ∧ c.leftId = t.node.leftId ∧
        c.rightId = t.node.rightId ∧ c.wordCost = t.node.wordCost := by
  obtain ⟨π, hπ, hpath, _, _⟩ := viterbi_optimal E C W hE hcov b
  have h0 := reset_inv E C W b
  obtain ⟨hinv, hsn, hend⟩ := buildLoop_inv hE (resetEnds b E.len) 0 h0 (Nat.zero_le _)
  have hends : (buildLattice E b).ends = (buildLoop E (resetEnds b E.len) 0).1 := rfl
  have hsn' : (buildLattice E b).eos.startNode = (buildLoop E (resetEnds b E.len) 0).2 := rfl
  rw [← hends] at hinv
  rw [← hsn'] at hsn hend
  refine ⟨(toToks π).reverse, (buildLattice E b).eos.startNode, ?_, hsn, hend,
    segments_of_rpath hinv π _ hpath, ?_⟩
  · simp only [tokensOf, hπ, Option.map_some, toToks]
  · intro t ht
    simp only [toToks, List.mem_reverse, List.mem_map] at ht
    obtain ⟨x, hx, rfl⟩ := ht
    -- x is on the path, hence a stored node
    have hmem : ∀ (π : List (Nat × Node)) (e : Nat), RPath (buildLattice E b).ends π e →
        ∀ x ∈ π, 0 < x.1 ∧ x.2 ∈ endsAt (buildLattice E b).ends x.1 := by
      intro π
      induction π with
      | nil => intro _ _ x hx; cases hx
      | cons hd tl ih =>
        intro e hp x hx
        obtain ⟨e1, n⟩ := hd
        simp only [RPath] at hp
        obtain ⟨rfl, hpos, hn, hrest⟩ := hp
        simp only [List.mem_cons] at hx
        rcases hx with rfl | hx
        · exact ⟨hpos, hn⟩
        · exact ih _ hrest x hx
    obtain ⟨hpos, hxn⟩ := hmem π _ hpath x hx
    obtain ⟨hok, _⟩ := hinv.nodes x.1 hpos x.2 hxn
    exact ⟨hok.e_le, hok.fromCand⟩

/-- **tokenize is total** (no panic, always a token list) for every dictionary with bounded
costs in which every character's primary category has an unknown-word entry, every option
setting, and every sentence within the 32-bit cost bound. -/
theorem tokenize_total (D : TokDict) (C W : Int) (hD : DictOK D C W) (hcov : UnkCovered D)
    (o : TokOpts) (chars : List Nat) (hb : ((chars.length : Int) + 1) * (C + W) ≤ MAX_COST) :
    ∃ ts, tokenize D o chars = some ts := by
  unfold tokenize
  split
  · exact ⟨[], rfl⟩
  · obtain ⟨ts, _, h, _⟩ := tokens_segments _ C W (latEnvOf_envOK D C W hD chars o hb)
      (latEnvOf_covered D hcov chars o) 0
    exact ⟨ts, h⟩

/-- **The tokens partition the text.**  The reported tokens are non-empty, ordered and
non-overlapping; each lies inside the sentence and is the dictionary entry it names (same
ids and word cost; system and user entries also have the token's characters as surface);
they end at a boundary `sn` such that `sn = len` or the rest of the sentence was skipped. -/
theorem tokens_partition (D : TokDict) (C W : Int) (hD : DictOK D C W) (hcov : UnkCovered D)
    (o : TokOpts) (chars : List Nat) (hb : ((chars.length : Int) + 1) * (C + W) ≤ MAX_COST)
    (ts : List Tok) (hts : tokenize D o chars = some ts) :
    ∃ sn, sn ≤ chars.length ∧
      (sn = chars.length ∨ chars.length ≤ sn + skipAt (compileSent D chars) o sn) ∧
      Segments (skipAt (compileSent D chars) o) 0 ts sn ∧
      ∀ t ∈ ts, t.endWord ≤ chars.length ∧
        ((t.node.lexType = 0 ∧ ∃ e, D.sys[t.node.wordId]? = some e ∧
            e.surface = (chars.drop t.startWord).take (t.endWord - t.startWord) ∧
            e.param = ⟨t.node.leftId, t.node.rightId, t.node.wordCost⟩) ∨
         (t.node.lexType = 1 ∧ ∃ u e, D.user = some u ∧ u[t.node.wordId]? = some e ∧
            e.surface = (chars.drop t.startWord).take (t.endWord - t.startWord) ∧
            e.param = ⟨t.node.leftId, t.node.rightId, t.node.wordCost⟩) ∨
         (t.node.lexType = 2 ∧ ∃ p ∈ D.unkOf (D.charInfo (chars.getD t.startWord 0)).baseId,
            p.1 = t.node.wordId ∧ p.2 = ⟨t.node.leftId, t.node.rightId, t.node.wordCost⟩)) := by
  unfold tokenize at hts
  split at hts
  · rename_i hemp
    have : chars = [] := by simpa using hemp
    subst this
    cases hts
    exact ⟨0, Nat.le_refl _, Or.inl rfl, rfl, by simp⟩
  · obtain ⟨ts', sn, h1, h2, h3, h4, h5⟩ := tokens_segments _ C W
      (latEnvOf_envOK D C W hD chars o hb) (latEnvOf_covered D hcov chars o) 0
    rw [h1] at hts; cases hts
    have hlen : (latEnvOf D (compileSent D chars) o).len = chars.length := by
      simp [latEnvOf, compileSent]
    rw [hlen] at h2 h3
    refine ⟨sn, h2, h3, h4, ?_⟩
    intro t ht
    obtain ⟨hle, c, hc, he, hid, hlt, hl, hr, hw⟩ := h5 t ht
    rw [hlen] at hle
    refine ⟨hle, ?_⟩
    -- the start position is inside the sentence because the candidate ends inside it
    have hsw : t.startWord < chars.length := by
      rcases Nat.lt_or_ge t.startWord chars.length with h | h
      · exact h
      · -- outside the sentence no candidate can end at or before `len`
        exfalso
        have hc' : c ∈ candsAt D (compileSent D chars) o t.startWord := hc
        -- from Segments every token is non-empty: startWord < endWord ≤ len
        have : ∀ (a : Nat) (l : List Tok) (b : Nat), Segments (skipAt (compileSent D chars) o) a l b →
            ∀ x ∈ l, x.startWord < x.endWord := by
          intro a l
          induction l generalizing a with
          | nil => intro _ _ x hx; cases hx
          | cons y ys ih =>
            intro b hs x hx
            obtain ⟨_, hy, hrest⟩ := hs
            simp only [List.mem_cons] at hx
            rcases hx with rfl | hx
            · exact hy
            · exact ih _ b hrest x hx
        have := this 0 ts sn h4 t ht
        omega
    have hspec := (candsAt_spec D chars o t.startWord hsw c hc).2.2
    rw [he, hid, hlt, hl, hr, hw] at hspec
    exact hspec

/-- Without `ignore_space` nothing is skipped, so the tokens tile the sentence exactly:
`Segments (fun _ => 0) 0 ts len`, i.e. the first token starts at 0, each next token starts
where the previous one ends, and the last ends at `len` (their surfaces concatenate to the
input). -/
theorem cover_no_ignore (D : TokDict) (C W : Int) (hD : DictOK D C W) (hcov : UnkCovered D)
    (mg : Option Nat) (chars : List Nat) (hb : ((chars.length : Int) + 1) * (C + W) ≤ MAX_COST)
    (ts : List Tok) (hts : tokenize D ⟨none, mg⟩ chars = some ts) :
    Segments (fun _ => 0) 0 ts chars.length := by
  obtain ⟨sn, h1, h2, h3, _⟩ := tokens_partition D C W hD hcov ⟨none, mg⟩ chars hb ts hts
  have hskip : skipAt (compileSent D chars) ⟨none, mg⟩ = fun _ => 0 := by
    funext p; simp [skipAt]
  rw [hskip] at h2 h3
  have : sn = chars.length := by
    rcases h2 with h | h
    · exact h
    · simp only [Nat.add_zero] at h; omega
  rw [this] at h3
  exact h3

/-- With `ignore_space`, a non-empty gap only opens at a character of the SPACE category:
whenever the tokenizer skips at boundary `p` (`skip p > 0`, which is the only way a gap
`[p, p + skip p)` before a token or before the end of the sentence arises in `Segments`),
the character at `p` has the SPACE bit set. -/
theorem gaps_start_with_space (D : TokDict) (o : TokOpts) (chars : List Nat) (p : Nat)
    (h : 0 < skipAt (compileSent D chars) o p) :
    ∃ sp, o.spaceSet = some sp ∧ (D.charInfo (chars.getD p 0)).cateSet &&& sp ≠ 0 ∧ p < chars.length := by
  unfold skipAt at h
  cases hs : o.spaceSet with
  | none => simp [hs] at h
  | some sp =>
    simp only [hs] at h
    split at h
    · rename_i hbit
      have hp : p < chars.length := by
        rcases Nat.lt_or_ge p chars.length with hp | hp
        · exact hp
        · exfalso
          have : (compileSent D chars).groupable.getD p 0 = 0 := by
            simp only [List.getD_eq_getElem?_getD]
            rw [List.getElem?_eq_none (by simp [compileSent, groupables_length]; exact hp)]
            rfl
          omega
      refine ⟨sp, rfl, ?_, hp⟩
      have : (compileSent D chars).cinfos.getD p default = D.charInfo (chars.getD p 0) := by
        simp only [compileSent, List.getD_eq_getElem?_getD, List.getElem?_map]
        rw [List.getElem?_eq_getElem hp]; simp
      rw [← this]; exact hbit
    · omega

/-- The empty string yields no tokens. -/
theorem tokenize_empty (D : TokDict) (o : TokOpts) : tokenize D o [] = some [] := rfl

/-! Non-vacuity: a concrete dictionary satisfying `DictOK` and `UnkCovered`. -/
def exampleDict : TokDict :=
  { sys := [⟨[97, 98], ⟨0, 0, 3⟩⟩, ⟨[97], ⟨0, 0, 1⟩⟩]
    user := none
    conn := fun _ _ => 0
    charInfo := fun c => if c = 32 then ⟨2, 1, false, true, 0⟩ else ⟨1, 0, false, true, 2⟩
    unkOf := fun b => if b = 0 then [(0, ⟨0, 0, 10⟩)] else [(1, ⟨0, 0, 5⟩)] }

example : DictOK exampleDict 0 10 ∧ UnkCovered exampleDict := by
  refine ⟨⟨fun _ _ => Int.le_refl _, ?_, ?_, ?_, by decide, by decide⟩, ?_⟩
  · intro e he; simp [exampleDict] at he; rcases he with rfl | rfl <;> decide
  · intro u hu; simp [exampleDict] at hu
  · intro b p hp; simp only [exampleDict] at hp; split at hp <;> simp at hp <;> subst hp <;> decide
  · intro c; simp only [exampleDict]; split <;> split <;> simp

-- (executable tests, not theorems) "ab a" with and without ignore_space
#guard ((tokenize exampleDict ⟨none, none⟩ [97, 98, 32, 97]).map
    (·.map fun t => (t.startWord, t.endWord))) == some [(0, 2), (2, 3), (3, 4)]
#guard ((tokenize exampleDict ⟨some 2, none⟩ [97, 98, 32, 97]).map
    (·.map fun t => (t.startWord, t.endWord))) == some [(0, 2), (3, 4)]

end Vibrato
