/-
C02 (capstone) — The reported segmentation is cheapest among all sequences that can be formed
from the candidate words of the sentence.

`Props/C02.lean` proves minimality over the paths through the *stored lattice*
(`viterbi_optimal`) and `Props/C03.lean` proves that the stored lattice holds exactly the
candidates of the visited start nodes (`candidates_all_inserted`).  This file joins the two and
states C02 without any reference to the lattice data structure.

Definitions (in `Proofs/CandidateChains.lean`; none mentions `Ends`/`Node`):
* `CandSeg E a cs b` — the words `cs` are chained from boundary `a` to boundary `b`: each word is a
  candidate `c ∈ E.cands (x + E.skip x)` offered at the start word position of the boundary `x`
  where the previous word ended (`x = a` for the first), that position being inside the sentence.
* `FinalB E sn` — a segmentation may stop at `sn`: `sn = len`, or everything from `sn` on is skipped.
* `segCost conn cs` — Σ (conn(previous right id, left id) + word cost), BOS right id 0, plus
  conn(last right id, 0) for EOS.
* `LiveD E e` — declarative description (recursion on `e`) of the boundaries that the loop of
  `build_lattice_inner` uses as start nodes: `e` is the end of a candidate offered at an earlier
  live boundary (or `e = 0`), and `e` does not lie in `(q, q + skip q]` for an earlier live `q`.
* `NoEndInSkip E` — no candidate offered at a start word ends inside or at the end of a run that is
  skipped from a boundary strictly inside the candidate.

What is true of the code (and proved here):
(a) the reported segmentation is a candidate segmentation all of whose boundaries are live, and it
    is cheapest among *those* (`optimal_among_live_segmentations`) — unconditionally;
(b) under `NoEndInSkip` every candidate segmentation has live boundaries, so the reported one is
    cheapest among *all* candidate segmentations (`optimal_among_candidate_segmentations`);
    `NoEndInSkip` holds without `ignore_space` (`optimal_no_skip`) and, with `ignore_space`, under
    C12's precondition `SpacePre` (`tokenize_min_cost_ignore_space`);
(c) without `NoEndInSkip` the unrestricted statement is FALSE for the code: a word that ends in or
    right after a skipped run is a dead end of the lattice, and a segmentation through it can be
    strictly cheaper than the reported one (`dead_end_cheaper`, `deadDict`: lexicon word `a␠`,
    sentence `a␠␠b`, `ignore_space`).

The tie to the Rust code is the correspondence check of C02/C03 (`check.py C02`, `check.py C03`).
-/
import Vibrato.Proofs.CandidateChains

namespace Vibrato

/-! ### 1. The declarative notions and the code -/

/-- **`LiveD` describes the start nodes of `build_lattice_inner`.**  For the lattice `L` that
`build_lattice` produces (any buffer state `b`) and every boundary `e ≤ len`: `LiveD E e` holds
iff `e` is a value of `start_node` at the head of the `while` loop (`Visited`, see C03) and
`ends[e]` is not empty.  The right-hand side of the first clause is the defining recursion of
`LiveD`; it does not mention the lattice. -/
theorem liveD_spec (E : LatEnv) (C W : Int) (hE : EnvOK E C W) (b : Nat) (e : Nat) :
    (LiveD E e ↔
      (e = 0 ∨ ∃ a, a < e ∧ LiveD E a ∧ a + E.skip a < E.len ∧
        ∃ c ∈ E.cands (a + E.skip a), c.endWord = e) ∧
      ∀ q, q < e → LiveD E q → q + E.skip q < e) ∧
    (e ≤ E.len →
      (LiveD E e ↔ Visited E (buildLattice E b).ends e ∧ endsAt (buildLattice E b).ends e ≠ [])) :=
  ⟨liveD_iff E e, liveD_iff_lattice hE b e⟩

/-- **Under `NoEndInSkip` every boundary of every candidate segmentation is live** (so the
restriction in (a) is no restriction).  `NoEndInSkip` holds when nothing is ever skipped. -/
theorem all_boundaries_live (E : LatEnv) (C W : Int) (hE : EnvOK E C W) (hns : NoEndInSkip E)
    (cs : List Cand) (sn : Nat) (hseg : CandSeg E 0 cs sn) : ∀ x ∈ segBounds 0 cs, LiveD E x :=
  candSeg_allLive hE hns cs 0 sn (liveD_zero E) hseg

theorem no_skip_noEndInSkip (E : LatEnv) (hs : ∀ p, E.skip p = 0) : NoEndInSkip E :=
  noEndInSkip_of_no_skip E hs

/-! ### 2. The reported tokens form a candidate segmentation -/

/-- **The reported tokens are a candidate segmentation ending at the EOS boundary, and its cost is
the EOS node's `min_cost`.**  For every environment with `EnvOK` (candidates end after their start
and inside the sentence; accumulated costs stay within 32 bits) and `Covered` (every start
position offers a candidate): tokenization succeeds; reading each token as the candidate it
stands for (`tokCand`: end, word id, lexicon type, ids, word cost), the token list is a chain of
candidates from boundary 0 to `eos.start_node`; that boundary is final (`len`, or the rest is
skipped) and `≤ len`; every boundary of the chain is live; and the chain's cost — word costs plus
connection costs including BOS (right id 0) and EOS (left id 0) — is `eos.min_cost`. -/
theorem reported_is_candidate_segmentation (E : LatEnv) (C W : Int) (hE : EnvOK E C W)
    (hcov : Covered E) (b : Nat) :
    let Lt := buildLattice E b
    ∃ ts, tokensOf Lt = some ts ∧
      CandSeg E 0 (ts.map tokCand) Lt.eos.startNode ∧
      FinalB E Lt.eos.startNode ∧ Lt.eos.startNode ≤ E.len ∧
      (∀ x ∈ segBounds 0 (ts.map tokCand), LiveD E x) ∧
      segCost E.conn (ts.map tokCand) = Lt.eos.minCost := by
  intro Lt
  obtain ⟨π, hπ, hpath, hcost, _⟩ := viterbi_optimal E C W hE hcov b
  obtain ⟨hle, _, _, hfin, hlive⟩ := eos_boundary hE hcov b
  obtain ⟨h1, h2⟩ := liveSeg_of_path hE b π _ hpath
  have hts : tokensOf Lt = some (toToks π).reverse := by
    simp only [tokensOf, Lt]; rw [hπ]; rfl
  refine ⟨_, hts, ?_⟩
  rw [map_tokCand_toToks]
  exact ⟨h1, hfin, hle, h2 hlive, by rw [segCost, (pathCands_cost E.conn π).1]; exact hcost.symm⟩

/-! ### 3. Optimality -/

/-- **(a) Cheapest among the candidate segmentations with live boundaries; the final boundary is
unique.**  Under `EnvOK` and `Covered`, for every chain of candidates `cs` from boundary 0 to a
final boundary `sn` (`sn = len` or the rest is skipped) all of whose boundaries are live:
`sn` is the boundary handed to `insert_eos`, and the cost of `cs` is at least `eos.min_cost`, the
cost of the reported segmentation.  No hypothesis on `skip`. -/
theorem optimal_among_live_segmentations (E : LatEnv) (C W : Int) (hE : EnvOK E C W)
    (hcov : Covered E) (b : Nat) (cs : List Cand) (sn : Nat) (hseg : CandSeg E 0 cs sn)
    (hfin : FinalB E sn) (hlive : ∀ x ∈ segBounds 0 cs, LiveD E x) :
    sn = (buildLattice E b).eos.startNode ∧ (buildLattice E b).eos.minCost ≤ segCost E.conn cs := by
  have hsn := final_live_unique hE hcov b sn (hlive sn (candSeg_end_mem E cs 0 sn hseg)) hfin
  refine ⟨hsn, ?_⟩
  obtain ⟨π, _, _, hcost, hopt⟩ := viterbi_optimal E C W hE hcov b
  obtain ⟨π', hπ', hc'⟩ := path_of_liveSeg hE b cs 0 sn [] rfl hseg hlive
  rw [hsn] at hπ'
  have h := hopt π' hπ'
  simp only [rcost, lastRight, Int.zero_add] at hc'
  rw [hcost, segCost, ← hc']
  exact h

/-- **The final boundary is unique** (also for segmentations that skip trailing spaces or not):
among the live boundaries exactly one is final, the one handed to `insert_eos`.  So two
candidate segmentations with live boundaries cannot end at different admissible boundaries; in
particular under `NoEndInSkip` *all* complete candidate segmentations end at the same boundary. -/
theorem final_boundary_unique (E : LatEnv) (C W : Int) (hE : EnvOK E C W) (hcov : Covered E)
    (b : Nat) (sn : Nat) :
    (LiveD E sn ∧ FinalB E sn) ↔ sn = (buildLattice E b).eos.startNode := by
  constructor
  · rintro ⟨h1, h2⟩; exact final_live_unique hE hcov b sn h1 h2
  · rintro rfl
    obtain ⟨_, _, _, h4, h5⟩ := eos_boundary hE hcov b
    exact ⟨h5, h4⟩

/-- **(b) Cheapest among all candidate segmentations.**  Under `EnvOK`, `Covered` and
`NoEndInSkip` (no candidate ends inside or right after a run skipped from a boundary inside it):
every chain of candidates from boundary 0 to a final boundary `sn` ends at `eos.start_node` and
costs at least `eos.min_cost`; together with `reported_is_candidate_segmentation`, `eos.min_cost`
is the minimum of `segCost` over all complete candidate segmentations and the reported
segmentation attains it. -/
theorem optimal_among_candidate_segmentations (E : LatEnv) (C W : Int) (hE : EnvOK E C W)
    (hcov : Covered E) (hns : NoEndInSkip E) (b : Nat) (cs : List Cand) (sn : Nat)
    (hseg : CandSeg E 0 cs sn) (hfin : FinalB E sn) :
    sn = (buildLattice E b).eos.startNode ∧ (buildLattice E b).eos.minCost ≤ segCost E.conn cs :=
  optimal_among_live_segmentations E C W hE hcov b cs sn hseg hfin
    (all_boundaries_live E C W hE hns cs sn hseg)

/-- **(b) without `ignore_space`, unconditionally.**  If nothing is skipped, the only final
boundary is `len`: every tiling of the sentence by candidate words (each word a candidate at the
position where the previous one ended, the last ending at `len`) costs at least `eos.min_cost`,
and the EOS boundary is `len`. -/
theorem optimal_no_skip (E : LatEnv) (C W : Int) (hE : EnvOK E C W) (hcov : Covered E)
    (hs : ∀ p, E.skip p = 0) (b : Nat) :
    (buildLattice E b).eos.startNode = E.len ∧
      ∀ cs, CandSeg E 0 cs E.len → (buildLattice E b).eos.minCost ≤ segCost E.conn cs := by
  have hns := noEndInSkip_of_no_skip E hs
  obtain ⟨_, _, _, hfin, _⟩ := eos_boundary hE hcov b
  have hsn : (buildLattice E b).eos.startNode = E.len := by
    rcases hfin with h | h
    · exact h
    · rw [hs] at h
      have := (eos_boundary hE hcov b).1
      omega
  exact ⟨hsn, fun cs hseg =>
    (optimal_among_candidate_segmentations E C W hE hcov hns b cs E.len hseg (Or.inl rfl)).2⟩

/-! ### 4. Dictionary level -/

/-- **`tokenize` reports a cheapest candidate segmentation (general form).**  Let `D` have bounded
costs (`DictOK`) and an unknown-word entry for every primary category (`UnkCovered`), `o` be any
options, `chars` a sentence within the 32-bit cost bound, and assume `NoEndInSkip` for the
sentence's environment.  Then `tokenize` returns tokens `ts`; read as candidates they are chained
from boundary 0 to a boundary `sn` — each one is in `candsAt` (user matches ++ system matches ++
unknown words of `add_lattice_edges`, see C03) at the position `x + skipAt x` of the boundary `x`
where the previous token ended (`DictSeg`) — with `sn = len` or the rest of the sentence skipped;
and every such chain `cs` ending at an admissible boundary `sn'` ends at `sn' = sn` and costs at
least as much: `segCost D.conn (ts.map tokCand) ≤ segCost D.conn cs`. -/
theorem tokenize_min_cost (D : TokDict) (C W : Int) (hD : DictOK D C W) (hcov : UnkCovered D)
    (o : TokOpts) (chars : List Nat) (hb : ((chars.length : Int) + 1) * (C + W) ≤ MAX_COST)
    (hns : NoEndInSkip (latEnvOf D (compileSent D chars) o)) :
    ∃ ts sn, tokenize D o chars = some ts ∧
      DictSeg D o chars 0 (ts.map tokCand) sn ∧ sn ≤ chars.length ∧
      (sn = chars.length ∨ chars.length ≤ sn + skipAt (compileSent D chars) o sn) ∧
      ∀ cs sn', DictSeg D o chars 0 cs sn' →
        (sn' = chars.length ∨ chars.length ≤ sn' + skipAt (compileSent D chars) o sn') →
        sn' = sn ∧ segCost D.conn (ts.map tokCand) ≤ segCost D.conn cs := by
  by_cases hemp : chars = []
  · subst hemp
    refine ⟨[], 0, rfl, rfl, Nat.le_refl _, Or.inl rfl, ?_⟩
    intro cs sn' hseg _
    cases cs with
    | nil => exact ⟨hseg.symm, Int.le_refl _⟩
    | cons c cs => exact absurd hseg.1 (Nat.not_lt_zero _)
  · have hE := latEnvOf_envOK D C W hD chars o hb
    have hcv := latEnvOf_covered D hcov chars o
    obtain ⟨ts, hts, hseg, hfin, hle, _, hcost⟩ :=
      reported_is_candidate_segmentation _ C W hE hcv 0
    refine ⟨ts, _, by rw [tokenize_ne_nil D o chars hemp]; exact hts,
      (dictSeg_iff D o chars _ 0 _).mpr hseg, hle, hfin, ?_⟩
    intro cs sn' hseg' hfin'
    obtain ⟨h1, h2⟩ := optimal_among_candidate_segmentations _ C W hE hcv hns 0 cs sn'
      ((dictSeg_iff D o chars cs 0 sn').mp hseg') hfin'
    refine ⟨h1, ?_⟩
    have : segCost D.conn (ts.map tokCand) =
        (buildLattice (latEnvOf D (compileSent D chars) o)).eos.minCost := hcost
    rw [this]
    exact h2

/-- **Without `ignore_space`** (`space_cateset = None`), for every dictionary with `DictOK` and
`UnkCovered`, every `max_grouping_len` and every sentence within the cost bound: the reported
tokens tile the sentence with candidate words, and no tiling of the sentence by candidate words
(each a member of `candsAt` at the position where the previous word ended, the last one ending at
the end of the sentence) is strictly cheaper. -/
theorem tokenize_min_cost_no_ignore (D : TokDict) (C W : Int) (hD : DictOK D C W)
    (hcov : UnkCovered D) (mg : Option Nat) (chars : List Nat)
    (hb : ((chars.length : Int) + 1) * (C + W) ≤ MAX_COST) :
    ∃ ts, tokenize D ⟨none, mg⟩ chars = some ts ∧
      DictSeg D ⟨none, mg⟩ chars 0 (ts.map tokCand) chars.length ∧
      ∀ cs, DictSeg D ⟨none, mg⟩ chars 0 cs chars.length →
        segCost D.conn (ts.map tokCand) ≤ segCost D.conn cs := by
  have hskip : ∀ p, skipAt (compileSent D chars) ⟨none, mg⟩ p = 0 := fun p => by simp [skipAt]
  obtain ⟨ts, sn, h1, h2, hle, h3, h4⟩ := tokenize_min_cost D C W hD hcov ⟨none, mg⟩ chars hb
    (noEndInSkip_of_no_skip _ hskip)
  have hsn : sn = chars.length := by
    rcases h3 with h | h
    · exact h
    · rw [hskip] at h; omega
  subst hsn
  exact ⟨ts, h1, h2, fun cs hcs => (h4 cs _ hcs (Or.inl rfl)).2⟩

/-- **With `ignore_space`, under C12's precondition `SpacePre`** (a character with the SPACE bit
has category set exactly `sp`; no system or user lexicon surface contains such a character):
the reported tokens are a chain of candidate words from 0 to a boundary `sn` after which only
skipped characters follow, every chain of candidate words that ends at such a boundary ends at
the same `sn`, and none is strictly cheaper than the reported one. -/
theorem tokenize_min_cost_ignore_space (D : TokDict) (C W : Int) (hD : DictOK D C W)
    (hcov : UnkCovered D) (sp : Nat) (hsp : SpacePre D sp) (mg : Option Nat) (chars : List Nat)
    (hb : ((chars.length : Int) + 1) * (C + W) ≤ MAX_COST) :
    ∃ ts sn, tokenize D ⟨some sp, mg⟩ chars = some ts ∧
      DictSeg D ⟨some sp, mg⟩ chars 0 (ts.map tokCand) sn ∧ sn ≤ chars.length ∧
      (sn = chars.length ∨ chars.length ≤ sn + skipAt (compileSent D chars) ⟨some sp, mg⟩ sn) ∧
      ∀ cs sn', DictSeg D ⟨some sp, mg⟩ chars 0 cs sn' →
        (sn' = chars.length ∨ chars.length ≤ sn' + skipAt (compileSent D chars) ⟨some sp, mg⟩ sn') →
        sn' = sn ∧ segCost D.conn (ts.map tokCand) ≤ segCost D.conn cs :=
  tokenize_min_cost D C W hD hcov ⟨some sp, mg⟩ chars hb (noEndInSkip_of_spacePre hsp mg chars)

/-- **Dictionary level, form (a)**: for every dictionary with `DictOK`, `UnkCovered`, all options
and sentences within the cost bound — no assumption on spaces — the reported segmentation is
cheapest among the chains of candidate words whose boundaries are all live (`LiveD` of the
sentence's environment), and such chains all end at the same boundary. -/
theorem tokenize_min_cost_live (D : TokDict) (C W : Int) (hD : DictOK D C W) (hcov : UnkCovered D)
    (o : TokOpts) (chars : List Nat) (hne : chars ≠ [])
    (hb : ((chars.length : Int) + 1) * (C + W) ≤ MAX_COST) :
    ∃ ts sn, tokenize D o chars = some ts ∧
      DictSeg D o chars 0 (ts.map tokCand) sn ∧
      (sn = chars.length ∨ chars.length ≤ sn + skipAt (compileSent D chars) o sn) ∧
      (∀ x ∈ segBounds 0 (ts.map tokCand), LiveD (latEnvOf D (compileSent D chars) o) x) ∧
      ∀ cs sn', DictSeg D o chars 0 cs sn' →
        (sn' = chars.length ∨ chars.length ≤ sn' + skipAt (compileSent D chars) o sn') →
        (∀ x ∈ segBounds 0 cs, LiveD (latEnvOf D (compileSent D chars) o) x) →
        sn' = sn ∧ segCost D.conn (ts.map tokCand) ≤ segCost D.conn cs := by
  have hE := latEnvOf_envOK D C W hD chars o hb
  have hcv := latEnvOf_covered D hcov chars o
  obtain ⟨ts, hts, hseg, hfin, _, hlive, hcost⟩ := reported_is_candidate_segmentation _ C W hE hcv 0
  refine ⟨ts, _, by rw [tokenize_ne_nil D o chars hne]; exact hts,
    (dictSeg_iff D o chars _ 0 _).mpr hseg, hfin, hlive, ?_⟩
  intro cs sn' hseg' hfin' hlive'
  obtain ⟨h1, h2⟩ := optimal_among_live_segmentations _ C W hE hcv 0 cs sn'
    ((dictSeg_iff D o chars cs 0 sn').mp hseg') hfin' hlive'
  refine ⟨h1, ?_⟩
  have : segCost D.conn (ts.map tokCand) =
      (buildLattice (latEnvOf D (compileSent D chars) o)).eos.minCost := hcost
  rw [this]
  exact h2

/-! ### 5. Non-vacuity; ties; the dead end -/

/-- A four-character environment in the shape of `a␠bc` with `ignore_space`: one character is
skipped at boundary 1; `b`+`c` and `bc` cost the same (3 + 2 = 5), and `c` has two homographs
(word ids 3 and 4) of equal cost.  `flip` swaps the order in which the two homographs are
offered. -/
def capEnv (flip : Bool) : LatEnv :=
  { len := 4
    conn := fun r l => if r = 1 ∧ l = 1 then 1 else 0
    skip := fun p => if p = 1 then 1 else 0
    cands := fun sw =>
      if sw = 0 then [⟨1, 0, 0, 1, 1, 2⟩]
      else if sw = 1 then [⟨2, 9, 2, 0, 0, 1⟩]
      else if sw = 2 then [⟨3, 1, 0, 1, 0, 3⟩, ⟨4, 2, 0, 1, 0, 5⟩]
      else if sw = 3 then
        (if flip then [⟨4, 4, 0, 0, 0, 2⟩, ⟨4, 3, 0, 0, 0, 2⟩] else [⟨4, 3, 0, 0, 0, 2⟩, ⟨4, 4, 0, 0, 0, 2⟩])
      else [] }

theorem capEnv_ok (f : Bool) : EnvOK (capEnv f) 1 5 := by
  refine ⟨?_, ?_, ?_, by decide, by decide, ?_⟩
  · cases f <;> decide
  · intro r l; simp only [capEnv]; split <;> omega
  · cases f <;> decide
  · cases f <;> decide

theorem capEnv_covered (f : Bool) : Covered (capEnv f) := by
  unfold Covered; cases f <;> decide

theorem capEnv_noEndInSkip (f : Bool) : NoEndInSkip (capEnv f) := by
  have key : ∀ a, a < 4 → a + (capEnv f).skip a < (capEnv f).len →
      ∀ c ∈ (capEnv f).cands (a + (capEnv f).skip a),
        ∀ q, q < c.endWord → a + (capEnv f).skip a < q → q + (capEnv f).skip q < c.endWord := by
    cases f <;> decide
  intro a h c hc q h1 h2
  exact key a (by have : (capEnv f).len = 4 := rfl; omega) h c hc q h2 h1

/-- the three cheapest segmentations of `capEnv`: `a b c₃`, `a b c₄`, `a bc` -/
def capSegA : List Cand := [⟨1, 0, 0, 1, 1, 2⟩, ⟨3, 1, 0, 1, 0, 3⟩, ⟨4, 3, 0, 0, 0, 2⟩]
def capSegB : List Cand := [⟨1, 0, 0, 1, 1, 2⟩, ⟨3, 1, 0, 1, 0, 3⟩, ⟨4, 4, 0, 0, 0, 2⟩]
def capSegC : List Cand := [⟨1, 0, 0, 1, 1, 2⟩, ⟨4, 2, 0, 1, 0, 5⟩]

/-- Non-vacuity of (b) and **ties**: the hypotheses hold for `capEnv`; three different candidate
segmentations are complete (end at the final boundary 4) and cost 8; the theorem says that
`eos.min_cost ≤ 8` and that the reported cost is attained by a candidate segmentation — it does
*not* say which one is reported. -/
example (f : Bool) :
    CandSeg (capEnv f) 0 capSegA 4 ∧ CandSeg (capEnv f) 0 capSegB 4 ∧ CandSeg (capEnv f) 0 capSegC 4 ∧
    FinalB (capEnv f) 4 ∧
    segCost (capEnv f).conn capSegA = 8 ∧ segCost (capEnv f).conn capSegB = 8 ∧
    segCost (capEnv f).conn capSegC = 8 ∧
    (buildLattice (capEnv f)).eos.startNode = 4 ∧ (buildLattice (capEnv f)).eos.minCost ≤ 8 := by
  have hA : CandSeg (capEnv f) 0 capSegA 4 := by cases f <;> decide
  have hfin : FinalB (capEnv f) 4 := Or.inl rfl
  have hcA : segCost (capEnv f).conn capSegA = 8 := by cases f <;> decide
  obtain ⟨h1, h2⟩ := optimal_among_candidate_segmentations (capEnv f) 1 5 (capEnv_ok f)
    (capEnv_covered f) (capEnv_noEndInSkip f) 0 capSegA 4 hA hfin
  rw [hcA] at h2
  exact ⟨hA, by cases f <;> decide, by cases f <;> decide, hfin, hcA, by cases f <;> decide,
    by cases f <;> decide, h1.symm, h2⟩

-- (executable tests, not theorems) both orders of the homographs give cost 8, but the reported
-- segmentation differs (`search_min_node` keeps the last minimum): the candidate *sets* are the
-- same, so the declarative specification cannot determine the segmentation — only its cost.
#guard (buildLattice (capEnv false)).eos.minCost == 8 && (buildLattice (capEnv true)).eos.minCost == 8
#guard (tokensOf (buildLattice (capEnv false))).map (·.map tokCand) == some capSegB
#guard (tokensOf (buildLattice (capEnv true))).map (·.map tokCand) == some capSegA
#guard ∀ sw ∈ List.range 5, ((capEnv false).cands sw).Perm ((capEnv true).cands sw)
#guard capSegA != capSegB && capSegB != capSegC && capSegA != capSegC

/-- Non-vacuity of `reported_is_candidate_segmentation` on the same environment. -/
example : ∃ ts, tokensOf (buildLattice (capEnv false)) = some ts ∧
    CandSeg (capEnv false) 0 (ts.map tokCand) (buildLattice (capEnv false)).eos.startNode ∧
    segCost (capEnv false).conn (ts.map tokCand) = (buildLattice (capEnv false)).eos.minCost := by
  obtain ⟨ts, h1, h2, _, _, _, h3⟩ :=
    reported_is_candidate_segmentation (capEnv false) 1 5 (capEnv_ok false) (capEnv_covered false) 0
  exact ⟨ts, h1, h2, h3⟩

/-- **The dead end.**  Three characters in the shape of `a␠␠`; the candidates at 0 are `a`
(cost 10) and `a␠` (cost 1, ends at boundary 2); at boundary 1 two characters are skipped. -/
def deadEnv : LatEnv :=
  { len := 3
    conn := fun _ _ => 0
    skip := fun p => if p = 1 then 2 else 0
    cands := fun sw =>
      if sw = 0 then [⟨1, 0, 0, 0, 0, 10⟩, ⟨2, 1, 0, 0, 0, 1⟩]
      else if sw = 1 then [⟨2, 2, 2, 0, 0, 5⟩]
      else if sw = 2 then [⟨3, 3, 2, 0, 0, 1⟩]
      else [] }

theorem deadEnv_ok : EnvOK deadEnv 0 10 ∧ Covered deadEnv := by
  refine ⟨⟨by decide, fun _ _ => Int.le_refl _, by decide, by decide, by decide, by decide⟩, ?_⟩
  unfold Covered; decide

/-- what the code computes for `deadEnv` (the loop unfolded by hand): EOS at boundary 1, cost 10 -/
theorem deadEnv_eos : (buildLattice deadEnv).eos.minCost = 10 ∧ (buildLattice deadEnv).eos.startNode = 1 := by
  have h1 : buildLoop deadEnv (resetEnds 0 deadEnv.len) 0 =
      buildLoop deadEnv (addEdges deadEnv (resetEnds 0 deadEnv.len) 0 0) 1 := by
    rw [buildLoop]
    rw [if_pos (by decide), if_neg (by decide)]
    simp only []
    rw [if_neg (by decide)]
    rfl
  have h2 : buildLoop deadEnv (addEdges deadEnv (resetEnds 0 deadEnv.len) 0 0) 1 =
      (addEdges deadEnv (resetEnds 0 deadEnv.len) 0 0, 1) := by
    rw [buildLoop]
    rw [if_pos (by decide), if_neg (by decide)]
    simp only []
    rw [if_pos (by decide)]
  unfold buildLattice
  simp only [h1, h2]
  decide

/-- **(c) Without `NoEndInSkip` the unrestricted statement fails.**  `deadEnv` satisfies `EnvOK`
and `Covered`; `a␠`, `␠` is a chain of candidates from 0 to the final boundary 3 = `len` and costs
2; the code reports cost 10 (the single word `a`, EOS at boundary 1).  The cheaper chain passes
through boundary 2, which is not live: it lies in the run `(1, 1 + 2]` skipped at the live
boundary 1 — the word `a␠` is stored in the lattice but never used as a predecessor. -/
theorem dead_end_cheaper :
    EnvOK deadEnv 0 10 ∧ Covered deadEnv ∧ ¬ NoEndInSkip deadEnv ∧
    CandSeg deadEnv 0 [⟨2, 1, 0, 0, 0, 1⟩, ⟨3, 3, 2, 0, 0, 1⟩] 3 ∧ FinalB deadEnv 3 ∧
    segCost deadEnv.conn [⟨2, 1, 0, 0, 0, 1⟩, ⟨3, 3, 2, 0, 0, 1⟩] = 2 ∧
    (buildLattice deadEnv).eos.minCost = 10 ∧ (buildLattice deadEnv).eos.startNode = 1 ∧
    LiveD deadEnv 1 ∧ ¬ LiveD deadEnv 2 := by
  have hl1 : LiveD deadEnv 1 := by
    rw [liveD_iff]
    refine ⟨Or.inr ⟨0, by decide, liveD_zero _, by decide, ⟨1, 0, 0, 0, 0, 10⟩, by decide, rfl⟩, ?_⟩
    intro q hq _
    have : q = 0 := by omega
    subst this; decide
  refine ⟨deadEnv_ok.1, deadEnv_ok.2, ?_, by decide, Or.inl rfl, by decide, deadEnv_eos.1,
    deadEnv_eos.2, hl1, ?_⟩
  · intro h
    have := h 0 (by decide) ⟨2, 1, 0, 0, 0, 1⟩ (by decide) 1 (by decide) (by decide)
    revert this; decide
  · intro h
    have := h.not_jumped (q := 1) (by decide) hl1
    revert this; decide

/-- The same on a dictionary: lexicon `a` (cost 5), `a␠` (cost 1), `b` (cost 1), U+0020 in
category SPACE, `ignore_space` on, sentence `a␠␠b`.  (`SpacePre` fails: a lexicon surface contains
a space.)  The real tokenizer gives the same answer (`vharness replayfile`, see the report). -/
def deadDict : TokDict :=
  { sys := [⟨[97], ⟨0, 0, 5⟩⟩, ⟨[97, 32], ⟨0, 0, 1⟩⟩, ⟨[98], ⟨0, 0, 1⟩⟩]
    user := none
    conn := fun _ _ => 0
    charInfo := fun c => if c = 32 then ⟨2, 1, false, true, 0⟩ else ⟨1, 0, false, true, 2⟩
    unkOf := fun b => if b = 0 then [(0, ⟨0, 0, 10⟩)] else [(1, ⟨0, 0, 5⟩)] }

/-- `a␠` (ends at 2; one more space is skipped there), `b` is a chain of `candsAt` members from 0
to 4 = `len` of cost 2 … -/
example : DictSeg deadDict ⟨some 2, none⟩ [97, 32, 32, 98] 0 [⟨2, 1, 0, 0, 0, 1⟩, ⟨4, 2, 0, 0, 0, 1⟩] 4 ∧
    segCost deadDict.conn [⟨2, 1, 0, 0, 0, 1⟩, ⟨4, 2, 0, 0, 0, 1⟩] = 2 := by decide

-- … but `a`, `b` with cost 6 is reported (executable test)
#guard (tokenize deadDict ⟨some 2, none⟩ [97, 32, 32, 98]).map (fun ts => (ts.map tokCand, segCost deadDict.conn (ts.map tokCand)))
  == some ([⟨1, 0, 0, 0, 0, 5⟩, ⟨4, 2, 0, 0, 0, 1⟩], 6)
-- even with a single space the word `a␠` (ending exactly where the skipped run ends) is a dead end
#guard (tokenize deadDict ⟨some 2, none⟩ [97, 32, 98]).map (fun ts => (ts.map tokCand, segCost deadDict.conn (ts.map tokCand)))
  == some ([⟨1, 0, 0, 0, 0, 5⟩, ⟨3, 2, 0, 0, 0, 1⟩], 6)
#guard decide (DictSeg deadDict ⟨some 2, none⟩ [97, 32, 98] 0 [⟨2, 1, 0, 0, 0, 1⟩, ⟨3, 2, 0, 0, 0, 1⟩] 3)
-- without `ignore_space` the same dictionary does report the cheap word
#guard (tokenize deadDict ⟨none, none⟩ [97, 32, 98]).map (fun ts => segCost deadDict.conn (ts.map tokCand)) == some 2

/-- Non-vacuity at dictionary level: the dictionary of `Props/C01` (`ab`, `a`), text `ab a`.
Without `ignore_space` … -/
example : ∃ ts, tokenize exampleDict ⟨none, none⟩ [97, 98, 32, 97] = some ts ∧
    DictSeg exampleDict ⟨none, none⟩ [97, 98, 32, 97] 0 (ts.map tokCand) 4 ∧
    ∀ cs, DictSeg exampleDict ⟨none, none⟩ [97, 98, 32, 97] 0 cs 4 →
      segCost exampleDict.conn (ts.map tokCand) ≤ segCost exampleDict.conn cs :=
  tokenize_min_cost_no_ignore exampleDict 0 10 exampleDict_ok
    (by intro c; simp only [exampleDict]; split <;> split <;> simp) none _ (by decide)

/-- … and with `ignore_space` (`SpacePre exampleDict 2` holds: the space has category set `{SPACE}`
and no lexicon surface contains it). -/
theorem exampleDict_spacePre : SpacePre exampleDict 2 := by
  refine ⟨?_, ?_, ?_⟩
  · intro c hc
    by_cases h32 : c = 32
    · subst h32; rfl
    · exfalso; simp [exampleDict, h32] at hc
  · intro e he c hc
    simp only [exampleDict, List.mem_cons, List.not_mem_nil, or_false] at he
    rcases he with rfl | rfl <;> simp at hc
    · rcases hc with rfl | rfl <;> decide
    · subst hc; decide
  · intro u hu; simp [exampleDict] at hu

example : ∃ ts sn, tokenize exampleDict ⟨some 2, none⟩ [97, 98, 32, 97] = some ts ∧
    DictSeg exampleDict ⟨some 2, none⟩ [97, 98, 32, 97] 0 (ts.map tokCand) sn ∧
    ∀ cs sn', DictSeg exampleDict ⟨some 2, none⟩ [97, 98, 32, 97] 0 cs sn' →
      (sn' = 4 ∨ 4 ≤ sn' + skipAt (compileSent exampleDict [97, 98, 32, 97]) ⟨some 2, none⟩ sn') →
      sn' = sn ∧ segCost exampleDict.conn (ts.map tokCand) ≤ segCost exampleDict.conn cs := by
  obtain ⟨ts, sn, h1, h2, _, _, h4⟩ := tokenize_min_cost_ignore_space exampleDict 0 10 exampleDict_ok
    (by intro c; simp only [exampleDict]; split <;> split <;> simp) 2 exampleDict_spacePre none
    [97, 98, 32, 97] (by decide)
  exact ⟨ts, sn, h1, h2, h4⟩

#guard (tokenize exampleDict ⟨some 2, none⟩ [97, 98, 32, 97]).map (·.map tokCand) ==
  some [⟨2, 0, 0, 0, 0, 3⟩, ⟨4, 1, 0, 0, 0, 1⟩]
-- a competing candidate segmentation of the same sentence (`a`, unknown `b`, `a`) costs more
#guard decide (DictSeg exampleDict ⟨some 2, none⟩ [97, 98, 32, 97] 0
    [⟨1, 1, 0, 0, 0, 1⟩, ⟨2, 0, 2, 0, 0, 10⟩, ⟨4, 1, 0, 0, 0, 1⟩] 4)

end Vibrato
