/-
C04 — A worker's result depends only on dictionary, options and sentence.

The worker is the state machine `WorkerM.step` (`Model/Worker.lean`) over the public
operations; the tokenizer (dictionary + options) is an immutable parameter shared by all
workers.  `Fixes.f1` selects the repaired `tokenize` (clears the previous result first);
with `f1 = false` the model mirrors the pinned tree, where a repeated `tokenize` appends the
path again (`tokenize_twice_doubles`).
-/
import Vibrato.Model.Worker
import Vibrato.Proofs.BufferIndep
import Vibrato.Proofs.TokenizerEnv

namespace Vibrato

/-- Run a history of operations; `none` = some operation panicked. -/
def WorkerM.run (fx : Fixes) (T : TokenizerM) : WorkerM → List WOp → Option WorkerM
  | w, [] => some w
  | w, op :: ops => (w.step fx T op).bind fun p => WorkerM.run fx T p.1 ops

/-- `top_nodes` after `reset_sentence(s); tokenize()` starting from state `w`. -/
def topAfter (fx : Fixes) (T : TokenizerM) (w : WorkerM) (s : List Nat) : Option (List (Nat × Node)) :=
  (WorkerM.run fx T w [.reset s, .tokenize]).map (·.top)

theorem latEnv_candsInRange (D : TokDict) (chars : List Nat) (o : TokOpts) :
    CandsInRange (latEnvOf D (compileSent D chars) o) := by
  intro sw hsw c hc
  have hlen : (latEnvOf D (compileSent D chars) o).len = chars.length := by
    simp [latEnvOf, compileSent]
  rw [hlen] at hsw ⊢
  exact (candsAt_spec D chars o sw hsw c hc).2.1

/-- **Whatever the worker did before, `reset_sentence(s); tokenize()` yields what a fresh
worker yields** — for every previous state `w` (hence after every history of operations,
on any sentences, including a longer previous sentence that left a larger buffer), every
tokenizer and every sentence; also on the pinned tree (`fx` arbitrary). -/
theorem reset_then_tokenize_fresh (fx : Fixes) (T : TokenizerM) (w : WorkerM) (s : List Nat) :
    topAfter fx T w s = topAfter fx T WorkerM.fresh s := by
  unfold topAfter WorkerM.run WorkerM.run WorkerM.run
  simp only [WorkerM.step, Option.bind_some, WorkerM.fresh]
  by_cases hs : s.isEmpty
  · simp [hs]
  · simp only [hs, if_false, Bool.false_eq_true]
    have hb := (buildLattice_buffer_indep _
      (latEnv_candsInRange T.dict.tokDict s T.opts) w.bufLen).2.2
    rw [hb]
    cases topNodes (buildLattice (latEnvOf T.dict.tokDict (compileSent T.dict.tokDict s) T.opts) 0) <;>
      simp

/-- the same, phrased over histories: after *any* history `h` that did not panic -/
theorem history_independent (fx : Fixes) (T : TokenizerM) (h : List WOp) (w : WorkerM)
    (_hw : WorkerM.run fx T WorkerM.fresh h = some w) (s : List Nat) :
    topAfter fx T w s = topAfter fx T WorkerM.fresh s :=
  reset_then_tokenize_fresh fx T w s

/-- **Repeated `tokenize` is idempotent** on the repaired tree (`f1 = true`). -/
theorem tokenize_idempotent (fx : Fixes) (hf : fx.f1 = true) (T : TokenizerM) (w : WorkerM) :
    (WorkerM.run fx T w [.tokenize, .tokenize]).map (·.top) =
      (WorkerM.run fx T w [.tokenize]).map (·.top) := by
  unfold WorkerM.run WorkerM.run WorkerM.run
  simp only [WorkerM.step, hf, if_true]
  by_cases hs : w.sent.isEmpty
  · have : w.sent = [] := by simpa using hs
    simp [hs, this]
  · simp only [hs, if_false, Bool.false_eq_true]
    have hr := latEnv_candsInRange T.dict.tokDict w.sent T.opts
    have hb := (buildLattice_buffer_indep _ hr w.bufLen).2.2
    rw [hb]
    cases h0 : topNodes (buildLattice (latEnvOf T.dict.tokDict (compileSent T.dict.tokDict w.sent) T.opts) 0) with
    | none => simp
    | some r =>
      simp only [Option.bind_some, hs, if_false, Bool.false_eq_true]
      have hb2 := (buildLattice_buffer_indep _ hr
        (max w.bufLen ((latEnvOf T.dict.tokDict (compileSent T.dict.tokDict w.sent) T.opts).len + 1))).2.2
      rw [hb2, h0]
      simp

/-- **Pinned tree (`f1 = false`): a second `tokenize` appends the path again**, so the
token list is doubled whenever it is non-empty (finding F1). -/
theorem tokenize_twice_doubles (fx : Fixes) (hf : fx.f1 = false) (T : TokenizerM) (w : WorkerM)
    (s : List Nat) (r : List (Nat × Node)) (hr : topAfter fx T w s = some r) :
    ((WorkerM.run fx T w [.reset s, .tokenize, .tokenize]).map (·.top)) = some (r ++ r) ∨ s = [] := by
  unfold topAfter WorkerM.run WorkerM.run WorkerM.run at hr
  unfold WorkerM.run WorkerM.run WorkerM.run WorkerM.run
  simp only [WorkerM.step, Option.bind_some, hf] at hr ⊢
  by_cases hs : s.isEmpty
  · right; simpa using hs
  · left
    simp only [hs, if_false, Bool.false_eq_true] at hr ⊢
    have hc := latEnv_candsInRange T.dict.tokDict s T.opts
    have hb := (buildLattice_buffer_indep _ hc w.bufLen).2.2
    rw [hb] at hr ⊢
    cases h0 : topNodes (buildLattice (latEnvOf T.dict.tokDict (compileSent T.dict.tokDict s) T.opts) 0) with
    | none => rw [h0] at hr; simp at hr
    | some r0 =>
      rw [h0] at hr
      simp only [Option.bind_some, Option.map_some, List.nil_append, Option.some.injEq] at hr
      subst hr
      simp only [Option.bind_some, hs, if_false, Bool.false_eq_true]
      have hb2 := (buildLattice_buffer_indep _ hc
        (max w.bufLen ((latEnvOf T.dict.tokDict (compileSent T.dict.tokDict s) T.opts).len + 1))).2.2
      rw [hb2, h0]
      simp

/-! ### Independent workers over one shared tokenizer -/

/-- which worker an operation is issued on -/
inductive Who where
  | a
  | b
  deriving DecidableEq, Repr

/-- one step of a system of two workers sharing the (immutable) tokenizer -/
def stepSys (fx : Fixes) (T : TokenizerM) (st : WorkerM × WorkerM) (op : Who × WOp) :
    Option (WorkerM × WorkerM) :=
  match op.1 with
  | .a => (st.1.step fx T op.2).map fun p => (p.1, st.2)
  | .b => (st.2.step fx T op.2).map fun p => (st.1, p.1)

def runSys (fx : Fixes) (T : TokenizerM) : WorkerM × WorkerM → List (Who × WOp) → Option (WorkerM × WorkerM)
  | st, [] => some st
  | st, op :: ops => (stepSys fx T st op).bind fun st' => runSys fx T st' ops

def proj (who : Who) (ops : List (Who × WOp)) : List WOp :=
  (ops.filter fun o => o.1 = who).map (·.2)

/-- **Any interleaving of two workers' operations projects to each worker's own sequential
run**: the shared tokenizer is never written, so neither worker can observe the other.
(Thread-level interleavings inside one operation are outside the model, see DESIGN.md.) -/
theorem interleave_independent (fx : Fixes) (T : TokenizerM) :
    ∀ (ops : List (Who × WOp)) (st st' : WorkerM × WorkerM), runSys fx T st ops = some st' →
      WorkerM.run fx T st.1 (proj .a ops) = some st'.1 ∧
      WorkerM.run fx T st.2 (proj .b ops) = some st'.2
  | [], st, st', h => by
    simp only [runSys, Option.some.injEq] at h; subst h
    simp [proj, WorkerM.run]
  | (who, op) :: ops, st, st', h => by
    simp only [runSys] at h
    cases hs : stepSys fx T st (who, op) with
    | none => rw [hs] at h; simp at h
    | some st1 =>
      rw [hs] at h
      simp only [Option.bind_some] at h
      have ih := interleave_independent fx T ops st1 st' h
      cases who with
      | a =>
        simp only [stepSys] at hs
        cases hw : st.1.step fx T op with
        | none => rw [hw] at hs; simp at hs
        | some p =>
          rw [hw] at hs
          simp only [Option.map_some, Option.some.injEq] at hs
          subst hs
          simp only [proj, List.filter_cons, decide_true, if_true, List.map_cons, WorkerM.run, hw,
            Option.bind_some, reduceCtorEq, decide_false, Bool.false_eq_true, if_false]
          exact ih
      | b =>
        simp only [stepSys] at hs
        cases hw : st.2.step fx T op with
        | none => rw [hw] at hs; simp at hs
        | some p =>
          rw [hw] at hs
          simp only [Option.map_some, Option.some.injEq] at hs
          subst hs
          simp only [proj, List.filter_cons, decide_true, if_true, List.map_cons, WorkerM.run, hw,
            Option.bind_some, reduceCtorEq, decide_false, Bool.false_eq_true, if_false]
          exact ih

end Vibrato
