/-
Property C18 — "Feature templates expand per MeCab semantics and define connection classes".

Model: `Vibrato/Model/Extractor.lean` (`FeatureExtractor::new`, `extract_feature_ids`,
`parse_feature_config`, `Trainer::extract_feature_set`, the numbering of `rucrf::RawModel::merge`).
Helper lemmas: `Vibrato/Proofs/Extractor.lean`.

* `expand_spec` (+ `template_reading_exists/unique`, `optional_none_iff`): regex scanning, capture
  ranges and string assembly = declarative substitution.
* `intern_injective` (+ `extract_*_spec`, `history_ids`, `ids_equal_iff_strings_equal`): the
  interning maps stay injective functions into `[1, next)` along any history of extraction calls,
  removals and reloads; every id returned is the id the final map gives to the expansion.
* `classes_spec`, `tuple_listed`, `classTable_first_appearance`: two labels share a connection id
  iff their feature-id tuples are equal; the table row of an id is that tuple (abstract `merge`:
  `classesOf`/`classTable` mirror the `raw_entry_mut().from_key(..).or_insert_with(..)` numbering of
  rucrf-0.3.3; the trainer-level statement about the written `bigram.left/right` files is
  left to the trainer model).
-/
import Vibrato.Proofs.Extractor

namespace Vibrato.Props.C18

open Vibrato (Outcome)
open Vibrato.Extractor

/-! ## 1. Expansion -/

/-- **expand_spec.**  Let `segs` be the reading of the template text `raw` as placeholders and
literal characters (`Decomp`: `%F[12]`, `%F?[0]`, `%t` for unigram templates, `%L[i]`/`%L?[i]` for
left, `%R[i]`/`%R?[i]` for right templates; everything else — `%L[0]` in a unigram template,
`%F[]`, `%F[a]`, a lone `%` — is literal text).  Then what the Rust code computes with its regex
captures, byte ranges and the assembly loop is the declarative substitution: `panic` iff some index
exceeds `usize::MAX` (`parse::<usize>().unwrap()` in `FeatureExtractor::new`), otherwise no
feature if a `?` placeholder refers to a `*`/absent feature, otherwise the text with `%X[i]` ↦
`i`-th feature or `*` and `%t` ↦ decimal category id. -/
theorem expand_spec (k : Kind) (raw : Str) (segs : List Seg) (h : Decomp k raw segs)
    (feats : List Str) (cate : Nat) :
    expandTemplate k raw feats cate =
      if segs.any Seg.tooBig then .panic else .ok (substitute segs feats cate) := by
  simp only [expandTemplate, parseTemplate_decomp k raw segs h]
  by_cases hb : segs.any Seg.tooBig = true
  · simp [hb]
  · simp only [hb, Bool.false_eq_true, if_false]
    exact expand_decomp k raw segs h feats cate

/-- Every template text has such a reading … -/
theorem template_reading_exists (k : Kind) (raw : Str) : ∃ segs, Decomp k raw segs :=
  decomp_exists k raw

/-- … exactly one, and it spells the template. -/
theorem template_reading_unique (k : Kind) (raw : Str) (s1 s2 : List Seg)
    (h1 : Decomp k raw s1) (h2 : Decomp k raw s2) : s1 = s2 ∧ render k s1 = raw :=
  ⟨decomp_unique k raw s1 s2 h1 h2, render_decomp k raw s1 h1⟩

/-- A template yields no feature iff it contains a `?` placeholder whose feature is `*` or absent. -/
theorem optional_none_iff (segs : List Seg) (feats : List Str) (cate : Nat) :
    substitute segs feats cate = none ↔
      ∃ ds, Seg.tok (.idx ds true) ∈ segs ∧
        (feats[digitsVal ds]? = none ∨ feats[digitsVal ds]? = some ['*']) := by
  simp only [substitute]
  constructor
  · intro h
    split at h
    · rename_i hany
      obtain ⟨sg, hmem, hmiss⟩ := List.any_eq_true.mp hany
      cases sg with
      | chr c => simp [Seg.missing] at hmiss
      | tok t =>
        cases t with
        | cate => simp [Seg.missing, Tok.missing] at hmiss
        | idx ds req =>
          cases req with
          | false => simp [Seg.missing, Tok.missing] at hmiss
          | true =>
            refine ⟨ds, hmem, ?_⟩
            simp only [Seg.missing, Tok.missing, featOrStar, beq_iff_eq] at hmiss
            cases hf : feats[digitsVal ds]? with
            | none => exact Or.inl rfl
            | some v => rw [hf] at hmiss; simp only [Option.getD_some] at hmiss; simp [hmiss]
    · cases h
  · intro ⟨ds, hmem, hf⟩
    have : segs.any (Seg.missing feats) = true := by
      refine List.any_eq_true.mpr ⟨_, hmem, ?_⟩
      simp only [Seg.missing, Tok.missing, featOrStar, beq_iff_eq]
      rcases hf with hf | hf <;> simp [hf]
    simp [this]

/-- Templates produced by `FeatureExtractor::new` never hit the slice panics of the assembly loop. -/
theorem expand_parsed_ne_panic (k : Kind) (raw : Str) (pt : ParsedTemplate)
    (h : parseTemplate k raw = .ok pt) (feats : List Str) (cate : Nat) :
    expand pt feats cate ≠ .panic := by
  obtain ⟨segs, hd⟩ := decomp_exists k raw
  rw [parseTemplate_decomp k raw segs hd] at h
  split at h
  · cases h
  · cases h
    rw [expand_decomp k raw segs hd]
    intro hc; cases hc

/-! ### Non-vacuity and the corner cases of the scanner -/

section Examples
private def s (x : String) : Str := x.toList

-- a reading with literal text, two placeholders and `%t`
example : Decomp .U (s "w:%F[0],%t") [.chr 'w', .chr ':', .tok (.idx (s "0") false), .chr ',', .tok .cate] :=
  .chr _ _ _ rfl (.chr _ _ _ rfl (.tok (.idx (s "0") false) _ _ ⟨by decide, by decide⟩ (Or.inl rfl)
    (.chr _ _ _ rfl (.tok .cate _ _ trivial (Or.inl rfl) .nil))))

#guard expandTemplate .U (s "w:%F[0],%t") [s "人", s "名詞"] 3 == .ok (some (s "w:人,3"))
-- multi-digit and zero-padded indices
#guard expandTemplate .U (s "%F[12]|%F[01]") [s "a", s "b"] 0 == .ok (some (s "*|b"))
-- `?` forms: `*` or absent ⇒ no feature; present ⇒ substituted
#guard expandTemplate .U (s "p:%F?[2]") [s "a", s "b", s "*"] 0 == .ok none
#guard expandTemplate .U (s "p:%F?[2]") [s "a", s "b"] 0 == .ok none
#guard expandTemplate .U (s "p:%F?[2]") [s "a", s "b", s "c"] 0 == .ok (some (s "p:c"))
-- `%L[0]` / `%R[0]` inside a unigram template, `%F[0]` / `%t` inside a bigram template: literal
#guard expandTemplate .U (s "%L[0]%R?[0]") [s "a"] 0 == .ok (some (s "%L[0]%R?[0]"))
#guard expandTemplate .L (s "%F[0]%t%L[0]") [s "a"] 7 == .ok (some (s "%F[0]%ta"))
-- `%F[]`, `%F[a]`, unterminated, doubled `?`: literal
#guard expandTemplate .U (s "%F[]%F[a]%F[1%F??[0]") [s "a"] 0 == .ok (some (s "%F[]%F[a]%F[1%F??[0]"))
-- adjacent captures, `%%F[0]`, and a capture starting inside a failed one
#guard expandTemplate .U (s "%F[0]%F[1]%%F[0]%F[%F[1]]") [s "a", s "b"] 0 == .ok (some (s "ab%a%F[b]"))
-- the value of a feature is not rescanned
#guard expandTemplate .U (s "%F[0]") [s "%F[1]", s "b"] 0 == .ok (some (s "%F[1]"))
-- index above `usize::MAX`: `FeatureExtractor::new` panics; `usize::MAX` itself is fine
#guard expandTemplate .U (s "%F[18446744073709551616]") [] 0 == .panic
#guard expandTemplate .U (s "%F[18446744073709551615]") [] 0 == .ok (some (s "*"))

example : expandTemplate .U ((Tok.idx (s "18446744073709551616") false).text .U ++ []) [] 0 = .panic := by
  rw [expand_spec .U _ [.tok (.idx (s "18446744073709551616") false)]
    (.tok (.idx (s "18446744073709551616") false) [] [] ⟨by decide, by decide⟩ (Or.inl rfl) .nil)]
  decide

example : substitute [.chr 'p', .tok (.idx (s "2") true)] [s "a"] 0 = none :=
  (optional_none_iff _ _ _).mpr ⟨s "2", by simp, Or.inl (by decide)⟩
end Examples

/-! ## 2. Interning -/

/-- One event in the life of a `FeatureExtractor`. -/
inductive Step : ExtractorState → ExtractorState → Prop where
  /-- a successful `extract_unigram_feature_ids` call -/
  | uni (st : ExtractorState) (feats : List Str) (cate : Nat) (ids : List Nat)
      (st' : ExtractorState) : extractUnigram st feats cate = .ok (ids, st') → Step st st'
  /-- a successful `extract_left_feature_ids` call -/
  | left (st : ExtractorState) (feats : List Str) (ids : List (Option Nat))
      (st' : ExtractorState) : extractLeft st feats = .ok (ids, st') → Step st st'
  /-- a successful `extract_right_feature_ids` call -/
  | right (st : ExtractorState) (feats : List Str) (ids : List (Option Nat))
      (st' : ExtractorState) : extractRight st feats = .ok (ids, st') → Step st st'
  /-- arbitrary removals from the maps (`Trainer::train` removes unused strings); the counters
  are untouched -/
  | remove (st st' : ExtractorState) :
      st'.uni.Sublist st.uni → st'.left.Sublist st.left → st'.right.Sublist st.right →
      st'.uniNext = st.uniNext → st'.leftNext = st.leftNext → st'.rightNext = st.rightNext →
      Step st st'
  /-- `Encode` then `Decode`: the maps go through `Vec<(String, NonZeroU32)>` in hash order and
  are rebuilt, the counters are restored -/
  | reload (st st' : ExtractorState) :
      st'.uni.Perm st.uni → st'.left.Perm st.left → st'.right.Perm st.right →
      st'.uniNext = st.uniNext → st'.leftNext = st.leftNext → st'.rightNext = st.rightNext →
      Step st st'

/-- States reachable from `FeatureExtractor::new(unigram, bigram)`. -/
inductive Reachable (unigram : List Str) (bigram : List (Str × Str)) : ExtractorState → Prop where
  | init (st : ExtractorState) : ExtractorState.new unigram bigram = .ok st → Reachable unigram bigram st
  | step (st st' : ExtractorState) : Reachable unigram bigram st → Step st st' →
      Reachable unigram bigram st'

theorem stateOK_step (st st' : ExtractorState) (h : StateOK st) (hs : Step st st') : StateOK st' := by
  cases hs with
  | uni feats cate ids _ he =>
    unfold extractUnigram at he
    split at he
    · rename_i res m n hx
      cases he
      exact ⟨(extractIds_spec feats cate _ h.uni hx).1, h.left, h.right⟩
    · cases he
    · cases he
  | left feats ids _ he =>
    unfold extractLeft at he
    split at he
    · rename_i res m n hx
      cases he
      exact ⟨h.uni, (extractIds_spec feats 0 _ h.left hx).1, h.right⟩
    · cases he
    · cases he
  | right feats ids _ he =>
    unfold extractRight at he
    split at he
    · rename_i res m n hx
      cases he
      exact ⟨h.uni, h.left, (extractIds_spec feats 0 _ h.right hx).1⟩
    · cases he
    · cases he
  | remove _ su sl sr nu nl nr =>
    exact ⟨nu ▸ h.uni.sublist su, nl ▸ h.left.sublist sl, nr ▸ h.right.sublist sr⟩
  | reload _ pu pl pr nu nl nr =>
    exact ⟨nu ▸ h.uni.perm pu, nl ▸ h.left.perm pl, nr ▸ h.right.perm pr⟩

/-- **intern_injective.**  Along ANY history of extraction calls, removals of entries and reloads,
starting from `FeatureExtractor::new`, each of the three maps is an injective function: no string
has two ids (`keys`), different strings have different ids (`inj`), and every id is positive and
below the map's `next_id` counter (`rng`) — so the next fresh id never collides, which is what makes
`if new_id == feature_id { *next_id += 1 }` count exactly the insertions. -/
theorem intern_injective (u : List Str) (b : List (Str × Str)) (st : ExtractorState)
    (h : Reachable u b st) : StateOK st := by
  induction h with
  | init st h => exact (stateOK_new u b st h).1
  | step st st' _ hs ih => exact stateOK_step st st' ih hs

/-- In a well-formed map: equal strings ⇔ equal ids; ids are in `[1, next)`. -/
theorem ids_equal_iff_strings_equal {m : IdMap} {next : Nat} (h : MapOK m next) {a b : Str}
    {i j : Nat} (ha : lookup m a = some i) (hb : lookup m b = some j) :
    (i = j ↔ a = b) ∧ 0 < i ∧ i < next :=
  ⟨h.lookup_inj ha hb, h.lookup_rng ha⟩

/-- What an extraction call returns (left templates; `extract_right_spec`, `extract_unigram_spec`
are the same for the other two maps): position `t` of the result is the id that the map AFTER the
call gives to the expansion of template `t` (`none` where the template yields no feature); every
expansion is in the map afterwards (`Defined`); old bindings are kept and the templates unchanged
(`After`); the other maps are untouched. -/
theorem extract_left_spec (st st' : ExtractorState) (feats : List Str) (ids : List (Option Nat))
    (h : StateOK st) (he : extractLeft st feats = .ok (ids, st')) :
    StateOK st' ∧ After st st' ∧ st'.uni = st.uni ∧ st'.right = st.right ∧
      ids = st.leftT.map (idOf st'.left feats 0) ∧ Defined st'.left st.leftT feats 0 :=
  extractLeft_spec st st' feats ids h he

theorem extract_right_spec (st st' : ExtractorState) (feats : List Str) (ids : List (Option Nat))
    (h : StateOK st) (he : extractRight st feats = .ok (ids, st')) :
    StateOK st' ∧ After st st' ∧ st'.uni = st.uni ∧ st'.left = st.left ∧
      ids = st.rightT.map (idOf st'.right feats 0) ∧ Defined st'.right st.rightT feats 0 :=
  extractRight_spec st st' feats ids h he

/-- The unigram call returns the flattened list (templates without feature are dropped). -/
theorem extract_unigram_spec (st st' : ExtractorState) (feats : List Str) (cate : Nat)
    (ids : List Nat) (h : StateOK st) (he : extractUnigram st feats cate = .ok (ids, st')) :
    StateOK st' ∧ After st st' ∧ st'.left = st.left ∧ st'.right = st.right ∧
      ids = (st.uniT.map (idOf st'.uni feats cate)).filterMap id ∧
      Defined st'.uni st.uniT feats cate :=
  extractUnigram_spec st st' feats cate ids h he

/-! ### Histories of extraction calls -/

inductive Call where
  | uni (feats : List Str) (cate : Nat)
  | left (feats : List Str)
  | right (feats : List Str)

def runCall (st : ExtractorState) : Call → Outcome (List (Option Nat) × ExtractorState)
  | .uni feats cate =>
    match extractUnigram st feats cate with
    | .ok (ids, st') => .ok (ids.map some, st')
    | .err => .err
    | .panic => .panic
  | .left feats => extractLeft st feats
  | .right feats => extractRight st feats

/-- A history of calls: the id lists returned, in order, and the final state. -/
def run : ExtractorState → List Call → Outcome (List (List (Option Nat)) × ExtractorState)
  | st, [] => .ok ([], st)
  | st, c :: cs =>
    match runCall st c with
    | .ok (ids, st1) =>
      match run st1 cs with
      | .ok (outs, st') => .ok (ids :: outs, st')
      | .err => .err
      | .panic => .panic
    | .err => .err
    | .panic => .panic

/-- What a call must have returned, judged by the FINAL state `fin`. -/
def expected (fin : ExtractorState) : Call → List (Option Nat)
  | .uni feats cate => ((fin.uniT.map (idOf fin.uni feats cate)).filterMap id).map some
  | .left feats => fin.leftT.map (idOf fin.left feats 0)
  | .right feats => fin.rightT.map (idOf fin.right feats 0)

theorem runCall_spec (st st1 : ExtractorState) (c : Call) (ids : List (Option Nat))
    (h : StateOK st) (hr : runCall st c = .ok (ids, st1)) :
    StateOK st1 ∧ After st st1 ∧ ∀ fin, After st1 fin → ids = expected fin c := by
  cases c with
  | uni feats cate =>
    simp only [runCall] at hr
    cases hx : extractUnigram st feats cate with
    | err => simp [hx] at hr
    | panic => simp [hx] at hr
    | ok r =>
      obtain ⟨ids0, st0⟩ := r
      simp only [hx, Outcome.ok.injEq, Prod.mk.injEq] at hr
      obtain ⟨rfl, rfl⟩ := hr
      obtain ⟨hok, haft, _, _, h8, h9⟩ := extractUnigram_spec st st0 feats cate ids0 h hx
      refine ⟨hok, haft, ?_⟩
      intro fin hfin
      simp only [expected, hfin.uniT, haft.uniT]
      rw [map_idOf_extends hfin.uni feats cate st.uniT h9, h8]
  | left feats =>
    simp only [runCall] at hr
    obtain ⟨hok, haft, _, _, h8, h9⟩ := extractLeft_spec st st1 feats ids h hr
    refine ⟨hok, haft, ?_⟩
    intro fin hfin
    simp only [expected, hfin.leftT, haft.leftT]
    rw [map_idOf_extends hfin.left feats 0 st.leftT h9, h8]
  | right feats =>
    simp only [runCall] at hr
    obtain ⟨hok, haft, _, _, h8, h9⟩ := extractRight_spec st st1 feats ids h hr
    refine ⟨hok, haft, ?_⟩
    intro fin hfin
    simp only [expected, hfin.rightT, haft.rightT]
    rw [map_idOf_extends hfin.right feats 0 st.rightT h9, h8]

/-- **history_ids.**  Along any history of extraction calls (from any well-formed state, e.g. a
reachable one — also after removals and a reload), call number `i` returned exactly the ids that
the FINAL maps assign to the expansions of its templates.  Since each final map is an injective
function (`intern_injective`, `ids_equal_iff_strings_equal`), any two ids handed out anywhere in
the history — in the same or in different calls — are equal iff the expanded strings are equal. -/
theorem history_ids (calls : List Call) :
    ∀ (st fin : ExtractorState) (outs : List (List (Option Nat))), StateOK st →
      run st calls = .ok (outs, fin) →
      StateOK fin ∧ After st fin ∧ outs = calls.map (expected fin) := by
  induction calls with
  | nil =>
    intro st fin outs h hr
    simp only [run, Outcome.ok.injEq, Prod.mk.injEq] at hr
    obtain ⟨rfl, rfl⟩ := hr
    exact ⟨h, After.refl _, rfl⟩
  | cons c cs ih =>
    intro st fin outs h hr
    simp only [run] at hr
    cases hc : runCall st c with
    | err => simp [hc] at hr
    | panic => simp [hc] at hr
    | ok r =>
      obtain ⟨ids, st1⟩ := r
      simp only [hc] at hr
      cases hrest : run st1 cs with
      | err => simp [hrest] at hr
      | panic => simp [hrest] at hr
      | ok r2 =>
        obtain ⟨outs2, fin2⟩ := r2
        simp only [hrest, Outcome.ok.injEq, Prod.mk.injEq] at hr
        obtain ⟨rfl, rfl⟩ := hr
        obtain ⟨g1, g2, g3⟩ := runCall_spec st st1 c ids h hc
        obtain ⟨k1, k2, k3⟩ := ih st1 fin2 outs2 g1 hrest
        exact ⟨k1, g2.trans k2, by rw [List.map_cons, ← k3, ← g3 fin2 k2]⟩

/-- Two feature rows get the same id tuple iff their expansion tuples are equal (position by
position, "no feature" included), provided all expansions are interned in `m`. -/
theorem id_tuples_eq_iff {m : IdMap} {next : Nat} (h : MapOK m next) (pts : List ParsedTemplate)
    (f1 f2 : List Str) (c1 c2 : Nat)
    (hd1 : ∀ pt ∈ pts, ∃ o, expand pt f1 c1 = .ok o ∧ ∀ s, o = some s → ∃ id, lookup m s = some id)
    (hd2 : ∀ pt ∈ pts, ∃ o, expand pt f2 c2 = .ok o ∧ ∀ s, o = some s → ∃ id, lookup m s = some id) :
    pts.map (idOf m f1 c1) = pts.map (idOf m f2 c2) ↔
      pts.map (fun pt => expand pt f1 c1) = pts.map (fun pt => expand pt f2 c2) := by
  induction pts with
  | nil => simp
  | cons pt pts ih =>
    have ih' := ih (fun p hp => hd1 p (List.mem_cons_of_mem _ hp))
      (fun p hp => hd2 p (List.mem_cons_of_mem _ hp))
    simp only [List.map_cons, List.cons.injEq, ih']
    obtain ⟨o1, e1, d1⟩ := hd1 pt (by simp)
    obtain ⟨o2, e2, d2⟩ := hd2 pt (by simp)
    have : idOf m f1 c1 pt = idOf m f2 c2 pt ↔ expand pt f1 c1 = expand pt f2 c2 := by
      simp only [idOf, e1, e2]
      cases o1 with
      | none =>
        cases o2 with
        | none => simp
        | some s2 =>
          obtain ⟨i2, hi2⟩ := d2 s2 rfl
          simp [hi2]
      | some s1 =>
        obtain ⟨i1, hi1⟩ := d1 s1 rfl
        cases o2 with
        | none => simp [hi1]
        | some s2 =>
          obtain ⟨i2, hi2⟩ := d2 s2 rfl
          simp only [hi1, hi2, Option.some.injEq, Outcome.ok.injEq]
          exact h.lookup_inj hi1 hi2
    rw [this]

/-! ### Non-vacuity: the unit-test templates of `feature_extractor.rs` -/

section Examples2
private def str (x : String) : Str := x.toList

private def uniT : List Str := [str "word:%F[0]", str "word-pos:%F[0],%F[1]", str "word-pron:%F[0],%F?[2]"]
private def biT : List (Str × Str) := [(str "pos:%L[1]", str "pos:%R[1]"), (str "pron:%L?[2]", str "pron:%R?[2]")]

private def st0 : ExtractorState :=
  match ExtractorState.new uniT biT with
  | .ok st => st
  | _ => {}

private def hist : List Call :=
  [.left [str "です", str "助動詞", str "デス"], .right [str "。", str "補助記号", str "*"],
   .left [str "「", str "補助記号", str "*"], .left [str "x", str "助動詞", str "デス"], .uni [str "人", str "名詞"] 3]

#guard (match run st0 hist with
  | .ok (outs, fin) =>
    outs == [[some 1, some 2], [some 1, none], [some 3, none], [some 1, some 2], [some 1, some 2]]
      && fin.leftNext == 4 && fin.rightNext == 2 && fin.uniNext == 3
      && fin.left == [(str "pos:助動詞", 1), (str "pron:デス", 2), (str "pos:補助記号", 3)]
  | _ => false)

example : Reachable uniT biT st0 := .init st0 (by decide)
example : StateOK st0 := intern_injective uniT biT st0 (.init st0 (by decide))

-- after removals and a reload (entries permuted) the invariant still holds and a re-inserted
-- string gets a FRESH id (the counter, not the map size, decides)
private def stRemoved : ExtractorState :=
  { st0 with left := [(str "pos:補助記号", 3), (str "pos:助動詞", 1)], leftNext := 4 }
#guard (match extractLeft stRemoved [str "x", str "y", str "デス"] with
  | .ok (ids, st') => ids == [some 4, some 5] && st'.leftNext == 6
  | _ => false)
end Examples2

/-! ## 3. Connection classes (`rucrf::RawModel::merge`) -/

/-- **classes_spec.**  `ts[i]` is the `bigram_right` (resp. `bigram_left`) feature-id tuple of label
`i`; `classesOf ts` are the left (resp. right) connection ids `merge` assigns.  Two labels get the
same connection id iff their tuples are equal.  (With `id_tuples_eq_iff`: iff their expanded
feature strings coincide position by position.) -/
theorem classes_spec (ts : List Tuple) (i j : Nat) (hi : i < ts.length) (hj : j < ts.length) :
    (classesOf ts).length = ts.length ∧
    ((classesOf ts)[i]? = (classesOf ts)[j]? ↔ ts[i] = ts[j]) := by
  obtain ⟨_, hnd, hlen, hrow⟩ := classesGo_spec ts [] [] cinv_init
  refine ⟨hlen, ?_⟩
  obtain ⟨a, ha, hpa, hga⟩ := hrow i hi
  obtain ⟨b, hb, hpb, hgb⟩ := hrow j hj
  simp only [classesOf, ha, hb, Option.some.injEq]
  constructor
  · intro hab
    subst hab
    rw [hga] at hgb
    exact Option.some.inj hgb
  · intro hts
    rw [hts] at hga
    have hla := (List.getElem?_eq_some_iff.mp hga).1
    have hlb := (List.getElem?_eq_some_iff.mp hgb).1
    have := (List.getElem_inj (h₀ := hla) (h₁ := hlb) hnd).mp (by
      rw [(List.getElem?_eq_some_iff.mp hga).2, (List.getElem?_eq_some_iff.mp hgb).2])
    omega

/-- **tuple_listed** (abstract form).  The connection id `c` of label `i` is positive and row
`c - 1` of the table (`left_conn_to_right_feats` / `right_conn_to_left_feats`, the rows that
`write_bigram_details` prints as line `c` of `bigram.left` / `bigram.right`) is the tuple of
label `i` — hence of every label carrying `c`. -/
theorem tuple_listed (ts : List Tuple) (i : Nat) (hi : i < ts.length) :
    ∃ c, (classesOf ts)[i]? = some c ∧ 0 < c ∧ (classTable ts)[c - 1]? = some ts[i] := by
  obtain ⟨_, _, _, hrow⟩ := classesGo_spec ts [] [] cinv_init
  exact hrow i hi

/-- First-appearance numbering: the table lists the distinct tuples in the order in which they
first occur, without repetition — ids are dense `1 … #distinct`. -/
theorem classTable_first_appearance (ts : List Tuple) :
    classTable ts = firstOcc [] ts ∧ (classTable ts).Nodup := by
  obtain ⟨h1, h2, _, _⟩ := classesGo_spec ts [] [] cinv_init
  exact ⟨by simpa [classTable] using h1, h2⟩

example : classesOf [[some 1, none], [some 2, some 3], [some 1, none], [none, some 1], [some 2, some 3]]
    = [1, 2, 1, 3, 2] := by decide
example : classTable [[some 1, none], [some 2, some 3], [some 1, none], [none, some 1], [some 2, some 3]]
    = [[some 1, none], [some 2, some 3], [none, some 1]] := by decide

end Vibrato.Props.C18
