/-
C16 — The small (bigram) dictionary agrees with matrix.def up to rounding.

Model: `Vibrato/Model/Trainer.lean` (`merge`, `writeDictionaryWith`, `writeBigramWith`) with the
EXACT weight structure `exactOps eps` (weights are integer numbers of a common unit — every
finite `f64` is an integer multiple of 2^-1074 —, `eps` is `f64::EPSILON` in that unit, the cost
of a weight `w` for the maximum `M` is `trunc (-w * 32767 / M)`, no rounding anywhere).
Helper lemmas: `Vibrato/Proofs/TruncSum.lean` (arithmetic), `Vibrato/Proofs/TrainerMatrix.lean`
(closed form of the merged matrix), `Vibrato/Proofs/Trainer.lean`.

What is compared.  For a pair of connection ids the matrix dictionary stores
`trunc (-X * 32767 / M)` where `X` is the SUM of the weights of the matching template positions
(entry dropped when `|X| < EPSILON`); `bigram.cost` stores `trunc (-w_k * 32767 / M)` for every
single feature-id pair and the raw connector adds them up position by position.  That the raw
(and dual) connector computes exactly `Σ_k cost(feature_r[k], feature_l[k])` from the three
files is C07's `raw_cost_eq_sum` and C18's `tuple_listed`; here the sum is taken over the
feature-id pairs the model itself matches (`pairHits`, `bosHits`, `eosHits`).  The two views
coincide when feature ids and feature strings are in bijection and no feature string is `""`
or `*` — see the report for the two situations in which the real files break this (empty
class of virtual edges, feature string `*`).

Both writers recompute `weight_abs_max` from the same merged model by the same loop, so they
use the same scale factor (in the model: both call `scaleOf (weightAbsMax mm)`).
-/
import Vibrato.Proofs.TruncSum
import Vibrato.Proofs.TrainerMatrix
import Vibrato.Proofs.Trainer
import Vibrato.Proofs.TrainerExamples
import Vibrato.Props.C14

namespace Vibrato.C16
open Vibrato.Bincode Vibrato.Image Vibrato.ModelImage Vibrato.Trainer Vibrato.Trainer.WeightOps
open Vibrato.TruncSum

/-! ## trunc_sum_bound -/

/-- **trunc_sum_bound.**  For rationals `x_1 … x_K`, `X` with common denominator `D > 0`
(numerators `xs`, `X`): if `|X - Σ x_k| < 1` then `|Σ trunc x_k - trunc X| ≤ K + 1`, and if
`X = Σ x_k` then `|Σ trunc x_k - trunc X| ≤ K`. -/
theorem trunc_sum_bound {D : Int} (hD : 0 < D) (xs : List Int) (X : Int) :
    (sum xs - X < D → X - sum xs < D →
      truncSum D xs - X.tdiv D ≤ xs.length + 1 ∧ -((xs.length : Int) + 1) ≤ truncSum D xs - X.tdiv D) ∧
    (X = sum xs →
      truncSum D xs - X.tdiv D ≤ xs.length ∧ -(xs.length : Int) ≤ truncSum D xs - X.tdiv D) :=
  ⟨fun h1 h2 => TruncSum.trunc_sum_bound hD xs X h1 h2,
   fun h => h ▸ TruncSum.trunc_sum_bound_eq hD xs⟩

/-- `x = (0.9, 0.9, 0.9)`, `X = 2.7`: `0` against `2` (`K = 3`); with slack, `x = (0.9, 0.9)`,
`X = 2.7`: `0` against `2 = K`, … the bounds are not vacuous and are approached. -/
example : truncSum 10 [9, 9, 9] - (27 : Int).tdiv 10 = -2 ∧ sum [9, 9, 9] = 27 := by decide
example : truncSum 10 [9, 9] - (27 : Int).tdiv 10 ≤ 2 + 1 ∧
    -((2 : Int) + 1) ≤ truncSum 10 [9, 9] - (27 : Int).tdiv 10 :=
  (trunc_sum_bound (by decide) [9, 9] 27).1 (by decide) (by decide)

/-! ## One matrix entry against the sum of the per-template costs (exact arithmetic) -/

/-- `trunc (-w * 32767 / M)`: the cost before the saturating cast. -/
def costT (w M : Int) : Int := (-w * 32767).tdiv M

/-- `Σ_k trunc (-w_k * 32767 / M)`: what the raw connector adds up for one id pair. -/
def rawSum (M : Int) : List Int → Int
  | [] => 0
  | w :: ws => costT w M + rawSum M ws

theorem rawSum_eq (M : Int) (ws : List Int) :
    rawSum M ws = truncSum M (ws.map fun w => -w * 32767) := by
  induction ws with
  | nil => rfl
  | cons w ws ih => simp [rawSum, truncSum, costT, ih]

theorem sum_scaled (ws : List Int) : sum (ws.map fun w => -w * 32767) = -(sum ws) * 32767 := by
  induction ws with
  | nil => rfl
  | cons w ws ih => simp only [List.map_cons, sum, ih]; omega

theorem sat16_id {i : Int} (h1 : -32767 ≤ i) (h2 : i ≤ 32767) : sat 16 i = i := by
  unfold sat
  simp only [show (16 - 1 : Nat) = 15 from rfl, show ((2 ^ 15 : Nat) : Int) = 32768 from rfl]
  split
  · omega
  · split <;> omega

/-- The value `matrix.def` holds for an id pair whose weight sum is `X`: the truncated cost
when the entry is kept (`|X| ≥ EPSILON`), else no line, read as `0`. -/
def matrixValue (eps M X : Int) : Int :=
  if eps ≤ (X.natAbs : Int) then sat 16 (costT X M) else 0

/-- **entry_close.**  Exact arithmetic, one id pair: the contributing weights `ws` sum to `X`;
`M > 0` is the scale maximum with `|X| ≤ M` whenever the entry is kept, and the cut is
consistent with the scale (`EPSILON * 32767 ≤ M`: an entry dropped by the cut would have had
cost `0`).  Then the sum of the per-template costs differs from the matrix value by at most
the number of contributing templates. -/
theorem entry_close (eps M : Int) (ws : List Int) (hM : 0 < M) (hcut : eps * 32767 ≤ M)
    (hX : eps ≤ ((sum ws).natAbs : Int) → ((sum ws).natAbs : Int) ≤ M) :
    rawSum M ws - matrixValue eps M (sum ws) ≤ ws.length ∧
    -(ws.length : Int) ≤ rawSum M ws - matrixValue eps M (sum ws) := by
  have hb := TruncSum.trunc_sum_bound_eq hM (ws.map fun w => -w * 32767)
  rw [← rawSum_eq, sum_scaled, List.length_map] at hb
  have hval : matrixValue eps M (sum ws) = (-(sum ws) * 32767).tdiv M := by
    unfold matrixValue
    split
    · rename_i hge
      have hle := hX hge
      have := tdiv_abs_le (a := -(sum ws) * 32767) (c := 32767) hM (by omega) (by omega)
      exact sat16_id this.2 this.1
    · rename_i hlt
      symm
      apply tdiv_eq_zero_of_abs_lt <;> omega
  rw [hval]
  exact hb

/-! ## The merged model -/

section
/- The weight structure is the exact one: every theorem of this section takes the instance `I`
and the equation `hI : I = exactOps eps`. -/
variable (eps : Int) [I : WeightOps Int Int] (hI : I = exactOps eps)

/-- The weights at the given indices. -/
def weightsAt (wt : List Int) (is : List Nat) : List Int := is.filterMap (wt[·]?)

include hI

theorem sumIdx_exact (wt : List Int) :
    ∀ (is : List Nat) (acc X : Int), sumIdx wt is acc = .ok X →
      X = acc + sum (weightsAt wt is) ∧ (weightsAt wt is).length = is.length := by
  subst hI
  intro is
  induction is with
  | nil => intro acc X h; simp only [sumIdx] at h; cases h; simp [weightsAt, sum]
  | cons i is ih =>
    intro acc X h
    simp only [sumIdx] at h
    cases hw : wt[i]? with
    | none => simp [hw] at h
    | some w =>
      rw [hw] at h
      obtain ⟨h1, h2⟩ := ih _ X h
      simp only [weightsAt, List.filterMap_cons, hw, sum, List.length_cons] at *
      refine ⟨?_, by omega⟩
      rw [h1]
      show acc + w + _ = acc + (w + _)
      omega

theorem wmax_int (a b : Int) : wmax a b = if a ≤ b then b else a := by
  subst hI
  simp [wmax, WeightOps.le]

theorem foldl_wmax_bounds {α : Type} (f : α → Int) :
    ∀ (l : List α) (a : Int),
      a ≤ l.foldl (fun acc x => wmax acc (f x)) a ∧
      ∀ x ∈ l, f x ≤ l.foldl (fun acc x => wmax acc (f x)) a := by
  intro l
  induction l with
  | nil => intro a; simp
  | cons y l ih =>
    intro a
    obtain ⟨h1, h2⟩ := ih (wmax a (f y))
    have hw := wmax_int eps hI a (f y)
    simp only [List.foldl_cons]
    refine ⟨?_, ?_⟩
    · have : a ≤ wmax a (f y) := by rw [hw]; split <;> omega
      omega
    · intro x hx
      simp only [List.mem_cons] at hx
      rcases hx with rfl | hx
      · have : f x ≤ wmax a (f x) := by rw [hw]; split <;> omega
        omega
      · exact h2 x hx

/-- Every matrix entry is bounded by `weight_abs_max`. -/
theorem entry_le_max (mm : Merged Int) (row : List (Nat × Int)) (hrow : row ∈ mm.matrix)
    (e : Nat × Int) (he : e ∈ row) : (e.2.natAbs : Int) ≤ weightAbsMax mm := by
  unfold weightAbsMax
  generalize List.foldl (fun acc (fs : MergedFS Int) => wmax acc (abs fs.weight)) zero
    mm.featureSets = a
  generalize mm.matrix = mat at hrow ⊢
  induction mat generalizing a with
  | nil => cases hrow
  | cons r rows ih =>
    simp only [List.foldl_cons]
    simp only [List.mem_cons] at hrow
    rcases hrow with rfl | hrow
    · have h1 := (foldl_wmax_bounds eps hI (fun e : Nat × Int => abs e.2) row a).2 e he
      have h2 : ∀ (rows : List (List (Nat × Int))) (b : Int),
          b ≤ rows.foldl (fun acc row => row.foldl (fun acc e => wmax acc (abs e.2)) acc) b := by
        intro rows
        induction rows with
        | nil => intro b; simp
        | cons r rows ih2 =>
          intro b
          simp only [List.foldl_cons]
          have := (foldl_wmax_bounds eps hI (fun e : Nat × Int => abs e.2) r b).1
          have := ih2 (r.foldl (fun acc e => wmax acc (abs e.2)) b)
          omega
      have := h2 rows (row.foldl (fun acc e => wmax acc (abs e.2)) a)
      have habs : abs e.2 = (e.2.natAbs : Int) := by subst hI; rfl
      omega
    · exact ih _ hrow

omit hI in
/-- Structure of the merged matrix: row `0` holds the BOS entries, row `q + 1` the EOS entry and
the pair entries of right class `q`. -/
theorem merge_closed {wt : List Int} {m : RawModel} {mm : Merged Int} (h : merge wt m = .ok mm) :
    (∃ ws, AllOk (fun lf => sumBos wt m.bigramIdx[0]? lf zero) mm.leftConn ws ∧
      mm.matrix[0]? = some (keep ws 0)) ∧
    ∀ (q : Nat) (rf : List (Option Nat)), mm.rightConn[q]? = some rf →
      ∃ we ws, sumEos wt m.bigramIdx rf zero = .ok we ∧
        AllOk (fun lf => sumPair wt m.bigramIdx rf lf zero) mm.leftConn ws ∧
        mm.matrix[q + 1]? = some ((if geEps we then [(0, we)] else []) ++ keep ws 0) := by
  unfold merge at h
  split at h
  · cases h
  · cases h
  · rename_i sets L R hs
    split at h
    · cases h
    · cases h
    · rename_i bos hb
      split at h
      · cases h
      · cases h
      · rename_i rows hr
        cases h
        obtain ⟨ws, hall, hrow⟩ := rowEntries_closed _ L 0 [] bos hb
        obtain ⟨news, hrows, _, hq⟩ := matrixRows_closed wt m.bigramIdx L R [] rows hr
        simp only [List.reverse_nil, List.nil_append] at hrow hrows
        subst hrows
        refine ⟨⟨ws, hall, by simp [hrow]⟩, ?_⟩
        intro q rf hrf
        obtain ⟨we, ws', h1, h2, h3⟩ := hq q rf hrf
        exact ⟨we, ws', h1, h2, by simpa using h3⟩

omit hI in
/-- What the matrix dictionary returns for `(right id r, left id l)`: the cost of the stored
entry, `0` when there is none. -/
def matrixCost (mm : Merged Int) (r l : Nat) : Int :=
  match (mm.matrix[r]?).bind (fun row => entryOf row l) with
  | some X => cost16 X (scaleOf (weightAbsMax mm) : Int)
  | none => 0

theorem geEps_int (w : Int) : geEps w = decide (eps ≤ (w.natAbs : Int)) := by subst hI; rfl

omit hI I in
theorem entryOf_mem {row : List (Nat × Int)} {k : Nat} {X : Int} (h : entryOf row k = some X) :
    (k, X) ∈ row := by
  unfold entryOf at h
  cases hf : row.find? (fun e => e.1 == k) with
  | none => simp [hf] at h
  | some e =>
    rw [hf] at h
    simp only [Option.map_some, Option.some.injEq] at h
    have hm := List.mem_of_find?_eq_some hf
    have hk := List.find?_some hf
    simp only [beq_iff_eq] at hk
    cases e
    simp_all

/-- Common last step: an entry that is `X` iff `|X| ≥ EPSILON`, against the costs of the
weights that sum to `X`. -/
theorem close_of_entry {wt : List Int} {mm : Merged Int} (hM : 0 < weightAbsMax mm)
    (hcut : eps * 32767 ≤ weightAbsMax mm) (r l : Nat) (is : List Nat) (X : Int)
    (hsum : sumIdx wt is (zero : Int) = .ok X)
    (hentry : (mm.matrix[r]?).bind (fun row => entryOf row l) = if geEps X then some X else none) :
    rawSum (weightAbsMax mm) (weightsAt wt is) - matrixCost mm r l ≤ is.length ∧
    -(is.length : Int) ≤ rawSum (weightAbsMax mm) (weightsAt wt is) - matrixCost mm r l := by
  have hz : (zero : Int) = 0 := by subst hI; rfl
  rw [hz] at hsum
  obtain ⟨hX, hlen⟩ := sumIdx_exact eps hI wt is 0 X hsum
  simp only [Int.zero_add] at hX
  have hmv : matrixCost mm r l = matrixValue eps (weightAbsMax mm) (sum (weightsAt wt is)) := by
    unfold matrixCost matrixValue
    rw [hentry, geEps_int eps hI, ← hX]
    by_cases hge : eps ≤ (X.natAbs : Int)
    · simp only [hge, decide_true, if_true]; subst hI; rfl
    · simp only [hge, decide_false, Bool.false_eq_true, if_false]
  rw [hmv, ← hlen]
  apply entry_close eps _ _ hM hcut
  intro hge
  rw [← hX] at hge ⊢
  -- the entry is stored, hence bounded by the maximum
  have : geEps X = true := by rw [geEps_int eps hI]; simpa using hge
  rw [this] at hentry
  simp only [if_true] at hentry
  cases hr : mm.matrix[r]? with
  | none => simp [hr] at hentry
  | some row =>
    rw [hr] at hentry
    simp only [Option.bind_some] at hentry
    have hmem := entryOf_mem hentry
    exact entry_le_max eps hI mm row (List.mem_of_getElem? hr) _ hmem

/-- **bigram_matrix_close (word/word pairs).**  Exact arithmetic.  For a model merged by
`merge`, right connection id `q + 1` with class tuple `rf` and left connection id `j + 1` with
class tuple `lf`: the sum over the matching template positions of the costs written to
`bigram.cost` differs from the `matrix.def` value of the pair by at most the number of
matching positions, which is at most the number of bigram templates `K = |rf|`.
Hypotheses: some merged weight is non-zero (`0 < weight_abs_max`), and the `EPSILON` cut is
consistent with the scale (`EPSILON * 32767 ≤ weight_abs_max`, i.e. `weight_abs_max ≥ 7.3e-12`).
(The costs are the unsaturated `trunc (-w * 32767 / M)`: `bigram.cost` holds `as i32` of it,
identical unless `|w| * 32767 ≥ 2^31 * M`.) -/
theorem bigram_matrix_close {wt : List Int} {m : RawModel} {mm : Merged Int}
    (h : merge wt m = .ok mm) (hM : 0 < weightAbsMax mm) (hcut : eps * 32767 ≤ weightAbsMax mm)
    (q j : Nat) (rf lf : List (Option Nat))
    (hrf : mm.rightConn[q]? = some rf) (hlf : mm.leftConn[j]? = some lf) :
    let hits := pairHits m.bigramIdx rf lf
    rawSum (weightAbsMax mm) (weightsAt wt hits) - matrixCost mm (q + 1) (j + 1) ≤ hits.length ∧
    -(hits.length : Int) ≤
      rawSum (weightAbsMax mm) (weightsAt wt hits) - matrixCost mm (q + 1) (j + 1) ∧
    hits.length ≤ rf.length := by
  intro hits
  obtain ⟨we, ws, _, hall, hrow⟩ := (merge_closed h).2 q rf hrf
  obtain ⟨X, hX, hsum⟩ := hall.get j lf hlf
  rw [sumPair_eq] at hsum
  have hentry : (mm.matrix[q + 1]?).bind (fun row => entryOf row (j + 1)) =
      if geEps X then some X else none := by
    rw [hrow]
    simp only [Option.bind_some]
    have hk := entryOf_keep ws 0 j X hX
    simp only [Nat.zero_add] at hk
    rw [← hk]
    split
    · simp [entryOf]
    · simp
  have := close_of_entry eps hI hM hcut (q + 1) (j + 1) hits X hsum hentry
  exact ⟨this.1, this.2, pairHits_length_le _ _ _⟩

/-- **bigram_matrix_close (EOS column, left id 0).**  The entry `(q + 1, 0)` against the costs
of the lines `feature/` (right-class feature followed by EOS) of `bigram.cost`. -/
theorem bigram_matrix_close_eos {wt : List Int} {m : RawModel} {mm : Merged Int}
    (h : merge wt m = .ok mm) (hM : 0 < weightAbsMax mm) (hcut : eps * 32767 ≤ weightAbsMax mm)
    (q : Nat) (rf : List (Option Nat)) (hrf : mm.rightConn[q]? = some rf) :
    let hits := eosHits m.bigramIdx rf
    rawSum (weightAbsMax mm) (weightsAt wt hits) - matrixCost mm (q + 1) 0 ≤ hits.length ∧
    -(hits.length : Int) ≤
      rawSum (weightAbsMax mm) (weightsAt wt hits) - matrixCost mm (q + 1) 0 ∧
    hits.length ≤ rf.length := by
  intro hits
  obtain ⟨we, ws, hwe, _, hrow⟩ := (merge_closed h).2 q rf hrf
  rw [sumEos_eq] at hwe
  have hentry : (mm.matrix[q + 1]?).bind (fun row => entryOf row 0) =
      if geEps we then some we else none := by
    rw [hrow]
    simp only [Option.bind_some]
    split
    · simp [entryOf]
    · have hgt := keep_keys_gt ws 0
      have : (keep ws 0).find? (fun e => e.1 == 0) = none := by
        rw [List.find?_eq_none]
        intro e he
        have := hgt e he
        simp only [beq_iff_eq]; omega
      simp [entryOf, this]
  have := close_of_entry eps hI hM hcut (q + 1) 0 hits we hwe hentry
  exact ⟨this.1, this.2, eosHits_length_le _ _⟩

/-- **bigram_matrix_close (BOS row, right id 0).**  The entry `(0, j + 1)` against the costs of
the lines `/feature` (BOS followed by a left-class feature) of `bigram.cost`. -/
theorem bigram_matrix_close_bos {wt : List Int} {m : RawModel} {mm : Merged Int}
    (h : merge wt m = .ok mm) (hM : 0 < weightAbsMax mm) (hcut : eps * 32767 ≤ weightAbsMax mm)
    (j : Nat) (lf : List (Option Nat)) (hlf : mm.leftConn[j]? = some lf) :
    let hits := match m.bigramIdx[0]? with
      | some hm => bosHits hm lf
      | none => []
    rawSum (weightAbsMax mm) (weightsAt wt hits) - matrixCost mm 0 (j + 1) ≤ hits.length ∧
    -(hits.length : Int) ≤
      rawSum (weightAbsMax mm) (weightsAt wt hits) - matrixCost mm 0 (j + 1) ∧
    hits.length ≤ lf.length := by
  intro hits
  obtain ⟨ws, hall, hrow⟩ := (merge_closed h).1
  obtain ⟨X, hX, hsum⟩ := hall.get j lf hlf
  have hentry : (mm.matrix[0]?).bind (fun row => entryOf row (j + 1)) =
      if geEps X then some X else none := by
    rw [hrow]
    simp only [Option.bind_some]
    have hk := entryOf_keep ws 0 j X hX
    simpa using hk
  have hsum' : sumIdx wt hits (zero : Int) = .ok X := by
    cases h0 : m.bigramIdx[0]? with
    | none =>
      rw [h0] at hsum
      have := sumBos_none_ok wt lf zero X hsum
      simp only [hits, h0, sumIdx, this]
    | some hm =>
      rw [h0, sumBos_eq] at hsum
      simpa [hits, h0] using hsum
  have := close_of_entry eps hI hM hcut 0 (j + 1) hits X hsum' hentry
  refine ⟨this.1, this.2, ?_⟩
  cases h0 : m.bigramIdx[0]? with
  | none => simp [hits, h0]
  | some hm => simpa [hits, h0] using bosHits_length_le hm lf

end

/-! ## dims_agree -/

section
variable {W S : Type} [WeightOps W S]

/-- The lines of `bigram.left` / `bigram.right` for already rendered feature cells. -/
def connLinesSpec : List (List UInt8) → Nat → List UInt8
  | [], _ => []
  | c :: cs, i => (natDec (i + 1) ++ tab :: (c ++ [nl])) ++ connLinesSpec cs (i + 1)

theorem connLines_closed (names : IdMap) :
    ∀ (l : List (List (Option Nat))) (i : Nat) (acc out : List UInt8),
      connLines names l i acc = .ok out →
      ∃ cells : List (List UInt8), cells.length = l.length ∧ out = acc ++ connLinesSpec cells i := by
  intro l
  induction l with
  | nil =>
    intro i acc out h
    simp only [connLines] at h
    cases h
    exact ⟨[], rfl, by simp [connLinesSpec]⟩
  | cons f l ih =>
    intro i acc out h
    simp only [connLines] at h
    split at h
    · cases h
    · cases h
    · rename_i cells hc
      obtain ⟨cs, hlen, hout⟩ := ih _ _ _ h
      exact ⟨cells :: cs, by simp [hlen], by simp [hout, connLinesSpec, List.append_assoc]⟩

/-- **dims_agree.**  For a merged model whose files are written successfully:
`bigram.left` consists of one line per left class, numbered `1 … |left classes|` (so the raw
connector has `|left classes| + 1` left ids including the reserved id 0), `bigram.right` of one
line per right class; the `matrix.def` header announces `|right classes| + 1` and
`|left classes| + 1`; and every id written to `lex.csv` / `unk.def` / `user.csv` is within
these ranges (`C14.ids_in_dims`). -/
theorem dims_agree {wt : List W} {d : ModelData} {mm : Merged W} {bf : BigramFiles}
    (hm : merge wt d.raw = .ok mm) (hb : writeBigramWith d mm = .ok bf) (s : S) :
    (∃ cells : List (List UInt8), cells.length = mm.leftConn.length ∧
      bf.left = connLinesSpec cells 0) ∧
    (∃ cells : List (List UInt8), cells.length = mm.rightConn.length ∧
      bf.right = connLinesSpec cells 0) ∧
    matrixFile mm s = natDec (mm.rightConn.length + 1) ++ 32 ::
      (natDec (mm.leftConn.length + 1) ++ [nl]) ++ matrixLines s mm.matrix 0 ∧
    mm.matrix.length = mm.rightConn.length + 1 ∧
    (∀ fs ∈ mm.featureSets, fs.leftId < mm.leftConn.length + 1 ∧
      fs.rightId < mm.rightConn.length + 1) := by
  have hids := C14.ids_in_dims hm
  unfold writeBigramWith at hb
  simp only at hb
  split at hb
  · cases hb
  · cases hb
  · rename_i left hl
    split at hb
    · cases hb
    · cases hb
    · rename_i right hr
      split at hb
      · cases hb
      · cases hb
      · cases hb
        obtain ⟨c1, l1, o1⟩ := connLines_closed _ _ _ _ _ hl
        obtain ⟨c2, l2, o2⟩ := connLines_closed _ _ _ _ _ hr
        refine ⟨⟨c1, l1, by simpa using o1⟩, ⟨c2, l2, by simpa using o2⟩, rfl, hids.2.1, ?_⟩
        intro fs hfs
        obtain ⟨_, h2, _, h4⟩ := hids.1 fs hfs
        exact ⟨h2, h4⟩

end
/-! ## Non-vacuity on the concrete model of `Proofs/TrainerExamples.lean`
(weights in units of 1/10000, `EPSILON` = 1 unit, exact arithmetic) -/

namespace Ex
open Vibrato.Trainer.Examples

@[instance_reducible] def ops : WeightOps Int Int := exactOps 1
attribute [local instance] ops

def wt : List Int := [50000, -30000, 70000, 20000, -40000, 10000]

def merged : Merged Int :=
  { featureSets := [⟨50000, 1, 1⟩, ⟨-30000, 2, 2⟩, ⟨50000, 1, 1⟩, ⟨0, 3, 3⟩]
    matrix := [[(1, 70000), (2, 20000)], [(0, 10000), (2, 30000)], [(1, 50000)], []]
    leftConn := [[some 1, some 2], [some 3, some 4], [some 5, some 6]]
    rightConn := [[some 1, some 2], [some 3, some 4], [some 5, none]] }

theorem merge_eq : merge wt raw = .ok merged := by decide

/-- right id 1 (`l:N, a`) against left id 2 (`r:V, q:b`): two matching templates with weights
`-40000` and `70000`; the matrix holds their sum `30000`. -/
example : pairHits raw.bigramIdx [some 1, some 2] [some 3, some 4] = [4, 2] := by decide
example : weightsAt wt [4, 2] = [-40000, 70000] := by decide
example : rawSum 70000 [-40000, 70000] = -14043 ∧ matrixCost merged 1 2 = -14043 := by decide

example : rawSum (weightAbsMax merged) (weightsAt wt (pairHits raw.bigramIdx [some 1, some 2]
      [some 3, some 4])) - matrixCost merged 1 2 ≤ 2 :=
  (bigram_matrix_close 1 rfl merge_eq (by decide) (by decide) 0 1 [some 1, some 2]
    [some 3, some 4] (by decide) (by decide)).1

example : rawSum (weightAbsMax merged) (weightsAt wt (eosHits raw.bigramIdx [some 1, some 2])) -
    matrixCost merged 1 0 ≤ 1 :=
  (bigram_matrix_close_eos 1 rfl merge_eq (by decide) (by decide) 0 [some 1, some 2]
    (by decide)).1

example : rawSum (weightAbsMax merged) (weightsAt wt
    (match raw.bigramIdx[0]? with | some hm => bosHits hm [some 3, some 4] | none => [])) -
    matrixCost merged 0 (1 + 1) ≤
    (match raw.bigramIdx[0]? with | some hm => bosHits hm [some 3, some 4] | none => []).length :=
  (bigram_matrix_close_bos 1 rfl merge_eq (by decide) (by decide) 1 [some 3, some 4]
    (by decide)).1

end Ex

/-! ## When the bound fails: the `EPSILON` cut with a tiny scale

The hypothesis `EPSILON * 32767 ≤ weight_abs_max` of `bigram_matrix_close` is necessary.
Same model, `EPSILON` = 1000 units, weights `500` (one unigram weight) and twice `400` (two
bigram weights that meet in the pair (1,2)): the pair's sum `800` is below `EPSILON`, so the
matrix has NO entry (cost 0), the scale maximum is `500`, and `bigram.cost` holds
`trunc (-400 * 32767 / 500) = -26213` twice: the raw connector answers `-52426`, the matrix
connector `0`, with `K = 2`.  In `f64` terms: all merged weights below `7.3e-12`.
(Checked against the real crate with a hand-made model image, see the report.) -/

namespace CutWitness
open Vibrato.Trainer.Examples

@[instance_reducible] def ops : WeightOps Int Int := exactOps 1000
attribute [local instance] ops

def wt : List Int := [500, 0, 400, 0, 400, 0]

def merged : Merged Int :=
  { featureSets := [⟨500, 1, 1⟩, ⟨0, 2, 2⟩, ⟨500, 1, 1⟩, ⟨0, 3, 3⟩]
    matrix := [[], [], [], []]
    leftConn := [[some 1, some 2], [some 3, some 4], [some 5, some 6]]
    rightConn := [[some 1, some 2], [some 3, some 4], [some 5, none]] }

theorem merge_eq : merge wt raw = .ok merged := by decide

theorem cut_breaks_bound :
    weightAbsMax merged = 500 ∧ ¬ ((1000 : Int) * 32767 ≤ weightAbsMax merged) ∧
    rawSum (weightAbsMax merged) (weightsAt wt (pairHits raw.bigramIdx [some 1, some 2]
      [some 3, some 4])) = -52426 ∧
    matrixCost merged 1 2 = 0 := by decide

end CutWitness

end Vibrato.C16
