/-
C15 — A trained model round-trips through write_model/read_model.

Model: `Vibrato/Model/ModelImage.lean` (`encodeModel` = bytes of `Model::write_model`,
`decodeModel` / `readModel` = `Model::read_model`) and `Vibrato/Model/Trainer.lean`
(`State` = `Model { data, merged_model, user_entries }`, `writeDictionary`,
`writeBigramDetails`, `readUserLexicon`, `readModelState`, `writeModel`, `generateFrom`).
Helper lemmas: `Vibrato/Proofs/ModelImage.lean`, `Vibrato/Proofs/TrainerEquiv.lean`.

How the hash-map order enters.  The Rust writer emits every hash container in its current
iteration order, the reader rebuilds hash containers from the vectors.  In the model a hash
container is the list of its entries, so "the same model with the containers enumerated in
another order" is a `ModelData` value `d'` with `ModelEquiv d d'`.  The codec theorem
(`model_decode_encode`) holds for every such value, `generate_respects_equiv` shows that
the generated files do not depend on which one the reader got, and
`user_lexicon_respects_equiv` that `read_user_lexicon` keeps two enumerations in step.

All statements hold for every weight structure (`Float` included: no arithmetic law is used).
-/
import Vibrato.Proofs.ModelImage
import Vibrato.Proofs.TrainerEquiv
import Vibrato.Proofs.TrainerUserEquiv
import Vibrato.Proofs.TrainerExamples

namespace Vibrato.C15
open Vibrato.Bincode Vibrato.Image Vibrato.ModelImage Vibrato.Trainer Vibrato.Trainer.WeightOps

/-! ## The codec -/

/-- **model_decode_encode.**  For every well-formed `ModelData` (every value the Rust program
can hold, with its hash containers enumerated in ANY order), `read_model` on the bytes of
`write_model` returns exactly that value — every map with the same entries in the same stored
order — and leaves the rest of the stream untouched. -/
theorem model_decode_encode (m : ModelData) (hwf : WFmodel m) (rest : List UInt8) :
    decodeModel (encodeModel m ++ rest) = .ok m rest :=
  rt_decodeModel m hwf rest

example : decodeModel (encodeModel Trainer.Examples.model ++ [0xde, 0xad]) =
    .ok Trainer.Examples.model [0xde, 0xad] :=
  model_decode_encode _ Trainer.Examples.wf_model _

theorem reread_equal (m : ModelData) (hwf : WFmodel m) : readModel (encodeModel m) = .ok m := by
  have := model_decode_encode m hwf []
  rw [List.append_nil] at this
  simp [readModel, this]

example : readModel (encodeModel Trainer.Examples.model) = .ok Trainer.Examples.model :=
  reread_equal _ Trainer.Examples.wf_model

/-- A truncated model file is reported as an error (never a panic, never a different model). -/
theorem truncated_is_err (m : ModelData) (hwf : WFmodel m) (n : Nat)
    (hn : n < (encodeModel m).length) : decodeModel ((encodeModel m).take n) = .err := by
  have h := model_decode_encode m hwf []
  rw [List.append_nil] at h
  have := framed_decodeModel.take h n
  simpa [hn] using this

theorem encodeModel_length_ge (m : ModelData) : 8 ≤ (encodeModel m).length := by
  simp only [encodeModel, encConfig, encExtractor, encIdMap, encVec, encU64, List.length_append,
    encLE_length]
  omega

example : decodeModel ((encodeModel Trainer.Examples.model).take 5) = .err :=
  truncated_is_err _ Trainer.Examples.wf_model 5
    (Nat.lt_of_lt_of_le (by decide) (encodeModel_length_ge _))

section
variable {W S : Type} [WeightOps W S]

/-- `read_model(write_model(M))` is a model with the same data, an empty cache and NO user
entries (`user_entries` is not part of the image). -/
theorem reload_state (st : State W) (hwf : WFmodel st.data) :
    (readModelState (writeModel st) : Outcome (State W)) = .ok ⟨st.data, none, []⟩ := by
  have := model_decode_encode st.data hwf []
  rw [List.append_nil] at this
  simp [readModelState, writeModel, this]

/-! ## The cache -/

/-- **Cache invariant**: the cached merged model, if any, is `merge` of the CURRENT raw model. -/
def CacheOK (st : State W) : Prop :=
  ∀ mm, st.merged = some mm → merge (weightsOf st.data : List W) st.data.raw = .ok mm

theorem ensureMerged_spec {st st' : State W} {mm : Merged W} (hc : CacheOK st)
    (h : ensureMerged st = .ok (st', mm)) :
    st'.data = st.data ∧ st'.user = st.user ∧ st'.merged = some mm ∧
      merge (weightsOf st.data : List W) st.data.raw = .ok mm := by
  unfold ensureMerged at h
  split at h
  · rename_i mm0 h0
    cases h
    exact ⟨rfl, rfl, h0, hc _ h0⟩
  · rename_i h0
    split at h
    · rename_i mm1 hm
      cases h
      exact ⟨rfl, rfl, rfl, hm⟩
    · cases h
    · cases h

/-- With a valid cache `ensureMerged` returns what a fresh `merge` returns. -/
theorem ensureMerged_fresh (st : State W) (hc : CacheOK st) :
    (ensureMerged st).map (·.2) = (ensureMerged { st with merged := none }).map (·.2) := by
  unfold ensureMerged
  cases hm : st.merged with
  | none => simp
  | some mm =>
    have := hc mm hm
    simp [this, Outcome.map, Outcome.bind]

/-- The operations of the model API (DESIGN §C15). -/
inductive Op where
  | writeDictionary
  | writeBigramDetails
  | readUserLexicon (csv : List UInt8)
  | reload                      -- `write_model` into a buffer, then `read_model` from it
  deriving Repr

/-- One API call on a model; the files written are dropped (see `writeDictionary` etc.). -/
def step (st : State W) : Op → Outcome (State W)
  | .writeDictionary => (writeDictionary st).map (·.1)
  | .writeBigramDetails => (writeBigramDetails st).map (·.1)
  | .readUserLexicon csv => readUserLexicon st csv
  | .reload => readModelState (writeModel st)

theorem addUserEntries_merged :
    ∀ (es : List LexCsv.RawEntry) (st st' : State W),
      addUserEntries es st = .ok st' → st'.merged = st.merged := by
  intro es
  induction es with
  | nil => intro st st' h; simp only [addUserEntries] at h; cases h; rfl
  | cons e es ih =>
    intro st st' h
    simp only [addUserEntries] at h
    split at h
    · cases h
    · split at h
      · cases h
      · split at h
        · cases h
        · cases h
        · split at h
          · cases h
          · have := ih _ _ h
            exact this

/-- `read_user_lexicon` always leaves the cache empty: it is dropped before anything else. -/
theorem readUserLexicon_merged {st st' : State W} {csv : List UInt8}
    (h : readUserLexicon st csv = .ok st') : st'.merged = none := by
  unfold readUserLexicon at h
  split at h
  · cases h
  · cases h
  · exact addUserEntries_merged _ _ _ h

/-- **cache_invariant.**  Every API call preserves the cache invariant: after any history of
`write_dictionary`, `write_bigram_details`, `read_user_lexicon` and `write_model`/`read_model`
the cached merged model is absent or is `merge` of the current raw model. -/
theorem cache_invariant (st st' : State W) (op : Op) (hc : CacheOK st)
    (h : step st op = .ok st') : CacheOK st' := by
  cases op with
  | writeDictionary =>
    simp only [step, writeDictionary] at h
    cases he : ensureMerged st with
    | err => simp [he, Outcome.map, Outcome.bind] at h
    | panic => simp [he, Outcome.map, Outcome.bind] at h
    | ok r =>
      obtain ⟨st1, mm⟩ := r
      obtain ⟨hd, _, hm, hmerge⟩ := ensureMerged_spec hc he
      rw [he] at h
      simp only at h
      cases hw : writeDictionaryWith st1.data st1.user mm with
      | err => simp [hw, Outcome.map, Outcome.bind] at h
      | panic => simp [hw, Outcome.map, Outcome.bind] at h
      | ok f =>
        simp only [hw, Outcome.map, Outcome.bind] at h
        cases h
        intro mm' hmm'
        rw [hm] at hmm'; cases hmm'
        rw [hd]; exact hmerge
  | writeBigramDetails =>
    simp only [step, writeBigramDetails] at h
    cases he : ensureMerged st with
    | err => simp [he, Outcome.map, Outcome.bind] at h
    | panic => simp [he, Outcome.map, Outcome.bind] at h
    | ok r =>
      obtain ⟨st1, mm⟩ := r
      obtain ⟨hd, _, hm, hmerge⟩ := ensureMerged_spec hc he
      rw [he] at h
      simp only at h
      cases hw : writeBigramWith st1.data mm with
      | err => simp [hw, Outcome.map, Outcome.bind] at h
      | panic => simp [hw, Outcome.map, Outcome.bind] at h
      | ok f =>
        simp only [hw, Outcome.map, Outcome.bind] at h
        cases h
        intro mm' hmm'
        rw [hm] at hmm'; cases hmm'
        rw [hd]; exact hmerge
  | readUserLexicon csv =>
    simp only [step] at h
    intro mm hmm
    rw [readUserLexicon_merged h] at hmm
    cases hmm
  | reload =>
    simp only [step, readModelState] at h
    split at h
    · cases h; intro mm hmm; cases hmm
    · cases h
    · cases h

/-- A history of API calls. -/
def run (st : State W) : List Op → Outcome (State W)
  | [] => .ok st
  | op :: ops =>
    match step st op with
    | .ok st' => run st' ops
    | .err => .err
    | .panic => .panic

theorem cache_invariant_run (ops : List Op) :
    ∀ (st st' : State W), CacheOK st → run st ops = .ok st' → CacheOK st' := by
  induction ops with
  | nil => intro st st' hc h; simp only [run] at h; cases h; exact hc
  | cons op ops ih =>
    intro st st' hc h
    simp only [run] at h
    split at h
    · rename_i st1 hs
      exact ih st1 st' (cache_invariant st st1 op hc hs) h
    · cases h
    · cases h

/-- A freshly trained or freshly read model has an empty cache. -/
theorem cacheOK_fresh (d : ModelData) (user : List UserEntry) :
    CacheOK (⟨d, none, user⟩ : State W) := by
  intro mm h; cases h

/-- The files of `write_dictionary` + `write_bigram_details`, without the state. -/
def files (st : State W) : Outcome Files := (generateFrom st).map (·.2)

/-- **Outputs equal the outputs computed from scratch**: with a valid cache, generation gives
the same files as on the same model with the cache dropped. -/
theorem files_cache_irrelevant (st : State W) (hc : CacheOK st) :
    files st = files ({ st with merged := none } : State W) := by
  unfold files generateFrom writeDictionary writeBigramDetails
  cases hm : st.merged with
  | none =>
    have : st = { st with merged := none } := by cases st; simp_all
    rw [← this]
  | some mm =>
    have hmerge := hc mm hm
    simp only [ensureMerged, hm, hmerge]
    cases writeDictionaryWith st.data st.user mm with
    | err => rfl
    | panic => rfl
    | ok d =>
      simp only [hm]
      cases writeBigramWith st.data mm <;> rfl

/-- **generation_deterministic.**  Generating twice gives the same files: the second call
(served from the cache filled by the first) returns what the first returned. -/
theorem generation_deterministic (st st1 : State W) (f : Files) (hc : CacheOK st)
    (h : generateFrom st = .ok (st1, f)) : files st1 = .ok f := by
  -- the state after generation differs from `st` only in the (valid) cache
  unfold generateFrom at h
  cases hw : writeDictionary st with
  | err => simp [hw] at h
  | panic => simp [hw] at h
  | ok r1 =>
    obtain ⟨sa, d⟩ := r1
    rw [hw] at h
    simp only at h
    cases hb : writeBigramDetails sa with
    | err => simp [hb] at h
    | panic => simp [hb] at h
    | ok r2 =>
      obtain ⟨sb, b⟩ := r2
      rw [hb] at h
      simp only at h
      cases h
      -- unfold the two calls
      unfold writeDictionary at hw
      cases he : ensureMerged st with
      | err => simp [he] at hw
      | panic => simp [he] at hw
      | ok r =>
        obtain ⟨s1, mm⟩ := r
        obtain ⟨hd1, hu1, hm1, hmerge⟩ := ensureMerged_spec hc he
        rw [he] at hw
        simp only at hw
        cases hwd : writeDictionaryWith s1.data s1.user mm with
        | err => simp [hwd] at hw
        | panic => simp [hwd] at hw
        | ok d' =>
          rw [hwd] at hw
          simp only [Outcome.ok.injEq, Prod.mk.injEq] at hw
          obtain ⟨rfl, rfl⟩ := hw
          unfold writeBigramDetails at hb
          have he2 : ensureMerged s1 = .ok (s1, mm) := by simp [ensureMerged, hm1]
          rw [he2] at hb
          simp only at hb
          cases hwb : writeBigramWith s1.data mm with
          | err => simp [hwb] at hb
          | panic => simp [hwb] at hb
          | ok b' =>
            rw [hwb] at hb
            simp only [Outcome.ok.injEq, Prod.mk.injEq] at hb
            obtain ⟨rfl, rfl⟩ := hb
            simp [files, generateFrom, writeDictionary, writeBigramDetails, he2, hwd, hwb,
              Outcome.map, Outcome.bind]

/-- **Round trip of generation** (fixed enumeration order): for a model WITHOUT user entries,
`read_model(write_model(M))` generates exactly the files `M` generates. -/
theorem reload_generates_same (st : State W) (hwf : WFmodel st.data) (hc : CacheOK st)
    (hu : st.user = []) :
    (match (readModelState (writeModel st) : Outcome (State W)) with
      | .ok st' => files st'
      | .err => .err
      | .panic => .panic) = files st := by
  rw [reload_state st hwf, files_cache_irrelevant st hc]
  cases st
  simp_all

/-! ## Independence of the enumeration order -/

/-- Pointwise permuted rows of two index tables of equal length. -/
inductive RowsPerm : List (List (Nat × Nat)) → List (List (Nat × Nat)) → Prop where
  | nil : RowsPerm [] []
  | cons {a b : List (Nat × Nat)} {l l' : List (List (Nat × Nat))} :
      a.Perm b → RowsPerm l l' → RowsPerm (a :: l) (b :: l')

/-- `d'` is `d` with hash containers enumerated in another order, as far as generation without
a user lexicon can see: same dictionary, surfaces, weights, unigram index, feature sets; the
left/right feature-id maps and the rows of the bigram index are permutations.  (Nothing is
required of the unigram map, the templates, the counters and the rewriters: generation does
not read them.) -/
structure ModelEquiv (d d' : ModelData) : Prop where
  dict : d'.config.dict = d.config.dict
  surfaces : d'.config.surfaces = d.config.surfaces
  leftIds : d.config.extractor.leftIds.Perm d'.config.extractor.leftIds
  rightIds : d.config.extractor.rightIds.Perm d'.config.extractor.rightIds
  weights : d'.raw.weights = d.raw.weights
  unigramIdx : d'.raw.unigramIdx = d.raw.unigramIdx
  featureSets : d'.raw.featureSets = d.raw.featureSets
  bigram : RowsPerm d.raw.bigramIdx d'.raw.bigramIdx

/-- The maps are maps: no feature id is shared by two strings in the left/right maps, no key
occurs twice in a row of the bigram index.  True for every model held by the Rust program
(these ARE hash maps keyed by string / id, and ids are handed out by a counter). -/
structure ModelOK (d : ModelData) : Prop where
  leftIds : (d.config.extractor.leftIds.map Prod.snd).Nodup
  rightIds : (d.config.extractor.rightIds.map Prod.snd).Nodup
  bigram : ∀ row ∈ d.raw.bigramIdx, (row.map Prod.fst).Nodup

theorem lookupEq_of_rowsPerm {b b' : List (List (Nat × Nat))} (h : RowsPerm b b')
    (nd : ∀ row ∈ b, (row.map Prod.fst).Nodup) : LookupEq b b' := by
  constructor
  · cases h <;> simp
  · intro r k
    induction h generalizing r with
    | nil => simp
    | cons hp _ ih =>
      cases r with
      | zero =>
        simp only [List.getElem?_cons_zero, Option.bind_some]
        exact lookupLast_perm hp (nd _ (by simp)) k
      | succ r =>
        simp only [List.getElem?_cons_succ]
        exact ih (fun row hr => nd row (by simp [hr])) r

/-- Relation between two outcomes carrying line lists: same kind, lines permuted. -/
def OutPerm {α : Type} : Outcome (List α) → Outcome (List α) → Prop
  | .ok a, .ok b => a.Perm b
  | .err, .err => True
  | .panic, .panic => True
  | _, _ => False

theorem mapM_perm {α β : Type} (f : α → Option β) {l l' : List α} (h : l.Perm l') :
    match l.mapM f, l'.mapM f with
    | some a, some b => a.Perm b
    | none, none => True
    | _, _ => False := by
  induction h with
  | nil => simp
  | cons x hp ih =>
    rename_i l1 l2
    simp only [List.mapM_cons]
    cases f x with
    | none => simp
    | some y =>
      simp only [Option.bind_eq_bind, Option.bind_some]
      cases h1 : l1.mapM f <;> cases h2 : l2.mapM f <;> simp_all
  | swap x y l =>
    simp only [List.mapM_cons]
    cases f x <;> cases f y <;> simp
    cases l.mapM f with
    | none => simp
    | some ys => simp; exact List.Perm.swap _ _ _
  | trans hp1 hp2 ih1 ih2 =>
    rename_i l1 l2 l3
    cases h1 : l1.mapM f <;> cases h2 : l2.mapM f <;> cases h3 : l3.mapM f <;> simp_all
    exact ih1.trans ih2

theorem costLines_perm (wt : List W) (s : S) {ex ex' : Extractor}
    (hl : ∀ id, lookupId ex.leftIds id = lookupId ex'.leftIds id)
    (hr : ∀ id, lookupId ex.rightIds id = lookupId ex'.rightIds id)
    {b b' : List (List (Nat × Nat))} (h : RowsPerm b b')
    (nd : ∀ row ∈ b, (row.map Prod.fst).Nodup) :
    ∀ (lid : Nat) (acc acc' : List (List UInt8)), acc.Perm acc' →
      OutPerm (costLines wt s ex b lid acc) (costLines wt s ex' b' lid acc') := by
  induction h with
  | nil => intro lid acc acc' ha; simpa [costLines, OutPerm] using ha
  | cons hp hrest ih =>
    rename_i a a' l l'
    intro lid acc acc' ha
    have nda : (a.map Prod.fst).Nodup := nd a (by simp)
    have nda' : (a'.map Prod.fst).Nodup := ((hp.map Prod.fst).nodup_iff).mp nda
    simp only [costLines]
    split
    · simp [OutPerm]
    · rw [dedupLast_nodup a nda, dedupLast_nodup a' nda', costLinesRow_eq, costLinesRow_eq,
        ← hl lid]
      have hfun : costLine wt s ex.rightIds = costLine wt s ex'.rightIds := by
        funext ls e; simp [costLine, hr]
      rw [← hfun]
      have hm := mapM_perm (costLine wt s ex.rightIds ((lookupId ex.leftIds lid).getD [])) hp
      cases h1 : a.mapM (costLine wt s ex.rightIds ((lookupId ex.leftIds lid).getD [])) <;>
        cases h2 : a'.mapM (costLine wt s ex.rightIds ((lookupId ex.leftIds lid).getD [])) <;>
        rw [h1, h2] at hm
      · simp [OutPerm]
      · exact hm.elim
      · exact hm.elim
      · simp only [List.reverse_nil, List.nil_append]
        exact ih (fun row hrow => nd row (by simp [hrow])) (lid + 1) _ _ (ha.append hm)

/-- Relation between the outcomes of full generation: same kind; on success all files equal
except `bigram.cost`, whose lines are permuted. -/
def FilesEquiv : Outcome Files → Outcome Files → Prop
  | .ok f, .ok f' =>
    f.dict = f'.dict ∧ f.bigram.left = f'.bigram.left ∧ f.bigram.right = f'.bigram.right ∧
      f.bigram.cost.Perm f'.bigram.cost
  | .err, .err => True
  | .panic, .panic => True
  | _, _ => False

/-- **generate_respects_equiv.**  The seven generated files depend only on the maps as finite
maps, not on the order in which the image (or the hash tables) enumerate them: for
`ModelEquiv` models, `lex.csv`, `matrix.def`, `unk.def`, `user.csv`, `bigram.left` and
`bigram.right` are byte-identical and the `bigram.cost` lines are a permutation of each other
(and an `Err` / panic on one side is an `Err` / panic on the other).  `user` are the user entries
held by both models (see `user_lexicon_respects_equiv` for how they get there). -/
theorem generate_respects_equiv (d d' : ModelData) (he : ModelEquiv d d') (ok : ModelOK d)
    (user : List UserEntry) :
    FilesEquiv (files (⟨d, none, user⟩ : State W)) (files (⟨d', none, user⟩ : State W)) := by
  have hle := lookupEq_of_rowsPerm he.bigram ok.bigram
  have hwt : (weightsOf d' : List W) = weightsOf d := by simp [weightsOf, he.weights]
  have hmerge : merge (weightsOf d' : List W) d'.raw = merge (weightsOf d : List W) d.raw := by
    rw [hwt]; exact (merge_congr _ he.unigramIdx he.featureSets hle).symm
  have hl : ∀ id, lookupId d.config.extractor.leftIds id = lookupId d'.config.extractor.leftIds id :=
    fun id => lookupId_perm he.leftIds ok.leftIds id
  have hr : ∀ id, lookupId d.config.extractor.rightIds id = lookupId d'.config.extractor.rightIds id :=
    fun id => lookupId_perm he.rightIds ok.rightIds id
  simp only [files, generateFrom, writeDictionary, writeBigramDetails, ensureMerged, hmerge]
  cases merge (weightsOf d : List W) d.raw with
  | err => simp [FilesEquiv, Outcome.map, Outcome.bind]
  | panic => simp [FilesEquiv, Outcome.map, Outcome.bind]
  | ok mm =>
    have hwd : writeDictionaryWith d' user mm = writeDictionaryWith d user mm := by
      simp [writeDictionaryWith, he.dict, he.surfaces]
    simp only [hwd]
    cases writeDictionaryWith d user mm with
    | err => simp [FilesEquiv, Outcome.map, Outcome.bind]
    | panic => simp [FilesEquiv, Outcome.map, Outcome.bind]
    | ok df =>
      simp only [writeBigramWith, hwt, ← connLines_congr hr, ← connLines_congr hl]
      cases connLines d.config.extractor.rightIds mm.leftConn 0 [] with
      | err => simp [FilesEquiv, Outcome.map, Outcome.bind]
      | panic => simp [FilesEquiv, Outcome.map, Outcome.bind]
      | ok left =>
        cases connLines d.config.extractor.leftIds mm.rightConn 0 [] with
        | err => simp [FilesEquiv, Outcome.map, Outcome.bind]
        | panic => simp [FilesEquiv, Outcome.map, Outcome.bind]
        | ok right =>
          have hc := costLines_perm (weightsOf d : List W) (scaleOf (weightAbsMax mm)) hl hr
            he.bigram ok.bigram 0 [] [] (List.Perm.refl _)
          cases h1 : costLines (weightsOf d : List W) (scaleOf (weightAbsMax mm))
              d.config.extractor d.raw.bigramIdx 0 [] <;>
            cases h2 : costLines (weightsOf d : List W) (scaleOf (weightAbsMax mm))
              d'.config.extractor d'.raw.bigramIdx 0 [] <;>
            rw [h1, h2] at hc <;>
            simp_all [FilesEquiv, OutPerm, Outcome.map, Outcome.bind]

/-! ## `read_user_lexicon` on permuted models -/

/-- `d'` is `d` with every hash container enumerated in another order (all of them: the three
feature-id maps, the `Pattern::Multiple` sets of the rewriters, the rows of the bigram index). -/
structure FullEquiv (d d' : ModelData) : Prop where
  cfg : CfgEquiv d.config d'.config
  weights : d'.raw.weights = d.raw.weights
  unigramIdx : d'.raw.unigramIdx = d.raw.unigramIdx
  featureSets : d'.raw.featureSets = d.raw.featureSets
  bigram : RowsPerm d.raw.bigramIdx d'.raw.bigramIdx

/-- All maps are maps, with ids handed out by their counters (`intern_injective`-style
invariant of the extractor, C18), and the bigram index rows have distinct keys. -/
structure FullOK (d : ModelData) : Prop where
  ext : ExtOK d.config.extractor
  bigram : ∀ row ∈ d.raw.bigramIdx, (row.map Prod.fst).Nodup

theorem FullEquiv.toModelEquiv {d d' : ModelData} (h : FullEquiv d d') : ModelEquiv d d' :=
  ⟨h.cfg.dict, h.cfg.surfaces, h.cfg.ext.left, h.cfg.ext.right, h.weights, h.unigramIdx,
    h.featureSets, h.bigram⟩

theorem FullOK.toModelOK {d : ModelData} (h : FullOK d) : ModelOK d :=
  ⟨h.ext.left.ids, h.ext.right.ids, h.bigram⟩

/-- Two models in the relation, holding the same user entries. -/
def StateRel (st st' : State W) : Prop :=
  FullEquiv st.data st'.data ∧ FullOK st.data ∧ st'.user = st.user ∧
    st.merged = none ∧ st'.merged = none

theorem addUserEntries_equiv :
    ∀ (es : List LexCsv.RawEntry) (st st' : State W), StateRel st st' →
      Rel StateRel (addUserEntries es st) (addUserEntries es st') := by
  intro es
  induction es with
  | nil => intro st st' h; exact h
  | cons e es ih =>
    intro st st' h
    obtain ⟨he, hok, hu, hm, hm'⟩ := h
    simp only [addUserEntries, he.cfg.dict, he.featureSets, hu]
    cases firstChar e.surface with
    | none => trivial
    | some c =>
      simp only
      cases baseIdOf st.data.config.dict.charProp c with
      | none => trivial
      | some cate =>
        simp only
        rcases rel_cases (extractFeatureSet_equiv he.cfg hok.ext e.feature cate)
          with ⟨h1, h2⟩ | ⟨h1, h2⟩ | ⟨r, r', h1, h2, hr⟩
        · rw [h1, h2]; trivial
        · rw [h1, h2]; trivial
        · rw [h1, h2]
          obtain ⟨fs, ex⟩ := r
          obtain ⟨fs', ex'⟩ := r'
          obtain ⟨e1, e2, e3⟩ := hr
          simp only at e1 e2 e3
          subst e1
          simp only
          split
          · trivial
          · apply ih
            exact ⟨⟨⟨e2, he.cfg.urw, he.cfg.lrw, he.cfg.rrw, rfl, he.cfg.surfaces⟩,
                he.weights, he.unigramIdx, rfl, he.bigram⟩,
              ⟨e3, hok.bigram⟩, rfl, hm, hm'⟩

/-- **user_lexicon_respects_equiv.**  `read_user_lexicon` on two enumerations of the same model
(holding the same user entries) fails alike or produces two enumerations of the same extended
model with the same user entries: the labels, the appended feature sets and the ids given to
newly interned feature strings do not depend on the enumeration order. -/
theorem user_lexicon_respects_equiv (st st' : State W) (he : FullEquiv st.data st'.data)
    (hok : FullOK st.data) (hu : st'.user = st.user) (csv : List UInt8) :
    Rel StateRel (readUserLexicon st csv) (readUserLexicon st' csv) := by
  unfold readUserLexicon
  cases ofLex (LexCsv.parseCsv true csv) with
  | err => trivial
  | panic => trivial
  | ok entries => exact addUserEntries_equiv entries _ _ ⟨he, hok, hu, rfl, rfl⟩

/-- Both `read_user_lexicon` calls fail alike, or both succeed and generation from the two
resulting models gives `FilesEquiv` files. -/
def UserFilesEquiv : Outcome (State W) → Outcome (State W) → Prop
  | .ok st, .ok st' => FilesEquiv (files st) (files st')
  | .err, .err => True
  | .panic, .panic => True
  | _, _ => False

/-- The history of the property: reload (in some enumeration order), add a user lexicon,
generate — against: add the user lexicon to the in-memory model, generate.  Same outcome kind,
same six files, permuted `bigram.cost`. -/
theorem generate_after_user_respects_equiv (d d' : ModelData) (he : FullEquiv d d')
    (hok : FullOK d) (csv : List UInt8) :
    UserFilesEquiv (readUserLexicon (⟨d, none, []⟩ : State W) csv)
      (readUserLexicon (⟨d', none, []⟩ : State W) csv) := by
  unfold UserFilesEquiv
  rcases rel_cases (user_lexicon_respects_equiv (⟨d, none, []⟩ : State W) ⟨d', none, []⟩ he hok
    rfl csv) with ⟨h1, h2⟩ | ⟨h1, h2⟩ | ⟨st, st', h1, h2, hr⟩
  · rw [h1, h2]; trivial
  · rw [h1, h2]; trivial
  · rw [h1, h2]
    obtain ⟨e1, e2, e3, e4, e5⟩ := hr
    have := generate_respects_equiv (W := W) st.data st'.data e1.toModelEquiv e2.toModelOK st.user
    cases st; cases st'
    simp_all

/-- After a reload `user.csv` is empty: the user entries are not part of the image. -/
theorem reloaded_user_file_empty (d : ModelData) (mm : Merged W) (f : DictFiles)
    (h : writeDictionaryWith d [] mm = .ok f) : f.user = [] := by
  unfold writeDictionaryWith at h
  simp only [userRows] at h
  split at h
  · cases h
  · cases h
  · split at h
    · cases h
    · cases h
    · cases h; rfl

end

/-! ## Non-vacuity on the concrete model of `Proofs/TrainerExamples.lean` -/

namespace Ex
open Vibrato.Trainer.Examples

@[instance_reducible] def ops : WeightOps Int Int := exactOps 1
attribute [local instance] ops

def st0 : State Int := ⟨model, none, []⟩

theorem cache0 : CacheOK st0 := cacheOK_fresh _ _

/-- a history: generate, generate again, write+read, generate -/
def history : List Op := [.writeDictionary, .writeBigramDetails, .writeDictionary, .reload,
  .writeBigramDetails]

example : ∀ st', run st0 history = .ok st' → CacheOK st' :=
  fun st' h => cache_invariant_run history st0 st' cache0 h

-- the history does run (executable check: it contains an encode/decode of the image)
#guard (run st0 history).tag == "ok"

example : ∀ st1 f, generateFrom st0 = .ok (st1, f) → files st1 = .ok f :=
  fun st1 f h => generation_deterministic st0 st1 f cache0 h

example : (files st0).tag = "ok" := by decide

example : (match (readModelState (writeModel st0) : Outcome (State Int)) with
    | .ok st' => files st'
    | .err => .err
    | .panic => .panic) = files st0 :=
  reload_generates_same st0 wf_model cache0 rfl

theorem rowsPerm_reverse : ∀ (b : List (List (Nat × Nat))), RowsPerm b (b.map List.reverse)
  | [] => .nil
  | a :: l => .cons (List.reverse_perm a).symm (rowsPerm_reverse l)

theorem equiv_perm : ModelEquiv model modelPerm :=
  { dict := rfl, surfaces := rfl
    leftIds := (List.reverse_perm _).symm
    rightIds := (List.reverse_perm _).symm
    weights := rfl, unigramIdx := rfl, featureSets := rfl
    bigram := rowsPerm_reverse _ }

theorem ok_model : ModelOK model := ⟨by decide, by decide, by decide⟩

example : FilesEquiv (files (⟨model, none, []⟩ : State Int))
    (files (⟨modelPerm, none, []⟩ : State Int)) :=
  generate_respects_equiv model modelPerm equiv_perm ok_model []

theorem fullEquiv_perm : FullEquiv model modelPerm :=
  { cfg :=
      { ext := ⟨(List.reverse_perm _).symm, (List.reverse_perm _).symm, (List.reverse_perm _).symm,
          rfl, rfl, rfl, rfl, rfl, rfl⟩
        urw := RwTrieEq.refl _
        lrw := RwTrieEq.refl _
        rrw := .cons (.cons (.trans (.multiple (List.Perm.swap _ _ _))) .nil)
          (.cons (NodeEq.refl _) .nil)
        dict := rfl, surfaces := rfl }
    weights := rfl, unigramIdx := rfl, featureSets := rfl
    bigram := rowsPerm_reverse _ }

theorem fullOK_model : FullOK model :=
  ⟨⟨⟨by decide, by decide, by decide⟩, ⟨by decide, by decide, by decide⟩,
     ⟨by decide, by decide, by decide⟩⟩, by decide⟩

example : UserFilesEquiv (readUserLexicon (⟨model, none, []⟩ : State Int) userCsv)
    (readUserLexicon (⟨modelPerm, none, []⟩ : State Int) userCsv) :=
  generate_after_user_respects_equiv model modelPerm fullEquiv_perm fullOK_model userCsv

-- both sides of the example do succeed, with two user rows (executable check)
#guard (match readUserLexicon (⟨model, none, []⟩ : State Int) userCsv,
      readUserLexicon (⟨modelPerm, none, []⟩ : State Int) userCsv with
    | .ok st, .ok st' => st.user.length == 2 && st'.user == st.user &&
        (files st).tag == "ok" && (files st').tag == "ok"
    | _, _ => false)

/-- the stored orders really differ, and so do the images -/
example : model ≠ modelPerm := by decide
example : encodeModel model ≠ encodeModel modelPerm := by
  intro h
  have h1 := reread_equal model wf_model
  rw [h] at h1
  have h2 : wfModel modelPerm = true := by decide
  rw [reread_equal modelPerm h2] at h1
  exact absurd (by injection h1 with h1; exact h1.symm) (by decide : model ≠ modelPerm)

end Ex

/-! ## What is NOT preserved: user entries

`Model::user_entries` is not written by `write_model`, but the feature sets appended by
`read_user_lexicon` (and the strings it interned) ARE part of `data`.  So for a model that has
read a user lexicon, `read_model(write_model(M))` differs from `M`: it generates an empty
`user.csv` (`reloaded_user_file_empty`), while `lex.csv`, `unk.def` and the connection ids stay
the same (the orphaned feature sets keep their classes).  C15's operation sequences are
therefore stated for histories in which `read_user_lexicon` comes AFTER the last reload
(`reload_generates_same` requires `st.user = []`).  Executable witness (the `Float` pipeline;
`read_user_lexicon` goes through `String.fromUTF8?`, which the kernel does not evaluate): -/

def witnessUserLost : Bool :=
  let st0 : State Float := ⟨Trainer.Examples.modelF, none, []⟩
  match readUserLexicon st0 Trainer.Examples.userCsv with
  | .ok st1 =>
    match files st1, (readModelState (writeModel st1) : Outcome (State Float)) with
    | .ok f, .ok st2 =>
      match files st2 with
      | .ok f2 => f.dict.user ≠ [] && f2.dict.user == [] && f.dict.lex == f2.dict.lex &&
          f.dict.unk == f2.dict.unk && f.dict.matrix == f2.dict.matrix
      | _ => false
    | _, _ => false
  | _ => false

#guard witnessUserLost

/-- reading the user lexicon AFTER the reload gives the same seven files as reading it into the
in-memory model (executable check on the example, `Float` weights) -/
def witnessUserAfterReload : Bool :=
  let st0 : State Float := ⟨Trainer.Examples.modelF, none, []⟩
  match readUserLexicon st0 Trainer.Examples.userCsv,
    (readModelState (writeModel st0) : Outcome (State Float)) with
  | .ok a, .ok st1 =>
    match readUserLexicon st1 Trainer.Examples.userCsv with
    | .ok b =>
      match files a, files b with
      | .ok fa, .ok fb => fa == fb && fa.dict.user ≠ []
      | _, _ => false
    | _ => false
  | _, _ => false

#guard witnessUserAfterReload

end Vibrato.C15
