/-
C06 — Connection-id remapping never changes tokenization: the id-mapping part.

Model: `Vibrato/Model/Mapper.lean`; helper lemmas and the definitions used in the statements
(`PermTable`, `IsPerm1`, `IsInvTable`, `Matrix.WF`, `Dual.WF`, `Conn.WF`, `Dict.WF`, `Mapper.Valid`,
`ValidMaps`, `MapPost`, `Rel`, `specRun`): `Vibrato/Proofs/Mapper.lean`.

The lattice-level consequence (same tokens up to ids) is proved elsewhere from the
cost-preservation lemmas below, which have the form
  `σR[r] = nr → σL[l] = nl → cost' nr nl = cost r l`   (all in-range `r`, `l`, including 0).

Findings reproduced on the model of the pinned tree (`fixed = false`):
  F2  a mapping of the wrong length panics (`unfixed_wrong_length_panics` + witnesses);
  F3  a second mapping REPLACES the stored mapper, a user lexicon loaded afterwards is translated
      by the last mapping only (`unfixed_second_map_mistranslates`).
-/
import Vibrato.Proofs.Mapper

namespace Vibrato.Mapper
open Outcome

/-! ## `ConnIdMapper::parse` -/

/-- `parse m` succeeds exactly for the permutations of `[1, …, |m|]` (at most 65535 entries —
    automatic for `u16` items, see `parse_len_of_u16`), and the result is the inverse placement:
    entry 0 is 0 and entry `m[i]` is `i + 1`. -/
theorem parse_ok_iff (m σ : List Nat) :
    parseMap m = .ok σ ↔
      (m.Perm (List.range' 1 m.length) ∧ m.length ≤ 65535) ∧
      (σ.length = m.length + 1 ∧ σ[0]? = some 0 ∧
        ∀ i (h : i < m.length), σ[m[i]]? = some (i + 1)) := by
  rw [parseMap_ok_iff]
  unfold IsPerm1 IsInvTable
  constructor
  · intro ⟨h1, h2, h3⟩; exact ⟨⟨h1, h2⟩, h3⟩
  · intro ⟨⟨h1, h2⟩, h3⟩; exact ⟨h1, h2, h3⟩

example : parseMap [2, 3, 4, 1] = .ok [0, 4, 1, 2, 3] := by decide

/-- With `u16` items the length bound is implied by being a permutation of `1..|m|`. -/
theorem parse_len_of_u16 (m : List Nat) (hu : ∀ x ∈ m, x < 65536)
    (hp : m.Perm (List.range' 1 m.length)) : m.length ≤ 65535 := by
  apply Classical.byContradiction
  intro h
  have : m.length ∈ m := by
    rw [List.Perm.mem_iff hp, List.mem_range'_1]; omega
  have := hu _ this
  omega

example : ∀ x ∈ [2, 3, 4, 1], x < 65536 := by decide

/-- `parse` never panics; every list that is not such a permutation is rejected with `Err`
    (id 0, duplicate, out of range — hence also omission —, more than 65535 entries). -/
theorem parse_err_iff (m : List Nat) :
    parseMap m = .err ↔ ¬ (m.Perm (List.range' 1 m.length) ∧ m.length ≤ 65535) := by
  constructor
  · intro h ⟨h1, h2⟩
    obtain ⟨σ, hσ, _⟩ := parseMap_ok_of_perm m h1 h2
    rw [h] at hσ; cases hσ
  · intro h
    cases hp : parseMap m with
    | err => rfl
    | panic => exact absurd hp (parseMap_ne_panic m)
    | ok σ => exact absurd ((parse_ok_iff m σ).1 hp).1 h

example : parseMap [2, 3, 0, 1] = .err ∧ parseMap [2, 3, 5, 1] = .err ∧ parseMap [2, 2, 1] = .err ∧
    parseMap [1, 3] = .err := by decide

/-- The parsed table is a bijection of `0..|m|` that fixes the BOS/EOS id 0. -/
theorem parse_bijection (m σ : List Nat) (h : parseMap m = .ok σ) :
    σ.Nodup ∧ (∀ x ∈ σ, x < σ.length) ∧ σ[0]? = some 0 := by
  obtain ⟨h1, _, h3⟩ := (parseMap_ok_iff m σ).1 h
  have := invTable_permTable h1 h3
  exact ⟨this.1, this.2, h3.2.1⟩

example : parseMap [3, 1, 2] = .ok [0, 2, 3, 1] := by decide

/-! ## Cost preservation per connector kind -/

/-- Matrix connector: for every pair of bijective tables of the connector's size (in particular
    every parsed mapper, and the first-appearance tables of the dual connector),
    `map` succeeds and `cost (map σ C) (σR r) (σL l) = cost C r l` for ALL in-range `r`, `l`. -/
theorem matrix_cost_map (C : Matrix) (m : Mapper) (hwf : C.WF)
    (hm : m.Valid C.numLeft C.numRight) (h16 : C.numLeft ≤ 65536 ∧ C.numRight ≤ 65536) :
    ∃ C', C.map m = .ok C' ∧ C'.numRight = C.numRight ∧ C'.numLeft = C.numLeft ∧ C'.WF ∧
      ∀ (r l nr nl : Nat), m.right[r]? = some nr → m.left[l]? = some nl →
        C'.cost nr nl = C.cost r l :=
  Matrix.map_spec C m hwf hm.llen hm.rlen hm.lperm hm.rperm h16.1 h16.2

/-- The crate's own test (`matrix_connector.rs: test_mapping`), and its meaning. -/
example :
    let C : Matrix := ⟨[0, -3, 1, -4, 2, -5], 2, 3⟩
    let m : Mapper := ⟨[2, 0, 1], [1, 0]⟩
    C.WF ∧ m.Valid C.numLeft C.numRight ∧
    (C.map m).andThen (fun C' => C'.cost 0 0) = .ok (-4) ∧
    (C.map m).andThen (fun C' => C'.cost 1 2) = .ok 0 := by
  refine ⟨by decide, ⟨by decide, by decide, by decide, by decide⟩, by decide, by decide⟩

/-- Raw connector (rows permuted; the cost is a function `score` of the two rows). -/
theorem raw_cost_map (score : List Nat → List Nat → Int) (C : Raw) (m : Mapper)
    (hm : m.Valid C.numLeft C.numRight) (h16 : C.numLeft ≤ 65535 ∧ C.numRight ≤ 65535) :
    ∃ C', C.map m = .ok C' ∧ C'.numRight = C.numRight ∧ C'.numLeft = C.numLeft ∧
      ∀ (r l nr nl : Nat), m.right[r]? = some nr → m.left[l]? = some nl →
        C'.cost score nr nl = C.cost score r l :=
  Raw.map_spec score C m hm.llen hm.rlen hm.lperm hm.rperm h16.1 h16.2

example :
    let C : Raw := ⟨[[0, 0], [1, 2], [3, 4]], [[0, 0], [5, 6], [7, 8]], 2⟩
    let m : Mapper := ⟨[0, 2, 1], [0, 2, 1]⟩
    m.Valid C.numLeft C.numRight ∧
    C.map m = .ok ⟨[[0, 0], [3, 4], [1, 2]], [[0, 0], [7, 8], [5, 6]], 2⟩ := by
  refine ⟨⟨by decide, by decide, by decide, by decide⟩, by decide⟩

/-- Dual connector (lane rows and conn-id maps permuted, inner matrix renumbered by first
    appearance).  `Dual.WF` is what `DualConnector::from_readers` establishes: inner matrix sized
    consistently, one lane block per id, conn-id maps into and onto the inner ids. -/
theorem dual_cost_map (score : List Nat → List Nat → Int) (C : Dual) (m : Mapper) (hwf : C.WF)
    (hm : m.Valid C.numLeft C.numRight) (h16 : C.numLeft ≤ 65535 ∧ C.numRight ≤ 65535) :
    ∃ C', C.map m = .ok C' ∧ C'.numRight = C.numRight ∧ C'.numLeft = C.numLeft ∧ C'.WF ∧
      ∀ (r l nr nl : Nat), m.right[r]? = some nr → m.left[l]? = some nl →
        C'.cost score nr nl = C.cost score r l :=
  Dual.map_spec score C m hwf hm.llen hm.rlen hm.lperm hm.rperm h16.1 h16.2

/-- A dual connector with 3 right ids sharing 2 inner rows and 3 left ids with 3 inner columns
    (inner matrix: 2 right x 3 left, cell `(r, l)` at `l * 2 + r`). -/
def exDual : Dual :=
  { matrix := ⟨[0, 0, 0, 10, 0, 20], 2, 3⟩
    rightMap := [0, 1, 1], leftMap := [0, 1, 2],
    rightLanes := [[0], [1], [2]], leftLanes := [[0], [3], [4]] }

example : exDual.WF := by
  refine ⟨by decide, by decide, by decide, by decide, by decide, ?_, ?_⟩
  · intro j hj
    have : j = 0 ∨ j = 1 := by simp [exDual] at hj; omega
    rcases this with h | h <;> subst h <;> decide
  · intro j hj
    have : j = 0 ∨ j = 1 ∨ j = 2 := by simp [exDual] at hj; omega
    rcases this with h | h | h <;> subst h <;> decide

example :
    let m : Mapper := ⟨[0, 2, 1], [0, 2, 1]⟩
    m.Valid exDual.numLeft exDual.numRight ∧
    (exDual.map m).andThen (fun C' => C'.cost (fun a b => (a.sum : Int) * b.sum) 2 1)
      = exDual.cost (fun a b => (a.sum : Int) * b.sum) 1 2 := by
  refine ⟨⟨by decide, by decide, by decide, by decide⟩, by decide⟩

/-- All connector kinds at once (`ConnectorWrapper`). -/
theorem conn_cost_map (score : List Nat → List Nat → Int) (C : Conn) (m : Mapper) (hwf : C.WF)
    (hm : m.Valid C.numLeft C.numRight) :
    ∃ C', C.map m = .ok C' ∧ C'.numRight = C.numRight ∧ C'.numLeft = C.numLeft ∧ C'.WF ∧
      ∀ (r l nr nl : Nat), m.right[r]? = some nr → m.left[l]? = some nl →
        C'.cost score nr nl = C.cost score r l :=
  Conn.map_spec score C m hwf hm

/-- The same in function form: with `σR = m.rightFn`, `σL = m.leftFn` (the tables read as
    functions), `cost (map σ C) (σR r) (σL l) = cost C r l` for all `r < num_right`,
    `l < num_left` (0 included), and `σL`, `σR` are bijections of the id ranges. -/
theorem conn_cost_map_fn (score : List Nat → List Nat → Int) (C : Conn) (m : Mapper) (hwf : C.WF)
    (hm : m.Valid C.numLeft C.numRight) :
    ∃ C', C.map m = .ok C' ∧ C'.numRight = C.numRight ∧ C'.numLeft = C.numLeft ∧ C'.WF ∧
      (∀ r l, r < C.numRight → l < C.numLeft →
        C'.cost score (m.rightFn r) (m.leftFn l) = C.cost score r l) ∧
      (∀ l, l < C.numLeft → m.leftFn l < C.numLeft) ∧
      (∀ r, r < C.numRight → m.rightFn r < C.numRight) ∧
      (∀ l l', l < C.numLeft → l' < C.numLeft → m.leftFn l = m.leftFn l' → l = l') ∧
      (∀ r r', r < C.numRight → r' < C.numRight → m.rightFn r = m.rightFn r' → r = r') := by
  obtain ⟨C', h1, h2, h3, h4, h5⟩ := Conn.map_spec score C m hwf hm
  have hb := hm.fn_bij
  exact ⟨C', h1, h2, h3, h4,
    fun r l hr hl => h5 r l _ _ (hm.right_get hr) (hm.left_get hl), hb.1, hb.2.1, hb.2.2.1,
    hb.2.2.2.1⟩

example : (⟨[0, 2, 1], [0, 1, 2]⟩ : Mapper).leftFn 1 = 2 := by decide

/-- Function form of the history invariant's cost clause: after any history the connector of the
    current dictionary satisfies `cost' (τR r) (τL l) = cost₀ r l` on the whole id range. -/
theorem rel_cost_fn (score : List Nat → List Nat → Int) {D0 D : Dict} {τ : Mapper}
    {uo : Option (List Param)} (hrel : Rel score D0 τ uo D) (r l : Nat)
    (hr : r < D0.conn.numRight) (hl : l < D0.conn.numLeft) :
    D.conn.cost score (τ.rightFn r) (τ.leftFn l) = D0.conn.cost score r l :=
  hrel.cost r l _ _ (hrel.valid.right_get hr) (hrel.valid.left_get hl)

/-! ## `Dictionary::map_connection_ids_from_iter` -/

/-- A small dictionary: 3 left and 3 right ids, matrix connector. -/
def exDict : Dict :=
  { sysParams := [⟨1, 2, 10⟩, ⟨2, 1, 20⟩]
    userParams := none
    conn := .matrix ⟨[0, 1, 2, 3, 4, 5, 6, 7, 8], 3, 3⟩
    unkParams := [⟨1, 1, 5⟩]
    stored := none }

theorem exDict_wf : exDict.WF :=
  ⟨⟨by decide, by decide, by decide⟩, by decide, by decide, (by intro u hu; cases hu),
    (by intro s hs; cases hs)⟩

/-- (repaired code, F2) Total: never panics; `Err` exactly for the iterators that are not a pair
    of permutations of `1..num_left-1` / `1..num_right-1` (id 0, duplicate, omission, too short,
    too long); on `Ok` the new dictionary is the old one relabelled (`MapPost`: well-formed, same
    sizes, every parameter list relabelled by the parsed mapper, connection costs preserved). -/
theorem mapIds_total (score : List Nat → List Nat → Int) (D : Dict) (hwf : D.WF)
    (lmap rmap : List Nat) :
    D.mapIds true lmap rmap ≠ .panic ∧
    (D.mapIds true lmap rmap = .err ↔ ¬ ValidMaps lmap rmap D) ∧
    (∀ D', D.mapIds true lmap rmap = .ok D' →
      ValidMaps lmap rmap D ∧
      ∃ σ, Mapper.fromIter lmap rmap = .ok σ ∧ σ.Valid D.conn.numLeft D.conn.numRight ∧
        σ.left[0]? = some 0 ∧ σ.right[0]? = some 0 ∧ MapPost score true D σ D') := by
  by_cases hv : ValidMaps lmap rmap D
  · obtain ⟨σ, D', hσ, hσv, hi1, hi2, hmap, hpost⟩ := mapIds_ok score true D hwf lmap rmap hv
    refine ⟨by rw [hmap]; simp, ⟨fun h => (by rw [hmap] at h; cases h), fun h => absurd hv h⟩, ?_⟩
    intro D'' h
    rw [hmap] at h
    cases h
    exact ⟨hv, σ, hσ, hσv, hi1.2.1, hi2.2.1, hpost⟩
  · have := mapIds_fixed_err D lmap rmap hv
    refine ⟨by rw [this]; simp, ⟨fun _ => hv, fun _ => this⟩, ?_⟩
    intro D' h
    rw [this] at h
    cases h

example : ValidMaps [2, 1] [1, 2] exDict := by decide
example : exDict.mapIds true [2, 1] [1, 2] =
    .ok { sysParams := [⟨2, 2, 10⟩, ⟨1, 1, 20⟩], userParams := none,
          conn := .matrix ⟨[0, 1, 2, 6, 7, 8, 3, 4, 5], 3, 3⟩,
          unkParams := [⟨2, 1, 5⟩], stored := some ⟨[0, 2, 1], [0, 1, 2]⟩ } := by decide

/-- The malformed iterators named by the property, on the example dictionary (repaired code):
    id 0, duplicate, omission, too short, too long, empty. -/
example :
    exDict.mapIds true [0, 1] [1, 2] = .err ∧ exDict.mapIds true [1, 1] [1, 2] = .err ∧
    exDict.mapIds true [1, 3] [1, 2] = .err ∧ exDict.mapIds true [1] [1, 2] = .err ∧
    exDict.mapIds true [1, 2, 3] [1, 2] = .err ∧ exDict.mapIds true [] [] = .err ∧
    exDict.mapIds true [1, 2] [2] = .err := by decide

/-- F2 (pinned tree): a mapping that parses but has the wrong length ALWAYS panics — either in
    `mapper.left(id)` / `mapper.right(id)` while relabelling a lexicon, or at the connector's
    `assert_eq!`. -/
theorem unfixed_wrong_length_panics (D : Dict) (lmap rmap : List Nat) (m : Mapper)
    (hm : Mapper.fromIter lmap rmap = .ok m)
    (hlen : m.left.length ≠ D.conn.numLeft ∨ m.right.length ≠ D.conn.numRight) :
    D.mapIds false lmap rmap = .panic := by
  have hp : ∀ ps, mapParams m ps ≠ .err := by
    intro ps
    induction ps with
    | nil => simp [mapParams]
    | cons p ps ih =>
      simp only [mapParams, Mapper.leftAt, Mapper.rightAt]
      cases m.left[p.left]? <;> cases m.right[p.right]? <;> simp
      cases h : mapParams m ps <;> simp_all
  unfold Dict.mapIds
  rw [hm]
  simp only [andThen_ok, Bool.false_and, Bool.false_eq_true, if_false]
  cases h1 : mapParams m D.sysParams with
  | err => exact absurd h1 (hp _)
  | panic => rfl
  | ok sys =>
    simp only [andThen_ok]
    have hu : mapUser m D.userParams ≠ .err := by
      cases D.userParams with
      | none => simp [mapUser]
      | some u =>
        simp only [mapUser]
        cases h : mapParams m u with
        | err => exact absurd h (hp _)
        | panic => simp
        | ok _ => simp
    cases h2 : mapUser m D.userParams with
    | err => exact absurd h2 hu
    | panic => rfl
    | ok usr =>
      simp only [andThen_ok]
      rw [Conn.map_panic_of_length D.conn m hlen]
      rfl

/-- F2 witnesses on the pinned tree: too short (index panic in the lexicon, before the connector's
    assert), too short with small lexicon ids (connector `assert_eq!`), too long. -/
example : exDict.mapIds false [1] [1, 2] = .panic := by decide
example : ({ exDict with sysParams := [⟨1, 1, 10⟩] } : Dict).mapIds false [1] [1, 2] = .panic := by
  decide
example : exDict.mapIds false [1, 2, 3] [1, 2] = .panic := by decide
/-- the too-short mapper already panics inside `WordParams::map_connection_ids` -/
example : (Mapper.fromIter [1] [1, 2]).andThen (fun m => mapParams m exDict.sysParams) = .panic := by
  decide

/-! ## Histories: repeated mappings and user lexicons -/

/-- (repaired code, F2 + F3) After ANY history of successful `map`, `load user lexicon`,
    `clear user lexicon` calls starting from a well-formed dictionary without stored mapper, the
    dictionary is the original relabelled by the composition `τ` of the applied permutations:
    system and unknown parameters are the original ones relabelled by `τ`, the user lexicon is the
    most recently loaded one (given in ORIGINAL ids) relabelled by `τ` — wherever in the history it
    was loaded —, connection costs satisfy `cost' (τR r) (τL l) = cost r l`, sizes are unchanged,
    `τ` is a pair of bijections and is the stored mapper.  `(τ, user) = specRun …` is computed by
    composing the parsed mappers in order.  (Write/read is the identity on this record, C05.) -/
theorem map_compose (score : List Nat → List Nat → Int) (D0 : Dict) (hwf : D0.WF)
    (hs : D0.stored = none) (ops : List Op) (D : Dict) (hrun : D0.run true ops = .ok D) :
    Rel score D0
      (specRun (idMapper D0.conn.numLeft D0.conn.numRight, D0.userParams) ops).1
      (specRun (idMapper D0.conn.numLeft D0.conn.numRight, D0.userParams) ops).2 D :=
  (Rel.init score D0 hwf hs).run score ops hrun

/-- The same from any intermediate state (e.g. a dictionary read back from an image). -/
theorem map_compose_from (score : List Nat → List Nat → Int) {D0 D D' : Dict} {τ : Mapper}
    {uo : Option (List Param)} (hrel : Rel score D0 τ uo D) (ops : List Op)
    (hrun : D.run true ops = .ok D') :
    Rel score D0 (specRun (τ, uo) ops).1 (specRun (τ, uo) ops).2 D' :=
  hrel.run score ops hrun

/-- The history "map, load user lexicon, map again, load another user lexicon". -/
def exOps : List Op :=
  [.map [2, 1] [1, 2], .loadUser [⟨1, 1, 7⟩], .map [2, 1] [2, 1], .loadUser [⟨1, 2, 9⟩]]

example : exDict.run true exOps =
    .ok { sysParams := [⟨1, 1, 10⟩, ⟨2, 2, 20⟩], userParams := some [⟨1, 1, 9⟩],
          conn := .matrix ⟨[0, 2, 1, 3, 5, 4, 6, 8, 7], 3, 3⟩,
          unkParams := [⟨1, 2, 5⟩], stored := some ⟨[0, 1, 2], [0, 2, 1]⟩ } := by decide

example : specRun (idMapper 3 3, none) exOps = (⟨[0, 1, 2], [0, 2, 1]⟩, some [⟨1, 2, 9⟩]) := by
  decide

/-- F3 (pinned tree): map (swap left ids 1,2), map again (swap back), then load a user lexicon.
    The system lexicon is back at the original ids (composition = identity), but the stored mapper
    is the SECOND one only, so the user word with left id 1 is stored with left id 2;
    the repaired code stores left id 1. -/
theorem unfixed_second_map_mistranslates :
    let ops : List Op := [.map [2, 1] [1, 2], .map [2, 1] [1, 2], .loadUser [⟨1, 1, 7⟩]]
    (exDict.run false ops).andThen (fun D => .ok (D.sysParams, D.userParams))
      = .ok (exDict.sysParams, some [⟨2, 1, 7⟩]) ∧
    (exDict.run true ops).andThen (fun D => .ok (D.sysParams, D.userParams))
      = .ok (exDict.sysParams, some [⟨1, 1, 7⟩]) := by
  decide

/-- Additional panic site on the pinned tree (not covered by F2/F3): once a mapper is stored,
    a user lexicon with an out-of-range id panics in `mapper.left(id)` instead of being rejected by
    `verify` (the translation happens before the check); without stored mapper it is `Err`. -/
theorem loadUser_out_of_range_panics_after_map :
    exDict.loadUser [⟨3, 1, 7⟩] = .err ∧
    (exDict.mapIds true [1, 2] [1, 2]).andThen (fun D => D.loadUser [⟨3, 1, 7⟩]) = .panic := by
  decide

/-- With the ids verified first ("F2b" repair, `Dict.loadUserChecked`) loading a user lexicon is
    total on well-formed dictionaries: `Err` exactly when an id is out of range, otherwise the same
    result as the pinned code. -/
theorem loadUserChecked_total (D : Dict) (hwf : D.WF) (u : List Param) :
    D.loadUserChecked u ≠ .panic ∧
    (verifyParams D.conn.numLeft D.conn.numRight u = false → D.loadUserChecked u = .err) ∧
    (verifyParams D.conn.numLeft D.conn.numRight u = true →
      ∃ D', D.loadUserChecked u = .ok D' ∧ D.loadUser u = .ok D') := by
  cases hv : verifyParams D.conn.numLeft D.conn.numRight u with
  | false => simp [Dict.loadUserChecked, hv]
  | true =>
    have hex : ∃ D', D.loadUser u = .ok D' := by
      unfold Dict.loadUser
      cases hs : D.stored with
      | none => simp [hv]
      | some m =>
        have hm := hwf.stored m hs
        obtain ⟨u', h1, h2⟩ := mapParams_ok m _ _ hm.llen hm.rlen
          (fun y hy => hm.llen ▸ hm.lperm.2 y hy) (fun y hy => hm.rlen ▸ hm.rperm.2 y hy) u hv
        simp [h1, h2]
    obtain ⟨D', hD'⟩ := hex
    simp [Dict.loadUserChecked, hv, hD']

example : (exDict.mapIds true [1, 2] [1, 2]).andThen (fun D => D.loadUserChecked [⟨3, 1, 7⟩]) = .err ∧
    (exDict.mapIds true [2, 1] [1, 2]).andThen (fun D => D.loadUserChecked [⟨1, 1, 7⟩]) =
    (exDict.mapIds true [2, 1] [1, 2]).andThen (fun D => D.loadUser [⟨1, 1, 7⟩]) := by decide

end Vibrato.Mapper
