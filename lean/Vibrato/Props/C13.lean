/-
C13 — Reordering statistics always yield a valid, frequency-ordered mapping: the counting part,
on the worker model (`Model/Worker.lean`, `WorkerM.step` with the operations `initCounter`,
`updateCounts`, `probs`, `counts`) and the lattice model (`Model/Lattice.lean`, `connidPairs`).
The statistics part on the self-contained mapper model is in `Props/C13probs.lean`; section 3
connects the worker's `probs` operation to it.

Helpers: `Proofs/Counts.lean` (sorting, `addCounts` algebra), `Proofs/CountsTrace.lean`
(instrumented lattice construction), `Proofs/CountsHistory.lean` (one block on any worker state),
`Proofs/CountsMap.lean` (`parseMap` / `mapIds` of `Model/Dict.lean`).

Fix flags (`Model/Dict.lean`, `Fixes`): `f4` = `update_connid_counts` is a no-op for an empty
sentence, `f5` = the EOS connections are read from `ends[eos.start_node]`.  With `false` the
model follows the pinned tree, where the property fails (findings F4, F5; witnesses below).

FLOAT ASSUMPTION as in `Props/C13probs.lean`: the model orders by count, the code by
`count / sum : f64`.
-/
import Vibrato.Proofs.CountsHistory
import Vibrato.Proofs.CountsTrace
import Vibrato.Proofs.CountsMap

namespace Vibrato

/-! ## Example tokenizer used by the non-vacuity checks

3 × 3 connector, words `ab` (left 1, right 2) and `a` (left 2, right 1), categories DEFAULT
(unknown entry with ids 1/1) and SPACE (U+0020, ids 2/2). -/

def exDict13w : DictM :=
  { sys := { entries := [⟨[97, 98], ⟨1, 2, 3⟩⟩, ⟨[97], ⟨2, 1, 1⟩⟩], features := [[], []] }
    user := none
    numRight := 3
    numLeft := 3
    conn := [0, 0, 0, 0, 1, 2, 0, 3, 4]
    mapper := none
    chars := { names := ["DEFAULT", "SPACE"], defInfo := ⟨1, 0, false, true, 2⟩,
               ranges := [(32, 33, ⟨2, 1, false, true, 0⟩)] }
    unk := [⟨0, ⟨1, 1, 10⟩, []⟩, ⟨1, ⟨2, 2, 5⟩, []⟩] }

/-- `Tokenizer::new(dict)` -/
def exTok : TokenizerM := { dict := exDict13w, opts := { spaceSet := none, maxGroup := none } }
/-- `Tokenizer::new(dict).ignore_space(true)` -/
def exTokIgn : TokenizerM := { dict := exDict13w, opts := { spaceSet := some 2, maxGroup := none } }

#guard (mkTokenizer exDict13w true 0).map (·.opts.spaceSet) == some (some 2)
#guard (mkTokenizer exDict13w false 0).map (·.opts.spaceSet) == some none

/-! ## 1. An id's count is the number of connection-cost evaluations it took part in -/

/-- The lattice environments the tokenizer builds satisfy the only hypothesis of this section
(candidates end after their start and inside the sentence) — for every dictionary, option set
and sentence. -/
theorem sentEnv_candsFwd (T : TokenizerM) (s : List Nat) : CandsFwd (sentEnv T s) := by
  intro sw hsw c hc
  have hlen : (sentEnv T s).len = s.length := by simp [sentEnv, latEnvOf, compileSent]
  rw [hlen] at hsw ⊢
  have := candsAt_spec T.dict.tokDict s T.opts sw hsw c hc
  exact ⟨this.1, this.2.1⟩

/-- The instrumented construction `buildLatticeTr` (`Proofs/CountsTrace.lean`: `searchMinGo`
appends `(left_id, right_id)` to a log at every `connector.cost(right_id, left_id)` it
evaluates, during the main loop and for EOS) builds the same lattice as `buildLattice`. -/
theorem buildLatticeTr_lattice (E : LatEnv) (b : Nat) :
    (buildLatticeTr E b).1 = buildLattice E b := buildLatticeTr_fst E b

/-- **`counts_eq_evaluations`** (repaired EOS column, `f5 = true`).  For every environment whose
candidates move forward, on a buffer of any previous length: the `(left id, right id)` pairs that
`add_connid_counts` visits are a permutation of the log of connection-cost evaluations made
while that lattice was built; hence for every id the number of visited pairs with that left
(right) id equals the number of evaluations it took part in as left (right) id. -/
theorem counts_eq_evaluations (E : LatEnv) (hE : CandsFwd E) (b : Nat) :
    (connidPairs E (buildLattice E b) true).Perm (buildLatticeTr E b).2 ∧
    ∀ k, tallyL (connidPairs E (buildLattice E b) true) k = tallyL (buildLatticeTr E b).2 k ∧
         tallyR (connidPairs E (buildLattice E b) true) k = tallyR (buildLatticeTr E b).2 k := by
  have hp := connidPairs_perm_trace E hE b
  exact ⟨hp, fun k => ⟨hp.countP_eq _, hp.countP_eq _⟩⟩

/-- The same on the worker: the increment a non-empty sentence contributes to `lid_count[k]` /
`rid_count[k]` is the number of evaluations `connector.cost(r, l)` with `l = k` / `r = k` made by
`tokenize` for that sentence (`f5 = true`). -/
theorem worker_counts_eq_evaluations (fx : Fixes) (hf5 : fx.f5 = true) (T : TokenizerM)
    (s : List Nat) (hs : s.isEmpty = false) (i : List Nat × List Nat) (hi : incr fx T s = some i) :
    ∀ k : Nat, i.1[k]?.getD 0 = tallyL (buildLatticeTr (sentEnv T s) 0).2 k ∧
               i.2[k]?.getD 0 = tallyR (buildLatticeTr (sentEnv T s) 0).2 k := by
  rw [incr_eq fx T s hs, hf5] at hi
  have hadd : addCounts (zeroC T.dict.numLeft T.dict.numRight) (sentPairs true T s) = some i := by
    split at hi
    · exact hi
    · cases hi
  obtain ⟨_, _, h3, h4⟩ := addCounts_spec _ _ _ hadd
  obtain ⟨_, ht⟩ := counts_eq_evaluations (sentEnv T s) (sentEnv_candsFwd T s) 0
  have z1 : ∀ k : Nat, (zeroC T.dict.numLeft T.dict.numRight).1[k]?.getD 0 = 0 := by
    intro k; simp only [zeroC, List.getElem?_replicate]; split <;> rfl
  have z2 : ∀ k : Nat, (zeroC T.dict.numLeft T.dict.numRight).2[k]?.getD 0 = 0 := by
    intro k; simp only [zeroC, List.getElem?_replicate]; split <;> rfl
  intro k
  have h3k := h3 k
  have h4k := h4 k
  rw [z1] at h3k
  rw [z2] at h4k
  exact ⟨by rw [h3k, Nat.zero_add]; exact (ht k).1, by rw [h4k, Nat.zero_add]; exact (ht k).2⟩

-- Non-vacuity ("ab a", no ignore_space): 7 evaluations (`a`, `ab` against BOS; unknown `b` against
-- `a`; the space against `ab` and `b`; `a` against the space; EOS against `a`).
#guard (buildLatticeTr (sentEnv exTok [97, 98, 32, 97]) 0).2 ==
  [(2, 0), (1, 0), (1, 1), (2, 2), (2, 1), (2, 2), (0, 1)]
#guard (sentPairs true exTok [97, 98, 32, 97]).length == 7
#guard incr Fixes.all exTok [97, 98, 32, 97] == some ([1, 2, 4], [2, 3, 2])
example : CandsFwd (sentEnv exTok [97, 98, 32, 97]) := sentEnv_candsFwd _ _

/-- An environment where the log order and the visiting order differ (the longer word is inserted
first): the statement really is about multisets. -/
def exEnv13 : LatEnv :=
  { len := 2
    conn := fun _ _ => 0
    skip := fun _ => 0
    cands := fun sw =>
      if sw = 0 then [⟨2, 0, 0, 5, 6, 0⟩, ⟨1, 1, 0, 7, 8, 0⟩]
      else if sw = 1 then [⟨2, 2, 0, 9, 10, 0⟩] else [] }

example : CandsFwd exEnv13 := by
  intro sw hsw c hc
  have : sw = 0 ∨ sw = 1 := by simp only [exEnv13] at hsw; omega
  rcases this with rfl | rfl
  · simp [exEnv13] at hc; rcases hc with rfl | rfl <;> simp [exEnv13]
  · simp [exEnv13] at hc; subst hc; simp [exEnv13]
#guard (buildLatticeTr exEnv13).2 == [(5, 0), (7, 0), (9, 8), (0, 6), (0, 10)]
#guard connidPairs exEnv13 (buildLattice exEnv13) true == [(7, 0), (5, 0), (9, 8), (0, 6), (0, 10)]

/-- The pinned EOS column is wrong only when EOS does not start at `len_char`: whenever
`eos.start_node = len_char` (always the case without `ignore_space` on a covered dictionary, and
with it unless the sentence ends in skipped spaces) both versions visit the same pairs. -/
theorem connidPairs_pinned_eq (E : LatEnv) (Lt : Lattice) (h : Lt.eos.startNode = E.len) :
    connidPairs E Lt false = connidPairs E Lt true := by
  simp [connidPairs, h]

-- **Finding F5** (pinned tree, `f5 = false`): with `ignore_space` and a sentence that ends with
-- skipped spaces ("a "), `eos.start_node = 1 < len_char = 2`; the code reads `ends[len_char]`
-- (empty), so the EOS evaluation `(0, 1)` is made but not counted.
#guard (buildLatticeTr (sentEnv exTokIgn [97, 32]) 0).2 == [(2, 0), (0, 1)]
#guard (buildLattice (sentEnv exTokIgn [97, 32]) 0).eos.startNode == 1
#guard sentPairs true exTokIgn [97, 32] == [(2, 0), (0, 1)]
#guard sentPairs false exTokIgn [97, 32] == [(2, 0)]
#guard incr Fixes.all exTokIgn [97, 32] == some ([1, 0, 1], [1, 1, 0])
#guard incr Fixes.pinned exTokIgn [97, 32] == some ([0, 0, 1], [1, 0, 0])

/-! ## 2. The counter after any history is the sum of per-sentence increments -/

/-- Zero counter plus the increments `incr fx T s` of the non-empty sentences, left to right;
`none` when some sentence panics on a fresh worker.  `incr fx T s` (`Proofs/CountsHistory.lean`)
is the counter a fresh worker holds after `init; reset_sentence(s); tokenize; update`: a
function of dictionary, options and sentence only. -/
def sumIncr (fx : Fixes) (T : TokenizerM) :
    List Nat × List Nat → List (List Nat) → Option (List Nat × List Nat)
  | c, [] => some c
  | c, s :: ss =>
    if s.isEmpty then sumIncr fx T c ss
    else (incr fx T s).bind fun i => sumIncr fx T (addC c i) ss

/-- **`counts_history_independent`** (`f4 = true`; `f1`, `f5` and the other flags arbitrary).
Take a worker in *any* state that holds a counter `c0` of the connector's dimensions, and any
history of blocks `reset_sentence(s); tokenize(); update_connid_counts()` with reads (`query`,
lattice dump, `compute_connid_probs`, raw counts) interleaved anywhere.  Then the run panics iff
some non-empty sentence panics on a fresh worker, and otherwise the counter is `c0` plus, for
each block with a non-empty sentence, `incr fx T s`: empty sentences contribute nothing, every
sentence contributes the same amount whatever preceded it (previous sentences, results, the
reused lattice buffer). -/
theorem counts_history_independent (fx : Fixes) (hf4 : fx.f4 = true) (T : TokenizerM)
    (hl : 0 < T.dict.numLeft) (hr : 0 < T.dict.numRight) :
    ∀ (bs : List Block) (w0 : WorkerM) (c0 : List Nat × List Nat), CtrOK T w0 c0 →
      (WorkerM.run fx T w0 (bs.flatMap Block.ops)).bind (·.counter) =
        sumIncr fx T c0 (bs.map (·.s)) := by
  intro bs
  induction bs with
  | nil => intro w0 c0 h; simp [WorkerM.run, sumIncr, h.ctr]
  | cons b bs ih =>
    intro w0 c0 h
    obtain ⟨he, hne⟩ := run_block fx T hl hr w0 c0 h b
    simp only [List.flatMap_cons, run_append, List.map_cons, sumIncr]
    by_cases hs : b.s.isEmpty = true
    · obtain ⟨w', hw, hc⟩ := he hs hf4
      simp only [hw, Option.bind_some, hs, if_true]
      exact ih w' c0 hc
    · have hs' : b.s.isEmpty = false := by simpa using hs
      simp only [hs', Bool.false_eq_true, if_false]
      rcases hne hs' with ⟨hi, hw⟩ | ⟨i, w', hi, hw, hc, _⟩
      · simp [hi, hw]
      · simp only [hi, hw, Option.bind_some]
        exact ih w' (addC c0 i) hc

/-- The same from `init_connid_counter` on a worker in any state `w` (for instance after any
earlier history): the counter is the zero counter plus the increments. -/
theorem counts_after_init (fx : Fixes) (hf4 : fx.f4 = true) (T : TokenizerM)
    (hl : 0 < T.dict.numLeft) (hr : 0 < T.dict.numRight) (w : WorkerM) (bs : List Block) :
    (WorkerM.run fx T w (.initCounter :: bs.flatMap Block.ops)).bind (·.counter) =
      sumIncr fx T (zeroC T.dict.numLeft T.dict.numRight) (bs.map (·.s)) := by
  rw [run_cons]
  simp only [WorkerM.step, Option.bind_some]
  exact counts_history_independent fx hf4 T hl hr bs _ _ ⟨rfl, by simp [zeroC], by simp [zeroC]⟩

/-- Consequences spelled out: an empty line changes nothing, and a sentence adds its own
increment after any history. -/
theorem sumIncr_append (fx : Fixes) (T : TokenizerM) :
    ∀ (ss : List (List Nat)) (c : List Nat × List Nat) (s : List Nat),
      sumIncr fx T c (ss ++ [s]) =
        (sumIncr fx T c ss).bind fun c' =>
          if s.isEmpty then some c' else (incr fx T s).map (addC c') := by
  intro ss
  induction ss with
  | nil =>
    intro c s
    simp only [List.nil_append, sumIncr, Option.bind_some]
    split
    · rfl
    · cases incr fx T s <;> rfl
  | cons t ss ih =>
    intro c s
    simp only [List.cons_append, sumIncr]
    split
    · exact ih c s
    · cases incr fx T t with
      | none => rfl
      | some i => simp only [Option.bind_some]; exact ih _ s

-- Non-vacuity: "ab a", "", "a", "ab a" with reads in between, after an unrelated earlier
-- history (a longer sentence that leaves a larger buffer).
example : CtrOK exTok
    { sent := [], top := [], lat := none, bufLen := 0, counter := some (zeroC 3 3) } (zeroC 3 3) :=
  ⟨rfl, rfl, rfl⟩
#guard ((WorkerM.run Fixes.all exTok WorkerM.fresh
    ([.reset [97, 97, 97, 97, 97, 97], .tokenize, .initCounter] ++
      [ (⟨[97, 98, 32, 97], [.probs], [.query], [.counts]⟩ : Block), ⟨[], [], [.lattice], [.probs]⟩,
        ⟨[97], [], [], []⟩, ⟨[97, 98, 32, 97], [], [], []⟩ ].flatMap Block.ops)).bind (·.counter))
  == some ([3, 4, 9], [5, 7, 4])
#guard sumIncr Fixes.all exTok (zeroC 3 3) [[97, 98, 32, 97], [], [97], [97, 98, 32, 97]]
  == some ([3, 4, 9], [5, 7, 4])
#guard incr Fixes.all exTok [97] == some ([1, 0, 1], [1, 1, 0])

/-- **Finding F4 (a)** (pinned tree, `f4 = false`): an empty first sentence makes
`update_connid_counts` panic (no lattice has been built: `ends[0]` is out of range) — for every
tokenizer. -/
theorem empty_first_line_panics (fx : Fixes) (hf4 : fx.f4 = false) (T : TokenizerM) :
    WorkerM.run fx T WorkerM.fresh [.initCounter, .reset [], .tokenize, .updateCounts] = none := by
  simp [WorkerM.run, WorkerM.step, WorkerM.fresh, hf4]

/-- **Finding F4 (b)** (pinned tree, `f4 = false`): an empty sentence after a non-empty sentence
`s` counts the lattice of `s` a second time — for every tokenizer, every worker state holding a
counter, and every `s`. -/
theorem empty_later_line_recounts (fx : Fixes) (hf4 : fx.f4 = false) (T : TokenizerM)
    (hl : 0 < T.dict.numLeft) (hr : 0 < T.dict.numRight) (w : WorkerM) (c : List Nat × List Nat)
    (h : CtrOK T w c) (s : List Nat) (hs : s.isEmpty = false) :
    (WorkerM.run fx T w
        [.reset s, .tokenize, .updateCounts, .reset [], .tokenize, .updateCounts]).bind (·.counter) =
      (incr fx T s).map fun i => addC (addC c i) i := by
  have hsplit : [WOp.reset s, .tokenize, .updateCounts, .reset [], .tokenize, .updateCounts] =
      (⟨s, [], [], []⟩ : Block).ops ++ [.reset [], .tokenize, .updateCounts] := rfl
  rw [hsplit, run_append]
  rcases (run_block fx T hl hr w c h ⟨s, [], [], []⟩).2 hs with ⟨hi, hw⟩ | ⟨i, w', hi, hw, hc, hlat⟩
  · simp only [hi, hw]; rfl
  · simp only [hi, hw, Option.bind_some, Option.map_some]
    rw [run_cons]
    simp only [WorkerM.step, Option.bind_some]
    rw [run_cons, step_tokenize_empty fx T _ rfl]
    simp only [Option.bind_some]
    rw [run_cons, step_update fx T { w' with sent := [], top := if fx.f1 then [] else [] }
      (addC c i) hc.ctr _ _ hlat (by simp [hf4])]
    have hbi := buildLattice_buffer_indep _ (sentEnv_candsInRange T s) w.bufLen
    rw [connidPairs_congr ⟨(sentEnv T s).len, fun _ _ => 0, fun _ => 0, fun _ => []⟩
      (sentEnv T s) _ (buildLattice (sentEnv T s) 0) fx.f5 rfl hbi.1 hbi.2.1]
    have hsp : connidPairs (sentEnv T s) (buildLattice (sentEnv T s) 0) fx.f5 =
        sentPairs fx.f5 T s := rfl
    rw [hsp]
    have hz : addCounts (zeroC T.dict.numLeft T.dict.numRight) (sentPairs fx.f5 T s) = some i := by
      rw [incr_eq fx T s hs] at hi
      split at hi
      · exact hi
      · cases hi
    have hadd := addCounts_addC (addC c i) (sentPairs fx.f5 T s)
      (zeroC T.dict.numLeft T.dict.numRight) (by simp [zeroC, hc.l1]) (by simp [zeroC, hc.l2])
    have hz' : addC (addC c i) (zeroC T.dict.numLeft T.dict.numRight) = addC c i := by
      rw [← hc.l1, ← hc.l2]; exact addC_zeroC _
    rw [hz, hz'] at hadd
    rw [hadd]
    rfl

-- the two witnesses on the example tokenizer
#guard (WorkerM.run Fixes.pinned exTok WorkerM.fresh
  [.initCounter, .reset [], .tokenize, .updateCounts]).isNone
#guard ((WorkerM.run Fixes.pinned exTok WorkerM.fresh
  [.initCounter, .reset [97], .tokenize, .updateCounts, .reset [], .tokenize, .updateCounts]).bind
    (·.counter)) == some ([2, 0, 2], [2, 2, 0])
#guard ((WorkerM.run Fixes.all exTok WorkerM.fresh
  [.initCounter, .reset [97], .tokenize, .updateCounts, .reset [], .tokenize, .updateCounts]).bind
    (·.counter)) == some ([1, 0, 1], [1, 1, 0])

/-! ## 3. The `probs` operation and the reorder → map round trip -/

/-- **`worker_probs_spec`**: `compute_connid_probs` on a worker holding the counter `(l, r)`
panics exactly when a side is empty (`drain(..1)`; a connector without ids); otherwise it returns
for each side a permutation of `1..n-1` (every id except 0 exactly once) ordered by
non-increasing count with ties by ascending id (`Mapper.Before`), and leaves the worker
unchanged.  All-zero counters (no sentence processed) give the ids in ascending order. -/
theorem worker_probs_spec (fx : Fixes) (T : TokenizerM) (w : WorkerM) (l r : List Nat)
    (hc : w.counter = some (l, r)) :
    ((l = [] ∨ r = []) → w.step fx T .probs = none) ∧
    (l ≠ [] → r ≠ [] → ∃ pl pr, w.step fx T .probs = some (w, .probs pl pr) ∧
      pl.Perm (List.range' 1 (l.length - 1)) ∧ pl.Pairwise (Mapper.Before l) ∧
      pr.Perm (List.range' 1 (r.length - 1)) ∧ pr.Pairwise (Mapper.Before r)) := by
  constructor
  · intro h
    simp only [WorkerM.step, hc]
    by_cases hl : l = []
    · subst hl; rfl
    · have hr : r = [] := by rcases h with h | h; exact absurd h hl; exact h
      subst hr
      obtain ⟨pl, hpl, _⟩ := probsOf_spec l hl
      simp only [hpl, probsOf_nil]
      rfl
  · intro hl hr
    obtain ⟨pl, hpl, h1, h2⟩ := probsOf_spec l hl
    obtain ⟨pr, hpr, h3, h4⟩ := probsOf_spec r hr
    refine ⟨pl, pr, ?_, h1, h2, h3, h4⟩
    simp only [WorkerM.step, hc, hpl, hpr]
    rfl

/-- the worker's `probs` output is the mapper model's `computeProbs` of the counter
(so `Props/C13probs.lean` applies verbatim) -/
theorem worker_probs_eq_computeProbs (fx : Fixes) (T : TokenizerM) (w w' : WorkerM)
    (pl pr : List Nat) (h : w.step fx T .probs = some (w', .probs pl pr)) :
    ∃ l r, w.counter = some (l, r) ∧ Mapper.computeProbs l r = .ok (pl, pr) := by
  simp only [WorkerM.step] at h
  cases hc : w.counter with
  | none => rw [hc] at h; cases h
  | some c =>
    obtain ⟨l, r⟩ := c
    rw [hc] at h
    simp only at h
    cases hpl : probsOf l with
    | none => rw [hpl] at h; cases h
    | some a =>
      cases hpr : probsOf r with
      | none => rw [hpl, hpr] at h; cases h
      | some b =>
        rw [hpl, hpr] at h
        have h' : (w, WOut.probs a b) = (w', WOut.probs pl pr) := by
          simpa using h
        have h2 := (Prod.mk.injEq .. ▸ h').2
        simp only [WOut.probs.injEq] at h2
        obtain ⟨rfl, rfl⟩ := h2
        refine ⟨l, r, rfl, ?_⟩
        simp [Mapper.computeProbs, probsOf_some_side hpl, probsOf_some_side hpr, Mapper.Outcome.andThen]

/-- a counter, when present, has the connector's dimensions -/
def Dims (T : TokenizerM) (w : WorkerM) : Prop :=
  ∀ c, w.counter = some c → c.1.length = T.dict.numLeft ∧ c.2.length = T.dict.numRight

theorem step_dims (fx : Fixes) (T : TokenizerM) (w w' : WorkerM) (op : WOp) (o : WOut)
    (h : w.step fx T op = some (w', o)) (hd : Dims T w) : Dims T w' := by
  cases op with
  | reset cs =>
    simp only [WorkerM.step, Option.some.injEq, Prod.mk.injEq] at h
    obtain ⟨rfl, _⟩ := h; exact hd
  | tokenize =>
    simp only [WorkerM.step] at h
    split at h
    · simp only [Option.some.injEq, Prod.mk.injEq] at h
      obtain ⟨rfl, _⟩ := h; exact hd
    · split at h
      · cases h
      · simp only [Option.some.injEq, Prod.mk.injEq] at h
        obtain ⟨rfl, _⟩ := h; exact hd
  | query =>
    simp only [WorkerM.step, Option.some.injEq, Prod.mk.injEq] at h
    obtain ⟨rfl, _⟩ := h; exact hd
  | lattice =>
    simp only [WorkerM.step] at h
    split at h <;>
    · simp only [Option.some.injEq, Prod.mk.injEq] at h
      obtain ⟨rfl, _⟩ := h; exact hd
  | initCounter =>
    simp only [WorkerM.step, Option.some.injEq, Prod.mk.injEq] at h
    obtain ⟨rfl, _⟩ := h
    intro c hc
    simp only [Option.some.injEq] at hc
    subst hc
    simp
  | updateCounts =>
    simp only [WorkerM.step] at h
    split at h
    · simp only [Option.some.injEq, Prod.mk.injEq] at h
      obtain ⟨rfl, _⟩ := h; exact hd
    · split at h
      · rename_i c Lt len hc hlat
        cases hadd : addCounts c (connidPairs ⟨len, fun _ _ => 0, fun _ => 0, fun _ => []⟩ Lt fx.f5) with
        | none => rw [hadd] at h; cases h
        | some c' =>
          rw [hadd] at h
          simp only [Option.map_some, Option.some.injEq, Prod.mk.injEq] at h
          obtain ⟨rfl, _⟩ := h
          obtain ⟨a1, a2, _, _⟩ := addCounts_spec _ _ _ hadd
          intro c'' hc''
          simp only [Option.some.injEq] at hc''
          subst hc''
          obtain ⟨d1, d2⟩ := hd c hc
          exact ⟨by rw [a1, d1], by rw [a2, d2]⟩
      · cases h
  | probs =>
    simp only [WorkerM.step] at h
    split at h
    · cases h
    · rename_i l r hc
      cases hpl : probsOf l with
      | none => rw [hpl] at h; cases h
      | some a =>
        cases hpr : probsOf r with
        | none => rw [hpl, hpr] at h; cases h
        | some b =>
          rw [hpl, hpr] at h
          have h' : (w, WOut.probs a b) = (w', o) := by simpa using h
          have := (Prod.mk.injEq .. ▸ h').1
          subst this; exact hd
  | counts =>
    simp only [WorkerM.step, Option.some.injEq, Prod.mk.injEq] at h
    obtain ⟨rfl, _⟩ := h; exact hd

/-- After **any** history of operations on a fresh worker (any sentences, any order, either
tree), a counter that exists has the connector's dimensions. -/
theorem counter_dims (fx : Fixes) (T : TokenizerM) :
    ∀ (h : List WOp) (w0 w : WorkerM), Dims T w0 → WorkerM.run fx T w0 h = some w → Dims T w := by
  intro h
  induction h with
  | nil => intro w0 w hd hr; simp only [WorkerM.run, Option.some.injEq] at hr; subst hr; exact hd
  | cons op ops ih =>
    intro w0 w hd hr
    rw [run_cons] at hr
    cases hs : w0.step fx T op with
    | none => rw [hs] at hr; cases hr
    | some p =>
      rw [hs] at hr
      exact ih p.1 w (step_dims fx T w0 p.1 op p.2 hs hd) hr

theorem fresh_dims (T : TokenizerM) : Dims T WorkerM.fresh := by
  intro c hc; cases hc

/-- **`compute_connid_probs` never panics** after any history on a fresh worker that initialised
the counter, when the connector has at least one left and one right id; the result is the
frequency-ordered permutation of `worker_probs_spec`. -/
theorem probs_never_panics (fx : Fixes) (T : TokenizerM) (hl : 0 < T.dict.numLeft)
    (hr : 0 < T.dict.numRight) (h : List WOp) (w : WorkerM)
    (hrun : WorkerM.run fx T WorkerM.fresh h = some w) (c : List Nat × List Nat)
    (hc : w.counter = some c) :
    ∃ pl pr, w.step fx T .probs = some (w, .probs pl pr) ∧
      pl.Perm (List.range' 1 (T.dict.numLeft - 1)) ∧ pl.Pairwise (Mapper.Before c.1) ∧
      pr.Perm (List.range' 1 (T.dict.numRight - 1)) ∧ pr.Pairwise (Mapper.Before c.2) := by
  obtain ⟨d1, d2⟩ := counter_dims fx T h _ w (fresh_dims T) hrun c hc
  have hl' : c.1 ≠ [] := by intro h0; rw [h0] at d1; simp at d1; omega
  have hr' : c.2 ≠ [] := by intro h0; rw [h0] at d2; simp at d2; omega
  have := (worker_probs_spec fx T w c.1 c.2 hc).2 hl' hr'
  rw [d1, d2] at this
  exact this

/-- **`reorder_accepted`**: the two id lists returned by `probs` are accepted by
`ConnIdMapper::parse` (`parseMap`, `Model/Dict.lean`), the tables have the connector's
dimensions, and `map_connection_ids_from_iter` (`DictM.mapIds`, pinned or repaired: any `fxm`)
returns `Ok` on the dictionary the counter was made for.  Hypotheses on the dictionary: ids fit
`u16` (`≤ 65536` ids per side) and the stored parameters are in range (`Lexicon::verify`,
`UnkHandler::verify`; established by the builders and by `reset_user_lexicon`). -/
theorem reorder_accepted (fx fxm : Fixes) (T : TokenizerM) (w w' : WorkerM) (pl pr : List Nat)
    (hd : Dims T w) (hstep : w.step fx T .probs = some (w', .probs pl pr))
    (hbl : T.dict.numLeft ≤ 65536) (hbr : T.dict.numRight ≤ 65536)
    (hsys : paramsInRange (T.dict.sys.entries.map (·.param)) T.dict.numLeft T.dict.numRight = true)
    (huser : ∀ u, T.dict.user = some u →
      paramsInRange (u.entries.map (·.param)) T.dict.numLeft T.dict.numRight = true)
    (hunk : paramsInRange (T.dict.unk.map (·.param)) T.dict.numLeft T.dict.numRight = true) :
    ∃ ml mr D', parseMap pl = some ml ∧ parseMap pr = some mr ∧
      ml.length = T.dict.numLeft ∧ mr.length = T.dict.numRight ∧
      T.dict.mapIds fxm pl pr = .ok D' := by
  simp only [WorkerM.step] at hstep
  cases hc : w.counter with
  | none => rw [hc] at hstep; cases hstep
  | some c =>
    obtain ⟨l, r⟩ := c
    rw [hc] at hstep
    simp only at hstep
    obtain ⟨d1, d2⟩ := hd (l, r) hc
    cases hpl : probsOf l with
    | none => rw [hpl] at hstep; cases hstep
    | some a =>
      cases hpr : probsOf r with
      | none => rw [hpl, hpr] at hstep; cases hstep
      | some b =>
        rw [hpl, hpr] at hstep
        have h' : (w, WOut.probs a b) = (w', WOut.probs pl pr) := by simpa using hstep
        have h2 := (Prod.mk.injEq .. ▸ h').2
        simp only [WOut.probs.injEq] at h2
        obtain ⟨rfl, rfl⟩ := h2
        obtain ⟨ml, hml, hll⟩ := probsOf_parseMap l a (by rw [d1]; exact hbl) hpl
        obtain ⟨mr, hmr, hlr⟩ := probsOf_parseMap r b (by rw [d2]; exact hbr) hpr
        obtain ⟨D', hD⟩ := mapIds_ok_of_parse fxm T.dict a b ml mr hml hmr (by rw [hll, d1])
          (by rw [hlr, d2]) hsys huser hunk
        exact ⟨ml, mr, D', hml, hmr, by rw [hll, d1], by rw [hlr, d2], hD⟩

-- Non-vacuity: statistics after "ab a", "", "a", "ab a" (counters `[3,4,9]`, `[5,7,4]`): left ids
-- by count 2 (9) then 1 (4); right ids 1 (7) then 2 (4); accepted by the map tool.
#guard ((WorkerM.run Fixes.all exTok WorkerM.fresh
    (.initCounter :: [ (⟨[97, 98, 32, 97], [], [], []⟩ : Block), ⟨[], [], [], []⟩, ⟨[97], [], [], []⟩,
        ⟨[97, 98, 32, 97], [], [], []⟩ ].flatMap Block.ops)).bind fun w =>
      (w.step Fixes.all exTok .probs).map fun p => match p.2 with
        | .probs l r => (l, r)
        | _ => ([], []))
  == some ([2, 1], [1, 2])
#guard parseMap [2, 1] == some [0, 2, 1] && parseMap [1, 2] == some [0, 1, 2]
#guard (match exDict13w.mapIds Fixes.all [2, 1] [1, 2] with
  | .ok D' => D'.sys.entries.map (·.param) == [⟨2, 2, 3⟩, ⟨1, 1, 1⟩]
  | _ => false)
-- no sentence at all: ids in ascending order
#guard ((WorkerM.run Fixes.all exTok WorkerM.fresh [.initCounter]).bind fun w =>
      (w.step Fixes.all exTok .probs).map fun p => match p.2 with
        | .probs l r => (l, r)
        | _ => ([], []))
  == some ([1, 2], [1, 2])
example : paramsInRange (exDict13w.sys.entries.map (·.param)) 3 3 = true ∧
    paramsInRange (exDict13w.unk.map (·.param)) 3 3 = true := by decide

end Vibrato
