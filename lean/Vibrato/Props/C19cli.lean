/-
Property C19, last clause — "... so tokenizer output can be fed to train, split and evaluate":
the programs `split` and `evaluate` (package `evaluate`) and the output modes `wakati` / `detail`
of `tokenize`.

Model: `Vibrato/Model/EvalSplit.lean`; helper lemmas: `Vibrato/Proofs/EvalSplit.lean`,
`Vibrato/Proofs/EvalSplitTok.lean`.  Everything here is about the model; the tie to the real
programs is the correspondence stream `evalsplit` (the programs are run as processes).

Summary of what is proved

* `split`: for every corpus that parses, every shuffle and every admissible pair of lengths the
  three files parse again and together hold exactly the parsed examples (as a multiset), with the
  requested sizes — under the one hypothesis `write_parse_idempotent` needs (no parsed feature
  ends in `\r`); inadmissible lengths give the error exit and nothing else.
* `evaluate`: the three counts are sizes of sets of (character range, chosen features) pairs and
  of their intersection; on the tokenizer's own `-O mecab` output (same dictionary, same
  `max_grouping_len`, no `ignore_space`) all three equal the number of tokens — PROVIDED the
  program's own `parse_csv_row` does not panic on a feature string, which on the pinned tree it
  does for an empty feature, a feature ending in `,` or `\r`, and a cell of more than 4096 bytes
  (`evaluate_panics_on_*`); with the repaired row parser (`fixed = true`) the proviso is void.
* `tokenize -O wakati`: splitting the printed line on spaces gives back the surfaces iff there is
  at least one token and no surface contains a space; `-O detail`: seven tab-separated fields.
-/
import Vibrato.Proofs.EvalSplitTok
import Vibrato.Props.C19

namespace Vibrato.EvalSplit

open Vibrato.Corpus

/-! ## `split` -/

/-- **split_partition.**  Let the corpus text `b` parse to `exs` with no parsed feature ending in
`\r` (the hypothesis of `write_parse_idempotent`; it holds for every `\n`- or `\r\n`-terminated
file without `\r\r\n`).  Then for every shuffle `sh` (any function returning a permutation of
its argument — the real program uses `thread_rng`) and every `validLen + testLen ≤ exs.length`,
`split` succeeds, each of the three files it writes is accepted again by `Corpus::from_reader`
(no error, no panic), the re-read examples of valid ++ test ++ train are a permutation of the
original examples, and the files hold `validLen`, `testLen` and the remaining number of examples.
So no example is lost, duplicated or altered by `split`. -/
theorem split_partition (sh : List Example → List Example) (hsh : ∀ l, (sh l).Perm l)
    {b : List UInt8} {exs : List Example} (hp : parseCorpus b = .ok exs)
    (hcr : ∀ e ∈ exs, ∀ w ∈ e.tokens, NoTrailingCR w)
    (validLen testLen : Nat) (hadm : validLen + testLen ≤ exs.length) :
    ∃ fv ft fr ev et er,
      splitAbs sh validLen testLen b = .ok (fv, ft, fr) ∧
      parseCorpus fv = .ok ev ∧ parseCorpus ft = .ok et ∧ parseCorpus fr = .ok er ∧
      (ev ++ et ++ er).Perm exs ∧
      ev.length = validLen ∧ et.length = testLen ∧
      er.length = exs.length - validLen - testLen := by
  have hg := parse_result_wellformed hp
  have hperm := hsh exs
  have hrt : ∀ l : List Example, (∀ e ∈ l, e ∈ sh exs) → parseCorpus (writeCorpus l) = .ok l := by
    intro l hl
    refine corpus_roundtrip false l ?_ ?_
    · intro e he w hw
      have hex : e ∈ exs := hperm.mem_iff.mp (hl e he)
      exact ⟨((hg e hex).2 w hw).1, hcr e hex w hw⟩
    · intro e he
      exact (hg e (hperm.mem_iff.mp (hl e he))).1
  have hlen : (sh exs).length = exs.length := hperm.length_eq
  obtain ⟨l1, l2, l3⟩ := take_drop_lengths (sh exs) validLen testLen (by omega)
  refine ⟨writeCorpus ((sh exs).take validLen),
    writeCorpus (((sh exs).drop validLen).take testLen),
    writeCorpus (((sh exs).drop validLen).drop testLen),
    (sh exs).take validLen, ((sh exs).drop validLen).take testLen,
    ((sh exs).drop validLen).drop testLen, ?_, ?_, ?_, ?_, ?_, l1, l2, by omega⟩
  · simp only [splitAbs, hp]
    exact splitExamples_ok sh validLen testLen exs hadm
  · exact hrt _ fun e he => List.mem_of_mem_take he
  · exact hrt _ fun e he => List.mem_of_mem_drop (List.mem_of_mem_take he)
  · exact hrt _ fun e he => List.mem_of_mem_drop (List.mem_of_mem_drop he)
  · exact (take_drop_perm (sh exs) validLen testLen).trans hperm

/-- The three-example corpus of `Props/C19.lean` with reversal as the shuffle, sizes 1 / 1 / 1. -/
example :
    splitAbs List.reverse 1 1 (writeCorpus [exA, exB, exC]) =
      .ok (writeCorpus [exC], writeCorpus [exB], writeCorpus [exA]) := by decide

example : ∃ fv ft fr ev et er,
    splitAbs List.reverse 1 1 (writeCorpus [exA, exB, exC]) = .ok (fv, ft, fr) ∧
    parseCorpus fv = .ok ev ∧ parseCorpus ft = .ok et ∧ parseCorpus fr = .ok er ∧
    (ev ++ et ++ er).Perm [exA, exB, exC] ∧ ev.length = 1 ∧ et.length = 1 ∧
    er.length = [exA, exB, exC].length - 1 - 1 :=
  split_partition List.reverse (fun l => List.reverse_perm l)
    (b := writeCorpus [exA, exB, exC]) (exs := [exA, exB, exC])
    (corpus_roundtrip_pinned _ (by decide) (by decide)) (by decide) 1 1 (by decide)

/-- **split_rejects_oversize.**  If the two requested sizes together exceed the number of parsed
examples, `split` takes the error exit (`Args::command().error(..).exit()`), whatever the
shuffle; no output is produced (the files are created only afterwards). -/
theorem split_rejects_oversize (sh : List Example → List Example)
    {b : List UInt8} {exs : List Example} (hp : parseCorpus b = .ok exs)
    (validLen testLen : Nat) (hover : exs.length < validLen + testLen) :
    splitAbs sh validLen testLen b = .err := by
  simp only [splitAbs, hp]
  exact splitExamples_err sh validLen testLen exs hover

example : splitAbs List.reverse 2 2 (writeCorpus [exA, exB, exC]) = .err :=
  split_rejects_oversize List.reverse (exs := [exA, exB, exC])
    (corpus_roundtrip_pinned _ (by decide) (by decide)) 2 2 (by decide)

/-- A corpus that does not parse is an error exit as well, and `split` never panics. -/
theorem split_err_of_parse_err (sh : List Example → List Example) {b : List UInt8}
    (hp : parseCorpus b = .err) (validLen testLen : Nat) :
    splitAbs sh validLen testLen b = .err := by
  simp only [splitAbs, hp]

theorem split_never_panics (sh : List Example → List Example) (b : List UInt8)
    (validLen testLen : Nat) : splitAbs sh validLen testLen b ≠ .panic := by
  unfold splitAbs
  cases hp : parseCorpus b with
  | ok exs =>
    simp only [splitExamples]
    split <;> simp
  | err => simp
  | panic => exact absurd hp (parse_never_panics false b)

example : splitAbs id 0 0 [97, 10] = .err := split_err_of_parse_err id (by decide) 0 0

/-- **split_uses_computed_lengths.**  The program is the abstract `split` at the two lengths
`(n as f64 * ratio) as usize` it computes from the number `n` of parsed examples, so the three
theorems above apply to it with `validLen = ratioLen n valid_ratio`, `testLen = ratioLen n
test_ratio`.  (IEEE arithmetic itself is not reasoned about; the correspondence stream compares
`ratioLen` with the program on generated ratios.) -/
theorem split_uses_computed_lengths (sh : List Example → List Example) (validRatio testRatio : Float)
    {b : List UInt8} {exs : List Example} (hp : parseCorpus b = .ok exs) :
    split sh validRatio testRatio b =
      splitAbs sh (ratioLen exs.length validRatio) (ratioLen exs.length testRatio) b := by
  simp only [split, splitAbs, hp]

example : split id 0.5 0.5 [97, 10] = .err := by
  simp only [split, show parseCorpus [97, 10] = .err by decide]

/-! ## `evaluate` -/

/-- **evaluate_counts_spec.**  When the scoring loop finishes with the counts `c`
(`num_ref`, `num_sys`, `num_cor`), then `num_cor ≤ num_ref`, `num_cor ≤ num_sys` (so precision and
recall, when defined, are at most 1), `num_ref` is at most the number of tokens of the test corpus,
and `c` is the component-wise sum of the per-example counts (`exampleCounts`), whose meaning is
`example_counts_meaning`.  Holds for the pinned and the repaired row parser. -/
theorem evaluate_counts_spec (fixed : Bool) (tok : List UInt8 → Corpus.Outcome (List SysTok))
    (idx : List Nat) (exs : List Example) (c : Counts)
    (h : evaluate fixed tok idx exs = .ok c) :
    c.cor ≤ c.ref ∧ c.cor ≤ c.sys ∧ c.ref ≤ (exs.map fun e => e.tokens.length).sum ∧
      ∃ cs, exampleCounts (csvRowOf fixed) tok idx exs = some cs ∧ c = sumCounts cs := by
  obtain ⟨cs, hcs, rfl⟩ := (evaluate_ok_iff (csvRowOf fixed) tok idx exs c).mp h
  obtain ⟨h1, h2, h3⟩ := exampleCounts_bounds (csvRowOf fixed) tok idx exs cs hcs
  exact ⟨h1, h2, h3, cs, hcs, rfl⟩

/-- **example_counts_meaning.**  For one example the loop inserts one pair
((start, end), chosen features) per reference token into `refs` (ranges accumulated from
`surface.chars().count()`) and one per system token into `syss`; the three numbers it adds are
the sizes of the SETS `refs`, `syss` and `refs ∩ syss`: there are duplicate-free enumerations
`R`, `S`, `I` of exactly these sets whose lengths are the counts.  (By `set_size_unique` the
length does not depend on the enumeration, so these are *the* numbers of distinct elements —
what `HashSet::len` and `intersection(..).count()` return.) -/
theorem example_counts_meaning {fixed : Bool} {tok : List UInt8 → Corpus.Outcome (List SysTok)}
    {idx : List Nat} {e : Example} {c : Counts}
    (h : evalExample (csvRowOf fixed) tok idx e = .ok c) :
    ∃ refs toks syss,
      refItems (csvRowOf fixed) idx 0 e.tokens = .ok refs ∧ refs.length = e.tokens.length ∧
      tok (sentenceOf e.tokens) = .ok toks ∧
      sysItems (csvRowOf fixed) idx toks = .ok syss ∧ syss.length = toks.length ∧
      ∃ R S I : List Item, R.Nodup ∧ S.Nodup ∧ I.Nodup ∧
        (∀ x, x ∈ R ↔ x ∈ refs) ∧ (∀ x, x ∈ S ↔ x ∈ syss) ∧
        (∀ x, x ∈ I ↔ x ∈ refs ∧ x ∈ syss) ∧
        c = ⟨R.length, S.length, I.length⟩ := by
  obtain ⟨refs, toks, syss, hr, ht, hs, rfl⟩ := evalExample_ok_inv (csvRowOf fixed) h
  refine ⟨refs, toks, syss, hr, refItems_length _ idx _ _ _ hr, ht, hs,
    sysItems_length _ idx _ _ hs, distinct refs, distinct syss,
    (distinct refs).filter (fun x => decide (x ∈ syss)), nodup_distinct _, nodup_distinct _,
    (nodup_distinct _).filter _, fun x => mem_distinct, fun x => mem_distinct, ?_, rfl⟩
  intro x
  simp only [List.mem_filter, decide_eq_true_eq, mem_distinct]

/-- The size of a finite set is independent of the duplicate-free list enumerating it. -/
theorem set_size_unique {l₁ l₂ : List Item} (h₁ : l₁.Nodup) (h₂ : l₂.Nodup)
    (h : ∀ x, x ∈ l₁ ↔ x ∈ l₂) : l₁.length = l₂.length :=
  nodup_length_unique h₁ h₂ h

/-- A toy tokenizer for the examples: it splits every sentence into `a` (feature `N`) followed by
one token `x` covering the next character (feature `U`). -/
def toyTok : List UInt8 → Corpus.Outcome (List SysTok) :=
  fun _ => .ok [⟨0, 1, [78]⟩, ⟨1, 2, [85]⟩]

/-- Reference `a/N b/V`, system `a/N ?/U`: 2 reference pairs, 2 system pairs, 1 in common. -/
example :
    evaluate false toyTok [] [⟨[⟨[97], [78]⟩, ⟨[98], [86]⟩]⟩] = .ok ⟨2, 2, 1⟩ := by decide

example : (1 : Nat) ≤ 2 ∧ (1 : Nat) ≤ 2 ∧
    (2 : Nat) ≤ (([⟨[⟨[97], [78]⟩, ⟨[98], [86]⟩]⟩] : List Example).map fun e => e.tokens.length).sum ∧
    ∃ cs, exampleCounts (csvRowOf false) toyTok [] [⟨[⟨[97], [78]⟩, ⟨[98], [86]⟩]⟩] = some cs ∧
      (⟨2, 2, 1⟩ : Counts) = sumCounts cs :=
  evaluate_counts_spec false toyTok [] [⟨[⟨[97], [78]⟩, ⟨[98], [86]⟩]⟩] ⟨2, 2, 1⟩ (by decide)

/-- `--feature-indices 1,0,5` on `N,x` compares (`x`, `N`, `*`); duplicates collapse: two tokens
with an empty surface at the same position and equal chosen features are ONE reference pair. -/
example : choose [1, 0, 5] [[78], [120]] = [[120], [78], [42]] := by decide
example :
    evaluate false toyTok [0] [⟨[⟨[], [78, 44, 49]⟩, ⟨[], [78, 44, 50]⟩, ⟨[97, 98], [78]⟩]⟩] =
      .ok ⟨2, 2, 0⟩ := by decide

/-- **evaluate_self_perfect_of_partition.**  Self-evaluation for ANY tokenizer with the partition
property.  Let the test corpus be the `-O mecab` rendering of the sentences whose token lists are
`sents` (well-formed words as in `tokenizer_output_parses`), let the tokenizer inside `evaluate`,
run on the concatenated surfaces of each sentence, report exactly these tokens — character
ranges = accumulated `chars().count()` of the surfaces, same features (`accumToks`) — and let every
surface be non-empty.  If the row parser panics on no feature string, then for every example
`refs = syss`, and the program ends with `num_ref = num_sys = num_cor =` total number of tokens,
for every `--feature-indices` list.  (Hence `Precision = Recall = n/n`, i.e. 1.0 in IEEE
arithmetic whenever `n > 0`, and NaN for `n = 0`.) -/
theorem evaluate_self_perfect_of_partition (fixed : Bool)
    (tok : List UInt8 → Corpus.Outcome (List SysTok)) (idx : List Nat) (sents : List (List Word))
    (hwf : ∀ ws ∈ sents, ∀ w ∈ ws, WordWF w)
    (htok : ∀ ws ∈ sents, tok (sentenceOf ws) = .ok (accumToks 0 ws))
    (hpos : ∀ ws ∈ sents, ∀ w ∈ ws, 0 < charCount w.surface)
    (hrow : ∀ ws ∈ sents, ∀ w ∈ ws, csvRowOf fixed w.feature ≠ .panic) :
    evaluateProgram fixed tok idx (sents.flatMap mecabOutput) =
      .ok ⟨(sents.map List.length).sum, (sents.map List.length).sum,
           (sents.map List.length).sum⟩ := by
  have hparse := tokenizer_outputs_parse false sents hwf
  have hparse' : parseCorpus (sents.flatMap mecabOutput) = _ := hparse
  -- dropped sentences have no token
  have hsum : ∀ (l : List (List Word)), (∀ ws ∈ l, ∀ w ∈ ws, 0 < charCount w.surface) →
      ((l.filter fun toks => decide (sentenceOf toks ≠ [])).map List.length).sum =
        (l.map List.length).sum := by
    intro l
    induction l with
    | nil => intro _; rfl
    | cons ws l ih =>
      intro hl
      have ih' := ih fun x hx => hl x (by simp [hx])
      by_cases hs : sentenceOf ws = []
      · have : ws = [] := by
          cases ws with
          | nil => rfl
          | cons w ws' =>
            exfalso
            have hw := hl (w :: ws') (by simp) w (by simp)
            have : w.surface = [] := by
              have : w.surface ++ sentenceOf ws' = [] := by simpa [sentenceOf] using hs
              exact (List.append_eq_nil_iff.mp this).1
            rw [this] at hw
            simp [charCount] at hw
        subst this
        rw [List.filter_cons_of_neg (by simp [sentenceOf]), ih']
        simp
      · rw [List.filter_cons_of_pos (by simpa using hs)]
        simp only [List.map_cons, List.sum_cons, ih']
  unfold evaluateProgram
  rw [hparse']
  simp only [evaluate, evaluateWith]
  rw [evalLoop_self (csvRowOf fixed) (csvRowOf_ne_err fixed) tok idx]
  · simp only [Nat.zero_add, hsum sents hpos]
  · exact fun ws hws => htok ws ((List.mem_filter.mp hws).1)
  · exact fun ws hws => hpos ws ((List.mem_filter.mp hws).1)
  · exact fun ws hws => hrow ws ((List.mem_filter.mp hws).1)

/-- The tokenizer that reports the reference segmentation `a|bc` of the sentence `abc`. -/
example :
    evaluateProgram false (fun b => if b = [] then .ok [] else
        .ok (accumToks 0 [⟨[97], [78]⟩, ⟨[98, 99], [86, 44, 120]⟩])) [1]
      ([[⟨[97], [78]⟩, ⟨[98, 99], [86, 44, 120]⟩], []].flatMap mecabOutput) = .ok ⟨2, 2, 2⟩ :=
  evaluate_self_perfect_of_partition false _ [1] [[⟨[97], [78]⟩, ⟨[98, 99], [86, 44, 120]⟩], []]
    (by decide) (by intro ws hws; simp at hws; rcases hws with rfl | rfl <;> rfl)
    (by decide) (by decide)

/-- **evaluate_self_perfect.**  The model tokenizer of `Model/Tokenizer.lean` evaluated on its own
output.  Dictionary hypotheses as in C01 (`DictOK`: bounded costs; `UnkCovered`: every
character's primary category has an `unk.def` entry); sentences within the 32-bit cost bound.
The test corpus is what `tokenize -O mecab` (no `-S`, the same `-M`) prints for the sentences
`ss`: per sentence the tokens `tokWords D mg feat cs` (surface = the characters of the token's
range, feature = the dictionary's feature string `feat lex_type word_id`), all of them
representable in the corpus format (`WordWF`, the hypothesis of `tokenizer_output_parses`: no
tab / line feed in surface and feature, feature not ending in `\r`).  `evaluate` with the same
dictionary and `-M` then ends with `num_ref = num_sys = num_cor =` the total number of tokens —
provided its `parse_csv_row` panics on none of the feature strings (see
`evaluate_panics_on_empty_feature` for what happens otherwise on the pinned tree). -/
theorem evaluate_self_perfect (fixed : Bool) (D : TokDict) (C W : Int) (hD : DictOK D C W)
    (hcov : UnkCovered D) (mg : Option Nat) (feat : Nat → Nat → List UInt8) (idx : List Nat)
    (ss : List (List Char))
    (hb : ∀ cs ∈ ss, ((cs.length : Int) + 1) * (C + W) ≤ MAX_COST)
    (hwf : ∀ cs ∈ ss, ∀ w ∈ tokWords D mg feat cs, WordWF w)
    (hrow : ∀ cs ∈ ss, ∀ w ∈ tokWords D mg feat cs, csvRowOf fixed w.feature ≠ .panic) :
    evaluateProgram fixed (modelSysTokenize D mg feat) idx
        (ss.flatMap fun cs => mecabOutput (tokWords D mg feat cs)) =
      .ok ⟨(ss.map fun cs => (tokWords D mg feat cs).length).sum,
           (ss.map fun cs => (tokWords D mg feat cs).length).sum,
           (ss.map fun cs => (tokWords D mg feat cs).length).sum⟩ := by
  have h := evaluate_self_perfect_of_partition fixed (modelSysTokenize D mg feat) idx
    (ss.map (tokWords D mg feat))
    (by intro ws hws; simp only [List.mem_map] at hws; obtain ⟨cs, hcs, rfl⟩ := hws
        exact hwf cs hcs)
    (by intro ws hws; simp only [List.mem_map] at hws; obtain ⟨cs, hcs, rfl⟩ := hws
        exact (modelSysTokenize_self D C W hD hcov mg feat cs (hb cs hcs)).1)
    (by intro ws hws; simp only [List.mem_map] at hws; obtain ⟨cs, hcs, rfl⟩ := hws
        exact (modelSysTokenize_self D C W hD hcov mg feat cs (hb cs hcs)).2)
    (by intro ws hws; simp only [List.mem_map] at hws; obtain ⟨cs, hcs, rfl⟩ := hws
        exact hrow cs hcs)
  simpa only [List.flatMap_map, List.map_map, Function.comp_def] using h

/-- **evaluate_self_perfect_fixed.**  With the repaired row parser (the library's, finding F18) the
proviso about `parse_csv_row` is void: well-formed words have valid UTF-8 features, on which the
repaired parser never panics. -/
theorem evaluate_self_perfect_fixed (D : TokDict) (C W : Int) (hD : DictOK D C W)
    (hcov : UnkCovered D) (mg : Option Nat) (feat : Nat → Nat → List UInt8) (idx : List Nat)
    (ss : List (List Char))
    (hb : ∀ cs ∈ ss, ((cs.length : Int) + 1) * (C + W) ≤ MAX_COST)
    (hwf : ∀ cs ∈ ss, ∀ w ∈ tokWords D mg feat cs, WordWF w) :
    evaluateProgram true (modelSysTokenize D mg feat) idx
        (ss.flatMap fun cs => mecabOutput (tokWords D mg feat cs)) =
      .ok ⟨(ss.map fun cs => (tokWords D mg feat cs).length).sum,
           (ss.map fun cs => (tokWords D mg feat cs).length).sum,
           (ss.map fun cs => (tokWords D mg feat cs).length).sum⟩ :=
  evaluate_self_perfect true D C W hD hcov mg feat idx ss hb hwf
    (fun cs hcs w hw => evalCsvRowFixed_ne_panic _ (hwf cs hcs w hw).1.2.1)

/-- **evaluate_self_perfect_sentences.**  The same with hypotheses on the INPUT only: sentences
that contain neither a tab nor a line feed (what `tokenize` can read as one line), and a dictionary
whose feature strings are representable in the corpus format (valid UTF-8 — always true for a
Rust `String` —, no tab, no line feed, not ending in `\r`) and are accepted by the row parser.
Then `tokenize -O mecab | evaluate` (same dictionary, same `-M`, no `-S`) reports
`num_ref = num_sys = num_cor =` number of tokens. -/
theorem evaluate_self_perfect_sentences (fixed : Bool) (D : TokDict) (C W : Int)
    (hD : DictOK D C W) (hcov : UnkCovered D) (mg : Option Nat) (feat : Nat → Nat → List UInt8)
    (idx : List Nat) (ss : List (List Char))
    (hb : ∀ cs ∈ ss, ((cs.length : Int) + 1) * (C + W) ≤ MAX_COST)
    (hcs : ∀ cs ∈ ss, ∀ c ∈ cs, c.val.toNat ≠ 9 ∧ c.val.toNat ≠ 10)
    (hfeat : ∀ l i, validUtf8 (feat l i) = true ∧ TAB ∉ feat l i ∧ LF ∉ feat l i ∧
      (feat l i).getLast? ≠ some CR)
    (hrow : ∀ l i, csvRowOf fixed (feat l i) ≠ .panic) :
    evaluateProgram fixed (modelSysTokenize D mg feat) idx
        (ss.flatMap fun cs => mecabOutput (tokWords D mg feat cs)) =
      .ok ⟨(ss.map fun cs => (tokWords D mg feat cs).length).sum,
           (ss.map fun cs => (tokWords D mg feat cs).length).sum,
           (ss.map fun cs => (tokWords D mg feat cs).length).sum⟩ := by
  refine evaluate_self_perfect fixed D C W hD hcov mg feat idx ss hb
    (fun cs h => tokWords_wf D mg feat cs hfeat (hcs cs h)) ?_
  intro cs _ w hw
  unfold tokWords at hw
  split at hw
  · simp only [modelWords, List.mem_map] at hw
    obtain ⟨t, _, rfl⟩ := hw
    exact hrow _ _
  · cases hw

/-- Non-vacuity: the example dictionary of `Props/C01.lean` (`ab`, `a`, one unknown-word entry per
category) with features `f<word id>` / `u<word id>`, sentences `ab a` and the empty line. -/
def exFeat : Nat → Nat → List UInt8 :=
  fun lexType wordId => [if lexType = 2 then 117 else 102, UInt8.ofNat (48 + wordId % 10)]

theorem exampleDict_ok : DictOK exampleDict 0 10 ∧ UnkCovered exampleDict := by
  refine ⟨⟨fun _ _ => Int.le_refl _, ?_, ?_, ?_, by decide, by decide⟩, ?_⟩
  · intro e he; simp [exampleDict] at he; rcases he with rfl | rfl <;> decide
  · intro u hu; simp [exampleDict] at hu
  · intro b p hp; simp only [exampleDict] at hp; split at hp <;> simp at hp <;> subst hp <;> decide
  · intro c; simp only [exampleDict]; split <;> split <;> simp

#guard tokWords exampleDict none exFeat ['a', 'b', ' ', 'a'] ==
  [⟨[97, 98], [102, 48]⟩, ⟨[32], [117, 49]⟩, ⟨[97], [102, 49]⟩]

/-- Every feature string of the example is two ASCII bytes, neither a tab, a line feed nor a
carriage return, and the pinned row parser accepts it. -/
theorem exFeat_good (l i : Nat) :
    validUtf8 (exFeat l i) = true ∧ TAB ∉ exFeat l i ∧ LF ∉ exFeat l i ∧
      (exFeat l i).getLast? ≠ some CR ∧ csvRowOf false (exFeat l i) ≠ .panic := by
  have h : ∀ (a : UInt8), a = 117 ∨ a = 102 → ∀ i, i < 10 →
      validUtf8 [a, UInt8.ofNat (48 + i)] = true ∧ TAB ∉ [a, UInt8.ofNat (48 + i)] ∧
        LF ∉ [a, UInt8.ofNat (48 + i)] ∧ [a, UInt8.ofNat (48 + i)].getLast? ≠ some CR ∧
        csvRowOf false [a, UInt8.ofNat (48 + i)] ≠ .panic := by
    intro a ha i hi
    rcases ha with rfl | rfl <;>
      (have : i = 0 ∨ i = 1 ∨ i = 2 ∨ i = 3 ∨ i = 4 ∨ i = 5 ∨ i = 6 ∨ i = 7 ∨ i = 8 ∨ i = 9 := by
         omega
       rcases this with rfl | rfl | rfl | rfl | rfl | rfl | rfl | rfl | rfl | rfl <;> decide)
  unfold exFeat
  split
  · exact h 117 (Or.inl rfl) (i % 10) (Nat.mod_lt _ (by decide))
  · exact h 102 (Or.inr rfl) (i % 10) (Nat.mod_lt _ (by decide))

/-- `ab a` and the empty line through `tokenize -O mecab | evaluate --feature-indices 0`: three
tokens, all counted as correct. -/
example :
    evaluateProgram false (modelSysTokenize exampleDict none exFeat) [0]
        ([['a', 'b', ' ', 'a'], []].flatMap fun cs => mecabOutput (tokWords exampleDict none exFeat cs)) =
      .ok ⟨([['a', 'b', ' ', 'a'], []].map fun cs => (tokWords exampleDict none exFeat cs).length).sum,
           ([['a', 'b', ' ', 'a'], []].map fun cs => (tokWords exampleDict none exFeat cs).length).sum,
           ([['a', 'b', ' ', 'a'], []].map fun cs => (tokWords exampleDict none exFeat cs).length).sum⟩ :=
  evaluate_self_perfect_sentences false exampleDict 0 10 exampleDict_ok.1 exampleDict_ok.2 none
    exFeat [0] [['a', 'b', ' ', 'a'], []]
    (by intro cs h; simp at h; rcases h with rfl | rfl <;> decide)
    (by intro cs h; simp at h; rcases h with rfl | rfl <;> decide)
    (fun l i => ⟨(exFeat_good l i).1, (exFeat_good l i).2.1, (exFeat_good l i).2.2.1,
      (exFeat_good l i).2.2.2.1⟩)
    (fun l i => (exFeat_good l i).2.2.2.2)

#guard (([['a', 'b', ' ', 'a'], []] : List (List Char)).map fun cs =>
  (tokWords exampleDict none exFeat cs).length).sum == 3

/-! ### Panics of the program's own `parse_csv_row` (pinned tree) -/

/-- **evaluate_panics_on_long_field.**  A reference token whose feature string starts with an
unquoted cell of 4096 bytes or more, followed by at least one more byte, makes `evaluate` panic
(`unreachable!()` on `ReadFieldResult::OutputFull`: the field buffer is `[0; 4096]`), whatever the
dictionary and the other examples are.  The library's copy of `parse_csv_row` had the same defect
(finding F18, repaired there by sizing the buffer by the row); the program's own copy still has
it. -/
theorem evaluate_panics_on_long_field (tok : List UInt8 → Corpus.Outcome (List SysTok))
    (idx : List Nat) (surface v rest : List UInt8) (b : UInt8)
    (hwf : (Csv.Cell.plain v).wf = true) (hlen : 4096 ≤ v.length)
    (hnb : ¬ (Csv.bom <+: v ++ b :: rest)) (ws : List Word) (es : List Example) :
    evaluate false tok idx (⟨⟨surface, v ++ b :: rest⟩ :: ws⟩ :: es) = .panic := by
  have hp : evalCsvRow (v ++ b :: rest) = .panic :=
    evalCsvRow_panic_of_pinned (LexCsv.parseCsvRowBytes_pinned_panic v rest hwf hlen b hnb)
  simp only [evaluate, evaluateWith, evalLoop, evalExample, refItems, csvRowOf, Bool.false_eq_true,
    if_false, hp]

/-- 4096 times `a`, then `,x`. -/
example (tok : List UInt8 → Corpus.Outcome (List SysTok)) :
    evaluate false tok [] [⟨[⟨[97], List.replicate 4096 97 ++ 44 :: [120]⟩]⟩] = .panic :=
  evaluate_panics_on_long_field tok [] [97] (List.replicate 4096 97) [120] 44
    (by
      simp only [Csv.Cell.wf, List.all_eq_true]
      intro y hy
      rw [List.eq_of_mem_replicate hy]
      decide)
    (by rw [List.length_replicate]; exact Nat.le_refl _)
    (by
      intro h
      have e : List.replicate 4096 (97 : UInt8) = 97 :: List.replicate 4095 97 :=
        List.replicate_succ
      rw [e] at h
      simp only [Csv.bom, List.cons_append, List.cons_prefix_cons] at h
      exact absurd h.1 (by decide))
    [] []

/-- **evaluate_panics_on_empty_feature.**  A reference token with an EMPTY feature string makes
`evaluate` panic: the first `read_field` call returns `ReadFieldResult::End`, for which the
program's copy of `parse_csv_row` has no arm (`_ => unreachable!()`; the library's copy has
`End => true`).  The tokenizer prints such a line for every dictionary word whose feature column
is empty (lexicon row `surface,0,0,0,`), so `tokenize -O mecab | evaluate` can panic on the
tokenizer's own output.  The same happens for a feature string ending in `,` or in `
`. -/
theorem evaluate_panics_on_empty_feature (tok : List UInt8 → Corpus.Outcome (List SysTok))
    (idx : List Nat) (surface : List UInt8) (ws : List Word) (es : List Example) :
    evaluate false tok idx (⟨⟨surface, []⟩ :: ws⟩ :: es) = .panic := by
  simp only [evaluate, evaluateWith, evalLoop, evalExample, refItems, csvRowOf, Bool.false_eq_true,
    if_false, evalCsvRow_nil]

example : csvRowOf false [] = .panic ∧ csvRowOf false [120, 44] = .panic ∧
    csvRowOf false [120, 13] = .panic ∧ csvRowOf false [120, 44, 121] = .ok [[120], [121]] := by
  decide

/-- The repaired row parser accepts these rows (the library's behaviour: `x,` has the cells `x`,
empty, empty). -/
example : csvRowOf true [] = .ok [[]] ∧ csvRowOf true [120, 44] = .ok [[120], [], []] := by decide

/-- On the system side the panic needs the dictionary's cooperation: a system token with an empty
feature panics as well. -/
example :
    evaluate false (fun _ => .ok [⟨0, 1, []⟩]) [] [⟨[⟨[97], [78]⟩]⟩] = .panic := by decide

/-! ## `tokenize -O wakati`, `tokenize -O detail` -/

/-- **wakati_split_roundtrip.**  Splitting the line printed by `-O wakati` (without its final
line feed) on `' '` gives back exactly the token surfaces if and only if there is at least one
token and no surface contains a space.  (For an input line without tokens the program prints an
empty line, which splits into ONE empty piece; a surface with a space — a SPACE-category unknown
word, or a lexicon entry with a space — is cut apart.) -/
theorem wakati_split_roundtrip (surfaces : List (List UInt8)) :
    splitOnByte SP (wakatiBody surfaces) = surfaces ↔
      surfaces ≠ [] ∧ ∀ s ∈ surfaces, SP ∉ s := by
  constructor
  · intro h
    have hne : surfaces ≠ [] := by
      intro he
      subst he
      simp [wakatiBody, splitOnByte] at h
    refine ⟨hne, ?_⟩
    have hlen := congrArg List.length h
    rw [splitOnByte_length, wakatiBody_count surfaces hne] at hlen
    have hpos : 0 < surfaces.length := List.length_pos_iff.mpr hne
    have hz : (surfaces.map (List.count SP)).sum = 0 := by omega
    intro s hs hm
    have h1 : 0 < s.count SP := List.count_pos_iff.mpr hm
    have hle : ∀ (l : List Nat) (x : Nat), x ∈ l → x ≤ l.sum := by
      intro l
      induction l with
      | nil => intro x hx; cases hx
      | cons y l ih =>
        intro x hx
        simp only [List.mem_cons] at hx
        simp only [List.sum_cons]
        rcases hx with rfl | hx
        · omega
        · have := ih x hx; omega
    have h2 : s.count SP ≤ (surfaces.map (List.count SP)).sum :=
      hle _ _ (List.mem_map.mpr ⟨s, hs, rfl⟩)
    omega
  · rintro ⟨hne, h⟩
    exact splitOnByte_wakatiBody surfaces hne h

/-- The line is the body plus one line feed. -/
theorem wakatiLine_eq (surfaces : List (List UInt8)) :
    wakatiLine surfaces = wakatiBody surfaces ++ [LF] := rfl

example : wakatiLine [[97], [98, 99]] = [97, 32, 98, 99, 10] := by decide
example : splitOnByte SP (wakatiBody [[97], [98, 99]]) = [[97], [98, 99]] :=
  (wakati_split_roundtrip _).mpr (by decide)
example : wakatiLine [] = [10] ∧ splitOnByte SP (wakatiBody []) = [[]] := by decide
example : splitOnByte SP (wakatiBody [[97, 32, 98]]) = [[97], [98]] := by decide

/-- **detail_line_fields.**  A line printed by `-O detail` (without its line feed), split on tabs,
has exactly the seven documented fields — surface, feature, `lex_type=System|User|Unknown`,
`left_id=`, `right_id=`, `word_cost=`, `total_cost=` with decimal numbers — provided surface and
feature contain no tab. -/
theorem detail_line_fields (t : DetailTok) (hs : TAB ∉ t.surface) (hf : TAB ∉ t.feature) :
    splitOnByte TAB (detailBody t) = detailFields t ∧ (detailFields t).length = 7 := by
  have hlit : ∀ s : String, TAB ∉ lit s → ∀ x : List UInt8, TAB ∉ x → TAB ∉ lit s ++ x := by
    intro s h1 x h2 hm
    rcases List.mem_append.mp hm with h | h
    · exact h1 h
    · exact h2 h
  have h3 := hlit "lex_type=" (by decide) _ (tab_not_mem_lexTypeDebug t.lexType)
  have h4 := hlit "left_id=" (by decide) _ (tab_not_mem_natDec t.leftId)
  have h5 := hlit "right_id=" (by decide) _ (tab_not_mem_natDec t.rightId)
  have h6 := hlit "word_cost=" (by decide) _ (tab_not_mem_intDec t.wordCost)
  have h7 := hlit "total_cost=" (by decide) _ (tab_not_mem_intDec t.totalCost)
  refine ⟨?_, rfl⟩
  unfold detailBody detailFields
  rw [splitOnByte_append hs, splitOnByte_append hf, splitOnByte_append h3, splitOnByte_append h4,
    splitOnByte_append h5, splitOnByte_append h6, splitOnByte_no_sep h7]

/-- `detailLines` = one such line (plus line feed) per token, then `EOS
`. -/
theorem detailLines_eq (toks : List DetailTok) :
    detailLines toks = toks.flatMap (fun t => detailBody t ++ [LF]) ++ EOS ++ [LF] := rfl

example :
    detailLines [⟨[97], [98], 2, 3, 4, -5, 600⟩] =
      lit "a	b	lex_type=Unknown	left_id=3	right_id=4	word_cost=-5	total_cost=600
EOS
" := by
  decide

example : splitOnByte TAB (detailBody ⟨[97], [98], 0, 3, 4, -5, 600⟩) =
    [[97], [98], lit "lex_type=System", lit "left_id=3", lit "right_id=4", lit "word_cost=-5",
     lit "total_cost=600"] :=
  (detail_line_fields _ (by decide) (by decide)).1

/-- With a tab in the feature (possible: a lexicon feature column may contain one) there are more
than seven pieces. -/
example : (splitOnByte TAB (detailBody ⟨[97], [98, 9, 99], 0, 3, 4, -5, 600⟩)).length = 8 := by
  decide

end Vibrato.EvalSplit
