/-
C14 — Generated dictionary files are the exact image of the trained model.

Model: `Vibrato/Model/Trainer.lean` (`merge` = `rucrf::RawModel::merge`, `writeDictionaryWith` =
body of `Model::write_dictionary` after the merged model is available) on the model image of
`Vibrato/Model/ModelImage.lean`.  Helper lemmas: `Vibrato/Proofs/Trainer.lean`,
`Vibrato/Proofs/TrainerNum.lean`; CSV facts from `Vibrato/Props/C11.lean`.

All statements are for an arbitrary weight structure `WeightOps W S` (the driver uses
`Float`; `exactOps` is exact integer arithmetic).  Statements about the ORDER of costs need
the laws `LawfulWeight` (monotone scaling + saturating cast); they are proved for `exactOps`
and ASSUMED for `Float` on non-NaN weights (trusted base, exercised by the differential
stream `train`).
-/
import Vibrato.Proofs.Trainer
import Vibrato.Proofs.TrainerNum
import Vibrato.Proofs.TrainerExamples
import Vibrato.Props.C11
import Vibrato.Model.Dict

namespace Vibrato.C14
open Vibrato.Bincode Vibrato.Image Vibrato.ModelImage Vibrato.Trainer Vibrato.Trainer.WeightOps
open Vibrato.Csv Vibrato.LexCsv

section
variable {W S : Type} [WeightOps W S]

/-! ## The files in closed form -/

/-- Side conditions under which `write_dictionary` does not panic: the merged model has a
feature set for every seed row and unknown entry (true after `Trainer::new` + `train`:
labels are assigned in exactly this order), the dictionary has a feature string per surface,
unknown entries name existing categories, user labels exist. -/
structure Shape (d : ModelData) (user : List UserEntry) (mm : Merged W) : Prop where
  sets : d.config.surfaces.length + d.config.dict.unkHandler.entries.length ≤
    mm.featureSets.length
  feats : d.config.surfaces.length ≤ d.config.dict.systemLexicon.features.length
  cats : ∀ e ∈ d.config.dict.unkHandler.entries, e.cateId < d.config.dict.charProp.categories.length
  labels : ∀ e ∈ user, e.label - 1 < mm.featureSets.length

/-- The scale factor both writers compute. -/
def scale (mm : Merged W) : S := scaleOf (weightAbsMax mm)

/-- **Closed form of `write_dictionary`.**  Under `Shape` the call succeeds and
* `lex.csv` is, for `i = 0 … |surfaces|-1` in order, the row
  `quote(surfaces[i]),left_i,right_i,cost_i,features[i]\n` of merged feature set `i`;
* `unk.def` is, for the unknown entries in handler order, `cate_str,left,right,cost,feature\n`
  of merged feature set `|surfaces| + i`;
* `matrix.def` is the header `|right classes|+1 |left classes|+1` and the stored entries;
* `user.csv` has one row per user entry (`user_policy` below). -/
theorem write_dictionary_ok (d : ModelData) (user : List UserEntry) (mm : Merged W)
    (h : Shape d user mm) :
    writeDictionaryWith d user mm = .ok
      { lex := lexRowsSpec (scale mm) d.config.surfaces mm.featureSets
          d.config.dict.systemLexicon.features
        matrix := matrixFile mm (scale mm)
        unk := unkRowsSpec (scale mm) d.config.dict.charProp.categories
          d.config.dict.unkHandler.entries (mm.featureSets.drop d.config.surfaces.length)
        user := userRowsSpec mm (scale mm) user } := by
  have h1 := lexRows_eq mm (scale mm) d.config.dict.systemLexicon.features d.config.surfaces 0 []
    (by have := h.sets; omega) (by have := h.feats; omega)
  have h2 := unkRows_eq mm (scale mm) d.config.dict.charProp.categories d.config.surfaces.length
    d.config.dict.unkHandler.entries 0 [] h.cats (by have := h.sets; omega)
  have h3 := userRows_eq mm (scale mm) user [] h.labels
  simp only [List.drop_zero, List.nil_append, Nat.add_zero] at h1 h2 h3
  simp only [writeDictionaryWith, scale] at h1 h2 h3 ⊢
  rw [h1, h2, h3]

/-- If the merged model is too short for the seed rows the code panics (index out of range);
`write_dictionary` never returns `Err` once `merge` succeeded. -/
theorem write_dictionary_panics (d : ModelData) (user : List UserEntry) (mm : Merged W)
    (h : ¬ (d.config.surfaces.length ≤ mm.featureSets.length ∧
      d.config.surfaces.length ≤ d.config.dict.systemLexicon.features.length)) :
    writeDictionaryWith d user mm = .panic := by
  have := lexRows_panic mm (scale mm) d.config.dict.systemLexicon.features d.config.surfaces 0 []
    (Nat.zero_le _) (Nat.zero_le _) (by simpa using h)
  simp only [writeDictionaryWith, scale] at this ⊢
  rw [this]

/-! ## lex_rows -/

/-- **lex_rows (order and multiplicity).**  `lexRowsSpec` has exactly one row per seed row:
the row of index `i` is built from `surfaces[i]`, merged feature set `i` and `features[i]`
(homographs are separate rows, nothing is merged, reordered or dropped). -/
theorem lex_rows (s : S) (surf : Str) (ss : List Str) (fs : MergedFS W) (fss : List (MergedFS W))
    (f : Str) (ff : List Str) :
    lexRowsSpec s (surf :: ss) (fs :: fss) (f :: ff) =
      (quoteCell surf ++ comma :: (natDec fs.leftId ++ comma :: (natDec fs.rightId ++ comma ::
        (intDec (cost16 fs.weight s) ++ comma :: (f ++ [nl]))))) ++ lexRowsSpec s ss fss ff := rfl

/-- A seed lexicon row as `parse_csv` delivered it: the surface and the raw remainder of the
row after the fourth comma, given by its cells. -/
structure SeedRow where
  surf : Str
  fInit : List Cell
  fLast : Cell

/-- The feature string stored in the dictionary for the row. -/
def SeedRow.feature (r : SeedRow) : Str := featInitBytes r.fInit ++ r.fLast.render

/-- What `Lexicon::parse_csv` guarantees for an entry it returned (C11): non-empty valid UTF-8
surface, readable cells; plus the 4096 byte bound of the reader's buffer for the surface. -/
structure SeedRow.OK (r : SeedRow) : Prop where
  surfNe : r.surf ≠ []
  surfUtf8 : LexCsv.validUtf8 r.surf = true
  surfLen : r.surf.length < 4096
  hInit : ∀ c ∈ r.fInit, cellOk c
  hLast : cellOk r.fLast
  featUtf8 : LexCsv.validUtf8 r.feature = true

/-- The emitted parameters can be written in `lex.csv`'s `u16,u16,i16` columns. -/
def ParamFits (s : S) (fs : MergedFS W) : Prop :=
  fs.leftId ≤ 65535 ∧ fs.rightId ≤ 65535 ∧
    -32768 ≤ cost16 fs.weight s ∧ cost16 fs.weight s ≤ 32767

/-- The entries `parse_csv` is expected to return for the emitted file. -/
def lexEntriesSpec (s : S) : List SeedRow → List (MergedFS W) → List RawEntry
  | r :: rs, fs :: fss =>
    ⟨r.surf, fs.leftId, fs.rightId, cost16 fs.weight s, r.feature⟩ :: lexEntriesSpec s rs fss
  | _, _ => []

/-- The grammar line (C11) of one emitted row. -/
def seedLine (s : S) (r : SeedRow) (fs : MergedFS W) : Line :=
  { seps := []
    row := { c0 := cellOfValue r.surf, c1 := .plain (natDec fs.leftId),
             c2 := .plain (natDec fs.rightId), c3 := .plain (intDec (cost16 fs.weight s)),
             fInit := r.fInit, fLast := r.fLast,
             left := fs.leftId, right := fs.rightId, cost := cost16 fs.weight s }
    term := 10 }

def seedLines (s : S) : List SeedRow → List (MergedFS W) → List Line
  | r :: rs, fs :: fss => seedLine s r fs :: seedLines s rs fss
  | _, _ => []

theorem seedLine_render (s : S) (r : SeedRow) (fs : MergedFS W) :
    (seedLine s r fs).render = lexRow s r.surf fs r.feature := by
  simp only [Line.render, Row.render_eq, seedLine, cellOfValue_render]
  simp [lexRow, rowTail, Cell.render, Row.feature, SeedRow.feature, comma, nl]

theorem seedLine_wf (s : S) (r : SeedRow) (fs : MergedFS W) (hr : r.OK) (hp : ParamFits s fs) :
    (seedLine s r fs).WF := by
  obtain ⟨hl, hrr, hc1, hc2⟩ := hp
  have hnum : ∀ n, n ≤ 65535 → cellOk (.plain (natDec n)) := by
    intro n hn
    refine ⟨allDigits_plain (natDec_spec n).2.1, ?_⟩
    have := natDec_length_le (n := n) (by omega)
    simp only [Cell.value, outCap]; omega
  refine ⟨by simp [seedLine], by simp [seedLine, isNl], ?_⟩
  refine
    { h0 := ⟨cellOfValue_wf _, by simpa [seedLine, cellOfValue_value, outCap] using hr.surfLen⟩
      h1 := hnum _ hl
      h2 := hnum _ hrr
      h3 := ⟨intDec_plain _, by
        have := intDec_length_le (c := cost16 fs.weight s) ⟨hc1, hc2⟩
        simp only [seedLine, Cell.value, outCap]; omega⟩
      hInit := hr.hInit
      hLast := hr.hLast
      surfaceUtf8 := by simpa [seedLine, cellOfValue_value] using hr.surfUtf8
      leftOk := parseU16_natDec hl
      rightOk := parseU16_natDec hrr
      costOk := parseI16_intDec ⟨hc1, hc2⟩
      featureUtf8 := hr.featUtf8 }

theorem seedLines_render (s : S) :
    ∀ (seeds : List SeedRow) (fss : List (MergedFS W)),
      (seedLines s seeds fss).flatMap Line.render =
        lexRowsSpec s (seeds.map (·.surf)) fss (seeds.map (·.feature)) := by
  intro seeds
  induction seeds with
  | nil => intro fss; simp [seedLines, lexRowsSpec]
  | cons r rs ih =>
    intro fss
    cases fss with
    | nil => simp [seedLines, lexRowsSpec]
    | cons fs fss =>
      simp only [seedLines, List.flatMap_cons, List.map_cons, lexRowsSpec, ih fss,
        seedLine_render]

theorem seedLines_wf (s : S) :
    ∀ (seeds : List SeedRow) (fss : List (MergedFS W)),
      (∀ r ∈ seeds, r.OK) → (∀ fs ∈ fss, ParamFits s fs) →
      ∀ ln ∈ seedLines s seeds fss, ln.WF := by
  intro seeds
  induction seeds with
  | nil => intro fss _ _ ln h; simp [seedLines] at h
  | cons r rs ih =>
    intro fss hs hf ln h
    cases fss with
    | nil => simp [seedLines] at h
    | cons fs fss =>
      simp only [seedLines, List.mem_cons] at h
      rcases h with rfl | h
      · exact seedLine_wf s r fs (hs r (by simp)) (hf fs (by simp))
      · exact ih fss (fun x hx => hs x (by simp [hx])) (fun x hx => hf x (by simp [hx])) ln h

theorem seedLines_entries (s : S) :
    ∀ (seeds : List SeedRow) (fss : List (MergedFS W)), (∀ r ∈ seeds, r.OK) →
      (seedLines s seeds fss).flatMap (fun l => l.row.entries) = lexEntriesSpec s seeds fss := by
  intro seeds
  induction seeds with
  | nil => intro fss _; simp [seedLines, lexEntriesSpec]
  | cons r rs ih =>
    intro fss hs
    cases fss with
    | nil => simp [seedLines, lexEntriesSpec]
    | cons fs fss =>
      have hne : ¬ ((cellOfValue r.surf).value = []) := by
        rw [cellOfValue_value]; exact (hs r (by simp)).surfNe
      simp only [seedLines, List.flatMap_cons, lexEntriesSpec,
        ih fss (fun x hx => hs x (by simp [hx]))]
      have hne' := (hs r (by simp)).surfNe
      simp [Row.entries, seedLine, hne', Row.entry, cellOfValue_value, Row.feature,
        SeedRow.feature]

/-- **lex_rows (read back).**  Reading the emitted `lex.csv` with `Lexicon::parse_csv` returns,
in order, one entry per seed row with the SEED SURFACE and the SEED FEATURE STRING byte for
byte, and the merged model's left id, right id and cost — provided the seed rows are as
`parse_csv` delivers them (`SeedRow.OK`), the numbers fit the columns (`ParamFits`; see
`ids_in_dims`, `cost_fits_i16`) and the file does not begin with a UTF-8 BOM (a first surface
starting with U+FEFF that needs no quotes is the one exception: csv-core drops the BOM). -/
theorem lex_rows_parse (s : S) (seeds : List SeedRow) (fss : List (MergedFS W))
    (hs : ∀ r ∈ seeds, r.OK) (hf : ∀ fs ∈ fss, ParamFits s fs)
    (hbom : ¬ (bom <+: lexRowsSpec s (seeds.map (·.surf)) fss (seeds.map (·.feature)))) :
    parseCsv true (lexRowsSpec s (seeds.map (·.surf)) fss (seeds.map (·.feature))) =
      .ok (lexEntriesSpec s seeds fss) := by
  have hfile : lexRowsSpec s (seeds.map (·.surf)) fss (seeds.map (·.feature)) =
      renderFile (seedLines s seeds fss) (.blank []) := by
    simp [renderFile, Tail.render, seedLines_render]
  rw [hfile] at hbom ⊢
  rw [C11.parse_csv_rows _ _ (seedLines_wf s seeds fss hs hf) (by simp [Tail.WF]) hbom]
  simp [fileEntries, Tail.entries, seedLines_entries s seeds fss hs]

/-! ## unk_rows -/

/-- **unk_rows.**  One row per unknown entry, in handler order; the first cell is the name of
the entry's category, the parameters are those of merged feature set `|surfaces| + i`, the
feature is copied. -/
theorem unk_rows (s : S) (cats : List Str) (e : UnkEntry) (es : List UnkEntry)
    (fs : MergedFS W) (fss : List (MergedFS W)) :
    unkRowsSpec s cats (e :: es) (fs :: fss) =
      ((cats[e.cateId]?).getD [] ++ comma :: (natDec fs.leftId ++ comma :: (natDec fs.rightId ++
        comma :: (intDec (cost16 fs.weight s) ++ comma :: (e.feature ++ [nl]))))) ++
      unkRowsSpec s cats es fss := rfl

/-- An unknown entry together with the cells of its feature string (as `parse_csv` delivered
it when `unk.def` was read) and the name of its category. -/
structure UnkSeed where
  e : UnkEntry
  cate : Str
  fInit : List Cell
  fLast : Cell

/-- Side conditions for reading the emitted `unk.def` row back: the category name is written
UNQUOTED (`{}` of `cate_str`), so it must be a plain CSV cell — non-empty, no `,` `"` CR LF —
valid UTF-8 and shorter than the reader's 4096 byte buffer; the feature is as delivered by
`parse_csv`. -/
structure UnkSeed.OK (cats : List Str) (r : UnkSeed) : Prop where
  cateIs : cats[r.e.cateId]? = some r.cate
  catePlain : Cell.wf (.plain r.cate) = true
  cateNe : r.cate ≠ []
  cateUtf8 : LexCsv.validUtf8 r.cate = true
  cateLen : r.cate.length < 4096
  featIs : r.e.feature = featInitBytes r.fInit ++ r.fLast.render
  hInit : ∀ c ∈ r.fInit, cellOk c
  hLast : cellOk r.fLast
  featUtf8 : LexCsv.validUtf8 r.e.feature = true

def unkEntriesSpec (s : S) : List UnkSeed → List (MergedFS W) → List RawEntry
  | r :: rs, fs :: fss =>
    ⟨r.cate, fs.leftId, fs.rightId, cost16 fs.weight s, r.e.feature⟩ :: unkEntriesSpec s rs fss
  | _, _ => []

def unkLine (s : S) (r : UnkSeed) (fs : MergedFS W) : Line :=
  { seps := []
    row := { c0 := .plain r.cate, c1 := .plain (natDec fs.leftId),
             c2 := .plain (natDec fs.rightId), c3 := .plain (intDec (cost16 fs.weight s)),
             fInit := r.fInit, fLast := r.fLast,
             left := fs.leftId, right := fs.rightId, cost := cost16 fs.weight s }
    term := 10 }

def unkLines (s : S) : List UnkSeed → List (MergedFS W) → List Line
  | r :: rs, fs :: fss => unkLine s r fs :: unkLines s rs fss
  | _, _ => []

theorem unkLine_render (s : S) (cats : List Str) (r : UnkSeed) (fs : MergedFS W)
    (hr : r.OK cats) :
    (unkLine s r fs).render = unkRow s ((cats[r.e.cateId]?).getD []) fs r.e := by
  simp only [Line.render, Row.render_eq, unkLine, hr.cateIs, Option.getD_some]
  simp [unkRow, rowTail, Cell.render, Row.feature, hr.featIs, comma, nl]

theorem unkLine_wf (s : S) (cats : List Str) (r : UnkSeed) (fs : MergedFS W) (hr : r.OK cats)
    (hp : ParamFits s fs) : (unkLine s r fs).WF := by
  obtain ⟨hl, hrr, hc1, hc2⟩ := hp
  have hnum : ∀ n, n ≤ 65535 → cellOk (.plain (natDec n)) := by
    intro n hn
    refine ⟨allDigits_plain (natDec_spec n).2.1, ?_⟩
    have := natDec_length_le (n := n) (by omega)
    simp only [Cell.value, outCap]; omega
  refine ⟨by simp [unkLine], by simp [unkLine, isNl], ?_⟩
  refine
    { h0 := ⟨hr.catePlain, by simpa [unkLine, Cell.value, outCap] using hr.cateLen⟩
      h1 := hnum _ hl
      h2 := hnum _ hrr
      h3 := ⟨intDec_plain _, by
        have := intDec_length_le (c := cost16 fs.weight s) ⟨hc1, hc2⟩
        simp only [unkLine, Cell.value, outCap]; omega⟩
      hInit := hr.hInit
      hLast := hr.hLast
      surfaceUtf8 := by simpa [unkLine, Cell.value] using hr.cateUtf8
      leftOk := parseU16_natDec hl
      rightOk := parseU16_natDec hrr
      costOk := parseI16_intDec ⟨hc1, hc2⟩
      featureUtf8 := by
        have := hr.featUtf8
        rw [hr.featIs] at this
        exact this }

/-- **unk_rows (read back).**  Reading the emitted `unk.def` with the CSV parser of
`UnkHandler::from_reader` returns, in order, one row per unknown entry with the category NAME
as first cell, the merged parameters and the entry's feature string — provided every category
name is a plain CSV cell (`UnkSeed.OK`).  `write_dictionary` writes `cate_str` with `{}`,
without `quote_csv_cell`: a category whose name contains `,` or `"` (accepted by the
`char.def` and `unk.def` readers) yields a file that does not read back (see the report). -/
theorem unk_rows_parse (s : S) (cats : List Str) (useeds : List UnkSeed)
    (fss : List (MergedFS W)) (hs : ∀ r ∈ useeds, r.OK cats) (hf : ∀ fs ∈ fss, ParamFits s fs)
    (hbom : ¬ (bom <+: unkRowsSpec s cats (useeds.map (·.e)) fss)) :
    parseCsv true (unkRowsSpec s cats (useeds.map (·.e)) fss) =
      .ok (unkEntriesSpec s useeds fss) := by
  have hrender : ∀ (useeds : List UnkSeed) (fss : List (MergedFS W)), (∀ r ∈ useeds, r.OK cats) →
      (unkLines s useeds fss).flatMap Line.render = unkRowsSpec s cats (useeds.map (·.e)) fss := by
    intro useeds
    induction useeds with
    | nil => intro fss _; simp [unkLines, unkRowsSpec]
    | cons r rs ih =>
      intro fss hs
      cases fss with
      | nil => simp [unkLines, unkRowsSpec]
      | cons fs fss =>
        simp only [unkLines, List.flatMap_cons, List.map_cons, unkRowsSpec,
          ih fss (fun x hx => hs x (by simp [hx])), unkLine_render s cats r fs (hs r (by simp))]
  have hwf : ∀ (useeds : List UnkSeed) (fss : List (MergedFS W)), (∀ r ∈ useeds, r.OK cats) →
      (∀ fs ∈ fss, ParamFits s fs) → ∀ ln ∈ unkLines s useeds fss, ln.WF := by
    intro useeds
    induction useeds with
    | nil => intro fss _ _ ln h; simp [unkLines] at h
    | cons r rs ih =>
      intro fss hs hf ln h
      cases fss with
      | nil => simp [unkLines] at h
      | cons fs fss =>
        simp only [unkLines, List.mem_cons] at h
        rcases h with rfl | h
        · exact unkLine_wf s cats r fs (hs r (by simp)) (hf fs (by simp))
        · exact ih fss (fun x hx => hs x (by simp [hx])) (fun x hx => hf x (by simp [hx])) ln h
  have hent : ∀ (useeds : List UnkSeed) (fss : List (MergedFS W)), (∀ r ∈ useeds, r.OK cats) →
      (unkLines s useeds fss).flatMap (fun l => l.row.entries) = unkEntriesSpec s useeds fss := by
    intro useeds
    induction useeds with
    | nil => intro fss _; simp [unkLines, unkEntriesSpec]
    | cons r rs ih =>
      intro fss hs
      cases fss with
      | nil => simp [unkLines, unkEntriesSpec]
      | cons fs fss =>
        have hne := (hs r (by simp)).cateNe
        have hfe := (hs r (by simp)).featIs
        simp only [unkLines, List.flatMap_cons, unkEntriesSpec,
          ih fss (fun x hx => hs x (by simp [hx]))]
        simp [Row.entries, unkLine, hne, Row.entry, Cell.value, Row.feature, hfe]
  have hfile : unkRowsSpec s cats (useeds.map (·.e)) fss =
      renderFile (unkLines s useeds fss) (.blank []) := by
    simp [renderFile, Tail.render, hrender useeds fss hs]
  rw [hfile] at hbom ⊢
  rw [C11.parse_csv_rows _ _ (hwf useeds fss hs hf) (by simp [Tail.WF]) hbom]
  simp [fileEntries, Tail.entries, hent useeds fss hs]

/-- The category ids of the emitted rows, in file order. -/
def unkRowCates : List UnkEntry → List (MergedFS W) → List Nat
  | e :: es, _ :: fss => e.cateId :: unkRowCates es fss
  | _, _ => []

/-- **unk_rows (grouping).**  The handler stores its entries grouped by ascending category id
(`UnkHandler::from_reader`); the emitted rows keep that order, so they are grouped in
`char.def` category order. -/
theorem unk_rows_grouped (es : List UnkEntry) (fss : List (MergedFS W))
    (hlen : es.length ≤ fss.length) (hsorted : es.Pairwise (fun a b => a.cateId ≤ b.cateId)) :
    unkRowCates es fss = es.map (·.cateId) ∧
      (unkRowCates es fss).Pairwise (· ≤ ·) := by
  have h1 : unkRowCates es fss = es.map (·.cateId) := by
    induction es generalizing fss with
    | nil => simp [unkRowCates]
    | cons e es ih =>
      cases fss with
      | nil => simp at hlen
      | cons fs fss =>
        simp only [unkRowCates, List.map_cons, List.cons.injEq, true_and]
        exact ih fss (by simpa using hlen) (List.Pairwise.of_cons hsorted)
  rw [h1]
  exact ⟨rfl, by simpa [List.pairwise_map] using hsorted⟩

/-! ## ids_in_dims -/

theorem mem_zip_of_mem_right {α β : Type} :
    ∀ (l1 : List α) (l2 : List β), l2.length ≤ l1.length → ∀ y ∈ l2, ∃ x, (x, y) ∈ l1.zip l2 := by
  intro l1
  induction l1 with
  | nil =>
    intro l2 h y hy
    cases l2 with
    | nil => cases hy
    | cons _ _ => simp at h
  | cons a l1 ih =>
    intro l2 h y hy
    cases l2 with
    | nil => cases hy
    | cons c l2 =>
      simp only [List.mem_cons] at hy
      rcases hy with rfl | hy
      · exact ⟨a, by simp⟩
      · obtain ⟨x, hx⟩ := ih l2 (by simpa using h) y hy
        exact ⟨x, by simp [hx]⟩

/-- **ids_in_dims.**  For a model merged by `merge`: the matrix header announces
`|right classes| + 1` right ids and `|left classes| + 1` left ids; every merged feature set
(hence every `lex.csv`, `unk.def` and model-parameter `user.csv` row) has
`1 ≤ left_id < |left classes| + 1` and `1 ≤ right_id < |right classes| + 1`; the matrix has
exactly `|right classes| + 1` rows (row index = right id, `0` = BOS) and every stored entry's
left index is `< |left classes| + 1` (`0` = EOS).  Moreover the ids ARE the merged connection
classes: class table entry `left_id - 1` is the feature set's right-context feature-id tuple
(`bigram_right`), entry `right_id - 1` its left-context tuple, and the tables have no
duplicates, so equal tuples ⇔ equal ids. -/
theorem ids_in_dims {wt : List W} {m : RawModel} {mm : Merged W} (h : merge wt m = .ok mm) :
    (∀ fs ∈ mm.featureSets, 1 ≤ fs.leftId ∧ fs.leftId < mm.leftConn.length + 1 ∧
      1 ≤ fs.rightId ∧ fs.rightId < mm.rightConn.length + 1) ∧
    mm.matrix.length = mm.rightConn.length + 1 ∧
    (∀ row ∈ mm.matrix, ∀ e ∈ row, e.1 < mm.leftConn.length + 1) ∧
    (∀ p ∈ m.featureSets.zip mm.featureSets,
      mm.leftConn[p.2.leftId - 1]? = some p.1.bigramRight ∧
      mm.rightConn[p.2.rightId - 1]? = some p.1.bigramLeft) ∧
    mm.leftConn.Nodup ∧ mm.rightConn.Nodup := by
  have ok := merge_ok h
  refine ⟨?_, ok.rows, ?_, ?_, ok.nodupL, ok.nodupR⟩
  · intro fs hfs
    obtain ⟨x, hx⟩ := mem_zip_of_mem_right m.featureSets mm.featureSets (by rw [ok.len]; exact Nat.le_refl _) fs hfs
    obtain ⟨h1, h2, h3, h4, _⟩ := ok.sets _ hx
    have b1 : fs.leftId - 1 < mm.leftConn.length := by
      rcases Nat.lt_or_ge (fs.leftId - 1) mm.leftConn.length with h | h
      · exact h
      · rw [List.getElem?_eq_none h] at h2; cases h2
    have b2 : fs.rightId - 1 < mm.rightConn.length := by
      rcases Nat.lt_or_ge (fs.rightId - 1) mm.rightConn.length with h | h
      · exact h
      · rw [List.getElem?_eq_none h] at h4; cases h4
    simp only at h1 h3
    exact ⟨h1, by omega, h3, by omega⟩
  · intro row hrow e he
    have := (ok.cols row hrow).1 e he
    omega
  · intro p hp
    obtain ⟨_, h2, _, h4, _⟩ := ok.sets _ hp
    exact ⟨h2, h4⟩

/-- The matrix lines of one right id list the left ids in strictly increasing order: the
entries are produced in that order and `sort_unstable_by_key` leaves them unchanged. -/
theorem sortByKey_sorted :
    ∀ (row : List (Nat × W)), row.Pairwise (fun a b => a.1 < b.1) → sortByKey row = row := by
  intro row
  induction row with
  | nil => intro _; rfl
  | cons p rest ih =>
    intro hp
    have hrest := ih (List.Pairwise.of_cons hp)
    simp only [sortByKey, List.foldr_cons] at hrest ⊢
    rw [hrest]
    cases rest with
    | nil => rfl
    | cons q rest =>
      have : p.1 < q.1 := List.rel_of_pairwise_cons hp (by simp)
      simp [insertByKey, Nat.le_of_lt this]

theorem matrix_rows_sorted {wt : List W} {m : RawModel} {mm : Merged W}
    (h : merge wt m = .ok mm) (s : S) (r : Nat) (row : List (Nat × W)) (hrow : row ∈ mm.matrix) :
    matrixRowLines s r row = row.flatMap (fun e =>
      natDec r ++ 32 :: (natDec e.1 ++ 32 :: (intDec (cost16 e.2 s) ++ [nl]))) ∧
    row.Pairwise (fun a b => a.1 < b.1) := by
  have hp := ((merge_ok h).cols row hrow).2
  exact ⟨by simp [matrixRowLines, sortByKey_sorted row hp], hp⟩

/-! ## user_policy -/

/-- **user_policy.**  A user row whose parameters were given as `0,0,0` is written with the
merged model's left id, right id and cost of its label; every other row is written with the
parameters it came with, unchanged.  Surface (re-quoted) and feature are copied. -/
theorem user_policy (s : S) (e : UserEntry) (fs : MergedFS W) :
    (isDefaultParam e.param = true →
      userRow s e fs = quoteCell e.surface ++
        rowTail fs.leftId fs.rightId (cost16 fs.weight s) e.feature) ∧
    (isDefaultParam e.param = false →
      userRow s e fs = quoteCell e.surface ++
        rowTail e.param.leftId e.param.rightId e.param.wordCost e.feature) := by
  constructor <;> intro h <;> simp [userRow, h]

theorem isDefaultParam_iff (p : Image.WordParam) : isDefaultParam p = true ↔ p = ⟨0, 0, 0⟩ := by
  cases p
  simp [isDefaultParam]

/-- `read_user_lexicon` stores exactly the parsed parameters and the label of the feature set
it appended (1-based index), so the policy applies to the rows of the user file in order. -/
theorem user_rows_in_order (mm : Merged W) (s : S) (e : UserEntry) (es : List UserEntry)
    (fs : MergedFS W) (h : mm.featureSets[e.label - 1]? = some fs) :
    userRowsSpec mm s (e :: es) = userRow s e fs ++ userRowsSpec mm s es := by
  simp [userRowsSpec, h]

end

/-! ## Costs -/

/-- **cost_is_truncation** (the `Float` structure used by the driver and compared bit for bit
with the crate): the cost written for a weight `w` is
`((-w) * (32767.0 / weight_abs_max)) as i16` — `Float.toInt16` truncates toward zero,
saturates, and maps NaN to 0 like Rust's `as`. -/
theorem cost_is_truncation (w m : Float) :
    cost16 w (scaleOf m : Float) = ((-w) * (32767.0 / m)).toInt16.toInt := rfl

/-- In exact arithmetic the cost is `trunc (-w * 32767 / max)` saturated to 16 bits. -/
theorem cost_is_truncation_exact (eps w m : Int) :
    (exactOps eps).cost16 w ((exactOps eps).scaleOf m) = sat 16 (Int.tdiv (-w * 32767) m) := rfl

/-- Order and rounding laws of a weight structure: `le` is reflexive and transitive, the
16-bit cost is within `i16`, and for the scale factor of a non-negative maximum a larger weight
gets a smaller-or-equal cost (monotone scaling by a non-negative factor after negation, then a
monotone saturating cast). -/
class LawfulWeight (W S : Type) [WeightOps W S] : Prop where
  le_refl : ∀ a : W, le a a = true
  le_trans : ∀ a b c : W, le a b = true → le b c = true → le a c = true
  cost16_range : ∀ (w : W) (s : S), -32768 ≤ cost16 w s ∧ cost16 w s ≤ 32767
  cost16_antitone : ∀ (m w1 w2 : W), le (zero : W) m = true → le w1 w2 = true →
    cost16 w2 (scaleOf m : S) ≤ cost16 w1 (scaleOf m : S)

theorem sat_range (i : Int) : -32768 ≤ sat 16 i ∧ sat 16 i ≤ 32767 := by
  unfold sat
  simp only [show (16 - 1 : Nat) = 15 from rfl, show ((2 ^ 15 : Nat) : Int) = 32768 from rfl]
  split
  · omega
  · split <;> omega

theorem sat_mono {a b : Int} (h : a ≤ b) (bits : Nat) : sat bits a ≤ sat bits b := by
  unfold sat
  have hk : (0 : Int) < ((2 ^ (bits - 1) : Nat) : Int) := by
    have := Nat.two_pow_pos (bits - 1); omega
  generalize ((2 ^ (bits - 1) : Nat) : Int) = k at hk
  split <;> split <;> (try split) <;> (try split) <;> omega

theorem tdiv_mono {a b m : Int} (h : a ≤ b) (hm : 0 ≤ m) : a.tdiv m ≤ b.tdiv m := by
  rcases Int.lt_or_eq_of_le hm with h0 | h0
  · exact Int.tdiv_le_tdiv h0 h
  · subst h0; simp

/-- The exact structure satisfies the laws (so the laws are consistent and the theorems below
are not vacuous). -/
instance exactLawful (eps : Int) : @LawfulWeight Int Int (exactOps eps) :=
  letI := exactOps eps
  { le_refl := fun a => by simp [WeightOps.le]
    le_trans := fun a b c h1 h2 => by
      simp only [WeightOps.le, decide_eq_true_eq] at *
      omega
    cost16_range := fun w s => sat_range _
    cost16_antitone := fun m w1 w2 hm h => by
      simp only [WeightOps.le, WeightOps.zero, decide_eq_true_eq] at hm h
      simp only [WeightOps.cost16, WeightOps.scaleOf]
      apply sat_mono
      apply tdiv_mono _ hm
      have : -w2 ≤ -w1 := by omega
      exact Int.mul_le_mul_of_nonneg_right this (by decide) }

section
variable {W S : Type} [WeightOps W S] [LawfulWeight W S]

theorem wmax_ge_left (a b : W) : le a (wmax a b) = true := by
  unfold wmax
  split
  · assumption
  · exact LawfulWeight.le_refl a

theorem foldl_wmax_ge {α : Type} (f : α → W) (l : List α) (a : W) :
    le a (l.foldl (fun acc x => wmax acc (f x)) a) = true := by
  induction l generalizing a with
  | nil => exact LawfulWeight.le_refl a
  | cons x l ih => exact LawfulWeight.le_trans _ _ _ (wmax_ge_left a (f x)) (ih _)

/-- `weight_abs_max` is `≥ 0` (it is a running maximum started at `0.0`). -/
theorem weightAbsMax_nonneg (mm : Merged W) : le (zero : W) (weightAbsMax mm) = true := by
  unfold weightAbsMax
  have h1 := foldl_wmax_ge (fun fs : MergedFS W => abs fs.weight) mm.featureSets (zero : W)
  refine LawfulWeight.le_trans _ _ _ h1 ?_
  generalize List.foldl (fun acc (fs : MergedFS W) => wmax acc (abs fs.weight)) zero
    mm.featureSets = a
  induction mm.matrix generalizing a with
  | nil => exact LawfulWeight.le_refl a
  | cons row rows ih =>
    simp only [List.foldl_cons]
    exact LawfulWeight.le_trans _ _ _ (foldl_wmax_ge (fun e : Nat × W => abs e.2) row a) (ih _)

/-- **cost_fits_i16.**  Every cost written to `lex.csv`, `unk.def`, `matrix.def` and
`user.csv` (model rows) is within `[-32768, 32767]`. -/
theorem cost_fits_i16 (mm : Merged W) (w : W) :
    -32768 ≤ cost16 w (scale mm) ∧ cost16 w (scale mm) ≤ 32767 :=
  LawfulWeight.cost16_range w (scale mm)

/-- **cost_antitone.**  Within one generated dictionary (one scale factor), a word or
connection with a larger model weight (score) gets a smaller or equal cost: lower cost means
higher model score. -/
theorem cost_antitone (mm : Merged W) (w1 w2 : W) (h : le w1 w2 = true) :
    cost16 w2 (scale mm) ≤ cost16 w1 (scale mm) :=
  LawfulWeight.cost16_antitone _ w1 w2 (weightAbsMax_nonneg mm) h

end

/-! ## emitted_compiles (partial) -/

/-
(Since then proved in full in `Props/C14compile.lean::emitted_compiles` / `emitted_files_compile`;
`emitted_compiles_partial` below is the lex.csv half used there.  The original note follows.)

Full statement (DESIGN §C14), NOT proved in full:

  theorem emitted_compiles … :
    buildMatrixDict fx files.lex files.matrix chardef files.unk = .ok D

for the char.def the training configuration was read from.  What is proved
(`emitted_compiles_partial`): the emitted lexicon is accepted by the lex.csv parser
(`lex_rows_parse`), all emitted ids are within the emitted matrix dimensions so that
`Lexicon::verify` / `UnkHandler::verify` (`paramsInRange`) hold, for every merged model with at
most 65534 classes per side.  Missing: the same read-back for `unk.def` (needs category names
free of `,` `"` — the code writes `cate_str` UNQUOTED, see the report), the `matrix.def` and
`char.def` text parsers on the emitted bytes (models in `MatrixDef.lean`/`CharDef.lean` go
through `String.fromUTF8?`, for which core has no usable lemmas), and the crawdad trie
(opaque; it rejects an empty lexicon and surfaces containing U+0000).  The harness flag
`COMPILES` checks the full statement on the implementation for every generated model.
Side conditions found: at least one seed row; no surface containing U+0000; at most 65534
connection classes per side (the header and the id columns are `u16`); category names without
`,`/`"`; a first surface starting with U+FEFF is read back without its BOM.
-/

/-- **emitted_compiles (partial).**  For a model merged by `merge` with at most 65534 left and
right classes, under the cost laws: the emitted `lex.csv` is parsed back into exactly the seed
rows with the model parameters, and every parsed parameter pair passes the range check of
`SystemDictionaryBuilder::build` against the dimensions written in the `matrix.def` header. -/
theorem emitted_compiles_partial {W S : Type} [WeightOps W S] [LawfulWeight W S]
    {wt : List W} {m : RawModel} {mm : Merged W} (h : merge wt m = .ok mm)
    (hL : mm.leftConn.length < 65535) (hR : mm.rightConn.length < 65535)
    (seeds : List SeedRow) (hs : ∀ r ∈ seeds, r.OK)
    (hbom : ¬ (bom <+: lexRowsSpec (scale mm) (seeds.map (·.surf)) mm.featureSets
      (seeds.map (·.feature)))) :
    parseCsv true (lexRowsSpec (scale mm) (seeds.map (·.surf)) mm.featureSets
        (seeds.map (·.feature))) = .ok (lexEntriesSpec (scale mm) seeds mm.featureSets) ∧
    paramsInRange ((lexEntriesSpec (scale mm) seeds mm.featureSets).map
        fun e => ⟨e.leftId, e.rightId, e.wordCost⟩)
      (mm.leftConn.length + 1) (mm.rightConn.length + 1) = true := by
  obtain ⟨hids, _, _, _, _, _⟩ := ids_in_dims h
  have hfit : ∀ fs ∈ mm.featureSets, ParamFits (scale mm) fs := by
    intro fs hfs
    obtain ⟨_, h2, _, h4⟩ := hids fs hfs
    have := cost_fits_i16 mm fs.weight
    exact ⟨by omega, by omega, this.1, this.2⟩
  refine ⟨lex_rows_parse (scale mm) seeds mm.featureSets hs hfit hbom, ?_⟩
  have : ∀ (seeds : List SeedRow) (fss : List (MergedFS W)),
      (∀ fs ∈ fss, fs.leftId < mm.leftConn.length + 1 ∧ fs.rightId < mm.rightConn.length + 1) →
      paramsInRange ((lexEntriesSpec (scale mm) seeds fss).map
        fun e => ⟨e.leftId, e.rightId, e.wordCost⟩)
        (mm.leftConn.length + 1) (mm.rightConn.length + 1) = true := by
    intro seeds
    induction seeds with
    | nil => intro fss _; simp [lexEntriesSpec, paramsInRange]
    | cons r rs ih =>
      intro fss hf
      cases fss with
      | nil => simp [lexEntriesSpec, paramsInRange]
      | cons fs fss =>
        have h1 := hf fs (by simp)
        have h2 := ih fss (fun x hx => hf x (by simp [hx]))
        simp only [paramsInRange, List.all_eq_true] at h2 ⊢
        intro p hp
        simp only [lexEntriesSpec, List.map_cons, List.mem_cons] at hp
        rcases hp with rfl | hp
        · simp [h1.1, h1.2]
        · exact h2 p hp
  exact this seeds mm.featureSets fun fs hfs => by
    obtain ⟨_, h2, _, h4⟩ := hids fs hfs
    exact ⟨h2, h4⟩

/-! ## Non-vacuity: the theorems instantiated on the concrete model of
`Proofs/TrainerExamples.lean` with the exact weight structure `exactOps 1` -/

namespace Ex
open Vibrato.Trainer.Examples

@[instance_reducible] def ops : WeightOps Int Int := exactOps 1
attribute [local instance] ops

def wt : List Int := [5, -3, 7, 2, -4, 1]

/-- `merge` of the example model (kernel-evaluated below). -/
def merged : Merged Int :=
  { featureSets := [⟨5, 1, 1⟩, ⟨-3, 2, 2⟩, ⟨5, 1, 1⟩, ⟨0, 3, 3⟩]
    matrix := [[(1, 7), (2, 2)], [(0, 1), (2, 3)], [(1, 5)], []]
    leftConn := [[some 1, some 2], [some 3, some 4], [some 5, some 6]]
    rightConn := [[some 1, some 2], [some 3, some 4], [some 5, none]] }

theorem weights_eq : (weightsOf model : List Int) = wt := by decide
theorem merge_eq : merge wt raw = .ok merged := by decide

theorem shape : Shape model [] merged :=
  ⟨by decide, by decide, by decide, by decide⟩

example : writeDictionaryWith model [] merged = .ok
    { lex := lexRowsSpec (scale merged) model.config.surfaces merged.featureSets
        model.config.dict.systemLexicon.features
      matrix := matrixFile merged (scale merged)
      unk := unkRowsSpec (scale merged) model.config.dict.charProp.categories
        model.config.dict.unkHandler.entries (merged.featureSets.drop model.config.surfaces.length)
      user := userRowsSpec merged (scale merged) [] } :=
  write_dictionary_ok model [] merged shape

/-- with too few merged feature sets the real code panics -/
example : writeDictionaryWith model [] { merged with featureSets := [⟨5, 1, 1⟩] } = .panic :=
  write_dictionary_panics _ _ _ (by decide)

/-- the scale of the example is the largest absolute merged weight, `7` -/
example : scale merged = 7 := by decide

def seeds : List SeedRow :=
  [⟨[120], [.plain [78]], .plain [97]⟩,            -- x      | N,a
   ⟨[121, 44, 122], [.plain [86]], .plain [98]⟩,   -- y,z    | V,b
   ⟨[120], [.plain [78]], .plain [97]⟩]            -- x      | N,a   (homograph)

theorem seeds_ok : ∀ r ∈ seeds, r.OK := by
  intro r hr
  simp only [seeds, List.mem_cons, List.mem_nil_iff, or_false] at hr
  rcases hr with rfl | rfl | rfl <;>
    exact ⟨by decide, by decide, by decide, by decide, by decide, by decide⟩

example : seeds.map (·.surf) = model.config.surfaces ∧
    seeds.map (·.feature) = model.config.dict.systemLexicon.features := by decide

instance (s : Int) (fs : MergedFS Int) : Decidable (ParamFits s fs) := by
  unfold ParamFits; infer_instance

example : parseCsv true (lexRowsSpec (scale merged) (seeds.map (·.surf)) merged.featureSets
      (seeds.map (·.feature))) =
    .ok [⟨[120], 1, 1, -23405, [78, 44, 97]⟩, ⟨[121, 44, 122], 2, 2, 14043, [86, 44, 98]⟩,
         ⟨[120], 1, 1, -23405, [78, 44, 97]⟩] :=
  lex_rows_parse (scale merged) seeds merged.featureSets seeds_ok (by decide) (by decide)

def useeds : List UnkSeed :=
  [⟨⟨0, 0, 0, 0, [85]⟩, [68, 69, 70, 65, 85, 76, 84], [], .plain [85]⟩]   -- DEFAULT | U

example : useeds.map (·.e) = model.config.dict.unkHandler.entries := by decide

example : parseCsv true (unkRowsSpec (scale merged) model.config.dict.charProp.categories
      (useeds.map (·.e)) (merged.featureSets.drop 3)) =
    .ok [⟨[68, 69, 70, 65, 85, 76, 84], 3, 3, 0, [85]⟩] :=
  unk_rows_parse (scale merged) _ useeds _
    (by
      intro r hr
      simp only [useeds, List.mem_cons, List.mem_nil_iff, or_false] at hr
      subst hr
      exact ⟨by decide, by decide, by decide, by decide, by decide, by decide, by decide,
        by decide, by decide⟩)
    (by decide) (by decide)

/-- the side condition is needed: a category named `A,B` is written unquoted and the row
`A,B,1,1,0,S` is rejected by the reader (`B` is not a number) -/
example : parseCsv true [65, 44, 66, 44, 49, 44, 49, 44, 48, 44, 83, 10] = .err := by decide

example : unkRowCates model.config.dict.unkHandler.entries (merged.featureSets.drop 3) = [0] :=
  (unk_rows_grouped _ _ (by decide) (by decide)).1

example : ∀ fs ∈ merged.featureSets, 1 ≤ fs.leftId ∧ fs.leftId < 3 + 1 ∧
    1 ≤ fs.rightId ∧ fs.rightId < 3 + 1 :=
  (ids_in_dims merge_eq).1

example : merged.matrix.length = 3 + 1 := (ids_in_dims merge_eq).2.1

example : matrixRowLines (scale merged) 1 [(0, (1 : Int)), (2, 3)] =
    [(0, (1 : Int)), (2, 3)].flatMap (fun e =>
      natDec 1 ++ 32 :: (natDec e.1 ++ 32 :: (intDec (cost16 e.2 (scale merged)) ++ [nl]))) :=
  (matrix_rows_sorted merge_eq (scale merged) 1 _ (by decide)).1

/-- `0,0,0` ⇒ model parameters; anything else ⇒ copied -/
example : userRow (scale merged) ⟨[120], [86], ⟨0, 0, 0⟩, 5⟩ ⟨-3, 2, 2⟩ =
    quoteCell [120] ++ rowTail 2 2 (cost16 (-3 : Int) (scale merged)) [86] :=
  (user_policy _ _ _).1 (by decide)
example : userRow (scale merged) ⟨[119], [78], ⟨3, 2, -17⟩, 6⟩ (⟨5, 1, 1⟩ : MergedFS Int) =
    quoteCell [119] ++ rowTail 3 2 (-17) [78] :=
  (user_policy _ _ _).2 (by decide)

example : cost16 (7 : Int) (scale merged) ≤ cost16 (5 : Int) (scale merged) :=
  cost_antitone merged 5 7 (by decide)
example : cost16 (5 : Int) (scale merged) = -23405 := by decide
example : -32768 ≤ cost16 (-1000000 : Int) (scale merged) ∧
    cost16 (-1000000 : Int) (scale merged) ≤ 32767 := cost_fits_i16 merged _

example : parseCsv true (lexRowsSpec (scale merged) (seeds.map (·.surf)) merged.featureSets
        (seeds.map (·.feature))) = .ok (lexEntriesSpec (scale merged) seeds merged.featureSets) ∧
    paramsInRange ((lexEntriesSpec (scale merged) seeds merged.featureSets).map
        fun e => ⟨e.leftId, e.rightId, e.wordCost⟩) (3 + 1) (3 + 1) = true :=
  emitted_compiles_partial merge_eq (by decide) (by decide) seeds seeds_ok (by decide)

end Ex

/-- The `Float` pipeline (what the driver runs) on the example image: the files of the doc
comment of `Proofs/TrainerExamples.lean`; executable check. -/
def exFloatFiles : Option Files :=
  match generate (W := Float) (encodeModel Trainer.Examples.modelF) none with
  | .ok f => some f
  | _ => none

#guard exFloatFiles.map (·.dict.matrix) ==
  some ("4 4\n0 1 -32767\n0 2 -9362\n1 0 -4681\n1 2 -14043\n2 1 -23405\n".toUTF8.toList)
#guard exFloatFiles.map (·.dict.lex) ==
  some ("x,1,1,-23405,N,a\n\"y,z\",2,2,14043,V,b\nx,1,1,-23405,N,a\n".toUTF8.toList)
#guard exFloatFiles.map (·.dict.unk) == some ("DEFAULT,3,3,0,U\n".toUTF8.toList)

end Vibrato.C14
