/-
Property C17 -- "Rewrite rules: the first registered matching rule applies".

  Rewriting a feature list applies the earliest rule, in rewrite.def order, whose pattern
  matches position-wise as a prefix ('*' matches anything, '(a|b)' any listed alternative, other
  text exactly), producing that rule's output with $n replaced by the n-th input feature (or '*'
  if absent); if no rule matches, the features are used unchanged.  The outcome does not depend
  on how rules share pattern prefixes with earlier or later rules.

Model: `Vibrato/Model/Rewriter.lean` (`build fixed rules`, `rewrite`, `buildAndRewrite`).
Specification: `Vibrato/Model/RewriterSpec.lean` (`Matches`, `applyRule`, `firstMatch`, `GoodRules`).
`fixed = false` is the edge-reuse policy of the pinned tree, `fixed = true` the minimal repair
(finding F10: reuse an edge only if it is the node's last action).
-/
import Vibrato.Model.Rewriter
import Vibrato.Model.RewriterSpec
import Vibrato.Proofs.RewriterFirstMatch
import Vibrato.Proofs.RewriterContig
import Vibrato.Proofs.RewriterSound

namespace Vibrato.C17
open Vibrato.Rewriter

/-- Readable form of `Matches`: the pattern is not longer than the feature list and every
pattern cell matches the feature at its position. -/
theorem matches_iff (rule : RawRule) (f : List Str) :
    Matches rule f ↔
      rule.1.length ≤ f.length ∧
      ∀ (i : Nat) (p x : Str), rule.1[i]? = some p → f[i]? = some x → CellMatches p x :=
  matchesCells_iff_index rule.1 f

example : Matches (["*".toList, "(a|b)".toList, "c".toList], []) ["q".toList, "b".toList, "c".toList, "d".toList] := by
  decide
example : ¬ Matches (["*".toList, "*".toList], []) ["q".toList] := by decide

/-- **C17, repaired builder.**  For ALL rule lists (without unregistrable `$n` cells) and ALL
feature lists: building the trie with the repaired policy and running the explicit-stack search
of `rewrite` returns the output of the first registered rule that matches, and `none` when no
rule matches. -/
theorem rewrite_first_match (rules : List RawRule) (f : List Str) (hgood : GoodRules rules) :
    buildAndRewrite true rules f =
      .ok ((rules.find? (fun r => decide (Matches r f))).map (applyRule · f)) :=
  buildAndRewrite_true rules f hgood

example :
    buildAndRewrite true
      [(["*".toList, "x".toList], ["R1".toList]),
       (["a".toList, "y".toList], ["R2".toList, "$2".toList, "$1".toList, "$3".toList]),
       (["*".toList, "y".toList], ["R3".toList])]
      ["a".toList, "y".toList]
    = .ok (some ["R2".toList, "y".toList, "a".toList, "*".toList]) := by
  decide

/-- The same without any hypothesis: the outcome is the specified one for every input, where the
specification says `panic` exactly when a rewrite cell is `$0` or `$n` with `n > usize::MAX`. -/
theorem rewrite_first_match_total (rules : List RawRule) (f : List Str) :
    buildAndRewrite true rules f = specOutcome rules f :=
  buildAndRewrite_true_total rules f

/-- `none` exactly when no rule matches (so that the caller keeps the input features). -/
theorem rewrite_none_iff (rules : List RawRule) (f : List Str) (hgood : GoodRules rules) :
    buildAndRewrite true rules f = .ok none ↔ ∀ r ∈ rules, ¬ Matches r f := by
  rw [rewrite_first_match rules f hgood]
  simp only [Outcome.ok.injEq, Option.map_eq_none_iff, List.find?_eq_none, decide_eq_true_eq]

example : buildAndRewrite true [(["a".toList], ["b".toList])] ["c".toList] = .ok none := by decide

/-- Caller side (`extract_feature_set`): rewritten features, or the features unchanged when no
rule matches. -/
theorem rewriteOrSame_spec (rules : List RawRule) (f : List Str) (hgood : GoodRules rules)
    (nodes : Trie) (hb : build true rules = .ok nodes) :
    rewriteOrSame nodes f = .ok ((firstMatch rules f).getD f) := by
  have h := rewrite_first_match rules f hgood
  unfold buildAndRewrite at h
  rw [hb] at h
  simp only at h
  unfold rewriteOrSame
  rw [h]
  unfold firstMatch
  cases (rules.find? fun r => decide (Matches r f)) <;> rfl

/-- A rule list containing an unregistrable reference makes `add_rule` panic (both policies). -/
theorem bad_ref_panics (fixed : Bool) (rules : List RawRule) (f : List Str)
    (hbad : ∃ r ∈ rules, ∃ c ∈ r.2, BadRef c) : buildAndRewrite fixed rules f = .panic :=
  buildAndRewrite_panic fixed rules f hbad

example : buildAndRewrite false [(["*".toList], ["$0".toList])] ["q".toList] = .panic := by decide

/-- The `while` loop of `rewrite` terminates for EVERY node vector (also ones not produced by the
builder, e.g. decoded from a model file) and every feature list. -/
theorem rewrite_terminates (nodes : Trie) (f : List Str) : rewrite nodes f ≠ .hang :=
  rewrite_ne_hang nodes f

/-- The rule list of the replay: `*,x → R1`, `a,y → R2`, `*,y → R3`. -/
def witnessRules : List RawRule :=
  [([['*'], ['x']], [['R', '1']]), ([['a'], ['y']], [['R', '2']]), ([['*'], ['y']], [['R', '3']])]

theorem witnessRules_good : GoodRules witnessRules := by
  intro r hr c hc
  simp only [witnessRules, List.mem_cons, List.not_mem_nil, or_false] at hr
  rcases hr with rfl | rfl | rfl <;>
    (simp only [List.mem_cons, List.not_mem_nil, or_false] at hc; subst hc; rintro ⟨n, hn, _⟩;
     simp [refNumber] at hn)

example : ∃ nodes, build true witnessRules = .ok nodes ∧
    rewriteOrSame nodes [['a'], ['y']] = .ok [['R', '2']] ∧
    rewriteOrSame nodes [['b'], ['z']] = .ok [['b'], ['z']] := by
  cases h : build true witnessRules with
  | ok nodes =>
    refine ⟨nodes, rfl, ?_, ?_⟩
    · rw [rewriteOrSame_spec witnessRules _ witnessRules_good nodes h]; decide
    · rw [rewriteOrSame_spec witnessRules _ witnessRules_good nodes h]; decide
  | err => exact absurd h (by decide)
  | panic => exact absurd h (by decide)
  | hang => exact absurd h (by decide)

/-- **Pinned tree violates C17.**  With the policy of the pinned tree (reuse ANY equal edge) the
rules `*,x → R1`, `a,y → R2`, `*,y → R3` rewrite `(a,y)` with the THIRD rule although the second
one is the first that matches. -/
theorem pinned_violates :
    ∃ (rules : List RawRule) (f : List Str), GoodRules rules ∧
      buildAndRewrite false rules f ≠ .ok (firstMatch rules f) :=
  ⟨witnessRules, [['a'], ['y']], witnessRules_good, by decide⟩

/-- The concrete replay, both sides evaluated. -/
theorem pinned_violates_values :
    buildAndRewrite false
      [([['*'], ['x']], [['R', '1']]), ([['a'], ['y']], [['R', '2']]),
       ([['*'], ['y']], [['R', '3']])] [['a'], ['y']] = .ok (some [['R', '3']]) ∧
    firstMatch
      [([['*'], ['x']], [['R', '1']]), ([['a'], ['y']], [['R', '2']]),
       ([['*'], ['y']], [['R', '3']])] [['a'], ['y']] = some [['R', '2']] := by
  decide

/-- Consequently the full-strength statement is FALSE for `fixed = false`. -/
theorem pinned_not_first_match :
    ¬ ∀ (rules : List RawRule) (f : List Str), GoodRules rules →
        buildAndRewrite false rules f = .ok (firstMatch rules f) := by
  intro h
  obtain ⟨rules, f, hg, hne⟩ := pinned_violates
  exact hne (h rules f hg)

/-! ### What is still true on the pinned tree (`fixed = false`)

The full-strength statement (`rewrite_first_match` with `fixed = false`) is false
(`pinned_not_first_match`).  Proved instead: -/

/-- **Partial, pinned tree (1).**  If no two rules share a pattern prefix with a different rule
registered in between (`NoInterleaving`), the pinned builder only ever reuses the last action of
a node and builds exactly the trie of the repaired builder. -/
theorem pinned_same_trie_partial (rules : List RawRule) (h : NoInterleaving rules) :
    build false rules = build true rules :=
  build_false_eq_true rules h

/-- **Partial, pinned tree (2).**  Hence on such rule lists C17 holds for the pinned tree too. -/
theorem rewrite_first_match_pinned_partial (rules : List RawRule) (f : List Str)
    (hgood : GoodRules rules) (h : NoInterleaving rules) :
    buildAndRewrite false rules f = .ok (firstMatch rules f) := by
  have := rewrite_first_match rules f hgood
  unfold buildAndRewrite at this ⊢
  rw [pinned_same_trie_partial rules h]
  exact this

/-- The three rules `a,x` `a,y` `b,z` do not interleave (the witness of `pinned_violates` does:
`*,x` and `*,y` share `*` with `a,y` in between). -/
theorem noInterleaving_example :
    NoInterleaving [([['a'], ['x']], [['1']]), ([['a'], ['y']], [['2']]),
                    ([['b'], ['z']], [['3']])] := by
  intro i j k a b c hij hjk ha hb hc n hn
  have hk : k < 3 := by
    have := (List.getElem?_eq_some_iff.mp hc).1; simpa using this
  obtain rfl : i = 0 := by omega
  obtain rfl : j = 1 := by omega
  obtain rfl : k = 2 := by omega
  simp only [List.getElem?_cons_zero, List.getElem?_cons_succ, Option.some.injEq] at ha hb hc
  subst ha hb hc
  cases n with
  | zero => rfl
  | succ n =>
    have hab : sameCell ['a'] ['b'] = false := by decide
    simp [sharePrefix, hab] at hn

example (f : List Str) :
    buildAndRewrite false [([['a'], ['x']], [['1']]), ([['a'], ['y']], [['2']]),
                           ([['b'], ['z']], [['3']])] f
      = .ok (firstMatch [([['a'], ['x']], [['1']]), ([['a'], ['y']], [['2']]),
                         ([['b'], ['z']], [['3']])] f) := by
  apply rewrite_first_match_pinned_partial _ _ _ noInterleaving_example
  intro r hr c hc
  simp only [List.mem_cons, List.not_mem_nil, or_false] at hr
  rcases hr with rfl | rfl | rfl <;>
    (simp only [List.mem_cons, List.not_mem_nil, or_false] at hc; subst hc; rintro ⟨n, hn, _⟩;
     simp [refNumber] at hn)

/-- **Partial, pinned tree (3); exact criterion per rule list.**  Whenever the two builders
happen to produce the same trie (decidable by evaluation), the pinned outcome is the specified
one. -/
theorem rewrite_first_match_pinned_of_same_trie_partial (rules : List RawRule) (f : List Str)
    (hgood : GoodRules rules) (h : build false rules = build true rules) :
    buildAndRewrite false rules f = .ok (firstMatch rules f) := by
  have := rewrite_first_match rules f hgood
  unfold buildAndRewrite at this ⊢
  rw [h]
  exact this

/-- **Partial, both policies, ALL rule lists.**  The rewriter never invents or loses a match:
the result is the output of SOME rule that matches, and `none` exactly when no rule matches (so
the fallback to the unchanged features is right on the pinned tree as well).  Only the choice
among several matching rules is wrong on the pinned tree. -/
theorem rewrite_some_matching_rule_partial (fixed : Bool) (rules : List RawRule) (f : List Str)
    (hgood : GoodRules rules) :
    (∃ r ∈ rules, Matches r f ∧ buildAndRewrite fixed rules f = .ok (some (applyRule r f))) ∨
    ((∀ r ∈ rules, ¬ Matches r f) ∧ buildAndRewrite fixed rules f = .ok none) :=
  buildAndRewrite_sound fixed rules f hgood

example : ∃ r ∈ witnessRules, Matches r [['a'], ['y']] ∧
    buildAndRewrite false witnessRules [['a'], ['y']] = .ok (some (applyRule r [['a'], ['y']])) := by
  rcases rewrite_some_matching_rule_partial false witnessRules [['a'], ['y']] witnessRules_good
    with h | ⟨_, h⟩
  · exact h
  · exact absurd h (by decide)

/-- In particular the pinned tree agrees with the specification whenever all matching rules
give the same output (e.g. at most one rule matches). -/
theorem rewrite_first_match_pinned_unique_partial (rules : List RawRule) (f : List Str)
    (hgood : GoodRules rules)
    (huniq : ∀ r ∈ rules, ∀ r' ∈ rules, Matches r f → Matches r' f → applyRule r f = applyRule r' f) :
    buildAndRewrite false rules f = .ok (firstMatch rules f) := by
  rcases rewrite_some_matching_rule_partial false rules f hgood with ⟨r, hr, hm, hres⟩ | ⟨hno, hres⟩
  · rw [hres]
    unfold firstMatch
    cases hfind : rules.find? (fun r => decide (Matches r f)) with
    | none =>
      rw [List.find?_eq_none] at hfind
      exact absurd (by simpa using hm) (hfind r hr)
    | some r' =>
      have hr' := List.mem_of_find?_eq_some hfind
      have hm' : Matches r' f := by simpa using List.find?_some hfind
      simp only [Option.map_some, huniq r hr r' hr' hm hm']
  · rw [hres]
    unfold firstMatch
    have : rules.find? (fun r => decide (Matches r f)) = none := by
      rw [List.find?_eq_none]; intro r hr; simpa using hno r hr
    rw [this]; rfl

end Vibrato.C17
