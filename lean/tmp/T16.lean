import Vibrato.Proofs.LatticeW
open Vibrato
def main (args : List String) : IO Unit := do
  let W := args.head!.toNat!
  let Lt := buildLatticeW 65536 (wrapEnv W)
  IO.println (repr ((tokensOf Lt).map (·.map fun t => (t.startWord, t.endWord, t.node.wordId, t.node.minCost))))
  IO.println (idxExact 65536 Lt)
