import Vibrato.Util.Wire
